(* driver.ml — trusted glue around the extracted model.
   Reads one case per line on stdin (token syntax: decimal number | x<hex> | ( tok* )),
   applies Model.run_case and prints the resulting token on one line. *)
open Model

let rec pos_of_int (i : int) : positive =
  if i = 1 then XH
  else if i land 1 = 1 then XI (pos_of_int (i lsr 1))
  else XO (pos_of_int (i lsr 1))
let n_of_int (i : int) : n = if i = 0 then N0 else Npos (pos_of_int i)

(* decimal string -> N through the extracted N.of_uint (numbers may exceed OCaml's int) *)
let n_of_decimal (s : string) : n =
  let d = ref Nil in
  for i = String.length s - 1 downto 0 do
    d := (match s.[i] with
          | '0' -> D0 !d | '1' -> D1 !d | '2' -> D2 !d | '3' -> D3 !d | '4' -> D4 !d
          | '5' -> D5 !d | '6' -> D6 !d | '7' -> D7 !d | '8' -> D8 !d | '9' -> D9 !d
          | c -> failwith (Printf.sprintf "bad digit %c" c))
  done;
  N.of_uint !d

let decimal_of_n (x : n) : string =
  let b = Buffer.create 20 in
  let rec go = function
    | Nil -> ()
    | D0 d -> Buffer.add_char b '0'; go d | D1 d -> Buffer.add_char b '1'; go d
    | D2 d -> Buffer.add_char b '2'; go d | D3 d -> Buffer.add_char b '3'; go d
    | D4 d -> Buffer.add_char b '4'; go d | D5 d -> Buffer.add_char b '5'; go d
    | D6 d -> Buffer.add_char b '6'; go d | D7 d -> Buffer.add_char b '7'; go d
    | D8 d -> Buffer.add_char b '8'; go d | D9 d -> Buffer.add_char b '9'; go d in
  go (N.to_uint x); Buffer.contents b

let rec int_of_pos = function XH -> 1 | XO p -> 2 * int_of_pos p | XI p -> 2 * int_of_pos p + 1
let int_of_n = function N0 -> 0 | Npos p -> int_of_pos p

let byte_tab = Array.init 256 n_of_int

let hexval c = match c with
  | '0'..'9' -> Char.code c - 48 | 'a'..'f' -> Char.code c - 87
  | _ -> failwith "bad hex"

(* parser *)
let parse (s : string) : tok =
  let len = String.length s in
  let i = ref 0 in
  let skip () = while !i < len && s.[!i] = ' ' do incr i done in
  let rec tokp () : tok =
    skip ();
    if !i >= len then failwith "eof";
    match s.[!i] with
    | '(' ->
        incr i;
        let acc = ref [] in
        let fin = ref false in
        while not !fin do
          skip ();
          if !i >= len then failwith "eof in list";
          if s.[!i] = ')' then (incr i; fin := true)
          else acc := tokp () :: !acc
        done;
        TL (List.rev !acc)
    | 'x' ->
        incr i;
        let st = !i in
        while !i < len && s.[!i] <> ' ' && s.[!i] <> ')' && s.[!i] <> '(' do incr i done;
        let h = String.sub s st (!i - st) in
        let n = String.length h / 2 in
        let rec build k acc = if k < 0 then acc else
            build (k - 1) (byte_tab.(hexval h.[2*k] * 16 + hexval h.[2*k+1]) :: acc) in
        TB (build (n - 1) [])
    | '0'..'9' ->
        let st = !i in
        while !i < len && s.[!i] >= '0' && s.[!i] <= '9' do incr i done;
        let d = String.sub s st (!i - st) in
        if String.length d <= 17 then TN (n_of_int (int_of_string d)) else TN (n_of_decimal d)
    | c -> failwith (Printf.sprintf "bad char %c at %d" c !i)
  in tokp ()

let rec print (b : Buffer.t) (t : tok) : unit =
  match t with
  | TN x -> Buffer.add_string b (decimal_of_n x)
  | TB l -> Buffer.add_char b 'x';
      List.iter (fun x -> Buffer.add_string b (Printf.sprintf "%02x" (int_of_n x))) l
  | TL l -> Buffer.add_char b '(';
      List.iteri (fun k x -> if k > 0 then Buffer.add_char b ' '; print b x) l;
      Buffer.add_char b ')'

let () =
  try
    while true do
      let line = input_line stdin in
      if String.length line > 0 then begin
        let out = (try
                     let b = Buffer.create 256 in
                     print b (run_case (parse line)); Buffer.contents b
                   with Failure m -> "!driver-error " ^ m
                      | Stack_overflow -> "!driver-error stack-overflow") in
        print_string out; print_newline (); flush stdout
      end
    done
  with End_of_file -> ()
