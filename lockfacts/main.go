// lockfacts — translator for C07: reads the current sources of /repo and emits, as a Coq list,
// for every exported method of the five in-memory structures which guarded state it touches
// (directly or through helpers on the same receiver / same-type arguments) and whether it does so
// under the structure's lock. Anything it cannot classify is emitted as Unknown (which fails the
// well-lockedness check: sound direction).
package main

import (
	"fmt"
	"go/ast"
	"go/parser"
	"go/token"
	"os"
	"path/filepath"
	"sort"
	"strings"
)

// guarded state per type: fields whose contents are changed by update / merge / reset operations
var guarded = map[string]map[string]bool{
	"BloomFilter":    {"filter": true},
	"CuckooFilter":   {"buckets": true, "length": true},
	"CountMinSketch": {"matrix": true, "allSum": true},
	"HyperLogLog":    {"registers": true},
	"TopK":           {"heap": true}, // the sketch pointer only changes in Import/ReadFrom; its contents are under the sketch's own lock
}

type method struct {
	typ, name string
	decl      *ast.FuncDecl
	recv      string
}

type fact struct {
	typ, name       string
	locked          int // 0 no, 1 Lock + deferred unlock at the top, 3 RLock likewise, 2 / 4 the same conditional on isBitSetMem
	reads, writes   []string
	argTouched      bool // touches guarded state of an argument of the same type
	argLocked       bool
	unknown         bool
	reentrant       bool // holds the receiver's lock and calls a method of the receiver that takes it again
	lockReleasedMid bool
}

func recvInfo(fd *ast.FuncDecl) (typ, name string) {
	if fd.Recv == nil || len(fd.Recv.List) == 0 {
		return "", ""
	}
	f := fd.Recv.List[0]
	t := f.Type
	if s, ok := t.(*ast.StarExpr); ok {
		t = s.X
	}
	if id, ok := t.(*ast.Ident); ok {
		typ = id.Name
	}
	if len(f.Names) > 0 {
		name = f.Names[0].Name
	}
	return
}

// isLockCall reports recv.lock.Lock()/RLock() (kind "lock") or Unlock()/RUnlock() ("unlock").
func lockCall(e ast.Expr, recv string) string {
	c, ok := e.(*ast.CallExpr)
	if !ok {
		return ""
	}
	sel, ok := c.Fun.(*ast.SelectorExpr)
	if !ok {
		return ""
	}
	inner, ok := sel.X.(*ast.SelectorExpr)
	if !ok || inner.Sel.Name != "lock" {
		return ""
	}
	id, ok := inner.X.(*ast.Ident)
	if !ok || id.Name != recv {
		return ""
	}
	switch sel.Sel.Name {
	case "Lock":
		return "lock"
	case "RLock":
		return "rlock"
	case "Unlock", "RUnlock":
		return "unlock"
	}
	return ""
}

func isLock(k string) bool { return k == "lock" || k == "rlock" }

func lockedAtTop(body *ast.BlockStmt, recv string) int {
	if body == nil || len(body.List) < 2 {
		return 0
	}
	// plain: recv.lock.Lock(); defer recv.lock.Unlock()
	if es, ok := body.List[0].(*ast.ExprStmt); ok && isLock(lockCall(es.X, recv)) {
		if ds, ok := body.List[1].(*ast.DeferStmt); ok && lockCall(ds.Call, recv) == "unlock" {
			if lockCall(es.X, recv) == "rlock" {
				return 3
			}
			return 1
		}
		return 0
	}
	// Bloom: if isBitSetMem(recv.filter) { Lock; defer Unlock }
	if is, ok := body.List[0].(*ast.IfStmt); ok && is.Else == nil && is.Init == nil {
		if c, ok := is.Cond.(*ast.CallExpr); ok {
			if id, ok := c.Fun.(*ast.Ident); ok && id.Name == "isBitSetMem" && len(is.Body.List) == 2 {
				if es, ok := is.Body.List[0].(*ast.ExprStmt); ok && isLock(lockCall(es.X, recv)) {
					if ds, ok := is.Body.List[1].(*ast.DeferStmt); ok && lockCall(ds.Call, recv) == "unlock" {
						if lockCall(es.X, recv) == "rlock" {
							return 4
						}
						return 2
					}
				}
			}
		}
	}
	return 0
}

type analyzer struct {
	methods map[string]*method // "Type.name"
	embeds  map[string][]string
}

// touches collects guarded fields of `typ` accessed through identifier `v` in node n, following
// calls v.helper(...) to unexported/exported methods of the same type (depth-limited).
func (a *analyzer) touches(typ, v string, n ast.Node, reads, writes map[string]bool, depth int, seen map[string]bool) {
	if n == nil || depth > 4 {
		return
	}
	g := guarded[typ]
	lhs := map[ast.Expr]bool{}
	ast.Inspect(n, func(x ast.Node) bool {
		switch s := x.(type) {
		case *ast.AssignStmt:
			for _, l := range s.Lhs {
				markLHS(l, lhs)
			}
		case *ast.IncDecStmt:
			markLHS(s.X, lhs)
		}
		return true
	})
	addrOf := map[ast.Expr]bool{}
	ast.Inspect(n, func(x ast.Node) bool {
		if u, ok := x.(*ast.UnaryExpr); ok && u.Op == token.AND {
			if _, isRet := u.X.(*ast.SelectorExpr); isRet {
				addrOf[u.X] = true
			}
		}
		return true
	})
	ast.Inspect(n, func(x ast.Node) bool {
		switch s := x.(type) {
		case *ast.SelectorExpr:
			if addrOf[s] && !isHeapArg(n, s) {
				return true // taking the field's address is not an access
			}
			if id, ok := s.X.(*ast.Ident); ok && id.Name == v && g[s.Sel.Name] {
				if lhs[s] {
					writes[s.Sel.Name] = true
				} else {
					reads[s.Sel.Name] = true
				}
			}
		case *ast.CallExpr:
			if sel, ok := s.Fun.(*ast.SelectorExpr); ok {
				// v.helper(...)
				if id, ok := sel.X.(*ast.Ident); ok && id.Name == v {
					if m := a.methods[typ+"."+sel.Sel.Name]; m != nil && !seen[typ+"."+sel.Sel.Name] {
						seen[typ+"."+sel.Sel.Name] = true
						// a callee that takes the lock itself protects its own accesses
						if m.decl.Body != nil && lockedAtTop(m.decl.Body, m.recv) == 0 {
							a.touches(typ, m.recv, m.decl.Body, reads, writes, depth+1, seen)
						}
					}
				}
				// v.field.method(...): a method call on a guarded field may mutate it (bitset Set,
				// bucket add, heap ops): count as write unless the method name is a known reader
				if inner, ok := sel.X.(*ast.SelectorExpr); ok {
					if id, ok := inner.X.(*ast.Ident); ok && id.Name == v && g[inner.Sel.Name] {
						if !readerMethods[sel.Sel.Name] {
							writes[inner.Sel.Name] = true
						}
					}
				}
				// v.buckets[i].add(...)
				if ix, ok := sel.X.(*ast.IndexExpr); ok {
					if inner, ok := ix.X.(*ast.SelectorExpr); ok {
						if id, ok := inner.X.(*ast.Ident); ok && id.Name == v && g[inner.Sel.Name] {
							if !readerMethods[sel.Sel.Name] {
								writes[inner.Sel.Name] = true
							}
						}
					}
				}
			}
			// heap.Push(&t.heap, ...), heap.Pop(&t.heap), heap.Remove(&t.heap, i); atomic.AddUint64(&v.f[i][j], ..)
			for _, arg := range s.Args {
				if u, ok := arg.(*ast.UnaryExpr); ok && u.Op == token.AND {
					base := u.X
					for {
						if ix, ok := base.(*ast.IndexExpr); ok {
							base = ix.X
							continue
						}
						break
					}
					if inner, ok := base.(*ast.SelectorExpr); ok {
						if id, ok := inner.X.(*ast.Ident); ok && id.Name == v && g[inner.Sel.Name] {
							writes[inner.Sel.Name] = true
						}
					}
				}
			}
		}
		return true
	})
}

// isHeapArg: &t.heap passed to container/heap functions is an access (handled as a write below)
func isHeapArg(n ast.Node, s *ast.SelectorExpr) bool {
	found := false
	ast.Inspect(n, func(x ast.Node) bool {
		if c, ok := x.(*ast.CallExpr); ok {
			for _, arg := range c.Args {
				if u, ok := arg.(*ast.UnaryExpr); ok && u.X == ast.Expr(s) {
					found = true
				}
			}
		}
		return true
	})
	return found
}

var readerMethods = map[string]bool{
	"has": true, "hasMulti": true, "getSize": true, "equals": true, "max": true, "bitCount": true,
	"marshal": true, "writeTo": true, "lookup": true, "isFree": true, "getLength": true, "at": true,
	"getElements": true, "Size": true, "indexOf": true, "nextSlot": true, "IndexOf": true, "Len": true,
	"Less": true, "Count": true, "CountString": true, "GetRows": true, "GetColumns": true, "Equals": true,
	"WriteTo": true, "Export": true,
}

// callsLocking: does node n call, on receiver v, a method of typ that takes the receiver's lock
// (directly, or through helpers that do not)? Taking a sync.RWMutex again while holding it blocks
// for ever in exclusive mode, and in shared mode as soon as a writer is waiting in between.
func (a *analyzer) callsLocking(typ, v string, n ast.Node, depth int, seen map[string]bool) bool {
	if n == nil || depth > 4 {
		return false
	}
	found := false
	ast.Inspect(n, func(x ast.Node) bool {
		call, ok := x.(*ast.CallExpr)
		if !ok || found {
			return !found
		}
		sel, ok := call.Fun.(*ast.SelectorExpr)
		if !ok {
			return true
		}
		id, ok := sel.X.(*ast.Ident)
		if !ok || id.Name != v {
			return true
		}
		m := a.methods[typ+"."+sel.Sel.Name]
		if m == nil || m.decl.Body == nil || seen[typ+"."+sel.Sel.Name] {
			return true
		}
		seen[typ+"."+sel.Sel.Name] = true
		if lockedAtTop(m.decl.Body, m.recv) != 0 {
			found = true
			return false
		}
		if a.callsLocking(typ, m.recv, m.decl.Body, depth+1, seen) {
			found = true
			return false
		}
		return true
	})
	return found
}

func markLHS(e ast.Expr, lhs map[ast.Expr]bool) {
	switch x := e.(type) {
	case *ast.SelectorExpr:
		lhs[x] = true
	case *ast.IndexExpr:
		markLHS(x.X, lhs)
	case *ast.StarExpr:
		markLHS(x.X, lhs)
	case *ast.ParenExpr:
		markLHS(x.X, lhs)
	}
}

func main() {
	dir := "/repo"
	if len(os.Args) > 1 {
		dir = os.Args[1]
	}
	fset := token.NewFileSet()
	files, _ := filepath.Glob(filepath.Join(dir, "*.go"))
	a := &analyzer{methods: map[string]*method{}}
	for _, f := range files {
		if strings.HasSuffix(f, "_test.go") || strings.HasSuffix(f, "verif_hooks.go") {
			continue
		}
		af, err := parser.ParseFile(fset, f, nil, 0)
		if err != nil {
			fmt.Fprintln(os.Stderr, err)
			os.Exit(1)
		}
		for _, d := range af.Decls {
			fd, ok := d.(*ast.FuncDecl)
			if !ok {
				continue
			}
			typ, recv := recvInfo(fd)
			if typ == "" {
				continue
			}
			a.methods[typ+"."+fd.Name.Name] = &method{typ, fd.Name.Name, fd, recv}
		}
	}
	// Guarded state is not only what the table above names: every field of the receiver that some
	// method within the property's scope assigns (directly, element-wise or by ++/--) is mutable
	// shared state too -- e.g. a scratch buffer or a cache added later. The deserialisers (Import,
	// ReadFrom) are outside the property's operation list and do not make a field guarded.
	for _, m := range a.methods {
		if guarded[m.typ] == nil || m.decl.Body == nil || m.recv == "" || m.name == "Import" || m.name == "ReadFrom" {
			continue
		}
		lhs := map[ast.Expr]bool{}
		ast.Inspect(m.decl.Body, func(x ast.Node) bool {
			switch st := x.(type) {
			case *ast.AssignStmt:
				for _, l := range st.Lhs {
					markLHS(l, lhs)
				}
			case *ast.IncDecStmt:
				markLHS(st.X, lhs)
			}
			return true
		})
		for e := range lhs {
			if sel, ok := e.(*ast.SelectorExpr); ok {
				if id, ok := sel.X.(*ast.Ident); ok && id.Name == m.recv && sel.Sel.Name != "lock" {
					guarded[m.typ][sel.Sel.Name] = true
				}
			}
		}
	}
	var facts []fact
	for _, m := range a.methods {
		if guarded[m.typ] == nil || !ast.IsExported(m.name) {
			continue
		}
		f := fact{typ: m.typ, name: m.name}
		if m.decl.Body == nil || m.recv == "" {
			f.unknown = m.decl.Body == nil
			facts = append(facts, f)
			continue
		}
		f.locked = lockedAtTop(m.decl.Body, m.recv)
		if f.locked != 0 && a.callsLocking(m.typ, m.recv, m.decl.Body, 0, map[string]bool{m.typ + "." + m.name: true}) {
			f.reentrant = true
		}
		reads, writes := map[string]bool{}, map[string]bool{}
		a.touches(m.typ, m.recv, m.decl.Body, reads, writes, 0, map[string]bool{m.typ + "." + m.name: true})
		for k := range reads {
			f.reads = append(f.reads, k)
		}
		for k := range writes {
			f.writes = append(f.writes, k)
		}
		sort.Strings(f.reads)
		sort.Strings(f.writes)
		// arguments of the same type
		if m.decl.Type.Params != nil {
			for _, p := range m.decl.Type.Params.List {
				t := p.Type
				if s, ok := t.(*ast.StarExpr); ok {
					t = s.X
				}
				if id, ok := t.(*ast.Ident); ok && id.Name == m.typ {
					for _, nm := range p.Names {
						ar, aw := map[string]bool{}, map[string]bool{}
						a.touches(m.typ, nm.Name, m.decl.Body, ar, aw, 0, map[string]bool{})
						if len(ar)+len(aw) > 0 {
							f.argTouched = true
							// is the argument's lock taken anywhere in the body?
							ast.Inspect(m.decl.Body, func(x ast.Node) bool {
								if es, ok := x.(*ast.ExprStmt); ok && isLock(lockCall(es.X, nm.Name)) {
									f.argLocked = true
								}
								return true
							})
						}
					}
				}
			}
		}
		// an explicit (non-deferred) unlock in the body means the lock may be released early
		ast.Inspect(m.decl.Body, func(x ast.Node) bool {
			if es, ok := x.(*ast.ExprStmt); ok && lockCall(es.X, m.recv) == "unlock" {
				f.lockReleasedMid = true
			}
			return true
		})
		facts = append(facts, f)
	}
	sort.Slice(facts, func(i, j int) bool {
		if facts[i].typ != facts[j].typ {
			return facts[i].typ < facts[j].typ
		}
		return facts[i].name < facts[j].name
	})
	// emit Coq
	fmt.Println("(* GENERATED by /verif/lockfacts from the current sources of /repo — do not edit. *)")
	fmt.Println("From Coq Require Import List String.")
	fmt.Println("From GX.Model Require Import Conc.")
	fmt.Println("Import ListNotations.")
	fmt.Println("Open Scope string_scope.")
	fmt.Println("Definition facts : list lock_fact := [")
	for i, f := range facts {
		sep := ";"
		if i == len(facts)-1 {
			sep = ""
		}
		lk := "Unlocked"
		switch {
		case f.unknown:
			lk = "UnknownLocking"
		case f.reentrant:
			lk = "Reentrant"
		case f.lockReleasedMid:
			lk = "ReleasedEarly"
		case f.locked == 1:
			lk = "Locked"
		case f.locked == 2:
			lk = "LockedWhenInMemory"
		case f.locked == 3:
			lk = "ReadLocked"
		case f.locked == 4:
			lk = "ReadLockedWhenInMemory"
		}
		fmt.Printf("  mkFact %q %q %s %s %s %v %v%s\n", f.typ, f.name, lk, coqList(f.reads), coqList(f.writes),
			coqBool(f.argTouched), coqBool(f.argLocked), sep)
	}
	fmt.Println("].")
}

func coqList(l []string) string {
	q := make([]string, len(l))
	for i, s := range l {
		q[i] = fmt.Sprintf("%q", s)
	}
	return "[" + strings.Join(q, "; ") + "]"
}
func coqBool(b bool) string {
	if b {
		return "true"
	}
	return "false"
}
