module verif/lockfacts

go 1.19
