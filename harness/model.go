package main

import (
	"bufio"
	"fmt"
	"io"
	"os"
	"os/exec"
)

// ModelDriver is the extracted Coq model running as a child process (one case per line).
type ModelDriver struct {
	cmd *exec.Cmd
	in  io.WriteCloser
	out *bufio.Reader
	// Dump: when set, up to DumpPer (case, answer) pairs per suite are written there, one pair per
	// two lines, for the replay of the same cases inside Coq (vm_compute on Run.run_case): the
	// extraction and the OCaml glue are then checked against the definitions the theorems are about.
	Dump     *os.File
	DumpPer  int
	DumpMax  int
	dumpLeft int
}

// NextSuite resets the per-suite quota of dumped cases.
func (m *ModelDriver) NextSuite() { m.dumpLeft = m.DumpPer }

func StartModel(path string) (*ModelDriver, error) {
	cmd := exec.Command(path)
	in, err := cmd.StdinPipe()
	if err != nil {
		return nil, err
	}
	out, err := cmd.StdoutPipe()
	if err != nil {
		return nil, err
	}
	if err := cmd.Start(); err != nil {
		return nil, err
	}
	return &ModelDriver{cmd: cmd, in: in, out: bufio.NewReaderSize(out, 1<<20)}, nil
}

// Run sends one case and returns the model's observation list.
func (m *ModelDriver) Run(c Tok) (Tok, error) {
	if _, err := io.WriteString(m.in, c.String()+"\n"); err != nil {
		return Tok{}, err
	}
	line, err := m.out.ReadString('\n')
	if err != nil {
		return Tok{}, fmt.Errorf("model driver died: %v", err)
	}
	line = line[:len(line)-1]
	if len(line) > 0 && line[0] == '!' {
		return Tok{}, fmt.Errorf("model driver: %s", line)
	}
	if m.Dump != nil && m.dumpLeft > 0 {
		if cs := c.String(); len(cs)+len(line) <= m.DumpMax {
			m.dumpLeft--
			fmt.Fprintf(m.Dump, "%s\n%s\n", cs, line)
		}
	}
	return ParseTok(line)
}

func (m *ModelDriver) Close() {
	m.in.Close()
	m.cmd.Wait()
}
