package main

import (
	"bufio"
	"fmt"
	"io"
	"os/exec"
)

// ModelDriver is the extracted Coq model running as a child process (one case per line).
type ModelDriver struct {
	cmd *exec.Cmd
	in  io.WriteCloser
	out *bufio.Reader
}

func StartModel(path string) (*ModelDriver, error) {
	cmd := exec.Command(path)
	in, err := cmd.StdinPipe()
	if err != nil {
		return nil, err
	}
	out, err := cmd.StdoutPipe()
	if err != nil {
		return nil, err
	}
	if err := cmd.Start(); err != nil {
		return nil, err
	}
	return &ModelDriver{cmd: cmd, in: in, out: bufio.NewReaderSize(out, 1<<20)}, nil
}

// Run sends one case and returns the model's observation list.
func (m *ModelDriver) Run(c Tok) (Tok, error) {
	if _, err := io.WriteString(m.in, c.String()+"\n"); err != nil {
		return Tok{}, err
	}
	line, err := m.out.ReadString('\n')
	if err != nil {
		return Tok{}, fmt.Errorf("model driver died: %v", err)
	}
	line = line[:len(line)-1]
	if len(line) > 0 && line[0] == '!' {
		return Tok{}, fmt.Errorf("model driver: %s", line)
	}
	return ParseTok(line)
}

func (m *ModelDriver) Close() {
	m.in.Close()
	m.cmd.Wait()
}
