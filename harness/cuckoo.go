package main

import (
	"fmt"
	"math/rand"
	"sort"
	"strings"

	gx "github.com/kwertop/gostatix"
)

// Cuckoo ops (memory machine 7):
// (0 i size bsize fpl retries) New
// (1 i x destr seed)  Insert -> model form (1 i x destr coin (draws)); obs (outcome evicts)
// (2 i x) Lookup  (3 i x) Remove  (4 i) Length  (5 i) state  (6 x) murmur
const (
	ckNew = iota
	ckInsert
	ckLookup
	ckRemove
	ckLength
	ckState
	ckMurmur
)

func cuckooOpName(op Tok) string {
	names := []string{"New", "Insert", "Lookup", "Remove", "Length", "State", "Murmur", "Export", "Import", "WriteTo", "ReadFrom", "Equals"}
	k := op.L[0].I()
	if k < len(names) {
		return names[k]
	}
	return fmt.Sprint(k)
}

type cuckooMem struct {
	inst map[int]*gx.CuckooFilter
}

func (m *cuckooMem) ID() int     { return 7 }
func (m *cuckooMem) Reset()      { m.inst = map[int]*gx.CuckooFilter{} }
func (m *cuckooMem) Close()      {}
func (m *cuckooMem) Oracle() Tok { return TL() }

// mirrorDraws reproduces the global math/rand draws of one Insert: coin, then one Float64 per
// retry, as integers k with Float64() = k / 2^53.
func mirrorDraws(seed int64, retries uint64) (bool, []uint64) {
	r := rand.New(rand.NewSource(seed))
	coin := r.Float32() < 0.5
	n := retries
	if n > 2000 {
		n = 2000
	}
	draws := make([]uint64, n)
	for i := range draws {
		draws[i] = uint64(r.Float64() * (1 << 53))
	}
	return coin, draws
}

func cuckooStateTok(f *gx.CuckooFilter) Tok {
	slots, lens, sizes, length := gx.VerifCuckooState(f)
	bs := make([]Tok, len(slots))
	for i := range slots {
		sl := make([][]byte, len(slots[i]))
		for j, s := range slots[i] {
			sl[j] = []byte(s)
		}
		bs[i] = TL(TNu(sizes[i]), TNu(lens[i]), TListB(sl))
	}
	return TL(TNu(length), TL(bs...))
}

func (m *cuckooMem) Exec(op Tok) (opOut Tok, obs Tok) {
	opOut = op
	a := op.L
	evict := false
	defer func() {
		if r := recover(); r != nil {
			obs = TPanic(classifyPanic(r))
			if a[0].I() == ckInsert {
				obs = TL(obs, TBool(evict))
			}
		}
	}()
	switch a[0].I() {
	case ckNew:
		m.inst[a[1].I()] = gx.NewCuckooFilterWithRetries(a[2].U(), a[3].U(), a[4].U(), a[5].U())
		return opOut, TUnit()
	case ckInsert:
		f := m.inst[a[1].I()]
		if f == nil {
			return opOut, TL(TNu(9))
		}
		seed := int64(a[4].U())
		_, _, _, retries := gx.VerifCuckooParams(f)
		coin, draws := mirrorDraws(seed, retries)
		// would this insert enter the eviction branch? (both candidate buckets full)
		func() {
			defer func() { recover() }()
			_, i1, i2, _ := gx.VerifCuckooPositions(f, a[2].B)
			_, lens, sizes, _ := gx.VerifCuckooState(f)
			if int(i1) < len(lens) && int(i2) < len(lens) {
				evict = lens[i1] >= sizes[i1] && lens[i2] >= sizes[i2]
			}
		}()
		if !evict {
			draws = nil // the random draws are only consumed in the eviction branch
		}
		opOut = TL(a[0], a[1], a[2], a[3], TBool(coin), TListU(draws))
		rand.Seed(seed)
		ok := f.Insert(el(a[2].B), a[3].U() != 0)
		return opOut, TL(TOk(TBool(ok)), TBool(evict))
	case ckLookup:
		f := m.inst[a[1].I()]
		if f == nil {
			return opOut, TL(TNu(9))
		}
		return opOut, TOk(TBool(f.Lookup(el(a[2].B))))
	case ckRemove:
		f := m.inst[a[1].I()]
		if f == nil {
			return opOut, TL(TNu(9))
		}
		return opOut, TOk(TBool(f.Remove(el(a[2].B))))
	case ckLength:
		f := m.inst[a[1].I()]
		if f == nil {
			return opOut, TL(TNu(9))
		}
		return opOut, TNu(f.Length())
	case ckState:
		f := m.inst[a[1].I()]
		if f == nil {
			return opOut, TL(TNu(9))
		}
		return opOut, cuckooStateTok(f)
	case ckMurmur:
		return opOut, TNu(gx.VerifMurmur(a[1].B))
	}
	return opOut, TL(TNu(9))
}

// ---------- generators ----------
type ckCfg struct{ size, bsize, fpl, retries uint64 }

func (g *Gen) ckCfg() ckCfg {
	c := ckCfg{
		size:    uint64(g.Pick(1, 2, 3, 4, 5, 6, 7, 8, 8, 16, 16, 20)),
		bsize:   uint64(g.Pick(1, 1, 2, 2, 4)),
		fpl:     uint64(g.Pick(1, 2, 2, 3, 4, 6)),
		retries: uint64(g.Pick(0, 1, 2, 3, 5, 10, 50, 500)),
	}
	return c
}

// ckPool: elements with non-empty fingerprints (fp_ok) unless withBad
func (g *Gen) ckPool(n int, withBad bool) [][]byte {
	pool := g.ElementPool(n, withBad)
	return pool
}

func ckInsertOp(g *Gen, i int, x []byte, destr bool) Tok {
	return TL(TNi(ckInsert), TNi(i), TBs(x), TBool(destr), TNu(uint64(g.R.Int63n(1<<40))))
}

// genCuckoo builds histories of Insert/Remove/Lookup that drive small filters to and beyond
// capacity. mode: "C02" (lookups of live elements), "C13" (length/state after every step),
// "C14" (state snapshots around inserts at saturation).
func genCuckoo(mode string) func(g *Gen, tier string) *Case {
	return func(g *Gen, tier string) *Case {
		c := g.ckCfg()
		if mode == "C14" {
			c.size = uint64(g.Pick(1, 2, 3, 4, 8))
			c.retries = uint64(g.Pick(1, 2, 3, 7, 20, 100, 300))
		}
		if mode == "C14" && g.Rare(0.05, 50, 11) {
			return genCuckooLarge(g)
		}
		withBad := g.Chance(0.1)
		if withBad && g.Chance(0.5) {
			c.fpl = uint64(g.Pick(0, 21, 25))
		}
		ops := []Tok{TL(TNi(ckNew), TNi(0), TNu(c.size), TNu(c.bsize), TNu(c.fpl), TNu(c.retries))}
		capacity := int(c.size * c.bsize)
		pool := g.ckPool(2+g.Intn(capacity+6), withBad)
		n := 5 + g.Intn(3*capacity+10)
		if tier == "thorough" {
			n *= 3
		}
		destr := g.Chance(0.4)
		live := map[string]int{}
		var liveList [][]byte
		for j := 0; j < n; j++ {
			x := pool[g.Intn(len(pool))]
			r := g.R.Float64()
			switch {
			case r < 0.55:
				if mode == "C14" || mode == "C13" {
					ops = append(ops, TL(TNi(ckState), TNi(0)))
				}
				d := destr
				if g.Chance(0.1) {
					d = !d
				}
				ops = append(ops, ckInsertOp(g, 0, x, d))
				if mode != "C02" {
					ops = append(ops, TL(TNi(ckState), TNi(0)), TL(TNi(ckLength), TNi(0)))
				}
				live[string(x)]++
				liveList = append(liveList, x)
			case r < 0.75 && len(liveList) > 0:
				// documented usage: remove only previously inserted elements
				y := liveList[g.Intn(len(liveList))]
				ops = append(ops, TL(TNi(ckLookup), TNi(0), TBs(y)))
				if mode != "C02" {
					ops = append(ops, TL(TNi(ckState), TNi(0)))
				}
				ops = append(ops, TL(TNi(ckRemove), TNi(0), TBs(y)))
				if mode != "C02" {
					ops = append(ops, TL(TNi(ckState), TNi(0)), TL(TNi(ckLength), TNi(0)))
				}
			default:
				ops = append(ops, TL(TNi(ckLookup), TNi(0), TBs(x)))
			}
			if mode == "C02" && g.Chance(0.3) {
				for _, y := range pool {
					ops = append(ops, TL(TNi(ckLookup), TNi(0), TBs(y)))
				}
			}
		}
		for _, y := range pool {
			ops = append(ops, TL(TNi(ckLookup), TNi(0), TBs(y)))
		}
		if mode == "C13" && g.Chance(0.5) {
			// drain: remove every element as often as it was inserted
			for _, y := range liveList {
				ops = append(ops, TL(TNi(ckRemove), TNi(0), TBs(y)))
			}
			ops = append(ops, TL(TNi(ckLength), TNi(0)), TL(TNi(ckState), TNi(0)))
			for _, y := range pool {
				ops = append(ops, TL(TNi(ckLookup), TNi(0), TBs(y)))
			}
		}
		if g.Chance(0.2) {
			ops = append(ops, TL(TNi(ckMurmur), TBs(pool[0])))
		}
		return &Case{Ops: ops}
	}
}

// genCuckooLarge: configurations far from the defaults of the test-suite — an eviction walk much
// longer than the default 500 retries on a filter with a few hundred slots (so that some slots are
// touched for the first time late in the walk), or buckets with several hundred slots (slot numbers
// beyond one byte). The filter is filled with distinct elements until inserts fail; the state is
// observed around every insert of the saturated phase.
func genCuckooLarge(g *Gen) *Case {
	var c ckCfg
	if g.Chance(0.5) {
		c = ckCfg{size: 64, bsize: 4, fpl: 6, retries: uint64(g.Pick(520, 700, 900, 1300))}
	} else {
		c = ckCfg{size: uint64(g.Pick(1, 2, 2)), bsize: uint64(g.Pick(260, 300, 300)), fpl: 6, retries: uint64(g.Pick(5, 20, 50))}
	}
	ops := []Tok{TL(TNi(ckNew), TNi(0), TNu(c.size), TNu(c.bsize), TNu(c.fpl), TNu(c.retries))}
	capacity := int(c.size * c.bsize)
	pool := g.ckPool(capacity+10+g.Intn(8), false)
	destr := g.Chance(0.15)
	for j, x := range pool {
		watch := j >= capacity*3/4
		if watch {
			ops = append(ops, TL(TNi(ckState), TNi(0)))
		}
		ops = append(ops, ckInsertOp(g, 0, x, destr))
		if watch {
			ops = append(ops, TL(TNi(ckState), TNi(0)), TL(TNi(ckLength), TNi(0)))
		}
	}
	for _, y := range pool {
		ops = append(ops, TL(TNi(ckLookup), TNi(0), TBs(y)))
	}
	return &Case{Ops: ops}
}

func genMurmur(g *Gen, tier string) *Case {
	var ops []Tok
	for l := 0; l <= 48; l++ {
		b := make([]byte, l)
		g.R.Read(b)
		ops = append(ops, TL(TNi(ckMurmur), TBs(b)))
	}
	return &Case{Ops: ops}
}

// ---------- monitors ----------

type ckSnap struct {
	length  uint64
	buckets [][]string
	lens    []uint64
	sizes   []uint64
}

func parseSnap(t Tok) *ckSnap {
	if t.Kind != 2 || len(t.L) != 2 || t.L[1].Kind != 2 {
		return nil
	}
	s := &ckSnap{length: t.L[0].U()}
	for _, b := range t.L[1].L {
		if b.Kind != 2 || len(b.L) != 3 {
			return nil
		}
		s.sizes = append(s.sizes, b.L[0].U())
		s.lens = append(s.lens, b.L[1].U())
		var sl []string
		for _, e := range b.L[2].L {
			sl = append(sl, string(e.B))
		}
		s.buckets = append(s.buckets, sl)
	}
	return s
}

func (s *ckSnap) stored() []string {
	var out []string
	for i, b := range s.buckets {
		for _, e := range b {
			if e != "" {
				out = append(out, fmt.Sprintf("%d:%x", i, e))
			}
		}
	}
	sort.Strings(out)
	return out
}

func (s *ckSnap) fps() []string {
	var out []string
	for _, b := range s.buckets {
		for _, e := range b {
			if e != "" {
				out = append(out, fmt.Sprintf("%x", e))
			}
		}
	}
	sort.Strings(out)
	return out
}

func isPow2(n uint64) bool { return n != 0 && n&(n-1) == 0 }

// fpEmpty: does this element get the empty fingerprint under (fpl)? decimal length of murmur.
func fpEmpty(x []byte, fpl uint64) bool {
	h := gx.VerifMurmur(x)
	return fpl == 0 || uint64(len(fmt.Sprint(h))) < fpl
}

func monitorCuckoo(backend, prop string) Monitor {
	return func(ops, obs []Tok) []MonViolation {
		var out []MonViolation
		type sh struct {
			cfg        ckCfg
			live       map[string]int
			succIns    int
			succRem    int
			evicted    bool // some insert entered the eviction branch
			badFp      bool // an element with empty fingerprint was inserted/removed
			lastLookup map[string]bool
			lastSnap   *ckSnap
			failedIns  bool
			displaced  bool // a failed destructive insert may have displaced one entry (allowed by C14)
			misuse     bool // an element that is not live was removed (outside the documented usage)
		}
		st := map[int]*sh{}
		qual := func(s *sh, x []byte) string {
			switch {
			case fpEmpty(x, s.cfg.fpl):
				return "/empty-fingerprint"
			case !isPow2(s.cfg.size):
				return "/size-not-pow2" // listed regime that alone explains a lost entry; checked before the state-corruption regime below
			case s.badFp:
				return "/after-empty-fingerprint"
			case s.evicted && s.cfg.bsize > 1:
				return "/after-eviction-bsize>1"
			case s.evicted:
				return "/after-eviction"
			}
			return ""
		}
		stateQual := func(s *sh) string {
			if s.badFp {
				return "/after-empty-fingerprint"
			}
			return ""
		}
		for step, op := range ops {
			a, o := op.L, obs[step]
			switch a[0].I() {
			case ckNew:
				st[a[1].I()] = &sh{cfg: ckCfg{a[2].U(), a[3].U(), a[4].U(), a[5].U()}, live: map[string]int{}, lastLookup: map[string]bool{}}
			case ckInsert:
				s := st[a[1].I()]
				if s == nil || o.Kind != 2 || len(o.L) != 2 {
					continue
				}
				res, ev := o.L[0], o.L[1].U() != 0
				x := a[2].B
				if fpEmpty(x, s.cfg.fpl) {
					s.badFp = true
				}
				if ev {
					s.evicted = true
				}
				before := s.lastSnap
				s.lastSnap = nil
				if isOk(res) {
					s.live[string(x)]++
					s.succIns++
					if okPayload(res).U() == 0 && prop == "C14" {
						out = append(out, MonViolation{backend + "/Insert/returned-false", "Insert returned false", step})
					}
				} else if isPanic(res) {
					if res.L[2].U() != panFull {
						if prop == "C14" || prop == "C02" {
							q := ""
							if s.cfg.size == 0 || s.cfg.bsize == 0 {
								q = "/zero-size"
							}
							out = append(out, MonViolation{backend + "/Insert/runtime-panic" + q + stateQual(s), "Insert panicked with a runtime error: " + res.String(), step})
						}
						continue
					}
					s.failedIns = true
					if a[3].U() != 0 {
						s.displaced = true
					}
					if prop == "C14" && before != nil && step+1 < len(ops) && ops[step+1].L[0].I() == ckState {
						after := parseSnap(obs[step+1])
						if after != nil {
							destructive := a[3].U() != 0
							b, af := before.stored(), after.stored()
							if !destructive && strings.Join(b, ",") != strings.Join(af, ",") {
								out = append(out, MonViolation{backend + "/Insert/nondestructive-failure-changed-state" + stateQual(s),
									"failed non-destructive insert changed the stored entries", step})
							}
							if !destructive && before.length != after.length {
								out = append(out, MonViolation{backend + "/Insert/nondestructive-failure-changed-length", "failed insert changed Length", step})
							}
							if destructive {
								// relocations inside the filter are normal; count fingerprints lost from it
								lost := multisetMinus(before.fps(), after.fps())
								if len(lost) > 1 {
									q := ""
									if s.cfg.bsize > 1 {
										q = "/bsize>1"
									}
									out = append(out, MonViolation{backend + "/Insert/destructive-failure-displaced-many" + q + stateQual(s),
										fmt.Sprintf("failed destructive insert displaced %d stored entries", len(lost)), step})
								}
							}
						}
					}
				}
			case ckLookup:
				s := st[a[1].I()]
				if s == nil || !isOk(o) {
					if s != nil && isPanic(o) && prop == "C02" {
						q := ""
						if s.cfg.size == 0 {
							q = "/zero-size"
						}
						out = append(out, MonViolation{backend + "/Lookup/panic" + q, "Lookup panicked", step})
					}
					continue
				}
				got := okPayload(o).U() != 0
				s.lastLookup[string(a[2].B)] = got
				if prop == "C02" && s.live[string(a[2].B)] > 0 && !got && !s.displaced && !s.misuse {
					out = append(out, MonViolation{backend + "/Lookup/false-negative" + qual(s, a[2].B),
						fmt.Sprintf("live element %x (inserted %d more times than removed) reported absent", a[2].B, s.live[string(a[2].B)]), step})
				}
				if prop == "C13" && s.succIns == s.succRem && s.succIns > 0 && got && !s.failedIns && !s.misuse {
					out = append(out, MonViolation{backend + "/Lookup/positive-after-drain" + stateQual(s) + qual(s, a[2].B),
						"every inserted element was removed but a lookup is still positive", step})
				}
			case ckRemove:
				s := st[a[1].I()]
				if s == nil || !isOk(o) {
					continue
				}
				x := a[2].B
				if fpEmpty(x, s.cfg.fpl) {
					s.badFp = true
				}
				got := okPayload(o).U() != 0
				if s.live[string(x)] == 0 {
					s.misuse = true
				}
				prevLookup, known := false, false
				if step > 0 && ops[step-1].L[0].I() == ckLookup && string(ops[step-1].L[2].B) == string(x) && isOk(obs[step-1]) {
					prevLookup, known = okPayload(obs[step-1]).U() != 0, true
				} else if step > 1 && ops[step-1].L[0].I() == ckState && ops[step-2].L[0].I() == ckLookup && string(ops[step-2].L[2].B) == string(x) && isOk(obs[step-2]) {
					prevLookup, known = okPayload(obs[step-2]).U() != 0, true
				}
				before := s.lastSnap
				s.lastSnap = nil
				if got {
					s.succRem++
					if s.live[string(x)] > 0 {
						s.live[string(x)]--
					}
				}
				if prop == "C13" && known {
					if prevLookup && !got {
						out = append(out, MonViolation{backend + "/Remove/present-not-removed" + stateQual(s), "Lookup reported the element present but Remove returned false", step})
					}
					if !prevLookup && got {
						out = append(out, MonViolation{backend + "/Remove/absent-removed" + stateQual(s), "Lookup reported the element absent but Remove returned true", step})
					}
					if before != nil && step+1 < len(ops) && ops[step+1].L[0].I() == ckState {
						after := parseSnap(obs[step+1])
						if after != nil {
							lost := multisetMinus(before.stored(), after.stored())
							gained := multisetMinus(after.stored(), before.stored())
							if got && (len(lost) != 1 || len(gained) != 0) {
								out = append(out, MonViolation{backend + "/Remove/not-exactly-one-entry" + stateQual(s),
									fmt.Sprintf("successful Remove removed %d and added %d entries", len(lost), len(gained)), step})
							}
							if !got && (len(lost) != 0 || len(gained) != 0 || before.length != after.length) {
								out = append(out, MonViolation{backend + "/Remove/failed-remove-changed-state" + stateQual(s), "Remove returned false but the state changed", step})
							}
						}
					}
				}
			case ckLength:
				s := st[a[1].I()]
				if s == nil || o.Kind != 0 || prop != "C13" {
					continue
				}
				if int64(o.U()) != int64(s.succIns-s.succRem) {
					out = append(out, MonViolation{backend + "/Length/not-inserts-minus-removes" + stateQual(s),
						fmt.Sprintf("Length=%d but %d successful inserts and %d successful removes", o.U(), s.succIns, s.succRem), step})
				}
			case ckState:
				s := st[a[1].I()]
				if s == nil {
					continue
				}
				sn := parseSnap(o)
				s.lastSnap = sn
				if sn == nil || prop != "C13" {
					continue
				}
				total, stored := uint64(0), uint64(0)
				for i := range sn.buckets {
					ne := uint64(0)
					for _, e := range sn.buckets[i] {
						if e != "" {
							ne++
						}
					}
					stored += ne
					total += sn.lens[i]
					if ne != sn.lens[i] {
						out = append(out, MonViolation{backend + "/state/bucket-counter-differs-from-slots" + stateQual(s),
							fmt.Sprintf("bucket %d counter %d but %d non-empty slots", i, sn.lens[i], ne), step})
					}
					if ne > s.cfg.bsize {
						out = append(out, MonViolation{backend + "/state/bucket-over-capacity", "bucket holds more than its capacity", step})
					}
				}
				if sn.length != stored {
					out = append(out, MonViolation{backend + "/state/length-differs-from-stored" + stateQual(s),
						fmt.Sprintf("Length=%d but %d stored entries", sn.length, stored), step})
				}
			}
		}
		return out
	}
}

func multisetMinus(a, b []string) []string {
	cnt := map[string]int{}
	for _, x := range b {
		cnt[x]++
	}
	var out []string
	for _, x := range a {
		if cnt[x] > 0 {
			cnt[x]--
		} else {
			out = append(out, x)
		}
	}
	return out
}
