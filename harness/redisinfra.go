package main

import (
	"sync"

	"github.com/alicebob/miniredis/v2"
	gx "github.com/kwertop/gostatix"
	"github.com/redis/go-redis/v9"
)

var (
	mrOnce sync.Once
	mr     *miniredis.Miniredis
	rcli   *redis.Client
)

// redisReset gives every case an empty in-process Redis (miniredis) behind the package client.
func redisReset() {
	mrOnce.Do(func() {
		var err error
		mr, err = miniredis.Run()
		if err != nil {
			panic(err)
		}
		rcli = redis.NewClient(&redis.Options{Addr: mr.Addr()})
		gx.VerifSetRedisClient(rcli)
	})
	if !suppressFlush {
		mr.FlushAll()
	}
}
