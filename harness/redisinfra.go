package main

import (
	"sync"

	"github.com/alicebob/miniredis/v2"
	gx "github.com/kwertop/gostatix"
	"github.com/redis/go-redis/v9"
)

var (
	mrOnce sync.Once
	mr     *miniredis.Miniredis
	rcli   *redis.Client
)

// staleKey checks the library's "fresh random key" mechanism (C19): every key a constructor or an
// import under new keys reports as newly generated must be absent from the database as it was
// before the call, and the keys must be pairwise different. It returns the observation to report
// instead of success when one is not: (78 <key>).
func staleKey(before map[string]bool, keys ...string) (Tok, bool) {
	for i, k := range keys {
		if before[k] {
			return TL(TNu(78), TBs([]byte(k))), true
		}
		for _, k2 := range keys[:i] {
			if k == k2 {
				return TL(TNu(78), TBs([]byte(k))), true
			}
		}
	}
	return Tok{}, false
}

// redisReset gives every case an empty in-process Redis (miniredis) behind the package client.
func redisReset() {
	mrOnce.Do(func() {
		var err error
		mr, err = miniredis.Run()
		if err != nil {
			panic(err)
		}
		rcli = redis.NewClient(&redis.Options{Addr: mr.Addr()})
		gx.VerifSetRedisClient(rcli)
	})
	if !suppressFlush {
		mr.FlushAll()
	}
}
