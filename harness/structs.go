package main

import (
	"fmt"
	"math/rand"
	"unicode/utf8"
)

// structGen describes how to build reachable states of one in-memory structure and how to
// query it, so that persistence / equality properties can be generated uniformly.
type structGen struct {
	name    string
	mk      func() Machine
	build   func(g *Gen, i int, tier string) ([]Tok, [][]byte) // constructor + history on instance i
	extra   func(g *Gen, i int, pool [][]byte) []Tok           // one more state-changing op
	queries func(g *Gen, i int, pool [][]byte) []Tok
	opName  func(Tok) string
	isQuery func(op Tok) bool
	redis   bool
}

func subGen(seed int64) *Gen { return &Gen{R: rand.New(rand.NewSource(seed))} }

var structGens = []structGen{
	{name: "cms-mem", mk: func() Machine { return &withCodec{genericMachine: &cmsMem{}} }, opName: cmsOpName,
		build: func(g *Gen, i int, tier string) ([]Tok, [][]byte) {
			d := g.cmsDims()
			switch g.Tweak {
			case 1:
				d.rows++
			case 2:
				d.cols++
			}
			ops := []Tok{TL(TNi(cmsNew), TNi(i), TNi(d.rows), TNi(d.cols))}
			pool := g.ElementPool(2+g.Intn(8), true)
			target := i
			viaMerge := g.Chance(0.2) // filled only through Merge: derived fields (allSum) never move
			if viaMerge {
				target = i + 2
				ops = append(ops, TL(TNi(cmsNew), TNi(target), TNi(d.rows), TNi(d.cols)))
			}
			for k, n := 0, g.Intn(25); k < n; k++ {
				ops = append(ops, cmsUpdateOp(g, target, pool[g.Intn(len(pool))], g.cmsCount()))
			}
			if viaMerge {
				ops = append(ops, TL(TNi(cmsMerge), TNi(i), TNi(target)))
			}
			return ops, pool
		},
		extra: func(g *Gen, i int, pool [][]byte) []Tok {
			return []Tok{cmsUpdateOp(g, i, pool[g.Intn(len(pool))], g.cmsCount())}
		},
		queries: func(g *Gen, i int, pool [][]byte) []Tok {
			var ops []Tok
			for _, x := range pool {
				ops = append(ops, TL(TNi(cmsCount), TNi(i), TBs(x), TNi(0)))
			}
			return ops
		},
		isQuery: func(op Tok) bool { return op.L[0].I() == cmsCount }},
	{name: "bloom-mem", mk: func() Machine { return &withCodec{genericMachine: &bloomMem{}} }, opName: bloomOpName,
		build: func(g *Gen, i int, tier string) ([]Tok, [][]byte) {
			ctor := g.bloomCtor(i)
			if g.Tweak > 0 {
				if ctor.L[0].I() == blNewParams {
					if g.Tweak == 1 {
						ctor.L[2] = TNu(ctor.L[2].U() + 1 + ctor.L[2].U()/2) // more items: larger size
					} else {
						ctor.L[3] = TNu(ctor.L[3].U()/4 + 1) // smaller error rate: other size/k
					}
				} else {
					if g.Tweak == 1 {
						ctor.L[2] = TL(append(append([]Tok(nil), ctor.L[2].L...), TNu(0))...) // one more word
					} else {
						ctor.L[3] = TNu(ctor.L[3].U() + 1) // other numHashes
					}
				}
			}
			ops := []Tok{ctor}
			pool := g.ElementPool(3+g.Intn(12), true)
			for k, n := 0, g.Intn(20); k < n; k++ {
				ops = append(ops, TL(TNi(blInsert), TNi(i), TBs(pool[g.Intn(len(pool))]), TNi(0)))
			}
			return ops, pool
		},
		extra: func(g *Gen, i int, pool [][]byte) []Tok {
			return []Tok{TL(TNi(blInsert), TNi(i), TBs([]byte(fmt.Sprintf("extra-%d", g.Intn(1000)))), TNi(0))}
		},
		queries: func(g *Gen, i int, pool [][]byte) []Tok {
			ops := []Tok{TL(TNi(blParams), TNi(i))}
			for _, x := range pool {
				ops = append(ops, TL(TNi(blLookup), TNi(i), TBs(x), TNi(0)))
			}
			for k := 0; k < 4; k++ {
				ops = append(ops, TL(TNi(blLookup), TNi(i), TBs([]byte(fmt.Sprintf("fresh-%d", k))), TNi(0)))
			}
			return ops
		},
		isQuery: func(op Tok) bool { k := op.L[0].I(); return k == blLookup || k == blParams }},
	{name: "hll-mem", mk: func() Machine { return &withCodec{genericMachine: &hllMem{}} }, opName: hllOpName,
		build: func(g *Gen, i int, tier string) ([]Tok, [][]byte) {
			m := g.hllM(g.Chance(0.1))
			if g.Tweak == 1 {
				m *= 2
			}
			ops := []Tok{TL(TNi(hlNew), TNi(i), TNu(m))}
			var pool [][]byte
			for k, n := 0, g.Intn(30); k < n; k++ {
				x := []byte(fmt.Sprintf("h%d", g.Intn(1<<28)))
				pool = append(pool, x)
				ops = append(ops, TL(TNi(hlUpdate), TNi(i), TBs(x)))
			}
			if len(pool) == 0 {
				pool = [][]byte{[]byte("h0")}
			}
			return ops, pool
		},
		extra: func(g *Gen, i int, pool [][]byte) []Tok {
			return []Tok{TL(TNi(hlUpdate), TNi(i), TBs([]byte(fmt.Sprintf("x%d", g.Intn(1<<28)))))}
		},
		queries: func(g *Gen, i int, pool [][]byte) []Tok {
			return []Tok{TL(TNi(hlRegs), TNi(i)), TL(TNi(hlCount), TNi(i), TNi(0), TNi(0)), TL(TNi(hlCount), TNi(i), TNi(1), TNi(1))}
		},
		isQuery: func(op Tok) bool { k := op.L[0].I(); return k == hlRegs || k == hlCount }},
	{name: "cuckoo-mem", mk: func() Machine { return &withCodec{genericMachine: &cuckooMem{}} }, opName: cuckooOpName,
		build: func(g *Gen, i int, tier string) ([]Tok, [][]byte) {
			c := g.ckCfg()
			c.size = uint64(g.Pick(1, 2, 4, 8, 16)) // power of two, fingerprints non-empty: the regime where C02 holds
			switch g.Tweak {
			case 1:
				c.size *= 2
			case 2:
				c.bsize++
			case 3:
				c.fpl++
			case 4:
				c.retries++
			}
			ops := []Tok{TL(TNi(ckNew), TNi(i), TNu(c.size), TNu(c.bsize), TNu(c.fpl), TNu(c.retries))}
			pool := g.ElementPool(2+g.Intn(int(c.size*c.bsize)+2), false)
			var live [][]byte
			for k, n := 0, g.Intn(int(2*c.size*c.bsize)+4); k < n; k++ {
				if len(live) > 0 && g.Chance(0.3) {
					j := g.Intn(len(live))
					ops = append(ops, TL(TNi(ckRemove), TNi(i), TBs(live[j])))
					live = append(live[:j], live[j+1:]...)
				} else {
					x := pool[g.Intn(len(pool))]
					ops = append(ops, ckInsertOp(g, i, x, false))
					live = append(live, x)
				}
			}
			return ops, pool
		},
		extra: func(g *Gen, i int, pool [][]byte) []Tok {
			if g.Chance(0.35) { // removals through either handle free slots the other handle may have seen full
				return []Tok{TL(TNi(ckRemove), TNi(i), TBs(pool[g.Intn(len(pool))]))}
			}
			return []Tok{ckInsertOp(g, i, pool[g.Intn(len(pool))], false)}
		},
		queries: func(g *Gen, i int, pool [][]byte) []Tok {
			ops := []Tok{TL(TNi(ckLength), TNi(i)), TL(TNi(ckState), TNi(i))}
			for _, x := range pool {
				ops = append(ops, TL(TNi(ckLookup), TNi(i), TBs(x)))
			}
			return ops
		},
		isQuery: func(op Tok) bool { k := op.L[0].I(); return k == ckLength || k == ckLookup || k == ckState }},
	{name: "topk-mem", mk: func() Machine { return &withCodec{genericMachine: &topkMem{}} }, opName: topkOpName,
		build: func(g *Gen, i int, tier string) ([]Tok, [][]byte) {
			ctor := g.topkNew(i)
			switch g.Tweak {
			case 1:
				ctor.L[2] = TNu(ctor.L[2].U() + 1)
			case 2:
				ctor.L[3] = TNu(ctor.L[3].U()/2 + 500000)
			case 3:
				ctor.L[4] = TNu(ctor.L[4].U()/3 + 1)
			case 4: // a rate a few ulps away: same sketch shape, different parameter
				ctor = TL(append(append([]Tok(nil), ctor.L...), TNi(1+g.Intn(3)), TNi(0))...)
			case 5:
				ctor = TL(append(append([]Tok(nil), ctor.L...), TNi(0), TNi(1+g.Intn(3)))...)
			}
			ops := []Tok{ctor}
			pool := g.ElementPool(1+g.Intn(10), true)
			for k, n := 0, g.Intn(20); k < n; k++ {
				ops = append(ops, TL(TNi(tkInsert), TNi(i), TBs(pool[g.Intn(len(pool))]), TNu(g.topkCount())))
			}
			return ops, pool
		},
		extra: func(g *Gen, i int, pool [][]byte) []Tok {
			return []Tok{TL(TNi(tkInsert), TNi(i), TBs(pool[g.Intn(len(pool))]), TNu(g.topkCount()))}
		},
		queries: func(g *Gen, i int, pool [][]byte) []Tok {
			return []Tok{TL(TNi(tkValues), TNi(i)), TL(TNi(tkHeap), TNi(i))}
		},
		isQuery: func(op Tok) bool { k := op.L[0].I(); return k == tkValues || k == tkHeap }},
}

func redisVariant(sg structGen, name string, mk func() Machine) structGen {
	sg.name = name
	sg.mk = mk
	sg.redis = true
	return sg
}

var structGensRedis = []structGen{
	redisVariant(structGens[0], "cms-redis", func() Machine { return &cmsRedis{} }),
	redisVariant(structGens[2], "hll-redis", func() Machine { return &hllRedis{} }),
	redisVariant(structGens[1], "bloom-redis", func() Machine { return &bloomRedis{} }),
	redisVariant(structGens[4], "topk-redis", func() Machine { return &topkRedis{} }),
	redisVariant(structGens[3], "cuckoo-redis", func() Machine { return &cuckooRedis{} }),
}

// cuckoo-redis supports the core operations and re-attachment (C02, C13, C14, C09, C08, C16, C19)
var cuckooRedisGen = structGensRedis[4]

// pairedQueries interleaves the same queries on instances a and b (a first).
func pairedQueries(sg structGen, g *Gen, a, b int, pool [][]byte) []Tok {
	sub := g.R.Int63()
	qa := sg.queries(subGen(sub), a, pool)
	qb := sg.queries(subGen(sub), b, pool)
	var ops []Tok
	for k := range qa {
		ops = append(ops, qa[k], qb[k])
	}
	return ops
}

// queryValue: what a paired-query comparison looks at (HLL Count carries the answer in the op).
func queryValue(op, obs Tok) string {
	if len(op.L) == 5 && op.L[0].I() == hlCount && op.L[4].Kind == 0 && op.L[3].Kind == 0 && op.L[2].Kind == 0 && op.L[1].Kind == 0 {
		// only HLL uses a 5-field op with code 2 whose last field is the implementation's answer
		return "count=" + op.L[4].String()
	}
	return obs.String()
}

func sameExceptInstance(a, b Tok) bool {
	if len(a.L) != len(b.L) || a.L[0].String() != b.L[0].String() {
		return false
	}
	for k := 2; k < len(a.L); k++ {
		if a.L[k].String() != b.L[k].String() {
			return false
		}
	}
	return a.L[1].String() != b.L[1].String()
}

// genC11: state on 0, arbitrary other state on 1, WriteTo(0), ReadFrom(1, stream ++ suffix),
// Equals both ways, paired queries, second WriteTo from 1.
func genPersist(sg structGen, mode string) func(g *Gen, tier string) *Case {
	return func(g *Gen, tier string) *Case {
		g.Small = mode == "C18"
		ops, pool := sg.build(g, 0, tier)
		ops2, _ := sg.build(g, 1, tier)
		ops = append(ops, ops2...)
		switch mode {
		case "C11":
			w := 1000 + g.Intn(1000)
			ops = append(ops, TL(TNi(opWriteTo), TNi(0), TNi(w)))
			var suffix []byte
			if g.Chance(0.5) {
				suffix = make([]byte, 1+g.Intn(40))
				g.R.Read(suffix)
			}
			ops = append(ops, TL(TNi(opReadFrom), TNi(1), TNi(w), TBs(suffix)))
			ops = append(ops, TL(TNi(opEquals), TNi(0), TNi(1)), TL(TNi(opEquals), TNi(1), TNi(0)))
			ops = append(ops, pairedQueries(sg, g, 0, 1, pool)...)
			ops = append(ops, TL(TNi(opWriteTo), TNi(1), TNi(2500)))
		case "C18":
			w := 1000 + g.Intn(1000)
			ops = append(ops, TL(TNi(opWriteTo), TNi(0), TNi(w)), TL(TNi(opPrefixBin), TNi(1), TNi(w)))
			e := 3000 + g.Intn(1000)
			ops = append(ops, TL(TNi(opExport), TNi(0), TNi(e)), TL(TNi(opPrefixJS), TNi(1), TNi(e)))
		case "C10":
			e := 3000 + g.Intn(1000)
			if sg.redis {
				// original's answers before the import (must be untouched by an import under new keys)
				ops = append(ops, sg.queries(subGen(7), 0, pool)...)
				ops = append(ops, TL(TNi(opExport), TNi(0), TNi(e)), TL(TNi(opImport), TNi(1), TNi(e), TNi(1)))
				ops = append(ops, sg.queries(subGen(7), 0, pool)...)
			} else {
				ops = append(ops, TL(TNi(opExport), TNi(0), TNi(e)), TL(TNi(opImport), TNi(1), TNi(e)))
			}
			ops = append(ops, TL(TNi(opEquals), TNi(0), TNi(1)), TL(TNi(opEquals), TNi(1), TNi(0)))
			ops = append(ops, pairedQueries(sg, g, 0, 1, pool)...)
			// further common updates, then compare again
			for k, n := 0, g.Intn(4); k < n; k++ {
				sub := g.R.Int63()
				ops = append(ops, sg.extra(subGen(sub), 0, pool)...)
				ops = append(ops, sg.extra(subGen(sub), 1, pool)...)
			}
			ops = append(ops, TL(TNi(opEquals), TNi(0), TNi(1)), TL(TNi(opEquals), TNi(1), TNi(0)))
			ops = append(ops, pairedQueries(sg, g, 0, 1, pool)...)
			ops = append(ops, TL(TNi(opExport), TNi(1), TNi(4500)))
		}
		return &Case{Ops: ops}
	}
}

// genC17: twins (same constructor, same operations), then optionally one extra operation on
// instance 1 or a different parameter; Equals both ways + paired queries.
func genC17(sg structGen) func(g *Gen, tier string) *Case {
	return func(g *Gen, tier string) *Case {
		sub := g.R.Int63()
		mode := g.Intn(12)
		if mode >= 10 {
			mode = 8
		}
		g1, g2 := subGen(sub), subGen(sub)
		g1.Small, g2.Small = mode == 8, mode == 8 // narrow sketches: estimates depend on the order of colliding updates
		ops, pool := sg.build(g1, 0, tier)
		switch {
		case mode < 3: // one constructor parameter differs, same operations
			g2.Tweak = 1 + g.Intn(5)
		case mode == 3: // unrelated structure
			g2 = g
		}
		ops2, _ := sg.build(g2, 1, tier)
		if mode == 8 && len(ops2) > 2 {
			// same updates in another order: the same multiset gives the same sketch cells, bits
			// and registers, while order-dependent parts (a Top-K heap, cuckoo slots) may differ
			code := ops2[len(ops2)-1].L[0].I()
			if ops2[len(ops2)-1].L[0].I() != ops2[len(ops2)/2].L[0].I() {
				code = ops2[len(ops2)/2].L[0].I()
			}
			var idx []int
			for k := 1; k < len(ops2); k++ {
				if ops2[k].L[0].I() == code && ops2[k].L[1].I() == 1 {
					idx = append(idx, k)
				}
			}
			perm := g.R.Perm(len(idx))
			shuffled := append([]Tok(nil), ops2...)
			for a, b := range perm {
				shuffled[idx[a]] = ops2[idx[b]]
			}
			ops2 = shuffled
		}
		ops = append(ops, ops2...)
		check := func() {
			ops = append(ops, TL(TNi(opEquals), TNi(0), TNi(1)), TL(TNi(opEquals), TNi(1), TNi(0)))
			ops = append(ops, pairedQueries(sg, g, 0, 1, pool)...)
		}
		check()
		if mode == 9 && !sg.redis { // a document whose heap lost an entry (Top-K; a plain reload for the others)
			e := 4800 + g.Intn(100)
			ops = append(ops, TL(TNi(opExport), TNi(0), TNi(e)), TL(TNi(opImport), TNi(1), TNi(e), TNi(1+g.Intn(2))))
			check()
		}
		if mode >= 4 && mode < 8 { // exactly one cell / register / slot / entry differs
			ops = append(ops, TL(TNi(opMutate), TNi(g.Intn(2)), TNi(g.Intn(3)), TNu(uint64(1+g.Intn(200)))))
			check()
		}
		for k, n := 0, g.Intn(3); k < n; k++ {
			ops = append(ops, sg.extra(g, g.Intn(2), pool)...)
			check()
		}
		return &Case{Ops: ops}
	}
}

// genC19: 2-8 live Redis-backed structures of mixed kinds in one database; their histories
// (creation, updates, queries, re-attachment, import under new keys) are interleaved at random.
func genC19(g *Gen, tier string) *Case {
	kinds := []structGen{structGensRedis[2], structGensRedis[0], structGensRedis[1], cuckooRedisGen, structGensRedis[3]} // bloom, cms, hll, cuckoo, topk
	n := 2 + g.Intn(7)
	var streams [][]Tok
	used := map[int]int{}
	for j := 0; j < n; j++ {
		k := g.Intn(len(kinds))
		sg := kinds[k]
		inst := 3 * used[k]
		used[k]++
		g.Small = true
		ops, pool := sg.build(g, inst, tier)
		ops = append(ops, sg.queries(g, inst, pool)...)
		switch g.Intn(4) {
		case 0: // re-attach and use the second handle
			ops = append(ops, TL(TNi(opAttach), TNi(inst+1), TNi(inst)))
			ops = append(ops, sg.extra(g, inst+1, pool)...)
			ops = append(ops, sg.queries(g, inst, pool)...)
		case 1: // import under new keys into a second structure of the same kind
			ops2, _ := sg.build(g, inst+1, tier)
			e := 3000 + g.Intn(1000)
			ops = append(ops, ops2...)
			imp := TL(TNi(opImport), TNi(inst+1), TNi(e), TNi(1))
			if k == 0 {
				imp = TL(TNi(opImport), TNi(inst+1), TNi(e))
			}
			ops = append(ops, TL(TNi(opExport), TNi(inst), TNi(e)))
			if g.Chance(0.5) { // the document is a snapshot: what the exporter does afterwards is not in it
				for q, nq := 0, 1+g.Intn(3); q < nq; q++ {
					ops = append(ops, sg.extra(g, inst, pool)...)
				}
			}
			ops = append(ops, imp)
			ops = append(ops, sg.queries(g, inst, pool)...)
			ops = append(ops, sg.queries(g, inst+1, pool)...)
			if g.Chance(0.35) {
				// a second structure imports the same document: the two copies are separate structures
				ops3, _ := sg.build(g, inst+2, tier)
				imp2 := TL(TNi(opImport), TNi(inst+2), TNi(e), TNi(1))
				if k == 0 {
					imp2 = TL(TNi(opImport), TNi(inst+2), TNi(e))
				}
				ops = append(ops, ops3...)
				ops = append(ops, imp2)
				ops = append(ops, sg.extra(g, inst+2, pool)...)
				ops = append(ops, sg.queries(g, inst+1, pool)...)
				ops = append(ops, sg.queries(g, inst+2, pool)...)
			} else if g.Chance(0.6) {
				// re-attach to the copy and update it through the new handle: the exporter must not move
				ops = append(ops, TL(TNi(opAttach), TNi(inst+2), TNi(inst+1)))
				ops = append(ops, sg.extra(g, inst+2, pool)...)
				ops = append(ops, sg.queries(g, inst, pool)...)
				ops = append(ops, sg.queries(g, inst+1, pool)...)
				ops = append(ops, sg.queries(g, inst+2, pool)...)
			}
		}
		for q := 0; q < 3; q++ {
			ops = append(ops, sg.extra(g, inst, pool)...)
			ops = append(ops, sg.queries(g, inst, pool)...)
		}
		tagged := make([]Tok, len(ops))
		for i, op := range ops {
			tagged[i] = TL(TNi(k), op)
		}
		streams = append(streams, tagged)
	}
	// random interleaving preserving each stream's order
	var out []Tok
	idx := make([]int, len(streams))
	remaining := 0
	for _, s := range streams {
		remaining += len(s)
	}
	for remaining > 0 {
		j := g.Intn(len(streams))
		if idx[j] >= len(streams[j]) {
			continue
		}
		burst := 1 + g.Intn(4)
		for b := 0; b < burst && idx[j] < len(streams[j]); b++ {
			out = append(out, streams[j][idx[j]])
			idx[j]++
			remaining--
		}
	}
	g.Small = false
	return &Case{Ops: out}
}

// genC09: a Redis-backed structure on instance 0; a second handle (instance 1) is obtained from its
// metadata key at a random point; further operations go through either handle, and after each one
// both handles answer the same queries. Variant: the structure first imports another export
// (under new keys) and is re-attached afterwards.
func genC09(sg structGen) func(g *Gen, tier string) *Case {
	return func(g *Gen, tier string) *Case {
		ops, pool := sg.build(g, 0, tier)
		if g.Chance(0.3) {
			// 0 imports the export of an unrelated structure 2 before being re-attached
			ops2, _ := sg.build(g, 2, tier)
			e := 3000 + g.Intn(1000)
			ops = append(ops, ops2...)
			ops = append(ops, TL(TNi(opExport), TNi(2), TNi(e)), TL(TNi(opImport), TNi(0), TNi(e), TNi(1)))
		}
		// what the creating handle answers just before the second handle is attached: attaching is
		// not an update, so none of these answers may change (ownUpdateMonitor)
		qsub := g.R.Int63()
		ops = append(ops, sg.queries(subGen(qsub), 0, pool)...)
		ops = append(ops, TL(TNi(opAttach), TNi(1), TNi(0)))
		ops = append(ops, sg.queries(subGen(qsub), 0, pool)...)
		ops = append(ops, pairedQueries(sg, g, 0, 1, pool)...)
		for k, n := 0, 2+g.Intn(8); k < n; k++ {
			ops = append(ops, sg.extra(g, g.Intn(2), pool)...)
			ops = append(ops, pairedQueries(sg, g, 0, 1, pool)...)
			if g.Chance(0.2) {
				ops = append(ops, TL(TNi(opAttach), TNi(1), TNi(g.Intn(2))))
			}
		}
		// Export is a query too: both handles must produce the same document
		ops = append(ops, TL(TNi(opExport), TNi(0), TNi(4701)), TL(TNi(opExport), TNi(1), TNi(4702)))
		return &Case{Ops: ops}
	}
}

// ---------- monitors ----------

func monitorPersist(sg structGen, prop string) Monitor {
	name := sg.name
	return func(ops, obs []Tok) []MonViolation {
		var out []MonViolation
		streams := map[int][]byte{}
		readDone := false
		for step, op := range ops {
			a, o := op.L, obs[step]
			code := a[0].I()
			if v, bad := staleKeyViolation(name, op, o, step); bad {
				out = append(out, v)
				continue
			}
			if code >= 20 && isPanic(o) {
				q := ""
				if code == opWriteTo && (name == "topk-mem") {
					// fewer distinct elements inserted than k: the heap is only partially filled
					k, distinct := uint64(0), map[string]bool{}
					for _, op2 := range ops[:step] {
						if op2.L[1].String() != a[1].String() {
							continue
						}
						if op2.L[0].I() == tkNew {
							k = op2.L[2].U()
							distinct = map[string]bool{}
						} else if op2.L[0].I() == tkInsert {
							distinct[string(op2.L[2].B)] = true
						}
					}
					if uint64(len(distinct)) < k {
						q = "/partial-heap"
					}
				}
				out = append(out, MonViolation{fmt.Sprintf("%s/op%d/panic%s", name, code, q), "persistence/equality operation panicked: " + o.String(), step})
				continue
			}
			switch code {
			case opWriteTo:
				if !isOk(o) {
					out = append(out, MonViolation{name + "/WriteTo/error", "WriteTo failed on a reachable state", step})
					continue
				}
				s, ret := okPayload(o).L[0].B, okPayload(o).L[1].U()
				streams[step] = s
				if prop == "C11" && ret != uint64(len(s)) {
					out = append(out, MonViolation{name + "/WriteTo/returned-count",
						fmt.Sprintf("WriteTo returned %d but wrote %d bytes", ret, len(s)), step})
				}
			case opReadFrom:
				if prop != "C11" || len(a) < 3 {
					continue
				}
				stream := a[2].B
				if o.String() == "(9)" {
					continue
				}
				if !isOk(o) {
					out = append(out, MonViolation{name + "/ReadFrom/error", "ReadFrom failed on a written stream: " + o.String(), step})
					continue
				}
				ret, consumed := okPayload(o).L[0].U(), okPayload(o).L[1].U()
				// the source stream is the most recent WriteTo before this step
				srcLen := -1
				for k := step - 1; k >= 0; k-- {
					if s, ok := streams[k]; ok {
						srcLen = len(s)
						break
					}
				}
				_ = stream
				if ret != consumed {
					out = append(out, MonViolation{name + "/ReadFrom/returned-count",
						fmt.Sprintf("ReadFrom returned %d but consumed %d bytes", ret, consumed), step})
				}
				if srcLen >= 0 && consumed != uint64(srcLen) {
					out = append(out, MonViolation{name + "/ReadFrom/consumed-differs-from-written",
						fmt.Sprintf("writer produced %d bytes, reader consumed %d", srcLen, consumed), step})
				}
				readDone = true
			case opImport:
				if prop == "C10" && o.String() != "(9)" {
					if !isOk(o) {
						out = append(out, MonViolation{name + "/Import/error", "Import of an exported document failed: " + o.String(), step})
					}
					readDone = true
				}
			case opEquals:
				if o.Kind != 2 || !isOk(o) {
					continue
				}
				eq := okPayload(o).U() != 0
				if (prop == "C11" || prop == "C10") && readDone && !eq && !sawInvalid(obs[:step]) {
					q := ""
					if name == "topk-mem" || name == "topk-redis" {
						for _, op2 := range ops {
							if op2.L[0].I() == tkInsert && len(op2.L) > 2 && !utf8.Valid(op2.L[2].B) {
								q = "/non-utf8-element"
							}
						}
					}
					out = append(out, MonViolation{name + "/Equals/reloaded-not-equal" + q, "the reloaded structure does not compare Equal to the original", step})
				}
				if prop == "C17" && !eq && twinHistories(ops[:step], a[1].String(), a[2].String()) {
					out = append(out, MonViolation{name + "/Equals/twins-not-equal",
						"two structures built with the same parameters and the same operations do not compare Equal", step})
				}
				if prop == "C17" && step+1 < len(ops) && ops[step+1].L[0].I() == opEquals && isOk(obs[step+1]) {
					if (okPayload(obs[step+1]).U() != 0) != eq {
						out = append(out, MonViolation{name + "/Equals/asymmetric", "Equals(a,b) differs from Equals(b,a)", step})
					}
				}
			case opExport:
				if prop == "C09" && step+1 < len(ops) && ops[step+1].L[0].I() == opExport && isOk(o) && isOk(obs[step+1]) &&
					a[1].String() != ops[step+1].L[1].String() && okPayload(o).String() != okPayload(obs[step+1]).String() {
					q := exportDiffRegime(name, okPayload(o), okPayload(obs[step+1]))
					out = append(out, MonViolation{name + "/attach/exports-differ" + q,
						fmt.Sprintf("Export through the creating handle gives %s, through the re-attached handle %s", trunc(okPayload(o).String()), trunc(okPayload(obs[step+1]).String())), step})
				}
			case opAttach:
				if prop == "C09" && o.String() != "(9)" && !isOk(o) {
					out = append(out, MonViolation{name + "/attach/fails", "re-attachment through the metadata key failed: " + o.String(), step})
				}
			case opPrefixBin, opPrefixJS:
				if prop != "C18" || o.Kind != 2 || outcomeKind(o) >= 0 {
					continue
				}
				kind := "binary"
				if code == opPrefixJS {
					kind = "json"
				}
				for cut, c := range o.L {
					if c.U() == 0 {
						out = append(out, MonViolation{name + "/" + kind + "/truncated-image-accepted",
							fmt.Sprintf("prefix of %d of %d bytes was loaded without error", cut, len(o.L)), step})
						break
					}
					if c.U() == 2 {
						out = append(out, MonViolation{name + "/" + kind + "/truncated-image-panics",
							fmt.Sprintf("prefix of %d of %d bytes made the loader panic", cut, len(o.L)), step})
						break
					}
				}
			}
		}
		// paired queries
		lastEq := map[string]bool{} // most recent Equals(0,1) / (1,0) verdicts
		reloaded := false
		qualQ := ""
		if name == "topk-mem" || name == "topk-redis" {
			for _, op := range ops {
				if op.L[0].I() == tkInsert && len(op.L) > 2 && !utf8.Valid(op.L[2].B) {
					qualQ = "/non-utf8-element"
				}
			}
		}
		for step := 0; step+1 < len(ops); step++ {
			if c := ops[step].L[0].I(); (c == opReadFrom || c == opImport) && isOk(obs[step]) {
				reloaded = true
			}
			if c := ops[step].L[0].I(); c == opAttach && isOk(obs[step]) {
				reloaded = true
			}
			if (prop == "C11" || prop == "C10" || prop == "C09") && !reloaded {
				continue
			}
			if prop == "C17" && (name == "topk-mem" || name == "topk-redis") && ops[step].L[0].I() == opEquals &&
				isOk(obs[step]) && okPayload(obs[step]).U() != 0 {
				// Equals compares k and the two rates: a true answer for two Top-Ks constructed with
				// different k or different rate bits (and not reloaded since) is wrong
				ctor := func(inst int) Tok {
					var c Tok
					for t := 0; t < step; t++ {
						a := ops[t].L
						if len(a) > 1 && a[1].Kind == 0 && a[1].I() == inst {
							switch a[0].I() {
							case tkNew:
								if isOk(obs[t]) {
									c = ops[t]
								}
							case opImport, opReadFrom, opAttach:
								c = Tok{}
							}
						}
					}
					return c
				}
				c0, c1 := ctor(ops[step].L[1].I()), ctor(ops[step].L[2].I())
				if len(c0.L) >= 7 && len(c1.L) >= 7 &&
					(c0.L[2].String() != c1.L[2].String() || c0.L[5].String() != c1.L[5].String() || c0.L[6].String() != c1.L[6].String()) {
					out = append(out, MonViolation{name + "/Equals/true-but-parameters-differ",
						fmt.Sprintf("Equals is true for Top-Ks built with (k, errorRate bits, accuracy bits) = (%s, %s, %s) and (%s, %s, %s)",
							c0.L[2].String(), c0.L[5].String(), c0.L[6].String(), c1.L[2].String(), c1.L[5].String(), c1.L[6].String()), step})
				}
			}
			if ops[step].L[0].I() == opEquals && isOk(obs[step]) {
				lastEq[ops[step].L[1].String()+ops[step].L[2].String()] = okPayload(obs[step]).U() != 0
			} else if ops[step].L[0].I() != opEquals && !sg.isQuery(ops[step]) {
				lastEq = map[string]bool{} // any other operation may change the state: verdicts are stale
			}
			if ops[step].L[0].I() >= 20 || !sg.isQuery(ops[step]) || !sameExceptInstance(ops[step], ops[step+1]) {
				continue
			}
			va, vb := queryValue(ops[step], obs[step]), queryValue(ops[step+1], obs[step+1])
			if va == vb || obs[step].String() == "(9)" || obs[step+1].String() == "(9)" {
				continue
			}
			switch prop {
			case "C09":
				q9 := ""
				for _, op2 := range ops[:step] {
					if op2.L[0].I() == opImport {
						q9 = "/after-import"
					}
				}
				if q9 == "" && name == "bloom-redis" {
					for _, op2 := range ops[:step] {
						if op2.L[0].I() == blFromBits && op2.L[1].String() == "0" {
							q9 = "/from-bitset"
						}
					}
				}
				out = append(out, MonViolation{name + "/attach/handles-disagree" + q9,
					fmt.Sprintf("%s answers %s through the creating handle and %s through the re-attached one", sg.opName(ops[step]), trunc(va), trunc(vb)), step})
			case "C11", "C10":
				out = append(out, MonViolation{name + "/query/reloaded-answers-differ" + qualQ,
					fmt.Sprintf("%s answers %s on the original and %s on the reloaded structure", sg.opName(ops[step]), trunc(va), trunc(vb)), step})
			case "C17":
				if lastEq["01"] || lastEq["10"] {
					out = append(out, MonViolation{name + "/Equals/true-but-answers-differ",
						fmt.Sprintf("Equals reported true but %s answers %s vs %s", sg.opName(ops[step]), trunc(va), trunc(vb)), step})
				}
			}
		}
		// Redis: an import under new keys must leave the exporter untouched
		if sg.redis && prop == "C10" {
			for t, op := range ops {
				if op.L[0].I() != opImport || !isOk(obs[t]) {
					continue
				}
				L := 0
				for t+1+L < len(ops) && sg.isQuery(ops[t+1+L]) && ops[t+1+L].L[1].String() == "0" {
					L++
				}
				for j := 0; j < L; j++ {
					b := t - 1 - L + j
					if b < 0 || ops[b].String() != ops[t+1+j].String() {
						continue
					}
					va, vb := queryValue(ops[b], obs[b]), queryValue(ops[t+1+j], obs[t+1+j])
					if va != vb {
						out = append(out, MonViolation{name + "/Import/exporter-modified",
							fmt.Sprintf("%s on the exporting structure answered %s before and %s after the import", sg.opName(ops[b]), trunc(va), trunc(vb)), t})
					}
				}
			}
		}
		return out
	}
}

// twinHistories: were instances i and j built by identical operation sequences (same
// constructor arguments, same operations in the same order, nothing involving both)?
func twinHistories(ops []Tok, i, j string) bool {
	if i == j {
		return false
	}
	var hi, hj []string
	for _, op := range ops {
		if len(op.L) < 2 || op.L[1].Kind != 0 {
			continue
		}
		c := op.L[0].I()
		if c == opEquals || c == opExport || c == opWriteTo {
			continue
		}
		who := op.L[1].String()
		if who != i && who != j {
			continue
		}
		// operations with a second instance argument (merge, import, attach, mutate) break twinship
		if c == opMutate || c == opImport || c == opReadFrom || c == opAttach || (len(op.L) == 3 && op.L[2].Kind == 0 && c == 3) {
			return false
		}
		fields := []Tok{op.L[0]}
		for _, f := range op.L[2:] {
			// constructors of Redis-backed structures carry their (random) key names: not part of the history
			if c == 0 && f.Kind == 1 {
				continue
			}
			fields = append(fields, f)
		}
		rest := TL(fields...).String()
		if who == i {
			hi = append(hi, rest)
		} else {
			hj = append(hj, rest)
		}
	}
	if len(hi) == 0 || len(hi) != len(hj) {
		return false
	}
	for k := range hi {
		if hi[k] != hj[k] {
			return false
		}
	}
	return true
}

func sawInvalid(obs []Tok) bool {
	for _, o := range obs {
		if o.String() == "(9)" {
			return true
		}
	}
	return false
}

func trunc(s string) string {
	if len(s) > 80 {
		return s[:80] + "..."
	}
	return s
}

// exportDiffRegime names the recorded regime two differing export documents fall into, if any:
// the Count-Min allSum counter is a field of the Go handle only (so it differs between handles,
// also inside a Top-K document), and a re-attached Redis bitset takes its size from the string
// length in bytes times 8 although the constructor allocated `size` BYTES.
func exportDiffRegime(name string, a, b Tok) string {
	maskCMS := func(d Tok) Tok {
		if d.Kind == 2 && len(d.L) >= 3 {
			c := append([]Tok(nil), d.L...)
			c[2] = TNu(0)
			return TL(c...)
		}
		return d
	}
	switch name {
	case "cms-redis":
		if maskCMS(a).String() == maskCMS(b).String() {
			return "/allsum-is-handle-local"
		}
	case "topk-redis":
		mask := func(d Tok) Tok {
			if d.Kind == 2 && len(d.L) >= 4 {
				c := append([]Tok(nil), d.L...)
				c[3] = maskCMS(c[3])
				return TL(c...)
			}
			return d
		}
		if mask(a).String() == mask(b).String() {
			return "/allsum-is-handle-local"
		}
	case "bloom-redis":
		if a.Kind == 2 && b.Kind == 2 && len(a.L) == 3 && len(b.L) == 3 && a.L[0].String() == b.L[0].String() &&
			a.L[1].String() == b.L[1].String() && len(a.L[2].B) >= 8 && len(b.L[2].B) >= 8 &&
			string(a.L[2].B[8:]) == string(b.L[2].B[8:]) {
			return "/bitset-size-prefix"
		}
	}
	return ""
}
