package main

import "fmt"

func fwd(kind int, inner Tok) Tok { return TL(TNi(0), TNi(kind), inner) }

func (g *Gen) schedule() Tok {
	n := g.Intn(22)
	out := make([]Tok, n)
	switch g.Intn(5) {
	case 4: // serial: the second client runs to completion before the first one starts
		out = make([]Tok, 22)
		for i := range out {
			out[i] = TBool(false)
		}
	case 0: // alternating
		for i := range out {
			out[i] = TBool(i%2 == 0)
		}
	case 1: // blocks
		cur := g.Chance(0.5)
		for i := range out {
			if g.Chance(0.3) {
				cur = !cur
			}
			out[i] = TBool(cur)
		}
	default:
		for i := range out {
			out[i] = TBool(g.Chance(0.5))
		}
	}
	return TL(out...)
}

// genC16: one Redis-backed structure, a sequential prefix, then two clients issue one update each
// under a random schedule at Redis-command granularity, then the state is read back.
func genC16(kind int) func(g *Gen, tier string) *Case {
	return func(g *Gen, tier string) *Case {
		var ops []Tok
		pool := g.ElementPool(6, false)
		x, y := pool[0], pool[1]
		if g.Chance(0.2) || (kind == 5 && g.Rare(0.25, 6, 3)) {
			// both clients update the same element (Top-K: more often — its insert is a read-modify-write
			// of the element's own entry, so the same element from two clients is the sharpest case)
			y = x
		}
		switch kind {
		case 1:
			n, pp := g.Pick(2, 5, 20), g.Pick(100000, 10000, 300000)
			for inst := 0; inst < 2; inst++ { // instance 1: the same calls one after another
				ops = append(ops, fwd(1, TL(TNi(blNewParams), TNi(inst), TNi(n), TNi(pp))))
			}
			for i := 0; i < g.Intn(3); i++ {
				ops = append(ops, fwd(1, TL(TNi(blInsert), TNi(0), TBs(pool[2+i]), TNi(0))), fwd(1, TL(TNi(blInsert), TNi(1), TBs(pool[2+i]), TNi(0))))
			}
			ops = append(ops, TL(TNi(2), TL(TBs(x)), TL(TBs(y)), g.schedule()))
			ops = append(ops, fwd(1, TL(TNi(blInsert), TNi(1), TBs(x), TNi(0))), fwd(1, TL(TNi(blInsert), TNi(1), TBs(y), TNi(0))))
			for _, e := range pool {
				ops = append(ops, fwd(1, TL(TNi(blLookup), TNi(0), TBs(e), TNi(0))), fwd(1, TL(TNi(blLookup), TNi(1), TBs(e), TNi(0))))
			}
		case 2:
			rows, cols := g.Pick(1, 2, 3), g.Pick(1, 2, 5, 16)
			for inst := 0; inst < 2; inst++ {
				ops = append(ops, fwd(2, TL(TNi(cmsNew), TNi(inst), TNi(rows), TNi(cols))))
			}
			for i := 0; i < g.Intn(4); i++ {
				e, c := pool[g.Intn(4)], g.cmsCount()
				ops = append(ops, fwd(2, TL(TNi(cmsUpdate), TNi(0), TBs(e), TNu(c), TNi(0))), fwd(2, TL(TNi(cmsUpdate), TNi(1), TBs(e), TNu(c), TNi(0))))
			}
			cx, cy := g.cmsCount(), g.cmsCount()
			pairOp := TL(TNi(2), TL(TBs(x), TNu(cx)), TL(TBs(y), TNu(cy)), g.schedule())
			if g.Chance(0.4) { // two goroutines sharing one handle
				pairOp = TL(append(append([]Tok(nil), pairOp.L...), TNi(1))...)
			}
			ops = append(ops, pairOp)
			ops = append(ops, fwd(2, TL(TNi(cmsUpdate), TNi(1), TBs(x), TNu(cx), TNi(0))), fwd(2, TL(TNi(cmsUpdate), TNi(1), TBs(y), TNu(cy), TNi(0))))
			for _, e := range pool[:4] {
				ops = append(ops, fwd(2, TL(TNi(cmsCount), TNi(0), TBs(e), TNi(0))), fwd(2, TL(TNi(cmsCount), TNi(1), TBs(e), TNi(0))))
			}
		case 3:
			// many elements share a register (index in [1,65]): pick x, y among a few dozen candidates
			x, y = []byte(fmt.Sprintf("h%d", g.Intn(40))), []byte(fmt.Sprintf("h%d", g.Intn(40)))
			for inst := 0; inst < 2; inst++ {
				ops = append(ops, fwd(3, TL(TNi(hlNew), TNi(inst), TNu(128))))
			}
			for i := 0; i < g.Intn(4); i++ {
				e := []byte(fmt.Sprintf("h%d", g.Intn(40)))
				ops = append(ops, fwd(3, TL(TNi(hlUpdate), TNi(0), TBs(e))), fwd(3, TL(TNi(hlUpdate), TNi(1), TBs(e))))
			}
			ops = append(ops, TL(TNi(2), TL(TBs(x)), TL(TBs(y)), g.schedule()))
			ops = append(ops, fwd(3, TL(TNi(hlUpdate), TNi(1), TBs(x))), fwd(3, TL(TNi(hlUpdate), TNi(1), TBs(y))))
			ops = append(ops, fwd(3, TL(TNi(hlRegs), TNi(0))), fwd(3, TL(TNi(hlRegs), TNi(1))))
		case 4:
			size, bsize := uint64(g.Pick(1, 1, 2, 4)), uint64(g.Pick(1, 1, 2, 4, 4))
			ops = append(ops, fwd(4, TL(TNi(ckNew), TNi(0), TNu(size), TNu(bsize), TNu(2), TNu(0))))
			var ins [][]byte
			for i := 0; i < g.Intn(int(size*bsize)); i++ {
				ops = append(ops, fwd(4, ckInsertOp(g, 0, pool[2+i%4], false)))
				ins = append(ins, pool[2+i%4])
			}
			for len(ins) > 0 && g.Chance(0.5) { // removals leave emptied slots behind
				ops = append(ops, fwd(4, TL(TNi(ckRemove), TNi(0), TBs(ins[0]))))
				ins = ins[1:]
			}
			ops = append(ops, fwd(4, TL(TNi(ckState), TNi(0))))
			ops = append(ops, TL(TNi(2), TL(TBs(x)), TL(TBs(y)), g.schedule()))
			ops = append(ops, fwd(4, TL(TNi(ckState), TNi(0))), fwd(4, TL(TNi(ckLength), TNi(0))))
			ops = append(ops, fwd(4, TL(TNi(ckLookup), TNi(0), TBs(x))), fwd(4, TL(TNi(ckLookup), TNi(0), TBs(y))))
		case 5:
			ops = append(ops, fwd(5, TL(TNi(tkNew), TNi(0), TNi(g.Pick(1, 2, 2, 3)), TNi(300000), TNi(500000))))
			for i := 0; i < 1+g.Intn(3); i++ {
				ops = append(ops, fwd(5, TL(TNi(tkInsert), TNi(0), TBs(pool[2+i]), TNu(uint64(1+g.Intn(5))))))
			}
			ops = append(ops, TL(TNi(2), TL(TBs(x), TNu(uint64(5+g.Intn(20)))), TL(TBs(y), TNu(uint64(5+g.Intn(40)))), g.schedule()))
			ops = append(ops, fwd(5, TL(TNi(tkValues), TNi(0))), fwd(5, TL(TNi(tkHeap), TNi(0))))
		}
		if g.Chance(0.2) {
			// variant: instead of a second update, the other client obtains a new handle from the
			// metadata key while the update is in flight
			for p, op := range ops {
				if op.L[0].I() != 2 {
					continue
				}
				ca := op.L[1].L
				var upd Tok
				switch kind {
				case 1:
					upd = TL(TNi(blInsert), TNi(0), ca[0], TNi(0))
				case 2:
					upd = TL(TNi(cmsUpdate), TNi(0), ca[0], ca[1], TNi(0))
				case 3:
					upd = TL(TNi(hlUpdate), TNi(0), ca[0])
				case 4:
					upd = ckInsertOp(g, 0, ca[0].B, false)
				case 5:
					upd = TL(TNi(tkInsert), TNi(0), ca[0], ca[1])
				}
				ops[p] = TL(TNi(3), upd, op.L[3])
				if kind <= 3 && p+2 < len(ops) { // the sequential twin receives the one update only
					ops = append(ops[:p+2], ops[p+3:]...)
				}
				break
			}
		}
		return &Case{Ops: ops}
	}
}

func schedOpName(op Tok) string {
	switch op.L[0].I() {
	case 0:
		return "seq"
	case 2:
		return "concurrent-pair"
	}
	return "?"
}

// monitorSched: acknowledged concurrent updates must not be lost.
func monitorSched(kind int) OMonitor {
	return func(orig, ops, obs []Tok) []MonViolation {
		var out []MonViolation
		roomForBoth := "" // cuckoo: every bucket had >= 2 free slots before the pair (the known one-slot race cannot occur)
		inserted := map[string]uint64{}
		var total uint64
		var k uint64
		pairSeen := false
		var pairOK [2]bool
		var px, py []byte
		for step, op := range ops {
			a, o := op.L, obs[step]
			if step < len(orig) && orig[step].L[0].I() == 3 {
				// an update that ran while another client was attaching: from here on a loss cannot
				// be the recorded race between two inserts
				pairSeen = true
				roomForBoth = "/during-attach"
			}
			switch a[0].I() {
			case 0:
				in := a[2].L
				code := in[0].I()
				// the sequential twin (instance 1) must end in the same observable state
				if pairSeen && kind <= 3 && len(in) > 1 && in[1].Kind == 0 && in[1].U() == 1 && step > 0 {
					prev := ops[step-1].L
					if prev[0].I() == 0 && len(prev[2].L) > 1 && prev[2].L[1].String() == "0" && prev[2].L[0].String() == in[0].String() &&
						TL(prev[2].L[2:]...).String() == TL(in[2:]...).String() && obs[step-1].String() != obs[step].String() &&
						obs[step-1].String() != "(9)" && obs[step].String() != "(9)" {
						out = append(out, MonViolation{[]string{"", "bloom", "cms", "hll"}[kind] + "/state-differs-from-sequential",
							fmt.Sprintf("after the concurrent pair the structure answers %s, after the same calls one after another %s", trunc(obs[step-1].String()), trunc(obs[step].String())), step})
					}
				}
				if len(in) > 1 && in[1].Kind == 0 && in[1].U() != 0 {
					continue // bookkeeping below is for instance 0
				}
				if kind == 4 && code == ckState && !pairSeen {
					if sn := parseSnap(o); sn != nil {
						roomForBoth = "/room-for-both"
						for _, b := range sn.buckets {
							free := 0
							for _, e := range b {
								if e == "" {
									free++
								}
							}
							free += int(sn.sizes[0]) - len(b) // Redis lists only hold the slots used so far
							if free < 2 {
								roomForBoth = ""
							}
						}
					}
				}
				switch kind {
				case 1:
					if code == blInsert {
						inserted[string(in[2].B)]++
					}
					if code == blLookup && pairSeen && o.Kind == 0 && o.U() == 0 && inserted[string(in[2].B)] > 0 {
						out = append(out, MonViolation{"bloom/lost-insert", fmt.Sprintf("element %x inserted (possibly concurrently) but reported absent", in[2].B), step})
					}
				case 2:
					if code == cmsUpdate {
						inserted[string(in[2].B)] += in[3].U()
						total += in[3].U()
					}
					if code == cmsCount && o.Kind == 0 {
						if o.U() < inserted[string(in[2].B)] {
							out = append(out, MonViolation{"cms/lost-update", fmt.Sprintf("Count=%d below the acknowledged total %d", o.U(), inserted[string(in[2].B)]), step})
						}
						if o.U() > total {
							out = append(out, MonViolation{"cms/above-total", fmt.Sprintf("Count=%d above the stream total %d", o.U(), total), step})
						}
					}
				case 4:
					if code == ckInsert && o.Kind == 2 && len(o.L) == 2 && isOk(o.L[0]) {
						inserted[string(in[2].B)]++
					}
					if code == ckLookup && pairSeen && isOk(o) && okPayload(o).U() == 0 && inserted[string(in[2].B)] > 0 {
						out = append(out, MonViolation{"cuckoo/acknowledged-insert-not-findable" + roomForBoth,
							fmt.Sprintf("insert of %x reported success but the element is not findable", in[2].B), step})
					}
					if code == ckState && pairSeen {
						if sn := parseSnap(o); sn != nil {
							stored := uint64(0)
							for _, b := range sn.buckets {
								for _, e := range b {
									if e != "" {
										stored++
									}
								}
							}
							if sn.length != stored {
								out = append(out, MonViolation{"cuckoo/length-differs-from-stored" + roomForBoth,
									fmt.Sprintf("Length=%d but %d entries stored after concurrent inserts", sn.length, stored), step})
							}
						}
					}
				case 5:
					if code == tkNew {
						k = in[2].U()
					}
					if code == tkInsert && isOk(o) {
						inserted[string(in[2].B)] += in[3].U()
					}
					if code == tkValues && pairSeen && k > 0 && o.Kind == 2 && outcomeKind(o) < 0 {
						want := uint64(len(inserted))
						if k < want {
							want = k
						}
						if uint64(len(o.L)) != want {
							out = append(out, MonViolation{"topk/wrong-number-of-entries",
								fmt.Sprintf("Values has %d entries after concurrent inserts, expected min(k=%d, distinct=%d)", len(o.L), k, len(inserted)), step})
						}
					}
				}
			case 2:
				pairSeen = true
				px, py = a[1].L[0].B, a[2].L[0].B
				// a schedule that lets one client finish before the other starts is no race at all: the
				// recorded one-slot race of the cuckoo filter cannot explain a loss under it
				serial := len(a[3].L) == 0 || len(a[3].L) >= 16
				for _, t := range a[3].L {
					if t.U() != 0 {
						serial = false
					}
				}
				if serial {
					roomForBoth = "/serial-schedule"
				}
				if o.Kind == 2 && len(o.L) == 2 {
					pairOK[0], pairOK[1] = o.L[0].Kind == 0 && o.L[0].U() == 1, o.L[1].Kind == 0 && o.L[1].U() == 1
					if o.L[0].String() == "(7)" {
						out = append(out, MonViolation{"scheduler/deadlock", "the scheduled pair did not finish", step})
					}
				}
				cnt := func(c []Tok) uint64 {
					if len(c) > 1 {
						return c[1].U()
					}
					return 1
				}
				if pairOK[0] {
					inserted[string(px)] += cnt(a[1].L)
					total += cnt(a[1].L)
				}
				if pairOK[1] {
					inserted[string(py)] += cnt(a[2].L)
					total += cnt(a[2].L)
				}
			}
		}
		return out
	}
}
