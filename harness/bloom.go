package main

import (
	"fmt"

	gx "github.com/kwertop/gostatix"
)

// Bloom ops (memory machine 3):
// (0 i n p1e6)       NewMemBloomFilterWithParameters(n, p1e6/1e6) -> sent to model as (0 i size0 k0)
// (1 i x v)          Insert / InsertString(v=1)
// (2 i x v)          Lookup / LookupString
// (3 i (words) k0)   NewMemBloomFilterFromBitSet
// (4 i j)            Equals
// (5 i)              GetCap, GetNumHashes
const (
	blNewParams = iota
	blInsert
	blLookup
	blFromBits
	blEquals
	blParams
)

func bloomOpName(op Tok) string {
	names := []string{"NewParams", "Insert", "Lookup", "FromBitSet", "Equals", "Params", "Export", "Import", "WriteTo", "ReadFrom"}
	k := op.L[0].I()
	if k < len(names) {
		return names[k]
	}
	return fmt.Sprint(k)
}

type bloomMem struct {
	inst map[int]*gx.BloomFilter
	orc  *oracleTab
}

func (m *bloomMem) ID() int     { return 3 }
func (m *bloomMem) Reset()      { m.inst = map[int]*gx.BloomFilter{}; m.orc = newOracleTab() }
func (m *bloomMem) Close()      {}
func (m *bloomMem) Oracle() Tok { return m.orc.tok() }

func bloomAddOracle(orc *oracleTab, f *gx.BloomFilter, x []byte) {
	size, k := uint64(f.GetCap()), uint64(f.GetNumHashes())
	key := fmt.Sprintf("%d/%d/%x", size, k, x)
	if orc.has(key) {
		return
	}
	h := gx.VerifBloomHashes(x)
	vals := make([]uint64, 0, k)
	if k <= 4096 {
		for i := uint64(0); i < k; i++ {
			vals = append(vals, uint64(gx.VerifBloomIndex(f, h, uint(i))))
		}
	}
	orc.add(key, []uint64{size, k}, x, vals)
}

func tparams(f *gx.BloomFilter) Tok {
	return TL(TNu(uint64(f.GetCap())), TNu(uint64(f.GetNumHashes())))
}

func (m *bloomMem) Exec(op Tok) (opOut Tok, obs Tok) {
	opOut = op
	defer func() {
		if r := recover(); r != nil {
			obs = TPanic(classifyPanic(r))
		}
	}()
	a := op.L
	switch a[0].I() {
	case blNewParams:
		n := uint(a[2].U())
		p := float64(a[3].U()) / 1e6
		size0 := gx.VerifCalcFilterSize(n, p)
		k0 := gx.VerifCalcNumHashes(size0, n)
		opOut = TL(a[0], a[1], TNu(uint64(size0)), TNu(uint64(k0)))
		f, err := gx.NewMemBloomFilterWithParameters(n, p)
		if err != nil {
			return opOut, TErr(errGeneric)
		}
		m.inst[a[1].I()] = f
		return opOut, TOk(tparams(f))
	case blInsert:
		f := m.inst[a[1].I()]
		opOut = TL(a[0], a[1], a[2])
		if f == nil {
			return opOut, TL(TNu(9))
		}
		bloomAddOracle(m.orc, f, a[2].B)
		if a[3].I() == 1 {
			f.InsertString(string(a[2].B))
		} else {
			f.Insert(el(a[2].B))
		}
		return opOut, TUnit()
	case blLookup:
		f := m.inst[a[1].I()]
		opOut = TL(a[0], a[1], a[2])
		if f == nil {
			return opOut, TL(TNu(9))
		}
		bloomAddOracle(m.orc, f, a[2].B)
		if a[3].I() == 1 {
			return opOut, TBool(f.LookupString(string(a[2].B)))
		}
		return opOut, TBool(f.Lookup(el(a[2].B)))
	case blFromBits:
		words := make([]uint64, len(a[2].L))
		for i, w := range a[2].L {
			words[i] = w.U()
		}
		f := gx.NewMemBloomFilterFromBitSet(words, uint(a[3].U()))
		m.inst[a[1].I()] = f
		return opOut, TOk(tparams(f))
	case blEquals:
		x, y := m.inst[a[1].I()], m.inst[a[2].I()]
		if x == nil || y == nil {
			return opOut, TL(TNu(9))
		}
		ok, err := x.Equals(y)
		if err != nil {
			return opOut, TErr(errGeneric)
		}
		return opOut, TOk(TBool(ok))
	case blParams:
		f := m.inst[a[1].I()]
		if f == nil {
			return opOut, TL(TNu(9))
		}
		return opOut, tparams(f)
	}
	return opOut, TL(TNu(9))
}

// ---------- generators ----------

func (g *Gen) bloomCtor(i int) Tok {
	if g.Chance(0.35) {
		nw := g.Pick(0, 1, 1, 2, 3, 16)
		ws := make([]Tok, nw)
		for j := range ws {
			var w uint64
			if g.Chance(0.5) {
				w = g.R.Uint64() & g.R.Uint64() & g.R.Uint64()
			}
			ws[j] = TNu(w)
		}
		return TL(TNi(blFromBits), TNi(i), TL(ws...), TNi(g.Pick(0, 1, 2, 3, 5, 8, 13)))
	}
	// (n, p) chosen so that sizes include 1, non-multiples of 64, and k from 1 up
	n := g.Pick(1, 1, 2, 3, 7, 10, 50, 100, 300)
	if g.Small {
		n = g.Pick(1, 2, 3, 7, 10)
	}
	p := g.Pick(999999, 900000, 600000, 500000, 300000, 100000, 10000, 1000, 100, 1)
	return TL(TNi(blNewParams), TNi(i), TNi(n), TNi(p))
}

func strVariant(g *Gen) Tok {
	if g.Chance(0.25) {
		return TNi(1)
	}
	return TNi(0)
}

func genC01(g *Gen, tier string) *Case {
	ops := []Tok{g.bloomCtor(0), TL(TNi(blParams), TNi(0))}
	pool := g.ElementPool(3+g.Intn(20), true)
	fresh := g.ElementPool(6, true)
	n := 5 + g.Intn(50)
	if tier == "thorough" {
		n = 5 + g.Intn(300)
	}
	// empty filter: every element absent
	for _, x := range fresh[:2] {
		ops = append(ops, TL(TNi(blLookup), TNi(0), TBs(x), strVariant(g)))
	}
	for j := 0; j < n; j++ {
		x := pool[g.Intn(len(pool))]
		r := g.R.Float64()
		switch {
		case r < 0.5:
			ops = append(ops, TL(TNi(blInsert), TNi(0), TBs(x), strVariant(g)))
		case r < 0.85:
			ops = append(ops, TL(TNi(blLookup), TNi(0), TBs(x), strVariant(g)))
		default:
			ops = append(ops, TL(TNi(blLookup), TNi(0), TBs(fresh[g.Intn(len(fresh))]), strVariant(g)))
		}
	}
	for _, x := range pool {
		ops = append(ops, TL(TNi(blLookup), TNi(0), TBs(x), strVariant(g)))
	}
	return &Case{Ops: ops}
}

// ---------- monitor ----------
func monitorBloom(backend string) Monitor {
	return func(ops, obs []Tok) []MonViolation {
		var out []MonViolation
		inserted := map[int]map[string]bool{}
		fromEmptyCtor := map[int]bool{} // created with all bits clear
		for step, op := range ops {
			a, o := op.L, obs[step]
			if isPanic(o) {
				out = append(out, MonViolation{backend + "/" + bloomOpName(op) + "/panic", "operation panicked", step})
				continue
			}
			switch a[0].I() {
			case blNewParams:
				if isOk(o) {
					inserted[a[1].I()] = map[string]bool{}
					fromEmptyCtor[a[1].I()] = true
					if okPayload(o).L[0].U() < 1 || okPayload(o).L[1].U() < 1 {
						out = append(out, MonViolation{backend + "/New/unclamped", "size or numHashes below 1", step})
					}
				}
			case blFromBits:
				if isOk(o) {
					inserted[a[1].I()] = map[string]bool{}
					allZero := true
					for _, w := range a[2].L {
						if w.U() != 0 {
							allZero = false
						}
					}
					fromEmptyCtor[a[1].I()] = allZero
					if okPayload(o).L[0].U() < 1 || okPayload(o).L[1].U() < 1 {
						out = append(out, MonViolation{backend + "/New/unclamped", "size or numHashes below 1", step})
					}
				}
			case blInsert:
				if s := inserted[a[1].I()]; s != nil {
					s[string(a[2].B)] = true
				}
			case blLookup:
				s := inserted[a[1].I()]
				if s == nil || o.Kind != 0 {
					continue
				}
				if s[string(a[2].B)] && o.U() == 0 {
					out = append(out, MonViolation{backend + "/Lookup/false-negative",
						fmt.Sprintf("inserted element %x reported absent", a[2].B), step})
				}
				if len(s) == 0 && fromEmptyCtor[a[1].I()] && o.U() != 0 {
					out = append(out, MonViolation{backend + "/Lookup/empty-filter-positive",
						fmt.Sprintf("empty filter reports %x present", a[2].B), step})
				}
			}
		}
		return out
	}
}
