package main

import (
	"encoding/json"
	"fmt"
	"math"

	gx "github.com/kwertop/gostatix"
)

// Redis-backed HyperLogLog machine (6): same op codes as the memory machine.
type hllRedis struct {
	inst map[int]*gx.HyperLogLogRedis
	orc  *oracleTab
	rec  recorder
}

func (m *hllRedis) ID() int { return 6 }
func (m *hllRedis) Reset() {
	redisReset()
	m.inst = map[int]*gx.HyperLogLogRedis{}
	m.orc = newOracleTab()
	m.rec.reset()
}
func (m *hllRedis) Close()      {}
func (m *hllRedis) Oracle() Tok { return m.orc.tok() }

func (m *hllRedis) noteAlpha(h *gx.HyperLogLogRedis) uint64 {
	mm, _, alpha, _, _ := gx.VerifHLLRedisState(h)
	bits := m.orc.addFloat(alpha)
	m.orc.add(fmt.Sprintf("alpha/%d", mm), []uint64{779, mm}, nil, []uint64{math.Float64bits(alpha)})
	return bits
}

func hllDocTok(b []byte) Tok {
	var d struct {
		NR  uint64          `json:"nr"`
		NBP uint64          `json:"nbp"`
		C   json.RawMessage `json:"c"`
		R   []byte          `json:"r"`
		K   string          `json:"k"`
	}
	if json.Unmarshal(b, &d) != nil {
		return TL(TNu(8))
	}
	return TL(TNu(d.NR), TNu(d.NBP), rawText(d.C), TBs(d.R), TBs([]byte(d.K)))
}

func (m *hllRedis) Exec(op Tok) (opOut Tok, obs Tok) {
	step := m.rec.step
	m.rec.step++
	opOut = op
	defer func() {
		if r := recover(); r != nil {
			obs = TPanic(classifyPanic(r))
		}
	}()
	a := op.L
	inv := TL(TNu(9))
	switch a[0].I() {
	case hlNew:
		// the key names are only known for a successful construction; a failed one (m = 1) has
		// already written its metadata hash under a key the model never needs again
		opOut = TL(a[0], a[1], a[2], TNu(0), TBs([]byte("?key")), TBs([]byte("?meta")))
		before := redisKeys()
		h, err := gx.NewHyperLogLogRedis(a[2].U())
		if err != nil {
			return opOut, TErr(errGeneric)
		}
		_, _, _, key, meta := gx.VerifHLLRedisState(h)
		opOut = TL(a[0], a[1], a[2], TNu(m.noteAlpha(h)), TBs([]byte(key)), TBs([]byte(meta)))
		m.inst[a[1].I()] = h
		if t, bad := staleKey(before, key, meta); bad {
			return opOut, t
		}
		return opOut, TOk(TUnit())
	case hlUpdate:
		h := m.inst[a[1].I()]
		if h == nil {
			return opOut, inv
		}
		_, p, _, _, _ := gx.VerifHLLRedisState(h)
		key := fmt.Sprintf("%d/%x", p, a[2].B)
		if !m.orc.has(key) {
			idx, cnt := gx.VerifHLLRedisIndexCount(h, a[2].B)
			m.orc.add(key, []uint64{p}, a[2].B, []uint64{idx, cnt})
		}
		if err := h.Update(el(a[2].B)); err != nil {
			return opOut, TErr(errGeneric)
		}
		return opOut, TOk(TUnit())
	case hlCount:
		h := m.inst[a[1].I()]
		if h == nil {
			return opOut, inv
		}
		c, err := h.Count(a[2].U() != 0, a[3].U() != 0)
		opOut = TL(a[0], a[1], a[2], a[3], TNu(c))
		if err != nil {
			return opOut, TErr(errGeneric)
		}
		return opOut, TNu(1)
	case hlMerge:
		x, y := m.inst[a[1].I()], m.inst[a[2].I()]
		if x == nil || y == nil {
			return opOut, inv
		}
		if err := x.Merge(y); err != nil {
			mx, _, _, _, _ := gx.VerifHLLRedisState(x)
			my, _, _, _, _ := gx.VerifHLLRedisState(y)
			if mx != my {
				return opOut, TErr(errMismatch)
			}
			return opOut, TErr(errGeneric)
		}
		return opOut, TOk(TUnit())
	case hlRegs:
		h := m.inst[a[1].I()]
		if h == nil {
			return opOut, inv
		}
		_, _, _, key, _ := gx.VerifHLLRedisState(h)
		vals, _ := mr.List(key)
		out := make([][]byte, len(vals))
		for i, v := range vals {
			out[i] = []byte(v)
		}
		return opOut, TListB(out)
	case opAttach:
		src := m.inst[a[2].I()]
		if src == nil {
			return TL(a[0], a[1]), inv
		}
		opOut = TL(a[0], a[1], TBs([]byte(src.MetadataKey())))
		h, err := gx.NewHyperLogLogRedisFromKey(src.MetadataKey())
		if err != nil {
			return opOut, TErr(errGeneric)
		}
		m.noteAlpha(h)
		m.inst[a[1].I()] = h
		return opOut, TOk(TUnit())
	case opEquals:
		x, y := m.inst[a[1].I()], m.inst[a[2].I()]
		if x == nil || y == nil {
			return opOut, inv
		}
		ok, _ := x.Equals(y) // `false` always comes with a non-nil error (nil reply of the script)
		return opOut, TOk(TBool(ok))
	case opExport:
		h := m.inst[a[1].I()]
		opOut = TL(a[0], a[1])
		if h == nil {
			return opOut, inv
		}
		b, err := h.Export()
		if err != nil {
			return opOut, TErr(errGeneric)
		}
		m.rec.exports[labelOf(a, step)] = b
		return opOut, TOk(hllDocTok(b))
	case opImport:
		h := m.inst[a[1].I()]
		src, ok := m.rec.exports[a[2].I()]
		if h == nil || !ok {
			return TL(a[0], a[1]), inv
		}
		before := redisKeys()
		err := h.Import(src, a[3].U() != 0)
		_, _, alpha, key, _ := gx.VerifHLLRedisState(h)
		m.orc.addFloat(alpha)
		opOut = TL(a[0], a[1], hllDocTok(src), TBs([]byte(key)))
		if err != nil {
			return opOut, TErr(errGeneric)
		}
		if t, bad := staleKey(before, key); a[3].U() != 0 && bad {
			return opOut, t
		}
		return opOut, TOk(TUnit())
	}
	return opOut, inv
}
