package main

import (
	"encoding/json"
	"flag"
	"fmt"
	"math/rand"
	"os"
	"strings"
	"time"
)

// Suite: one (machine, generator, monitors) combination contributing cases to a property.
type Suite struct {
	Name       string
	NewMachine func() Machine
	Gen        func(g *Gen, tier string) *Case
	Monitors   []Monitor
	OMonitors  []OMonitor
	OpName     func(Tok) string
	Nontrivial func(*RunResult) bool
	Rule       string
	Quick      int // number of cases
	Thorough   int
	NoModel    bool
}

var registry = map[string][]Suite{}

type Output struct {
	Property string            `json:"property"`
	Tier     string            `json:"tier"`
	Seed     int64             `json:"seed"`
	Suites   map[string]*Stats `json:"suites"`
	Findings []Finding         `json:"findings"`
	Known    map[string]int    `json:"known_hits"`
	WallS    float64           `json:"wall_s"`
	Rules    map[string]string `json:"rules"`
}

func main() {
	prop := flag.String("prop", "", "property id")
	tier := flag.String("tier", "quick", "quick|thorough")
	seed := flag.Int64("seed", 1, "PRNG seed")
	model := flag.String("model", "", "path to extracted model driver")
	out := flag.String("out", "", "result JSON path")
	known := flag.String("known", "", "comma-separated monitor signatures listed as known findings")
	replay := flag.String("replay", "", "replay a case token (file path) against implementation and model")
	scale := flag.Float64("scale", 1.0, "case count multiplier")
	only := flag.String("suite", "", "run only this suite")
	budget := flag.Float64("budget", 0, "wall-clock budget in seconds for generated cases (0: none); shared by the suites in proportion to their case counts")
	keyprobe := flag.Int("keyprobe", 0, "child mode: print this many freshly generated Redis key names and exit")
	dump := flag.String("dump", "", "write (case, model answer) pairs to this file for the replay inside Coq")
	dumpPer := flag.Int("dump-per-suite", 4, "number of pairs dumped per suite")
	flag.Parse()
	start := time.Now()

	if *keyprobe > 0 {
		keyProbeChild(*keyprobe)
		return
	}
	if *replay != "" {
		os.Exit(doReplay(*replay, *model))
	}
	suites, ok := registry[*prop]
	if !ok {
		fmt.Fprintf(os.Stderr, "unknown property %s\n", *prop)
		os.Exit(2)
	}
	md, err := StartModel(*model)
	if err != nil {
		fmt.Fprintf(os.Stderr, "cannot start model: %v\n", err)
		os.Exit(2)
	}
	defer md.Close()
	if *dump != "" {
		if f, err := os.Create(*dump); err == nil {
			md.Dump, md.DumpPer, md.DumpMax = f, *dumpPer, 60000
			defer f.Close()
		}
	}
	if *out != "" {
		crashFile = *out + ".running"
		caseLimit = 4 * time.Minute
		defer os.Remove(crashFile)
	}
	o := &Output{Property: *prop, Tier: *tier, Seed: *seed, Suites: map[string]*Stats{}, Known: map[string]int{}, Rules: map[string]string{}}
	knownSigs := map[string]int{}
	for _, k := range strings.Split(*known, ",") {
		if k != "" {
			knownSigs[k] = 0
		}
	}
	totalCases := 0
	for _, su := range suites {
		if *tier == "thorough" {
			totalCases += su.Thorough
		} else {
			totalCases += su.Quick
		}
	}
	for si, su := range suites {
		if *only != "" && su.Name != *only {
			continue
		}
		suiteStart := time.Now()
		md.NextSuite()
		g := &Gen{R: rand.New(rand.NewSource(*seed*1000003 + int64(si)))}
		m := su.NewMachine()
		st := NewStats()
		ck := &Checker{M: m, Model: md, Monitors: su.Monitors, OMonitors: su.OMonitors, Known: knownSigs, Stats: st, OpName: su.OpName, MaxFind: 6, NoModel: su.NoModel, SigPrefix: su.Name + ":"}
		n := su.Quick
		if *tier == "thorough" {
			n = su.Thorough
		}
		n = int(float64(n) * *scale)
		for _, cs := range corpusFor(*prop, su.Name) {
			cs.Machine = m.ID()
			ck.Check(cs, su.Nontrivial)
		}
		share := 0.0
		if *budget > 0 && totalCases > 0 {
			share = *budget * float64(n) / (float64(totalCases) * *scale)
		}
		for k := 0; k < n; k++ {
			if share > 0 && k >= su.Quick && time.Since(suiteStart).Seconds() > share {
				st.Truncated = fmt.Sprintf("%d of %d cases generated within the time budget of %.0f s", k, n, share)
				break
			}
			g.CaseNo = k
			cs := su.Gen(g, *tier)
			cs.Machine = m.ID()
			ck.Check(cs, su.Nontrivial)
		}
		m.Close()
		o.Suites[su.Name] = st
		o.Rules[su.Name] = su.Rule
		for _, f := range ck.Findings {
			f.Sig = su.Name + ":" + f.Sig
			o.Findings = append(o.Findings, f)
		}
	}
	if *prop == "C19" || *prop == "C09" {
		rounds := 2
		if *tier == "thorough" {
			rounds = 10
		}
		desc, compared := crossProcessKeys(rounds, 4)
		st := NewStats()
		st.Cases = rounds
		st.Nontrivial, st.Distinct = rounds, rounds
		st.Samples = []string{fmt.Sprintf("%d rounds of two processes started in the same wall-clock second, %d generated keys compared", rounds, compared)}
		o.Suites["cross-process-keys"] = st
		o.Rules["cross-process-keys"] = "the harness re-executes itself as two simultaneous OS processes that print the first keys the library generates; any common key is a violation"
		if desc != "" {
			o.Findings = append(o.Findings, Finding{Kind: "monitor", Sig: "cross-process-keys:two-processes-draw-the-same-keys", Desc: desc,
				Case: "()", ImplOps: "(harness -keyprobe 4, twice, simultaneously)"})
		}
	}
	for k, v := range knownSigs {
		o.Known[k] = v
	}
	o.WallS = time.Since(start).Seconds()
	b, _ := json.MarshalIndent(o, "", " ")
	if *out != "" {
		os.WriteFile(*out, b, 0644)
	} else {
		os.Stdout.Write(b)
	}
}

// corpusFor loads minimised failures kept under /verif/corpus/<prop>/<suite>/*.tok (run first).
func corpusFor(prop, suite string) []*Case {
	dir := "corpus/" + prop + "/" + suite
	ents, err := os.ReadDir(dir)
	if err != nil {
		return nil
	}
	var out []*Case
	for _, e := range ents {
		b, err := os.ReadFile(dir + "/" + e.Name())
		if err != nil {
			continue
		}
		t, err := ParseTok(strings.TrimSpace(string(b)))
		if err != nil || t.Kind != 2 {
			continue
		}
		out = append(out, &Case{Ops: t.L})
	}
	return out
}

var machineByID = map[int]func() Machine{}

func doReplay(path, model string) int {
	b, err := os.ReadFile(path)
	if err != nil {
		fmt.Println(err)
		return 2
	}
	var f Finding
	caseStr := strings.TrimSpace(string(b))
	if json.Unmarshal(b, &f) != nil || f.ImplOps == "" {
		fmt.Println("not a finding file")
		return 2
	}
	t, err := ParseTok(f.ImplOps)
	if err != nil || t.Kind != 2 {
		fmt.Println("bad impl_ops token")
		return 2
	}
	mk, ok := machineByID[f.Machine]
	if !ok {
		fmt.Println("unknown machine")
		return 2
	}
	m := mk()
	defer m.Close()
	_ = caseStr
	r := RunImpl(m, &Case{Machine: m.ID(), Ops: t.L})
	md, err := StartModel(model)
	if err != nil {
		fmt.Println(err)
		return 2
	}
	defer md.Close()
	mo, err := md.Run(r.CaseTok)
	if err != nil {
		fmt.Println(err)
		return 2
	}
	bad := 0
	for i := range r.Ops {
		ms := "<missing>"
		if i < len(mo.L) {
			ms = mo.L[i].String()
		}
		flag := ""
		if ms != r.Obs[i].String() {
			flag = "   <-- DIFF"
			bad = 1
		}
		fmt.Printf("%3d %-60s impl=%s model=%s%s\n", i, r.Ops[i].String(), r.Obs[i].String(), ms, flag)
	}
	return bad
}
