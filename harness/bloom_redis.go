package main

import (
	"encoding/base64"
	"encoding/json"
	"sort"

	gx "github.com/kwertop/gostatix"
)

// Redis-backed Bloom machine (4): same op codes as the memory machine.
type bloomRedis struct {
	inst map[int]*gx.BloomFilter
	orc  *oracleTab
	rec  recorder
}

func (m *bloomRedis) ID() int { return 4 }
func (m *bloomRedis) Reset() {
	redisReset()
	m.inst = map[int]*gx.BloomFilter{}
	m.orc = newOracleTab()
	m.rec.reset()
}
func (m *bloomRedis) Close()      {}
func (m *bloomRedis) Oracle() Tok { return m.orc.tok() }

func redisKeys() map[string]bool {
	out := map[string]bool{}
	for _, k := range mr.Keys() {
		out[k] = true
	}
	return out
}

// newKeys returns the keys created since `before`, sorted.
func newKeys(before map[string]bool) []string {
	var out []string
	for _, k := range mr.Keys() {
		if !before[k] {
			out = append(out, k)
		}
	}
	sort.Strings(out)
	return out
}

func bloomDocTok(b []byte) Tok {
	var d struct {
		M uint64 `json:"m"`
		K uint64 `json:"k"`
		B []byte `json:"b"`
	}
	if json.Unmarshal(b, &d) != nil {
		return TL(TNu(8))
	}
	var s string
	if json.Unmarshal(d.B, &s) != nil {
		return TL(TNu(8), TNu(1))
	}
	raw, err := base64.URLEncoding.DecodeString(s)
	if err != nil {
		return TL(TNu(8), TNu(2))
	}
	return TL(TNu(d.M), TNu(d.K), TBs(raw))
}

func (m *bloomRedis) Exec(op Tok) (opOut Tok, obs Tok) {
	step := m.rec.step
	m.rec.step++
	opOut = op
	defer func() {
		if r := recover(); r != nil {
			obs = TPanic(classifyPanic(r))
		}
	}()
	a := op.L
	inv := TL(TNu(9))
	switch a[0].I() {
	case blNewParams:
		n := uint(a[2].U())
		p := float64(a[3].U()) / 1e6
		size0 := gx.VerifCalcFilterSize(n, p)
		k0 := gx.VerifCalcNumHashes(size0, n)
		before := redisKeys()
		f, err := gx.NewRedisBloomFilterWithParameters(n, p)
		key, meta := "", ""
		if f != nil {
			key, _, _ = gx.VerifBloomRedisKey(f)
			meta = f.GetMetadataKey()
		}
		opOut = TL(a[0], a[1], TNu(uint64(size0)), TNu(uint64(k0)), TBs([]byte(key)), TBs([]byte(meta)))
		if err != nil {
			return opOut, TErr(errGeneric)
		}
		m.inst[a[1].I()] = f
		if t, bad := staleKey(before, key, meta); bad {
			return opOut, t
		}
		return opOut, TOk(tparams(f))
	case blFromBits:
		words := make([]uint64, len(a[2].L))
		for i, w := range a[2].L {
			words[i] = w.U()
		}
		before := redisKeys()
		f, err := gx.NewRedisBloomFilterFromBitSet(words, uint(a[3].U()))
		key, meta := "", ""
		if f != nil {
			key, _, _ = gx.VerifBloomRedisKey(f)
		}
		for _, k := range newKeys(before) {
			if k != key {
				meta = k // the metadata hash: the handle itself does not remember its key
			}
		}
		opOut = TL(a[0], a[1], a[2], a[3], TBs([]byte(key)), TBs([]byte(meta)))
		if err != nil {
			return opOut, TErr(errGeneric)
		}
		m.inst[a[1].I()] = f
		return opOut, TOk(tparams(f))
	case blInsert:
		f := m.inst[a[1].I()]
		opOut = TL(a[0], a[1], a[2])
		if f == nil {
			return opOut, inv
		}
		bloomAddOracle(m.orc, f, a[2].B)
		if a[3].I() == 1 {
			f.InsertString(string(a[2].B))
		} else {
			f.Insert(el(a[2].B))
		}
		return opOut, TUnit()
	case blLookup:
		f := m.inst[a[1].I()]
		opOut = TL(a[0], a[1], a[2])
		if f == nil {
			return opOut, inv
		}
		bloomAddOracle(m.orc, f, a[2].B)
		if a[3].I() == 1 {
			return opOut, TBool(f.LookupString(string(a[2].B)))
		}
		return opOut, TBool(f.Lookup(el(a[2].B)))
	case blParams:
		f := m.inst[a[1].I()]
		if f == nil {
			return opOut, inv
		}
		return opOut, tparams(f)
	case opAttach:
		src := m.inst[a[2].I()]
		if src == nil {
			return TL(a[0], a[1]), inv
		}
		meta := src.GetMetadataKey()
		before := redisKeys()
		f, err := gx.NewRedisBloomFilterFromKey(meta)
		junk := ""
		if nk := newKeys(before); len(nk) > 0 {
			junk = nk[0]
		}
		opOut = TL(a[0], a[1], TBs([]byte(meta)), TBs([]byte(junk)))
		if err != nil {
			return opOut, TErr(errGeneric)
		}
		m.inst[a[1].I()] = f
		return opOut, TOk(TUnit())
	case opEquals:
		x, y := m.inst[a[1].I()], m.inst[a[2].I()]
		if x == nil || y == nil {
			return opOut, inv
		}
		ok, err := x.Equals(y)
		if err != nil {
			return opOut, TErr(errGeneric)
		}
		return opOut, TOk(TBool(ok))
	case opExport:
		f := m.inst[a[1].I()]
		opOut = TL(a[0], a[1])
		if f == nil {
			return opOut, inv
		}
		b, err := f.Export()
		if err != nil {
			return opOut, TErr(errGeneric)
		}
		m.rec.exports[labelOf(a, step)] = b
		return opOut, TOk(bloomDocTok(b))
	case opImport:
		f := m.inst[a[1].I()]
		src, ok := m.rec.exports[a[2].I()]
		if f == nil || !ok {
			return TL(a[0], a[1]), inv
		}
		opOut = TL(a[0], a[1], bloomDocTok(src))
		if err := f.Import(src); err != nil { // Bloom's Import writes into the filter's own bitset key
			return opOut, TErr(errGeneric)
		}
		return opOut, TOk(TUnit())
	}
	return opOut, inv
}
