package main

import (
	"crypto/sha1"
	"encoding/hex"
	"encoding/json"
	"fmt"
	"math/rand"
	"os"
	"sort"
	"time"
)

// Machine runs operation tokens against the implementation.
type Machine interface {
	ID() int
	Reset()
	// Exec runs one op on the implementation. It returns the op as sent to the model (oracle
	// fields such as random draws filled in) and the canonical observation.
	Exec(op Tok) (Tok, Tok)
	// Oracle returns the hash-oracle table for all elements seen since Reset.
	Oracle() Tok
	Close()
}

type Case struct {
	Machine int
	Ops     []Tok
}

type RunResult struct {
	CaseTok Tok   // full token sent to the model
	Ops     []Tok // ops with oracle fields filled
	Obs     []Tok // implementation observations
	Orig    []Tok // ops as given (before the machine filled in oracle fields)
}

// crashFile: when set, every history is written there (as a replayable finding) before the
// implementation runs it, so that a history on which the implementation takes the whole process
// down (fatal out-of-memory, stack exhaustion, deadlock) is still reported with its replay.
var crashFile string

// caseLimit: wall-clock limit for one history (0: none)
var caseLimit time.Duration

func RunImpl(m Machine, c *Case) *RunResult {
	if crashFile != "" {
		b, _ := json.Marshal(Finding{Kind: "crash", Sig: "process-aborted", Machine: m.ID(),
			Desc:    "the implementation aborted the whole process while running this history",
			ImplOps: TL(c.Ops...).String(), OpsN: len(c.Ops)})
		os.WriteFile(crashFile, b, 0644)
	}
	if caseLimit > 0 && crashFile != "" {
		// a history that does not come back (an eviction loop that never ends, a lock never released)
		// cannot be interrupted from inside the process: after caseLimit the process exits with
		// status 3 and the history in crashFile is the replay
		ops := TL(c.Ops...).String()
		id := m.ID()
		t := time.AfterFunc(caseLimit, func() {
			b, _ := json.Marshal(Finding{Kind: "crash", Sig: "process-aborted", Machine: id,
				Desc:    fmt.Sprintf("the implementation did not finish this history within %v", caseLimit),
				ImplOps: ops, OpsN: len(c.Ops)})
			os.WriteFile(crashFile, b, 0644)
			os.Exit(3)
		})
		defer t.Stop()
	}
	m.Reset()
	r := &RunResult{Orig: c.Ops}
	for _, op := range c.Ops {
		o2, obs := m.Exec(op)
		r.Ops = append(r.Ops, o2)
		r.Obs = append(r.Obs, obs)
	}
	r.CaseTok = TL(TNi(m.ID()), m.Oracle(), TL(r.Ops...))
	return r
}

// Diff compares implementation and model observations; returns index of first mismatch or -1.
func Diff(impl []Tok, model Tok) (int, string, string) {
	if model.Kind != 2 {
		return 0, "<list>", model.String()
	}
	for i := range impl {
		if i >= len(model.L) {
			return i, impl[i].String(), "<missing>"
		}
		a, b := impl[i].String(), model.L[i].String()
		if b == "(77)" { // model: outside the modelled domain (counted, not compared)
			continue
		}
		if a != b {
			return i, a, b
		}
	}
	if len(model.L) != len(impl) {
		return len(impl), "<missing>", model.L[len(impl)].String()
	}
	return -1, "", ""
}

type MonViolation struct {
	Sig  string // narrow signature: backend/call-site/failure-kind
	Desc string
	Step int
}

// Monitor is the executable form of the property text, evaluated on the implementation's own
// observations (no model involved).
type Monitor func(ops []Tok, obs []Tok) []MonViolation

// OMonitor additionally sees the ops as given (instance numbers instead of key names).
type OMonitor func(orig, ops, obs []Tok) []MonViolation

type Finding struct {
	Kind    string `json:"kind"` // "correspondence" | "monitor"
	Sig     string `json:"sig"`
	Desc    string `json:"desc"`
	Machine int    `json:"machine"`
	Step    int    `json:"step"`
	Impl    string `json:"impl,omitempty"`
	Model   string `json:"model,omitempty"`
	Case    string `json:"case"`     // shrunk case token as sent to the model
	ImplOps string `json:"impl_ops"` // the ops as executed on the implementation (replayable)
	OpsN    int    `json:"ops"`
}

// Stats collected for the evidence file.
type Stats struct {
	Cases        int            `json:"cases"`
	Ops          int            `json:"ops"`
	Nontrivial   int            `json:"nontrivial"`
	Distinct     int            `json:"distinct_nontrivial"`
	OpKinds      map[string]int `json:"op_kinds"`
	ObsErrors    int            `json:"obs_errors"`
	ObsPanics    int            `json:"obs_panics"`
	SizeHist     map[string]int `json:"size_hist"`
	Notes        map[string]int `json:"notes"`
	Samples      []string       `json:"samples"`
	seen         map[string]bool
	ModelCompare int    `json:"model_compared_ops"`
	Truncated    string `json:"truncated,omitempty"` // set when the time budget ended the suite early
}

func NewStats() *Stats {
	return &Stats{OpKinds: map[string]int{}, SizeHist: map[string]int{}, Notes: map[string]int{}, seen: map[string]bool{}}
}

func (s *Stats) Note(k string) { s.Notes[k]++ }

func (s *Stats) Record(machine int, r *RunResult, nontrivial bool, opName func(Tok) string) {
	s.Cases++
	s.Ops += len(r.Ops)
	for i, op := range r.Ops {
		s.OpKinds[opName(op)]++
		o := r.Obs[i]
		switch outcomeKind(o) {
		case 1:
			s.ObsErrors++
		case 2:
			s.ObsPanics++
		}
	}
	b := "ops<=" + bucket(len(r.Ops))
	s.SizeHist[b]++
	if nontrivial {
		s.Nontrivial++
		h := sha1.Sum([]byte(r.CaseTok.String()))
		k := hex.EncodeToString(h[:8])
		if !s.seen[k] {
			s.seen[k] = true
			s.Distinct++
		}
	}
	if len(s.Samples) < 3 {
		str := r.CaseTok.String()
		if len(str) > 600 {
			str = str[:600] + "..."
		}
		s.Samples = append(s.Samples, str)
	}
}

func bucket(n int) string {
	for _, b := range []int{4, 8, 16, 32, 64, 128, 256, 512, 1024} {
		if n <= b {
			return fmt.Sprint(b)
		}
	}
	return "inf"
}

// Checker bundles everything needed to run, diff, monitor and shrink cases of one machine.
type Checker struct {
	M         Machine
	Model     *ModelDriver
	Monitors  []Monitor
	OMonitors []OMonitor
	// KnownSigs: monitor signatures of recorded findings (still reported, but as known).
	Findings []Finding
	Known    map[string]int // sig -> hits (for monitor findings listed as known)
	Stats    *Stats
	OpName   func(Tok) string
	MaxFind  int
	// SkipModel: ops for which model comparison is skipped (never used for claimed projections).
	NoModel   bool
	SigPrefix string
	hasCorr   bool // one (shrunk) correspondence finding per suite is enough
}

func (c *Checker) mismatch(cs *Case) (int, string, string, *RunResult) {
	r := RunImpl(c.M, cs)
	if c.NoModel {
		return -1, "", "", r
	}
	if sp, ok := c.M.(splitter); ok {
		for _, sub := range sp.Split(r) {
			if len(sub.Obs) == 0 {
				continue
			}
			mo, err := c.Model.Run(sub.CaseTok)
			if err != nil {
				return 0, "<model>", err.Error(), r
			}
			if i, a, b := Diff(sub.Obs, mo); i >= 0 {
				g := len(r.Ops)
				if i < len(sub.Steps) {
					g = sub.Steps[i]
				}
				return g, a, b, r
			}
		}
		return -1, "", "", r
	}
	mo, err := c.Model.Run(r.CaseTok)
	if err != nil {
		return 0, "<model>", err.Error(), r
	}
	i, a, b := Diff(r.Obs, mo)
	return i, a, b, r
}

func (c *Checker) monitor(r *RunResult) []MonViolation {
	var out []MonViolation
	for _, m := range c.Monitors {
		out = append(out, m(r.Ops, r.Obs)...)
	}
	for _, m := range c.OMonitors {
		out = append(out, m(r.Orig, r.Ops, r.Obs)...)
	}
	return out
}

// shrink: greedy delta-debugging on the op list with predicate `bad`.
const shrinkBudget = 60 * time.Second

// The search stops after shrinkBudget of wall-clock time (large histories on large configurations
// cost a second or more per attempt); what has been reached by then is the replay.
func shrinkOps(ops []Tok, bad func([]Tok) bool) []Tok {
	cur := append([]Tok(nil), ops...)
	chunk := len(cur) / 2
	deadline := time.Now().Add(shrinkBudget)
	for chunk >= 1 {
		changed := false
		for i := 0; i+chunk <= len(cur); {
			if time.Now().After(deadline) {
				return cur
			}
			cand := append(append([]Tok(nil), cur[:i]...), cur[i+chunk:]...)
			if len(cand) > 0 && bad(cand) {
				cur = cand
				changed = true
			} else {
				i += chunk
			}
		}
		if !changed || chunk > len(cur)/2 {
			chunk /= 2
		}
	}
	return cur
}

// Check runs one case: correspondence diff, monitors; records findings (shrunk).
func (c *Checker) Check(cs *Case, nontrivial func(*RunResult) bool) {
	i, a, b, r := c.mismatch(cs)
	if c.Stats != nil {
		c.Stats.Record(cs.Machine, r, nontrivial == nil || nontrivial(r), c.OpName)
		if !c.NoModel {
			c.Stats.ModelCompare += len(r.Ops)
		}
	}
	if i >= 0 && len(c.Findings) < c.MaxFind && !c.hasCorr {
		c.hasCorr = true
		sh := shrinkOps(cs.Ops, func(ops []Tok) bool {
			j, _, _, _ := c.mismatch(&Case{cs.Machine, ops})
			return j >= 0
		})
		j, a2, b2, r2 := c.mismatch(&Case{cs.Machine, sh})
		if j < 0 {
			j, a2, b2, r2 = i, a, b, r
		}
		name := "?"
		if j < len(r2.Ops) {
			name = c.OpName(r2.Ops[j])
		}
		c.Findings = append(c.Findings, Finding{Kind: "correspondence", Sig: "corr/" + name,
			Desc:    fmt.Sprintf("implementation and model disagree at step %d (%s)", j, name),
			Machine: cs.Machine, Step: j, Impl: a2, Model: b2, Case: r2.CaseTok.String(), ImplOps: TL(sh...).String(), OpsN: len(r2.Ops)})
	}
	for _, v := range c.monitor(r) {
		if c.Known != nil {
			if _, ok := c.Known[c.SigPrefix+v.Sig]; ok {
				c.Known[c.SigPrefix+v.Sig]++
				continue
			}
		}
		dup := false
		for _, f := range c.Findings {
			if f.Kind == "monitor" && f.Sig == v.Sig {
				dup = true
			}
		}
		if dup || len(c.Findings) >= c.MaxFind {
			continue
		}
		sig := v.Sig
		sh := shrinkOps(cs.Ops, func(ops []Tok) bool {
			rr := RunImpl(c.M, &Case{cs.Machine, ops})
			for _, w := range c.monitor(rr) {
				if w.Sig == sig {
					return true
				}
			}
			return false
		})
		rr := RunImpl(c.M, &Case{cs.Machine, sh})
		desc, step := v.Desc, v.Step
		for _, w := range c.monitor(rr) {
			if w.Sig == sig {
				desc, step = w.Desc, w.Step
				break
			}
		}
		c.Findings = append(c.Findings, Finding{Kind: "monitor", Sig: sig, Desc: desc,
			Machine: cs.Machine, Step: step, Case: rr.CaseTok.String(), ImplOps: TL(sh...).String(), OpsN: len(rr.Ops)})
	}
}

// ---------- generators shared by all structures ----------

type Gen struct {
	R      *rand.Rand
	Small  bool // keep states small (all-prefix sweeps are quadratic in the image size)
	Tweak  int  // 0 none; k>0: change the k-th constructor parameter (used to build near-twins)
	Big    bool // HyperLogLog (in memory only): rarely draw 2^16 / 2^17 registers (32-bit products of the register count wrap there)
	CaseNo int  // number of the case within its suite (set by the driver)
	Wide   bool // Count-Min: rarely draw rows wider than 4096 cells (Redis script chunking / unpack limits)
}

func (g *Gen) Intn(n int) int { return g.R.Intn(n) }
func (g *Gen) Pick(xs ...int) int {
	return xs[g.R.Intn(len(xs))]
}
func (g *Gen) Chance(p float64) bool { return g.R.Float64() < p }

// Rare decides whether a rare scenario is generated: by chance with probability p, and in any case
// once every `period` cases of the suite (case numbers congruent to phase), so that every run of a
// suite with at least `period` cases contains the scenario whatever the seed.
func (g *Gen) Rare(p float64, period, phase int) bool {
	c := g.Chance(p)
	return c || g.CaseNo%period == phase
}

// ElementPool builds a pool of byte strings: empty, 1-byte, long (>16 bytes so block paths of the
// hashes are hit), binary incl. invalid UTF-8.
func (g *Gen) ElementPool(n int, allowEmpty bool) [][]byte {
	var pool [][]byte
	seen := map[string]bool{}
	add := func(b []byte) {
		if !seen[string(b)] {
			seen[string(b)] = true
			pool = append(pool, b)
		}
	}
	if allowEmpty && g.Chance(0.5) {
		add([]byte{})
	}
	for len(pool) < n {
		var b []byte
		switch g.Intn(7) {
		case 6: // longer than any fixed-size scratch buffer an implementation might copy keys into
			l := g.Pick(33, 64, 65, 66, 100, 129, 257, 300+g.Intn(200))
			b = make([]byte, l)
			if g.Chance(0.5) {
				g.R.Read(b)
			} else { // long keys sharing a long prefix: they differ only near the end
				for i := range b {
					b[i] = byte('a' + i%26)
				}
				b[l-1-g.Intn(3)] = byte('0' + g.Intn(10))
			}
		case 0:
			b = []byte{byte(g.Intn(256))}
		case 1:
			l := 17 + g.Intn(32)
			b = make([]byte, l)
			g.R.Read(b)
		case 2:
			b = []byte(fmt.Sprintf("key-%d", g.Intn(1000)))
		case 3:
			b = []byte{0xff, 0xfe, byte(g.Intn(256))}
		case 4:
			l := 1 + g.Intn(16)
			b = make([]byte, l)
			for i := range b {
				b[i] = byte('a' + g.Intn(26))
			}
		default:
			l := 2 + g.Intn(6)
			b = make([]byte, l)
			g.R.Read(b)
		}
		add(b)
	}
	return pool
}

func sortedKeys(m map[string]int) []string {
	var ks []string
	for k := range m {
		ks = append(ks, k)
	}
	sort.Strings(ks)
	return ks
}

// bigRegs wraps a generator so that HyperLogLog register counts rarely reach 2^16 and 2^17.
func bigRegs(gen func(g *Gen, tier string) *Case) func(g *Gen, tier string) *Case {
	return func(g *Gen, tier string) *Case {
		g.Big = true
		defer func() { g.Big = false }()
		return gen(g, tier)
	}
}

// wide wraps a generator so that Count-Min dimensions rarely include rows wider than 4096 cells.
func wide(gen func(g *Gen, tier string) *Case) func(g *Gen, tier string) *Case {
	return func(g *Gen, tier string) *Case {
		g.Wide = true
		defer func() { g.Wide = false }()
		return gen(g, tier)
	}
}

// el hands an element to the implementation the way a caller with one reusable buffer does (a
// bufio.Scanner's token, a pooled buffer): every call passes a view of the SAME backing array,
// refilled for each call. An implementation that keeps the slice it was given instead of what it
// read from it then sees later contents — the model and the monitors keep the values themselves.
var callerBuf = make([]byte, 1<<16)
var callerUsed int

func el(b []byte) []byte {
	if b == nil || len(b) > len(callerBuf) {
		return b
	}
	for i := 0; i < callerUsed; i++ {
		callerBuf[i] = 0xA5
	}
	callerUsed = len(b)
	copy(callerBuf, b)
	return callerBuf[:len(b):len(b)]
}
