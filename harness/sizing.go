package main

import (
	"fmt"
	"math"
	"math/big"

	gx "github.com/kwertop/gostatix"
)

// ---------- C15: sizing formulas, probe formulas, empirical rates ----------
// machine 11; ops:
// (0 n p1e9)            Bloom sizing: obs (size numHashes) vs reference computed with 200-bit floats
// (1 size b err1e9)     cuckoo fingerprint length + capacity
// (2 eps1e9 delta1e9)   CMS dimensions
// (3 size k x)          Bloom probe positions   -> model form (3 size k x h1 h2), obs = indices
// (4 rows cols x)       CMS row positions       -> model form (4 rows cols x h1 h2)
// (5 p x)               HLL index/count         -> model form (5 p x h1)
// (6 n p1e6 q)          empirical Bloom false-positive rate (statistical; no model)
// (7 size b err1e6 q)   empirical cuckoo false-positive rate
// (8 eps1e6 delta1e6 n) empirical CMS over-estimate frequency
type sizingMachine struct{}

func (m *sizingMachine) ID() int     { return 11 }
func (m *sizingMachine) Reset()      {}
func (m *sizingMachine) Close()      {}
func (m *sizingMachine) Oracle() Tok { return TL() }

const prec = 256

func bf(x float64) *big.Float { return new(big.Float).SetPrec(prec).SetFloat64(x) }

// lnBig: natural logarithm with ~200 correct bits, by ln x = 2 atanh((x-1)/(x+1)) after scaling
// x into [1,2) with powers of two (ln 2 from the same series).
func lnBig(x *big.Float) *big.Float {
	one := bf(1)
	two := bf(2)
	atanh2 := func(y *big.Float) *big.Float { // 2*atanh(y) for |y| <= 1/3
		y2 := new(big.Float).SetPrec(prec).Mul(y, y)
		term := new(big.Float).SetPrec(prec).Set(y)
		sum := new(big.Float).SetPrec(prec)
		for k := 1; k < 400; k += 2 {
			t := new(big.Float).SetPrec(prec).Quo(term, bf(float64(k)))
			sum.Add(sum, t)
			term.Mul(term, y2)
		}
		return sum.Mul(sum, two)
	}
	ln2 := atanh2(new(big.Float).SetPrec(prec).Quo(one, bf(3))) // ln 2 = 2 atanh(1/3)
	e := 0
	v := new(big.Float).SetPrec(prec).Set(x)
	for v.Cmp(two) >= 0 {
		v.Quo(v, two)
		e++
	}
	for v.Cmp(one) < 0 {
		v.Mul(v, two)
		e--
	}
	num := new(big.Float).SetPrec(prec).Sub(v, one)
	den := new(big.Float).SetPrec(prec).Add(v, one)
	r := atanh2(num.Quo(num, den))
	return r.Add(r, new(big.Float).SetPrec(prec).Mul(ln2, bf(float64(e))))
}

// ceilBig returns ceil(x) and whether x is within 1e-9 of an integer (float64 may round either way)
func ceilBig(x *big.Float) (uint64, bool) {
	i, _ := x.Int(nil)
	fi := new(big.Float).SetPrec(prec).SetInt(i)
	frac := new(big.Float).SetPrec(prec).Sub(x, fi)
	f, _ := frac.Float64()
	c := i.Uint64()
	if f > 0 {
		c++
	}
	near := math.Abs(f) < 1e-9 || math.Abs(f-1) < 1e-9
	return c, near
}

func (m *sizingMachine) Exec(op Tok) (opOut Tok, obs Tok) {
	opOut = op
	defer func() {
		if r := recover(); r != nil {
			obs = TPanic(classifyPanic(r))
		}
	}()
	a := op.L
	switch a[0].I() {
	case 0:
		n := uint(a[1].U())
		p := float64(a[2].U()) / 1e9
		size := gx.VerifCalcFilterSize(n, p)
		k := gx.VerifCalcNumHashes(size, n)
		// reference: m = ceil(-n ln p / ln^2 2); k = ceil(floor(m/n) ln 2)
		ln2 := lnBig(bf(2))
		num := new(big.Float).SetPrec(prec).Mul(bf(float64(n)), lnBig(bf(p)))
		num.Neg(num)
		den := new(big.Float).SetPrec(prec).Mul(ln2, ln2)
		mref, near1 := ceilBig(num.Quo(num, den))
		kref, near2 := ceilBig(new(big.Float).SetPrec(prec).Mul(bf(float64(uint64(size)/uint64(n))), ln2))
		okm := uint64(size) == mref || (near1 && (uint64(size)+1 == mref || uint64(size) == mref+1))
		okk := uint64(k) == kref || near2
		return opOut, TL(TBool(okm), TBool(okk), TNu(uint64(size)), TNu(uint64(k)), TNu(mref), TNu(kref))
	case 1:
		size, b := a[1].U(), a[2].U()
		e := float64(a[3].U()) / 1e9
		fpl := gx.VerifCalcFingerPrintLength(size, e)
		// reference: ceil(ceil(log2(1/e) + log2(2 size)) / 8)
		ln2 := lnBig(bf(2))
		l := new(big.Float).SetPrec(prec).Quo(lnBig(bf(1/e)), ln2)
		l.Add(l, new(big.Float).SetPrec(prec).Quo(lnBig(bf(float64(2*size))), ln2))
		v, near := ceilBig(l)
		ref := (v + 7) / 8
		f := gx.NewCuckooFilterWithErrorRate(size, b, 5, e)
		cs, _, cf, _ := gx.VerifCuckooParams(f)
		capRef, nearc := ceilBig(new(big.Float).SetPrec(prec).Quo(new(big.Float).SetPrec(prec).Mul(bf(float64(size)), bf(0.955)), bf(float64(b))))
		return opOut, TL(TBool(fpl == ref || near), TBool(cs == capRef || nearc), TBool(cf == fpl), TNu(fpl), TNu(ref), TNu(cs), TNu(capRef))
	case 2:
		eps := float64(a[1].U()) / 1e9
		delta := float64(a[2].U()) / 1e9
		s, err := gx.NewCountMinSketchFromEstimates(eps, delta)
		if err != nil {
			return opOut, TErr(errGeneric)
		}
		eBig := new(big.Float).SetPrec(prec).SetFloat64(math.E)
		cref, nearc := ceilBig(new(big.Float).SetPrec(prec).Quo(eBig, bf(eps)))
		rref, nearr := ceilBig(lnBig(bf(1 / delta)))
		return opOut, TL(TBool(uint64(s.GetColumns()) == cref || nearc), TBool(uint64(s.GetRows()) == rref || nearr),
			TNu(uint64(s.GetColumns())), TNu(cref), TNu(uint64(s.GetRows())), TNu(rref))
	case 3:
		words := make([]uint64, (a[1].U()+63)/64)
		_ = words
		f, err := gx.NewBloomFilterWithBitSet(uint(a[1].U()), uint(a[2].U()), bloomBitset(uint(a[1].U())), "")
		if err != nil {
			return opOut, TErr(errGeneric)
		}
		h := gx.VerifBloomHashes(a[3].B)
		opOut = TL(a[0], a[1], a[2], a[3], TNu(h[0]), TNu(h[1]))
		idx := make([]uint64, f.GetNumHashes())
		for i := range idx {
			idx[i] = uint64(gx.VerifBloomIndex(f, h, uint(i)))
		}
		return opOut, TListU(idx)
	case 4:
		s, err := gx.NewCountMinSketch(uint(a[1].U()), uint(a[2].U()))
		if err != nil {
			return opOut, TErr(errGeneric)
		}
		h := gx.VerifBloomHashes(a[3].B) // metro.Hash128(data, 1373): the hash both structures use
		opOut = TL(a[0], a[1], a[2], a[3], TNu(h[0]), TNu(h[1]))
		pos := gx.VerifCMSPositions(s, a[3].B)
		p := make([]uint64, len(pos))
		for i, v := range pos {
			p[i] = uint64(v)
		}
		return opOut, TListU(p)
	case 5:
		hl, err := gx.NewHyperLogLog(uint64(1) << a[1].U())
		if err != nil {
			return opOut, TErr(errGeneric)
		}
		h := gx.VerifBloomHashes(a[2].B)
		opOut = TL(a[0], a[1], a[2], TNu(h[0]))
		i, c := gx.VerifHLLIndexCount(hl, a[2].B)
		return opOut, TL(TNu(i), TNu(c))
	case 6:
		n := uint(a[1].U())
		p := float64(a[2].U()) / 1e6
		f, err := gx.NewMemBloomFilterWithParameters(n, p)
		if err != nil {
			return opOut, TErr(errGeneric)
		}
		for i := uint(0); i < n; i++ {
			f.Insert(shapedKey(a[3].U(), int(i), "in-"))
		}
		q := 20000
		fp := 0
		for i := 0; i < q; i++ {
			if f.Lookup(shapedKey(a[3].U(), i, "out-")) {
				fp++
			}
		}
		return opOut, TL(TNi(fp), TNi(q))
	case 7:
		size, b := a[1].U(), a[2].U()
		e := float64(a[3].U()) / 1e6
		f := gx.NewCuckooFilterWithErrorRate(size, b, 500, e)
		cs, cb, fpl, _ := gx.VerifCuckooParams(f)
		load := int(float64(cs*cb) * 0.9)
		ins := 0
		for i := 0; i < load; i++ {
			func() {
				defer func() { recover() }()
				if f.Insert(shapedKey(a[4].U(), i, "in-"), false) {
					ins++
				}
			}()
		}
		q := 20000
		fp := 0
		for i := 0; i < q; i++ {
			if f.Lookup(shapedKey(a[4].U(), i, "out-")) {
				fp++
			}
		}
		return opOut, TL(TNi(fp), TNi(q), TNi(ins), TNu(fpl), TNu(cb))
	case 8:
		eps := float64(a[1].U()) / 1e6
		delta := float64(a[2].U()) / 1e6
		s, err := gx.NewCountMinSketchFromEstimates(eps, delta)
		if err != nil {
			return opOut, TErr(errGeneric)
		}
		n := int(a[3].U())
		total := uint64(0)
		truth := map[string]uint64{}
		for i := 0; i < n; i++ {
			k := string(shapedKey(a[4].U(), i%(n/4+1), "k-"))
			c := uint64(1 + i%5)
			s.Update([]byte(k), c)
			truth[k] += c
			total += c
		}
		// eight heavy hitters, each well above eps*N: the (eps, delta) guarantee is about the light
		// keys that share cells with them, and needs the rows to hash independently
		heavy := map[string]bool{}
		hc := total/4 + 1
		for j := 0; j < 8; j++ {
			k := string(shapedKey(a[4].U(), j, "heavy-"))
			s.Update([]byte(k), hc)
			heavy[k] = true
			truth[k] += hc
			total += hc
		}
		bad, q := 0, 0
		for k, tc := range truth {
			if heavy[k] {
				continue
			}
			q++
			if float64(s.Count([]byte(k))-tc) > eps*float64(total) {
				bad++
			}
		}
		return opOut, TL(TNi(bad), TNi(q))
	case 10:
		// the same (eps, delta) test against the Redis-backed sketch (its Count goes through a Lua
		// script of its own): a smaller stream, light keys of weight 5 and heavy ones of weight 10000
		redisReset()
		eps := float64(a[1].U()) / 1e6
		delta := float64(a[2].U()) / 1e6
		s, err := gx.NewCountMinSketchRedisFromEstimates(eps, delta)
		if err != nil {
			return opOut, TErr(errGeneric)
		}
		n := int(a[3].U())
		total := uint64(0)
		truth := map[string]uint64{}
		heavy := map[string]bool{}
		for j := 0; j < n/10+1; j++ {
			k := string(shapedKey(a[4].U(), j, "heavy-"))
			if s.Update([]byte(k), 10000) != nil {
				return opOut, TErr(errGeneric)
			}
			heavy[k] = true
			truth[k] += 10000
			total += 10000
		}
		for i := 0; i < n; i++ {
			k := string(shapedKey(a[4].U(), i, "k-"))
			if s.Update([]byte(k), 5) != nil {
				return opOut, TErr(errGeneric)
			}
			truth[k] += 5
			total += 5
		}
		bad, q := 0, 0
		for k, tc := range truth {
			if heavy[k] {
				continue
			}
			q++
			c, err := s.Count([]byte(k))
			if err != nil {
				return opOut, TErr(errGeneric)
			}
			if c < tc || float64(c-tc) > eps*float64(total) {
				bad++
			}
		}
		return opOut, TL(TNi(bad), TNi(q))
	case 9:
		// fingerprint-hash quality on structured keys: 3000 fixed-width identifiers per width 20..35
		// (varying digits last). Two different keys with the same 64-bit hash are a certain false
		// positive in an almost empty filter, whatever the error budget.
		coll := 0
		var exA, exB []byte
		for w := 20; w < 36; w++ {
			seen := map[uint64][]byte{}
			for i := 0; i < 3000; i++ {
				num := fmt.Sprint(i)
				k := fmt.Sprintf("id-%d-", a[1].U()%1000)
				for len(k)+len(num) < w {
					k += "0"
				}
				key := []byte(k + num)
				h := gx.VerifMurmur(key)
				if prev, ok := seen[h]; ok {
					coll++
					if exA == nil {
						exA, exB = prev, key
					}
				} else {
					seen[h] = key
				}
			}
		}
		fp := 0
		if exA != nil {
			f := gx.NewCuckooFilterWithErrorRate(1000, 4, 500, 0.01)
			func() {
				defer func() { recover() }()
				f.Insert(exA, false)
				if f.Lookup(exB) {
					fp = 1
				}
			}()
		}
		return opOut, TL(TNi(coll), TNi(16*3000), TBs(exA), TBs(exB), TNi(fp))
	}
	return opOut, TL(TNu(9))
}

// shapedKey builds the fixed-width identifier <prefix><zero padding><i>, the width cycling through
// 20..35 bytes with i, so that every rate test uses structured keys of every tail length of the
// block hashes (length mod 16) whose varying digits are the LAST bytes.
func shapedKey(seed uint64, i int, prefix string) []byte {
	w := 20 + int((seed+uint64(i))%16)
	num := fmt.Sprint(i)
	k := fmt.Sprintf("%s%d-", prefix, seed%1000)
	for len(k)+len(num) < w {
		k += "0"
	}
	return []byte(k + num)
}

func bloomBitset(size uint) gx.IBitSet {
	f := gx.NewMemBloomFilterFromBitSet(make([]uint64, (size+63)/64), 1)
	return *f.GetBitSet()
}

func genC15formula(g *Gen, tier string) *Case {
	var ops []Tok
	for i := 0; i < 12; i++ {
		n := 1000 + g.Intn(200000)
		p := uint64(1e5) + uint64(g.R.Int63n(int64(5e8-1e5))) // p in [1e-4, 0.5]
		ops = append(ops, TL(TNi(0), TNi(n), TNu(p)))
		ops = append(ops, TL(TNi(1), TNi(1+g.Intn(5000)), TNi(g.Pick(1, 2, 4, 8)), TNu(uint64(1e5)+uint64(g.R.Int63n(int64(5e8))))))
		ops = append(ops, TL(TNi(2), TNu(uint64(1e5)+uint64(g.R.Int63n(int64(9e8)))), TNu(uint64(1e5)+uint64(g.R.Int63n(int64(9e8))))))
	}
	pool := g.ElementPool(8, true)
	for _, x := range pool {
		ops = append(ops, TL(TNi(3), TNi(g.Pick(1, 2, 63, 64, 65, 1000, 4096, 100003)), TNi(g.Pick(1, 2, 3, 7, 24, 100)), TBs(x)))
		ops = append(ops, TL(TNi(4), TNi(g.Pick(1, 2, 5, 9)), TNi(g.Pick(1, 2, 7, 64, 1000)), TBs(x)))
		ops = append(ops, TL(TNi(5), TNi(g.Pick(0, 1, 2, 6, 7, 10, 12)), TBs(x)))
	}
	return &Case{Ops: ops}
}

func genC15stat(g *Gen, tier string) *Case {
	seed := uint64(g.Intn(1 << 30))
	ops := []Tok{
		TL(TNi(6), TNi(g.Pick(1000, 2000, 5000)), TNi(g.Pick(100, 1000, 10000, 100000, 300000, 500000)), TNu(seed)),
		TL(TNi(7), TNi(g.Pick(20, 100, 1000, 4000)), TNi(g.Pick(2, 4)), TNi(g.Pick(1000, 10000, 100000)), TNu(seed)),
		TL(TNi(8), TNi(g.Pick(10000, 50000, 200000)), TNi(g.Pick(100, 1000, 10000, 100000, 500000)), TNi(g.Pick(2000, 8000)), TNu(seed)),
		TL(TNi(9), TNu(seed)),
		TL(TNi(10), TNi(g.Pick(10000, 20000)), TNi(g.Pick(10000, 100000)), TNi(g.Pick(300, 600)), TNu(seed)),
	}
	return &Case{Ops: ops}
}

func sizingOpName(op Tok) string {
	names := []string{"BloomSizing", "CuckooSizing", "CMSSizing", "BloomProbes", "CMSRows", "HLLIndex", "BloomFPR", "CuckooFPR", "CMSOverestimate", "CuckooHashCollisions", "CMSRedisEstimate"}
	k := op.L[0].I()
	if k < len(names) {
		return names[k]
	}
	return "?"
}

// upper acceptance bound for a count of `hits` out of q at budget p: materially above means above
// 1.5 p plus five standard deviations (one-sided, ~1e-6)
func aboveBudget(hits, q int, p float64) bool {
	pp := 1.5 * p
	if pp > 1 {
		pp = 1
	}
	lim := pp*float64(q) + 5*math.Sqrt(pp*(1-pp)*float64(q)) + 3
	return float64(hits) > lim
}

func monitorSizing(ops, obs []Tok) []MonViolation {
	var out []MonViolation
	for step, op := range ops {
		a, o := op.L, obs[step]
		if isPanic(o) {
			out = append(out, MonViolation{"sizing/" + sizingOpName(op) + "/panic", "sizing operation panicked", step})
			continue
		}
		if o.Kind != 2 || outcomeKind(o) >= 0 {
			continue
		}
		switch a[0].I() {
		case 0:
			if o.L[0].U() == 0 {
				out = append(out, MonViolation{"sizing/bloom/size-formula", fmt.Sprintf("filter size %d, reference ceil(-n ln p / ln^2 2) = %d", o.L[2].U(), o.L[4].U()), step})
			}
			if o.L[1].U() == 0 {
				out = append(out, MonViolation{"sizing/bloom/numhashes-formula", fmt.Sprintf("numHashes %d, reference %d", o.L[3].U(), o.L[5].U()), step})
			}
		case 1:
			if o.L[0].U() == 0 || o.L[1].U() == 0 || o.L[2].U() == 0 {
				out = append(out, MonViolation{"sizing/cuckoo/formula", "fingerprint length or capacity differs from the reference formula: " + o.String(), step})
			}
		case 2:
			if o.L[0].U() == 0 || o.L[1].U() == 0 {
				out = append(out, MonViolation{"sizing/cms/formula", "columns/rows differ from ceil(e/eps), ceil(ln 1/delta): " + o.String(), step})
			}
		case 6:
			p := float64(a[2].U()) / 1e6
			if aboveBudget(o.L[0].I(), o.L[1].I(), p) {
				out = append(out, MonViolation{"stat/bloom/false-positive-rate-above-budget",
					fmt.Sprintf("n=%d p=%g: %d false positives in %d fresh lookups", a[1].U(), p, o.L[0].I(), o.L[1].I()), step})
			}
		case 7:
			e := float64(a[3].U()) / 1e6
			if aboveBudget(o.L[0].I(), o.L[1].I(), e) {
				// the recorded defect (fingerprints are fpl DECIMAL digits, leading digit skewed) explains
				// rates up to about 2*bucketSize / 10^(fpl-1); anything beyond that is something else
				sig := "stat/cuckoo/false-positive-rate-above-budget"
				if len(o.L) >= 5 {
					asBuilt := 2 * float64(o.L[4].U()) / math.Pow(10, float64(o.L[3].U())-1)
					if asBuilt < 1 && aboveBudget(o.L[0].I(), o.L[1].I(), asBuilt/1.5) {
						sig = "stat/cuckoo/false-positive-rate-beyond-decimal-fingerprints"
					}
				}
				out = append(out, MonViolation{sig,
					fmt.Sprintf("size=%d b=%d err=%g: %d false positives in %d fresh lookups at 90%% load", a[1].U(), a[2].U(), e, o.L[0].I(), o.L[1].I()), step})
			}
		case 9:
			if o.L[0].U() > 0 {
				out = append(out, MonViolation{"stat/cuckoo/hash-collisions-on-structured-keys",
					fmt.Sprintf("%d of %d fixed-width identifiers share their 64-bit fingerprint hash with another one, e.g. %q and %q; Insert of the first makes Lookup of the second true in an empty filter built for error rate 0.01: %v",
						o.L[0].U(), o.L[1].U(), o.L[2].B, o.L[3].B, o.L[4].U() == 1), step})
			}
		case 10:
			delta := float64(a[2].U()) / 1e6
			if len(o.L) == 2 && aboveBudget(o.L[0].I(), o.L[1].I(), delta) {
				out = append(out, MonViolation{"stat/cms-redis/estimate-outside-eps-N-above-delta",
					fmt.Sprintf("Redis sketch eps=%g delta=%g: %d of %d light keys estimated outside [true, true+eps*N]", float64(a[1].U())/1e6, delta, o.L[0].I(), o.L[1].I()), step})
			}
		case 8:
			delta := float64(a[2].U()) / 1e6
			if aboveBudget(o.L[0].I(), o.L[1].I(), delta) {
				out = append(out, MonViolation{"stat/cms/overestimate-frequency-above-delta",
					fmt.Sprintf("eps=%g delta=%g: %d of %d keys over-estimated by more than eps*N", float64(a[1].U())/1e6, delta, o.L[0].I(), o.L[1].I()), step})
			}
		}
	}
	return out
}
