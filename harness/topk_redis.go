package main

import (
	"context"
	"encoding/json"
	"strconv"

	gx "github.com/kwertop/gostatix"
)

// Redis-backed Top-K machine (10): same op codes as the memory machine.
type topkRedis struct {
	inst map[int]*gx.TopKRedis
	orc  *oracleTab
	rec  recorder
}

func (m *topkRedis) ID() int { return 10 }
func (m *topkRedis) Reset() {
	redisReset()
	m.inst = map[int]*gx.TopKRedis{}
	m.orc = newOracleTab()
	m.rec.reset()
}
func (m *topkRedis) Close()      {}
func (m *topkRedis) Oracle() Tok { return m.orc.tok() }

func (m *topkRedis) skOracle(t *gx.TopKRedis, x []byte) {
	_, _, _, sk, _, _ := gx.VerifTopKRedisState(t)
	if sk == nil {
		return
	}
	rows, cols, _, _, _ := gx.VerifCMSRedisState(sk)
	key := strconv.Itoa(int(rows)) + "/" + strconv.Itoa(int(cols)) + "/" + string(x)
	if m.orc.has(key) {
		return
	}
	pos := gx.VerifCMSRedisPositions(sk, x)
	p := make([]uint64, len(pos))
	for i, v := range pos {
		p[i] = uint64(v)
	}
	m.orc.add(key, []uint64{uint64(rows), uint64(cols)}, x, p)
}

func topkDocTok(b []byte) Tok {
	var d struct {
		K  uint64          `json:"k"`
		ER json.RawMessage `json:"er"`
		A  json.RawMessage `json:"a"`
		S  cmsDoc          `json:"s"`
		H  []struct {
			V string `json:"v"`
			F uint64 `json:"f"`
		} `json:"h"`
		HK string `json:"hk"`
	}
	if json.Unmarshal(b, &d) != nil {
		return TL(TNu(8))
	}
	hs := make([]Tok, len(d.H))
	for i, e := range d.H {
		hs[i] = TL(TBs([]byte(e.V)), TNu(e.F))
	}
	return TL(TNu(d.K), rawText(d.ER), rawText(d.A), cmsDocTok(d.S), TL(hs...), TBs([]byte(d.HK)))
}

func (m *topkRedis) Exec(op Tok) (opOut Tok, obs Tok) {
	step := m.rec.step
	m.rec.step++
	opOut = op
	defer func() {
		if r := recover(); r != nil {
			obs = TPanic(classifyPanic(r))
		}
	}()
	a := op.L
	inv := TL(TNu(9))
	switch a[0].I() {
	case tkNew:
		er, acc := nudge(float64(a[3].U())/1e6, a, 5), nudge(float64(a[4].U())/1e6, a, 6)
		ertxt := strconv.FormatFloat(er, 'f', -1, 64)
		acctxt := strconv.FormatFloat(acc, 'f', -1, 64)
		// predicted form for the case that construction panics (nil sketch): dimensions 0
		opOut = TL(a[0], a[1], a[2], TNu(0), TNu(0), TNu(m.orc.addFloat(er)), TNu(m.orc.addFloat(acc)),
			TBs([]byte(ertxt)), TBs([]byte(acctxt)), TBs(nil), TBs(nil), TBs(nil), TBs(nil))
		before := redisKeys()
		t := gx.NewTopKRedis(uint(a[2].U()), er, acc)
		if t == nil {
			return opOut, TErr(errGeneric)
		}
		_, _, _, sk, hkey, meta := gx.VerifTopKRedisState(t)
		rows, cols, _, skey, smeta := gx.VerifCMSRedisState(sk)
		opOut = TL(a[0], a[1], a[2], TNu(uint64(rows)), TNu(uint64(cols)), TNu(m.orc.addFloat(er)), TNu(m.orc.addFloat(acc)),
			TBs([]byte(ertxt)), TBs([]byte(acctxt)), TBs([]byte(skey)), TBs([]byte(smeta)), TBs([]byte(hkey)), TBs([]byte(meta)))
		m.inst[a[1].I()] = t
		if x, bad := staleKey(before, skey, smeta, hkey, meta); bad {
			return opOut, x
		}
		return opOut, TOk(TUnit())
	case tkInsert:
		t := m.inst[a[1].I()]
		if t == nil {
			return opOut, inv
		}
		m.skOracle(t, a[2].B)
		if err := t.Insert(el(a[2].B), a[3].U()); err != nil {
			return opOut, TErr(errGeneric)
		}
		return opOut, TOk(TUnit())
	case tkValues:
		t := m.inst[a[1].I()]
		if t == nil {
			return opOut, inv
		}
		vs, err := t.Values()
		if err != nil {
			return opOut, TErr(errGeneric)
		}
		return opOut, valuesTok(vs)
	case tkHeap:
		t := m.inst[a[1].I()]
		if t == nil {
			return opOut, inv
		}
		_, _, _, _, hkey, _ := gx.VerifTopKRedisState(t)
		zs, err := rcli.ZRangeWithScores(context.Background(), hkey, 0, -1).Result()
		if err != nil {
			return opOut, TErr(errGeneric)
		}
		out := make([]Tok, len(zs))
		for i, z := range zs {
			out[i] = TL(TBs([]byte(z.Member.(string))), TNu(uint64(z.Score)))
		}
		return opOut, TL(out...)
	case opAttach:
		src := m.inst[a[2].I()]
		if src == nil {
			return TL(a[0], a[1]), inv
		}
		meta := src.MetadataKey()
		t := gx.NewTopKRedisFromKey(meta)
		_, er, acc, sk, _, _ := gx.VerifTopKRedisState(t)
		opOut = TL(a[0], a[1], TBs([]byte(meta)), TNu(m.orc.addFloat(er)), TNu(m.orc.addFloat(acc)))
		if sk == nil {
			return opOut, TErr(errGeneric)
		}
		m.inst[a[1].I()] = t
		return opOut, TOk(TUnit())
	case opEquals:
		x, y := m.inst[a[1].I()], m.inst[a[2].I()]
		if x == nil || y == nil {
			return opOut, inv
		}
		ok, _ := x.Equals(y)
		return opOut, TOk(TBool(ok))
	case opExport:
		t := m.inst[a[1].I()]
		opOut = TL(a[0], a[1])
		if t == nil {
			return opOut, inv
		}
		b, err := t.Export()
		if err != nil {
			return opOut, TErr(errGeneric)
		}
		m.rec.exports[labelOf(a, step)] = b
		return opOut, TOk(topkDocTok(b))
	case opImport:
		t := m.inst[a[1].I()]
		src, ok := m.rec.exports[a[2].I()]
		if t == nil || !ok {
			return TL(a[0], a[1]), inv
		}
		before := redisKeys()
		err := t.Import(src, a[3].U() != 0)
		_, er, acc, sk, hkey, _ := gx.VerifTopKRedisState(t)
		m.orc.addFloat(er)
		m.orc.addFloat(acc)
		skey, smeta := "", ""
		if sk != nil {
			_, _, _, skey, smeta = gx.VerifCMSRedisState(sk)
		}
		opOut = TL(a[0], a[1], topkDocTok(src), TBs([]byte(hkey)), TBs([]byte(skey)), TBs([]byte(smeta)))
		if err != nil {
			return opOut, TErr(errGeneric)
		}
		if x, bad := staleKey(before, hkey, skey, smeta); a[3].U() != 0 && bad {
			return opOut, x
		}
		return opOut, TOk(TUnit())
	}
	return opOut, inv
}
