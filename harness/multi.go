package main

// multiMachine hosts the five Redis-backed machines on ONE shared miniredis (C19). Ops are
// (sub innerOp). Every sub-machine's history, projected out of the interleaving, is replayed on
// that machine's model ALONE on an empty store and the answers are diffed: each structure must
// answer as if it were alone.
type multiMachine struct {
	subs []Machine
	log  []int // sub index of each executed op
}

var suppressFlush bool

func newMultiMachine() Machine {
	return &multiMachine{subs: []Machine{&bloomRedis{}, &cmsRedis{}, &hllRedis{}, &cuckooRedis{}, &topkRedis{}}}
}

func (m *multiMachine) ID() int { return 200 }
func (m *multiMachine) Reset() {
	redisReset()
	suppressFlush = true
	for _, s := range m.subs {
		s.Reset()
	}
	suppressFlush = false
	m.log = nil
}
func (m *multiMachine) Close()      {}
func (m *multiMachine) Oracle() Tok { return TL() }
func (m *multiMachine) Exec(op Tok) (Tok, Tok) {
	sub := op.L[0].I()
	m.log = append(m.log, sub)
	o, x := m.subs[sub].Exec(op.L[1])
	return TL(op.L[0], o), x
}

// SubRun is the projection of a run onto one sub-machine.
type SubRun struct {
	CaseTok Tok
	Obs     []Tok
	Steps   []int // global step of each projected op
}

func (m *multiMachine) Split(r *RunResult) []SubRun {
	out := make([]SubRun, len(m.subs))
	ops := make([][]Tok, len(m.subs))
	for step, op := range r.Ops {
		sub := op.L[0].I()
		ops[sub] = append(ops[sub], op.L[1])
		out[sub].Obs = append(out[sub].Obs, r.Obs[step])
		out[sub].Steps = append(out[sub].Steps, step)
	}
	for i, s := range m.subs {
		out[i].CaseTok = TL(TNi(s.ID()), s.Oracle(), TL(ops[i]...))
	}
	return out
}

type splitter interface {
	Split(r *RunResult) []SubRun
}
