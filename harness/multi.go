package main

import "fmt"

// multiMachine hosts the five Redis-backed machines on ONE shared miniredis (C19). Ops are
// (sub innerOp). Every sub-machine's history, projected out of the interleaving, is replayed on
// that machine's model ALONE on an empty store and the answers are diffed: each structure must
// answer as if it were alone.
type multiMachine struct {
	subs []Machine
	log  []int // sub index of each executed op
}

var suppressFlush bool

func newMultiMachine() Machine {
	return &multiMachine{subs: []Machine{&bloomRedis{}, &cmsRedis{}, &hllRedis{}, &cuckooRedis{}, &topkRedis{}}}
}

func (m *multiMachine) ID() int { return 200 }
func (m *multiMachine) Reset() {
	redisReset()
	suppressFlush = true
	for _, s := range m.subs {
		s.Reset()
	}
	suppressFlush = false
	m.log = nil
}
func (m *multiMachine) Close()      {}
func (m *multiMachine) Oracle() Tok { return TL() }
func (m *multiMachine) Exec(op Tok) (Tok, Tok) {
	sub := op.L[0].I()
	m.log = append(m.log, sub)
	o, x := m.subs[sub].Exec(op.L[1])
	return TL(op.L[0], o), x
}

// SubRun is the projection of a run onto one sub-machine.
type SubRun struct {
	CaseTok Tok
	Obs     []Tok
	Steps   []int // global step of each projected op
}

func (m *multiMachine) Split(r *RunResult) []SubRun {
	out := make([]SubRun, len(m.subs))
	ops := make([][]Tok, len(m.subs))
	for step, op := range r.Ops {
		sub := op.L[0].I()
		ops[sub] = append(ops[sub], op.L[1])
		out[sub].Obs = append(out[sub].Obs, r.Obs[step])
		out[sub].Steps = append(out[sub].Steps, step)
	}
	for i, s := range m.subs {
		out[i].CaseTok = TL(TNi(s.ID()), s.Oracle(), TL(ops[i]...))
	}
	return out
}

type splitter interface {
	Split(r *RunResult) []SubRun
}

// staleKeyViolation: the observation (78 <key>) reported by a Redis machine when a constructor
// or an import under new keys used a key that was already present in the database.
func staleKeyViolation(name string, op, o Tok, step int) (MonViolation, bool) {
	if o.Kind == 2 && len(o.L) == 2 && o.L[0].Kind == 0 && o.L[0].U() == 78 {
		return MonViolation{name + "/new-key-not-fresh",
			fmt.Sprintf("a constructor or an import under new keys used the key %q, which was already present in the database", o.L[1].B), step}, true
	}
	return MonViolation{}, false
}

// monitorC19 is the property text on the implementation's own observations: a structure's
// answers only change through operations on one of its own handles. Handles are grouped by
// re-attachment; an import under new keys starts a new group (the copy), so no operation on the
// copy - or on any other structure in the database - may change what the exporter answers.
func monitorC19(orig, ops, obs []Tok) []MonViolation {
	kinds := []structGen{structGensRedis[2], structGensRedis[0], structGensRedis[1], cuckooRedisGen, structGensRedis[3]}
	names := []string{"bloom", "cms", "hll", "cuckoo", "topk"}
	var out []MonViolation
	type hk struct{ kind, inst int }
	group := map[hk]int{}
	next := 0
	last := map[hk]map[string]string{} // per handle: query -> last answer
	invalidate := func(kind, g int) {
		for h, gg := range group {
			if h.kind == kind && gg == g {
				delete(last, h)
			}
		}
	}
	for step, op := range ops {
		k, in, o := op.L[0].I(), op.L[1], obs[step]
		src := orig[step].L[1] // as given: instance numbers, import flag
		if v, bad := staleKeyViolation("shared-db/"+names[k], in, o, step); bad {
			out = append(out, v)
			continue
		}
		if len(in.L) < 2 || o.String() == "(9)" {
			continue
		}
		code, h := in.L[0].I(), hk{k, in.L[1].I()}
		sg := kinds[k]
		g, alive := group[h]
		switch {
		case code == opAttach:
			delete(last, h)
			if sg, ok := group[hk{k, src.L[2].I()}]; ok && isOk(o) {
				group[h] = sg
			} else {
				delete(group, h)
			}
		case code == opExport || code == opEquals:
		case code < 20 && sg.isQuery(in):
			if !alive {
				continue
			}
			q := in.L[0].String()
			for i, f := range in.L[2:] {
				if k == 2 && code == hlCount && i >= 2 {
					break // the implementation's answer travels in the op
				}
				q += " " + f.String()
			}
			v := queryValue(in, o)
			if last[h] == nil {
				last[h] = map[string]string{}
			}
			if prev, ok := last[h][q]; ok && prev != v {
				out = append(out, MonViolation{"shared-db/" + names[k] + "/answers-changed-without-own-update",
					fmt.Sprintf("%s answered %s, then %s, with no operation on any of its own handles in between", sg.opName(in), trunc(prev), trunc(v)), step})
			}
			last[h][q] = v
		case !alive || (code == opImport && len(src.L) > 3 && src.L[3].U() != 0):
			// constructor, or import under new keys: a structure of its own from here on
			delete(last, h)
			group[h] = next
			next++
		default:
			invalidate(k, g)
		}
	}
	return out
}
