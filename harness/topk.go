package main

import (
	"bytes"
	"fmt"
	"math"

	gx "github.com/kwertop/gostatix"
)

// Top-K ops (memory machine 9):
// (0 i k er1e6 acc1e6) NewTopK -> model form (0 i k rows cols)
// (1 i x c) Insert   (2 i) Values   (3 i) heap array
const (
	tkNew = iota
	tkInsert
	tkValues
	tkHeap
)

func topkOpName(op Tok) string {
	names := []string{"New", "Insert", "Values", "Heap", "Equals", "Export", "Import", "WriteTo", "ReadFrom"}
	k := op.L[0].I()
	if k < len(names) {
		return names[k]
	}
	return fmt.Sprint(k)
}

type topkMem struct {
	inst map[int]*gx.TopK
	orc  *oracleTab
}

func (m *topkMem) ID() int     { return 9 }
func (m *topkMem) Reset()      { m.inst = map[int]*gx.TopK{}; m.orc = newOracleTab() }
func (m *topkMem) Close()      {}
func (m *topkMem) Oracle() Tok { return m.orc.tok() }

func cmsOracle(orc *oracleTab, s *gx.CountMinSketch, x []byte) {
	if s == nil {
		return
	}
	key := fmt.Sprintf("%d/%d/%x", s.GetRows(), s.GetColumns(), x)
	if orc.has(key) {
		return
	}
	pos := gx.VerifCMSPositions(s, x)
	p := make([]uint64, len(pos))
	for i, v := range pos {
		p[i] = uint64(v)
	}
	orc.add(key, []uint64{uint64(s.GetRows()), uint64(s.GetColumns())}, x, p)
}

func valuesTok(vs []gx.TopKElement) Tok {
	out := make([]Tok, len(vs))
	for i, v := range vs {
		e, c := gx.VerifTopKElement(v)
		out[i] = TL(TBs([]byte(e)), TNu(c))
	}
	return TL(out...)
}

func (m *topkMem) Exec(op Tok) (opOut Tok, obs Tok) {
	opOut = op
	defer func() {
		if r := recover(); r != nil {
			obs = TPanic(classifyPanic(r))
		}
	}()
	a := op.L
	switch a[0].I() {
	case tkNew:
		t := gx.NewTopK(uint(a[2].U()), nudge(float64(a[3].U())/1e6, a, 5), nudge(float64(a[4].U())/1e6, a, 6))
		_, _, _, sk, _ := gx.VerifTopKState(t)
		rows, cols := uint64(0), uint64(0)
		if sk != nil {
			rows, cols = uint64(sk.GetRows()), uint64(sk.GetColumns())
		}
		_, er, acc, _, _ := gx.VerifTopKState(t)
		opOut = TL(a[0], a[1], a[2], TNu(rows), TNu(cols), TNu(m.orc.addFloat(er)), TNu(m.orc.addFloat(acc)))
		if sk == nil {
			// the constructor swallowed the sketch error; every later use panics on the nil sketch
			return opOut, TPanic(panNil)
		}
		m.inst[a[1].I()] = t
		return opOut, TOk(TUnit())
	case tkInsert:
		t := m.inst[a[1].I()]
		if t == nil {
			return opOut, TL(TNu(9))
		}
		_, _, _, sk, _ := gx.VerifTopKState(t)
		cmsOracle(m.orc, sk, a[2].B)
		t.Insert(el(a[2].B), a[3].U())
		return opOut, TOk(TUnit())
	case tkValues:
		t := m.inst[a[1].I()]
		if t == nil {
			return opOut, TL(TNu(9))
		}
		return opOut, valuesTok(t.Values())
	case tkHeap:
		t := m.inst[a[1].I()]
		if t == nil {
			return opOut, TL(TNu(9))
		}
		_, _, _, _, h := gx.VerifTopKState(t)
		out := make([]Tok, len(h))
		for i, e := range h {
			out[i] = TL(TBs([]byte(e.Value)), TNu(e.Frequency))
		}
		return opOut, TL(out...)
	}
	return opOut, TL(TNu(9))
}

func (g *Gen) topkCount() uint64 {
	switch g.Intn(6) {
	case 0, 1:
		return 1
	case 2:
		return uint64(1 + g.Intn(4))
	case 3:
		return uint64(1 + g.Intn(1000))
	case 4:
		return uint64(1) << uint(g.Intn(33))
	default:
		return uint64(1 + g.R.Int63n(1<<32))
	}
}

func (g *Gen) topkNew(i int) Tok {
	k := g.Pick(1, 1, 2, 3, 3, 5, 8)
	er := g.Pick(900000, 500000, 300000, 100000, 10000, 1000)
	if g.Small {
		er = g.Pick(900000, 500000, 300000)
	}
	acc := g.Pick(990000, 500000, 300000, 100000, 10000)
	return TL(TNi(tkNew), TNi(i), TNi(k), TNi(er), TNi(acc))
}

func genC04(g *Gen, tier string) *Case {
	ops := []Tok{g.topkNew(0), TL(TNi(tkValues), TNi(0))}
	pool := g.ElementPool(2+g.Intn(14), true)
	n := 5 + g.Intn(50)
	if tier == "thorough" {
		n = 5 + g.Intn(300)
	}
	// long reports full of ties: more than a dozen tracked elements, most of them with equal counts
	// (the order among equal counts is part of the property, and sorting routines change their
	// strategy with the length of the slice)
	ties := g.Rare(0.12, 12, 5)
	if ties {
		k := g.Pick(13, 16, 20, 24, 40)
		ops[0] = TL(TNi(tkNew), TNi(0), TNi(k), TNi(g.Pick(300000, 100000, 10000, 1000)), TNi(g.Pick(990000, 500000, 100000)))
		pool = g.ElementPool(k+1+g.Intn(12), true)
		n = len(pool) + g.Intn(2*len(pool))
	}
	for j := 0; j < n; j++ {
		x := pool[g.Intn(len(pool))]
		if ties && j < len(pool) {
			x = pool[j]
		} else if g.Chance(0.3) {
			x = pool[g.Intn(1+len(pool)/3)] // heavy hitters
		}
		c := g.topkCount()
		if ties && g.Chance(0.8) {
			c = uint64(1 + g.Intn(2))
		}
		ops = append(ops, TL(TNi(tkInsert), TNi(0), TBs(x), TNu(c)))
		if g.Chance(0.5) {
			ops = append(ops, TL(TNi(tkValues), TNi(0)))
		}
		if g.Chance(0.1) {
			ops = append(ops, TL(TNi(tkHeap), TNi(0)))
		}
	}
	ops = append(ops, TL(TNi(tkValues), TNi(0)), TL(TNi(tkHeap), TNi(0)))
	return &Case{Ops: ops}
}

func monitorTopK(backend string) Monitor {
	return func(ops, obs []Tok) []MonViolation {
		var out []MonViolation
		type sh struct {
			k      uint64
			counts map[string]uint64
			total  uint64
		}
		st := map[int]*sh{}
		for step, op := range ops {
			a, o := op.L, obs[step]
			if isPanic(o) && a[0].I() != tkNew {
				out = append(out, MonViolation{backend + "/" + topkOpName(op) + "/panic", "operation panicked: " + o.String(), step})
				continue
			}
			switch a[0].I() {
			case tkNew:
				if isOk(o) {
					st[a[1].I()] = &sh{k: a[2].U(), counts: map[string]uint64{}}
				}
			case tkInsert:
				if s := st[a[1].I()]; s != nil && isOk(o) {
					s.counts[string(a[2].B)] += a[3].U()
					s.total += a[3].U()
				}
			case tkValues:
				s := st[a[1].I()]
				if s == nil || o.Kind != 2 || outcomeKind(o) >= 0 {
					continue
				}
				want := uint64(len(s.counts))
				if s.k < want {
					want = s.k
				}
				if uint64(len(o.L)) != want {
					out = append(out, MonViolation{backend + "/Values/wrong-length",
						fmt.Sprintf("Values has %d entries, expected min(k=%d, distinct=%d)", len(o.L), s.k, len(s.counts)), step})
				}
				seen := map[string]bool{}
				var minC uint64
				for i, e := range o.L {
					el, c := string(e.L[0].B), e.L[1].U()
					if seen[el] {
						out = append(out, MonViolation{backend + "/Values/duplicate", fmt.Sprintf("element %x reported twice", el), step})
					}
					seen[el] = true
					if i > 0 {
						pe, pc := o.L[i-1].L[0].B, o.L[i-1].L[1].U()
						if pc < c || (pc == c && bytes.Compare(pe, e.L[0].B) >= 0) {
							out = append(out, MonViolation{backend + "/Values/not-sorted", "not ordered by (count desc, element asc)", step})
						}
					}
					if c < s.counts[el] {
						out = append(out, MonViolation{backend + "/Values/count-below-true",
							fmt.Sprintf("reported count %d below true total %d", c, s.counts[el]), step})
					}
					if c > s.total {
						out = append(out, MonViolation{backend + "/Values/count-above-total",
							fmt.Sprintf("reported count %d above total %d", c, s.total), step})
					}
					if _, ok := s.counts[el]; !ok {
						out = append(out, MonViolation{backend + "/Values/unknown-element", "reported element was never inserted", step})
					}
					minC = c
				}
				if uint64(len(o.L)) == s.k && len(o.L) > 0 {
					for el, tc := range s.counts {
						if !seen[el] && tc > minC {
							out = append(out, MonViolation{backend + "/Values/misses-heavier-element",
								fmt.Sprintf("unreported element %x has true total %d above the smallest reported count %d", el, tc, minC), step})
						}
					}
				}
			}
		}
		return out
	}
}

// nudge moves a rate by a[idx] ulps upwards (optional constructor arguments: near-identical rates
// that give the same sketch shape).
func nudge(x float64, a []Tok, idx int) float64 {
	if len(a) <= idx {
		return x
	}
	for k := uint64(0); k < a[idx].U(); k++ {
		x = math.Nextafter(x, 2)
	}
	return x
}
