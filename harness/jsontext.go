package main

import (
	"encoding/json"
	"fmt"
	"math/rand"

	gx "github.com/kwertop/gostatix"
)

// Machine 13: exported JSON documents as TEXT (C18, JSON clause).
//
// The theorem (Proofs/JsonTextProofs.v) says: no strict prefix of the printed text of a well-formed
// JSON object is a complete JSON text. Two things tie it to the code on every run:
//   op 1  the implementation's Export bytes are split into raw tokens and arranged as an ordered tree
//         (strings and keys with their escaped source text, numbers and literals with their literal
//         text); the model prints the tree and must give back exactly the bytes, and must find the
//         tree a well-formed object — so the text IS the print of such a value;
//   op 2  the set of prefix lengths that Go's encoding/json accepts (json.Valid, which Unmarshal
//         runs first) must be the set the model's structural scanner calls complete: the modelled
//         acceptance condition is validated on every prefix of every document.
// A monitor reports any strict prefix that encoding/json accepts.

const (
	jsPrint = 1
	jsScan  = 2
)

type jsonText struct{}

func (m *jsonText) ID() int     { return 13 }
func (m *jsonText) Reset()      {}
func (m *jsonText) Close()      {}
func (m *jsonText) Oracle() Tok { return TL() }

func jsonOpName(op Tok) string {
	if len(op.L) > 0 && op.L[0].I() == jsScan {
		return "Scan"
	}
	return "Print"
}

// buildExport creates a structure of the given kind from the seed, applies a short history and
// returns what its Export method wrote. Kinds 0-4 in memory, 5-9 Redis-backed.
func buildExport(kind int, seed int64) (b []byte, err error) {
	defer func() {
		if r := recover(); r != nil {
			b, err = nil, fmt.Errorf("panic: %v", r)
		}
	}()
	r := rand.New(rand.NewSource(seed))
	elem := func() []byte {
		switch r.Intn(5) {
		case 0:
			return []byte{}
		case 1: // quotes, backslashes, control bytes, angle brackets: everything the encoder escapes
			return []byte("a\"b\\c\n<d>&\t}]{[")
		case 2: // not valid UTF-8
			e := make([]byte, 1+r.Intn(6))
			r.Read(e)
			return e
		default:
			return []byte(fmt.Sprintf("key-%d", r.Intn(50)))
		}
	}
	n := r.Intn(12)
	if kind >= 5 {
		redisReset()
	}
	switch kind {
	case 0, 5:
		var f *gx.BloomFilter
		if kind == 0 {
			f, err = gx.NewMemBloomFilterWithParameters(uint(1+r.Intn(40)), []float64{0.5, 0.1, 0.01}[r.Intn(3)])
		} else {
			f, err = gx.NewRedisBloomFilterWithParameters(uint(1+r.Intn(40)), []float64{0.5, 0.1, 0.01}[r.Intn(3)])
		}
		if err != nil {
			return nil, err
		}
		for i := 0; i < n; i++ {
			f.Insert(elem())
		}
		return f.Export()
	case 1:
		f := gx.NewCuckooFilterWithRetries(uint64(1+r.Intn(6)), uint64(1+r.Intn(3)), uint64(1+r.Intn(4)), 3)
		for i := 0; i < n; i++ {
			func() { defer func() { recover() }(); f.Insert(elem(), false) }()
		}
		return f.Export()
	case 6:
		f, e := gx.NewCuckooFilterRedisWithRetries(uint64(1+r.Intn(6)), uint64(1+r.Intn(3)), uint64(1+r.Intn(4)), 3)
		if e != nil {
			return nil, e
		}
		for i := 0; i < n; i++ {
			func() { defer func() { recover() }(); f.Insert(elem(), false) }()
		}
		return f.Export()
	case 2:
		f, e := gx.NewCountMinSketch(uint(1+r.Intn(3)), uint(1+r.Intn(6)))
		if e != nil {
			return nil, e
		}
		for i := 0; i < n; i++ {
			f.Update(elem(), uint64(1+r.Intn(1000)))
		}
		return f.Export()
	case 7:
		f, e := gx.NewCountMinSketchRedis(uint(1+r.Intn(3)), uint(1+r.Intn(6)))
		if e != nil {
			return nil, e
		}
		for i := 0; i < n; i++ {
			f.Update(elem(), uint64(1+r.Intn(1000)))
		}
		return f.Export()
	case 3:
		f, e := gx.NewHyperLogLog(128)
		if e != nil {
			return nil, e
		}
		for i := 0; i < n; i++ {
			f.Update(elem())
		}
		return f.Export()
	case 8:
		f, e := gx.NewHyperLogLogRedis(128)
		if e != nil {
			return nil, e
		}
		for i := 0; i < n; i++ {
			f.Update(elem())
		}
		return f.Export()
	case 4:
		f := gx.NewTopK(uint(1+r.Intn(4)), 0.3, 0.5)
		for i := 0; i < n; i++ {
			f.Insert(elem(), uint64(1+r.Intn(9)))
		}
		return f.Export()
	default:
		f := gx.NewTopKRedis(uint(1+r.Intn(4)), 0.3, 0.5)
		for i := 0; i < n; i++ {
			f.Insert(elem(), uint64(1+r.Intn(9)))
		}
		return f.Export()
	}
}

// jsonTree splits a JSON text into raw tokens and arranges them as the tree encoding of the model:
// (0 x<literal>) | (1 x<escaped string>) | (2 item*) | (3 (x<escaped key> value)*).
// It trusts nothing but the bracket / quote structure; whatever it gets wrong shows up as a printed
// text that differs from the bytes.
func jsonTree(b []byte) (Tok, bool) {
	pos := 0
	var value func() (Tok, bool)
	rawString := func() ([]byte, bool) { // pos at the opening quote
		i := pos + 1
		for i < len(b) {
			if b[i] == '\\' {
				i += 2
				continue
			}
			if b[i] == '"' {
				s := b[pos+1 : i]
				pos = i + 1
				return s, true
			}
			i++
		}
		return nil, false
	}
	value = func() (Tok, bool) {
		if pos >= len(b) {
			return Tok{}, false
		}
		switch b[pos] {
		case '"':
			s, ok := rawString()
			return TL(TNi(1), TBs(s)), ok
		case '[':
			pos++
			items := []Tok{TNi(2)}
			if pos < len(b) && b[pos] == ']' {
				pos++
				return TL(items...), true
			}
			for {
				v, ok := value()
				if !ok {
					return Tok{}, false
				}
				items = append(items, v)
				if pos < len(b) && b[pos] == ',' {
					pos++
					continue
				}
				if pos < len(b) && b[pos] == ']' {
					pos++
					return TL(items...), true
				}
				return Tok{}, false
			}
		case '{':
			pos++
			fields := []Tok{TNi(3)}
			if pos < len(b) && b[pos] == '}' {
				pos++
				return TL(fields...), true
			}
			for {
				if pos >= len(b) || b[pos] != '"' {
					return Tok{}, false
				}
				k, ok := rawString()
				if !ok || pos >= len(b) || b[pos] != ':' {
					return Tok{}, false
				}
				pos++
				v, ok := value()
				if !ok {
					return Tok{}, false
				}
				fields = append(fields, TL(TBs(k), v))
				if pos < len(b) && b[pos] == ',' {
					pos++
					continue
				}
				if pos < len(b) && b[pos] == '}' {
					pos++
					return TL(fields...), true
				}
				return Tok{}, false
			}
		default:
			i := pos
			for i < len(b) && b[i] != ',' && b[i] != ']' && b[i] != '}' {
				i++
			}
			if i == pos {
				return Tok{}, false
			}
			s := b[pos:i]
			pos = i
			return TL(TNi(0), TBs(s)), true
		}
	}
	t, ok := value()
	if !ok {
		return Tok{}, false
	}
	if pos != len(b) {
		// anything after the value (a newline, say) is not part of the tree: the printed text will
		// be shorter than the bytes and the comparison fails, as it should
		return t, true
	}
	return t, true
}

func (m *jsonText) Exec(op Tok) (opOut Tok, obs Tok) {
	a := op.L
	b, err := buildExport(a[1].I(), int64(a[2].U()))
	if err != nil {
		// no document: nothing to compare (constructor rejected the parameters)
		if a[0].I() == jsScan {
			return TL(TNi(jsScan), TBs(nil)), TL()
		}
		return TL(TNi(jsPrint), TL(TNi(3))), TL(TBs([]byte("{}")), TBool(true))
	}
	switch a[0].I() {
	case jsPrint:
		tree, ok := jsonTree(b)
		if !ok {
			tree = TL(TNi(0), TBs([]byte("unparsable")))
		}
		return TL(TNi(jsPrint), tree), TL(TBs(b), TBool(true))
	default:
		var ks []Tok
		for k := 1; k <= len(b); k++ {
			if json.Valid(b[:k]) {
				ks = append(ks, TNu(uint64(k)))
			}
		}
		return TL(TNi(jsScan), TBs(b)), TL(ks...)
	}
}

func genJSONText(g *Gen, tier string) *Case {
	kind := g.Intn(10)
	seed := uint64(g.R.Int63n(1 << 40))
	return &Case{Ops: []Tok{
		TL(TNi(jsPrint), TNi(kind), TNu(seed)),
		TL(TNi(jsScan), TNi(kind), TNu(seed)),
	}}
}

// monitorJSONText: encoding/json accepts no strict prefix of an exported document.
func monitorJSONText(ops, obs []Tok) []MonViolation {
	var out []MonViolation
	for step, op := range ops {
		if op.L[0].I() != jsScan || len(op.L) < 2 {
			continue
		}
		n := uint64(len(op.L[1].B))
		for _, k := range obs[step].L {
			if k.U() < n {
				out = append(out, MonViolation{"json-text/strict-prefix-is-valid-json",
					fmt.Sprintf("the first %d of the %d bytes of an exported document are a complete JSON text", k.U(), n), step})
				break
			}
		}
		if n > 0 && len(obs[step].L) == 0 {
			out = append(out, MonViolation{"json-text/export-is-not-valid-json", "the exported document is not valid JSON", step})
		}
	}
	return out
}
