package main

import (
	"bytes"
	"fmt"
	"io"
	"math/rand"

	gx "github.com/kwertop/gostatix"
)

// Machine 14 (no model): binary images far larger than the all-prefix sweeps can afford
// (hundreds of kilobytes: 2^17 registers, rows of tens of thousands of cells, a million bits,
// thousands of buckets). The theorems of C18 are about every size; the exhaustive sweeps of the
// correspondence stop at a few kilobytes. Here the image of a LARGE structure is cut at sampled
// places (the first bytes, around every power of two, the last bytes, random places) and each cut
// is fed to ReadFrom: it must return an error.

type bigImage struct{}

func (m *bigImage) ID() int     { return 14 }
func (m *bigImage) Reset()      {}
func (m *bigImage) Close()      {}
func (m *bigImage) Oracle() Tok { return TL() }

func bigOpName(op Tok) string { return "LargeImageCuts" }

type binaryLoader interface {
	ReadFrom(io.Reader) (int64, error)
}

func bigBuild(kind int, r *rand.Rand) (img []byte, fresh func() binaryLoader, desc string) {
	var buf bytes.Buffer
	switch kind {
	case 0:
		m := uint64(1) << uint(16+r.Intn(2))
		h, _ := gx.NewHyperLogLog(m)
		for i := 0; i < 200; i++ {
			h.Update([]byte(fmt.Sprint("e", r.Int63())))
		}
		h.WriteTo(&buf)
		return buf.Bytes(), func() binaryLoader { x, _ := gx.NewHyperLogLog(128); return x }, fmt.Sprintf("HyperLogLog with %d registers", m)
	case 1:
		rows, cols := uint(1+r.Intn(4)), uint(9000+r.Intn(20000))
		s, _ := gx.NewCountMinSketch(rows, cols)
		for i := 0; i < 200; i++ {
			s.Update([]byte(fmt.Sprint("e", r.Int63())), uint64(1+r.Intn(9)))
		}
		s.WriteTo(&buf)
		return buf.Bytes(), func() binaryLoader { x, _ := gx.NewCountMinSketch(1, 1); return x }, fmt.Sprintf("Count-Min sketch %dx%d", rows, cols)
	case 2:
		f, _ := gx.NewMemBloomFilterWithParameters(uint(60000+r.Intn(60000)), 0.001)
		for i := 0; i < 200; i++ {
			f.Insert([]byte(fmt.Sprint("e", r.Int63())))
		}
		f.WriteTo(&buf)
		return buf.Bytes(), func() binaryLoader { x, _ := gx.NewMemBloomFilterWithParameters(10, 0.1); return x }, "Bloom filter with about a million bits"
	case 3:
		size := uint64(3000 + r.Intn(3000))
		f := gx.NewCuckooFilterWithRetries(size, 4, 6, 50)
		for i := 0; i < 2000; i++ {
			func() { defer func() { recover() }(); f.Insert([]byte(fmt.Sprint("e", r.Int63())), false) }()
		}
		f.WriteTo(&buf)
		return buf.Bytes(), func() binaryLoader { return gx.NewCuckooFilter(1, 1, 1) }, fmt.Sprintf("cuckoo filter with %d buckets", size)
	default:
		t := gx.NewTopK(40, 0.0002, 0.9)
		for i := 0; i < 300; i++ {
			t.Insert([]byte(fmt.Sprint("e", r.Intn(120))), uint64(1+r.Intn(9)))
		}
		func() { defer func() { recover() }(); t.WriteTo(&buf) }()
		return buf.Bytes(), func() binaryLoader { return gx.NewTopK(1, 0.5, 0.5) }, "Top-K with a wide sketch and a full heap of 40"
	}
}

func (m *bigImage) Exec(op Tok) (Tok, Tok) {
	a := op.L
	r := rand.New(rand.NewSource(int64(a[2].U())))
	img, fresh, _ := bigBuild(a[1].I(), r)
	n := len(img)
	cuts := map[int]bool{}
	for c := 0; c < 64 && c < n; c++ {
		cuts[c] = true
		cuts[n-1-c] = true
	}
	for p := 64; p < n; p *= 2 {
		for d := -24; d <= 48; d++ {
			if p+d > 0 && p+d < n {
				cuts[p+d] = true
			}
		}
	}
	for i := 0; i < 120; i++ {
		cuts[r.Intn(n)] = true
	}
	var out []Tok
	for c := range cuts {
		res := uint64(1) // error, as it should be
		func() {
			defer func() {
				if recover() != nil {
					res = 2
				}
			}()
			if _, err := fresh().ReadFrom(bytes.NewReader(img[:c])); err == nil {
				res = 0
			}
		}()
		if res != 1 {
			out = append(out, TL(TNu(uint64(c)), TNu(res)))
		}
	}
	return TL(a[0], a[1], a[2], TNu(uint64(n)), TNu(uint64(len(cuts)))), TL(out...)
}

func genBigImage(g *Gen, tier string) *Case {
	return &Case{Ops: []Tok{TL(TNi(1), TNi(g.CaseNo%5), TNu(uint64(g.R.Int63n(1<<40))))}}
}

var bigKinds = []string{"hll-mem", "cms-mem", "bloom-mem", "cuckoo-mem", "topk-mem"}

func monitorBigImage(ops, obs []Tok) []MonViolation {
	var out []MonViolation
	for step, op := range ops {
		if len(op.L) < 5 {
			continue
		}
		name := bigKinds[op.L[1].I()%5]
		for _, c := range obs[step].L {
			what := "/binary/truncated-large-image-accepted"
			txt := "was loaded without error"
			if c.L[1].U() == 2 {
				what, txt = "/binary/truncated-large-image-panics", "made the loader panic"
			}
			out = append(out, MonViolation{name + what,
				fmt.Sprintf("the first %d of the %d bytes of a large image %s", c.L[0].U(), op.L[3].U(), txt), step})
			break
		}
	}
	return out
}
