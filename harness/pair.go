package main

import (
	"fmt"
	"sort"
)

// pairMachine runs every op on an in-memory machine and on its Redis-backed counterpart (C08);
// the observation is the pair. No model is involved here: each side has its own correspondence.
type pairMachine struct {
	a, b Machine
}

func (p *pairMachine) ID() int     { return 100 }
func (p *pairMachine) Reset()      { p.a.Reset(); p.b.Reset() }
func (p *pairMachine) Close()      { p.a.Close(); p.b.Close() }
func (p *pairMachine) Oracle() Tok { return TL() }
func (p *pairMachine) Exec(op Tok) (Tok, Tok) {
	oa, xa := p.a.Exec(op)
	ob, xb := p.b.Exec(op)
	if _, isHLL := p.a.(*hllMem); isHLL && op.L[0].I() == hlCount && len(oa.L) == 5 && len(ob.L) == 5 {
		// the Count answers travel in the model-form ops of the two sides
		return oa, TL(xa, xb, oa.L[4], ob.L[4])
	}
	return oa, TL(xa, xb)
}

// failure class of an outcome-like observation: 0 ok / plain value, 1 error, 2 panic
func failClass(o Tok) int {
	switch outcomeKind(o) {
	case 1:
		return 1
	case 2:
		return 2
	}
	return 0
}

func valuesUpToTies(o Tok) (string, bool) {
	if o.Kind != 2 || outcomeKind(o) >= 0 {
		return "", false
	}
	if len(o.L) == 0 {
		return "len=0", true
	}
	minC := o.L[len(o.L)-1].L[1].U()
	var above, counts []string
	for _, e := range o.L {
		counts = append(counts, e.L[1].String())
		if e.L[1].U() > minC {
			above = append(above, e.String())
		}
	}
	sort.Strings(counts)
	return fmt.Sprintf("len=%d counts=%v above=%v", len(o.L), counts, above), true
}

// monitorPair compares the two variants' answers.
func monitorPair(kind string, opName func(Tok) string) Monitor {
	return func(ops, obs []Tok) []MonViolation {
		var out []MonViolation
		evicted := false
		var ckFpl uint64
		cmsTotal := map[int]uint64{} // Count-Min: stream total per instance (updates and merges)
		for step, op := range ops {
			if kind == "cms" {
				switch op.L[0].I() {
				case cmsNew:
					cmsTotal[op.L[1].I()] = 0
				case cmsUpdate:
					cmsTotal[op.L[1].I()] += op.L[3].U()
				case cmsMerge:
					if o := obs[step]; o.Kind == 2 && len(o.L) == 2 && isOk(o.L[0]) {
						cmsTotal[op.L[1].I()] += cmsTotal[op.L[2].I()]
					}
				}
			}
			if kind == "cuckoo" && op.L[0].I() == ckNew && len(op.L) > 4 {
				ckFpl = op.L[4].U()
			}
			o := obs[step]
			if kind == "hll" && o.Kind == 2 && len(o.L) == 4 {
				if o.L[2].String() != o.L[3].String() {
					out = append(out, MonViolation{kind + "/Count/differs",
						fmt.Sprintf("Count(%s,%s): memory variant estimates %s, Redis-backed variant estimates %s", op.L[2].String(), op.L[3].String(), o.L[2].String(), o.L[3].String()), step})
				}
				continue
			}
			if o.Kind != 2 || len(o.L) != 2 {
				continue
			}
			xa, xb := o.L[0], o.L[1]
			code := op.L[0].I()
			if xa.String() == "(9)" || xb.String() == "(9)" {
				continue // the structure does not exist on one side (its construction failed there)
			}
			name := opName(op)
			report := func(what string) {
				out = append(out, MonViolation{kind + "/" + name + "/" + what,
					fmt.Sprintf("%s: memory variant answers %s, Redis-backed variant answers %s", name, trunc(xa.String()), trunc(xb.String())), step})
			}
			switch kind {
			case "cuckoo":
				if code == ckInsert && xa.Kind == 2 && len(xa.L) == 2 {
					if xa.L[1].U() != 0 || (xb.Kind == 2 && len(xb.L) == 2 && xb.L[1].U() != 0) {
						evicted = true
					}
					if !evicted && xa.String() != xb.String() {
						report("differs")
					}
					continue
				}
				if evicted || code == ckState || code == ckNew {
					continue // slot numbering differs (first empty slot vs LPUSH); after a relocation the variants may diverge
				}
				if xa.String() != xb.String() {
					if len(op.L) > 2 && op.L[2].Kind == 1 && fpEmpty(op.L[2].B, ckFpl) {
						report("differs/empty-fingerprint")
					} else {
						report("differs")
					}
				}
			case "topk":
				if code == tkValues {
					va, oka := valuesUpToTies(xa)
					vb, okb := valuesUpToTies(xb)
					if oka && okb && va != vb {
						report("differs-beyond-ties")
					} else if oka != okb {
						report("differs")
					}
					continue
				}
				if code == tkHeap || code == tkNew {
					continue
				}
				if failClass(xa) != failClass(xb) {
					report("failure-differs")
				}
			case "hll":
				switch code {
				case hlCount:
					// the implementation's answer travels in the op of each side; compare the observations' ops
					continue
				case hlRegs:
					// memory: numbers; Redis: decimal strings
					if xa.Kind == 2 && xb.Kind == 2 && outcomeKind(xa) < 0 && outcomeKind(xb) < 0 {
						same := len(xa.L) == len(xb.L)
						for i := 0; same && i < len(xa.L); i++ {
							if xa.L[i].String() != string(xb.L[i].B) {
								same = false
							}
						}
						if !same {
							report("differs")
						}
					}
				case hlNew:
					if failClass(xa) != failClass(xb) {
						q := ""
						if op.L[2].U() == 1 {
							q = "/m=1"
						}
						report("failure-differs" + q)
					}
				default:
					if (failClass(xa) != 0) != (failClass(xb) != 0) {
						report("failure-differs")
					}
				}
			default: // bloom, cms
				if code == cmsNew && kind == "cms" || (kind == "bloom" && (code == blNewParams || code == blFromBits)) {
					if failClass(xa) != failClass(xb) {
						report("failure-differs")
					}
					continue
				}
				if xa.String() != xb.String() {
					if kind == "cms" && code == cmsCount && len(op.L) > 1 && cmsTotal[op.L[1].I()] >= 1<<53 {
						report("differs/total>=2^53") // Lua doubles: the recorded regime of the Redis variant
					} else {
						report("differs")
					}
				}
			}
		}
		return out
	}
}

func monitorPairHLLCount(ops, obs []Tok) []MonViolation { return nil }
