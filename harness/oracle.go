package main

import (
	"encoding/json"
	"fmt"
	"math"
)

// oracleTab accumulates (tag, element) -> values entries in first-seen order.
type oracleTab struct {
	m    map[string]Tok
	keys []string
}

func newOracleTab() *oracleTab { return &oracleTab{m: map[string]Tok{}} }

func (o *oracleTab) has(key string) bool { _, ok := o.m[key]; return ok }
func (o *oracleTab) add(key string, tag []uint64, x []byte, vals []uint64) {
	if _, ok := o.m[key]; ok {
		return
	}
	o.m[key] = TL(TListU(tag), TBs(x), TListU(vals))
	o.keys = append(o.keys, key)
}
func (o *oracleTab) tok() Tok {
	out := make([]Tok, 0, len(o.keys))
	for _, k := range o.keys {
		out = append(out, o.m[k])
	}
	return TL(out...)
}

// addFloat records both directions of the opaque float mapping: IEEE bits <-> JSON text.
func (o *oracleTab) addFloat(f float64) uint64 {
	bits := math.Float64bits(f)
	txt, _ := json.Marshal(f)
	vals := make([]uint64, len(txt))
	for i, c := range txt {
		vals[i] = uint64(c)
	}
	o.add(fmt.Sprintf("f2t/%d", bits), []uint64{778, bits}, nil, vals)
	o.add(fmt.Sprintf("t2f/%s", txt), []uint64{777}, txt, []uint64{bits})
	return bits
}
