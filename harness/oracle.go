package main

// oracleTab accumulates (tag, element) -> values entries in first-seen order.
type oracleTab struct {
	m    map[string]Tok
	keys []string
}

func newOracleTab() *oracleTab { return &oracleTab{m: map[string]Tok{}} }

func (o *oracleTab) has(key string) bool { _, ok := o.m[key]; return ok }
func (o *oracleTab) add(key string, tag []uint64, x []byte, vals []uint64) {
	if _, ok := o.m[key]; ok {
		return
	}
	o.m[key] = TL(TListU(tag), TBs(x), TListU(vals))
	o.keys = append(o.keys, key)
}
func (o *oracleTab) tok() Tok {
	out := make([]Tok, 0, len(o.keys))
	for _, k := range o.keys {
		out = append(out, o.m[k])
	}
	return TL(out...)
}
