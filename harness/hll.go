package main

import (
	"fmt"
	"math"

	gx "github.com/kwertop/gostatix"
)

// HLL ops (memory machine 5):
// (0 i m) New; (1 i x) Update; (2 i wc wr) Count -> model gets (2 i wc wr c);
// (3 i j) Merge; (4 i j) Equals; (5 i) Reset; (6 i) registers
const (
	hlNew = iota
	hlUpdate
	hlCount
	hlMerge
	hlEquals
	hlReset
	hlRegs
)

func hllOpName(op Tok) string {
	names := []string{"New", "Update", "Count", "Merge", "Equals", "Reset", "Registers", "Export", "Import", "WriteTo", "ReadFrom"}
	k := op.L[0].I()
	if k < len(names) {
		return names[k]
	}
	return fmt.Sprint(k)
}

type hllMem struct {
	inst map[int]*gx.HyperLogLog
	orc  *oracleTab
}

func (m *hllMem) ID() int     { return 5 }
func (m *hllMem) Reset()      { m.inst = map[int]*gx.HyperLogLog{}; m.orc = newOracleTab() }
func (m *hllMem) Close()      {}
func (m *hllMem) Oracle() Tok { return m.orc.tok() }

func (m *hllMem) Exec(op Tok) (opOut Tok, obs Tok) {
	opOut = op
	defer func() {
		if r := recover(); r != nil {
			obs = TPanic(classifyPanic(r))
		}
	}()
	a := op.L
	switch a[0].I() {
	case hlNew:
		opOut = TL(a[0], a[1], a[2], TNu(0))
		h, err := gx.NewHyperLogLog(a[2].U())
		if err != nil {
			return opOut, TErr(errGeneric)
		}
		m.inst[a[1].I()] = h
		_, _, alpha, _ := gx.VerifHLLState(h)
		opOut = TL(a[0], a[1], a[2], TNu(m.orc.addFloat(alpha)))
		return opOut, TOk(TUnit())
	case hlUpdate:
		h := m.inst[a[1].I()]
		if h == nil {
			return opOut, TL(TNu(9))
		}
		_, p, _, _ := gx.VerifHLLState(h)
		key := fmt.Sprintf("%d/%x", p, a[2].B)
		if !m.orc.has(key) {
			idx, cnt := gx.VerifHLLIndexCount(h, a[2].B)
			m.orc.add(key, []uint64{p}, a[2].B, []uint64{idx, cnt})
		}
		h.Update(el(a[2].B))
		return opOut, TOk(TUnit())
	case hlCount:
		h := m.inst[a[1].I()]
		if h == nil {
			return opOut, TL(TNu(9))
		}
		c := h.Count(a[2].U() != 0, a[3].U() != 0)
		opOut = TL(a[0], a[1], a[2], a[3], TNu(c))
		return opOut, TNu(1)
	case hlMerge:
		x, y := m.inst[a[1].I()], m.inst[a[2].I()]
		if x == nil || y == nil {
			return opOut, TL(TNu(9))
		}
		if err := x.Merge(y); err != nil {
			return opOut, TErr(errMismatch)
		}
		return opOut, TOk(TUnit())
	case hlEquals:
		x, y := m.inst[a[1].I()], m.inst[a[2].I()]
		if x == nil || y == nil {
			return opOut, TL(TNu(9))
		}
		return opOut, TOk(TBool(x.Equals(y)))
	case hlReset:
		h := m.inst[a[1].I()]
		if h == nil {
			return opOut, TL(TNu(9))
		}
		h.Reset()
		return opOut, TUnit()
	case hlRegs:
		h := m.inst[a[1].I()]
		if h == nil {
			return opOut, TL(TNu(9))
		}
		_, _, _, regs := gx.VerifHLLState(h)
		r := make([]uint64, len(regs))
		for i, v := range regs {
			r[i] = uint64(v)
		}
		return opOut, TListU(r)
	}
	return opOut, TL(TNu(9))
}

func (g *Gen) hllM(small bool) uint64 {
	if small {
		return uint64(g.Pick(1, 2, 4, 8, 16, 32, 64))
	}
	if g.Small {
		return uint64(g.Pick(128, 256))
	}
	// every power of two up to 4096: a parameter derived from the size (log2) can be wrong for some sizes
	// only. From 8192 registers on, the Redis merge / import / init scripts pass more values through
	// unpack than the Lua runtime of miniredis allows (an environment limit like the one on very wide
	// Count-Min rows, see DESIGN II.4); larger sketches are exercised in memory only (g.Big).
	return uint64(g.Pick(128, 128, 256, 512, 1024, 2048, 4096))
}

func hllCountOp(g *Gen, i int) Tok {
	return TL(TNi(hlCount), TNi(i), TNi(g.Intn(2)), TNi(g.Intn(2)))
}

// C05: single sketch, n distinct updates, counts under all flag combinations, registers.
func genC05(g *Gen, tier string) *Case {
	m := g.hllM(g.Chance(0.3))
	ops := []Tok{TL(TNi(hlNew), TNi(0), TNu(m))}
	if g.Chance(0.05) {
		ops = []Tok{TL(TNi(hlNew), TNi(0), TNu(uint64(g.Pick(0, 3, 6, 100))))}
	}
	huge := g.Big && g.Rare(0.04, 120, 17)
	if huge {
		m = uint64(g.Pick(65536, 65536, 131072))
		ops = []Tok{TL(TNi(hlNew), TNi(0), TNu(m))}
	}
	ops = append(ops, hllCountOp(g, 0))
	n := g.Pick(0, 1, 5, 20, 60)
	if tier == "thorough" {
		n = g.Pick(0, 1, 5, 20, 60, 300, 1000)
	}
	if huge {
		n = g.Pick(1, 5, 20)
	}
	// in a third of the cases the estimate is read with fixed flags after every update, so that
	// "the estimate grows with the number of distinct elements" is checked step by step; small
	// key spaces ("user-<i>") make several elements share a register
	track := g.Chance(0.35) && n <= 60 && !huge // every tracked step costs one exact-rational check in the model
	wc, wr := g.Intn(2), g.Intn(2)
	for j := 0; j < n; j++ {
		x := []byte(fmt.Sprintf("e%d-%d", g.Intn(1<<30), j))
		if track {
			x = []byte(fmt.Sprintf("user-%d", g.Intn(4*n+4)))
		}
		if g.Chance(0.1) {
			x = g.ElementPool(1, true)[0]
		}
		ops = append(ops, TL(TNi(hlUpdate), TNi(0), TBs(x)))
		if track {
			ops = append(ops, TL(TNi(hlCount), TNi(0), TNi(wc), TNi(wr)))
		} else if g.Chance(0.1) {
			ops = append(ops, hllCountOp(g, 0))
		}
	}
	ops = append(ops, TL(TNi(hlRegs), TNi(0)))
	for wc := 0; wc < 2; wc++ {
		for wr := 0; wr < 2; wr++ {
			ops = append(ops, TL(TNi(hlCount), TNi(0), TNi(wc), TNi(wr)))
		}
	}
	return &Case{Ops: ops}
}

// C06: permuted / duplicated sequences into twin sketches, stream splits + merge, mismatch.
func genC06(g *Gen, tier string) *Case {
	m := g.hllM(g.Chance(0.15))
	var ops []Tok
	for i := 0; i < 4; i++ {
		mi := m
		if i == 3 && g.Chance(0.5) {
			mi = m * 2
		}
		ops = append(ops, TL(TNi(hlNew), TNi(i), TNu(mi)))
	}
	n := 2 + g.Intn(25)
	if tier == "thorough" {
		n = 2 + g.Intn(120)
	}
	var seq [][]byte
	for j := 0; j < n; j++ {
		seq = append(seq, []byte(fmt.Sprintf("k%d", g.Intn(1<<28))))
	}
	// 0: seq in order; 1: permuted with duplicates; 2/3: split halves (3 may have other m)
	for _, x := range seq {
		ops = append(ops, TL(TNi(hlUpdate), TNi(0), TBs(x)))
	}
	perm := g.R.Perm(len(seq))
	for _, k := range perm {
		ops = append(ops, TL(TNi(hlUpdate), TNi(1), TBs(seq[k])))
		if g.Chance(0.3) {
			ops = append(ops, TL(TNi(hlUpdate), TNi(1), TBs(seq[perm[g.Intn(len(perm))]])))
		}
	}
	ops = append(ops, TL(TNi(hlRegs), TNi(0)), TL(TNi(hlRegs), TNi(1)),
		TL(TNi(hlCount), TNi(0), TNi(0), TNi(0)), TL(TNi(hlCount), TNi(1), TNi(0), TNi(0)),
		TL(TNi(hlEquals), TNi(0), TNi(1)))
	cut := g.Intn(len(seq) + 1)
	for k, x := range seq {
		if k < cut {
			ops = append(ops, TL(TNi(hlUpdate), TNi(2), TBs(x)))
		} else {
			ops = append(ops, TL(TNi(hlUpdate), TNi(3), TBs(x)))
		}
	}
	if g.Chance(0.6) { // an estimate read before the merge must not survive it
		ops = append(ops, TL(TNi(hlCount), TNi(2), TNi(0), TNi(0)))
	}
	ops = append(ops, TL(TNi(hlRegs), TNi(3)), TL(TNi(hlMerge), TNi(2), TNi(3)), TL(TNi(hlRegs), TNi(2)), TL(TNi(hlRegs), TNi(3)),
		TL(TNi(hlCount), TNi(2), TNi(0), TNi(0)), TL(TNi(hlEquals), TNi(2), TNi(0)))
	if g.Chance(0.5) { // idempotent / commutative / later updates
		ops = append(ops, TL(TNi(hlMerge), TNi(2), TNi(3)), TL(TNi(hlRegs), TNi(2)),
			TL(TNi(hlMerge), TNi(3), TNi(2)), TL(TNi(hlRegs), TNi(3)))
		if g.Chance(0.5) { // a sketch merged with itself stays what it is (and the call returns)
			ops = append(ops, TL(TNi(hlMerge), TNi(2), TNi(2)), TL(TNi(hlRegs), TNi(2)))
		}
		x := []byte(fmt.Sprintf("late%d", g.Intn(1000)))
		ops = append(ops, TL(TNi(hlUpdate), TNi(2), TBs(x)), TL(TNi(hlUpdate), TNi(0), TBs(x)),
			TL(TNi(hlRegs), TNi(2)), TL(TNi(hlRegs), TNi(0)))
	}
	if g.Chance(0.5) { // merge into a FRESH sketch, then update either side: the two stay separate objects
		y := []byte(fmt.Sprintf("after%d", g.Intn(1000)))
		z := []byte(fmt.Sprintf("after%d", 1000+g.Intn(1000)))
		ops = append(ops, TL(TNi(hlNew), TNi(4), TNu(m)), TL(TNi(hlMerge), TNi(4), TNi(0)), TL(TNi(hlRegs), TNi(4)))
		for j := 0; j < 1+g.Intn(6); j++ {
			ops = append(ops, TL(TNi(hlUpdate), TNi(4), TBs([]byte(fmt.Sprintf("%s-%d", y, j)))))
		}
		ops = append(ops, TL(TNi(hlRegs), TNi(0)), TL(TNi(hlRegs), TNi(4)), TL(TNi(hlCount), TNi(0), TNi(0), TNi(0)))
		for j := 0; j < 1+g.Intn(6); j++ {
			ops = append(ops, TL(TNi(hlUpdate), TNi(0), TBs([]byte(fmt.Sprintf("%s-%d", z, j)))))
		}
		ops = append(ops, TL(TNi(hlRegs), TNi(4)), TL(TNi(hlRegs), TNi(0)), TL(TNi(hlCount), TNi(4), TNi(0), TNi(0)))
	}
	return &Case{Ops: ops}
}

func regsEqual(a, b Tok) bool { return a.String() == b.String() }

// monitorHLL: C05 totality of Update + accuracy (statistical, replay search only);
// C06 set-dependence, merge = union, mismatch rejected.
func monitorHLL(backend, prop string) Monitor {
	return func(ops, obs []Tok) []MonViolation {
		var out []MonViolation
		type sh struct {
			m    uint64
			set  map[string]bool
			regs string            // last observed registers
			last map[string]uint64 // last Count per flag combination since the last non-monotone operation
		}
		st := map[int]*sh{}
		regsBySet := map[string]string{}   // (m, canonical set) -> registers
		countByRegs := map[string]uint64{} // (m, registers, flags) -> estimate
		setKey := func(s *sh) string {
			ks := make([]string, 0, len(s.set))
			for k := range s.set {
				ks = append(ks, k)
			}
			return fmt.Sprintf("%d/%v", s.m, sortedStr(ks))
		}
		for step, op := range ops {
			a, o := op.L, obs[step]
			if a[0].I() >= 20 && len(a) > 1 { // persistence operations may replace the whole state
				if s := st[a[1].I()]; s != nil {
					s.last = map[string]uint64{}
					s.regs = ""
				}
			}
			if c := a[0].I(); (c == hlUpdate || c == hlMerge || c == hlReset) && len(a) > 1 {
				if s := st[a[1].I()]; s != nil {
					s.regs = ""
				}
			}
			switch a[0].I() {
			case hlNew:
				if isOk(o) {
					st[a[1].I()] = &sh{m: a[2].U(), set: map[string]bool{}, last: map[string]uint64{}}
				}
			case hlUpdate:
				s := st[a[1].I()]
				if s == nil {
					continue
				}
				if !isOk(o) && prop == "C05" {
					q := "m>=128"
					if s.m < 128 {
						q = "m<=64"
					}
					out = append(out, MonViolation{backend + "/Update/fails/" + q,
						fmt.Sprintf("Update on a validly constructed sketch (m=%d) failed: %s", s.m, o.String()), step})
				}
				if isOk(o) {
					s.set[string(a[2].B)] = true
				}
			case hlCount:
				s := st[a[1].I()]
				if s != nil && prop == "C06" && len(a) >= 5 && s.regs != "" {
					// the estimate is a function of the registers: two sketches seen with equal
					// registers (a merged one and the one fed the union) count alike
					k := fmt.Sprintf("%d|%s|%s%s", s.m, s.regs, a[2].String(), a[3].String())
					if prev, ok := countByRegs[k]; ok && prev != a[4].U() {
						out = append(out, MonViolation{backend + "/Count/differs-for-equal-registers",
							fmt.Sprintf("m=%d: two sketches holding the same registers count %d and %d", s.m, prev, a[4].U()), step})
					}
					countByRegs[k] = a[4].U()
				}
				if s == nil || prop != "C05" || len(a) < 5 {
					continue
				}
				// "the estimate grows with the number of distinct elements": registers only ever rise
				// under Update and Merge, so a later Count with the same flags is never smaller
				fk := a[2].String() + a[3].String()
				if prev, ok := s.last[fk]; ok && a[4].U() < prev {
					out = append(out, MonViolation{backend + "/Count/decreases",
						fmt.Sprintf("m=%d: Count fell from %d to %d although only updates/merges happened in between", s.m, prev, a[4].U()), step})
				}
				s.last[fk] = a[4].U()
				c := float64(a[4].U())
				n := float64(len(s.set))
				tol := 5 * 1.04 / math.Sqrt(float64(s.m))
				if n >= 1 && c == 0 && s.m >= 128 {
					out = append(out, MonViolation{backend + "/Count/zero-on-nonempty",
						fmt.Sprintf("m=%d: a sketch holding %v distinct elements counts 0", s.m, n), step})
				}
				if n == 0 {
					if c > 2+tol*float64(s.m) {
						out = append(out, MonViolation{backend + "/Count/empty-not-zero",
							fmt.Sprintf("empty sketch (m=%d) counts %v", s.m, c), step})
					}
				} else if n >= 20 && s.m >= 16 && math.Abs(c-n)/n > tol+0.3 {
					out = append(out, MonViolation{backend + "/Count/inaccurate",
						fmt.Sprintf("m=%d n=%v estimate=%v (relative error %.2f > %.2f)", s.m, n, c, math.Abs(c-n)/n, tol+0.3), step})
				}
			case hlReset:
				if s := st[a[1].I()]; s != nil {
					s.last = map[string]uint64{}
				}
			case hlRegs:
				s := st[a[1].I()]
				if s == nil || prop != "C06" || o.Kind != 2 {
					continue
				}
				k := setKey(s)
				if prev, ok := regsBySet[k]; ok && prev != o.String() {
					out = append(out, MonViolation{backend + "/state/depends-on-order-or-duplicates",
						"two sketches that received the same set of elements hold different registers", step})
				}
				regsBySet[k] = o.String()
				s.regs = o.String()
			case hlMerge:
				x, y := st[a[1].I()], st[a[2].I()]
				if x == nil || y == nil || prop != "C06" {
					continue
				}
				if x.m != y.m && !isErr(o) {
					out = append(out, MonViolation{backend + "/Merge/mismatch-accepted", "merge of different register counts not rejected: " + o.String(), step})
				}
				if x.m == y.m && !isOk(o) {
					out = append(out, MonViolation{backend + "/Merge/equal-rejected", "merge of equal register counts failed: " + o.String(), step})
				}
				if x.m == y.m && isOk(o) {
					for k := range y.set {
						x.set[k] = true
					}
				}
			}
		}
		return out
	}
}

func sortedStr(ks []string) []string {
	for i := 1; i < len(ks); i++ {
		for j := i; j > 0 && ks[j] < ks[j-1]; j-- {
			ks[j], ks[j-1] = ks[j-1], ks[j]
		}
	}
	return ks
}
