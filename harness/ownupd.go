package main

import "fmt"

// ownUpdateMonitor (C09): re-attachment must not change what a structure answers. Handles are
// grouped by re-attachment; a query answer through one handle may only change after an update
// through a handle of the same group. In particular attaching a second handle - which is not an
// update - leaves every answer of the creating handle as it was.
func ownUpdateMonitor(sg structGen) OMonitor {
	name := sg.name
	return func(orig, ops, obs []Tok) []MonViolation {
		var out []MonViolation
		group := map[int]int{}
		next := 0
		last := map[int]map[string]string{}
		for step, in := range ops {
			o := obs[step]
			if len(in.L) < 2 || o.String() == "(9)" {
				continue
			}
			code, h := in.L[0].I(), in.L[1].I()
			src := orig[step]
			g, alive := group[h]
			switch {
			case code == opAttach:
				delete(last, h)
				if sgp, ok := group[src.L[2].I()]; ok && isOk(o) {
					group[h] = sgp
				} else {
					delete(group, h)
				}
			case code == opExport || code == opEquals:
			case code < 20 && sg.isQuery(in):
				if !alive {
					continue
				}
				q := in.L[0].String()
				for i, f := range in.L[2:] {
					if code == hlCount && len(in.L) == 5 && i >= 2 && (name == "hll-redis" || name == "hll-mem") {
						break
					}
					q += " " + f.String()
				}
				v := queryValue(in, o)
				if last[h] == nil {
					last[h] = map[string]string{}
				}
				if prev, ok := last[h][q]; ok && prev != v {
					out = append(out, MonViolation{name + "/attach/answers-changed-without-update",
						fmt.Sprintf("%s answered %s, then %s, with only re-attachments (no update through any handle of the structure) in between", sg.opName(in), trunc(prev), trunc(v)), step})
				}
				last[h][q] = v
			case !alive || code == opImport:
				delete(last, h)
				for hh, gg := range group { // an import replaces the structure behind every handle of the group
					if alive && gg == g {
						delete(last, hh)
					}
				}
				group[h] = next
				next++
			default:
				for hh, gg := range group {
					if gg == g {
						delete(last, hh)
					}
				}
			}
		}
		return out
	}
}
