package main

import (
	"bytes"
	"context"
	"fmt"
	"math/rand"
	"net"
	"runtime"
	"strconv"
	"sync"
	"time"

	gx "github.com/kwertop/gostatix"
	"github.com/redis/go-redis/v9"
)

// ---------- command-granularity scheduler (go-redis hook) ----------
// Each registered client goroutine blocks before every Redis command (or pipeline) until the
// schedule grants it the turn. A finished client's turns are skipped; when the schedule is
// exhausted, client 0 runs to completion, then client 1.
type scheduler struct {
	mu      sync.Mutex
	cond    *sync.Cond
	active  bool
	turns   []int
	pos     int
	ids     map[uint64]int // goroutine id -> client
	waiting [2]bool
	done    [2]bool
	running int // client currently executing a command, -1 none
	steps   [2]int
	trace   [2][]string
}

var theSched = func() *scheduler {
	s := &scheduler{running: -1, ids: map[uint64]int{}}
	s.cond = sync.NewCond(&s.mu)
	return s
}()

func goid() uint64 {
	var buf [64]byte
	n := runtime.Stack(buf[:], false)
	f := bytes.Fields(buf[:n])
	id, _ := strconv.ParseUint(string(f[1]), 10, 64)
	return id
}

// next client allowed to run, or -1 if it must wait for someone to arrive/finish
func (s *scheduler) wanted() int {
	for s.pos < len(s.turns) && s.done[s.turns[s.pos]] {
		s.pos++
	}
	if s.pos < len(s.turns) {
		return s.turns[s.pos]
	}
	if !s.done[0] {
		return 0
	}
	return 1
}

func (s *scheduler) before(name string) int {
	s.mu.Lock()
	defer s.mu.Unlock()
	if !s.active {
		return -1
	}
	c, ok := s.ids[goid()]
	if !ok {
		return -1
	}
	s.waiting[c] = true
	for !(s.running == -1 && s.wanted() == c) {
		s.cond.Wait()
	}
	s.waiting[c] = false
	s.running = c
	s.steps[c]++
	s.trace[c] = append(s.trace[c], name)
	return c
}

func (s *scheduler) after(c int) {
	if c < 0 {
		return
	}
	s.mu.Lock()
	s.running = -1
	if s.pos < len(s.turns) && s.turns[s.pos] == c {
		s.pos++
	}
	s.mu.Unlock()
	s.cond.Broadcast()
}

func (s *scheduler) finish(c int) {
	s.mu.Lock()
	s.done[c] = true
	s.mu.Unlock()
	s.cond.Broadcast()
}

type schedHook struct{}

func (schedHook) DialHook(next redis.DialHook) redis.DialHook {
	return func(ctx context.Context, network, addr string) (net.Conn, error) { return next(ctx, network, addr) }
}
func (schedHook) ProcessHook(next redis.ProcessHook) redis.ProcessHook {
	return func(ctx context.Context, cmd redis.Cmder) error {
		c := theSched.before(cmd.Name())
		err := next(ctx, cmd)
		theSched.after(c)
		return err
	}
}
func (schedHook) ProcessPipelineHook(next redis.ProcessPipelineHook) redis.ProcessPipelineHook {
	return func(ctx context.Context, cmds []redis.Cmder) error {
		c := theSched.before("pipeline")
		err := next(ctx, cmds)
		theSched.after(c)
		return err
	}
}

var hookOnce sync.Once

// runPair executes fa and fb concurrently under the schedule; returns their results (1 ok, 0
// failed/panicked) and the per-client command traces.
func runPair(turns []int, fa, fb func() uint64) (uint64, uint64, [2][]string, bool) {
	hookOnce.Do(func() { rcli.AddHook(schedHook{}) })
	s := theSched
	s.mu.Lock()
	s.active, s.turns, s.pos, s.ids = true, turns, 0, map[uint64]int{}
	s.done, s.waiting, s.steps, s.running = [2]bool{}, [2]bool{}, [2]int{}, -1
	s.trace = [2][]string{}
	s.mu.Unlock()
	var res [2]uint64
	var wg sync.WaitGroup
	start := make(chan struct{})
	for c, f := range []func() uint64{fa, fb} {
		wg.Add(1)
		go func(c int, f func() uint64) {
			defer wg.Done()
			s.mu.Lock()
			s.ids[goid()] = c
			s.mu.Unlock()
			<-start
			func() {
				defer func() {
					if r := recover(); r != nil {
						res[c] = 0
					}
				}()
				res[c] = f()
			}()
			s.finish(c)
		}(c, f)
	}
	close(start)
	finished := make(chan struct{})
	go func() { wg.Wait(); close(finished) }()
	ok := true
	select {
	case <-finished:
	case <-time.After(20 * time.Second):
		ok = false // a deadlocked schedule must not hang the harness
	}
	s.mu.Lock()
	s.active = false
	tr := s.trace
	s.mu.Unlock()
	s.cond.Broadcast()
	return res[0], res[1], tr, ok
}

// ---------- machine 12 ----------
type schedMachine struct {
	subs map[int]Machine
	kind int
}

func newSchedMachine() Machine {
	return &schedMachine{subs: map[int]Machine{1: &bloomRedis{}, 2: &cmsRedis{}, 3: &hllRedis{}, 4: &cuckooRedis{}, 5: &topkRedis{}}}
}

func (m *schedMachine) ID() int { return 12 }
func (m *schedMachine) Reset() {
	redisReset()
	suppressFlush = true
	for _, s := range m.subs {
		s.Reset()
	}
	suppressFlush = false
	m.kind = 0
}
func (m *schedMachine) Close() {}
func (m *schedMachine) Oracle() Tok {
	if s, ok := m.subs[m.kind]; ok {
		return s.Oracle()
	}
	return TL()
}

func (m *schedMachine) Exec(op Tok) (opOut Tok, obs Tok) {
	opOut = op
	a := op.L
	switch a[0].I() {
	case 0:
		m.kind = a[1].I()
		sub := m.subs[m.kind]
		if sub == nil {
			return op, TL(TNu(9))
		}
		o, x := sub.Exec(a[2])
		return TL(a[0], a[1], o), x
	case 2:
		return m.pair(op)
	case 3:
		return m.attachPair(op)
	}
	return op, TL(TNu(9))
}

// attachPair: (3 <update op of the structure> schedule): one client obtains a second handle from the
// metadata key (NewXFromKey) while another issues the update through the first handle, interleaved
// at Redis-command granularity. Attaching reads; it must not undo an update that lands between its
// commands. For the model the step is the update alone, so the op is handed on in its sequential
// form (0 kind op) together with the update's own observation.
func (m *schedMachine) attachPair(op Tok) (Tok, Tok) {
	a := op.L
	inv := TL(TNu(9))
	sub := m.subs[m.kind]
	if sub == nil || len(a) < 3 {
		return op, inv
	}
	turns := make([]int, len(a[2].L))
	for i, t := range a[2].L {
		if t.U() != 0 {
			turns[i] = 0
		} else {
			turns[i] = 1
		}
	}
	var attach func()
	switch m.kind {
	case 1:
		f := m.subs[1].(*bloomRedis).inst[0]
		if f == nil {
			return op, inv
		}
		attach = func() { gx.NewRedisBloomFilterFromKey(f.GetMetadataKey()) }
	case 2:
		s := m.subs[2].(*cmsRedis).inst[0]
		if s == nil {
			return op, inv
		}
		attach = func() { gx.NewCountMinSketchRedisFromKey(s.MetadataKey()) }
	case 3:
		h := m.subs[3].(*hllRedis).inst[0]
		if h == nil {
			return op, inv
		}
		attach = func() { gx.NewHyperLogLogRedisFromKey(h.MetadataKey()) }
	case 4:
		f := m.subs[4].(*cuckooRedis).inst[0]
		if f == nil {
			return op, inv
		}
		_, meta := gx.VerifCuckooRedisKeys(f)
		attach = func() { gx.NewCuckooFilterRedisFromKey(meta) }
	case 5:
		t := m.subs[5].(*topkRedis).inst[0]
		if t == nil {
			return op, inv
		}
		attach = func() { gx.NewTopKRedisFromKey(t.MetadataKey()) }
	default:
		return op, inv
	}
	var uo, ux Tok
	fa := func() uint64 { attach(); return 1 }
	fb := func() uint64 { uo, ux = sub.Exec(a[1]); return 1 }
	_, _, _, ok := runPair(turns, fa, fb)
	if !ok {
		return TL(TNi(0), TNi(m.kind), a[1]), TL(TNu(7))
	}
	return TL(TNi(0), TNi(m.kind), uo), ux
}

func resTok(ok bool, r uint64) Tok {
	if !ok {
		return TL(TNu(7))
	}
	return TNu(r)
}

func (m *schedMachine) pair(op Tok) (Tok, Tok) {
	a := op.L
	ca, cb := a[1].L, a[2].L
	turns := make([]int, len(a[3].L))
	for i, t := range a[3].L {
		if t.U() != 0 {
			turns[i] = 0
		} else {
			turns[i] = 1
		}
	}
	modelSched := a[3]
	var fa, fb func() uint64
	inv := TL(TNu(9))
	switch m.kind {
	case 1:
		f := m.subs[1].(*bloomRedis).inst[0]
		if f == nil {
			return op, inv
		}
		bloomAddOracle(m.subs[1].(*bloomRedis).orc, f, ca[0].B)
		bloomAddOracle(m.subs[1].(*bloomRedis).orc, f, cb[0].B)
		fa = func() uint64 { f.Insert(ca[0].B); return 1 }
		fb = func() uint64 { f.Insert(cb[0].B); return 1 }
		// one pipeline on the wire = k SETBIT steps in the model: expand each turn k times
		k := int(f.GetNumHashes())
		var exp []Tok
		for _, t := range a[3].L {
			for j := 0; j < k; j++ {
				exp = append(exp, t)
			}
		}
		modelSched = TL(exp...)
	case 2:
		s := m.subs[2].(*cmsRedis).inst[0]
		if s == nil {
			return op, inv
		}
		m.subs[2].(*cmsRedis).addOracle(s, ca[0].B)
		m.subs[2].(*cmsRedis).addOracle(s, cb[0].B)
		fa = func() uint64 {
			if s.Update(ca[0].B, ca[1].U()) != nil {
				return 0
			}
			return 1
		}
		// the second client works through its own handle (re-attached; allSum is handle-local), or,
		// when the pair says so, both goroutines share the one handle
		s2 := s
		if len(a) > 4 && a[4].U() == 1 {
			// ... on a server whose script cache is cold (restart, first use from this process):
			// every EVALSHA is answered NOSCRIPT and followed by an EVAL, two commands per call
			rcli.ScriptFlush(context.Background())
		}
		if !(len(a) > 4 && a[4].U() == 1) {
			var err error
			s2, err = gx.NewCountMinSketchRedisFromKey(s.MetadataKey())
			if err != nil {
				return op, inv
			}
		}
		fb = func() uint64 {
			if s2.Update(cb[0].B, cb[1].U()) != nil {
				return 0
			}
			return 1
		}
	case 3:
		hm := m.subs[3].(*hllRedis)
		h := hm.inst[0]
		if h == nil {
			return op, inv
		}
		for _, x := range [][]byte{ca[0].B, cb[0].B} {
			_, p, _, _, _ := gx.VerifHLLRedisState(h)
			key := fmt.Sprintf("%d/%x", p, x)
			if !hm.orc.has(key) {
				idx, cnt := gx.VerifHLLRedisIndexCount(h, x)
				hm.orc.add(key, []uint64{p}, x, []uint64{idx, cnt})
			}
		}
		fa = func() uint64 {
			if h.Update(ca[0].B) != nil {
				return 0
			}
			return 1
		}
		fb = func() uint64 {
			if h.Update(cb[0].B) != nil {
				return 0
			}
			return 1
		}
	case 4:
		f := m.subs[4].(*cuckooRedis).inst[0]
		if f == nil {
			return op, inv
		}
		_, meta := gx.VerifCuckooRedisKeys(f)
		f2, err := gx.NewCuckooFilterRedisFromKey(meta)
		if err != nil {
			return op, inv
		}
		rand.Seed(1)
		fa = func() uint64 {
			if f.Insert(ca[0].B, false) {
				return 1
			}
			return 0
		}
		fb = func() uint64 {
			if f2.Insert(cb[0].B, false) {
				return 1
			}
			return 0
		}
	case 5:
		tm := m.subs[5].(*topkRedis)
		t := tm.inst[0]
		if t == nil {
			return op, inv
		}
		tm.skOracle(t, ca[0].B)
		tm.skOracle(t, cb[0].B)
		t2 := gx.NewTopKRedisFromKey(t.MetadataKey())
		fa = func() uint64 {
			if t.Insert(ca[0].B, ca[1].U()) != nil {
				return 0
			}
			return 1
		}
		fb = func() uint64 {
			if t2.Insert(cb[0].B, cb[1].U()) != nil {
				return 0
			}
			return 1
		}
	default:
		return op, inv
	}
	ra, rb, _, ok := runPair(turns, fa, fb)
	return TL(a[0], a[1], a[2], modelSched), TL(resTok(ok, ra), resTok(ok, rb))
}
