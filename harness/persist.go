package main

import (
	"encoding/base64"
	"encoding/json"
	"fmt"

	gx "github.com/kwertop/gostatix"
)

type genericMachine interface {
	Machine
	codecAt(i int) binCodec
	fresh() binCodec
	store(i int, c binCodec)
	equalsTok(i, j int) Tok
	exportBytes(i int) ([]byte, error)
	importInto(i int, b []byte) error
	freshImporter() func([]byte) error
	docTok(b []byte) Tok
	mutate(i, sel int, v uint64) Tok // returns the model-form op, or an empty list if not applicable
}

// withCodec adds the generic persistence ops to a machine.
type withCodec struct {
	genericMachine
	rec recorder
}

func (w *withCodec) Reset() { w.genericMachine.Reset(); w.rec.reset() }

func (w *withCodec) Exec(op Tok) (opOut Tok, obs Tok) {
	step := w.rec.step
	w.rec.step++
	if op.L[0].I() < 20 {
		return w.genericMachine.Exec(op)
	}
	opOut = op
	defer func() {
		if r := recover(); r != nil {
			obs = TPanic(classifyPanic(r))
		}
	}()
	a := op.L
	inv := TL(TNu(9))
	if c := a[0].I(); c == opWriteTo || c == opExport {
		opOut = TL(a[0], a[1]) // the label is harness-side only (also when the call panics)
	}
	switch a[0].I() {
	case opWriteTo:
		c := w.codecAt(a[1].I())
		if c == nil {
			return TL(a[0], a[1]), inv
		}
		o, s := doWriteTo(c)
		if s != nil {
			w.rec.streams[labelOf(a, step)] = s
		}
		return TL(a[0], a[1]), o
	case opReadFrom:
		c := w.codecAt(a[1].I())
		src, ok := w.rec.streams[a[2].I()]
		if c == nil || !ok {
			return TL(a[0], a[1]), inv
		}
		stream := append(append([]byte(nil), src...), a[3].B...)
		opOut = TL(a[0], a[1], TBs(stream))
		return opOut, doReadFrom(c, stream)
	case opPrefixBin:
		src, ok := w.rec.streams[a[2].I()]
		if !ok {
			return TL(a[0], a[1]), inv
		}
		opOut = TL(a[0], a[1], TBs(src))
		return opOut, doPrefixBin(w.fresh, src)
	case opEquals:
		return opOut, w.equalsTok(a[1].I(), a[2].I())
	case opExport:
		b, err := w.exportBytes(a[1].I())
		if err != nil {
			return TL(a[0], a[1]), TErr(errGeneric)
		}
		if b == nil {
			return TL(a[0], a[1]), inv
		}
		w.rec.exports[labelOf(a, step)] = b
		return TL(a[0], a[1]), TOk(w.docTok(b))
	case opImport:
		src, ok := w.rec.exports[a[2].I()]
		if !ok || w.codecAt(a[1].I()) == nil {
			return TL(a[0], a[1]), inv
		}
		if len(a) > 3 && a[3].U() > 0 {
			src = doctorDoc(src, int(a[3].U()))
		}
		opOut = TL(a[0], a[1], w.docTok(src))
		if err := w.importInto(a[1].I(), src); err != nil {
			return opOut, TErr(errGeneric)
		}
		return opOut, TOk(TUnit())
	case opMutate:
		if w.codecAt(a[1].I()) == nil {
			return TL(a[0], a[1]), inv
		}
		mo := w.mutate(a[1].I(), a[2].I(), a[3].U())
		return mo, TUnit()
	case opPrefixJS:
		src, ok := w.rec.exports[a[2].I()]
		if !ok {
			return TL(a[0], a[1]), inv
		}
		opOut = TL(a[0], a[1], TNu(uint64(len(src))))
		return opOut, doPrefixJSON(w.freshImporter, src)
	}
	return opOut, inv
}

func rawText(r json.RawMessage) Tok { return TBs([]byte(r)) }

// doctorDoc edits an exported document the way a hand-made or older-version document may differ:
// a Top-K document ("h" is its heap) loses its last (sel 1) or first (sel 2) heap entry; other
// documents are returned unchanged. The model imports the same edited document.
func doctorDoc(src []byte, sel int) []byte {
	var doc map[string]json.RawMessage
	if json.Unmarshal(src, &doc) != nil {
		return src
	}
	var heap []json.RawMessage
	if h, ok := doc["h"]; !ok || json.Unmarshal(h, &heap) != nil || len(heap) == 0 {
		return src
	}
	if sel == 2 {
		heap = heap[1:]
	} else {
		heap = heap[:len(heap)-1]
	}
	if heap == nil {
		heap = []json.RawMessage{}
	}
	doc["h"], _ = json.Marshal(heap)
	out, err := json.Marshal(doc)
	if err != nil {
		return src
	}
	return out
}

// ---------- CMS ----------
func (m *cmsMem) codecAt(i int) binCodec {
	if s := m.inst[i]; s != nil {
		return s
	}
	return nil
}
func (m *cmsMem) fresh() binCodec         { s, _ := gx.NewCountMinSketch(1, 1); return s }
func (m *cmsMem) store(i int, c binCodec) { m.inst[i] = c.(*gx.CountMinSketch) }
func (m *cmsMem) equalsTok(i, j int) Tok {
	x, y := m.inst[i], m.inst[j]
	if x == nil || y == nil {
		return TL(TNu(9))
	}
	return TOk(TBool(x.Equals(y)))
}
func (m *cmsMem) exportBytes(i int) ([]byte, error) {
	if m.inst[i] == nil {
		return nil, nil
	}
	return m.inst[i].Export()
}
func (m *cmsMem) importInto(i int, b []byte) error { return m.inst[i].Import(b) }
func (m *cmsMem) freshImporter() func([]byte) error {
	s, _ := gx.NewCountMinSketch(1, 1)
	return s.Import
}

type cmsDoc struct {
	R uint64     `json:"r"`
	C uint64     `json:"c"`
	S uint64     `json:"s"`
	M [][]uint64 `json:"m"`
	K string     `json:"k"`
}

func cmsDocTok(d cmsDoc) Tok {
	rows := make([]Tok, len(d.M))
	for i, r := range d.M {
		rows[i] = TListU(r)
	}
	return TL(TNu(d.R), TNu(d.C), TNu(d.S), TL(rows...), TBs([]byte(d.K)))
}
func (m *cmsMem) docTok(b []byte) Tok {
	var d cmsDoc
	if json.Unmarshal(b, &d) != nil {
		return TL(TNu(8))
	}
	return cmsDocTok(d)
}

// ---------- Bloom ----------
func (m *bloomMem) codecAt(i int) binCodec {
	if s := m.inst[i]; s != nil {
		return s
	}
	return nil
}
func (m *bloomMem) fresh() binCodec         { return gx.NewMemBloomFilterFromBitSet(nil, 1) }
func (m *bloomMem) store(i int, c binCodec) { m.inst[i] = c.(*gx.BloomFilter) }
func (m *bloomMem) equalsTok(i, j int) Tok {
	x, y := m.inst[i], m.inst[j]
	if x == nil || y == nil {
		return TL(TNu(9))
	}
	ok, err := x.Equals(y)
	if err != nil {
		return TErr(errGeneric)
	}
	return TOk(TBool(ok))
}
func (m *bloomMem) exportBytes(i int) ([]byte, error) {
	if m.inst[i] == nil {
		return nil, nil
	}
	return m.inst[i].Export()
}
func (m *bloomMem) importInto(i int, b []byte) error { return m.inst[i].Import(b) }
func (m *bloomMem) freshImporter() func([]byte) error {
	return gx.NewMemBloomFilterFromBitSet(nil, 1).Import
}

// bloom document: m, k, and the bitset's binary image (u64 length | words, big-endian)
func (m *bloomMem) docTok(b []byte) Tok {
	var d struct {
		M uint64 `json:"m"`
		K uint64 `json:"k"`
		B []byte `json:"b"`
	}
	if json.Unmarshal(b, &d) != nil {
		return TL(TNu(8))
	}
	var s string
	if json.Unmarshal(d.B, &s) != nil {
		return TL(TNu(8), TNu(1))
	}
	raw, err := base64.URLEncoding.DecodeString(s)
	if err != nil {
		return TL(TNu(8), TNu(2))
	}
	return TL(TNu(d.M), TNu(d.K), TBs(raw))
}

// ---------- HLL ----------
func (m *hllMem) codecAt(i int) binCodec {
	if s := m.inst[i]; s != nil {
		return s
	}
	return nil
}
func (m *hllMem) fresh() binCodec         { h, _ := gx.NewHyperLogLog(1); return h }
func (m *hllMem) store(i int, c binCodec) { m.inst[i] = c.(*gx.HyperLogLog) }
func (m *hllMem) equalsTok(i, j int) Tok {
	x, y := m.inst[i], m.inst[j]
	if x == nil || y == nil {
		return TL(TNu(9))
	}
	return TOk(TBool(x.Equals(y)))
}
func (m *hllMem) exportBytes(i int) ([]byte, error) {
	if m.inst[i] == nil {
		return nil, nil
	}
	return m.inst[i].Export()
}
func (m *hllMem) importInto(i int, b []byte) error { return m.inst[i].Import(b) }
func (m *hllMem) freshImporter() func([]byte) error {
	h, _ := gx.NewHyperLogLog(1)
	return h.Import
}
func (m *hllMem) docTok(b []byte) Tok {
	var d struct {
		NR  uint64          `json:"nr"`
		NBP uint64          `json:"nbp"`
		C   json.RawMessage `json:"c"`
		R   []byte          `json:"r"`
		K   string          `json:"k"`
	}
	if json.Unmarshal(b, &d) != nil {
		return TL(TNu(8))
	}
	return TL(TNu(d.NR), TNu(d.NBP), rawText(d.C), TBs(d.R), TBs([]byte(d.K)))
}

// ---------- Cuckoo ----------
func (m *cuckooMem) codecAt(i int) binCodec {
	if s := m.inst[i]; s != nil {
		return s
	}
	return nil
}
func (m *cuckooMem) fresh() binCodec         { return gx.NewCuckooFilter(0, 0, 0) }
func (m *cuckooMem) store(i int, c binCodec) { m.inst[i] = c.(*gx.CuckooFilter) }
func (m *cuckooMem) equalsTok(i, j int) Tok {
	x, y := m.inst[i], m.inst[j]
	if x == nil || y == nil {
		return TL(TNu(9))
	}
	return TOk(TBool(x.Equals(y)))
}
func (m *cuckooMem) exportBytes(i int) ([]byte, error) {
	if m.inst[i] == nil {
		return nil, nil
	}
	return m.inst[i].Export()
}
func (m *cuckooMem) importInto(i int, b []byte) error  { return m.inst[i].Import(b) }
func (m *cuckooMem) freshImporter() func([]byte) error { return gx.NewCuckooFilter(0, 0, 0).Import }
func (m *cuckooMem) docTok(b []byte) Tok {
	var d struct {
		S   uint64 `json:"s"`
		BS  uint64 `json:"bs"`
		FPL uint64 `json:"fpl"`
		L   uint64 `json:"l"`
		R   uint64 `json:"r"`
		B   []struct {
			S uint64   `json:"s"`
			L uint64   `json:"l"`
			E []string `json:"e"`
		} `json:"b"`
	}
	if json.Unmarshal(b, &d) != nil {
		return TL(TNu(8))
	}
	bs := make([]Tok, len(d.B))
	for i, bk := range d.B {
		es := make([][]byte, len(bk.E))
		for j, e := range bk.E {
			es[j] = []byte(e)
		}
		bs[i] = TL(TNu(bk.S), TNu(bk.L), TListB(es))
	}
	return TL(TNu(d.S), TNu(d.BS), TNu(d.FPL), TNu(d.L), TNu(d.R), TL(bs...))
}

// ---------- Top-K ----------
func (m *topkMem) codecAt(i int) binCodec {
	if s := m.inst[i]; s != nil {
		return s
	}
	return nil
}
func (m *topkMem) fresh() binCodec         { return gx.NewTopK(1, 0.5, 0.5) }
func (m *topkMem) store(i int, c binCodec) { m.inst[i] = c.(*gx.TopK) }
func (m *topkMem) equalsTok(i, j int) Tok {
	x, y := m.inst[i], m.inst[j]
	if x == nil || y == nil {
		return TL(TNu(9))
	}
	ok, _ := x.Equals(y) // a non-nil error accompanies every `false`
	return TOk(TBool(ok))
}
func (m *topkMem) exportBytes(i int) ([]byte, error) {
	if m.inst[i] == nil {
		return nil, nil
	}
	return m.inst[i].Export()
}
func (m *topkMem) importInto(i int, b []byte) error  { return m.inst[i].Import(b) }
func (m *topkMem) freshImporter() func([]byte) error { return gx.NewTopK(1, 0.5, 0.5).Import }
func (m *topkMem) docTok(b []byte) Tok {
	var d struct {
		K  uint64          `json:"k"`
		ER json.RawMessage `json:"er"`
		A  json.RawMessage `json:"a"`
		S  cmsDoc          `json:"s"`
		H  []struct {
			V string `json:"v"`
			F uint64 `json:"f"`
		} `json:"h"`
		HK string `json:"hk"`
	}
	if json.Unmarshal(b, &d) != nil {
		return TL(TNu(8))
	}
	hs := make([]Tok, len(d.H))
	for i, e := range d.H {
		hs[i] = TL(TBs([]byte(e.V)), TNu(e.F))
	}
	return TL(TNu(d.K), rawText(d.ER), rawText(d.A), cmsDocTok(d.S), TL(hs...), TBs([]byte(d.HK)))
}

var _ = fmt.Sprint

func pickIdx(sel, n int) int {
	switch sel {
	case 0:
		return 0
	case 1:
		return n / 2
	}
	return n - 1
}

func (m *cmsMem) mutate(i, sel int, v uint64) Tok {
	s := m.inst[i]
	rows, cols, _, mat := gx.VerifCMSState(s)
	if rows == 0 || cols == 0 {
		return TL(TNi(opMutate), TNi(i))
	}
	r, c := pickIdx(sel, int(rows)), pickIdx(sel, int(cols))
	nv := mat[r][c] + v
	gx.VerifCMSSetCell(s, uint(r), uint(c), nv)
	return TL(TNi(opMutate), TNi(i), TNi(r), TNi(c), TNu(nv))
}

func (m *bloomMem) mutate(i, sel int, v uint64) Tok {
	f := m.inst[i]
	size, _, blen, words, _ := gx.VerifBloomState(f)
	if blen == 0 || size == 0 {
		return TL(TNi(opMutate), TNi(i))
	}
	// first clear bit at or after the selected position (so that the state really changes)
	start := pickIdx(sel, int(blen))
	for k := 0; k < int(blen); k++ {
		b := (start + k) % int(blen)
		if words[b/64]&(1<<(uint(b)%64)) == 0 {
			gx.VerifBloomSetBit(f, uint(b))
			return TL(TNi(opMutate), TNi(i), TNi(b))
		}
	}
	return TL(TNi(opMutate), TNi(i))
}

func (m *hllMem) mutate(i, sel int, v uint64) Tok {
	h := m.inst[i]
	_, _, _, regs := gx.VerifHLLState(h)
	if len(regs) == 0 {
		return TL(TNi(opMutate), TNi(i))
	}
	idx := pickIdx(sel, len(regs))
	nv := uint8(uint64(regs[idx]) + 1 + v%100)
	gx.VerifHLLSetRegister(h, uint64(idx), nv)
	return TL(TNi(opMutate), TNi(i), TNi(idx), TNu(uint64(nv)))
}

func (m *cuckooMem) mutate(i, sel int, v uint64) Tok {
	f := m.inst[i]
	slots, _, _, _ := gx.VerifCuckooState(f)
	if len(slots) == 0 {
		return TL(TNi(opMutate), TNi(i))
	}
	b := pickIdx(sel, len(slots))
	if len(slots[b]) == 0 {
		return TL(TNi(opMutate), TNi(i))
	}
	s := pickIdx(sel, len(slots[b]))
	fp := fmt.Sprintf("%d", 1000+v)
	if slots[b][s] == fp {
		fp = fp + "7"
	}
	gx.VerifCuckooSetSlot(f, uint64(b), uint64(s), fp)
	return TL(TNi(opMutate), TNi(i), TNi(b), TNi(s), TBs([]byte(fp)))
}

func (m *topkMem) mutate(i, sel int, v uint64) Tok {
	t := m.inst[i]
	_, _, _, _, h := gx.VerifTopKState(t)
	if len(h) == 0 {
		return TL(TNi(opMutate), TNi(i))
	}
	idx := pickIdx(sel, len(h))
	if v%2 == 0 {
		gx.VerifTopKSetHeapEntry(t, idx, h[idx].Value, h[idx].Frequency+v)
		return TL(TNi(opMutate), TNi(i), TNi(idx), TBs([]byte(h[idx].Value)), TNu(h[idx].Frequency+v))
	}
	nv := h[idx].Value + "~"
	gx.VerifTopKSetHeapEntry(t, idx, nv, h[idx].Frequency)
	return TL(TNi(opMutate), TNi(i), TNi(idx), TBs([]byte(nv)), TNu(h[idx].Frequency))
}

// labelOf: WriteTo/Export ops may carry a label (third field) under which the produced bytes are
// recorded; later ops refer to it. Labels survive shrinking, step indices would not.
func labelOf(a []Tok, step int) int {
	if len(a) >= 3 {
		return a[2].I()
	}
	return step
}
