package main

import (
	"fmt"
	"os"
	"os/exec"
	"strings"
	"sync"
	"time"

	gx "github.com/kwertop/gostatix"
)

// Cross-process probe of the "fresh random keys" mechanism (C19's stated assumption, C09's "in
// another process"): two OS processes that start at (nearly) the same time and each create
// Redis-backed structures in one database must not draw the same key names — otherwise the second
// process silently lands on the first one's keys. The harness re-executes itself twice at once as
// `-keyprobe n` children, which print the first n keys the library generates in a new process.

func keyProbeChild(n int) {
	for i := 0; i < n; i++ {
		fmt.Println(gx.VerifRandomKey())
	}
}

// crossProcessKeys runs `rounds` rounds of two simultaneous children and returns a description of
// the first collision (empty if none) and the number of keys compared.
func crossProcessKeys(rounds, n int) (string, int) {
	exe, err := os.Executable()
	if err != nil {
		return "", 0
	}
	compared := 0
	for r := 0; r < rounds; r++ {
		// start both early in a wall-clock second, so that a generator seeded from a coarse clock
		// gives both the same seed
		now := time.Now()
		time.Sleep(now.Truncate(time.Second).Add(time.Second + 20*time.Millisecond).Sub(now))
		outs := make([]string, 2)
		var wg sync.WaitGroup
		for c := 0; c < 2; c++ {
			wg.Add(1)
			go func(c int) {
				defer wg.Done()
				// a few milliseconds apart: far more than the resolution of any clock a generator could
				// reasonably be seeded from, still well inside the same second
				time.Sleep(time.Duration(c) * 3 * time.Millisecond)
				b, err := exec.Command(exe, "-keyprobe", fmt.Sprint(n)).Output()
				if err == nil {
					outs[c] = string(b)
				}
			}(c)
		}
		wg.Wait()
		a, b := strings.Fields(outs[0]), strings.Fields(outs[1])
		seen := map[string]bool{}
		for _, k := range a {
			seen[k] = true
		}
		compared += len(a) + len(b)
		for _, k := range b {
			if seen[k] {
				return fmt.Sprintf("two processes started together both generated the key %q (process 1: %v, process 2: %v)", k, a, b), compared
			}
		}
	}
	return "", compared
}
