package main

import (
	"encoding/hex"
	"fmt"
	"math/big"
	"strconv"
	"strings"
)

// Tok mirrors the Coq `tok` type: number | byte string | list.
type Tok struct {
	Kind int // 0 number, 1 bytes, 2 list
	N    *big.Int
	B    []byte
	L    []Tok
}

func TNu(n uint64) Tok { return Tok{Kind: 0, N: new(big.Int).SetUint64(n)} }
func TNi(n int) Tok    { return TNu(uint64(n)) }
func TBs(b []byte) Tok { return Tok{Kind: 1, B: append([]byte(nil), b...)} }
func TL(l ...Tok) Tok  { return Tok{Kind: 2, L: l} }
func TBool(b bool) Tok {
	if b {
		return TNu(1)
	}
	return TNu(0)
}
func TUnit() Tok       { return TL() }
func TOk(t Tok) Tok    { return TL(TL(), TNu(0), t) }
func TErr(tag int) Tok { return TL(TL(), TNu(1), TNi(tag)) }
func TPanic(tag int) Tok {
	return TL(TL(), TNu(2), TNi(tag))
}
func TListU(l []uint64) Tok {
	out := make([]Tok, len(l))
	for i, v := range l {
		out[i] = TNu(v)
	}
	return TL(out...)
}
func TListB(l [][]byte) Tok {
	out := make([]Tok, len(l))
	for i, v := range l {
		out[i] = TBs(v)
	}
	return TL(out...)
}

func (t Tok) write(sb *strings.Builder) {
	switch t.Kind {
	case 0:
		sb.WriteString(t.N.String())
	case 1:
		sb.WriteByte('x')
		sb.WriteString(hex.EncodeToString(t.B))
	default:
		sb.WriteByte('(')
		for i, x := range t.L {
			if i > 0 {
				sb.WriteByte(' ')
			}
			x.write(sb)
		}
		sb.WriteByte(')')
	}
}

func (t Tok) String() string {
	var sb strings.Builder
	t.write(&sb)
	return sb.String()
}

func (t Tok) U() uint64 {
	if t.Kind != 0 {
		return 0
	}
	return t.N.Uint64()
}
func (t Tok) I() int { return int(t.U()) }

func ParseTok(s string) (Tok, error) {
	p := &tokParser{s: s}
	t, err := p.tok()
	if err != nil {
		return Tok{}, err
	}
	return t, nil
}

type tokParser struct {
	s string
	i int
}

func (p *tokParser) skip() {
	for p.i < len(p.s) && p.s[p.i] == ' ' {
		p.i++
	}
}

func (p *tokParser) tok() (Tok, error) {
	p.skip()
	if p.i >= len(p.s) {
		return Tok{}, fmt.Errorf("eof")
	}
	c := p.s[p.i]
	switch {
	case c == '(':
		p.i++
		var l []Tok
		for {
			p.skip()
			if p.i >= len(p.s) {
				return Tok{}, fmt.Errorf("eof in list")
			}
			if p.s[p.i] == ')' {
				p.i++
				return Tok{Kind: 2, L: l}, nil
			}
			t, err := p.tok()
			if err != nil {
				return Tok{}, err
			}
			l = append(l, t)
		}
	case c == 'x':
		p.i++
		st := p.i
		for p.i < len(p.s) && p.s[p.i] != ' ' && p.s[p.i] != ')' && p.s[p.i] != '(' {
			p.i++
		}
		b, err := hex.DecodeString(p.s[st:p.i])
		if err != nil {
			return Tok{}, err
		}
		return Tok{Kind: 1, B: b}, nil
	case c >= '0' && c <= '9':
		st := p.i
		for p.i < len(p.s) && p.s[p.i] >= '0' && p.s[p.i] <= '9' {
			p.i++
		}
		n, ok := new(big.Int).SetString(p.s[st:p.i], 10)
		if !ok {
			return Tok{}, fmt.Errorf("bad number")
		}
		return Tok{Kind: 0, N: n}, nil
	}
	return Tok{}, fmt.Errorf("bad char %q at %d in %s", c, p.i, strconv.Quote(p.s))
}

// outcome tokens: (() 0 payload) | (() 1 errtag) | (() 2 panictag)
func outcomeKind(o Tok) int {
	if o.Kind == 2 && len(o.L) == 3 && o.L[0].Kind == 2 && len(o.L[0].L) == 0 && o.L[1].Kind == 0 {
		return int(o.L[1].U())
	}
	return -1
}
func isOk(o Tok) bool     { return outcomeKind(o) == 0 }
func isErr(o Tok) bool    { return outcomeKind(o) == 1 }
func isPanic(o Tok) bool  { return outcomeKind(o) == 2 }
func okPayload(o Tok) Tok { return o.L[2] }
