package main

import (
	"context"
	"fmt"
	"math/rand"
	"strconv"

	gx "github.com/kwertop/gostatix"
)

// Redis-backed cuckoo machine (8): same op codes as the memory machine.
type cuckooRedis struct {
	inst map[int]*gx.CuckooFilterRedis
	rec  recorder
}

func (m *cuckooRedis) ID() int { return 8 }
func (m *cuckooRedis) Reset() {
	redisReset()
	m.inst = map[int]*gx.CuckooFilterRedis{}
	m.rec.reset()
}
func (m *cuckooRedis) Close()      {}
func (m *cuckooRedis) Oracle() Tok { return TL() }

func ckBucketKey(key string, i uint64) string {
	return "cuckoo_" + key + "_bucket_" + strconv.FormatUint(i, 10)
}

func ckLenOf(bk string) (int64, bool) {
	v, err := rcli.Get(context.Background(), bk+"_len").Int64()
	return v, err == nil
}

func cuckooRedisStateTok(f *gx.CuckooFilterRedis) Tok {
	size, bsize, _, _ := gx.VerifCuckooRedisParams(f)
	key, _ := gx.VerifCuckooRedisKeys(f)
	bs := make([]Tok, size)
	for i := uint64(0); i < size; i++ {
		bk := ckBucketKey(key, i)
		vals, _ := mr.List(bk)
		sl := make([][]byte, len(vals))
		for j, v := range vals {
			sl[j] = []byte(v)
		}
		l, _ := ckLenOf(bk)
		bs[i] = TL(TNu(bsize), TNu(uint64(l)), TListB(sl))
	}
	return TL(TNu(f.Length()), TL(bs...))
}

func (m *cuckooRedis) Exec(op Tok) (opOut Tok, obs Tok) {
	m.rec.step++
	opOut = op
	a := op.L
	evict := false
	defer func() {
		if r := recover(); r != nil {
			obs = TPanic(classifyPanic(r))
			if a[0].I() == ckInsert {
				obs = TL(obs, TBool(evict))
			}
		}
	}()
	inv := TL(TNu(9))
	switch a[0].I() {
	case ckNew:
		f, err := gx.NewCuckooFilterRedisWithRetries(a[2].U(), a[3].U(), a[4].U(), a[5].U())
		if err != nil {
			return op, TErr(errGeneric)
		}
		key, meta := gx.VerifCuckooRedisKeys(f)
		opOut = TL(a[0], a[1], a[2], a[3], a[4], a[5], TBs([]byte(key)), TBs([]byte(meta)))
		m.inst[a[1].I()] = f
		return opOut, TUnit()
	case ckInsert:
		f := m.inst[a[1].I()]
		if f == nil {
			return opOut, inv
		}
		seed := int64(a[4].U())
		size, bsize, _, retries := gx.VerifCuckooRedisParams(f)
		coin, draws := mirrorDraws(seed, retries)
		func() {
			defer func() { recover() }()
			_, i1, i2, _ := gx.VerifCuckooRedisPositions(f, a[2].B)
			key, _ := gx.VerifCuckooRedisKeys(f)
			if size > 0 {
				full := func(i uint64) bool {
					l, ok := ckLenOf(ckBucketKey(key, i))
					return !ok || l >= int64(bsize)
				}
				evict = full(i1) && full(i2)
			}
		}()
		if !evict {
			draws = nil
		}
		opOut = TL(a[0], a[1], a[2], a[3], TBool(coin), TListU(draws))
		rand.Seed(seed)
		ok := f.Insert(a[2].B, a[3].U() != 0)
		return opOut, TL(TOk(TBool(ok)), TBool(evict))
	case ckLookup:
		f := m.inst[a[1].I()]
		if f == nil {
			return opOut, inv
		}
		ok, err := f.Lookup(a[2].B)
		if err != nil {
			return opOut, TErr(errGeneric)
		}
		return opOut, TOk(TBool(ok))
	case ckRemove:
		f := m.inst[a[1].I()]
		if f == nil {
			return opOut, inv
		}
		ok, err := f.Remove(a[2].B)
		if err != nil {
			return opOut, TErr(errGeneric)
		}
		return opOut, TOk(TBool(ok))
	case ckLength:
		f := m.inst[a[1].I()]
		if f == nil {
			return opOut, inv
		}
		return opOut, TNu(f.Length())
	case ckState:
		f := m.inst[a[1].I()]
		if f == nil {
			return opOut, inv
		}
		return opOut, cuckooRedisStateTok(f)
	case ckMurmur:
		return opOut, TNu(gx.VerifMurmur(a[1].B))
	case opAttach:
		src := m.inst[a[2].I()]
		if src == nil {
			return TL(a[0], a[1]), inv
		}
		_, meta := gx.VerifCuckooRedisKeys(src)
		opOut = TL(a[0], a[1], TBs([]byte(meta)))
		f, err := gx.NewCuckooFilterRedisFromKey(meta)
		if err != nil {
			return opOut, TErr(errGeneric)
		}
		m.inst[a[1].I()] = f
		return opOut, TOk(TUnit())
	}
	return opOut, inv
}

var _ = fmt.Sprint
