package main

import (
	"context"
	"encoding/json"
	"fmt"
	"math/rand"
	"strconv"

	gx "github.com/kwertop/gostatix"
)

// Redis-backed cuckoo machine (8): same op codes as the memory machine.
type cuckooRedis struct {
	inst map[int]*gx.CuckooFilterRedis
	rec  recorder
}

func (m *cuckooRedis) ID() int { return 8 }
func (m *cuckooRedis) Reset() {
	redisReset()
	m.inst = map[int]*gx.CuckooFilterRedis{}
	m.rec.reset()
}
func (m *cuckooRedis) Close()      {}
func (m *cuckooRedis) Oracle() Tok { return TL() }

func ckBucketKey(key string, i uint64) string {
	return "cuckoo_" + key + "_bucket_" + strconv.FormatUint(i, 10)
}

func ckLenOf(bk string) (int64, bool) {
	v, err := rcli.Get(context.Background(), bk+"_len").Int64()
	return v, err == nil
}

func cuckooRedisStateTok(f *gx.CuckooFilterRedis) Tok {
	size, bsize, _, _ := gx.VerifCuckooRedisParams(f)
	key, _ := gx.VerifCuckooRedisKeys(f)
	bs := make([]Tok, size)
	for i := uint64(0); i < size; i++ {
		bk := ckBucketKey(key, i)
		vals, _ := mr.List(bk)
		sl := make([][]byte, len(vals))
		for j, v := range vals {
			sl[j] = []byte(v)
		}
		l, _ := ckLenOf(bk)
		bs[i] = TL(TNu(bsize), TNu(uint64(l)), TListB(sl))
	}
	return TL(TNu(f.Length()), TL(bs...))
}

func (m *cuckooRedis) Exec(op Tok) (opOut Tok, obs Tok) {
	m.rec.step++
	opOut = op
	a := op.L
	evict := false
	defer func() {
		if r := recover(); r != nil {
			obs = TPanic(classifyPanic(r))
			if a[0].I() == ckInsert {
				obs = TL(obs, TBool(evict))
			}
		}
	}()
	inv := TL(TNu(9))
	switch a[0].I() {
	case ckNew:
		before := redisKeys()
		f, err := gx.NewCuckooFilterRedisWithRetries(a[2].U(), a[3].U(), a[4].U(), a[5].U())
		if err != nil {
			return op, TErr(errGeneric)
		}
		key, meta := gx.VerifCuckooRedisKeys(f)
		opOut = TL(a[0], a[1], a[2], a[3], a[4], a[5], TBs([]byte(key)), TBs([]byte(meta)))
		m.inst[a[1].I()] = f
		if t, bad := staleKey(before, key, meta); bad {
			return opOut, t
		}
		return opOut, TUnit()
	case ckInsert:
		f := m.inst[a[1].I()]
		if f == nil {
			return opOut, inv
		}
		seed := int64(a[4].U())
		size, bsize, _, retries := gx.VerifCuckooRedisParams(f)
		coin, draws := mirrorDraws(seed, retries)
		func() {
			defer func() { recover() }()
			_, i1, i2, _ := gx.VerifCuckooRedisPositions(f, a[2].B)
			key, _ := gx.VerifCuckooRedisKeys(f)
			if size > 0 {
				full := func(i uint64) bool {
					l, ok := ckLenOf(ckBucketKey(key, i))
					return !ok || l >= int64(bsize)
				}
				evict = full(i1) && full(i2)
			}
		}()
		if !evict {
			draws = nil
		}
		opOut = TL(a[0], a[1], a[2], a[3], TBool(coin), TListU(draws))
		rand.Seed(seed)
		ok := f.Insert(el(a[2].B), a[3].U() != 0)
		return opOut, TL(TOk(TBool(ok)), TBool(evict))
	case ckLookup:
		f := m.inst[a[1].I()]
		if f == nil {
			return opOut, inv
		}
		ok, err := f.Lookup(el(a[2].B))
		if err != nil {
			return opOut, TErr(errGeneric)
		}
		return opOut, TOk(TBool(ok))
	case ckRemove:
		f := m.inst[a[1].I()]
		if f == nil {
			return opOut, inv
		}
		ok, err := f.Remove(el(a[2].B))
		if err != nil {
			return opOut, TErr(errGeneric)
		}
		return opOut, TOk(TBool(ok))
	case ckLength:
		f := m.inst[a[1].I()]
		if f == nil {
			return opOut, inv
		}
		return opOut, TNu(f.Length())
	case ckState:
		f := m.inst[a[1].I()]
		if f == nil {
			return opOut, inv
		}
		return opOut, cuckooRedisStateTok(f)
	case ckMurmur:
		return opOut, TNu(gx.VerifMurmur(a[1].B))
	case opEquals:
		x, y := m.inst[a[1].I()], m.inst[a[2].I()]
		if x == nil || y == nil {
			return opOut, inv
		}
		ok, _ := x.Equals(*y) // the Redis variants report "unequal" as (false, error)
		return opOut, TOk(TBool(ok))
	case opExport:
		f := m.inst[a[1].I()]
		opOut = TL(a[0], a[1])
		if f == nil {
			return opOut, inv
		}
		b, err := f.Export()
		if err != nil {
			return opOut, TErr(errGeneric)
		}
		m.rec.exports[labelOf(a, m.rec.step-1)] = b
		return opOut, TOk(cuckooRedisDocTok(b))
	case opImport:
		f := m.inst[a[1].I()]
		src, ok := m.rec.exports[a[2].I()]
		if f == nil || !ok {
			return TL(a[0], a[1]), inv
		}
		before := redisKeys()
		err := f.Import(src, a[3].U() != 0)
		key, meta := gx.VerifCuckooRedisKeys(f)
		opOut = TL(a[0], a[1], cuckooRedisDocTok(src), a[3], TBs([]byte(key)), TBs([]byte(meta)))
		if err != nil {
			return opOut, TErr(errGeneric)
		}
		if t, bad := staleKey(before, key, meta); a[3].U() != 0 && bad {
			return opOut, t
		}
		return opOut, TOk(TUnit())
	case opAttach:
		src := m.inst[a[2].I()]
		if src == nil {
			return TL(a[0], a[1]), inv
		}
		_, meta := gx.VerifCuckooRedisKeys(src)
		opOut = TL(a[0], a[1], TBs([]byte(meta)))
		f, err := gx.NewCuckooFilterRedisFromKey(meta)
		if err != nil {
			return opOut, TErr(errGeneric)
		}
		m.inst[a[1].I()] = f
		return opOut, TOk(TUnit())
	}
	return opOut, inv
}

var _ = fmt.Sprint

func cuckooRedisDocTok(b []byte) Tok {
	var d struct {
		S   uint64 `json:"s"`
		BS  uint64 `json:"bs"`
		FPL uint64 `json:"fpl"`
		L   uint64 `json:"l"`
		R   uint64 `json:"r"`
		B   []struct {
			S uint64   `json:"s"`
			L uint64   `json:"l"`
			E []string `json:"e"`
			K string   `json:"k"`
		} `json:"b"`
		K  string `json:"k"`
		MK string `json:"mk"`
	}
	if json.Unmarshal(b, &d) != nil {
		return TL(TNu(8))
	}
	bs := make([]Tok, len(d.B))
	for i, bk := range d.B {
		es := make([][]byte, len(bk.E))
		for j, e := range bk.E {
			es[j] = []byte(e)
		}
		bs[i] = TL(TNu(bk.S), TNu(bk.L), TListB(es), TBs([]byte(bk.K)))
	}
	return TL(TNu(d.S), TNu(d.BS), TNu(d.FPL), TNu(d.L), TNu(d.R), TL(bs...), TBs([]byte(d.K)), TBs([]byte(d.MK)))
}
