package main

func init() {
	machineByID[1] = func() Machine { return &withCodec{genericMachine: &cmsMem{}} }

	machineByID[3] = func() Machine { return &withCodec{genericMachine: &bloomMem{}} }
	machineByID[5] = func() Machine { return &withCodec{genericMachine: &hllMem{}} }

	machineByID[7] = func() Machine { return &withCodec{genericMachine: &cuckooMem{}} }
	ckNontrivial := func(r *RunResult) bool {
		for i, op := range r.Ops {
			if op.L[0].I() == ckInsert && r.Obs[i].Kind == 2 && len(r.Obs[i].L) == 2 && r.Obs[i].L[1].U() != 0 {
				return true
			}
		}
		return false
	}
	for _, p := range []string{"C02", "C13", "C14"} {
		registry[p] = []Suite{
			{Name: "cuckoo-mem", NewMachine: func() Machine { return &withCodec{genericMachine: &cuckooMem{}} }, Gen: genCuckoo(p),
				Monitors: []Monitor{monitorCuckoo("mem", p)}, OpName: cuckooOpName,
				Nontrivial: ckNontrivial, Rule: "history in which at least one insert entered the eviction branch (both candidate buckets full); distinct by SHA-1",
				Quick: 150, Thorough: 4000},
		}
	}
	machineByID[8] = func() Machine { return &cuckooRedis{} }
	for _, p := range []string{"C02", "C13", "C14"} {
		registry[p] = append(registry[p], Suite{Name: "cuckoo-redis", NewMachine: func() Machine { return &cuckooRedis{} }, Gen: genCuckoo(p),
			Monitors: []Monitor{monitorCuckoo("redis", p)}, OpName: cuckooOpName, Nontrivial: ckNontrivial,
			Rule: "as cuckoo-mem, against the Redis-backed filter on miniredis", Quick: 60, Thorough: 1500})
	}
	registry["C02"] = append(registry["C02"], Suite{Name: "murmur", NewMachine: func() Machine { return &withCodec{genericMachine: &cuckooMem{}} }, Gen: genMurmur,
		OpName: cuckooOpName, Rule: "murmur3 model vs getHash on random strings of every length 0..48", Quick: 20, Thorough: 400})

	machineByID[9] = func() Machine { return &withCodec{genericMachine: &topkMem{}} }
	registry["C04"] = []Suite{
		{Name: "topk-mem", NewMachine: func() Machine { return &withCodec{genericMachine: &topkMem{}} }, Gen: genC04,
			Monitors: []Monitor{monitorTopK("mem")}, OpName: topkOpName,
			Nontrivial: func(r *RunResult) bool { return countOps(r, tkInsert) >= 4 },
			Rule:       ">=4 inserts (repeated keys, ties, narrow sketches) with Values() observed in between; distinct by SHA-1",
			Quick:      300, Thorough: 5000},
	}

	for _, sg := range structGens {
		sg := sg
		for _, p := range []string{"C10", "C11", "C18"} {
			registry[p] = append(registry[p], Suite{Name: sg.name, NewMachine: sg.mk, Gen: genPersist(sg, p),
				Monitors: []Monitor{monitorPersist(sg, p)}, OpName: sg.opName,
				Rule:  "reachable state built by a random history (incl. removals / partially filled heaps), then the persistence scenario; distinct by SHA-1",
				Quick: 40, Thorough: 1500})
		}
		registry["C17"] = append(registry["C17"], Suite{Name: sg.name, NewMachine: sg.mk, Gen: genC17(sg),
			Monitors: []Monitor{monitorPersist(sg, "C17")}, OpName: sg.opName,
			Rule:  "twin or unrelated pairs, Equals both ways, paired queries, single extra operations; distinct by SHA-1",
			Quick: 60, Thorough: 2000})
	}

	machineByID[13] = func() Machine { return &jsonText{} }
	registry["C18"] = append(registry["C18"], Suite{Name: "json-text", NewMachine: func() Machine { return &jsonText{} }, Gen: genJSONText,
		Monitors: []Monitor{monitorJSONText}, OpName: jsonOpName,
		Rule:  "the Export bytes of a structure of each of the ten kinds after a short history: (1) the model's print of the parsed token tree must be the bytes and the tree a well-formed object; (2) the prefixes encoding/json accepts must be those the model's scanner calls complete",
		Quick: 80, Thorough: 1500})

	machineByID[14] = func() Machine { return &bigImage{} }
	registry["C18"] = append(registry["C18"], Suite{Name: "large-images", NewMachine: func() Machine { return &bigImage{} }, Gen: genBigImage,
		Monitors: []Monitor{monitorBigImage}, OpName: bigOpName, NoModel: true,
		Rule:  "binary images of LARGE structures of the five in-memory kinds (2^16-2^17 registers, rows of 9,000-29,000 cells, about a million bits, thousands of buckets, a wide Top-K sketch) cut at some 400 sampled places each; every cut must be rejected (no model: monitor only)",
		Quick: 5, Thorough: 60})

	for _, sg := range structGensRedis {
		sg := sg
		registry["C10"] = append(registry["C10"], Suite{Name: sg.name, NewMachine: sg.mk, Gen: genPersist(sg, "C10"),
			Monitors: []Monitor{monitorPersist(sg, "C10")}, OpName: sg.opName,
			Rule: "reachable Redis-backed state, export, import under new keys into a dirty target, Equals, paired queries, further common updates", Quick: 40, Thorough: 1000})
		registry["C09"] = append(registry["C09"], Suite{Name: sg.name, NewMachine: sg.mk, Gen: genC09(sg), OMonitors: []OMonitor{ownUpdateMonitor(sg)},
			Monitors: []Monitor{monitorPersist(sg, "C09")}, OpName: sg.opName,
			Rule: "history through the creating handle, re-attachment by metadata key at a random point (also after an import under new keys), operations through either handle, paired queries after each", Quick: 60, Thorough: 1500})
		registry["C17"] = append(registry["C17"], Suite{Name: sg.name, NewMachine: sg.mk, Gen: genC17(sg),
			Monitors: []Monitor{monitorPersist(sg, "C17")}, OpName: sg.opName,
			Rule: "twin or unrelated Redis-backed pairs, Equals both ways, paired queries", Quick: 40, Thorough: 1000})
	}

	registry["C01"] = []Suite{
		{Name: "bloom-mem", NewMachine: func() Machine { return &withCodec{genericMachine: &bloomMem{}} }, Gen: genC01,
			Monitors: []Monitor{monitorBloom("mem")}, OpName: bloomOpName,
			Nontrivial: func(r *RunResult) bool { return countOps(r, blInsert) >= 2 },
			Rule:       "history with >=2 inserts followed by lookups of inserted and fresh elements; distinct by SHA-1 of the case",
			Quick:      300, Thorough: 5000},
	}
	machineByID[4] = func() Machine { return &bloomRedis{} }
	registry["C01"] = append(registry["C01"], Suite{Name: "bloom-redis", NewMachine: func() Machine { return &bloomRedis{} }, Gen: genC01,
		Monitors: []Monitor{monitorBloom("redis")}, OpName: bloomOpName,
		Nontrivial: func(r *RunResult) bool { return countOps(r, blInsert) >= 2 },
		Rule:       "as bloom-mem, against the Redis-backed filter on miniredis", Quick: 150, Thorough: 2500})
	machineByID[10] = func() Machine { return &topkRedis{} }
	registry["C04"] = append(registry["C04"], Suite{Name: "topk-redis", NewMachine: func() Machine { return &topkRedis{} }, Gen: genC04,
		Monitors: []Monitor{monitorTopK("redis")}, OpName: topkOpName,
		Nontrivial: func(r *RunResult) bool { return countOps(r, tkInsert) >= 4 },
		Rule:       "as topk-mem, against the Redis-backed Top-K on miniredis", Quick: 120, Thorough: 2500})
	mkPair := func(a, b func() Machine) func() Machine {
		return func() Machine { return &pairMachine{a: a(), b: b()} }
	}
	registry["C08"] = []Suite{
		{Name: "pair-bloom", NewMachine: mkPair(func() Machine { return &bloomMem{} }, func() Machine { return &bloomRedis{} }), Gen: genC01,
			Monitors: []Monitor{monitorPair("bloom", bloomOpName)}, OpName: bloomOpName, NoModel: true,
			Rule: "the same history on the in-memory and the Redis-backed Bloom filter, answers compared step by step", Quick: 80, Thorough: 1500},
		{Name: "pair-cms", NewMachine: mkPair(func() Machine { return &cmsMem{} }, func() Machine { return &cmsRedis{} }), Gen: wide(genC12),
			Monitors: []Monitor{monitorPair("cms", cmsOpName)}, OpName: cmsOpName, NoModel: true,
			Rule: "the same history (updates, merges, queries) on both Count-Min variants", Quick: 80, Thorough: 1500},
		{Name: "pair-hll", NewMachine: mkPair(func() Machine { return &hllMem{} }, func() Machine { return &hllRedis{} }), Gen: genC06,
			Monitors: []Monitor{monitorPair("hll", hllOpName), monitorPairHLLCount}, OpName: hllOpName, NoModel: true,
			Rule: "the same history (updates, merges, counts) on both HyperLogLog variants", Quick: 60, Thorough: 1000},
		{Name: "pair-hll-count", NewMachine: mkPair(func() Machine { return &hllMem{} }, func() Machine { return &hllRedis{} }), Gen: genC05,
			Monitors: []Monitor{monitorPair("hll", hllOpName)}, OpName: hllOpName, NoModel: true,
			Rule: "n distinct updates, Count under all flag combinations on both HyperLogLog variants", Quick: 60, Thorough: 1000},
		{Name: "pair-cuckoo", NewMachine: mkPair(func() Machine { return &cuckooMem{} }, func() Machine { return &cuckooRedis{} }), Gen: genCuckoo("C02"),
			Monitors: []Monitor{monitorPair("cuckoo", cuckooOpName)}, OpName: cuckooOpName, NoModel: true,
			Rule: "the same history with the same random draws on both cuckoo variants, compared until the first relocation", Quick: 40, Thorough: 800},
		{Name: "pair-topk", NewMachine: mkPair(func() Machine { return &topkMem{} }, func() Machine { return &topkRedis{} }), Gen: genC04,
			Monitors: []Monitor{monitorPair("topk", topkOpName)}, OpName: topkOpName, NoModel: true,
			Rule: "the same history on both Top-K variants, Values() compared up to ties at the smallest reported count", Quick: 60, Thorough: 1200},
	}
	machineByID[11] = func() Machine { return &sizingMachine{} }
	registry["C15"] = []Suite{
		{Name: "formulas", NewMachine: func() Machine { return &sizingMachine{} }, Gen: genC15formula,
			Monitors: []Monitor{monitorSizing}, OpName: sizingOpName,
			Rule: "sizing formulas on random (n,p), (size,b,err), (eps,delta) against 200-bit reference values; probe / row / rank formulas against the Coq definitions on random elements", Quick: 25, Thorough: 600},
		{Name: "rates", NewMachine: func() Machine { return &sizingMachine{} }, Gen: genC15stat,
			Monitors: []Monitor{monitorSizing}, OpName: sizingOpName, NoModel: true,
			Rule: "statistical acceptance test (not a proof): empirical false-positive / over-estimate frequencies against 1.5x budget + 5 sigma", Quick: 6, Thorough: 150},
	}
	machineByID[12] = newSchedMachine
	for kind, nm := range map[int]string{1: "sched-bloom", 2: "sched-cms", 3: "sched-hll", 4: "sched-cuckoo", 5: "sched-topk"} {
		registry["C16"] = append(registry["C16"], Suite{Name: nm, NewMachine: newSchedMachine, Gen: genC16(kind),
			OMonitors: []OMonitor{monitorSched(kind)}, OpName: schedOpName,
			Nontrivial: func(r *RunResult) bool {
				for _, op := range r.Ops {
					if op.L[0].I() == 2 && len(op.L[3].L) >= 4 {
						return true
					}
				}
				return false
			},
			Rule: "two clients issue one update each against the same Redis-backed structure under a random schedule of >=4 turns at Redis-command granularity (go-redis hook); results and final state diffed against the interleaving model", Quick: 240, Thorough: 2500})
	}
	registry["C19"] = []Suite{
		{Name: "shared-db", NewMachine: newMultiMachine, Gen: genC19, OMonitors: []OMonitor{monitorC19},
			OpName: func(op Tok) string {
				names := []string{"bloom", "cms", "hll", "cuckoo", "topk"}
				return names[op.L[0].I()]
			},
			Rule: "2-8 live Redis-backed structures of mixed kinds in one database, interleaved histories incl. re-attachment and import under new keys; each structure's answers diffed against its model run alone", Quick: 60, Thorough: 1500},
	}
	registry["C05"] = []Suite{
		{Name: "hll-mem", NewMachine: func() Machine { return &withCodec{genericMachine: &hllMem{}} }, Gen: bigRegs(genC05),
			Monitors: []Monitor{monitorHLL("mem", "C05")}, OpName: hllOpName,
			Nontrivial: func(r *RunResult) bool { return countOps(r, hlUpdate) >= 1 },
			Rule:       ">=1 update then counts under all four flag combinations; distinct by SHA-1",
			Quick:      250, Thorough: 3000},
	}
	registry["C06"] = []Suite{
		{Name: "hll-mem", NewMachine: func() Machine { return &withCodec{genericMachine: &hllMem{}} }, Gen: genC06,
			Monitors: []Monitor{monitorHLL("mem", "C06")}, OpName: hllOpName,
			Nontrivial: func(r *RunResult) bool { return countOps(r, hlMerge) >= 1 },
			Rule:       "permuted+duplicated twin sequences and a split stream merged; distinct by SHA-1",
			Quick:      250, Thorough: 3000},
	}
	machineByID[6] = func() Machine { return &hllRedis{} }
	registry["C05"] = append(registry["C05"], Suite{Name: "hll-redis", NewMachine: func() Machine { return &hllRedis{} }, Gen: genC05,
		Monitors: []Monitor{monitorHLL("redis", "C05")}, OpName: hllOpName,
		Nontrivial: func(r *RunResult) bool { return countOps(r, hlUpdate) >= 1 },
		Rule:       "as hll-mem, against the Redis-backed sketch on miniredis", Quick: 100, Thorough: 1500})
	registry["C06"] = append(registry["C06"], Suite{Name: "hll-redis", NewMachine: func() Machine { return &hllRedis{} }, Gen: genC06,
		Monitors: []Monitor{monitorHLL("redis", "C06")}, OpName: hllOpName,
		Nontrivial: func(r *RunResult) bool { return countOps(r, hlMerge) >= 1 },
		Rule:       "as hll-mem, against the Redis-backed sketch on miniredis", Quick: 100, Thorough: 1500})
	registry["C03"] = []Suite{
		{Name: "cms-mem", NewMachine: func() Machine { return &withCodec{genericMachine: &cmsMem{}} }, Gen: genC03,
			Monitors: []Monitor{monitorCMS("mem", "C03")}, OpName: cmsOpName,
			Nontrivial: cmsNontrivial, Rule: "history with >=2 distinct updated elements sharing at least one cell (collision) or a single-element history; distinct by SHA-1 of the case",
			Quick: 300, Thorough: 6000},
	}
	machineByID[2] = func() Machine { return &cmsRedis{} }
	registry["C03"] = append(registry["C03"], Suite{Name: "cms-redis", NewMachine: func() Machine { return &cmsRedis{} }, Gen: wide(genC03),
		Monitors: []Monitor{monitorCMS("redis", "C03")}, OpName: cmsOpName, Nontrivial: cmsNontrivial,
		Rule: "as cms-mem, against the Redis-backed sketch on miniredis", Quick: 150, Thorough: 3000})
	registry["C12"] = []Suite{
		{Name: "cms-mem", NewMachine: func() Machine { return &withCodec{genericMachine: &cmsMem{}} }, Gen: genC12,
			Monitors: []Monitor{monitorCMS("mem", "C12")}, OpName: cmsOpName,
			Nontrivial: func(r *RunResult) bool {
				for i, op := range r.Ops {
					if op.L[0].I() == cmsMerge && isOk(r.Obs[i]) {
						return true
					}
				}
				return false
			}, Rule: "case contains at least one successful merge; distinct by SHA-1 of the case",
			Quick: 300, Thorough: 6000},
		{Name: "cms-redis", NewMachine: func() Machine { return &cmsRedis{} }, Gen: wide(genC12),
			Monitors: []Monitor{monitorCMS("redis", "C12")}, OpName: cmsOpName,
			Rule: "as cms-mem, against the Redis-backed sketch on miniredis", Quick: 150, Thorough: 3000},
	}
}

// cmsNontrivial: at least two distinct updated elements (collisions are the norm on the narrow
// sketches generated) or exactly one (exactness clause).
func cmsNontrivial(r *RunResult) bool {
	seen := map[string]bool{}
	for _, op := range r.Ops {
		if op.L[0].I() == cmsUpdate {
			seen[string(op.L[2].B)] = true
		}
	}
	return len(seen) >= 1
}

func countOps(r *RunResult, kind int) int {
	n := 0
	for _, op := range r.Ops {
		if op.L[0].I() == kind {
			n++
		}
	}
	return n
}
