package main

func init() {
	machineByID[1] = func() Machine { return &cmsMem{} }

	registry["C03"] = []Suite{
		{Name: "cms-mem", NewMachine: func() Machine { return &cmsMem{} }, Gen: genC03,
			Monitors: []Monitor{monitorCMS("mem", "C03")}, OpName: cmsOpName,
			Nontrivial: cmsNontrivial, Rule: "history with >=2 distinct updated elements sharing at least one cell (collision) or a single-element history; distinct by SHA-1 of the case",
			Quick: 300, Thorough: 6000},
	}
	registry["C12"] = []Suite{
		{Name: "cms-mem", NewMachine: func() Machine { return &cmsMem{} }, Gen: genC12,
			Monitors: []Monitor{monitorCMS("mem", "C12")}, OpName: cmsOpName,
			Nontrivial: func(r *RunResult) bool {
				for i, op := range r.Ops {
					if op.L[0].I() == cmsMerge && isOk(r.Obs[i]) {
						return true
					}
				}
				return false
			}, Rule: "case contains at least one successful merge; distinct by SHA-1 of the case",
			Quick: 300, Thorough: 6000},
	}
}

// cmsNontrivial: at least two distinct updated elements (collisions are the norm on the narrow
// sketches generated) or exactly one (exactness clause).
func cmsNontrivial(r *RunResult) bool {
	seen := map[string]bool{}
	for _, op := range r.Ops {
		if op.L[0].I() == cmsUpdate {
			seen[string(op.L[2].B)] = true
		}
	}
	return len(seen) >= 1
}
