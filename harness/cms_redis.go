package main

import (
	"encoding/json"
	"fmt"

	gx "github.com/kwertop/gostatix"
)

// Redis-backed Count-Min machine (2). Same op codes as the memory machine, plus
// (8 i j) attach: NewCountMinSketchRedisFromKey(metadata key of j) into slot i.
const opAttach = 8

type cmsRedis struct {
	inst map[int]*gx.CountMinSketchRedis
	orc  *oracleTab
	rec  recorder
}

func (m *cmsRedis) ID() int { return 2 }
func (m *cmsRedis) Reset() {
	redisReset()
	m.inst = map[int]*gx.CountMinSketchRedis{}
	m.orc = newOracleTab()
	m.rec.reset()
}
func (m *cmsRedis) Close()      {}
func (m *cmsRedis) Oracle() Tok { return m.orc.tok() }

func (m *cmsRedis) addOracle(s *gx.CountMinSketchRedis, x []byte) {
	rows, cols, _, _, _ := gx.VerifCMSRedisState(s)
	key := fmt.Sprintf("%d/%d/%x", rows, cols, x)
	if m.orc.has(key) {
		return
	}
	pos := gx.VerifCMSRedisPositions(s, x)
	p := make([]uint64, len(pos))
	for i, v := range pos {
		p[i] = uint64(v)
	}
	m.orc.add(key, []uint64{uint64(rows), uint64(cols)}, x, p)
}

func (m *cmsRedis) Exec(op Tok) (opOut Tok, obs Tok) {
	step := m.rec.step
	m.rec.step++
	opOut = op
	defer func() {
		if r := recover(); r != nil {
			obs = TPanic(classifyPanic(r))
		}
	}()
	a := op.L
	inv := TL(TNu(9))
	switch a[0].I() {
	case cmsNew:
		before := redisKeys()
		s, err := gx.NewCountMinSketchRedis(uint(a[2].U()), uint(a[3].U()))
		if err != nil {
			opOut = TL(a[0], a[1], a[2], a[3], TBs(nil), TBs(nil))
			return opOut, TErr(errGeneric)
		}
		_, _, _, key, meta := gx.VerifCMSRedisState(s)
		opOut = TL(a[0], a[1], a[2], a[3], TBs([]byte(key)), TBs([]byte(meta)))
		m.inst[a[1].I()] = s
		if t, bad := staleKey(before, key, meta); bad {
			return opOut, t
		}
		return opOut, TOk(TUnit())
	case cmsUpdate:
		s := m.inst[a[1].I()]
		opOut = TL(a[0], a[1], a[2], a[3])
		if s == nil {
			return opOut, inv
		}
		m.addOracle(s, a[2].B)
		var err error
		switch a[4].I() {
		case 1:
			s.UpdateOnce(el(a[2].B))
		case 2:
			err = s.UpdateString(string(a[2].B), a[3].U())
		default:
			err = s.Update(el(a[2].B), a[3].U())
		}
		if err != nil {
			return opOut, TErr(errGeneric)
		}
		return opOut, TUnit()
	case cmsCount:
		s := m.inst[a[1].I()]
		opOut = TL(a[0], a[1], a[2])
		if s == nil {
			return opOut, inv
		}
		m.addOracle(s, a[2].B)
		var c uint64
		var err error
		if a[3].I() == 2 {
			c, err = s.CountString(string(a[2].B))
		} else {
			c, err = s.Count(el(a[2].B))
		}
		if err != nil {
			return opOut, TErr(errGeneric)
		}
		return opOut, TNu(c)
	case cmsMerge:
		x, y := m.inst[a[1].I()], m.inst[a[2].I()]
		if x == nil || y == nil {
			return opOut, inv
		}
		if err := x.Merge(y); err != nil {
			rx, cx, _, _, _ := gx.VerifCMSRedisState(x)
			ry, cy, _, _, _ := gx.VerifCMSRedisState(y)
			if rx != ry || cx != cy {
				return opOut, TErr(errMismatch)
			}
			return opOut, TErr(errGeneric)
		}
		return opOut, TOk(TUnit())
	case opAttach:
		src := m.inst[a[2].I()]
		if src == nil {
			return TL(a[0], a[1]), inv
		}
		opOut = TL(a[0], a[1], TBs([]byte(src.MetadataKey())))
		s, err := gx.NewCountMinSketchRedisFromKey(src.MetadataKey())
		if err != nil {
			return opOut, TErr(errGeneric)
		}
		m.inst[a[1].I()] = s
		return opOut, TOk(TUnit())
	case opEquals:
		x, y := m.inst[a[1].I()], m.inst[a[2].I()]
		if x == nil || y == nil {
			return opOut, inv
		}
		ok, _ := x.Equals(y)
		return opOut, TOk(TBool(ok))
	case opExport:
		s := m.inst[a[1].I()]
		if s == nil {
			return opOut, inv
		}
		opOut = TL(a[0], a[1])
		b, err := s.Export()
		if err != nil {
			return opOut, TErr(errGeneric)
		}
		m.rec.exports[labelOf(a, step)] = b
		return opOut, TOk(cmsRedisDocTok(b))
	case opImport:
		s := m.inst[a[1].I()]
		src, ok := m.rec.exports[a[2].I()]
		if s == nil || !ok {
			return TL(a[0], a[1]), inv
		}
		withNew := a[3].U() != 0
		before := redisKeys()
		err := s.Import(src, withNew)
		_, _, _, key, _ := gx.VerifCMSRedisState(s)
		opOut = TL(a[0], a[1], cmsRedisDocTok(src), TBs([]byte(key)))
		if err != nil {
			return opOut, TErr(errGeneric)
		}
		if t, bad := staleKey(before, key); withNew && bad {
			return opOut, t
		}
		return opOut, TOk(TUnit())
	}
	return opOut, inv
}

func cmsRedisDocTok(b []byte) Tok {
	var d cmsDoc
	if json.Unmarshal(b, &d) != nil {
		return TL(TNu(8))
	}
	return cmsDocTok(d)
}
