package main

import (
	"fmt"
	"sort"
	"strings"

	gx "github.com/kwertop/gostatix"
)

// ---------- CMS op encoding (shared by the memory and Redis machines) ----------
// (0 i rows cols)   New
// (1 i x c v)       Update; v: 0 Update, 1 UpdateOnce (c must be 1), 2 UpdateString
// (2 i x v)         Count;  v: 0 Count, 2 CountString
// (3 i j)           Merge i <- j
// (4 i j)           Equals
const (
	cmsNew = iota
	cmsUpdate
	cmsCount
	cmsMerge
	cmsEquals
)

func cmsOpName(op Tok) string {
	if op.Kind != 2 || len(op.L) == 0 {
		return "?"
	}
	names := []string{"New", "Update", "Count", "Merge", "Equals", "Export", "Import", "WriteTo", "ReadFrom"}
	k := op.L[0].I()
	if k < len(names) {
		return names[k]
	}
	return fmt.Sprint(k)
}

const (
	errGeneric  = 1
	errMismatch = 2
	panIndex    = 1
	panFull     = 2
	panDivZero  = 3
	panNil      = 4
	panOther    = 5
)

func classifyPanic(r interface{}) int {
	s := fmt.Sprint(r)
	switch {
	case contains(s, "index out of range"), contains(s, "slice bounds out of range"):
		return panIndex
	case contains(s, "cuckoofilter is full"):
		return panFull
	case contains(s, "divide by zero"):
		return panDivZero
	case contains(s, "nil pointer"), contains(s, "invalid memory address"), contains(s, "called using nil"):
		return panNil
	}
	return panOther
}

func contains(s, sub string) bool {
	return len(sub) <= len(s) && (func() bool {
		for i := 0; i+len(sub) <= len(s); i++ {
			if s[i:i+len(sub)] == sub {
				return true
			}
		}
		return false
	})()
}

// ---------- in-memory machine ----------
type cmsMem struct {
	inst   map[int]*gx.CountMinSketch
	oracle map[string]Tok
	okeys  []string
}

func (m *cmsMem) ID() int { return 1 }
func (m *cmsMem) Reset() {
	m.inst = map[int]*gx.CountMinSketch{}
	m.oracle = map[string]Tok{}
	m.okeys = nil
}
func (m *cmsMem) Close() {}
func (m *cmsMem) Oracle() Tok {
	out := make([]Tok, 0, len(m.okeys))
	for _, k := range m.okeys {
		out = append(out, m.oracle[k])
	}
	return TL(out...)
}
func (m *cmsMem) addOracle(s *gx.CountMinSketch, x []byte) {
	k := fmt.Sprintf("%d/%d/%x", s.GetRows(), s.GetColumns(), x)
	if _, ok := m.oracle[k]; ok {
		return
	}
	pos := gx.VerifCMSPositions(s, x)
	p := make([]uint64, len(pos))
	for i, v := range pos {
		p[i] = uint64(v)
	}
	m.oracle[k] = TL(TL(TNu(uint64(s.GetRows())), TNu(uint64(s.GetColumns()))), TBs(x), TListU(p))
	m.okeys = append(m.okeys, k)
}

func (m *cmsMem) Exec(op Tok) (opOut Tok, obs Tok) {
	opOut = op
	defer func() {
		if r := recover(); r != nil {
			obs = TPanic(classifyPanic(r))
		}
	}()
	a := op.L
	switch a[0].I() {
	case cmsNew:
		s, err := gx.NewCountMinSketch(uint(a[2].U()), uint(a[3].U()))
		if err != nil {
			return opOut, TErr(errGeneric)
		}
		m.inst[a[1].I()] = s
		return opOut, TOk(TUnit())
	case cmsUpdate:
		s := m.inst[a[1].I()]
		opOut = TL(a[0], a[1], a[2], a[3])
		if s == nil {
			return opOut, TL(TNu(9))
		}
		m.addOracle(s, a[2].B)
		switch a[4].I() {
		case 1:
			s.UpdateOnce(el(a[2].B))
		case 2:
			s.UpdateString(string(a[2].B), a[3].U())
		default:
			s.Update(el(a[2].B), a[3].U())
		}
		return opOut, TUnit()
	case cmsCount:
		s := m.inst[a[1].I()]
		opOut = TL(a[0], a[1], a[2])
		if s == nil {
			return opOut, TL(TNu(9))
		}
		m.addOracle(s, a[2].B)
		if a[3].I() == 2 {
			return opOut, TNu(s.CountString(string(a[2].B)))
		}
		return opOut, TNu(s.Count(el(a[2].B)))
	case cmsMerge:
		x, y := m.inst[a[1].I()], m.inst[a[2].I()]
		if x == nil || y == nil {
			return opOut, TL(TNu(9))
		}
		if err := x.Merge(y); err != nil {
			return opOut, TErr(errMismatch)
		}
		return opOut, TOk(TUnit())
	}
	return opOut, TL(TNu(9))
}

// ---------- generators ----------

type cmsCfg struct {
	rows, cols int
}

func (g *Gen) cmsDims() cmsCfg {
	rows := g.Pick(1, 1, 2, 3, 4, 5, 7)
	cols := g.Pick(1, 1, 2, 3, 5, 8, 16, 64, 257, 1000)
	if g.Small {
		cols = g.Pick(1, 2, 3, 5, 8)
	} else if g.Wide && g.Rare(0.04, 40, 7) {
		// rarely: rows wider than 4096 cells (chunked Lua pushes, unpack limits; miniredis allows ~5100)
		rows = 1
		cols = 4090 + g.Intn(600)
	}
	return cmsCfg{rows, cols}
}

func (g *Gen) cmsCount() uint64 {
	switch g.Intn(5) {
	case 0:
		return 1
	case 1:
		return uint64(1 + g.Intn(10))
	case 2:
		return uint64(1 + g.Intn(1<<20))
	case 3:
		return uint64(1) << uint(g.Intn(41))
	default:
		return uint64(1 + g.R.Int63n(1<<40))
	}
}

func cmsUpdateOp(g *Gen, i int, x []byte, c uint64) Tok {
	v := 0
	switch g.Intn(6) {
	case 0:
		v = 2
	case 1:
		if c == 1 {
			v = 1
		}
	}
	return TL(TNi(cmsUpdate), TNi(i), TBs(x), TNu(c), TNi(v))
}
func cmsCountOp(g *Gen, i int, x []byte) Tok {
	v := 0
	if g.Chance(0.2) {
		v = 2
	}
	return TL(TNi(cmsCount), TNi(i), TBs(x), TNi(v))
}

// C03: one sketch, updates and queries (queried: updated and fresh elements).
func genC03(g *Gen, tier string) *Case {
	d := g.cmsDims()
	n := 4 + g.Intn(40)
	if tier == "thorough" {
		n = 4 + g.Intn(200)
	}
	pool := g.ElementPool(2+g.Intn(12), true)
	if g.Chance(0.15) {
		pool = pool[:1] // single distinct element: exactness clause
	}
	fresh := g.ElementPool(3, true)
	ops := []Tok{TL(TNi(cmsNew), TNi(0), TNi(d.rows), TNi(d.cols))}
	if g.Chance(0.1) {
		ops = append(ops, cmsCountOp(g, 0, pool[0])) // empty sketch
	}
	for k := 0; k < n; k++ {
		x := pool[g.Intn(len(pool))]
		if g.Chance(0.6) {
			ops = append(ops, cmsUpdateOp(g, 0, x, g.cmsCount()))
		} else if g.Chance(0.8) {
			ops = append(ops, cmsCountOp(g, 0, x))
		} else {
			ops = append(ops, cmsCountOp(g, 0, fresh[g.Intn(len(fresh))]))
		}
	}
	for _, x := range pool {
		ops = append(ops, cmsCountOp(g, 0, x))
	}
	if g.Chance(0.05) { // constructor rejection
		ops = append(ops, TL(TNi(cmsNew), TNi(1), TNi(g.Pick(0, 1)), TNi(0)))
	}
	return &Case{Ops: ops}
}

// C12: 2-3 sketches (mostly equal dims), updates, merges in varying order, queries on all.
func genC12(g *Gen, tier string) *Case {
	d := g.cmsDims()
	k := 2 + g.Intn(2)
	var ops []Tok
	dims := make([]cmsCfg, k)
	for i := 0; i < k; i++ {
		dims[i] = d
		if g.Chance(0.16) {
			switch g.Pick(0, 1, 2, 2) {
			case 0:
				dims[i].rows = d.rows + 1
			case 1:
				dims[i].cols = d.cols + 1 + g.Intn(3)
			default: // another shape of the same area (2x6 against 3x4, 1x8 against 2x4)
				if d.cols%2 == 0 && g.Chance(0.5) {
					dims[i].rows, dims[i].cols = d.rows*2, d.cols/2
				} else if d.rows%2 == 0 {
					dims[i].rows, dims[i].cols = d.rows/2, d.cols*2
				} else {
					dims[i].rows = d.rows + 1
				}
			}
		}
		ops = append(ops, TL(TNi(cmsNew), TNi(i), TNi(dims[i].rows), TNi(dims[i].cols)))
	}
	// reference instance k: receives every update (the single sketch fed the combined stream)
	ref := k
	ops = append(ops, TL(TNi(cmsNew), TNi(ref), TNi(d.rows), TNi(d.cols)))
	pool := g.ElementPool(2+g.Intn(10), true)
	n := 6 + g.Intn(40)
	if tier == "thorough" {
		n = 6 + g.Intn(150)
	}
	if !g.Wide && g.Rare(0.04, 50, 13) && dims[0] == d && dims[1] == d {
		// in-memory sketches only: merges that feed each other grow the cells like Fibonacci numbers,
		// past 2^64 within some twenty rounds; cells wrap there, under Merge exactly as under Update
		x := pool[g.Intn(len(pool))]
		ops = append(ops, cmsUpdateOp(g, 0, x, g.cmsCount()), cmsUpdateOp(g, 1, x, uint64(1)<<40))
		for t := 0; t < 16+g.Intn(8); t++ {
			ops = append(ops, TL(TNi(cmsMerge), TNi(0), TNi(1)), TL(TNi(cmsMerge), TNi(1), TNi(0)))
			if t >= 12 {
				ops = append(ops, cmsCountOp(g, 0, x), cmsCountOp(g, 1, x))
			}
		}
		return &Case{Ops: ops}
	}
	if g.Chance(0.5) {
		// structured scenario: disjoint streams, then merge everything into 0 in random order
		// (in a quarter of the cases the receiver is still empty when the merges start)
		emptyRecv := g.Chance(0.25)
		for j := 0; j < n; j++ {
			i := g.Intn(k)
			if emptyRecv {
				i = 1 + g.Intn(k-1)
			}
			x := pool[g.Intn(len(pool))]
			c := g.cmsCount()
			ops = append(ops, cmsUpdateOp(g, i, x, c))
			if dims[i] == d {
				ops = append(ops, cmsUpdateOp(g, ref, x, c))
			}
		}
		order := g.R.Perm(k - 1)
		for _, o := range order {
			ops = append(ops, TL(TNi(cmsMerge), TNi(0), TNi(o+1)))
			if dims[o+1] != dims[0] { // a rejected merge is rejected in both directions and changes neither
				// (also not what Export shows: derived fields such as the running total)
				ops = append(ops, TL(TNi(opExport), TNi(o+1), TNi(5000+2*o)), TL(TNi(cmsMerge), TNi(o+1), TNi(0)),
					TL(TNi(opExport), TNi(o+1), TNi(5001+2*o)))
				for _, x := range pool[:1+len(pool)/2] {
					ops = append(ops, cmsCountOp(g, o+1, x))
				}
			}
		}
		for _, x := range pool {
			ops = append(ops, cmsCountOp(g, 0, x), cmsCountOp(g, ref, x))
		}
		// further updates on both
		for j := 0; j < 5; j++ {
			x := pool[g.Intn(len(pool))]
			c := g.cmsCount()
			ops = append(ops, cmsUpdateOp(g, 0, x, c), cmsUpdateOp(g, ref, x, c))
		}
		for _, x := range pool {
			ops = append(ops, cmsCountOp(g, 0, x), cmsCountOp(g, ref, x))
		}
		for i := 1; i < k; i++ { // arguments unchanged
			for _, x := range pool[:1+len(pool)/2] {
				ops = append(ops, cmsCountOp(g, i, x))
			}
		}
		return &Case{Ops: ops}
	}
	for j := 0; j < n; j++ {
		i := g.Intn(k)
		x := pool[g.Intn(len(pool))]
		r := g.R.Float64()
		switch {
		case r < 0.55:
			ops = append(ops, cmsUpdateOp(g, i, x, g.cmsCount()))
		case r < 0.7:
			j2 := g.Intn(k)
			ops = append(ops, TL(TNi(cmsMerge), TNi(i), TNi(j2)))
			// query both after the merge
			ops = append(ops, cmsCountOp(g, i, x), cmsCountOp(g, j2, x))
		default:
			ops = append(ops, cmsCountOp(g, i, x))
		}
	}
	for i := 0; i < k; i++ {
		for _, x := range pool {
			ops = append(ops, cmsCountOp(g, i, x))
		}
	}
	return &Case{Ops: ops}
}

// ---------- monitors (executable form of the property text; no model involved) ----------

type cmsShadow struct {
	rows, cols uint64
	counts     map[string]uint64 // per-element true totals (merged streams included)
	total      uint64
}

func (s *cmsShadow) fingerprint() string {
	ks := make([]string, 0, len(s.counts))
	for k := range s.counts {
		ks = append(ks, k)
	}
	sort.Strings(ks)
	var sb strings.Builder
	for _, k := range ks {
		fmt.Fprintf(&sb, "%x=%d;", k, s.counts[k])
	}
	return sb.String()
}

// monitorCMS checks C03 (bounds, exactness, empty) and C12 (merge = combined stream via the
// shadow totals; mismatch => error and nothing changes) on the implementation's own outputs.
func monitorCMS(backend string, prop string) Monitor {
	return func(ops, obs []Tok) []MonViolation {
		var out []MonViolation
		sh := map[int]*cmsShadow{}
		// sketches that received the same combined stream must answer alike:
		// (dims, stream fingerprint, element) -> last observed Count
		seenCount := map[string]uint64{}
		for step, op := range ops {
			a := op.L
			o := obs[step]
			if isPanic(o) {
				out = append(out, MonViolation{backend + "/" + cmsOpName(op) + "/panic", "operation panicked", step})
				continue
			}
			switch a[0].I() {
			case cmsNew:
				if isOk(o) {
					sh[a[1].I()] = &cmsShadow{a[2].U(), a[3].U(), map[string]uint64{}, 0}
					if a[2].U() == 0 || a[3].U() == 0 {
						out = append(out, MonViolation{backend + "/New/accepts-zero", "constructor accepted zero rows/columns", step})
					}
				}
			case cmsUpdate:
				if s := sh[a[1].I()]; s != nil {
					s.counts[string(a[2].B)] += a[3].U()
					s.total += a[3].U()
				}
			case cmsCount:
				s := sh[a[1].I()]
				if s == nil || o.Kind != 0 {
					if s != nil && prop == "C03" {
						out = append(out, MonViolation{backend + "/Count/error", "Count returned an error: " + o.String(), step})
					}
					continue
				}
				got := o.U()
				tc := s.counts[string(a[2].B)]
				// the Redis variant keeps its cells as Lua numbers (IEEE doubles): once the stream total
				// reaches 2^53 sums are rounded; violations there belong to that recorded regime
				q := ""
				if backend == "redis" && s.total >= 1<<53 {
					q = "/total>=2^53"
				}
				fp := fmt.Sprintf("%d/%d/%s/%x", s.rows, s.cols, s.fingerprint(), a[2].B)
				if prev, ok := seenCount[fp]; ok && prev != got {
					out = append(out, MonViolation{backend + "/Count/differs-from-combined-stream" + q,
						fmt.Sprintf("two sketches holding the same combined stream answer %d and %d", prev, got), step})
				}
				seenCount[fp] = got
				if got < tc {
					out = append(out, MonViolation{backend + "/Count/under-count" + q,
						fmt.Sprintf("Count=%d below true count %d", got, tc), step})
				}
				if got > s.total {
					out = append(out, MonViolation{backend + "/Count/above-total" + q,
						fmt.Sprintf("Count=%d above stream total %d", got, s.total), step})
				}
				if len(s.counts) == 1 && tc > 0 && got != tc {
					out = append(out, MonViolation{backend + "/Count/single-element-inexact" + q,
						fmt.Sprintf("single distinct element: Count=%d, true %d", got, tc), step})
				}
				if s.total == 0 && got != 0 {
					out = append(out, MonViolation{backend + "/Count/empty-nonzero", "empty sketch counted non-zero", step})
				}
			case cmsMerge:
				x, y := sh[a[1].I()], sh[a[2].I()]
				if x == nil || y == nil {
					continue
				}
				same := x.rows == y.rows && x.cols == y.cols
				if same && !isOk(o) {
					out = append(out, MonViolation{backend + "/Merge/equal-dims-rejected", "merge of equal dimensions failed: " + o.String(), step})
				}
				if !same && isOk(o) {
					out = append(out, MonViolation{backend + "/Merge/mismatch-accepted", "merge of different dimensions succeeded", step})
				}
				if !same && !isOk(o) && step > 0 && step+1 < len(ops) {
					p, n := ops[step-1].L, ops[step+1].L
					if p[0].I() == opExport && n[0].I() == opExport && p[1].I() == a[1].I() && n[1].I() == a[1].I() &&
						isOk(obs[step-1]) && isOk(obs[step+1]) && obs[step-1].String() != obs[step+1].String() {
						out = append(out, MonViolation{backend + "/Merge/rejected-but-changed-receiver",
							"a merge rejected for different dimensions changed what the receiver exports", step})
					}
				}
				if isOk(o) && same && x != y {
					for k, v := range y.counts {
						x.counts[k] += v
					}
					x.total += y.total
				} else if isOk(o) && x == y {
					for k, v := range x.counts {
						x.counts[k] = 2 * v
					}
					x.total *= 2
				}
			}
		}
		return out
	}
}
