package main

import (
	"bytes"
	"io"
)

// Generic persistence ops shared by all in-memory machines (codes >= 20):
// (20 i)            WriteTo            -> obs (outcome (stream ret))
// (21 i src extra)  ReadFrom(stream recorded at step src ++ extra) into instance i
//
//	model form (21 i stream)        -> obs (outcome (ret consumed))
//
// (22 i src)        every strict prefix of that stream into a fresh target
//
//	model form (22 i stream)        -> obs (class...)  0 ok / 1 error / 2 panic
//
// (23 i j)          Equals                           -> obs outcome bool
// (24 i)            Export (JSON)                    -> obs parsed document token
// (25 i src)        Import(export recorded at step src) into instance i; model form (25 i doc)
// (26 i src)        every strict prefix of that export into a fresh target -> obs (class...)
const (
	opWriteTo   = 20
	opReadFrom  = 21
	opPrefixBin = 22
	opEquals    = 23
	opExport    = 24
	opImport    = 25
	opPrefixJS  = 26
	opMutate    = 27 // (27 i sel v): set one cell (sel 0 first / 1 middle / 2 last); model form has coordinates
)

type binCodec interface {
	WriteTo(io.Writer) (int64, error)
	ReadFrom(io.Reader) (int64, error)
}

// streams/exports recorded per step of the current case
type recorder struct {
	streams map[int][]byte
	exports map[int][]byte
	step    int
}

func (r *recorder) reset() { r.streams = map[int][]byte{}; r.exports = map[int][]byte{}; r.step = 0 }

func doWriteTo(c binCodec) (Tok, []byte) {
	var buf bytes.Buffer
	n, err := c.WriteTo(&buf)
	if err != nil {
		return TErr(errGeneric), nil
	}
	return TOk(TL(TBs(buf.Bytes()), TNu(uint64(n)))), buf.Bytes()
}

// chunkReader hands out the stream in short reads (an io.Reader may return fewer bytes than asked
// for without an error: sockets, pipes, small bufio readers do): 1, 3, 2, 7, 1, ... bytes per call.
type chunkReader struct {
	r *bytes.Reader
	k int
}

var chunkSizes = []int{1, 3, 2, 7, 1, 5}

func (c *chunkReader) Read(p []byte) (int, error) {
	n := chunkSizes[c.k%len(chunkSizes)]
	c.k++
	if n > len(p) {
		n = len(p)
	}
	return c.r.Read(p[:n])
}

// readerFor picks, from the stream itself (so that a replay picks the same), a plain reader, a
// one-byte-at-a-time reader or the chunked one.
func readerFor(rd *bytes.Reader, sel int) io.Reader {
	switch sel % 3 {
	case 1:
		return iotestOneByte{rd}
	case 2:
		return &chunkReader{r: rd}
	}
	return rd
}

type iotestOneByte struct{ r *bytes.Reader }

func (o iotestOneByte) Read(p []byte) (int, error) {
	if len(p) == 0 {
		return 0, nil
	}
	return o.r.Read(p[:1])
}

func doReadFrom(c binCodec, stream []byte) Tok {
	rd := bytes.NewReader(stream)
	n, err := c.ReadFrom(readerFor(rd, len(stream)))
	if err != nil {
		return TErr(errGeneric)
	}
	return TOk(TL(TNu(uint64(n)), TNu(uint64(len(stream)-rd.Len()))))
}

func classOf(f func() error) (cl int) {
	defer func() {
		if r := recover(); r != nil {
			cl = 2
		}
	}()
	if err := f(); err != nil {
		return 1
	}
	return 0
}

func doPrefixBin(fresh func() binCodec, stream []byte) Tok {
	out := make([]uint64, len(stream))
	for cut := 0; cut < len(stream); cut++ {
		c := fresh()
		out[cut] = uint64(classOf(func() error {
			_, err := c.ReadFrom(readerFor(bytes.NewReader(stream[:cut]), cut/2))
			return err
		}))
	}
	return TListU(out)
}

func doPrefixJSON(fresh func() func([]byte) error, doc []byte) Tok {
	out := make([]uint64, len(doc))
	for cut := 0; cut < len(doc); cut++ {
		imp := fresh()
		out[cut] = uint64(classOf(func() error { return imp(doc[:cut]) }))
	}
	return TListU(out)
}
