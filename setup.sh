#!/bin/bash
# Build the framework from files on disk only (offline): Coq project, extracted model + driver.
# The Go harness is (re)built by every check from /repo's current working tree.
set -e
cd "$(dirname "$0")"
export GOFLAGS=-mod=mod GOPROXY=off GOSUMDB=off GOTOOLCHAIN=local
mkdir -p build evidence replays
( cd coq && coq_makefile -f _CoqProject -o Makefile >/dev/null 2>&1 && timeout 3000 make -j16 2>&1 | grep -v '^COQ\|^make\[' | tail -30; test "${PIPESTATUS[0]}" = 0 )
( cd coq/Extract && timeout 600 coqc -Q ../Model GX.Model -Q ../Proofs GX.Proofs -Q ../Runner GX.Runner Extract.v >/dev/null )
if ! cmp -s coq/Extract/model.ml build/model.ml || ! cmp -s ocaml/driver.ml build/driver.ml || [ ! -x build/modeldrv ]; then
  cp coq/Extract/model.ml coq/Extract/model.mli ocaml/driver.ml build/
  ( cd build && ocamlfind ocamlopt -w -a -O3 -o modeldrv model.mli model.ml driver.ml 2>/dev/null || ocamlfind ocamlopt -w -a -o modeldrv model.mli model.ml driver.ml )
fi
echo "setup ok"
