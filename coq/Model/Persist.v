(* Persist.v — JSON Export/Import at the level of parsed documents (tokens), Equals for the
   cuckoo filter and Top-K, and the UTF-8 sanitisation encoding/json applies to strings. *)
From GX.Model Require Import Base CMS Bloom HLL Cuckoo Heap TopK Codec.

(* ---------- Go's encoding/json replaces every invalid UTF-8 byte of a string by U+FFFD ------ *)
Definition is_cont (b : N) : bool := (128 <=? b) && (b <=? 191).
Definition in_range (lo hi b : N) : bool := (lo <=? b) && (b <=? hi).
(* number of bytes of the valid rune starting at s (0 = invalid first byte => replaced) *)
Definition rune_len (s : bytes) : nat :=
  match s with
  | [] => 0%nat
  | b0 :: t =>
      if b0 <? 128 then 1%nat
      else if in_range 194 223 b0 then
        match t with b1 :: _ => if is_cont b1 then 2%nat else 0%nat | _ => 0%nat end
      else if in_range 224 239 b0 then
        match t with
        | b1 :: b2 :: _ =>
            let lo := if b0 =? 224 then 160 else 128 in
            let hi := if b0 =? 237 then 159 else 191 in
            if in_range lo hi b1 && is_cont b2 then 3%nat else 0%nat
        | _ => 0%nat
        end
      else if in_range 240 244 b0 then
        match t with
        | b1 :: b2 :: b3 :: _ =>
            let lo := if b0 =? 240 then 144 else 128 in
            let hi := if b0 =? 244 then 143 else 191 in
            if in_range lo hi b1 && is_cont b2 && is_cont b3 then 4%nat else 0%nat
        | _ => 0%nat
        end
      else 0%nat
  end.
Fixpoint utf8_sanitize (fuel : nat) (s : bytes) : bytes :=
  match fuel with
  | O => []
  | S f =>
      match s with
      | [] => []
      | b0 :: t =>
          match rune_len s with
          | O => 239 :: 191 :: 189 :: utf8_sanitize f t
          | n => firstn n s ++ utf8_sanitize f (skipn n s)
          end
      end
  end.
Definition json_string (s : bytes) : bytes := utf8_sanitize (length s) s.

(* ---------- Equals ---------- *)
(* BucketMem.equals: size, length, then slot-wise over the receiver's slots *)
Fixpoint slots_eqb (a b : list bytes) : outcome bool :=
  match a with
  | [] => Ok true
  | x :: a' => match b with
               | [] => Panic P_INDEX
               | y :: b' => if bytes_eqb x y then slots_eqb a' b' else Ok false
               end
  end.
Definition bk_equals (a b : bucket) : outcome bool :=
  if negb (k_size a =? k_size b) || negb (k_len a =? k_len b) then Ok false
  else slots_eqb (k_slots a) (k_slots b).
(* CuckooFilter.Equals (after the repair): parameters, length, bucket count, then bFilter.buckets[i].equals(aFilter.buckets[i]) *)
Fixpoint buckets_eqb (a b : list bucket) : outcome bool :=
  match a with
  | [] => Ok true
  | x :: a' => match b with
               | [] => Panic P_INDEX
               | y :: b' => olet r := bk_equals y x in if r then buckets_eqb a' b' else Ok false
               end
  end.
Definition ck_equals (a b : cuckoo) : outcome bool :=
  if negb (q_size a =? q_size b) || negb (q_bsize a =? q_bsize b) || negb (q_fpl a =? q_fpl b)
     || negb (q_retries a =? q_retries b) || negb (q_len a =? q_len b)
     || negb (Nat.eqb (length (q_buckets a)) (length (q_buckets b))) then Ok false
  else buckets_eqb (q_buckets a) (q_buckets b).

(* CountMinSketch.Equals with its runtime panics (index out of range on ragged matrices) *)
Fixpoint row_eq_panic (a b : list N) : outcome bool :=
  match a with
  | [] => Ok true
  | x :: a' => match b with
               | [] => Panic P_INDEX
               | y :: b' => if x =? y then row_eq_panic a' b' else Ok false
               end
  end.
Fixpoint matrix_eq_panic (a b : list (list N)) : outcome bool :=
  match a with
  | [] => Ok true
  | x :: a' => match b with
               | [] => Panic P_INDEX
               | y :: b' => olet r := row_eq_panic x y in if r then matrix_eq_panic a' b' else Ok false
               end
  end.
Definition cms_equals_o (a b : cms) : outcome bool :=
  if negb (c_rows a =? c_rows b) || negb (c_cols a =? c_cols b) then Ok false
  else matrix_eq_panic (c_matrix a) (c_matrix b).

Fixpoint heap_eqb (a b : list hentry) : bool :=
  match a, b with
  | [], [] => true
  | x :: a', y :: b' => bytes_eqb (fst x) (fst y) && (snd x =? snd y) && heap_eqb a' b'
  | _, _ => false
  end.
(* TopK.Equals (after the repair): k, accuracy, errorRate (float ==, here: bit patterns as supplied
   by the harness for equal floats), sketch, heap length, entries *)
Definition topk_equals (pa : topk_params) (a : topk) (pb : topk_params) (b : topk) : outcome bool :=
  if negb (t_k a =? t_k b) || negb (tp_acc pa =? tp_acc pb) || negb (tp_er pa =? tp_er pb) then Ok false
  else olet r := cms_equals_o (t_sketch a) (t_sketch b) in
       if negb r then Ok false else Ok (heap_eqb (t_heap a) (t_heap b)).

(* ---------- JSON documents as tokens (the harness parses the implementation's bytes) -------- *)
Definition doc_cms (s : cms) (key : bytes) : tok :=
  TL [TN (c_rows s); TN (c_cols s); TN (c_allsum s); TL (map tlistN (c_matrix s)); TB key].
Definition imp_cms (d : tok) : outcome cms :=
  match d with
  | TL [TN r; TN c; TN s; TL rows; TB _] => Ok (mkCms r c s (map (fun row => map tok_N (tok_L row)) rows))
  | _ => Err E_JSON
  end.

Definition doc_bloom (f : bloom) : tok := TL [TN (b_size f); TN (b_k f); TB (enc_bitset (b_bits f))].
Definition imp_bloom (d : tok) : outcome bloom :=
  match d with
  | TL [TN m; TN k; TB raw] =>
      olet r := dec_bitset raw in
      let '(bits, _, _) := r in
      Ok (mkBloom m k (N.of_nat (length bits)) bits)
  | _ => Err E_JSON
  end.

(* floats are opaque: ftext maps IEEE bits to the JSON text, fbits maps the text back *)
Section Docs.
Variable ftext : N -> bytes.
Variable fbits : bytes -> N.

Definition doc_hll (h : hll) : tok :=
  TL [TN (h_m h); TN (h_p h); TB (ftext (h_alpha h)); TB (h_regs h); TB []].
Definition imp_hll (d : tok) : outcome hll :=
  match d with
  | TL [TN m; TN p; TB c; TB regs; TB _] => Ok (mkHll m p (fbits c) regs)
  | _ => Err E_JSON
  end.

Definition doc_bucket (b : bucket) : tok := TL [TN (k_size b); TN (k_len b); tlistB (k_slots b)].
Definition doc_cuckoo (f : cuckoo) : outcome tok :=
  (* Export builds a slice of `size` entries and fills it for i in range buckets *)
  if (N.to_nat (q_size f) <? length (q_buckets f))%nat then Panic P_INDEX
  else Ok (TL [TN (q_size f); TN (q_bsize f); TN (q_fpl f); TN (q_len f); TN (q_retries f);
               TL (map doc_bucket (q_buckets f) ++
                   repeat (TL [TN 0; TN 0; TL []]) (N.to_nat (q_size f) - length (q_buckets f)))]).
(* Import (after the repair): every non-empty element goes into the slot it came from *)
Fixpoint place (slots : list bytes) (j : nat) (es : list bytes) : list bytes * N :=
  match es with
  | [] => (slots, 0)
  | e :: t =>
      let r := place slots (S j) t in
      if (j <? length slots)%nat && negb (bytes_eqb e []) then (setnth (fst r) j e, 1 + snd r)
      else r
  end.
Definition imp_bucket (bs : N) (d : tok) : bucket :=
  match d with
  | TL [_; _; TL es] =>
      let r := place (repeat [] (N.to_nat bs)) 0 (map tok_B es) in
      mkBucket bs (snd r) (fst r)
  | _ => mkBucket bs 0 (repeat [] (N.to_nat bs))
  end.
Definition imp_cuckoo (d : tok) : outcome cuckoo :=
  match d with
  | TL [TN s; TN bs; TN fpl; TN l; TN r; TL bks] =>
      if (N.to_nat s <? length bks)%nat then Panic P_INDEX
      else Ok (mkCuckoo s bs fpl r l
                 (map (imp_bucket bs) bks ++ repeat (mkBucket 0 0 []) (N.to_nat s - length bks)))
  | _ => Err E_JSON
  end.

Definition doc_entry (e : hentry) : tok := TL [TB (json_string (fst e)); TN (snd e)].
Definition doc_topk (p : topk_params) (t : topk) : tok :=
  TL [TN (t_k t); TB (ftext (tp_er p)); TB (ftext (tp_acc p)); doc_cms (t_sketch t) [];
      TL (map doc_entry (t_heap t)); TB []].
Definition imp_topk (d : tok) : outcome (topk_params * topk) :=
  match d with
  | TL [TN k; TB er; TB acc; TL [TN r; TN c; TN s; TL rows; TB _]; TL hs; TB _] =>
      if (r =? 0) || (c =? 0) then Err E_GENERIC
      else Ok (mkTP (fbits er) (fbits acc),
               mkTopk k (mkCms r c s (map (fun row => map tok_N (tok_L row)) rows))
                      (map (fun e => match e with TL [TB v; TN f] => (v, f) | _ => ([], 0) end) hs))
  | _ => Err E_JSON
  end.
End Docs.
