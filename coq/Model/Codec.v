(* Codec.v — binary WriteTo/ReadFrom of the in-memory structures (big-endian, encoding/binary),
   byte-exact, with the returned counts as the code computes them (after the repairs listed in
   known-findings.txt). A decoder returns (state, returned count, rest of the stream). *)
From GX.Model Require Import Base CMS Bloom HLL Cuckoo Heap TopK.

(* ---------- primitives ---------- *)
Definition rd_bytes (n : nat) (s : bytes) : outcome (bytes * bytes) :=
  if (length s <? n)%nat then Err E_EOF else Ok (firstn n s, skipn n s).
Definition rd_u64 (s : bytes) : outcome (N * bytes) :=
  olet r := rd_bytes 8 s in Ok (be_val (fst r) 0, snd r).

(* read n u64 values *)
Fixpoint rd_u64s (n : nat) (s : bytes) : outcome (list N * bytes) :=
  match n with
  | O => Ok ([], s)
  | S k => olet r := rd_u64 s in olet t := rd_u64s k (snd r) in Ok (fst r :: fst t, snd t)
  end.

(* ---------- bitset (third-party format): u64 length | ceil(length/64) words ---------- *)
Fixpoint chunk64 (fuel : nat) (bits : list bool) : list (list bool) :=
  match fuel with
  | O => []
  | S f => match bits with [] => [] | _ => firstn 64 bits :: chunk64 f (skipn 64 bits) end
  end.
Fixpoint word_of_bits (bits : list bool) : N :=
  match bits with [] => 0 | b :: t => (if b then 1 else 0) + 2 * word_of_bits t end.
Definition bits_words (bits : list bool) : list N := map word_of_bits (chunk64 (length bits) bits).
Definition word_to_bits (w : N) : list bool := map (N.testbit w) (nseq 64).

Definition enc_bitset (bits : list bool) : bytes :=
  u64be (N.of_nat (length bits)) ++ flat_map u64be (bits_words bits).
Definition words_needed (len : N) : N := (len + 63) / 64.
Definition dec_bitset (s : bytes) : outcome (list bool * N * bytes) :=
  olet r := rd_u64 s in
  let len := fst r in
  olet ws := rd_u64s (N.to_nat (words_needed len)) (snd r) in
  Ok (firstn (N.to_nat len) (flat_map word_to_bits (fst ws)), 8 + 8 * words_needed len, snd ws).

(* ---------- Bloom: u64 size | u64 k | u64 BitSetMem.size | bitset ---------- *)
Definition enc_bloom (f : bloom) : bytes :=
  u64be (b_size f) ++ u64be (b_k f) ++ u64be (b_bsize f) ++ enc_bitset (b_bits f).
Definition bloom_write_ret (f : bloom) : N := 16 + 8 + (8 + 8 * words_needed (N.of_nat (length (b_bits f)))).
Definition dec_bloom (s : bytes) : outcome (bloom * N * bytes) :=
  olet r1 := rd_u64 s in
  olet r2 := rd_u64 (snd r1) in
  olet r3 := rd_u64 (snd r2) in
  olet r4 := dec_bitset (snd r3) in
  let '(bits, n, rest) := r4 in
  Ok (mkBloom (fst r1) (fst r2) (fst r3) bits, n + 8 + 16, rest).

(* ---------- CMS: u64 rows | u64 cols | u64 allSum | rows x cols u64 ---------- *)
(* WriteTo reads matrix[r][c] for r < rows, c < cols: panics if the matrix is smaller *)
Definition cms_row_ok (cols : nat) (row : list N) : bool := (cols <=? length row)%nat.
Definition enc_cms (s : cms) : outcome bytes :=
  let rows := N.to_nat (c_rows s) in
  let cols := N.to_nat (c_cols s) in
  if (length (c_matrix s) <? rows)%nat then Panic P_INDEX
  else if negb (forallb (cms_row_ok cols) (firstn rows (c_matrix s))) then Panic P_INDEX
  else Ok (u64be (c_rows s) ++ u64be (c_cols s) ++ u64be (c_allsum s) ++
           flat_map (fun row => flat_map u64be (firstn cols row)) (firstn rows (c_matrix s))).
Definition cms_write_ret (s : cms) : N := 24 + c_rows s * (8 * c_cols s).
Fixpoint rd_rows (n cols : nat) (s : bytes) : outcome (list (list N) * bytes) :=
  match n with
  | O => Ok ([], s)
  | S k => olet r := rd_u64s cols s in olet t := rd_rows k cols (snd r) in Ok (fst r :: fst t, snd t)
  end.
Definition dec_cms (s : bytes) : outcome (cms * N * bytes) :=
  olet r1 := rd_u64 s in
  olet r2 := rd_u64 (snd r1) in
  olet r3 := rd_u64 (snd r2) in
  olet m := rd_rows (N.to_nat (fst r1)) (N.to_nat (fst r2)) (snd r3) in
  Ok (mkCms (fst r1) (fst r2) (fst r3) (fst m), 24 + fst r1 * (8 * fst r2), snd m).

(* ---------- HLL: u64 m | u64 p | f64 alpha | one byte per register ---------- *)
Definition enc_hll (h : hll) : bytes :=
  u64be (h_m h) ++ u64be (h_p h) ++ u64be (h_alpha h) ++ h_regs h.
Definition hll_write_ret (h : hll) : N := 24 + N.of_nat (length (h_regs h)).
Definition dec_hll (s : bytes) : outcome (hll * N * bytes) :=
  olet r1 := rd_u64 s in
  olet r2 := rd_u64 (snd r1) in
  olet r3 := rd_u64 (snd r2) in
  olet rg := rd_bytes (N.to_nat (fst r1)) (snd r3) in
  Ok (mkHll (fst r1) (fst r2) (fst r3) (fst rg), 24 + fst r1, snd rg).

(* ---------- length-prefixed string ---------- *)
Definition enc_str (b : bytes) : bytes := u64be (N.of_nat (length b)) ++ b.
Definition rd_str (s : bytes) : outcome (bytes * bytes) :=
  olet r := rd_u64 s in rd_bytes (N.to_nat (fst r)) (snd r).

(* ---------- bucket: u64 size | u64 length | size x string ---------- *)
Definition enc_bucket (b : bucket) : bytes :=
  u64be (k_size b) ++ u64be (k_len b) ++ flat_map enc_str (k_slots b).
Definition bucket_write_ret (b : bucket) : N :=
  16 + sumN (map (fun e => 8 + N.of_nat (length e)) (k_slots b)).
Fixpoint rd_strs (n : nat) (s : bytes) : outcome (list bytes * bytes) :=
  match n with
  | O => Ok ([], s)
  | S k => olet r := rd_str s in olet t := rd_strs k (snd r) in Ok (fst r :: fst t, snd t)
  end.
Definition dec_bucket (s : bytes) : outcome (bucket * N * bytes) :=
  olet r1 := rd_u64 s in
  olet r2 := rd_u64 (snd r1) in
  olet es := rd_strs (N.to_nat (fst r1)) (snd r2) in
  let b := mkBucket (fst r1) (fst r2) (fst es) in
  Ok (b, bucket_write_ret b, snd es).

(* ---------- cuckoo: 5 x u64 | size buckets ---------- *)
(* WriteTo indexes buckets[i] for i < size: panics if there are fewer *)
Definition enc_cuckoo (f : cuckoo) : outcome bytes :=
  if (length (q_buckets f) <? N.to_nat (q_size f))%nat then Panic P_INDEX
  else Ok (u64be (q_size f) ++ u64be (q_bsize f) ++ u64be (q_fpl f) ++ u64be (q_len f) ++
           u64be (q_retries f) ++ flat_map enc_bucket (firstn (N.to_nat (q_size f)) (q_buckets f))).
Definition cuckoo_write_ret (f : cuckoo) : N :=
  40 + sumN (map bucket_write_ret (firstn (N.to_nat (q_size f)) (q_buckets f))).
Fixpoint rd_buckets (n : nat) (s : bytes) : outcome (list bucket * N * bytes) :=
  match n with
  | O => Ok ([], 0, s)
  | S k =>
      olet r := dec_bucket s in
      let '(b, nb, rest) := r in
      olet t := rd_buckets k rest in
      let '(bs, nt, rest') := t in
      Ok (b :: bs, nb + nt, rest')
  end.
Definition dec_cuckoo (s : bytes) : outcome (cuckoo * N * bytes) :=
  olet r1 := rd_u64 s in
  olet r2 := rd_u64 (snd r1) in
  olet r3 := rd_u64 (snd r2) in
  olet r4 := rd_u64 (snd r3) in
  olet r5 := rd_u64 (snd r4) in
  olet bs := rd_buckets (N.to_nat (fst r1)) (snd r5) in
  let '(bl, n, rest) := bs in
  Ok (mkCuckoo (fst r1) (fst r2) (fst r3) (fst r5) (fst r4) bl, n + 40, rest).

(* ---------- Top-K: u64 k | f64 errorRate | f64 accuracy | CMS | k x (string | u64 freq) ----- *)
Record topk_params := mkTP { tp_er : N; tp_acc : N }.   (* IEEE bits, opaque *)
Definition enc_entry (e : hentry) : bytes := enc_str (fst e) ++ u64be (snd e).
(* WriteTo indexes heap[i] for i < k: panics on a partially filled heap *)
Definition enc_topk (p : topk_params) (t : topk) : outcome bytes :=
  olet sk := enc_cms (t_sketch t) in
  if (length (t_heap t) <? N.to_nat (t_k t))%nat then Panic P_INDEX
  else Ok (u64be (t_k t) ++ u64be (tp_er p) ++ u64be (tp_acc p) ++ sk ++
           flat_map enc_entry (firstn (N.to_nat (t_k t)) (t_heap t))).
Definition topk_write_ret (t : topk) : N :=
  24 + cms_write_ret (t_sketch t) +
  sumN (map (fun e => 16 + N.of_nat (length (fst e))) (firstn (N.to_nat (t_k t)) (t_heap t))).
Fixpoint rd_entries (n : nat) (s : bytes) : outcome (list hentry * N * bytes) :=
  match n with
  | O => Ok ([], 0, s)
  | S k =>
      olet r := rd_str s in
      olet f := rd_u64 (snd r) in
      olet t := rd_entries k (snd f) in
      let '(es, nt, rest) := t in
      Ok ((fst r, fst f) :: es, 16 + N.of_nat (length (fst r)) + nt, rest)
  end.
Definition dec_topk (s : bytes) : outcome (topk_params * topk * N * bytes) :=
  olet r1 := rd_u64 s in
  olet r2 := rd_u64 (snd r1) in
  olet r3 := rd_u64 (snd r2) in
  olet sk := dec_cms (snd r3) in
  let '(c, nc, rest) := sk in
  olet es := rd_entries (N.to_nat (fst r1)) rest in
  let '(h, nh, rest') := es in
  Ok (mkTP (fst r2) (fst r3), mkTopk (fst r1) c h, nc + nh + 24, rest').
