(* Heap.v — container/heap on the minHeap of top_k.go, modelled on a list (array) of
   (value, frequency) pairs. up/down follow the Go library loop by loop; fuel = array length. *)
From GX.Model Require Import Base.

Definition hentry := (bytes * N)%type.
Definition hfreq (e : hentry) : N := snd e.
Definition dflt : hentry := ([], 0).

Definition hget (h : list hentry) (i : nat) : hentry := nth i h dflt.
Definition hswap (h : list hentry) (i j : nat) : list hentry :=
  setnth (setnth h i (hget h j)) j (hget h i).
(* Less(i, j) = h[i].frequency < h[j].frequency *)
Definition hless (h : list hentry) (i j : nat) : bool := hfreq (hget h i) <? hfreq (hget h j).

(* up(h, j): while parent i = (j-1)/2 differs from j and h[j] < h[i]: swap, continue at i *)
Fixpoint heap_up (fuel : nat) (h : list hentry) (j : nat) : list hentry :=
  match fuel with
  | O => h
  | S f =>
      let i := ((j - 1) / 2)%nat in
      if (i =? j)%nat || negb (hless h j i) then h
      else heap_up f (hswap h i j) i
  end.

(* down(h, i0, n): returns the array and whether the element moved *)
Fixpoint heap_down (fuel : nat) (h : list hentry) (i n : nat) (moved : bool) : list hentry * bool :=
  match fuel with
  | O => (h, moved)
  | S f =>
      let j1 := (2 * i + 1)%nat in
      if (n <=? j1)%nat then (h, moved)
      else
        let j2 := (j1 + 1)%nat in
        let j := if (j2 <? n)%nat && hless h j2 j1 then j2 else j1 in
        if negb (hless h j i) then (h, moved)
        else heap_down f (hswap h i j) j n true
  end.

(* heap.Push *)
Definition heap_push (h : list hentry) (e : hentry) : list hentry :=
  let h' := h ++ [e] in heap_up (length h') h' (length h' - 1).

(* heap.Pop: swap(0, n); down(0, n); remove last.  Empty heap panics in Go. *)
Definition heap_pop (h : list hentry) : outcome (hentry * list hentry) :=
  match h with
  | [] => Panic P_INDEX
  | _ =>
      let n := (length h - 1)%nat in
      let h1 := hswap h 0 n in
      let h2 := fst (heap_down (length h) h1 0 n false) in
      Ok (hget h2 n, firstn n h2)
  end.

(* heap.Remove(i) for a valid index *)
Definition heap_remove (h : list hentry) (i : nat) : list hentry :=
  let n := (length h - 1)%nat in
  let h2 :=
    if (n =? i)%nat then h
    else
      let h1 := hswap h i n in
      let r := heap_down (length h) h1 i n false in
      if snd r then fst r else heap_up (length h) (fst r) i in
  firstn n h2.

(* minHeap.IndexOf *)
Fixpoint heap_index_of (h : list hentry) (x : bytes) (k : nat) : option nat :=
  match h with
  | [] => None
  | e :: t => if bytes_eqb (fst e) x then Some k else heap_index_of t x (S k)
  end.
