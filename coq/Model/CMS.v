(* CMS.v — in-memory Count-Min sketch (count_min_sketch.go, base_count_min_sketch.go).
   Executable definitions only. *)
From GX.Model Require Import Base.

Section CMS.
(* getPositions as a function of (rows, columns, element). The abstract theorems hold for every
   such function with in-range results; cpos_metro below is the formula of the code. *)
Variable cpos : N -> N -> bytes -> list N.

Record cms := mkCms { c_rows : N; c_cols : N; c_allsum : N; c_matrix : list (list N) }.

(* NewCountMinSketch *)
Definition cms_new (rows cols : N) : outcome cms :=
  if (rows =? 0) || (cols =? 0) then Err E_GENERIC
  else Ok (mkCms rows cols 0 (repeat (repeat 0 (N.to_nat cols)) (N.to_nat rows))).

Definition cms_positions (s : cms) (x : bytes) : list N := cpos (c_rows s) (c_cols s) x.

(* Update: for r, c := range positions { matrix[r][c] += count }; allSum += count *)
Definition cms_update (s : cms) (x : bytes) (count : N) : cms :=
  mkCms (c_rows s) (c_cols s) (wrap64 (c_allsum s + count))
        (map (fun rp => upd (fst rp) (N.to_nat (snd rp)) (fun v => wrap64 (v + count)))
             (combine (c_matrix s) (cms_positions s x))).

(* Count: minimum over the same cells, seeded by row 0 *)
Definition cms_cells (s : cms) (x : bytes) : list N :=
  map (fun rp => nth (N.to_nat (snd rp)) (fst rp) 0) (combine (c_matrix s) (cms_positions s x)).
Definition cms_count (s : cms) (x : bytes) : N := min_list (cms_cells s x).

(* Merge: dimension checks then cell-wise += (allSum is not merged) *)
Definition add_rows (a b : list N) : list N := map (fun p => wrap64 (fst p + snd p)) (combine a b).
Definition cms_merge (a b : cms) : outcome cms :=
  if negb (c_rows a =? c_rows b) then Err E_MISMATCH
  else if negb (c_cols a =? c_cols b) then Err E_MISMATCH
  else Ok (mkCms (c_rows a) (c_cols a) (c_allsum a)
                 (map (fun p => add_rows (fst p) (snd p)) (combine (c_matrix a) (c_matrix b)))).

(* Equals (after fix: `||` between the dimension tests; then cell-wise comparison) *)
Definition cms_equals (a b : cms) : bool :=
  if negb (c_rows a =? c_rows b) || negb (c_cols a =? c_cols b) then false
  else matrix_eqb (c_matrix a) (c_matrix b).

End CMS.

(* getPositions as coded: positions[c] = (hash1 + uint64(c)*hash2) % columns in uint64
   arithmetic, (hash1, hash2) = metro.Hash128(data, 1373) (third-party, a parameter) *)
Definition cms_pos1 (cols : N) (h : N * N) (r : N) : N :=
  wrap64 (fst h + wrap64 (r * snd h)) mod cols.
Definition cpos_metro (metro : bytes -> N * N) (rows cols : N) (x : bytes) : list N :=
  map (cms_pos1 cols (metro x)) (nseq rows).

