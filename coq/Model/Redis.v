(* Redis.v — the fragment of Redis (as implemented by miniredis v2.30.4) that gostatix uses:
   a store of strings, lists, hashes and sorted sets, and the commands issued by the library
   and by its Lua scripts. Integers stored in Redis are decimal strings. *)
From GX.Model Require Import Base.
From Coq Require Import ZArith.

Inductive rval : Type :=
| VStr (b : bytes)
| VList (l : list bytes)
| VHash (h : list (bytes * bytes))
| VZSet (z : list (bytes * N)).        (* (member, score), sorted by (score, member) *)

Definition store := list (bytes * rval).

Fixpoint sget (s : store) (k : bytes) : option rval :=
  match s with
  | [] => None
  | (k', v) :: t => if bytes_eqb k' k then Some v else sget t k
  end.
Fixpoint sdel (s : store) (k : bytes) : store :=
  match s with
  | [] => []
  | (k', v) :: t => if bytes_eqb k' k then sdel t k else (k', v) :: sdel t k
  end.
Definition sset (s : store) (k : bytes) (v : rval) : store := (k, v) :: sdel s k.

(* signed decimal strings *)
Definition decZ (z : Z) : bytes :=
  match z with Zneg _ => 45 :: dec (Z.abs_N z) | _ => dec (Z.to_N z) end.
Definition undecZ (b : bytes) : option Z :=
  match b with
  | 45 :: t => match undec t with Some n => Some (- Z.of_N n)%Z | None => None end
  | _ => match undec b with Some n => Some (Z.of_N n) | None => None end
  end.

(* ---------- strings / bitmaps ---------- *)
Definition r_get (s : store) (k : bytes) : option bytes :=
  match sget s k with Some (VStr b) => Some b | _ => None end.
Definition r_set (s : store) (k v : bytes) : store := sset s k (VStr v).

(* bit i of a Redis string: byte i/8, most significant bit first *)
Definition str_getbit (b : bytes) (i : N) : bool :=
  match nthN b (i / 8) with
  | Some x => N.testbit x (7 - i mod 8)
  | None => false
  end.
Definition str_setbit (b : bytes) (i : N) : bytes :=
  let byte := i / 8 in
  let b' := if byte <? N.of_nat (length b) then b
            else b ++ repeat 0 (N.to_nat byte + 1 - length b) in
  upd b' (N.to_nat byte) (fun x => N.lor x (2 ^ (7 - i mod 8))).
Definition r_getbit (s : store) (k : bytes) (i : N) : bool :=
  match r_get s k with Some b => str_getbit b i | None => false end.
Definition r_setbit1 (s : store) (k : bytes) (i : N) : store :=
  r_set s k (str_setbit (match r_get s k with Some b => b | None => [] end) i).

(* INCRBY on a string key (missing key counts as 0) *)
Definition r_incrby (s : store) (k : bytes) (d : Z) : option (Z * store) :=
  let cur := match r_get s k with Some b => undecZ b | None => Some 0%Z end in
  match cur with
  | Some c => Some ((c + d)%Z, r_set s k (decZ (c + d)))
  | None => None
  end.

(* ---------- lists ---------- *)
Definition r_list (s : store) (k : bytes) : list bytes :=
  match sget s k with Some (VList l) => l | _ => [] end.
(* an empty list is a missing key *)
Definition r_putlist (s : store) (k : bytes) (l : list bytes) : store :=
  match l with [] => sdel s k | _ => sset s k (VList l) end.
Definition r_lindex (s : store) (k : bytes) (i : N) : option bytes := nthN (r_list s k) i.
(* LSET: error on a missing key or an index out of range *)
Definition r_lset (s : store) (k : bytes) (i : N) (v : bytes) : option store :=
  let l := r_list s k in
  if i <? N.of_nat (length l) then Some (r_putlist s k (setnth l (N.to_nat i) v)) else None.
Definition r_lpos (s : store) (k : bytes) (e : bytes) : option nat := index_of bytes_eqb (r_list s k) e 0.
(* LPUSH k v1 v2 ...: each value is pushed to the head in turn *)
Definition r_lpush (s : store) (k : bytes) (vs : list bytes) : store := r_putlist s k (rev vs ++ r_list s k).
Definition r_rpush (s : store) (k : bytes) (vs : list bytes) : store := r_putlist s k (r_list s k ++ vs).

(* ---------- hashes ---------- *)
Definition r_hash (s : store) (k : bytes) : list (bytes * bytes) :=
  match sget s k with Some (VHash h) => h | _ => [] end.
Fixpoint hget (h : list (bytes * bytes)) (f : bytes) : option bytes :=
  match h with [] => None | (f', v) :: t => if bytes_eqb f' f then Some v else hget t f end.
Fixpoint hput (h : list (bytes * bytes)) (f v : bytes) : list (bytes * bytes) :=
  match h with
  | [] => [(f, v)]
  | (f', v') :: t => if bytes_eqb f' f then (f, v) :: t else (f', v') :: hput t f v
  end.
Definition r_hset (s : store) (k : bytes) (fs : list (bytes * bytes)) : store :=
  sset s k (VHash (fold_left (fun h fv => hput h (fst fv) (snd fv)) fs (r_hash s k))).
Definition r_hget (s : store) (k f : bytes) : option bytes := hget (r_hash s k) f.
Definition r_hincrby (s : store) (k f : bytes) (d : Z) : option (Z * store) :=
  let cur := match r_hget s k f with Some b => undecZ b | None => Some 0%Z end in
  match cur with
  | Some c => Some ((c + d)%Z, r_hset s k [(f, decZ (c + d))])
  | None => None
  end.

(* ---------- sorted sets (scores are non-negative integers here) ---------- *)
Definition r_zset (s : store) (k : bytes) : list (bytes * N) :=
  match sget s k with Some (VZSet z) => z | _ => [] end.
Definition z_before (a b : bytes * N) : bool :=
  if snd a =? snd b then bytes_ltb (fst a) (fst b) else snd a <? snd b.
Fixpoint z_insert (e : bytes * N) (z : list (bytes * N)) : list (bytes * N) :=
  match z with
  | [] => [e]
  | y :: t => if z_before y e then y :: z_insert e t else e :: y :: t
  end.
Fixpoint z_remove (m : bytes) (z : list (bytes * N)) : list (bytes * N) :=
  match z with
  | [] => []
  | y :: t => if bytes_eqb (fst y) m then t else y :: z_remove m t
  end.
Fixpoint z_score (m : bytes) (z : list (bytes * N)) : option N :=
  match z with [] => None | y :: t => if bytes_eqb (fst y) m then Some (snd y) else z_score m t end.
Definition r_putzset (s : store) (k : bytes) (z : list (bytes * N)) : store :=
  match z with [] => sdel s k | _ => sset s k (VZSet z) end.
Definition r_zadd (s : store) (k m : bytes) (score : N) : store :=
  r_putzset s k (z_insert (m, score) (z_remove m (r_zset s k))).
Definition r_zrem (s : store) (k m : bytes) : store := r_putzset s k (z_remove m (r_zset s k)).
Definition r_zpopmin (s : store) (k : bytes) : store := r_putzset s k (tl (r_zset s k)).

(* ---------- Lua numbers: IEEE doubles; on the non-negative integers that occur, arithmetic is
   exact up to 2^53 and rounds to 53 significant bits (ties to even) above ---------- *)
Definition round53 (x : N) : N :=
  let sz := N.size x in
  if sz <=? 53 then x
  else
    let sh := sz - 53 in
    let q := N.shiftr x sh in
    let r := x - N.shiftl q sh in
    let half := N.shiftl 1 (sh - 1) in
    let q' := if (half <? r) || ((half =? r) && N.odd q) then q + 1 else q in
    N.shiftl q' sh.
