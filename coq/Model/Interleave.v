(* Interleave.v — concurrent clients of one Redis (C16). An API call is a program whose steps are
   single Redis commands or whole Lua scripts (atomic); a schedule picks which client executes
   its next step. *)
From GX.Model Require Import Base Redis RedisCMS RedisHLL RedisBloom RedisCuckoo RedisTopK Cuckoo.
From Coq Require Import ZArith.

(* a program: finished with a result, or one atomic step on the store yielding the rest.
   The label names the command (for the trace tie). *)
Inductive prog : Type :=
| Done (r : N)
| Step (label : N) (f : store -> store * prog).

(* command labels *)
Definition L_EVAL : N := 1.
Definition L_SETBIT : N := 2.
Definition L_HINCRBY : N := 3.
Definition L_ZCARD : N := 4.
Definition L_ZRANGE : N := 5.
Definition L_ZSCORE : N := 6.
Definition L_ZREM : N := 7.
Definition L_ZADD : N := 8.
Definition L_ZPOPMIN : N := 9.
Definition L_GET : N := 10.
Definition L_LINDEX : N := 11.
Definition L_LSET : N := 12.

(* run one client alone *)
Fixpoint run_prog (fuel : nat) (p : prog) (s : store) : store * option N * list N :=
  match fuel with
  | O => (s, None, [])
  | S f =>
      match p with
      | Done r => (s, Some r, [])
      | Step l g => let '(s', p') := g s in
                    let '(s2, r, tr) := run_prog f p' s' in (s2, r, l :: tr)
      end
  end.

(* two clients under a schedule (true = client A steps); a finished client's turns are skipped;
   when the schedule is exhausted the remaining steps run A first, then B *)
Fixpoint interleave (sched : list bool) (fuel : nat) (a b : prog) (s : store) : store * option N * option N :=
  match sched with
  | [] =>
      let '(s1, ra, _) := run_prog fuel a s in
      let '(s2, rb, _) := run_prog fuel b s1 in (s2, ra, rb)
  | true :: t =>
      match a with
      | Done _ => interleave t fuel a b s
      | Step _ g => let '(s', a') := g s in interleave t fuel a' b s'
      end
  | false :: t =>
      match b with
      | Done _ => interleave t fuel a b s
      | Step _ g => let '(s', b') := g s in interleave t fuel a b' s'
      end
  end.

(* ---------- the update calls as programs ---------- *)
(* Bloom Insert: one SETBIT per probe position (each command is atomic on its own) *)
Fixpoint bloom_insert_prog (key : bytes) (ps : list N) : prog :=
  match ps with
  | [] => Done 1
  | p :: t => Step L_SETBIT (fun s => (r_setbit1 s key p, bloom_insert_prog key t))
  end.

(* Count-Min Update and HyperLogLog Update: a single script *)
Definition cms_update_prog (cpos : N -> N -> bytes -> list N) (h : rcms) (x : bytes) (c : N) : prog :=
  Step L_EVAL (fun s => (snd (rcms_update cpos s h x c), Done 1)).
Definition hll_update_prog (hic : N -> bytes -> N * N) (h : rhll) (x : bytes) : prog :=
  Step L_EVAL (fun s => (snd (rhll_update hic s h x), Done 1)).

(* cuckoo Insert, the two direct paths (no eviction): isFree script, add script (its answer is
   ignored by the caller), HINCRBY length; result 1 = returned true, 0 = would enter eviction *)
Definition ck_insert_prog (h64 : bytes -> N) (h : rcuckoo) (x : bytes) : prog :=
  match rck_positions h64 h x with
  | Ok (fp, i1, i2) =>
      let b1 := bucket_key (rq_key h) i1 in
      let b2 := bucket_key (rq_key h) i2 in
      let finish (bk : bytes) : prog :=
        Step L_EVAL (fun s => (rbk_add s bk (rq_bsize h) fp,
          Step L_HINCRBY (fun s2 => (hincr s2 h 1%Z, Done 1)))) in
      Step L_EVAL (fun s =>
        if rbk_is_free s b1 (rq_bsize h) then (s, finish b1)
        else (s, Step L_EVAL (fun s1 =>
                if rbk_is_free s1 b2 (rq_bsize h) then (s1, finish b2) else (s1, Done 0))))
  | _ => Done 0
  end.

(* Top-K Insert: update script, count script, ZCARD, ZRANGE 0 0, [ZSCORE, [ZREM], ZADD, ZCARD, [ZPOPMIN]] *)
Section TopKProg.
Variable cpos : N -> N -> bytes -> list N.
Variable t : rtopk.
Variable x : bytes.

Definition tk_after_add : prog :=
  Step L_ZCARD (fun s =>
    if rt_k t <? N.of_nat (length (r_zset s (rt_heap t)))
    then (s, Step L_ZPOPMIN (fun s' => (r_zpopmin s' (rt_heap t), Done 1)))
    else (s, Done 1)).

Definition tk_add (f : N) : prog :=
  Step L_ZADD (fun s => (r_zadd s (rt_heap t) x (round53 f), tk_after_add)).

Definition tk_accepted (f : N) : prog :=
  Step L_ZSCORE (fun s =>
    match z_score x (r_zset s (rt_heap t)) with
    | Some v => if 0 <? v then (s, Step L_ZREM (fun s' => (r_zrem s' (rt_heap t) x, tk_add f)))
                else (s, tk_add f)
    | None => (s, tk_add f)
    end).

Definition tk_decide (f len : N) : prog :=
  Step L_ZRANGE (fun s =>
    let z := r_zset s (rt_heap t) in
    let accept := (len <? rt_k t) || (match z with e :: _ => snd e <=? f | [] => false end) in
    if accept then (s, tk_accepted f) else (s, Done 1)).

Definition tk_counted (f : N) : prog :=
  Step L_ZCARD (fun s => (s, tk_decide f (N.of_nat (length (r_zset s (rt_heap t)))))).

Definition topk_insert_prog (count : N) : prog :=
  Step L_EVAL (fun s0 =>
    (snd (rcms_update cpos s0 (rt_sketch t) x count),
     Step L_EVAL (fun s =>
       match rcms_count cpos s (rt_sketch t) x with
       | Ok f => (s, tk_counted f)
       | _ => (s, Done 0)
       end))).
End TopKProg.
