(* Cuckoo.v — in-memory cuckoo filter (cuckoo_filter.go, base_cuckoo_filter.go, bucket_mem.go).
   Follows the code statement by statement. *)
From GX.Model Require Import Base.

Record bucket := mkBucket { k_size : N; k_len : N; k_slots : list bytes }.  (* [] = empty slot *)

Definition bk_new (size : N) : bucket := mkBucket size 0 (repeat [] (N.to_nat size)).
Definition bk_is_free (b : bucket) : bool := k_len b <? k_size b.
Definition bk_index_of (b : bucket) (e : bytes) : option nat := index_of bytes_eqb (k_slots b) e 0.
Definition bk_lookup (b : bucket) (e : bytes) : bool :=
  match bk_index_of b e with Some _ => true | None => false end.

(* add: refuses "" and full buckets; otherwise first empty slot (panics if there is none) *)
Definition bk_add (b : bucket) (e : bytes) : outcome (bool * bucket) :=
  match e with
  | [] => Ok (false, b)
  | _ =>
      if negb (bk_is_free b) then Ok (false, b)
      else match bk_index_of b [] with
           | None => Panic P_INDEX
           | Some i => Ok (true, mkBucket (k_size b) (wrap64 (k_len b + 1)) (setnth (k_slots b) i e))
           end
  end.

(* remove: clears the first matching slot and decrements the counter (uint64 wrap) *)
Definition bk_remove (b : bucket) (e : bytes) : bool * bucket :=
  match bk_index_of b e with
  | None => (false, b)
  | Some i => (true, mkBucket (k_size b) (wrap64 (k_len b + two64 - 1)) (setnth (k_slots b) i []))
  end.

Definition bk_set (b : bucket) (i : nat) (e : bytes) : bucket :=
  mkBucket (k_size b) (k_len b) (setnth (k_slots b) i e).

Section Cuckoo.
Variable h64 : bytes -> N.      (* getHash: first half of murmur3-128 *)

Record cuckoo := mkCuckoo {
  q_size : N; q_bsize : N; q_fpl : N; q_retries : N; q_len : N; q_buckets : list bucket }.

Definition ck_new (size bsize fpl retries : N) : cuckoo :=
  mkCuckoo size bsize fpl retries 0 (repeat (bk_new bsize) (N.to_nat size)).

(* getPositions: (fingerprint, firstIndex, secondIndex); the error value is ignored by all
   callers, so only the returned triple matters. size = 0 panics with a division by zero. *)
Definition ck_positions (f : cuckoo) (x : bytes) : outcome (bytes * N * N) :=
  let hash := h64 x in
  let hs := dec hash in
  if N.of_nat (length hs) <? q_fpl f then Ok ([], 0, 0)
  else if q_size f =? 0 then Panic P_DIVZERO
  else
    let fp := firstn (N.to_nat (q_fpl f)) hs in
    let i1 := hash mod q_size f in
    let i2 := N.lxor i1 (h64 fp) mod q_size f in
    Ok (fp, i1, i2).

Definition get_bucket (f : cuckoo) (i : N) : outcome bucket :=
  match nthN (q_buckets f) i with Some b => Ok b | None => Panic P_INDEX end.
Definition set_bucket (f : cuckoo) (i : N) (b : bucket) : cuckoo :=
  mkCuckoo (q_size f) (q_bsize f) (q_fpl f) (q_retries f) (q_len f) (setnth (q_buckets f) (N.to_nat i) b).
Definition incr_len (f : cuckoo) : cuckoo :=
  mkCuckoo (q_size f) (q_bsize f) (q_fpl f) (q_retries f) (wrap64 (q_len f + 1)) (q_buckets f).
Definition decr_len (f : cuckoo) : cuckoo :=
  mkCuckoo (q_size f) (q_bsize f) (q_fpl f) (q_retries f) (wrap64 (q_len f + two64 - 1)) (q_buckets f).

(* randIndex := uint64(math.Ceil(rand.Float64() * float64(length-1))), rand.Float64() = k/2^53 *)
Definition rand_slot (k len : N) : N :=
  let l1 := wrap64 (len + two64 - 1) in (k * l1 + 2 ^ 53 - 1) / 2 ^ 53.

(* add to bucket i, ignoring add's boolean as the code does *)
Definition add_at (f : cuckoo) (i : N) (e : bytes) : outcome cuckoo :=
  olet b := get_bucket f i in
  olet r := bk_add b e in
  Ok (set_bucket f i (snd r)).

(* undo log entry: (previous fingerprint, bucket index, slot) *)
Definition undo_one (f : cuckoo) (it : bytes * N * N) : outcome cuckoo :=
  let '(fp, bi, si) := it in
  olet b := get_bucket f bi in
  if si <? N.of_nat (length (k_slots b)) then Ok (set_bucket f bi (bk_set b (N.to_nat si) fp))
  else Panic P_INDEX.
Fixpoint undo_all (f : cuckoo) (items : list (bytes * N * N)) : outcome cuckoo :=
  match items with
  | [] => Ok f
  | it :: t => olet f' := undo_one f it in undo_all f' t
  end.

(* the eviction loop (after the repair: index and curr advance to the displaced entry and its
   alternate bucket). items is kept newest first.
   Result: (return value, state). A Panic carries no state: the runner treats the structure
   as it is left in memory via ck_insert_state below. *)
Inductive ins_result :=
| InsOk (f : cuckoo)                 (* returned true *)
| InsFull (f : cuckoo)               (* panicked "filter is full", state after rollback or not *)
| InsPanic (tag : N) (f : cuckoo).   (* runtime panic, state at that point *)

Fixpoint evict_loop (fuel : nat) (f : cuckoo) (index : N) (curr : bytes) (draws : list N)
         (items : list (bytes * N * N)) (destructive : bool) : ins_result :=
  match fuel with
  | O =>
      if destructive then InsFull f
      else match undo_all f items with
           | Ok f' => InsFull f'
           | Err t => InsPanic t f
           | Panic t => InsPanic t f
           end
  | S fuel' =>
      match get_bucket f index with
      | Ok b =>
          let k := hd 0 draws in
          let ri := rand_slot k (k_len b) in
          match nthN (k_slots b) ri with
          | None => InsPanic P_INDEX f
          | Some prev =>
              let f1 := set_bucket f index (bk_set b (N.to_nat ri) curr) in
              let newi := N.lxor index (h64 prev) mod N.of_nat (length (q_buckets f)) in
              match get_bucket f1 newi with
              | Ok nb =>
                  if bk_is_free nb then
                    match add_at f1 newi prev with
                    | Ok f2 => InsOk (incr_len f2)
                    | Err t => InsPanic t f1
                    | Panic t => InsPanic t f1
                    end
                  else evict_loop fuel' f1 newi prev (tl draws) ((prev, index, ri) :: items) destructive
              | Err t => InsPanic t f1
              | Panic t => InsPanic t f1
              end
          end
      | Err t => InsPanic t f
      | Panic t => InsPanic t f
      end
  end.

Definition ck_insert (f : cuckoo) (x : bytes) (destructive : bool) (coin : bool) (draws : list N)
  : ins_result :=
  match ck_positions f x with
  | Ok (fp, i1, i2) =>
      match get_bucket f i1 with
      | Ok b1 =>
          if bk_is_free b1 then
            match add_at f i1 fp with
            | Ok f' => InsOk (incr_len f')
            | Err t => InsPanic t f | Panic t => InsPanic t f
            end
          else
            match get_bucket f i2 with
            | Ok b2 =>
                if bk_is_free b2 then
                  match add_at f i2 fp with
                  | Ok f' => InsOk (incr_len f')
                  | Err t => InsPanic t f | Panic t => InsPanic t f
                  end
                else
                  evict_loop (N.to_nat (q_retries f)) f (if coin then i1 else i2) fp draws [] destructive
            | Err t => InsPanic t f | Panic t => InsPanic t f
            end
      | Err t => InsPanic t f | Panic t => InsPanic t f
      end
  | Err t => InsPanic t f
  | Panic t => InsPanic t f
  end.

Definition ck_lookup (f : cuckoo) (x : bytes) : outcome bool :=
  olet p := ck_positions f x in
  let '(fp, i1, i2) := p in
  olet b1 := get_bucket f i1 in
  if bk_lookup b1 fp then Ok true
  else olet b2 := get_bucket f i2 in Ok (bk_lookup b2 fp).

Definition ck_remove (f : cuckoo) (x : bytes) : outcome (bool * cuckoo) :=
  olet p := ck_positions f x in
  let '(fp, i1, i2) := p in
  olet b1 := get_bucket f i1 in
  if bk_lookup b1 fp then
    Ok (true, decr_len (set_bucket f i1 (snd (bk_remove b1 fp))))
  else
    olet b2 := get_bucket f i2 in
    if bk_lookup b2 fp then
      Ok (true, decr_len (set_bucket f i2 (snd (bk_remove b2 fp))))
    else Ok (false, f).

End Cuckoo.
