(* Base.v — shared conventions of the executable model (definitions only, no proofs).
   Numbers are N; Go's uint64 arithmetic is written with an explicit wrap64.
   Byte strings are lists of N (each < 256). *)
From Coq Require Export List NArith Bool Arith.
From Coq Require Import Decimal DecimalN.
Export ListNotations.
Open Scope N_scope.

Definition bytes := list N.

Definition two64 : N := 18446744073709551616.
(* x mod 2^64 and x mod 2^8, computed by masking (ListLemmas.wrap64_spec / wrap8_spec) *)
Definition wrap64 (x : N) : N := N.land x (N.ones 64).
Definition wrap8 (x : N) : N := N.land x (N.ones 8).

(* outcome of a modelled operation: normal return, Go error value, or panic *)
Inductive outcome (A : Type) : Type :=
| Ok (a : A)
| Err (tag : N)
| Panic (tag : N).
Arguments Ok {A} a.
Arguments Err {A} tag.
Arguments Panic {A} tag.

Definition obind {A B} (o : outcome A) (f : A -> outcome B) : outcome B :=
  match o with Ok a => f a | Err t => Err t | Panic t => Panic t end.
Notation "'olet' x ':=' o 'in' k" := (obind o (fun x => k))
  (at level 200, x pattern, o at level 100, k at level 200, right associativity).

(* error / panic tags (small enum shared with the harness) *)
Definition E_GENERIC : N := 1.
Definition E_MISMATCH : N := 2.
Definition E_EOF : N := 3.
Definition E_JSON : N := 4.
Definition P_INDEX : N := 1.
Definition P_FULL : N := 2.
Definition P_DIVZERO : N := 3.
Definition P_NIL : N := 4.
Definition P_OTHER : N := 5.

(* ---------- byte-string equality and order ---------- *)
Fixpoint bytes_eqb (a b : bytes) : bool :=
  match a, b with
  | [], [] => true
  | x :: a', y :: b' => (x =? y) && bytes_eqb a' b'
  | _, _ => false
  end.

(* lexicographic comparison, as strings.Compare / Redis member order *)
Fixpoint bytes_cmp (a b : bytes) : comparison :=
  match a, b with
  | [], [] => Eq
  | [], _ :: _ => Lt
  | _ :: _, [] => Gt
  | x :: a', y :: b' =>
      match x ?= y with Eq => bytes_cmp a' b' | c => c end
  end.
Definition bytes_ltb (a b : bytes) : bool :=
  match bytes_cmp a b with Lt => true | _ => false end.

(* ---------- list helpers ---------- *)
Fixpoint upd {A} (l : list A) (i : nat) (f : A -> A) : list A :=
  match l, i with
  | [], _ => []
  | x :: t, O => f x :: t
  | x :: t, S j => x :: upd t j f
  end.

Definition setnth {A} (l : list A) (i : nat) (v : A) : list A := upd l i (fun _ => v).

(* indexing with an N index without converting huge values to nat *)
Definition nthN {A} (l : list A) (i : N) : option A :=
  if i <? N.of_nat (length l) then nth_error l (N.to_nat i) else None.

Definition nseq (n : N) : list N := map N.of_nat (seq 0 (N.to_nat n)).

Fixpoint sumN (l : list N) : N :=
  match l with [] => 0 | x :: t => x + sumN t end.

Definition min_list (l : list N) : N :=
  match l with [] => 0 | c :: cs => fold_left N.min cs c end.

Fixpoint listN_eqb (a b : list N) : bool :=
  match a, b with
  | [], [] => true
  | x :: a', y :: b' => (x =? y) && listN_eqb a' b'
  | _, _ => false
  end.
Fixpoint matrix_eqb (a b : list (list N)) : bool :=
  match a, b with
  | [], [] => true
  | x :: a', y :: b' => listN_eqb x y && matrix_eqb a' b'
  | _, _ => false
  end.

Fixpoint index_of (eq : bytes -> bytes -> bool) (l : list bytes) (x : bytes) (i : nat) : option nat :=
  match l with
  | [] => None
  | y :: t => if eq y x then Some i else index_of eq t x (S i)
  end.

(* ---------- decimal strings (strconv.FormatUint / Lua integer tostring) ---------- *)
Fixpoint uint_bytes (d : Decimal.uint) : bytes :=
  match d with
  | Nil => []
  | D0 d => 48 :: uint_bytes d | D1 d => 49 :: uint_bytes d | D2 d => 50 :: uint_bytes d
  | D3 d => 51 :: uint_bytes d | D4 d => 52 :: uint_bytes d | D5 d => 53 :: uint_bytes d
  | D6 d => 54 :: uint_bytes d | D7 d => 55 :: uint_bytes d | D8 d => 56 :: uint_bytes d
  | D9 d => 57 :: uint_bytes d
  end.

Fixpoint bytes_uint (b : bytes) : option Decimal.uint :=
  match b with
  | [] => Some Nil
  | c :: t =>
      match bytes_uint t with
      | None => None
      | Some d =>
          if c =? 48 then Some (D0 d) else if c =? 49 then Some (D1 d)
          else if c =? 50 then Some (D2 d) else if c =? 51 then Some (D3 d)
          else if c =? 52 then Some (D4 d) else if c =? 53 then Some (D5 d)
          else if c =? 54 then Some (D6 d) else if c =? 55 then Some (D7 d)
          else if c =? 56 then Some (D8 d) else if c =? 57 then Some (D9 d)
          else None
      end
  end.

Definition dec (n : N) : bytes := uint_bytes (N.to_uint n).
Definition undec (b : bytes) : option N :=
  match b with
  | [] => None
  | _ => match bytes_uint b with Some d => Some (N.of_uint d) | None => None end
  end.

(* ---------- big-endian fixed-width integers (encoding/binary) ---------- *)
Fixpoint be_bytes (width : nat) (x : N) : bytes :=
  match width with
  | O => []
  | S w => ((x / 256 ^ N.of_nat w) mod 256) :: be_bytes w x
  end.
Definition u64be (x : N) : bytes := be_bytes 8 x.

Fixpoint be_val (b : bytes) (acc : N) : N :=
  match b with [] => acc | x :: t => be_val t (acc * 256 + x) end.

(* ---------- tokens: the generic wire format between harness and model ---------- *)
Inductive tok : Type :=
| TN (n : N)
| TB (b : bytes)
| TL (l : list tok).

Definition tbool (b : bool) : tok := TN (if b then 1 else 0).
Definition tout {A} (f : A -> tok) (o : outcome A) : tok :=
  match o with
  | Ok a => TL [TL []; TN 0; f a]
  | Err t => TL [TL []; TN 1; TN t]
  | Panic t => TL [TL []; TN 2; TN t]
  end.
Definition tlistN (l : list N) : tok := TL (map TN l).
Definition tlistB (l : list bytes) : tok := TL (map TB l).

Definition tok_N (t : tok) : N := match t with TN n => n | _ => 0 end.
Definition tok_B (t : tok) : bytes := match t with TB b => b | _ => [] end.
Definition tok_L (t : tok) : list tok := match t with TL l => l | _ => [] end.
Definition tok_bool (t : tok) : bool := negb (tok_N t =? 0).

(* oracle table supplied by the harness: (tag, element) -> values computed by the
   implementation's own position / hash functions (tag = the parameters they depend on) *)
Definition oracle := list ((list N * bytes) * list N).
Fixpoint oracle_get (o : oracle) (tag : list N) (x : bytes) : list N :=
  match o with
  | [] => []
  | ((t, y), v) :: rest =>
      if listN_eqb t tag && bytes_eqb y x then v else oracle_get rest tag x
  end.
Definition tok_oracle (t : tok) : oracle :=
  map (fun e => match tok_L e with
                | [tg; b; v] => ((map tok_N (tok_L tg), tok_B b), map tok_N (tok_L v))
                | _ => (([], []), [])
                end) (tok_L t).
