(* RedisCMS.v — Redis-backed Count-Min sketch (count_min_sketch_redis.go) and its Lua scripts,
   as store transformers. A handle caches rows, columns, allSum and the two key names. *)
From GX.Model Require Import Base Redis.
From Coq Require Import ZArith.

Definition lua_tonum (b : bytes) : option N := option_map round53 (undec b).

Record rcms := mkRcms { rc_rows : N; rc_cols : N; rc_allsum : N; rc_key : bytes; rc_meta : bytes }.

Definition row_key (key : bytes) (r : N) : bytes := key ++ dec r.

Definition f_rows : bytes := [114;111;119;115].                 (* "rows" *)
Definition f_columns : bytes := [99;111;108;117;109;110;115].   (* "columns" *)
Definition f_key : bytes := [107;101;121].                      (* "key" *)

(* initMatrix script: per row DEL, LPUSH of `columns` zeros *)
Definition cms_init_rows (s : store) (key : bytes) (rows cols : N) : store :=
  fold_left (fun st r => r_lpush (sdel st (row_key key r)) (row_key key r) (repeat [48] (N.to_nat cols)))
            (nseq rows) s.

(* NewCountMinSketchRedis *)
Definition rcms_new (s : store) (rows cols : N) (key meta : bytes) : outcome rcms * store :=
  if (rows =? 0) || (cols =? 0) then (Err E_GENERIC, s)
  else
    let s1 := r_hset s meta [(f_rows, dec rows); (f_columns, dec cols); (f_key, key)] in
    (Ok (mkRcms rows cols 0 key meta), cms_init_rows s1 key rows cols).

(* NewCountMinSketchRedisFromKey: strconv.Atoi of the hash fields (missing/invalid = 0) *)
Definition atoi (o : option bytes) : N :=
  match o with Some b => match undec b with Some n => n | None => 0 end | None => 0 end.
Definition rcms_attach (s : store) (meta : bytes) : outcome rcms :=
  let rows := atoi (r_hget s meta f_rows) in
  let cols := atoi (r_hget s meta f_columns) in
  if (rows =? 0) || (cols =? 0) then Err E_GENERIC
  else Ok (mkRcms rows cols 0 (match r_hget s meta f_key with Some k => k | None => [] end) meta).

Section WithPos.
Variable cpos : N -> N -> bytes -> list N.

(* update script: for each (row, column): LINDEX, tonumber + count, LSET. A nil cell aborts the
   script with an error (earlier rows stay updated). *)
Fixpoint upd_cells (s : store) (key : bytes) (rcs : list (N * N)) (count : N) : option store :=
  match rcs with
  | [] => Some s
  | (r, c) :: t =>
      match r_lindex s (row_key key r) c with
      | None => None
      | Some v =>
          match lua_tonum v with
          | None => None
          | Some n =>
              let s' := match r_lset s (row_key key r) c (dec (round53 (n + count))) with
                        | Some s2 => s2 | None => s end in
              upd_cells s' key t count
          end
      end
  end.
Definition positions_rc (h : rcms) (x : bytes) : list (N * N) :=
  combine (nseq (N.of_nat (length (cpos (rc_rows h) (rc_cols h) x)))) (cpos (rc_rows h) (rc_cols h) x).

(* Update: on a script error the handle's allSum is not advanced and an error is returned;
   the store keeps the partial effect (modelled by re-running the prefix) *)
Fixpoint upd_cells_partial (s : store) (key : bytes) (rcs : list (N * N)) (count : N) : store :=
  match rcs with
  | [] => s
  | (r, c) :: t =>
      match r_lindex s (row_key key r) c with
      | None => s
      | Some v =>
          match lua_tonum v with
          | None => s
          | Some n =>
              let s' := match r_lset s (row_key key r) c (dec (round53 (n + count))) with
                        | Some s2 => s2 | None => s end in
              upd_cells_partial s' key t count
          end
      end
  end.
Definition rcms_update (s : store) (h : rcms) (x : bytes) (count : N) : outcome rcms * store :=
  let c := round53 count in
  match upd_cells s (rc_key h) (positions_rc h x) c with
  | Some s' => (Ok (mkRcms (rc_rows h) (rc_cols h) (wrap64 (rc_allsum h + count)) (rc_key h) (rc_meta h)), s')
  | None => (Err E_GENERIC, upd_cells_partial s (rc_key h) (positions_rc h x) c)
  end.

(* count script: min seeded by row 0 (`count < min or row == 0`), starting from min = 0 *)
Fixpoint count_cells (s : store) (key : bytes) (rcs : list (N * N)) (mn : N) : option N :=
  match rcs with
  | [] => Some mn
  | (r, c) :: t =>
      match r_lindex s (row_key key r) c with
      | None => None
      | Some v =>
          match lua_tonum v with
          | None => None
          | Some n => count_cells s key t (if (n <? mn) || (r =? 0) then n else mn)
          end
      end
  end.
Definition rcms_count (s : store) (h : rcms) (x : bytes) : outcome N :=
  match count_cells s (rc_key h) (positions_rc h x) 0 with
  | Some n => Ok n
  | None => Err E_GENERIC
  end.
End WithPos.

(* merge script: per row, sums of the first `columns` entries, DEL + RPUSH *)
Fixpoint add_cols (n : nat) (a b : list bytes) : option (list bytes) :=
  match n with
  | O => Some []
  | S k =>
      match a, b with
      | x :: a', y :: b' =>
          match lua_tonum x, lua_tonum y, add_cols k a' b' with
          | Some p, Some q, Some t => Some (dec (round53 (p + q)) :: t)
          | _, _, _ => None
          end
      | _, _ => None
      end
  end.
Fixpoint merge_rows (s : store) (k1 k2 : bytes) (rows : list N) (cols : N) : option store :=
  match rows with
  | [] => Some s
  | r :: t =>
      match add_cols (N.to_nat cols) (r_list s (row_key k1 r)) (r_list s (row_key k2 r)) with
      | None => None
      | Some v3 => merge_rows (r_rpush (sdel s (row_key k1 r)) (row_key k1 r) v3) k1 k2 t cols
      end
  end.
Definition rcms_merge (s : store) (a b : rcms) : outcome unit * store :=
  if negb (rc_rows a =? rc_rows b) then (Err E_MISMATCH, s)
  else if negb (rc_cols a =? rc_cols b) then (Err E_MISMATCH, s)
  else match merge_rows s (rc_key a) (rc_key b) (nseq (rc_rows a)) (rc_cols a) with
       | Some s' => (Ok tt, s')
       | None => (Err E_GENERIC, s)   (* partial effects of an aborted script are not modelled *)
       end.

(* compare script: string comparison of the first `columns` entries of every row (nil = nil) *)
Fixpoint cmp_cols (n : nat) (a b : list bytes) : bool :=
  match n with
  | O => true
  | S k =>
      match a, b with
      | x :: a', y :: b' => bytes_eqb x y && cmp_cols k a' b'
      | [], [] => true
      | _, _ => false
      end
  end.
Definition rcms_equals (s : store) (a b : rcms) : bool :=
  if negb (rc_rows a =? rc_rows b) || negb (rc_cols a =? rc_cols b) then false
  else forallb (fun r => cmp_cols (N.to_nat (rc_cols a)) (r_list s (row_key (rc_key a) r)) (r_list s (row_key (rc_key b) r)))
               (nseq (rc_rows a)).

(* getMatrix: the row lists parsed with Atoi *)
Definition rcms_matrix (s : store) (h : rcms) : list (list N) :=
  map (fun r => map (fun v => atoi (Some v)) (r_list s (row_key (rc_key h) r))) (nseq (rc_rows h)).

(* Import (after the repairs): fields from the document, key as given (new or the document's),
   rows rewritten (DEL + RPUSH), metadata hash rewritten *)
Definition rcms_set_matrix (s : store) (key : bytes) (m : list (list N)) : store :=
  fst (fold_left (fun (acc : store * N) row =>
                    (r_rpush (sdel (fst acc) (row_key key (snd acc))) (row_key key (snd acc)) (map dec row), snd acc + 1))
                 m (s, 0)).
