(* Bloom.v — in-memory Bloom filter (bloom_filter.go, bitset_mem.go) over the
   bits-and-blooms bitset, modelled as a list of booleans of the bitset's length. *)
From GX.Model Require Import Base.

(* bitset.Set: extends the set when the index is beyond its length *)
Definition bits_set (bits : list bool) (i : N) : list bool :=
  let n := N.to_nat i in
  if (n <? length bits)%nat then setnth bits n true
  else bits ++ repeat false (n - length bits) ++ [true].
(* bitset.Test: false beyond the length *)
Definition bits_test (bits : list bool) (i : N) : bool := nth (N.to_nat i) bits false.

Section Bloom.
(* probe positions as a function of (size, numHashes, element): getIndex(hashes, 0..k-1) *)
Variable bpos : N -> N -> bytes -> list N.

(* b_bsize is BitSetMem.size (a separate field of the wrapper, written to the stream) *)
Record bloom := mkBloom { b_size : N; b_k : N; b_bsize : N; b_bits : list bool }.

Definition bloom_positions (s : bloom) (x : bytes) : list N := bpos (b_size s) (b_k s) x.

(* NewBloomFilterWithBitSet applied to an in-memory bitset of length blen *)
Definition bloom_with_bitset (size k : N) (bits : list bool) (bsize : N) : outcome bloom :=
  if negb (bsize =? size) then Err E_GENERIC
  else Ok (mkBloom (N.max size 1) (N.max k 1) bsize bits).

(* NewMemBloomFilterWithParameters, given the computed (size, numHashes) *)
Definition bloom_new_params (size0 k0 : N) : outcome bloom :=
  bloom_with_bitset (N.max size0 1) (N.max k0 1) (repeat false (N.to_nat size0)) size0.

(* NewMemBloomFilterFromBitSet: bit list obtained from the data words (64 per word) *)
Definition bloom_from_bits (bits : list bool) (k0 : N) : bloom :=
  mkBloom (N.max (N.of_nat (length bits)) 1) (N.max k0 1) (N.of_nat (length bits)) bits.

Definition bloom_insert (s : bloom) (x : bytes) : bloom :=
  mkBloom (b_size s) (b_k s) (b_bsize s) (fold_left bits_set (bloom_positions s x) (b_bits s)).

Definition bloom_lookup (s : bloom) (x : bytes) : bool :=
  forallb (bits_test (b_bits s)) (bloom_positions s x).

Fixpoint bits_eqb (a b : list bool) : bool :=
  match a, b with
  | [], [] => true
  | x :: a', y :: b' => Bool.eqb x y && bits_eqb a' b'
  | _, _ => false
  end.

(* Equals: parameters, then bitset.Equal (length and contents) *)
Definition bloom_equals (a b : bloom) : bool :=
  if negb (b_size a =? b_size b) || negb (b_k a =? b_k b) then false
  else bits_eqb (b_bits a) (b_bits b).
End Bloom.

(* getIndex as coded, for j < 2^17 where the float expression (j^3 - j)/6 is exact:
   (h1 + j*h2 + (j^3-j)/6) mod 2^64 mod size *)
Definition bloom_index (size : N) (h : N * N) (j : N) : N :=
  wrap64 (wrap64 (fst h + wrap64 (j * snd h)) + (j * j * j - j) / 6) mod size.
Definition bpos_metro (metro : bytes -> N * N) (size k : N) (x : bytes) : list N :=
  map (bloom_index size (metro x)) (nseq k).
