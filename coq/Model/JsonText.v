(* JsonText.v — JSON documents as TEXT (C18, JSON clause): the compact form encoding/json writes,
   a structural scanner (nesting depth outside strings, inside-string and escape flags) and the
   acceptance condition "the text is one complete value". Strings and keys carry their ESCAPED
   source text, numbers / true / false / null their literal text, so that printing a parsed
   document gives back the bytes it was parsed from (checked against the implementation's own
   Export bytes on every run). *)
From GX.Model Require Import Base.

Inductive jval : Type :=
| JAtom (t : bytes)                 (* number, true, false, null: literal text *)
| JStr (t : bytes)                  (* string: escaped content, without the quotes *)
| JArr (l : jlist)
| JObj (l : jfields)
with jlist : Type := JNil | JCons (v : jval) (r : jlist)
with jfields : Type := FNil | FCons (k : bytes) (v : jval) (r : jfields).

Definition QUOTE : N := 34.
Definition BSLASH : N := 92.
Definition COMMA : N := 44.
Definition COLON : N := 58.
Definition LBRACE : N := 123.
Definition RBRACE : N := 125.
Definition LBRACK : N := 91.
Definition RBRACK : N := 93.

Fixpoint jprint (v : jval) : bytes :=
  match v with
  | JAtom t => t
  | JStr t => QUOTE :: t ++ [QUOTE]
  | JArr l => LBRACK :: jprint_items l ++ [RBRACK]
  | JObj l => LBRACE :: jprint_fields l ++ [RBRACE]
  end
with jprint_items (l : jlist) : bytes :=
  match l with
  | JNil => []
  | JCons v JNil => jprint v
  | JCons v r => jprint v ++ COMMA :: jprint_items r
  end
with jprint_fields (l : jfields) : bytes :=
  match l with
  | FNil => []
  | FCons k v FNil => QUOTE :: k ++ QUOTE :: COLON :: jprint v
  | FCons k v r => QUOTE :: k ++ QUOTE :: COLON :: jprint v ++ COMMA :: jprint_fields r
  end.

(* escaped string content: no unescaped quote, not ending inside an escape *)
Fixpoint str_ok (esc : bool) (t : bytes) : bool :=
  match t with
  | [] => negb esc
  | b :: r => if esc then str_ok false r
              else if b =? BSLASH then str_ok true r
              else if b =? QUOTE then false
              else str_ok false r
  end.

(* literal text: non-empty, no quote, no bracket or brace *)
Definition plain (b : N) : bool :=
  negb ((b =? QUOTE) || (b =? LBRACE) || (b =? RBRACE) || (b =? LBRACK) || (b =? RBRACK)).
Definition atom_ok (t : bytes) : bool :=
  match t with [] => false | _ => forallb plain t end.

Fixpoint jwf (v : jval) : bool :=
  match v with
  | JAtom t => atom_ok t
  | JStr t => str_ok false t
  | JArr l => jwf_items l
  | JObj l => jwf_fields l
  end
with jwf_items (l : jlist) : bool :=
  match l with JNil => true | JCons v r => jwf v && jwf_items r end
with jwf_fields (l : jfields) : bool :=
  match l with FNil => true | FCons k v r => str_ok false k && jwf v && jwf_fields r end.

(* ---------- the structural scanner ---------- *)
Record jst := mkJst { j_depth : nat; j_str : bool; j_esc : bool; j_under : bool }.
(* j_under: a closing bracket was seen at depth 0 *)
Definition jinit : jst := mkJst 0 false false false.

Definition jstep (st : jst) (b : N) : jst :=
  if j_str st then
    if j_esc st then mkJst (j_depth st) true false (j_under st)
    else if b =? BSLASH then mkJst (j_depth st) true true (j_under st)
    else if b =? QUOTE then mkJst (j_depth st) false false (j_under st)
    else st
  else if b =? QUOTE then mkJst (j_depth st) true false (j_under st)
  else if (b =? LBRACE) || (b =? LBRACK) then mkJst (S (j_depth st)) false false (j_under st)
  else if (b =? RBRACE) || (b =? RBRACK) then
    match j_depth st with
    | O => mkJst O false false true
    | S d => mkJst d false false (j_under st)
    end
  else st.

Definition jscan (st : jst) (t : bytes) : jst := fold_left jstep t st.

(* what any acceptor of JSON texts requires at the very least of a text it accepts: it is not
   empty, every bracket opened is closed again, no string is left open *)
Definition jclosed (st : jst) : bool :=
  Nat.eqb (j_depth st) 0 && negb (j_str st) && negb (j_under st).
Definition jcomplete (t : bytes) : bool :=
  match t with [] => false | _ => jclosed (jscan jinit t) end.

(* lengths k (1..|t|) of the prefixes of t that are complete, in one pass *)
Fixpoint complete_prefixes (st : jst) (k : N) (t : bytes) : list N :=
  match t with
  | [] => []
  | b :: r => let st' := jstep st b in
              (if jclosed st' then [k + 1] else []) ++ complete_prefixes st' (k + 1) r
  end.
