(* HLL.v — in-memory HyperLogLog (hyperloglog.go, base_hyperloglog.go). *)
From GX.Model Require Import Base.

(* bits.LeadingZeros64 on a value < 2^64 *)
Definition clz64 (x : N) : N := 64 - N.size x.

(* getRegisterIndexAndCount as coded: p = numBytesPerHash = log2 m;
   registerIndex = 1 + clz64(hash << p); count = hash >> (32 - p) *)
Definition hll_index_count (p : N) (h : N) : N * N :=
  (1 + clz64 (wrap64 (N.shiftl h p)), N.shiftr h (32 - p)).

Section HLL.
(* (registerIndex, count) as a function of (p, element) *)
Variable hic : N -> bytes -> N * N.

(* h_alpha: the IEEE-754 bits of correctionBias (opaque: set by getAlpha, copied by codecs) *)
Record hll := mkHll { h_m : N; h_p : N; h_alpha : N; h_regs : list N }.

Definition is_pow2 (m : N) : bool := N.land m (m - 1) =? 0.

(* NewHyperLogLog: m = 0 panics (after allocating), non power of two is an error *)
Definition hll_new (m alpha : N) : outcome hll :=
  if m =? 0 then Panic P_OTHER
  else if negb (is_pow2 m) then Err E_GENERIC
  else Ok (mkHll m (N.log2 m) alpha (repeat 0 (N.to_nat m))).

(* Update: registers[idx] = uint8(max(uint(registers[idx]), uint(uint8(count)))); idx out of range panics *)
Definition hll_update (s : hll) (x : bytes) : outcome hll :=
  let ic := hic (h_p s) x in
  let i := N.to_nat (fst ic) in
  match nth_error (h_regs s) i with
  | None => Panic P_INDEX
  | Some old => Ok (mkHll (h_m s) (h_p s) (h_alpha s) (setnth (h_regs s) i (wrap8 (N.max old (wrap8 (snd ic))))))
  end.

(* Merge: numRegisters must match; then for i in range g.registers: h[i] = uint8(max(h[i], g[i])) *)
Definition hll_merge (a b : hll) : outcome hll :=
  if negb (h_m a =? h_m b) then Err E_MISMATCH
  else if (length (h_regs a) <? length (h_regs b))%nat then Panic P_INDEX
  else Ok (mkHll (h_m a) (h_p a) (h_alpha a)
             (map (fun p => wrap8 (N.max (fst p) (snd p))) (combine (h_regs a) (h_regs b))
              ++ skipn (length (h_regs b)) (h_regs a))).

Definition hll_reset (s : hll) : hll := mkHll (h_m s) (h_p s) (h_alpha s) (map (fun _ => 0) (h_regs s)).

(* Equals: register counts, then every register (index out of range panics) *)
Definition hll_equals (a b : hll) : outcome bool :=
  if negb (h_m a =? h_m b) then Ok false
  else
    let n := N.to_nat (h_m a) in
    if ((length (h_regs a) <? n) || (length (h_regs b) <? n))%nat then Panic P_INDEX
    else Ok (listN_eqb (firstn n (h_regs a)) (firstn n (h_regs b))).

(* harmonic sum as an exact dyadic rational: sum_i 2^(-reg_i) = hsum_num / 2^255 (regs <= 255) *)
Definition hll_hsum_num (s : hll) : N := sumN (map (fun r => 2 ^ (255 - r)) (h_regs s)).
End HLL.

(* ---------- estimator (getAlpha, getEstimation), exact rationals with a guard band ---------- *)
(* alpha_m as a fraction (numerator, denominator) *)
Definition hll_alpha (m : N) : N * N :=
  if m =? 16 then (673, 1000) else if m =? 32 then (697, 1000) else if m =? 64 then (709, 1000)
  else (7213 * m, 10000 * m + 10790).

(* Is the implementation's answer c consistent with E = alpha m^2 / (H/D), computed in float64,
   then (optionally) math.Round, then uint64 truncation?  0 = no, 1 = yes,
   2 = outside the modelled domain (large-range log correction, overflow, division by zero). *)
Definition guard : N := 2 ^ 40.
Definition hll_count_check (m H D : N) (withCorr withRound : bool) (c : N) : N :=
  let a := hll_alpha m in
  let P := fst a * m * m * D in
  let Q := snd a * H in
  if Q =? 0 then 2
  else if 2 ^ 62 * Q <=? P then 2
  else if withCorr && (2 ^ 32 * Q * guard <=? 30 * P * (guard + 1)) then 2
  else if withRound then
    if (2 * c * Q * guard <=? 2 * P * (guard + 1) + Q * guard) &&
       (2 * P * (guard - 1) <? (2 * c + 1) * Q * guard) then 1 else 0
  else
    if (c * Q * guard <=? P * (guard + 1)) && (P * (guard - 1) <? (c + 1) * Q * guard) then 1 else 0.
