(* Murmur.v — murmur3 x64 128-bit, seed 0, first half (murmur.go: sum128 / getHash). *)
From GX.Model Require Import Base.

Definition c1_128 : N := 0x87c37b91114253d5.
Definition c2_128 : N := 0x4cf5ad432745937f.

Definition mul64 (a b : N) : N := wrap64 (a * b).
Definition add64 (a b : N) : N := wrap64 (a + b).
Definition rotl64 (x r : N) : N := wrap64 (N.lor (N.shiftl x r) (N.shiftr x (64 - r))).

(* little-endian load of up to 8 bytes *)
Fixpoint le_val (b : bytes) : N :=
  match b with [] => 0 | x :: t => x + 256 * le_val t end.

Definition mix_k1 (k1 : N) : N := mul64 (rotl64 (mul64 k1 c1_128) 31) c2_128.
Definition mix_k2 (k2 : N) : N := mul64 (rotl64 (mul64 k2 c2_128) 33) c1_128.

Definition bmix_block (h : N * N) (blk : bytes) : N * N :=
  let k1 := le_val (firstn 8 blk) in
  let k2 := le_val (skipn 8 blk) in
  let h1 := N.lxor (fst h) (mix_k1 k1) in
  let h1 := rotl64 h1 27 in
  let h1 := add64 h1 (snd h) in
  let h1 := add64 (mul64 h1 5) 0x52dce729 in
  let h2 := N.lxor (snd h) (mix_k2 k2) in
  let h2 := rotl64 h2 31 in
  let h2 := add64 h2 h1 in
  let h2 := add64 (mul64 h2 5) 0x38495ab5 in
  (h1, h2).

(* all complete 16-byte blocks, then the tail; fuel = number of blocks + 1 *)
Fixpoint bmix (fuel : nat) (h : N * N) (data : bytes) : (N * N) * bytes :=
  match fuel with
  | O => (h, data)
  | S f => if (length data <? 16)%nat then (h, data)
           else bmix f (bmix_block h (firstn 16 data)) (skipn 16 data)
  end.

Definition fmix64 (k : N) : N :=
  let k := N.lxor k (N.shiftr k 33) in
  let k := mul64 k 0xff51afd7ed558ccd in
  let k := N.lxor k (N.shiftr k 33) in
  let k := mul64 k 0xc4ceb9fe1a85ec53 in
  N.lxor k (N.shiftr k 33).

Definition sum128 (data : bytes) : N * N :=
  let dlen := N.of_nat (length data) in
  let r := bmix (S (length data / 16)) (0, 0) data in
  let h1 := fst (fst r) in
  let h2 := snd (fst r) in
  let tail := snd r in
  let n := length tail in
  let h2 := if (9 <=? n)%nat then N.lxor h2 (mix_k2 (le_val (skipn 8 tail))) else h2 in
  let h1 := if (1 <=? n)%nat then N.lxor h1 (mix_k1 (le_val (firstn 8 tail))) else h1 in
  let h1 := N.lxor h1 dlen in
  let h2 := N.lxor h2 dlen in
  let h1 := add64 h1 h2 in
  let h2 := add64 h2 h1 in
  let h1 := fmix64 h1 in
  let h2 := fmix64 h2 in
  let h1 := add64 h1 h2 in
  let h2 := add64 h2 h1 in
  (h1, h2).

Definition murmur64 (data : bytes) : N := fst (sum128 data).
