(* TopK.v — in-memory Top-K (top_k.go) over the Count-Min model and the heap model. *)
From GX.Model Require Import Base CMS Heap.

Section TopK.
Variable cpos : N -> N -> bytes -> list N.

Record topk := mkTopk { t_k : N; t_sketch : cms; t_heap : list hentry }.

(* NewTopK, given the dimensions computed by NewCountMinSketchFromEstimates *)
Definition topk_new (k rows cols : N) : outcome topk :=
  match cms_new rows cols with
  | Ok s => Ok (mkTopk k s [])
  | Err _ => Panic P_NIL      (* the constructor ignores the error; the nil sketch panics on first use *)
  | Panic t => Panic t
  end.

(* Insert: count = 0 panics; update the sketch, read the estimate, (re)accept, evict the minimum *)
Definition topk_insert (t : topk) (x : bytes) (count : N) : outcome topk :=
  if count =? 0 then Panic P_OTHER
  else
    let s := cms_update cpos (t_sketch t) x count in
    let f := cms_count cpos s x in
    let h := t_heap t in
    let accept :=
      if N.of_nat (length h) <? t_k t then Ok true
      else match h with
           | [] => Panic P_INDEX             (* k = 0: t.heap[0] on an empty heap *)
           | e :: _ => Ok (hfreq e <=? f)
           end in
    match accept with
    | Ok true =>
        let h1 := match heap_index_of h x 0 with
                  | Some i => heap_remove h i
                  | None => h
                  end in
        let h2 := heap_push h1 (x, f) in
        if t_k t <? N.of_nat (length h2) then
          match heap_pop h2 with
          | Ok (_, h3) => Ok (mkTopk (t_k t) s h3)
          | Err e => Err e
          | Panic e => Panic e
          end
        else Ok (mkTopk (t_k t) s h2)
    | Ok false => Ok (mkTopk (t_k t) s h)
    | Err e => Err e
    | Panic e => Panic e
    end.

(* Values: sort by (count desc, element asc) *)
Definition before (a b : hentry) : bool :=
  if hfreq a =? hfreq b then bytes_ltb (fst a) (fst b) else hfreq b <? hfreq a.
Fixpoint insert_sorted (e : hentry) (l : list hentry) : list hentry :=
  match l with
  | [] => [e]
  | y :: t => if before y e then y :: insert_sorted e t else e :: y :: t
  end.
Definition sort_entries (l : list hentry) : list hentry := fold_right insert_sorted [] l.
Definition topk_values (t : topk) : list hentry := sort_entries (t_heap t).
End TopK.
