(* RedisCuckoo.v — Redis-backed cuckoo filter (cuckoo_filter_redis.go, bucket_redis.go).
   Buckets are Redis lists plus a "<key>_len" counter; every bucket method is one command or
   one Lua script; the filter methods are sequences of them (no transaction). *)
From GX.Model Require Import Base Redis RedisCMS Cuckoo.
From Coq Require Import ZArith.

Record rcuckoo := mkRck {
  rq_size : N; rq_bsize : N; rq_fpl : N; rq_retries : N; rq_key : bytes; rq_meta : bytes }.

Definition s_cuckoo_ : bytes := [99;117;99;107;111;111;95].            (* "cuckoo_" *)
Definition s_bucket_ : bytes := [95;98;117;99;107;101;116;95].          (* "_bucket_" *)
Definition s_len : bytes := [95;108;101;110].                           (* "_len" *)
Definition bucket_key (key : bytes) (i : N) : bytes := s_cuckoo_ ++ key ++ s_bucket_ ++ dec i.
Definition len_key (bk : bytes) : bytes := bk ++ s_len.

Definition f_size : bytes := [115;105;122;101].
Definition f_bucketsize : bytes := [98;117;99;107;101;116;83;105;122;101].
Definition f_fpl : bytes := [102;105;110;103;101;114;80;114;105;110;116;76;101;110;103;116;104].
Definition f_retries : bytes := [114;101;116;114;105;101;115].
Definition f_length : bytes := [108;101;110;103;116;104].

Definition incr0 (s : store) (k : bytes) : store :=
  match r_incrby s k 0 with Some (_, s') => s' | None => s end.

(* setMetadata(length) followed by initBuckets *)
Definition rck_set_metadata (s : store) (h : rcuckoo) (len : N) : store :=
  r_hset s (rq_meta h) [(f_size, dec (rq_size h)); (f_bucketsize, dec (rq_bsize h));
                         (f_fpl, dec (rq_fpl h)); (f_retries, dec (rq_retries h));
                         (f_key, rq_key h); (f_length, dec len)].
Definition rck_init_buckets (s : store) (h : rcuckoo) : store :=
  let bks := map (bucket_key (rq_key h)) (nseq (rq_size h)) in
  let s1 := r_lpush (sdel s (rq_key h)) (rq_key h) bks in
  fold_left (fun st bk => incr0 st (len_key bk)) bks s1.

Definition rck_new (s : store) (size bsize fpl retries : N) (key meta : bytes) : rcuckoo * store :=
  let h := mkRck size bsize fpl retries key meta in
  (h, rck_init_buckets (rck_set_metadata s h 0) h).

Definition rck_attach (s : store) (meta : bytes) : rcuckoo * store :=
  let h := mkRck (atoi (r_hget s meta f_size)) (atoi (r_hget s meta f_bucketsize))
                 (atoi (r_hget s meta f_fpl)) (atoi (r_hget s meta f_retries))
                 (match r_hget s meta f_key with Some k => k | None => [] end) meta in
  (h, fold_left (fun st bk => incr0 st (len_key bk)) (map (bucket_key (rq_key h)) (nseq (rq_size h))) s).

(* Length: HGET metadata length, as int64 then uint64 *)
Definition rck_length (s : store) (h : rcuckoo) : N :=
  match r_hget s (rq_meta h) f_length with
  | Some b => match undecZ b with
              | Some z => Z.to_N (z mod 18446744073709551616)%Z
              | None => 0
              end
  | None => 0
  end.

(* ---------- bucket methods ---------- *)
Definition bk_len_z (s : store) (bk : bytes) : option Z :=
  match r_get s (len_key bk) with Some b => undecZ b | None => None end.
(* isFree script: a missing counter is a script error, which Go reads as false *)
Definition rbk_is_free (s : store) (bk : bytes) (size : N) : bool :=
  match bk_len_z s bk with Some z => (z <? Z.of_N size)%Z | None => false end.
(* getLength: GET as int64 (0 on error) then uint64 *)
Definition rbk_get_length (s : store) (bk : bytes) : N :=
  match bk_len_z s bk with Some z => Z.to_N (z mod 18446744073709551616)%Z | None => 0 end.
(* add script; "" is refused before the script *)
Definition rbk_add (s : store) (bk : bytes) (size : N) (e : bytes) : store :=
  match e with
  | [] => s
  | _ =>
      match bk_len_z s bk with
      | None => s
      | Some z =>
          if (Z.of_N size <=? z)%Z then s
          else
            let s1 := match r_lpos s bk [] with
                      | None => r_lpush s bk [e]
                      | Some p => match r_lset s bk (N.of_nat p) e with Some s' => s' | None => s end
                      end in
            match r_incrby s1 (len_key bk) 1 with Some (_, s2) => s2 | None => s1 end
      end
  end.
Definition rbk_lookup (s : store) (bk : bytes) (e : bytes) : bool :=
  match r_lpos s bk e with Some _ => true | None => false end.
(* remove script: LPOS (call), LSET pos '', INCRBY -1; absent element aborts the script *)
Definition rbk_remove (s : store) (bk : bytes) (e : bytes) : store :=
  match r_lpos s bk e with
  | None => s
  | Some p =>
      match r_lset s bk (N.of_nat p) [] with
      | Some s1 => match r_incrby s1 (len_key bk) (-1) with Some (_, s2) => s2 | None => s1 end
      | None => s
      end
  end.
(* at: LINDEX (nil reads as "") with the index cast to int64 *)
Definition rbk_at (s : store) (bk : bytes) (i : N) : bytes :=
  if 9223372036854775808 <=? i then []
  else match r_lindex s bk i with Some v => v | None => [] end.
Definition rbk_set (s : store) (bk : bytes) (i : N) (e : bytes) : store :=
  if 9223372036854775808 <=? i then s
  else match r_lset s bk i e with Some s' => s' | None => s end.

(* ---------- Export / Import / Equals (cuckoo_filter_redis.go:231-310, bucket_redis.go restore/equals) ---------- *)
(* one exported bucket: (size, length counter, list, key) *)
Definition rck_export_bucket (s : store) (h : rcuckoo) (i : N) : N * N * list bytes * bytes :=
  let bk := bucket_key (rq_key h) i in (rq_bsize h, rbk_get_length s bk, r_list s bk, bk).
Definition rck_export_buckets (s : store) (h : rcuckoo) : list (N * N * list bytes * bytes) :=
  map (rck_export_bucket s h) (nseq (rq_size h)).

(* restore script: DEL list; RPUSH every element; SET counter = number of non-empty elements *)
Definition count_nonempty (l : list bytes) : N :=
  N.of_nat (length (filter (fun e => match e with [] => false | _ => true end) l)).
Definition rbk_restore (s : store) (bk : bytes) (elems : list bytes) : store :=
  r_set (r_rpush (sdel s bk) bk elems) (len_key bk) (dec (count_nonempty elems)).

(* Import: metadata (with the exported length), the bucket-key list, then per exported bucket
   newBucketRedis (INCRBY 0) and restore *)
Definition rck_import (s : store) (size bsize fpl retries len : N) (bks : list (list bytes))
           (key meta : bytes) : rcuckoo * store :=
  let h := mkRck size bsize fpl retries key meta in
  let s1 := rck_init_buckets (rck_set_metadata s h len) h in
  (h, fold_left (fun st ib => let bk := bucket_key key (fst ib) in
                              rbk_restore (incr0 st (len_key bk)) bk (snd ib))
                (combine (nseq (N.of_nat (length bks))) bks) s1).

(* bucket equals script: the first `size` positions of both lists agree (missing = nil) *)
Definition rbk_equals (s : store) (bk1 bk2 : bytes) (size : N) : bool :=
  forallb (fun i => match nthN (r_list s bk1) i, nthN (r_list s bk2) i with
                    | Some a, Some b => bytes_eqb a b
                    | None, None => true
                    | _, _ => false
                    end) (nseq size).
Definition rck_equals (s : store) (a b : rcuckoo) : bool :=
  (rq_size a =? rq_size b) && (rq_bsize a =? rq_bsize b) && (rq_fpl a =? rq_fpl b) &&
  (rq_retries a =? rq_retries b) && (rck_length s a =? rck_length s b) &&
  forallb (fun i => rbk_equals s (bucket_key (rq_key b) i) (bucket_key (rq_key a) i) (rq_bsize b))
          (nseq (rq_size a)).

Section WithHash.
Variable h64 : bytes -> N.

Definition rck_positions (h : rcuckoo) (x : bytes) : outcome (bytes * N * N) :=
  ck_positions h64 (mkCuckoo (rq_size h) (rq_bsize h) (rq_fpl h) (rq_retries h) 0 []) x.

Definition hincr (s : store) (h : rcuckoo) (d : Z) : store :=
  match r_hincrby s (rq_meta h) f_length d with Some (_, s') => s' | None => s end.

Inductive rins := RInsOk (s : store) | RInsFull (s : store) | RInsPanic (t : N) (s : store).

Fixpoint rundo (s : store) (h : rcuckoo) (items : list (bytes * N * N)) : store :=
  match items with
  | [] => s
  | (fp, bi, si) :: t => rundo (rbk_set s (bucket_key (rq_key h) bi) si fp) h t
  end.

Fixpoint revict (fuel : nat) (s : store) (h : rcuckoo) (index : N) (curr : bytes) (draws : list N)
         (items : list (bytes * N * N)) (destructive : bool) : rins :=
  match fuel with
  | O => RInsFull (if destructive then s else rundo s h items)
  | S fuel' =>
      let bk := bucket_key (rq_key h) index in
      let ri := rand_slot (hd 0 draws) (rbk_get_length s bk) in
      let prev := rbk_at s bk ri in
      let s1 := rbk_set s bk ri curr in
      let newi := N.lxor index (h64 prev) mod rq_size h in
      let nbk := bucket_key (rq_key h) newi in
      if rbk_is_free s1 nbk (rq_bsize h) then RInsOk (hincr (rbk_add s1 nbk (rq_bsize h) prev) h 1)
      else revict fuel' s1 h newi prev (tl draws) ((prev, index, ri) :: items) destructive
  end.

Definition rck_insert (s : store) (h : rcuckoo) (x : bytes) (destructive coin : bool) (draws : list N) : rins :=
  match rck_positions h x with
  | Ok (fp, i1, i2) =>
      if rq_size h =? 0 then RInsPanic P_NIL s      (* buckets[key] is nil *)
      else
        let b1 := bucket_key (rq_key h) i1 in
        let b2 := bucket_key (rq_key h) i2 in
        if rbk_is_free s b1 (rq_bsize h) then RInsOk (hincr (rbk_add s b1 (rq_bsize h) fp) h 1)
        else if rbk_is_free s b2 (rq_bsize h) then RInsOk (hincr (rbk_add s b2 (rq_bsize h) fp) h 1)
        else revict (N.to_nat (rq_retries h)) s h (if coin then i1 else i2) fp draws [] destructive
  | Err t => RInsPanic t s
  | Panic t => RInsPanic t s
  end.

Definition rck_lookup (s : store) (h : rcuckoo) (x : bytes) : outcome bool :=
  olet p := rck_positions h x in
  let '(fp, i1, i2) := p in
  if rq_size h =? 0 then Panic P_NIL
  else if rbk_lookup s (bucket_key (rq_key h) i1) fp then Ok true
  else Ok (rbk_lookup s (bucket_key (rq_key h) i2) fp).

Definition rck_remove (s : store) (h : rcuckoo) (x : bytes) : outcome bool * store :=
  match rck_positions h x with
  | Ok (fp, i1, i2) =>
      if rq_size h =? 0 then (Panic P_NIL, s)
      else
        let b1 := bucket_key (rq_key h) i1 in
        let b2 := bucket_key (rq_key h) i2 in
        if rbk_lookup s b1 fp then (Ok true, hincr (rbk_remove s b1 fp) h (-1))
        else if rbk_lookup s b2 fp then (Ok true, hincr (rbk_remove s b2 fp) h (-1))
        else (Ok false, s)
  | Err t => (Err t, s)
  | Panic t => (Panic t, s)
  end.
End WithHash.
