(* Conc.v — lock discipline of the in-memory structures (C07).
   (1) lock facts: what the translator extracts from the Go sources for every exported method;
   (2) a small-step model of threads calling methods of one shared object under one mutex. *)
From Coq Require Import List String Bool Arith.
Import ListNotations.

(* ReadLocked: the method holds the lock in shared (RLock) mode only.
   Reentrant: the method holds the receiver's lock and calls a method of the receiver that takes
   it again (sync.RWMutex is not reentrant: certain deadlock in exclusive mode, deadlock as soon as
   a writer waits in between in shared mode) *)
Inductive locking := Locked | LockedWhenInMemory | ReadLocked | ReadLockedWhenInMemory | Unlocked | ReleasedEarly | Reentrant | UnknownLocking.

Record lock_fact := mkFact {
  lf_type : string; lf_method : string; lf_locking : locking;
  lf_reads : list string; lf_writes : list string;   (* guarded fields of the receiver *)
  lf_arg_touched : bool; lf_arg_locked : bool }.     (* guarded state of a same-type argument *)

Definition holds_lock (l : locking) : bool :=
  match l with Locked | LockedWhenInMemory | ReadLocked | ReadLockedWhenInMemory => true | _ => false end.
Definition shared_mode (l : locking) : bool :=
  match l with ReadLocked | ReadLockedWhenInMemory => true | _ => false end.

(* a method is well-locked if it touches no guarded state, or does so entirely under the
   receiver's lock - exclusively if it writes any of it (several holders of a shared lock run
   at once) -, taking the argument's lock too when it touches the argument's state *)
Definition well_locked (f : lock_fact) : bool :=
  match lf_locking f with
  | UnknownLocking | ReleasedEarly | Reentrant => false
  | _ =>
      let touches := negb (match lf_reads f, lf_writes f with [], [] => true | _, _ => false end) in
      (negb touches || holds_lock (lf_locking f)) && (negb (lf_arg_touched f) || lf_arg_locked f) &&
      (negb (shared_mode (lf_locking f)) || match lf_writes f with [] => true | _ => false end)
  end.

Definition fact_key (f : lock_fact) : string := lf_type f ++ "." ++ lf_method f.

(* ---------- threads, one mutex, one shared state ---------- *)
Section Conc.
Variable S : Type.               (* guarded shared state *)
Definition mstep := S -> S.      (* one micro-step of a method body on the shared state *)

(* where a thread is: between calls, waiting for the lock, or inside a body holding the lock *)
Inductive pc := Idle | Waiting (body : list mstep) | Running (rest : list mstep).
Record thread := mkThread { t_calls : list (list mstep); t_pc : pc }.
Record config := mkConfig { c_shared : S; c_holder : option nat; c_threads : list thread }.

Definition set_thread (ts : list thread) (i : nat) (t : thread) : list thread :=
  firstn i ts ++ t :: skipn (Datatypes.S i) ts.

(* one step of thread i *)
Inductive step (i : nat) : config -> config -> Prop :=
| StCall : forall c t body rest,
    nth_error (c_threads c) i = Some t -> t_pc t = Idle -> t_calls t = body :: rest ->
    step i c (mkConfig (c_shared c) (c_holder c) (set_thread (c_threads c) i (mkThread rest (Waiting body))))
| StAcquire : forall c t body,
    nth_error (c_threads c) i = Some t -> t_pc t = Waiting body -> c_holder c = None ->
    step i c (mkConfig (c_shared c) (Some i) (set_thread (c_threads c) i (mkThread (t_calls t) (Running body))))
| StMicro : forall c t m rest,
    nth_error (c_threads c) i = Some t -> t_pc t = Running (m :: rest) ->
    step i c (mkConfig (m (c_shared c)) (c_holder c) (set_thread (c_threads c) i (mkThread (t_calls t) (Running rest))))
| StRelease : forall c t,
    nth_error (c_threads c) i = Some t -> t_pc t = Running [] ->
    step i c (mkConfig (c_shared c) None (set_thread (c_threads c) i (mkThread (t_calls t) Idle))).

Definition is_running (t : thread) : bool := match t_pc t with Running _ => true | _ => false end.

(* mutual exclusion invariant: a thread is inside a body iff it is the lock holder *)
Definition mutex_inv (c : config) : Prop :=
  forall j t, nth_error (c_threads c) j = Some t -> (is_running t = true <-> c_holder c = Some j).
End Conc.
