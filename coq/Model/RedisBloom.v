(* RedisBloom.v — Redis-backed Bloom filter (bloom_filter.go over bitset_redis.go). *)
From GX.Model Require Import Base Redis RedisCMS.

(* a handle: cached size / numHashes, the bitset key and its cached size, the metadata key;
   rb_nil: the bitset pointer is nil (re-attachment found no bitset key) *)
Record rbloom := mkRbloom {
  rb_size : N; rb_k : N; rb_key : bytes; rb_bsize : N; rb_meta : bytes; rb_nil : bool }.

Definition f_size : bytes := [115;105;122;101].                          (* "size" *)
Definition f_numhashes : bytes := [110;117;109;72;97;115;104;101;115].   (* "numHashes" *)
Definition f_bitsetkey : bytes := [98;105;116;115;101;116;75;101;121].   (* "bitsetKey" *)

(* NewRedisBloomFilterWithParameters, given the computed (size0, k0): SET key (size0 zero bytes),
   HSET metadata with the unclamped numbers, then NewBloomFilterWithBitSet *)
Definition rbloom_new (s : store) (size0 k0 : N) (key meta : bytes) : outcome rbloom * store :=
  let s1 := r_set s key (repeat 0 (N.to_nat size0)) in
  let s2 := r_hset s1 meta [(f_size, dec (N.max size0 1)); (f_numhashes, dec (N.max k0 1)); (f_bitsetkey, key)] in
  (Ok (mkRbloom (N.max size0 1) (N.max k0 1) key size0 meta false), s2).

(* ConvertByteToLittleEndianByte: reverse the 8 bits *)
Definition rev8 (x : N) : N :=
  fold_left (fun acc i => if N.testbit x i then N.lor acc (2 ^ (7 - i)) else acc) (nseq 8) 0.
(* uint64ArrayToByteArray: little-endian bytes of each word, each bit-reversed *)
Definition word_bytes_le (w : N) : bytes := map (fun i => (w / 256 ^ i) mod 256) (nseq 8).
Definition words_to_redis (ws : list N) : bytes := flat_map (fun w => map rev8 (word_bytes_le w)) ws.

(* NewRedisBloomFilterFromBitSet (after the repair: the metadata names the bitset key and the
   handle keeps its metadata key) *)
Definition rbloom_from_words (s : store) (ws : list N) (k0 : N) (key meta : bytes) : outcome rbloom * store :=
  let size := N.max (N.of_nat (length ws) * 64) 1 in
  let k := N.max k0 1 in
  let s1 := r_set s key (repeat 0 (length ws * 64)) in
  let s2 := r_set s1 key (words_to_redis ws) in
  let s3 := r_hset s2 meta [(f_size, dec size); (f_numhashes, dec k); (f_bitsetkey, key)] in
  (Ok (mkRbloom size k key (N.of_nat (length ws) * 64) meta false), s3).

(* NewRedisBloomFilterFromKey: fromRedisKey GETs the bitset and creates a junk bitset of 8x its
   byte length under a fresh key; a missing bitset leaves a nil filter *)
Definition rbloom_attach (s : store) (meta junk : bytes) : outcome rbloom * store :=
  let size := atoi (r_hget s meta f_size) in
  let k := atoi (r_hget s meta f_numhashes) in
  let bkey := match r_hget s meta f_bitsetkey with Some b => b | None => [] end in
  match r_get s bkey with
  | None => (Ok (mkRbloom size k [] 0 meta true), s)
  | Some v =>
      let bs := N.of_nat (length v) * 8 in
      (Ok (mkRbloom size k bkey bs meta false), r_set s junk (repeat 0 (N.to_nat bs)))
  end.

Section WithPos.
Variable bpos : N -> N -> bytes -> list N.

Definition rbloom_insert (s : store) (h : rbloom) (x : bytes) : outcome unit * store :=
  if rb_nil h then (Panic P_NIL, s)
  else (Ok tt, fold_left (fun st i => r_setbit1 st (rb_key h) i) (bpos (rb_size h) (rb_k h) x) s).

Definition rbloom_lookup (s : store) (h : rbloom) (x : bytes) : outcome bool :=
  match bpos (rb_size h) (rb_k h) x with
  | [] => Ok true
  | ps => if rb_nil h then Panic P_NIL else Ok (forallb (r_getbit s (rb_key h)) ps)
  end.
End WithPos.

(* Equals: parameters, then GET both strings (a missing key is an error) *)
Definition rbloom_equals (s : store) (a b : rbloom) : outcome bool :=
  if negb (rb_size a =? rb_size b) || negb (rb_k a =? rb_k b) then Ok false
  else if rb_nil a || rb_nil b then Panic P_NIL
  else match r_get s (rb_key a), r_get s (rb_key b) with
       | Some x, Some y => Ok (bytes_eqb x y)
       | _, _ => Err E_GENERIC
       end.

(* marshal: bytes bit-reversed, sequence reversed, 8-byte size prefix *)
Definition rbloom_image (s : store) (h : rbloom) : outcome bytes :=
  if rb_nil h then Panic P_NIL
  else match r_get s (rb_key h) with
       | Some v => Ok (u64be (rb_bsize h) ++ rev (map rev8 v))
       | None => Err E_GENERIC
       end.
(* Import: size, k from the document; unmarshal: size from the first 8 bytes, SET of the rest
   reversed back *)
Definition rbloom_import (s : store) (h : rbloom) (m k : N) (raw : bytes) : outcome rbloom * store :=
  if rb_nil h then (Panic P_NIL, s)
  else if (length raw <? 8)%nat then (Panic P_INDEX, s)
  else
    let bs := be_val (firstn 8 raw) 0 in
    let body := map rev8 (rev (skipn 8 raw)) in
    let s1 := r_set s (rb_key h) body in
    let s2 := match rb_meta h with
              | [] => s1
              | mk => r_hset s1 mk [(f_size, dec m); (f_numhashes, dec k)]
              end in
    (Ok (mkRbloom m k (rb_key h) bs (rb_meta h) false), s2).
