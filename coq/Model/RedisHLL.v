(* RedisHLL.v — Redis-backed HyperLogLog (hyperloglog_redis.go) and its Lua scripts. *)
From GX.Model Require Import Base HLL Redis RedisCMS.
From Coq Require Import ZArith.

Record rhll := mkRhll { rh_m : N; rh_p : N; rh_alpha : N; rh_key : bytes; rh_meta : bytes }.

Definition f_numreg : bytes := [110;117;109;82;101;103;105;115;116;101;114;115].   (* "numRegisters" *)

(* makeAbstractHyperLogLog *)
Definition hll_abstract (m : N) : outcome unit :=
  if m =? 0 then Panic P_OTHER else if negb (is_pow2 m) then Err E_GENERIC else Ok tt.

(* NewHyperLogLogRedis: HSET metadata, then the init script (two LPUSHes of m/2 zeros; m = 1
   pushes nothing, which is a script error after the metadata was written) *)
Definition rhll_new (s : store) (m alpha : N) (key meta : bytes) : outcome rhll * store :=
  match hll_abstract m with
  | Panic t => (Panic t, s)
  | Err t => (Err t, s)
  | Ok _ =>
      let s1 := r_hset s meta [(f_numreg, dec m); (f_key, key)] in
      if m =? 1 then (Err E_GENERIC, s1)
      else (Ok (mkRhll m (N.log2 m) alpha key meta),
            r_lpush (r_lpush s1 key (repeat [48] (N.to_nat (m / 2)))) key (repeat [48] (N.to_nat (m / 2))))
  end.

Definition rhll_attach (s : store) (meta : bytes) (alpha_of : N -> N) : outcome rhll :=
  let m := atoi (r_hget s meta f_numreg) in
  match hll_abstract m with
  | Panic t => Panic t
  | Err t => Err t
  | Ok _ => Ok (mkRhll m (N.log2 m) (alpha_of m)
                       (match r_hget s meta f_key with Some k => k | None => [] end) meta)
  end.

Section WithHash.
Variable hic : N -> bytes -> N * N.

(* update script with uint8(index), uint8(count) *)
Definition rhll_update (s : store) (h : rhll) (x : bytes) : outcome unit * store :=
  let ic := hic (rh_p h) x in
  let idx := wrap8 (fst ic) in
  let v := wrap8 (snd ic) in
  match r_lindex s (rh_key h) idx with
  | None => (Err E_GENERIC, s)
  | Some cur =>
      match lua_tonum cur with
      | None => (Err E_GENERIC, s)
      | Some c =>
          let nv := if c <? v then dec v else cur in
          match r_lset s (rh_key h) idx nv with
          | Some s' => (Ok tt, s')
          | None => (Err E_GENERIC, s)
          end
      end
  end.
End WithHash.

(* the first m registers as numbers (None if the list is shorter or holds a non-number) *)
Fixpoint regs_num (n : nat) (l : list bytes) : option (list N) :=
  match n with
  | O => Some []
  | S k => match l with
           | x :: t => match undec x, regs_num k t with
                       | Some v, Some r => Some (v :: r)
                       | _, _ => None
                       end
           | [] => None
           end
  end.
Definition rhll_regs (s : store) (h : rhll) : option (list N) :=
  regs_num (N.to_nat (rh_m h)) (r_list s (rh_key h)).

(* harmonic-mean script (after the repair: returned as a decimal string, %.14g): the sum as an
   exact dyadic rational numerator over 2^255 *)
Definition rhll_hmean_num (s : store) (h : rhll) : option N :=
  match rhll_regs s h with
  | Some regs => Some (sumN (map (fun r => 2 ^ (255 - N.min r 255)) regs))
  | None => None
  end.

(* merge script (after the repair): register-wise max over the first m entries, DEL + RPUSH *)
Fixpoint merge_vals (n : nat) (a b : list bytes) : option (list bytes) :=
  match n with
  | O => Some a
  | S k =>
      match a, b with
      | x :: a', y :: b' =>
          match undec x, undec y, merge_vals k a' b' with
          | Some p, Some q, Some t => Some ((if p <? q then y else x) :: t)
          | _, _, _ => None
          end
      | _, _ => None
      end
  end.
Definition rhll_merge (s : store) (a b : rhll) : outcome unit * store :=
  if negb (rh_m a =? rh_m b) then (Err E_MISMATCH, s)
  else match merge_vals (N.to_nat (rh_m a)) (r_list s (rh_key a)) (r_list s (rh_key b)) with
       | Some v => (Ok tt, r_rpush (sdel s (rh_key a)) (rh_key a) v)
       | None => (Err E_GENERIC, s)
       end.

(* compare script: numeric comparison of the first m entries (two missing entries are equal) *)
Fixpoint cmp_regs (n : nat) (a b : list bytes) : bool :=
  match n with
  | O => true
  | S k =>
      match a, b with
      | x :: a', y :: b' => (match undec x, undec y with
                             | Some p, Some q => p =? q
                             | None, None => true
                             | _, _ => false
                             end) && cmp_regs k a' b'
      | [], [] => true
      | _, _ => false
      end
  end.
Definition rhll_equals (s : store) (a b : rhll) : bool :=
  if negb (rh_m a =? rh_m b) then false
  else cmp_regs (N.to_nat (rh_m a)) (r_list s (rh_key a)) (r_list s (rh_key b)).

(* Export: registers[i] = uint8(Atoi(result[i])) for i < m; a shorter list panics *)
Definition rhll_export_regs (s : store) (h : rhll) : outcome (list N) :=
  let l := r_list s (rh_key h) in
  if (length l <? N.to_nat (rh_m h))%nat then Panic P_INDEX
  else Ok (map (fun v => wrap8 (atoi (Some v))) (firstn (N.to_nat (rh_m h)) l)).

(* Import (after the repair): DEL + RPUSH of the registers, metadata rewritten *)
Definition rhll_import (s : store) (h : rhll) (m p alpha : N) (regs : list N) (key : bytes)
  : outcome rhll * store :=
  let h' := mkRhll m p alpha key (rh_meta h) in
  let s1 := r_hset s (rh_meta h) [(f_numreg, dec m); (f_key, key)] in
  match regs with
  | [] => (Err E_GENERIC, sdel s1 key)
  | _ => (Ok h', r_rpush (sdel s1 key) key (map dec regs))
  end.
