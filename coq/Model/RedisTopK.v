(* RedisTopK.v — Redis-backed Top-K (top_k_redis.go): Count-Min sketch in Redis + sorted set. *)
From GX.Model Require Import Base Redis RedisCMS Heap TopK.

Record rtopk := mkRtopk {
  rt_k : N; rt_er : N; rt_acc : N; rt_sketch : rcms; rt_heap : bytes; rt_meta : bytes }.

Definition f_k : bytes := [107].
Definition f_heapkey : bytes := [104;101;97;112;75;101;121].
Definition f_errorrate : bytes := [101;114;114;111;114;82;97;116;101].
Definition f_accuracy : bytes := [97;99;99;117;114;97;99;121].
Definition f_sketchkey : bytes := [115;107;101;116;99;104;75;101;121].

(* NewTopKRedis, given the sketch dimensions and the float texts go-redis writes *)
Definition rtopk_new (s : store) (k rows cols er acc : N) (ertxt acctxt : bytes)
           (skey smeta hkey meta : bytes) : outcome rtopk * store :=
  match rcms_new s rows cols skey smeta with
  | (Ok sk, s1) =>
      let s2 := r_hset s1 meta [(f_k, dec k); (f_heapkey, hkey); (f_errorrate, ertxt);
                                (f_accuracy, acctxt); (f_sketchkey, smeta)] in
      (Ok (mkRtopk k er acc sk hkey meta), s2)
  | (Err _, s1) => (Panic P_NIL, s1)     (* sketch.MetadataKey() on the nil sketch *)
  | (Panic t, s1) => (Panic t, s1)
  end.

(* NewTopKRedisFromKey: k, the heap key and the sketch's metadata key from the metadata hash, then
   NewCountMinSketchRedisFromKey; the two rates are parsed from their decimal text by the caller *)
Definition rtopk_attach (s : store) (meta : bytes) (er acc : N) : outcome rtopk :=
  let k := atoi (r_hget s meta f_k) in
  let hkey := match r_hget s meta f_heapkey with Some b => b | None => [] end in
  let smeta := match r_hget s meta f_sketchkey with Some b => b | None => [] end in
  match rcms_attach s smeta with
  | Ok sk => Ok (mkRtopk k er acc sk hkey meta)
  | Err e => Err e
  | Panic e => Panic e
  end.

(* importHeap: DEL the heap key, then one ZADD per exported entry, in document order *)
Definition rtopk_import_heap (s : store) (hkey : bytes) (entries : list (bytes * N)) : store :=
  fold_left (fun st e => r_zadd st hkey (fst e) (snd e)) entries (sdel s hkey).

Section WithPos.
Variable cpos : N -> N -> bytes -> list N.

(* Insert: Update (error ignored), Count, ZCARD, ZRANGE 0 0, then ZSCORE / ZREM / ZADD / ZCARD /
   ZPOPMIN. Scores are float64(frequency): exact below 2^53. *)
Definition rtopk_insert (s : store) (t : rtopk) (x : bytes) (count : N) : outcome rtopk * store :=
  if count =? 0 then (Panic P_OTHER, s)
  else
    let '(ru, s1) := rcms_update cpos s (rt_sketch t) x count in
    let sk := match ru with Ok sk' => sk' | _ => rt_sketch t end in
    let t1 := mkRtopk (rt_k t) (rt_er t) (rt_acc t) sk (rt_heap t) (rt_meta t) in
    match rcms_count cpos s1 sk x with
    | Ok f =>
        let z := r_zset s1 (rt_heap t) in
        let accept := (N.of_nat (length z) <? rt_k t) ||
                     (match z with e :: _ => snd e <=? f | [] => false end) in
        if accept then
          let s2 := match z_score x z with
                    | Some sc => if 0 <? sc then r_zrem s1 (rt_heap t) x else s1
                    | None => s1
                    end in
          let s3 := r_zadd s2 (rt_heap t) x (round53 f) in
          let s4 := if rt_k t <? N.of_nat (length (r_zset s3 (rt_heap t))) then r_zpopmin s3 (rt_heap t) else s3 in
          (Ok t1, s4)
        else (Ok t1, s1)
    | Err e => (Err e, s1)
    | Panic e => (Panic e, s1)
    end.
End WithPos.

(* Values: the sorted set reversed, then sorted by (count desc, element asc) *)
Definition rtopk_values (s : store) (t : rtopk) : list hentry := sort_entries (rev (r_zset s (rt_heap t))).

(* compareHeaps (after the repair): members and scores of the first k entries as strings *)
Fixpoint zcmp (n : nat) (a b : list (bytes * N)) : bool :=
  match n with
  | O => true
  | S k => match a, b with
           | x :: a', y :: b' => bytes_eqb (fst x) (fst y) && (snd x =? snd y) && zcmp k a' b'
           | [], [] => true
           | _, _ => false
           end
  end.
Definition rtopk_equals (s : store) (a b : rtopk) : bool :=
  if negb (rt_k a =? rt_k b) || negb (rt_acc a =? rt_acc b) || negb (rt_er a =? rt_er b) then false
  else if negb (rcms_equals s (rt_sketch a) (rt_sketch b)) then false
  else zcmp (N.to_nat (rt_k a)) (r_zset s (rt_heap a)) (r_zset s (rt_heap b)).
