#!/bin/bash
# usage: dbg.sh File.v LINE  — show the goal just before LINE
f=$1; n=$2
head -n $((n-1)) $f > /tmp/dbg_$$.v
echo "Show." >> /tmp/dbg_$$.v
coqtop -Q Model GX.Model -Q Proofs GX.Proofs -Q Properties GX.Properties -Q Generated GX.Generated < /tmp/dbg_$$.v 2>&1 | tail -${3:-40}
rm -f /tmp/dbg_$$.v
