(* Small clauses of C06 / C12 / C13 on the Redis models that the refinement theorems do not state
   by themselves: rejected merges leave the store untouched; a Remove of an element that Lookup
   reports absent answers false and leaves the store untouched, a Remove of one it reports present
   answers true; a filter holding no entry reports every element absent. *)
From GX.Model Require Import Base Redis RedisCMS RedisHLL Cuckoo RedisCuckoo.
From GX.Proofs Require Import ListLemmas CuckooProofs CuckooInv RedisProofs RedisCuckooInv.
From Coq Require Import Lia ZArith ZifyN ZifyNat ZifyBool.

Theorem rcms_merge_mismatch s a b :
  rc_rows a <> rc_rows b \/ rc_cols a <> rc_cols b -> rcms_merge s a b = (Err E_MISMATCH, s).
Proof.
  intros H. unfold rcms_merge. destruct (rc_rows a =? rc_rows b) eqn:E1; [|reflexivity].
  destruct (rc_cols a =? rc_cols b) eqn:E2; [|reflexivity]. exfalso. destruct H; lia.
Qed.

Theorem rhll_merge_mismatch s a b : rh_m a <> rh_m b -> rhll_merge s a b = (Err E_MISMATCH, s).
Proof. intros H. unfold rhll_merge. destruct (rh_m a =? rh_m b) eqn:E; [lia|reflexivity]. Qed.

Section CkRemove.
Variable h64 : bytes -> N.

(* Remove answers what Lookup answers; when that is false the store is untouched *)
Theorem rck_remove_iff_lookup s h x :
  match rck_lookup h64 s h x, rck_remove h64 s h x with
  | Ok l, (Ok r, s') => l = r /\ (r = false -> s' = s)
  | Panic t, (Panic t', s') => t = t' /\ s' = s
  | Err t, (Err t', s') => t = t' /\ s' = s
  | _, _ => False
  end.
Proof.
  unfold rck_lookup, rck_remove. destruct (rck_positions h64 h x) as [[[fp i1] i2]|t|t]; cbn [obind]; [|auto|auto].
  destruct (rq_size h =? 0); [auto|].
  destruct (rbk_lookup s (bucket_key (rq_key h) i1) fp); [split; [reflexivity|discriminate]|].
  destruct (rbk_lookup s (bucket_key (rq_key h) i2) fp); [split; [reflexivity|discriminate]|].
  split; reflexivity.
Qed.
End CkRemove.

Section CkEmpty.
Variable key meta : bytes.
Variable size bsize fpl retries : N.
Variable h64 : bytes -> N.

(* a consistent filter with no stored entry reports every element (with a fingerprint) absent *)
Theorem rck_empty_all_absent s x fp i1 i2 :
  buckets_ok key size bsize s -> tot key size s = 0%nat ->
  rck_positions h64 (hdl key meta size bsize fpl retries) x = Ok (fp, i1, i2) ->
  fp <> [] -> i1 < size -> i2 < size -> 0 < size ->
  rck_lookup h64 s (hdl key meta size bsize fpl retries) x = Ok false.
Proof.
  intros Hok Htot Hpos Hne H1 H2 Hsz.
  assert (Hz : forall i, i < size -> occ (blist key s i) = 0%nat).
  { intros i Hi. unfold tot in Htot.
    assert (G : forall l, list_sum l = 0%nat -> forall v, In v l -> v = 0%nat).
    { induction l as [|a t IH]; intros Hs v Hv; [destruct Hv|]. cbn [list_sum fold_right] in Hs.
      change (fold_right Nat.add 0%nat t) with (list_sum t) in Hs. destruct Hv as [<-|Hv]; [lia|apply IH; [lia|exact Hv]]. }
    apply (G _ Htot). apply in_map_iff. exists i. split; [reflexivity|apply In_nseq; exact Hi]. }
  assert (Hno : forall i, i < size -> rbk_lookup s (bucket_key key i) fp = false).
  { intros i Hi. destruct (rbk_lookup s (bucket_key key i) fp) eqn:E; [|reflexivity].
    apply (lookup_in key) in E. exfalso. exact (occ_zero_no_entry _ fp (Hz i Hi) Hne E). }
  unfold rck_lookup. rewrite Hpos. cbn [obind rq_size rq_key hdl]. replace (size =? 0) with false by lia.
  rewrite (Hno i1 H1), (Hno i2 H2). reflexivity.
Qed.
End CkEmpty.
