(* TopKPair.v — C08 for Top-K: the in-memory heap and the Redis sorted set, fed the same inserts with
   the same estimates, agree UP TO THE CHOICE AMONG ENTRIES TIED AT THE SMALLEST COUNT: same number
   of entries, the same smallest count, the same entries above it (and therefore the same multiset
   of counts). The two variants evict different entries among those tied at the minimum (the heap
   whatever container/heap's array order yields, Redis the smallest (score, member)), so equality
   is not preserved; this relation is.
   Part 1 is pure list combinatorics: an abstract description of one Insert on a collection of
   entries (step), satisfied by both variants, and the relation J it preserves. *)
From GX.Model Require Import Base Heap.
From GX.Proofs Require Import ListLemmas TopKInv.
From Coq Require Import Permutation Lia ZifyN ZifyNat ZifyBool Bool.

Notation entry := (bytes * N)%type.

Definition abv (mu : N) (l : list entry) : list entry := filter (fun e => mu <? snd e) l.
Definition lvl (mu : N) (l : list entry) : list entry := filter (fun e => snd e =? mu) l.
Definition lower (mu : N) (l : list entry) : Prop := forall e, In e l -> mu <= snd e.

Lemma abv_perm mu a b : Permutation a b -> Permutation (abv mu a) (abv mu b).
Proof.
  induction 1 as [|x l l' P IH|x y l|l1 l2 l3 P1 IH1 P2 IH2]; unfold abv in *; cbn [filter].
  - constructor.
  - destruct (mu <? snd x); [constructor|]; exact IH.
  - destruct (mu <? snd y), (mu <? snd x); try apply Permutation_refl. apply perm_swap.
  - eapply perm_trans; eauto.
Qed.
Lemma lvl_perm mu a b : Permutation a b -> Permutation (lvl mu a) (lvl mu b).
Proof.
  induction 1 as [|x l l' P IH|x y l|l1 l2 l3 P1 IH1 P2 IH2]; unfold lvl in *; cbn [filter].
  - constructor.
  - destruct (snd x =? mu); [constructor|]; exact IH.
  - destruct (snd y =? mu), (snd x =? mu); try apply Permutation_refl. apply perm_swap.
  - eapply perm_trans; eauto.
Qed.
Lemma lower_perm mu a b : Permutation a b -> lower mu a -> lower mu b.
Proof. intros P H e He. apply H. eapply Permutation_in; [apply Permutation_sym; exact P|exact He]. Qed.

Lemma split_levels mu l : lower mu l -> length l = (length (abv mu l) + length (lvl mu l))%nat.
Proof.
  induction l as [|e t IH]; intros H; [reflexivity|]. unfold abv, lvl in *. cbn [filter length].
  pose proof (H e (or_introl eq_refl)) as He.
  specialize (IH (fun x Hx => H x (or_intror Hx))).
  destruct (N.ltb_spec mu (snd e)), (N.eqb_spec (snd e) mu); cbn [length]; lia.
Qed.

Lemma no_level_all_above mu l : lower mu l -> lvl mu l = [] -> abv mu l = l.
Proof.
  induction l as [|e t IH]; intros H E; [reflexivity|]. unfold abv, lvl in *. cbn [filter] in *.
  pose proof (H e (or_introl eq_refl)) as He.
  destruct (N.eqb_spec (snd e) mu); [discriminate|].
  replace (mu <? snd e) with true by lia. f_equal. apply IH; [intros x Hx; apply H; right; exact Hx|exact E].
Qed.

Lemma abv_cons mu e l : abv mu (e :: l) = if mu <? snd e then e :: abv mu l else abv mu l.
Proof. reflexivity. Qed.

(* the smallest count of a non-empty list *)
Fixpoint lmin (l : list entry) : N :=
  match l with [] => 0 | [e] => snd e | e :: t => N.min (snd e) (lmin t) end.
Lemma lmin_lower l : lower (lmin l) l.
Proof.
  induction l as [|e t IH]; intros x Hx; [destruct Hx|]. destruct t as [|e2 t2].
  - destruct Hx as [<-|[]]. cbn. lia.
  - change (lmin (e :: e2 :: t2)) with (N.min (snd e) (lmin (e2 :: t2))).
    destruct Hx as [<-|Hx]; [lia|]. specialize (IH x Hx). lia.
Qed.
Lemma lmin_attained l : l <> [] -> lvl (lmin l) l <> [].
Proof.
  induction l as [|e t IH]; intros H; [congruence|]. destruct t as [|e2 t2].
  - unfold lvl. cbn. rewrite N.eqb_refl. discriminate.
  - change (lmin (e :: e2 :: t2)) with (N.min (snd e) (lmin (e2 :: t2))).
    unfold lvl. cbn [filter]. destruct (N.eqb_spec (snd e) (N.min (snd e) (lmin (e2 :: t2)))); [discriminate|].
    assert (E : N.min (snd e) (lmin (e2 :: t2)) = lmin (e2 :: t2)) by lia. rewrite E.
    apply IH. discriminate.
Qed.

Lemma lmin_is mu (l : list entry) : l <> [] -> lower mu l -> lvl mu l <> [] -> lmin l = mu.
Proof.
  intros Hne Hl Hlv.
  pose proof (lmin_attained l Hne) as At. destruct (lvl (lmin l) l) as [|e t] eqn:E; [congruence|].
  assert (He : In e (lvl (lmin l) l)) by (rewrite E; left; reflexivity).
  unfold lvl in He. apply filter_In in He. destruct He as [He1 He2]. apply N.eqb_eq in He2.
  pose proof (Hl e He1).
  destruct (lvl mu l) as [|e2 t2] eqn:E2; [congruence|].
  assert (He3 : In e2 (lvl mu l)) by (rewrite E2; left; reflexivity).
  unfold lvl in He3. apply filter_In in He3. destruct He3 as [He4 He5]. apply N.eqb_eq in He5.
  pose proof (lmin_lower l e2 He4). lia.
Qed.

(* entries with distinct names: cancelling the entry of x *)
Lemma names_in (l : list entry) e : In e l -> In (fst e) (names l).
Proof. intros H. unfold names. apply in_map. exact H. Qed.

Lemma perm_cancel_name (x : bytes) c1 c2 (r1 r2 : list entry) :
  Permutation ((x, c1) :: r1) ((x, c2) :: r2) -> ~ In x (names r1) -> ~ In x (names r2) ->
  c1 = c2 /\ Permutation r1 r2.
Proof.
  intros P H1 H2.
  assert (Hin : In (x, c1) ((x, c2) :: r2)) by (eapply Permutation_in; [exact P|left; reflexivity]).
  destruct Hin as [E|Hin].
  - injection E as <-. split; [reflexivity|]. eapply Permutation_cons_inv. exact P.
  - exfalso. apply H2. apply (names_in r2 (x, c1)). exact Hin.
Qed.

(* ---------- one Insert, abstractly ---------- *)
(* x's entry taken out: rest *)
Definition without (x : bytes) (h rest : list entry) : Prop :=
  ~ In x (names rest) /\ ((~ In x (names h) /\ rest = h) \/ exists cx, Permutation h ((x, cx) :: rest)).

Definition step (k : nat) (h : list entry) (x : bytes) (f : N) (h' : list entry) : Prop :=
  (length h = k /\ lvl (lmin h) h <> [] /\ f < lmin h /\ h' = h) \/
  (((length h < k)%nat \/ lmin h <= f) /\
   exists rest, without x h rest /\
     (((length rest + 1 <= k)%nat /\ Permutation h' ((x, f) :: rest)) \/
      ((k < length rest + 1)%nat /\ exists m, Permutation ((x, f) :: rest) (m :: h') /\ lower (snd m) ((x, f) :: rest)))).

Definition J (k : nat) (a b : list entry) : Prop :=
  length a = length b /\ (length a <= k)%nat /\
  (Permutation a b \/
   (length a = k /\ exists mu, lower mu a /\ lower mu b /\ Permutation (abv mu a) (abv mu b) /\ lvl mu a <> [])).

Lemma without_length x (h rest : list entry) : without x h rest ->
  (~ In x (names h) /\ length rest = length h) \/ (In x (names h) /\ S (length rest) = length h).
Proof.
  intros (_ & [[Hn ->]|(cx & P)]); [left; auto|right].
  split; [apply (Permutation_in _ (Permutation_sym (names_perm _ _ P))); left; reflexivity|].
  rewrite (Permutation_length P). reflexivity.
Qed.

(* the level structure shared by a and b, in the full case *)
Lemma J_levels k (a b : list entry) : (1 <= k)%nat -> J k a b -> length a = k ->
  exists mu, lower mu a /\ lower mu b /\ Permutation (abv mu a) (abv mu b) /\ lvl mu a <> [] /\ lvl mu b <> [].
Proof.
  intros Hk (Hl & _ & [P|(_ & mu & La & Lb & Pa & Hne)]) Hfull.
  - assert (Ha : a <> []) by (destruct a; [cbn in Hfull; lia|discriminate]).
    exists (lmin a). split; [apply lmin_lower|]. split; [eapply lower_perm; [exact P|apply lmin_lower]|].
    split; [apply abv_perm; exact P|]. split; [apply lmin_attained; exact Ha|].
    intros E. apply (lmin_attained a Ha). pose proof (Permutation_length (lvl_perm (lmin a) a b P)) as HL.
    rewrite E in HL. destruct (lvl (lmin a) a); [reflexivity|discriminate].
  - exists mu. split; [exact La|]. split; [exact Lb|]. split; [exact Pa|]. split; [exact Hne|].
    intros E. pose proof (split_levels mu a La). pose proof (split_levels mu b Lb).
    pose proof (Permutation_length Pa). rewrite E in *. cbn [length] in *.
    destruct (lvl mu a); [congruence|cbn [length] in *; lia].
Qed.

(* a minimum of a list bounded below by mu and containing a mu-level entry is at level mu *)
Lemma min_is_level mu (l : list entry) m : lower mu l -> lvl mu l <> [] -> In m l -> lower (snd m) l -> snd m = mu.
Proof.
  intros Hl Hne Hm Hmin. pose proof (Hl m Hm).
  destruct (lvl mu l) as [|e t] eqn:E; [congruence|].
  assert (He : In e (lvl mu l)) by (rewrite E; left; reflexivity).
  unfold lvl in He. apply filter_In in He. destruct He as [He1 He2]. apply N.eqb_eq in He2.
  pose proof (Hmin e He1). lia.
Qed.

(* what one accepted Insert does to the part above mu, when x's old entry is not above mu *)
Lemma lvl_cons_ne mu (e : entry) l : lvl mu l <> [] -> lvl mu (e :: l) <> [].
Proof. unfold lvl. cbn [filter]. destruct (snd e =? mu); [discriminate|auto]. Qed.

Theorem step_preserves_J k (a b : list entry) x f (a' b' : list entry) :
  (1 <= k)%nat -> NoDup (names a) -> NoDup (names b) ->
  J k a b -> step k a x f a' -> step k b x f b' -> J k a' b'.
Proof.
  intros Hk Hnda Hndb HJ Sa Sb. pose proof HJ as (Hl & Hle & Hrel).
  (* both reject or both accept *)
  assert (Hmin : length a = k -> lmin a = lmin b).
  { intros Hfull. destruct (J_levels k a b Hk HJ Hfull) as (mu & La & Lb & _ & Na & Nb).
    assert (Ea : lmin a = mu).
    { assert (Ha : a <> []) by (destruct a; [cbn in Hfull; lia|discriminate]).
      pose proof (lmin_attained a Ha) as At. destruct (lvl (lmin a) a) as [|e t] eqn:E; [congruence|].
      assert (He : In e (lvl (lmin a) a)) by (rewrite E; left; reflexivity).
      unfold lvl in He. apply filter_In in He. destruct He as [He1 He2]. apply N.eqb_eq in He2.
      pose proof (La e He1).
      destruct (lvl mu a) as [|e2 t2] eqn:E2; [congruence|].
      assert (He3 : In e2 (lvl mu a)) by (rewrite E2; left; reflexivity).
      unfold lvl in He3. apply filter_In in He3. destruct He3 as [He4 He5]. apply N.eqb_eq in He5.
      pose proof (lmin_lower a e2 He4). lia. }
    assert (Eb : lmin b = mu).
    { assert (Hb : b <> []).
      { intros Eb0. assert (Fb0 : length b = k) by (transitivity (length a); [symmetry; exact Hl|exact Hfull]).
        rewrite Eb0 in Fb0. cbn [length] in Fb0. lia. }
      pose proof (lmin_attained b Hb) as At. destruct (lvl (lmin b) b) as [|e t] eqn:E; [congruence|].
      assert (He : In e (lvl (lmin b) b)) by (rewrite E; left; reflexivity).
      unfold lvl in He. apply filter_In in He. destruct He as [He1 He2]. apply N.eqb_eq in He2.
      pose proof (Lb e He1).
      destruct (lvl mu b) as [|e2 t2] eqn:E2; [congruence|].
      assert (He3 : In e2 (lvl mu b)) by (rewrite E2; left; reflexivity).
      unfold lvl in He3. apply filter_In in He3. destruct He3 as [He4 He5]. apply N.eqb_eq in He5.
      pose proof (lmin_lower b e2 He4). lia. }
    congruence. }
  destruct Sa as [(Fa & _ & Hfa & ->)|(Acca & ra & Wa & Outa)].
  { (* a rejects: so does b *)
    destruct Sb as [(_ & _ & _ & ->)|(Accb & _)]; [exact HJ|].
    exfalso. rewrite (Hmin Fa) in Hfa. destruct Accb as [Hlt|Hge]; lia. }
  destruct Sb as [(Fb & _ & Hfb & ->)|(Accb & rb & Wb & Outb)].
  { exfalso. assert (Fa : length a = k) by lia. rewrite <- (Hmin Fa) in Hfb. destruct Acca as [Hlt|Hge]; lia. }
  (* both accept *)
  destruct (Nat.lt_ge_cases (length a) k) as [Hnf|Hfull0].
  - (* not full: a and b are permutations of each other, nothing is popped *)
    destruct Hrel as [P|(Hf & _)]; [|lia].
    assert (Prest : Permutation ra rb /\ length ra = length rb).
    { destruct Wa as (Hxa & [[Hna ->]|(ca & Pa)]); destruct Wb as (Hxb & [[Hnb ->]|(cb & Pb)]).
      - split; [exact P|exact Hl].
      - exfalso. apply Hna. apply (Permutation_in _ (Permutation_sym (names_perm _ _ P))).
        apply (Permutation_in _ (Permutation_sym (names_perm _ _ Pb))). left. reflexivity.
      - exfalso. apply Hnb. apply (Permutation_in _ (names_perm _ _ P)).
        apply (Permutation_in _ (Permutation_sym (names_perm _ _ Pa))). left. reflexivity.
      - assert (P2 : Permutation ((x, ca) :: ra) ((x, cb) :: rb)).
        { eapply perm_trans; [apply Permutation_sym; exact Pa|]. eapply perm_trans; [exact P|exact Pb]. }
        destruct (perm_cancel_name x ca cb ra rb P2 Hxa Hxb) as [_ Pr]. split; [exact Pr|apply Permutation_length; exact Pr]. }
    destruct Prest as [Pr Hlr].
    assert (Hra : (length ra + 1 <= k)%nat) by (destruct (without_length x a ra Wa) as [[_ E]|[_ E]]; lia).
    destruct Outa as [(_ & Pa')|(Hbad & _)]; [|lia].
    destruct Outb as [(_ & Pb')|(Hbad & _)]; [|lia].
    assert (P' : Permutation a' b').
    { eapply perm_trans; [exact Pa'|]. eapply perm_trans; [apply perm_skip; exact Pr|apply Permutation_sym; exact Pb']. }
    split; [apply Permutation_length; exact P'|]. split; [rewrite (Permutation_length Pa'); cbn [length]; lia|].
    left. exact P'.
  - (* full *)
    assert (Hfull : length a = k) by lia.
    destruct (J_levels k a b Hk HJ Hfull) as (mu & La & Lb & Pab & Na & Nb).
    assert (Hfmu : mu <= f).
    { destruct Acca as [Hlt|Hge]; [lia|].
      assert (Ha : a <> []) by (destruct a; [cbn in Hfull; lia|discriminate]).
      rewrite (lmin_is mu a Ha La Na) in Hge. exact Hge. }
    (* a generic description of one side *)
    assert (Side : forall (h r h' : list entry), NoDup (names h) -> length h = k -> lower mu h -> lvl mu h <> [] -> without x h r ->
              (((length r + 1 <= k)%nat /\ Permutation h' ((x, f) :: r)) \/
               ((k < length r + 1)%nat /\ exists m, Permutation ((x, f) :: r) (m :: h') /\ lower (snd m) ((x, f) :: r))) ->
              length h' = k /\ lower mu h' /\
              Permutation (abv mu h') (abv mu ((x, f) :: r)) /\
              ((exists cx, mu < cx /\ Permutation (abv mu h) ((x, cx) :: abv mu r) /\ In (x, cx) h) \/
               (Permutation (abv mu r) (abv mu h) /\ forall cx, In (x, cx) h -> cx = mu))).
    { intros h r h' Hnd Hf Lh Nh Wh Out.
      assert (Lr : lower mu ((x, f) :: r)).
      { intros e [<-|He]; [exact Hfmu|]. apply Lh. destruct Wh as (_ & [[_ ->]|(cx & Ph)]); [exact He|].
        eapply Permutation_in; [apply Permutation_sym; exact Ph|right; exact He]. }
      destruct Wh as (Hxr & [[Hnx ->]|(cx & Ph)]).
      - (* x not tracked: pushed, then a minimum popped *)
        destruct Out as [(Hbad & _)|(_ & m & Pm & Hm)]; [lia|].
        assert (Em : snd m = mu).
        { apply (min_is_level mu ((x, f) :: h) m Lr (lvl_cons_ne mu (x, f) h Nh)); [|exact Hm].
          eapply Permutation_in; [apply Permutation_sym; exact Pm|left; reflexivity]. }
        split; [pose proof (Permutation_length Pm) as E; cbn [length] in E; lia|].
        split; [intros e He; apply Lr; eapply Permutation_in; [apply Permutation_sym; exact Pm|right; exact He]|].
        split.
        + pose proof (abv_perm mu _ _ Pm) as Pa. rewrite (abv_cons mu m h') in Pa.
          replace (mu <? snd m) with false in Pa by lia. apply Permutation_sym. exact Pa.
        + right. split; [apply Permutation_refl|]. intros cx Hin. exfalso. apply Hnx. apply (names_in h (x, cx)). exact Hin.
      - (* x tracked: its entry replaced, nothing popped *)
        assert (Hlr : S (length r) = length h) by (rewrite (Permutation_length Ph); reflexivity).
        destruct Out as [(_ & Ph')|(Hbad & _)]; [|lia].
        split; [rewrite (Permutation_length Ph'); cbn [length]; lia|].
        split; [eapply lower_perm; [apply Permutation_sym; exact Ph'|exact Lr]|].
        split; [apply abv_perm; exact Ph'|].
        pose proof (abv_perm mu _ _ Ph) as Pa. rewrite (abv_cons mu (x, cx) r) in Pa. cbn [snd] in Pa.
        assert (Hin : In (x, cx) h) by (eapply Permutation_in; [apply Permutation_sym; exact Ph|left; reflexivity]).
        destruct (N.ltb_spec mu cx).
        + left. exists cx. split; [assumption|]. split; [exact Pa|exact Hin].
        + right. split; [apply Permutation_sym; exact Pa|]. intros c2 Hin2.
          assert (c2 = cx).
          { assert (P2 : Permutation ((x, c2) :: (let rest2 := r in rest2)) ((x, cx) :: r) -> True) by auto.
            apply (Permutation_in _ Ph) in Hin2. destruct Hin2 as [E|Hin2]; [congruence|].
            exfalso. apply Hxr. apply (names_in r (x, c2)). exact Hin2. }
          subst c2. pose proof (Lh (x, cx) Hin). cbn [snd] in *. lia. }
    assert (Fb : length b = k) by lia.
    destruct (Side a ra a' Hnda Hfull La Na Wa Outa) as (Hla' & Lwa' & Pa' & Casea).
    destruct (Side b rb b' Hndb Fb Lb Nb Wb Outb) as (Hlb' & Lwb' & Pb' & Caseb).
    (* the parts above mu of the two rests agree *)
    assert (Prest : Permutation (abv mu ra) (abv mu rb)).
    { destruct Casea as [(ca & Hca & Pca & Hina)|(Pra & Hxa)]; destruct Caseb as [(cb & Hcb & Pcb & Hinb)|(Prb & Hxb)].
      - assert (P2 : Permutation ((x, ca) :: abv mu ra) ((x, cb) :: abv mu rb)).
        { eapply perm_trans; [apply Permutation_sym; exact Pca|]. eapply perm_trans; [exact Pab|exact Pcb]. }
        assert (Hn1 : ~ In x (names (abv mu ra))).
        { intros Hin. apply (proj1 Wa). unfold names in *. apply in_map_iff in Hin. destruct Hin as (e & E & He).
          apply in_map_iff. exists e. split; [exact E|]. unfold abv in He. apply filter_In in He. tauto. }
        assert (Hn2 : ~ In x (names (abv mu rb))).
        { intros Hin. apply (proj1 Wb). unfold names in *. apply in_map_iff in Hin. destruct Hin as (e & E & He).
          apply in_map_iff. exists e. split; [exact E|]. unfold abv in He. apply filter_In in He. tauto. }
        exact (proj2 (perm_cancel_name x ca cb _ _ P2 Hn1 Hn2)).
      - exfalso. assert (Hin : In (x, ca) (abv mu b)).
        { eapply Permutation_in; [exact Pab|]. eapply Permutation_in; [apply Permutation_sym; exact Pca|left; reflexivity]. }
        unfold abv in Hin. apply filter_In in Hin. destruct Hin as [Hin _]. pose proof (Hxb ca Hin). lia.
      - exfalso. assert (Hin : In (x, cb) (abv mu a)).
        { eapply Permutation_in; [apply Permutation_sym; exact Pab|]. eapply Permutation_in; [apply Permutation_sym; exact Pcb|left; reflexivity]. }
        unfold abv in Hin. apply filter_In in Hin. destruct Hin as [Hin _]. pose proof (Hxa cb Hin). lia.
      - eapply perm_trans; [exact Pra|]. eapply perm_trans; [exact Pab|apply Permutation_sym; exact Prb]. }
    assert (Pabv' : Permutation (abv mu a') (abv mu b')).
    { eapply perm_trans; [exact Pa'|]. eapply perm_trans; [|apply Permutation_sym; exact Pb'].
      rewrite !abv_cons. destruct (mu <? snd (x, f)); [apply perm_skip|]; exact Prest. }
    split; [lia|]. split; [lia|].
    destruct (lvl mu a') as [|e0 t0] eqn:Elvl.
    + (* no entry at level mu is left: then none in b' either, and the two are permutations *)
      left. pose proof (split_levels mu a' Lwa') as Sa'. pose proof (split_levels mu b' Lwb') as Sb'.
      pose proof (Permutation_length Pabv') as HL. rewrite Elvl in Sa'. cbn [length] in Sa'.
      assert (Eb : lvl mu b' = []) by (destruct (lvl mu b'); [reflexivity|cbn [length] in Sb'; lia]).
      rewrite <- (no_level_all_above mu a' Lwa' Elvl), <- (no_level_all_above mu b' Lwb' Eb). exact Pabv'.
    + right. split; [exact Hla'|]. exists mu. split; [exact Lwa'|]. split; [exact Lwb'|]. split; [exact Pabv'|].
      rewrite Elvl. discriminate.
Qed.

(* ---------- Part 2: the Redis sorted set performs a step ---------- *)
From GX.Model Require Import CMS TopK Redis RedisCMS RedisTopK.
From GX.Proofs Require Import CMSProofs HeapProofs RedisProofs RedisCMSRefine TopKRedisInv.

Lemma lmin_sorted (e : entry) t : zsorted (e :: t) -> lmin (e :: t) = snd e.
Proof.
  intros Hs. apply (lmin_is (snd e) (e :: t)); [discriminate| |].
  - intros y Hy. exact (zsorted_hd_min (e :: t) e t eq_refl Hs y Hy).
  - unfold lvl. cbn [filter]. rewrite N.eqb_refl. discriminate.
Qed.

Lemma zstep_is_step k (z : list entry) x f :
  zsorted z -> NoDup (names z) -> N.of_nat (length z) <= k -> 1 <= k ->
  step (N.to_nat k) z x f (zstep k z x f).
Proof.
  intros Hs Hnd Hlen Hk. unfold zstep.
  destruct ((N.of_nat (length z) <? k) || match z with e :: _ => snd e <=? f | [] => false end) eqn:Acc.
  - right. split.
    { apply orb_true_iff in Acc. destruct Acc as [A|A]; [left; lia|right].
      destruct z as [|e t]; [discriminate|]. rewrite (lmin_sorted e t Hs). lia. }
    exists (z_remove x z). split.
    { destruct (z_remove_spec x z Hnd) as [[Hn E]|(sc & P & Hn)].
      - rewrite E. split; [exact Hn|]. left. split; [exact Hn|reflexivity].
      - split; [exact Hn|]. right. exists sc. exact P. }
    pose proof (z_insert_perm (x, f) (z_remove x z)) as P3.
    pose proof (Permutation_length P3) as L3. cbn [length] in L3.
    destruct (k <? N.of_nat (length (z_insert (x, f) (z_remove x z)))) eqn:Pop.
    + right. split; [lia|].
      destruct (z_insert (x, f) (z_remove x z)) as [|m t3] eqn:E3; [cbn in L3; lia|].
      exists m. cbn [tl]. split; [apply Permutation_sym; exact P3|].
      assert (Hs3 : zsorted (m :: t3)) by (rewrite <- E3; apply z_insert_sorted, z_remove_sorted; exact Hs).
      intros y Hy. apply (zsorted_hd_min (m :: t3) m t3 eq_refl Hs3 y).
      eapply Permutation_in; [apply Permutation_sym; exact P3|exact Hy].
    + left. split; [lia|exact P3].
  - left. apply orb_false_iff in Acc. destruct Acc as [A1 A2].
    destruct z as [|e t]; [cbn in *; lia|].
    split; [lia|]. split; [apply lmin_attained; discriminate|]. split; [|reflexivity].
    rewrite (lmin_sorted e t Hs). lia.
Qed.

(* ---------- Part 3: the in-memory heap performs a step ---------- *)
Section Mem.
Variable cpos : N -> N -> bytes -> list N.
Variable rows cols : N.
Hypothesis cpos_len : forall x, length (cpos rows cols x) = N.to_nat rows.
Hypothesis cpos_lt : forall x p, In p (cpos rows cols x) -> p < cols.
Hypothesis rows_pos : 0 < rows.

Lemma heap_root_min (h : list entry) : heap_ok h -> h <> [] -> lmin h = hfreq (Heap.hget h 0).
Proof.
  intros Hok Hne. apply (lmin_is (hfreq (Heap.hget h 0)) h Hne).
  - intros e He. exact (hmin_le h e Hok He).
  - pose proof (hmin_in h Hne) as Hin. intros E.
    assert (Hf : In (Heap.hget h 0) (lvl (hfreq (Heap.hget h 0)) h)).
    { unfold lvl. apply filter_In. split; [exact Hin|]. unfold hfreq. apply N.eqb_refl. }
    rewrite E in Hf. destruct Hf.
Qed.

Lemma mem_insert_is_step (t t' : topk) x c :
  heap_ok (t_heap t) -> NoDup (names (t_heap t)) -> N.of_nat (length (t_heap t)) <= t_k t -> 1 <= t_k t ->
  topk_insert cpos t x c = Ok t' ->
  t_sketch t' = cms_update cpos (t_sketch t) x c /\ t_k t' = t_k t /\
  step (N.to_nat (t_k t)) (t_heap t) x (cms_count cpos (cms_update cpos (t_sketch t) x c) x) (t_heap t').
Proof.
  intros Hok Hnd Hlen Hk. unfold topk_insert. destruct (c =? 0); [discriminate|].
  set (s' := cms_update cpos (t_sketch t) x c). set (f := cms_count cpos s' x). set (h := t_heap t) in *.
  destruct (replaced_spec cpos rows cols cpos_len cpos_lt rows_pos h x f Hok Hnd) as (rest & Prep & Hokrep & Hxrest & _ & Hcase).
  fold (replaced h x f).
  assert (Hw : without x h rest).
  { split; [exact Hxrest|]. destruct Hcase as [[Hn E]|(cx & P)]; [left; auto|right; exists cx; exact P]. }
  assert (Lrep : length (replaced h x f) = S (length rest)) by (rewrite (Permutation_length Prep); reflexivity).
  assert (Acc : forall h2, (if t_k t <? N.of_nat (length (replaced h x f))
                            then match heap_pop (replaced h x f) with
                                 | Ok (_, h3) => Ok (mkTopk (t_k t) s' h3)
                                 | Err e => Err e
                                 | Panic e => Panic e
                                 end
                            else Ok (mkTopk (t_k t) s' (replaced h x f))) = Ok t' ->
                           h2 = t_heap t' ->
                           t_sketch t' = s' /\ t_k t' = t_k t /\
                           (((length rest + 1 <= N.to_nat (t_k t))%nat /\ Permutation h2 ((x, f) :: rest)) \/
                            ((N.to_nat (t_k t) < length rest + 1)%nat /\
                             exists m, Permutation ((x, f) :: rest) (m :: h2) /\ lower (snd m) ((x, f) :: rest)))).
  { intros h2 E ->. destruct (t_k t <? N.of_nat (length (replaced h x f))) eqn:Pop.
    - destruct (heap_pop (replaced h x f)) as [[m h3]|e|e] eqn:Ep; try discriminate. injection E as <-. cbn [t_sketch t_k t_heap].
      split; [reflexivity|]. split; [reflexivity|]. right. split; [lia|]. exists m.
      destruct (heap_pop_perm _ _ _ Ep) as [Pp _]. split.
      + eapply perm_trans; [apply Permutation_sym; exact Prep|apply Permutation_sym; exact Pp].
      + intros y Hy. pose proof (heap_pop_ok _ _ _ Hokrep Ep) as (_ & Hmin).
        apply Hmin. eapply Permutation_in; [apply Permutation_sym; exact Prep|exact Hy].
    - injection E as <-. cbn [t_sketch t_k t_heap]. split; [reflexivity|]. split; [reflexivity|].
      left. split; [lia|exact Prep]. }
  unfold hentry in *.
  destruct (N.of_nat (length h) <? t_k t) eqn:Efull.
  - cbv iota. intros E. destruct (Acc (t_heap t') E eq_refl) as (A1 & A2 & A3).
    split; [exact A1|]. split; [exact A2|]. right. split; [left; lia|]. exists rest. split; [exact Hw|exact A3].
  - destruct h as [|e0 h0] eqn:Eh; [cbn in *; lia|]. rewrite <- Eh in *.
    assert (Hne : h <> []) by (rewrite Eh; discriminate).
    assert (Hroot : lmin h = hfreq e0) by (rewrite (heap_root_min h Hok Hne), Eh; reflexivity).
    destruct (hfreq e0 <=? f) eqn:Eacc; cbv iota.
    + intros E. destruct (Acc (t_heap t') E eq_refl) as (A1 & A2 & A3).
      split; [exact A1|]. split; [exact A2|]. right. split; [right; lia|]. exists rest. split; [exact Hw|exact A3].
    + intros E. injection E as <-. cbn [t_sketch t_k t_heap]. split; [reflexivity|]. split; [reflexivity|].
      left. split; [lia|]. split; [apply lmin_attained; exact Hne|]. split; [lia|reflexivity].
Qed.
End Mem.

(* ---------- Part 4: the two variants side by side, over every insert history ---------- *)
Section Pair.
Variable cpos : N -> N -> bytes -> list N.
Variable rows cols : N.
Hypothesis cpos_len : forall x, length (cpos rows cols x) = N.to_nat rows.
Hypothesis cpos_lt : forall x p, In p (cpos rows cols x) -> p < cols.
Hypothesis rows_pos : 0 < rows.
Hypothesis cols_pos : 0 < cols.

(* the pair invariant: each variant satisfies its own invariant, the Redis sketch represents the
   in-memory sketch, and heap and sorted set are related by J *)
Definition PI (mt : topk) (s : store) (rt : rtopk) (H : hist) : Prop :=
  TI cpos rows cols mt H /\ RTI cpos rows cols s rt H /\
  refines rows cols s (rt_sketch rt) (t_sketch mt) /\
  t_k mt = rt_k rt /\
  J (N.to_nat (t_k mt)) (t_heap mt) (r_zset s (rt_heap rt)).

Theorem pair_insert mt s rt H x c :
  PI mt s rt H -> 1 <= t_k mt -> 1 <= c -> total (H ++ [(x, c)]) < B53 ->
  exists mt' rt' s', topk_insert cpos mt x c = Ok mt' /\ rtopk_insert cpos s rt x c = (Ok rt', s') /\
                     PI mt' s' rt' (H ++ [(x, c)]) /\ t_k mt' = t_k mt.
Proof.
  intros (HT & HR & Href & Hk & HJ) Hk1 Hc Htot.
  assert (H53 : B53 < two64) by (vm_compute; reflexivity).
  destruct (insert_TI cpos rows cols cpos_len cpos_lt rows_pos mt H x c HT Hk1 Hc ltac:(lia)) as (mt' & Hm & HT' & Hkm).
  destruct (rtopk_insert_RTI cpos rows cols cpos_len cpos_lt rows_pos cols_pos s rt H x c HR ltac:(lia) Hc Htot)
    as (rt' & s' & Hr & HR' & Hkr).
  pose proof HR as (m0 & _ & _ & Hkeys & HZ).
  destruct (rtopk_insert_step cpos rows cols cpos_len cpos_lt rows_pos cols_pos s rt (t_sketch mt) H x c
              Href (ti_repr _ _ _ _ _ HT) Hkeys (zi_nodup _ _ _ _ HZ) Hc Htot)
    as (rt2 & s2 & Hr2 & Href' & _ & _ & Hheap' & _ & Hz').
  rewrite Hr in Hr2. injection Hr2 as <- <-.
  destruct (mem_insert_is_step cpos rows cols cpos_len cpos_lt rows_pos mt mt' x c
              (ti_heap _ _ _ _ _ HT) (ti_nodup _ _ _ _ _ HT) (ti_len _ _ _ _ _ HT) Hk1 Hm) as (Hsk' & _ & Smem).
  exists mt', rt', s'. split; [exact Hm|]. split; [exact Hr|]. split; [|exact Hkm].
  split; [exact HT'|]. split; [exact HR'|]. split; [rewrite Hsk'; exact Href'|]. split; [congruence|].
  rewrite Hkm, Hheap', Hz'.
  apply (step_preserves_J (N.to_nat (t_k mt)) (t_heap mt) (r_zset s (rt_heap rt)) x
           (cms_count cpos (cms_update cpos (t_sketch mt) x c) x)).
  - lia.
  - exact (ti_nodup _ _ _ _ _ HT).
  - exact (zi_nodup _ _ _ _ HZ).
  - exact HJ.
  - exact Smem.
  - rewrite Hk. apply zstep_is_step; [exact (zi_sorted _ _ _ _ HZ)|exact (zi_nodup _ _ _ _ HZ)|exact (zi_len _ _ _ _ HZ)|lia].
Qed.

(* every history of inserts with counts >= 1 and total below 2^53 *)
Theorem pair_history ins : forall mt s rt H,
  PI mt s rt H -> 1 <= t_k mt -> Forall (fun e => 1 <= snd e) ins -> total (H ++ ins) < B53 ->
  exists mt' rt' s', trun cpos mt ins = Ok mt' /\ rtrun cpos s rt ins = (Ok rt', s') /\
                     PI mt' s' rt' (H ++ ins) /\ t_k mt' = t_k mt.
Proof.
  induction ins as [|[x c] t IH]; intros mt s rt H HP Hk Hpos Htot.
  - exists mt, rt, s. rewrite app_nil_r. cbn [trun rtrun]. auto.
  - inversion Hpos as [|? ? Hc Ht]; subst. cbn [snd] in Hc.
    replace (H ++ (x, c) :: t) with ((H ++ [(x, c)]) ++ t) in * by (rewrite <- app_assoc; reflexivity).
    assert (Ht1 : total (H ++ [(x, c)]) < B53) by (pose proof (total_prefix (H ++ [(x, c)]) t); lia).
    destruct (pair_insert mt s rt H x c HP Hk Hc Ht1) as (mt1 & rt1 & s1 & Hm & Hr & HP1 & Hk1).
    destruct (IH mt1 s1 rt1 (H ++ [(x, c)]) HP1 ltac:(lia) Ht Htot) as (mt2 & rt2 & s2 & Hm2 & Hr2 & HP2 & Hk2).
    exists mt2, rt2, s2. cbn [trun rtrun]. rewrite Hm, Hr. cbn. split; [exact Hm2|]. split; [exact Hr2|]. split; [exact HP2|congruence].
Qed.
End Pair.

(* what J says about the two reports: same length, same multiset of counts *)
Lemma J_counts k (a b : list entry) : (1 <= k)%nat -> J k a b ->
  length a = length b /\ Permutation (map snd a) (map snd b).
Proof.
  intros Hk HJ. pose proof HJ as (Hl & Hle & [P|(Hf & mu & La & Lb & Pab & Na)]).
  - split; [exact Hl|apply Permutation_map; exact P].
  - split; [exact Hl|].
    (* both lists are their part above mu followed by entries that all count mu *)
    assert (D : forall l : list entry, lower mu l -> Permutation (map snd l) (map snd (abv mu l) ++ repeat mu (length (lvl mu l)))).
    { induction l as [|e t IH]; intros Hlow; [constructor|]. unfold abv, lvl in *. cbn [filter map].
      pose proof (Hlow e (or_introl eq_refl)) as He. specialize (IH (fun y Hy => Hlow y (or_intror Hy))).
      destruct (N.ltb_spec mu (snd e)), (N.eqb_spec (snd e) mu); try lia; cbn [map length repeat app].
      - apply perm_skip. exact IH.
      - eapply perm_trans; [apply perm_skip; exact IH|]. rewrite e0. apply Permutation_middle. }
    assert (Hn : length (lvl mu a) = length (lvl mu b)).
    { pose proof (split_levels mu a La). pose proof (split_levels mu b Lb). pose proof (Permutation_length Pab). lia. }
    eapply perm_trans; [apply (D a La)|]. eapply perm_trans; [|apply Permutation_sym; apply (D b Lb)].
    rewrite Hn. apply Permutation_app_tail. apply Permutation_map. exact Pab.
Qed.

(* the two new structures (fresh, pairwise different Redis keys) are related *)
Theorem pair_new (cpos : N -> N -> bytes -> list N) rows cols
  (cpos_len : forall x, length (cpos rows cols x) = N.to_nat rows)
  (cpos_lt : forall x p, In p (cpos rows cols x) -> p < cols)
  s k er acc ertxt acctxt skey smeta hkey meta t s2 m0 :
  rtopk_new s k rows cols er acc ertxt acctxt skey smeta hkey meta = (Ok t, s2) ->
  cms_new rows cols = Ok m0 ->
  sget s hkey = None -> hkey <> smeta -> hkey <> meta ->
  (forall r, row_key skey r <> hkey) -> (forall r, row_key skey r <> meta) ->
  PI cpos rows cols (mkTopk k m0 []) s2 t [].
Proof.
  intros Hn Hm Hfresh Hhs Hhm Hrk Hrm.
  destruct (rtopk_new_RTI cpos rows cols cpos_len cpos_lt s k er acc ertxt acctxt skey smeta hkey meta t s2 m0
              Hn Hm Hfresh Hhs Hhm Hrk Hrm) as [HR Hk].
  destruct (new_dims rows cols m0 Hm) as [Hrows Hcols].
  split; [apply (TI_new cpos rows cols cpos_lt Hrows); exact Hm|]. split; [exact HR|].
  unfold rtopk_new in Hn.
  destruct (rcms_new s rows cols skey smeta) as [[sk|e|e] s1] eqn:Enew; try discriminate.
  injection Hn as <- <-. cbn [rt_sketch rt_heap rt_k t_sketch t_k t_heap].
  pose proof (new_refines cpos rows cols cpos_len cpos_lt Hcols s skey smeta sk s1 m0 Enew Hm) as HR1.
  assert (Hkey : rc_key sk = skey).
  { unfold rcms_new in Enew. destruct ((rows =? 0) || (cols =? 0)); [discriminate|]. injection Enew as <- _. reflexivity. }
  split; [|split; [reflexivity|]].
  - destruct HR1 as (A & B & C & D). split; [exact A|]. split; [exact B|]. split; [exact C|].
    intros r Hr. unfold r_list. rewrite r_hset_frame by (rewrite Hkey; apply Hrm). apply D. exact Hr.
  - assert (Hz : r_zset (r_hset s1 meta [(f_k, dec k); (f_heapkey, hkey); (f_errorrate, ertxt);
                                          (f_accuracy, acctxt); (f_sketchkey, smeta)]) hkey = []).
    { unfold r_zset. rewrite r_hset_frame by exact Hhm.
      unfold rcms_new in Enew. destruct ((rows =? 0) || (cols =? 0)); [discriminate|]. injection Enew as _ <-.
      rewrite init_rows_frame by exact Hrk. rewrite r_hset_frame by exact Hhs. rewrite Hfresh. reflexivity. }
    rewrite Hz. split; [reflexivity|]. split; [cbn; lia|]. left. constructor.
Qed.
