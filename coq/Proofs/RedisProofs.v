(* RedisProofs.v — basic facts about decimal strings and the store (frame lemmas). *)
From GX.Model Require Import Base Redis RedisCMS.
From GX.Proofs Require Import ListLemmas.
From Coq Require Import Lia ZifyN ZifyNat ZifyBool Decimal DecimalN DecimalPos.

(* ---------- decimal strings ---------- *)
Lemma bytes_uint_uint_bytes d : bytes_uint (uint_bytes d) = Some d.
Proof. induction d; cbn [uint_bytes bytes_uint]; try rewrite IHd; reflexivity. Qed.

Lemma to_uint_nonnil n : N.to_uint n <> Nil.
Proof.
  destruct n as [|p]; cbn; [discriminate|]. apply DecimalPos.Unsigned.to_uint_nonnil.
Qed.

Lemma dec_nonempty n : dec n <> [].
Proof.
  unfold dec. pose proof (to_uint_nonnil n). destruct (N.to_uint n); cbn; congruence.
Qed.

Theorem undec_dec n : undec (dec n) = Some n.
Proof.
  unfold undec. pose proof (dec_nonempty n) as Hne.
  destruct (dec n) as [|b t] eqn:E; [congruence|].
  rewrite <- E. unfold dec. rewrite bytes_uint_uint_bytes. f_equal. apply DecimalN.Unsigned.of_to.
Qed.

Theorem dec_injective a b : dec a = dec b -> a = b.
Proof. intros H. apply (f_equal undec) in H. rewrite !undec_dec in H. congruence. Qed.

Lemma atoi_dec n : atoi (Some (dec n)) = n.
Proof. unfold atoi. now rewrite undec_dec. Qed.

(* digits only: a decimal string never contains '_' (95) or other letters *)
Lemma uint_bytes_digits d : Forall (fun c => 48 <= c <= 57) (uint_bytes d).
Proof. induction d; cbn [uint_bytes]; constructor; auto; lia. Qed.
Lemma dec_digits n : Forall (fun c => 48 <= c <= 57) (dec n).
Proof. apply uint_bytes_digits. Qed.

(* ---------- store frame lemmas ---------- *)
Lemma sget_sdel_same s k : sget (sdel s k) k = None.
Proof.
  induction s as [|[k' v] t IH]; cbn [sdel sget]; auto.
  destruct (bytes_eqb k' k) eqn:E; auto. cbn [sget]. now rewrite E.
Qed.
Lemma sget_sdel_other s k k' : k' <> k -> sget (sdel s k) k' = sget s k'.
Proof.
  intros Hne. induction s as [|[k0 v] t IH]; cbn [sdel sget]; auto.
  destruct (bytes_eqb k0 k) eqn:E.
  - apply bytes_eqb_eq in E; subst k0. destruct (bytes_eqb k k') eqn:E2; auto.
    apply bytes_eqb_eq in E2. congruence.
  - cbn [sget]. now rewrite IH.
Qed.
Lemma sget_sset_same s k v : sget (sset s k v) k = Some v.
Proof. unfold sset; cbn [sget]. now rewrite bytes_eqb_refl. Qed.
Lemma sget_sset_other s k v k' : k' <> k -> sget (sset s k v) k' = sget s k'.
Proof.
  intros Hne. unfold sset; cbn [sget]. destruct (bytes_eqb k k') eqn:E.
  - apply bytes_eqb_eq in E; congruence.
  - now apply sget_sdel_other.
Qed.

(* every primitive command leaves all other keys alone *)
Definition same_elsewhere (k : bytes) (s s' : store) : Prop := forall k', k' <> k -> sget s' k' = sget s k'.

Lemma r_set_frame s k v : same_elsewhere k s (r_set s k v).
Proof. intros k' H. unfold r_set. now apply sget_sset_other. Qed.
Lemma r_putlist_frame s k l : same_elsewhere k s (r_putlist s k l).
Proof. intros k' H. unfold r_putlist. destruct l; [now apply sget_sdel_other|now apply sget_sset_other]. Qed.
Lemma r_lpush_frame s k vs : same_elsewhere k s (r_lpush s k vs).
Proof. apply r_putlist_frame. Qed.
Lemma r_rpush_frame s k vs : same_elsewhere k s (r_rpush s k vs).
Proof. apply r_putlist_frame. Qed.
Lemma r_lset_frame s k i v s' : r_lset s k i v = Some s' -> same_elsewhere k s s'.
Proof. unfold r_lset. destruct (i <? N.of_nat (length (r_list s k))); [|discriminate]. intros [= <-]. apply r_putlist_frame. Qed.
Lemma r_hset_frame s k fs : same_elsewhere k s (r_hset s k fs).
Proof. intros k' H. unfold r_hset. now apply sget_sset_other. Qed.
Lemma r_setbit1_frame s k i : same_elsewhere k s (r_setbit1 s k i).
Proof. apply r_set_frame. Qed.
Lemma r_zadd_frame s k m sc : same_elsewhere k s (r_zadd s k m sc).
Proof. intros k' H. unfold r_zadd, r_putzset. destruct (z_insert _ _); [now apply sget_sdel_other|now apply sget_sset_other]. Qed.
Lemma sdel_frame s k : same_elsewhere k s (sdel s k).
Proof. intros k' H. now apply sget_sdel_other. Qed.

(* ---------- key derivation: distinct 16-letter base keys give disjoint derived keys ---------- *)
Lemma app_inj_len {A} (a b c d : list A) : length a = length c -> a ++ b = c ++ d -> a = c /\ b = d.
Proof.
  revert c; induction a as [|x a IH]; destruct c as [|y c]; cbn; try discriminate; auto.
  intros [= Hl] [= -> H]. destruct (IH c Hl H) as [-> ->]. auto.
Qed.

Theorem row_key_injective k k' r r' :
  length k = length k' -> row_key k r = row_key k' r' -> k = k' /\ r = r'.
Proof.
  intros Hl H. unfold row_key in H. destruct (app_inj_len _ _ _ _ Hl H) as [-> Hd].
  split; auto. now apply dec_injective.
Qed.

(* ---------- hashes ---------- *)
Lemma hget_hput_same h f v : hget (hput h f v) f = Some v.
Proof.
  induction h as [|[f' v'] t IH]; cbn [hput hget].
  - now rewrite bytes_eqb_refl.
  - destruct (bytes_eqb f' f) eqn:E; cbn [hget]; [now rewrite bytes_eqb_refl|now rewrite E].
Qed.
Lemma hget_hput_other h f v f' : f' <> f -> hget (hput h f v) f' = hget h f'.
Proof.
  intros Hne. induction h as [|[f0 v0] t IH]; cbn [hput hget].
  - destruct (bytes_eqb f f') eqn:E; auto. apply bytes_eqb_eq in E; congruence.
  - destruct (bytes_eqb f0 f) eqn:E; cbn [hget].
    + apply bytes_eqb_eq in E; subst f0. destruct (bytes_eqb f f') eqn:E2; auto.
      apply bytes_eqb_eq in E2; congruence.
    + now rewrite IH.
Qed.

(* ---------- re-attachment of a Redis-backed Count-Min sketch ---------- *)
Lemma init_rows_frame s key rows cols k' :
  (forall r, row_key key r <> k') -> sget (cms_init_rows s key rows cols) k' = sget s k'.
Proof.
  intros Hne. unfold cms_init_rows. generalize (nseq rows) as l. intros l. revert s.
  induction l as [|r t IH]; intros s; cbn [fold_left]; auto.
  rewrite IH. rewrite r_lpush_frame by (intro E; apply (Hne r); auto). apply sdel_frame.
  intro E; apply (Hne r); auto.
Qed.

Theorem rcms_attach_after_new s rows cols key meta h s' :
  rcms_new s rows cols key meta = (Ok h, s') -> (forall r, row_key key r <> meta) ->
  rcms_attach s' meta = Ok (mkRcms rows cols 0 key meta).
Proof.
  unfold rcms_new. destruct ((rows =? 0) || (cols =? 0)) eqn:Ez; [discriminate|].
  intros [= <- <-] Hne. unfold rcms_attach, r_hget, r_hash.
  rewrite init_rows_frame by exact Hne. unfold r_hset. rewrite sget_sset_same.
  cbn [fold_left fst snd].
  assert (Hr : forall h0, hget (hput (hput (hput h0 f_rows (dec rows)) f_columns (dec cols)) f_key key) f_rows = Some (dec rows)).
  { intros h0. rewrite hget_hput_other by (vm_compute; discriminate).
    rewrite hget_hput_other by (vm_compute; discriminate). apply hget_hput_same. }
  assert (Hc : forall h0, hget (hput (hput (hput h0 f_rows (dec rows)) f_columns (dec cols)) f_key key) f_columns = Some (dec cols)).
  { intros h0. rewrite hget_hput_other by (vm_compute; discriminate). apply hget_hput_same. }
  rewrite Hr, Hc, hget_hput_same, !atoi_dec, Ez. reflexivity.
Qed.

(* every query goes through (rows, columns, data key) and the store only: two handles that agree
   on these answer alike on every store, i.e. also after any later updates through either *)
Theorem rcms_count_handle_irrelevant cpos s a b x :
  rc_rows a = rc_rows b -> rc_cols a = rc_cols b -> rc_key a = rc_key b ->
  rcms_count cpos s a x = rcms_count cpos s b x.
Proof. intros Hr Hc Hk. unfold rcms_count, positions_rc. now rewrite Hr, Hc, Hk. Qed.

Theorem rcms_update_handle_irrelevant cpos s a b x c :
  rc_rows a = rc_rows b -> rc_cols a = rc_cols b -> rc_key a = rc_key b ->
  snd (rcms_update cpos s a x c) = snd (rcms_update cpos s b x c).
Proof.
  intros Hr Hc Hk. unfold rcms_update, positions_rc. rewrite Hr, Hc, Hk.
  destruct (upd_cells s (rc_key b) _ (round53 c)); reflexivity.
Qed.
