(* API-level theorems for the in-memory HyperLogLog: histories of Update, Merge. *)
From GX.Model Require Import Base HLL.
From GX.Proofs Require Import ListLemmas HLLProofs.
From Coq Require Import Lia ZifyN ZifyNat ZifyBool.

Section Api.
Variable hic : N -> bytes -> N * N.

Definition ustep (o : outcome hll) (x : bytes) : outcome hll := olet s := o in hll_update hic s x.
Definition upd_all (s : hll) (xs : list bytes) : outcome hll := fold_left ustep xs (Ok s).

Lemma fold_ustep_err xs t : fold_left ustep xs (Err t) = Err t.
Proof. induction xs; simpl; auto. Qed.
Lemma fold_ustep_panic xs t : fold_left ustep xs (Panic t) = Panic t.
Proof. induction xs; simpl; auto. Qed.

Lemma upd_all_regs xs : forall s s',
  hwf s -> upd_all s xs = Ok s' ->
  h_regs s' = fold_left rupd (map (hic (h_p s)) xs) (h_regs s) /\ hwf s' /\ h_m s' = h_m s /\ h_p s' = h_p s /\ h_alpha s' = h_alpha s.
Proof.
  unfold upd_all. induction xs as [|x t IH]; intros s s' Hw; cbn [fold_left map].
  - intros [= <-]. auto.
  - cbn [ustep obind]. destruct (hll_update hic s x) as [s1|e|e] eqn:E.
    + destruct (update_ok_wf hic s x s1 Hw E) as (Hw1 & Hm1 & Hp1).
      intros H. destruct (IH s1 s' Hw1 H) as (Hr & Hw' & Hm' & Hp' & Ha').
      pose proof (update_alpha hic s x s1 E) as Ha1.
      rewrite Hr, Hp1, (update_regs hic s x s1 E).
      split; [reflexivity|]. split; [exact Hw'|]. split; [congruence|]. split; congruence.
    + rewrite fold_ustep_err. discriminate.
    + rewrite fold_ustep_panic. discriminate.
Qed.

Lemma hll_eq a b : h_m a = h_m b -> h_p a = h_p b -> h_alpha a = h_alpha b -> h_regs a = h_regs b -> a = b.
Proof. destruct a, b; cbn; intros; subst; reflexivity. Qed.

(* the state depends only on the set of distinct elements inserted *)
Theorem set_dependence s xs ys s1 s2 :
  hwf s -> (forall x, In x xs <-> In x ys) ->
  upd_all s xs = Ok s1 -> upd_all s ys = Ok s2 -> s1 = s2.
Proof.
  intros Hw Hs H1 H2.
  destruct (upd_all_regs xs s s1 Hw H1) as (R1 & _ & M1 & P1 & A1).
  destruct (upd_all_regs ys s s2 Hw H2) as (R2 & _ & M2 & P2 & A2).
  apply hll_eq; try congruence. rewrite R1, R2.
  apply fold_rupd_same_set; [exact (proj2 Hw)|].
  intros iv. rewrite !in_map_iff. split; intros (x & <- & Hx); exists x; split; auto; now apply Hs.
Qed.

(* merge of the sketches of two streams = the sketch of the union, with equal parameters *)
Theorem merge_is_union m al s0 xs ys a b u mm :
  hll_new m al = Ok s0 -> upd_all s0 xs = Ok a -> upd_all s0 ys = Ok b ->
  upd_all s0 (xs ++ ys) = Ok u -> hll_merge a b = Ok mm -> mm = u.
Proof.
  intros Hn Ha Hb Hu Hm.
  destruct (new_wf m al s0 Hn) as (Hw0 & Hm0 & Hp0).
  destruct (upd_all_regs xs s0 a Hw0 Ha) as (Ra & Hwa & Ma & Pa & Aa).
  destruct (upd_all_regs ys s0 b Hw0 Hb) as (Rb & Hwb & Mb & Pb & Ab).
  destruct (upd_all_regs (xs ++ ys) s0 u Hw0 Hu) as (Ru & Hwu & Mu & Pu & Au).
  destruct (merge_regs a b mm Hwa Hwb (eq_trans Ma (eq_sym Mb)) Hm) as (Rm & Mm & _).
  assert (Hpm : h_p mm = h_p a /\ h_alpha mm = h_alpha a).
  { revert Hm. unfold hll_merge. destruct (negb (h_m a =? h_m b)); [discriminate|].
    destruct (length (h_regs a) <? length (h_regs b))%nat; [discriminate|]. now intros [= <-]. }
  destruct Hpm as (Hpm & Ham).
  assert (Hz : h_regs s0 = repeat 0 (N.to_nat m)).
  { revert Hn. unfold hll_new. destruct (m =? 0); [discriminate|].
    destruct (negb (is_pow2 m)); [discriminate|]. now intros [= <-]. }
  apply hll_eq; try congruence.
  rewrite Rm, Ra, Rb, Ru, Hz, map_app. apply maxregs_union.
Qed.

(* later updates of a merged sketch behave as on the single sketch *)
Theorem merge_then_update m al s0 xs ys zs a b mm r1 r2 :
  hll_new m al = Ok s0 -> upd_all s0 xs = Ok a -> upd_all s0 ys = Ok b ->
  hll_merge a b = Ok mm -> upd_all mm zs = Ok r1 -> upd_all s0 ((xs ++ ys) ++ zs) = Ok r2 -> r1 = r2.
Proof.
  intros Hn Ha Hb Hm H1 H2.
  unfold upd_all in H2. rewrite fold_left_app in H2.
  destruct (fold_left ustep (xs ++ ys) (Ok s0)) as [u|e|e] eqn:Eu.
  - assert (Hmu : mm = u) by exact (merge_is_union m al s0 xs ys a b u mm Hn Ha Hb Eu Hm). subst mm.
    unfold upd_all in H1. congruence.
  - rewrite fold_ustep_err in H2; discriminate.
  - rewrite fold_ustep_panic in H2; discriminate.
Qed.
End Api.

(* merge is commutative and idempotent on well-formed sketches of equal size *)
Theorem merge_comm a b m1 m2 :
  hwf a -> hwf b -> h_m a = h_m b -> hll_merge a b = Ok m1 -> hll_merge b a = Ok m2 ->
  h_regs m1 = h_regs m2.
Proof.
  intros Ha Hb Hm H1 H2.
  destruct (merge_regs a b m1 Ha Hb Hm H1) as (R1 & _).
  destruct (merge_regs b a m2 Hb Ha (eq_sym Hm) H2) as (R2 & _).
  rewrite R1, R2. apply maxregs_comm.
Qed.

Theorem merge_idem a b m1 m2 :
  hwf a -> hwf b -> h_m a = h_m b -> hll_merge a b = Ok m1 -> hll_merge m1 b = Ok m2 -> m2 = m1.
Proof.
  intros Ha Hb Hm H1 H2.
  destruct (merge_regs a b m1 Ha Hb Hm H1) as (R1 & M1 & W1).
  destruct (merge_regs m1 b m2 W1 Hb (eq_trans M1 Hm) H2) as (R2 & M2 & _).
  assert (Hpa : h_p m2 = h_p m1 /\ h_alpha m2 = h_alpha m1).
  { revert H2. unfold hll_merge. destruct (negb (h_m m1 =? h_m b)); [discriminate|].
    destruct (length (h_regs m1) <? length (h_regs b))%nat; [discriminate|]. now intros [= <-]. }
  destruct Hpa as (Hp12 & Ha12).
  destruct m1, m2; cbn in *; subst. f_equal.
  apply maxregs_absorb. destruct Ha as (La & _), Hb as (Lb & _). lia.
Qed.
