(* CodecProofs.v — binary codecs: decode (encode s ++ rest) = (s, |encode s|, rest), the returned
   counts equal the bytes written/consumed, and no strict prefix of an image is accepted. *)
From GX.Model Require Import Base CMS Bloom HLL Cuckoo Heap TopK Codec.
From GX.Proofs Require Import ListLemmas.
From Coq Require Import Lia ZifyN ZifyNat ZifyBool.

(* ---------- fixed-width big-endian integers ---------- *)
Lemma be_val_be_bytes w x acc :
  be_val (be_bytes w x) acc = acc * 256 ^ N.of_nat w + x mod 256 ^ N.of_nat w.
Proof.
  revert acc; induction w as [|w IH]; intros acc; cbn [be_bytes be_val].
  - cbn. rewrite N.mod_1_r. lia.
  - rewrite IH. rewrite Nat2N.inj_succ, N.pow_succ_r'.
    rewrite (N.mul_comm 256 (256 ^ N.of_nat w)).
    rewrite (N.mod_mul_r x (256 ^ N.of_nat w) 256) by (try apply N.pow_nonzero; lia).
    lia.
Qed.

Lemma be_bytes_length w x : length (be_bytes w x) = w.
Proof. induction w; simpl; auto. Qed.

Lemma u64be_length x : length (u64be x) = 8%nat.
Proof. apply be_bytes_length. Qed.

Lemma two64_pow : 256 ^ N.of_nat 8 = two64.
Proof. reflexivity. Qed.

Lemma rd_bytes_app n a r : length a = n -> rd_bytes n (a ++ r) = Ok (a, r).
Proof.
  intros H. unfold rd_bytes. rewrite app_length.
  destruct (Nat.ltb_spec (length a + length r) n); [lia|].
  subst n. now rewrite firstn_app, Nat.sub_diag, firstn_all, firstn_O, app_nil_r, skipn_app, Nat.sub_diag, skipn_all.
Qed.

Lemma rd_u64_enc x r : x < two64 -> rd_u64 (u64be x ++ r) = Ok (x, r).
Proof.
  intros Hx. unfold rd_u64. rewrite rd_bytes_app by apply u64be_length. cbn [obind fst snd].
  unfold u64be. rewrite be_val_be_bytes, two64_pow, N.mod_small by exact Hx. reflexivity.
Qed.

(* ---------- extension: a successful read of p is the same read of p ++ q ---------- *)
Lemma rd_bytes_ext n p q a r : rd_bytes n p = Ok (a, r) -> rd_bytes n (p ++ q) = Ok (a, r ++ q).
Proof.
  unfold rd_bytes. destruct (Nat.ltb_spec (length p) n) as [|Hle]; [discriminate|].
  intros [= <- <-]. rewrite app_length. destruct (Nat.ltb_spec (length p + length q) n); [lia|].
  now rewrite firstn_app, skipn_app, (proj2 (Nat.sub_0_le n (length p)) Hle), firstn_O, skipn_O, app_nil_r.
Qed.

Lemma rd_u64_ext p q x r : rd_u64 p = Ok (x, r) -> rd_u64 (p ++ q) = Ok (x, r ++ q).
Proof.
  unfold rd_u64. destruct (rd_bytes 8 p) as [[a r']|t|t] eqn:E; cbn [obind]; try discriminate.
  intros [= <- <-]. now rewrite (rd_bytes_ext _ _ q _ _ E).
Qed.

Lemma rd_u64s_ext n : forall p q l r, rd_u64s n p = Ok (l, r) -> rd_u64s n (p ++ q) = Ok (l, r ++ q).
Proof.
  induction n as [|n IH]; intros p q l r; cbn [rd_u64s].
  - now intros [= <- <-].
  - destruct (rd_u64 p) as [[x r1]|t|t] eqn:E1; cbn [obind]; try discriminate.
    cbn [fst snd]. destruct (rd_u64s n r1) as [[l2 r2]|t|t] eqn:E2; cbn [obind]; try discriminate.
    intros [= <- <-]. rewrite (rd_u64_ext _ q _ _ E1). cbn [obind fst snd].
    now rewrite (IH _ q _ _ E2).
Qed.

Lemma rd_rows_ext n cols : forall p q l r, rd_rows n cols p = Ok (l, r) -> rd_rows n cols (p ++ q) = Ok (l, r ++ q).
Proof.
  induction n as [|n IH]; intros p q l r; cbn [rd_rows].
  - now intros [= <- <-].
  - destruct (rd_u64s cols p) as [[x r1]|t|t] eqn:E1; cbn [obind]; try discriminate.
    cbn [fst snd]. destruct (rd_rows n cols r1) as [[l2 r2]|t|t] eqn:E2; cbn [obind]; try discriminate.
    intros [= <- <-]. rewrite (rd_u64s_ext _ _ q _ _ E1). cbn [obind fst snd].
    now rewrite (IH _ q _ _ E2).
Qed.

Lemma rd_str_ext p q a r : rd_str p = Ok (a, r) -> rd_str (p ++ q) = Ok (a, r ++ q).
Proof.
  unfold rd_str. destruct (rd_u64 p) as [[x r1]|t|t] eqn:E1; cbn [obind]; try discriminate.
  cbn [fst snd]. intros H. rewrite (rd_u64_ext _ q _ _ E1). cbn [obind fst snd].
  now apply rd_bytes_ext.
Qed.

Lemma rd_strs_ext n : forall p q l r, rd_strs n p = Ok (l, r) -> rd_strs n (p ++ q) = Ok (l, r ++ q).
Proof.
  induction n as [|n IH]; intros p q l r; cbn [rd_strs].
  - now intros [= <- <-].
  - destruct (rd_str p) as [[x r1]|t|t] eqn:E1; cbn [obind]; try discriminate.
    cbn [fst snd]. destruct (rd_strs n r1) as [[l2 r2]|t|t] eqn:E2; cbn [obind]; try discriminate.
    intros [= <- <-]. rewrite (rd_str_ext _ q _ _ E1). cbn [obind fst snd].
    now rewrite (IH _ q _ _ E2).
Qed.

(* ---------- round trips of the element readers ---------- *)
Definition small64 (l : list N) : Prop := Forall (fun v => v < two64) l.
Definition is_bytes (l : bytes) : Prop := Forall (fun v => v < 256) l.

Lemma rd_u64s_enc l r : small64 l -> rd_u64s (length l) (flat_map u64be l ++ r) = Ok (l, r).
Proof.
  induction 1 as [|x l Hx Hl IH]; cbn [length rd_u64s flat_map]; auto.
  rewrite <- app_assoc, rd_u64_enc by auto. cbn [obind fst snd]. now rewrite IH.
Qed.

Lemma flat_u64_length l : length (flat_map u64be l) = (8 * length l)%nat.
Proof. induction l; cbn [flat_map length]; auto. rewrite app_length, u64be_length. lia. Qed.

Lemma rd_str_enc b r : N.of_nat (length b) < two64 -> rd_str (enc_str b ++ r) = Ok (b, r).
Proof.
  intros H. unfold rd_str, enc_str. rewrite <- app_assoc, rd_u64_enc by auto. cbn [obind fst snd].
  rewrite Nat2N.id. now apply rd_bytes_app.
Qed.

Lemma rd_strs_enc l r :
  Forall (fun b => N.of_nat (length b) < two64) l ->
  rd_strs (length l) (flat_map enc_str l ++ r) = Ok (l, r).
Proof.
  induction 1 as [|x l Hx Hl IH]; cbn [length rd_strs flat_map]; auto.
  rewrite <- app_assoc, rd_str_enc by auto. cbn [obind fst snd]. now rewrite IH.
Qed.

(* ---------- generic: exact decoding + extension => every strict prefix is rejected ---------- *)
Section Prefix.
Context {S : Type}.
Variable dec : bytes -> outcome (S * N * bytes).
Hypothesis dec_ext : forall p q s n r, dec p = Ok (s, n, r) -> dec (p ++ q) = Ok (s, n, r ++ q).
Hypothesis dec_no_panic : forall p t, dec p <> Panic t.

Theorem strict_prefix_rejected img s n k :
  dec img = Ok (s, n, []) -> (k < length img)%nat -> exists t, dec (firstn k img) = Err t.
Proof.
  intros Hfull Hk. destruct (dec (firstn k img)) as [[[s' n'] r']|t|t] eqn:E.
  - exfalso. pose proof (dec_ext _ (skipn k img) _ _ _ E) as H. rewrite firstn_skipn in H.
    rewrite Hfull in H. injection H as _ _ Hr.
    assert (Hl : length (skipn k img) = 0%nat).
    { destruct r'; [|discriminate]. cbn [app] in Hr. now rewrite <- Hr. }
    rewrite skipn_length in Hl. lia.
  - eexists; reflexivity.
  - exfalso. eapply dec_no_panic; eauto.
Qed.
End Prefix.

(* ---------- CMS ---------- *)
Definition cms_wf (s : cms) : Prop :=
  c_rows s < two64 /\ c_cols s < two64 /\ c_allsum s < two64 /\
  length (c_matrix s) = N.to_nat (c_rows s) /\
  Forall (fun row => length row = N.to_nat (c_cols s) /\ small64 row) (c_matrix s).

Lemma rd_rows_enc cols m r :
  Forall (fun row => length row = cols /\ small64 row) m ->
  rd_rows (length m) cols (flat_map (fun row => flat_map u64be (firstn cols row)) m ++ r) = Ok (m, r).
Proof.
  induction 1 as [|row m [Hl Hs] Hm IH]; cbn [length rd_rows flat_map]; auto.
  rewrite <- app_assoc. rewrite <- Hl, firstn_all. rewrite rd_u64s_enc by auto.
  cbn [obind fst snd]. rewrite Hl. now rewrite IH.
Qed.

Lemma forallb_row_ok cols m :
  Forall (fun row => length row = cols /\ small64 row) m -> forallb (cms_row_ok cols) m = true.
Proof.
  induction 1 as [|row m [Hl _] _ IH]; cbn [forallb]; auto. rewrite IH, andb_true_r.
  unfold cms_row_ok. apply Nat.leb_le. lia.
Qed.

Theorem cms_roundtrip s rest : cms_wf s ->
  exists img, enc_cms s = Ok img /\ dec_cms (img ++ rest) = Ok (s, N.of_nat (length img), rest) /\
              cms_write_ret s = N.of_nat (length img).
Proof.
  intros (Hr & Hc & Ha & Hl & Hrows). unfold enc_cms.
  rewrite <- Hl, Nat.ltb_irrefl, firstn_all.
  rewrite forallb_row_ok by exact Hrows. cbn [negb].
  eexists; split; [reflexivity|].
  assert (Hlen : N.of_nat (length (flat_map (fun row => flat_map u64be (firstn (N.to_nat (c_cols s)) row)) (c_matrix s)))
                 = c_rows s * (8 * c_cols s)).
  { rewrite <- (N2Nat.id (c_rows s)), <- Hl. clear Hl Hr.
    induction Hrows as [|row m [Hl1 _] _ IH]; cbn [flat_map length]; [lia|].
    rewrite app_length, flat_u64_length, firstn_length, Hl1, Nat.min_id. lia. }
  set (body := flat_map (fun row => flat_map u64be (firstn (N.to_nat (c_cols s)) row)) (c_matrix s)) in *.
  assert (Htot : N.of_nat (length (u64be (c_rows s) ++ u64be (c_cols s) ++ u64be (c_allsum s) ++ body))
                 = 24 + c_rows s * (8 * c_cols s)).
  { rewrite !app_length, !u64be_length, !Nat2N.inj_add, Hlen. change (N.of_nat 8) with 8. lia. }
  split.
  - unfold dec_cms. rewrite Htot. rewrite <- !app_assoc.
    rewrite rd_u64_enc by auto. cbn [obind fst snd].
    rewrite rd_u64_enc by auto. cbn [obind fst snd].
    rewrite rd_u64_enc by auto. cbn [obind fst snd].
    rewrite <- Hl. unfold body. rewrite rd_rows_enc by exact Hrows. cbn [obind fst snd].
    destruct s; reflexivity.
  - unfold cms_write_ret. now rewrite Htot.
Qed.

Lemma dec_cms_ext p q s n r : dec_cms p = Ok (s, n, r) -> dec_cms (p ++ q) = Ok (s, n, r ++ q).
Proof.
  unfold dec_cms.
  destruct (rd_u64 p) as [[x1 r1]|t|t] eqn:E1; cbn [obind]; try discriminate. cbn [fst snd].
  destruct (rd_u64 r1) as [[x2 r2]|t|t] eqn:E2; cbn [obind]; try discriminate. cbn [fst snd].
  destruct (rd_u64 r2) as [[x3 r3]|t|t] eqn:E3; cbn [obind]; try discriminate. cbn [fst snd].
  destruct (rd_rows (N.to_nat x1) (N.to_nat x2) r3) as [[m r4]|t|t] eqn:E4; cbn [obind]; try discriminate.
  cbn [fst snd]. intros [= <- <- <-].
  rewrite (rd_u64_ext _ q _ _ E1); cbn [obind fst snd].
  rewrite (rd_u64_ext _ q _ _ E2); cbn [obind fst snd].
  rewrite (rd_u64_ext _ q _ _ E3); cbn [obind fst snd].
  rewrite (rd_rows_ext _ _ _ q _ _ E4); cbn [obind fst snd]. reflexivity.
Qed.

(* readers never panic: they only return Ok or Err *)
Lemma rd_bytes_np n p t : rd_bytes n p <> Panic t.
Proof. unfold rd_bytes. destruct (length p <? n)%nat; discriminate. Qed.
Lemma rd_u64_np p t : rd_u64 p <> Panic t.
Proof.
  unfold rd_u64. destruct (rd_bytes 8 p) as [[a r]|e|e] eqn:E; cbn [obind]; try discriminate.
  exfalso. eapply rd_bytes_np; eauto.
Qed.
Lemma rd_u64s_np n : forall p t, rd_u64s n p <> Panic t.
Proof.
  induction n as [|n IH]; intros p t; cbn [rd_u64s]; [discriminate|].
  destruct (rd_u64 p) as [[x r]|e|e] eqn:E; cbn [obind]; try discriminate.
  - cbn [snd]. destruct (rd_u64s n r) as [[l r2]|e|e] eqn:E2; cbn [obind]; try discriminate.
    exfalso. eapply IH; eauto.
  - exfalso. eapply rd_u64_np; eauto.
Qed.
Lemma rd_rows_np n cols : forall p t, rd_rows n cols p <> Panic t.
Proof.
  induction n as [|n IH]; intros p t; cbn [rd_rows]; [discriminate|].
  destruct (rd_u64s cols p) as [[x r]|e|e] eqn:E; cbn [obind]; try discriminate.
  - cbn [snd]. destruct (rd_rows n cols r) as [[l r2]|e|e] eqn:E2; cbn [obind]; try discriminate.
    exfalso. eapply IH; eauto.
  - exfalso. eapply rd_u64s_np; eauto.
Qed.
Lemma dec_cms_np p t : dec_cms p <> Panic t.
Proof.
  unfold dec_cms.
  destruct (rd_u64 p) as [[x1 r1]|e|e] eqn:E1; cbn [obind]; try discriminate; [|exfalso; eapply rd_u64_np; eauto].
  cbn [fst snd].
  destruct (rd_u64 r1) as [[x2 r2]|e|e] eqn:E2; cbn [obind]; try discriminate; [|exfalso; eapply rd_u64_np; eauto].
  cbn [fst snd].
  destruct (rd_u64 r2) as [[x3 r3]|e|e] eqn:E3; cbn [obind]; try discriminate; [|exfalso; eapply rd_u64_np; eauto].
  cbn [fst snd].
  destruct (rd_rows (N.to_nat x1) (N.to_nat x2) r3) as [[m r4]|e|e] eqn:E4; cbn [obind]; try discriminate.
  exfalso; eapply rd_rows_np; eauto.
Qed.

Theorem cms_truncated_rejected s img k : cms_wf s -> enc_cms s = Ok img -> (k < length img)%nat ->
  exists t, dec_cms (firstn k img) = Err t.
Proof.
  intros Hw He Hk. destruct (cms_roundtrip s [] Hw) as (img' & He' & Hd & _).
  rewrite He in He'. injection He' as <-. rewrite app_nil_r in Hd.
  eapply (strict_prefix_rejected dec_cms dec_cms_ext dec_cms_np); eauto.
Qed.

(* ---------- HLL ---------- *)
Definition hll_cwf (h : hll) : Prop :=
  h_m h < two64 /\ h_p h < two64 /\ h_alpha h < two64 /\ length (h_regs h) = N.to_nat (h_m h).

Theorem hll_roundtrip h rest : hll_cwf h ->
  dec_hll (enc_hll h ++ rest) = Ok (h, N.of_nat (length (enc_hll h)), rest) /\
  hll_write_ret h = N.of_nat (length (enc_hll h)).
Proof.
  intros (Hm & Hp & Ha & Hl). unfold dec_hll, enc_hll, hll_write_ret. rewrite <- !app_assoc.
  rewrite rd_u64_enc by auto. cbn [obind fst snd].
  rewrite rd_u64_enc by auto. cbn [obind fst snd].
  rewrite rd_u64_enc by auto. cbn [obind fst snd].
  rewrite rd_bytes_app by auto. cbn [obind fst snd].
  rewrite !app_length, !u64be_length, !Nat2N.inj_add, Hl, N2Nat.id.
  change (N.of_nat 8) with 8.
  replace (8 + (8 + (8 + h_m h))) with (24 + h_m h) by lia.
  split; [|reflexivity]. destruct h; reflexivity.
Qed.

Lemma dec_hll_ext p q s n r : dec_hll p = Ok (s, n, r) -> dec_hll (p ++ q) = Ok (s, n, r ++ q).
Proof.
  unfold dec_hll.
  destruct (rd_u64 p) as [[x1 r1]|t|t] eqn:E1; cbn [obind]; try discriminate. cbn [fst snd].
  destruct (rd_u64 r1) as [[x2 r2]|t|t] eqn:E2; cbn [obind]; try discriminate. cbn [fst snd].
  destruct (rd_u64 r2) as [[x3 r3]|t|t] eqn:E3; cbn [obind]; try discriminate. cbn [fst snd].
  destruct (rd_bytes (N.to_nat x1) r3) as [[m r4]|t|t] eqn:E4; cbn [obind]; try discriminate.
  cbn [fst snd]. intros [= <- <- <-].
  rewrite (rd_u64_ext _ q _ _ E1); cbn [obind fst snd].
  rewrite (rd_u64_ext _ q _ _ E2); cbn [obind fst snd].
  rewrite (rd_u64_ext _ q _ _ E3); cbn [obind fst snd].
  rewrite (rd_bytes_ext _ _ q _ _ E4); cbn [obind fst snd]. reflexivity.
Qed.

Lemma dec_hll_np p t : dec_hll p <> Panic t.
Proof.
  unfold dec_hll.
  destruct (rd_u64 p) as [[x1 r1]|e|e] eqn:E1; cbn [obind]; try discriminate; [|exfalso; eapply rd_u64_np; eauto].
  cbn [fst snd].
  destruct (rd_u64 r1) as [[x2 r2]|e|e] eqn:E2; cbn [obind]; try discriminate; [|exfalso; eapply rd_u64_np; eauto].
  cbn [fst snd].
  destruct (rd_u64 r2) as [[x3 r3]|e|e] eqn:E3; cbn [obind]; try discriminate; [|exfalso; eapply rd_u64_np; eauto].
  cbn [fst snd].
  destruct (rd_bytes (N.to_nat x1) r3) as [[m r4]|e|e] eqn:E4; cbn [obind]; try discriminate.
  exfalso; eapply rd_bytes_np; eauto.
Qed.

Theorem hll_truncated_rejected h k : hll_cwf h -> (k < length (enc_hll h))%nat ->
  exists t, dec_hll (firstn k (enc_hll h)) = Err t.
Proof.
  intros Hw Hk. destruct (hll_roundtrip h [] Hw) as (Hd & _). rewrite app_nil_r in Hd.
  eapply (strict_prefix_rejected dec_hll dec_hll_ext dec_hll_np); eauto.
Qed.

(* ---------- bucket and cuckoo filter ---------- *)
Definition bucket_cwf (b : bucket) : Prop :=
  k_size b < two64 /\ k_len b < two64 /\ length (k_slots b) = N.to_nat (k_size b) /\
  Forall (fun e => N.of_nat (length e) < two64) (k_slots b).

Lemma enc_str_length e : length (enc_str e) = (8 + length e)%nat.
Proof. unfold enc_str. now rewrite app_length, u64be_length. Qed.

Lemma flat_enc_str_length l :
  N.of_nat (length (flat_map enc_str l)) = sumN (map (fun e => 8 + N.of_nat (length e)) l).
Proof.
  induction l as [|e l IH]; cbn [flat_map map sumN length]; auto.
  rewrite app_length, enc_str_length, Nat2N.inj_add, IH, Nat2N.inj_add. change (N.of_nat 8) with 8. lia.
Qed.

Lemma enc_bucket_length b : N.of_nat (length (enc_bucket b)) = bucket_write_ret b.
Proof.
  unfold enc_bucket, bucket_write_ret. rewrite !app_length, !u64be_length, !Nat2N.inj_add, flat_enc_str_length.
  change (N.of_nat 8) with 8. lia.
Qed.

Theorem bucket_roundtrip b rest : bucket_cwf b ->
  dec_bucket (enc_bucket b ++ rest) = Ok (b, N.of_nat (length (enc_bucket b)), rest).
Proof.
  intros (Hs & Hl & Hlen & Hsl). unfold dec_bucket. rewrite enc_bucket_length.
  unfold enc_bucket. rewrite <- !app_assoc.
  rewrite rd_u64_enc by auto. cbn [obind fst snd].
  rewrite rd_u64_enc by auto. cbn [obind fst snd].
  rewrite <- Hlen. rewrite rd_strs_enc by exact Hsl. cbn [obind fst snd].
  destruct b; reflexivity.
Qed.

Lemma dec_bucket_ext p q s n r : dec_bucket p = Ok (s, n, r) -> dec_bucket (p ++ q) = Ok (s, n, r ++ q).
Proof.
  unfold dec_bucket.
  destruct (rd_u64 p) as [[x1 r1]|t|t] eqn:E1; cbn [obind]; try discriminate. cbn [fst snd].
  destruct (rd_u64 r1) as [[x2 r2]|t|t] eqn:E2; cbn [obind]; try discriminate. cbn [fst snd].
  destruct (rd_strs (N.to_nat x1) r2) as [[m r4]|t|t] eqn:E4; cbn [obind]; try discriminate.
  cbn [fst snd]. intros [= <- <- <-].
  rewrite (rd_u64_ext _ q _ _ E1); cbn [obind fst snd].
  rewrite (rd_u64_ext _ q _ _ E2); cbn [obind fst snd].
  rewrite (rd_strs_ext _ _ q _ _ E4); cbn [obind fst snd]. reflexivity.
Qed.

Lemma rd_str_np p t : rd_str p <> Panic t.
Proof.
  unfold rd_str. destruct (rd_u64 p) as [[x r]|e|e] eqn:E; cbn [obind]; try discriminate.
  - apply rd_bytes_np.
  - exfalso; eapply rd_u64_np; eauto.
Qed.
Lemma rd_strs_np n : forall p t, rd_strs n p <> Panic t.
Proof.
  induction n as [|n IH]; intros p t; cbn [rd_strs]; [discriminate|].
  destruct (rd_str p) as [[x r]|e|e] eqn:E; cbn [obind]; try discriminate.
  - cbn [snd]. destruct (rd_strs n r) as [[l r2]|e|e] eqn:E2; cbn [obind]; try discriminate.
    exfalso. eapply IH; eauto.
  - exfalso. eapply rd_str_np; eauto.
Qed.
Lemma dec_bucket_np p t : dec_bucket p <> Panic t.
Proof.
  unfold dec_bucket.
  destruct (rd_u64 p) as [[x1 r1]|e|e] eqn:E1; cbn [obind]; try discriminate; [|exfalso; eapply rd_u64_np; eauto].
  cbn [fst snd].
  destruct (rd_u64 r1) as [[x2 r2]|e|e] eqn:E2; cbn [obind]; try discriminate; [|exfalso; eapply rd_u64_np; eauto].
  cbn [fst snd].
  destruct (rd_strs (N.to_nat x1) r2) as [[m r4]|e|e] eqn:E4; cbn [obind]; try discriminate.
  exfalso; eapply rd_strs_np; eauto.
Qed.

Lemma rd_buckets_enc l rest :
  Forall bucket_cwf l ->
  rd_buckets (length l) (flat_map enc_bucket l ++ rest) = Ok (l, sumN (map bucket_write_ret l), rest).
Proof.
  induction 1 as [|b l Hb Hl IH]; cbn [length rd_buckets flat_map map sumN]; auto.
  rewrite <- app_assoc, bucket_roundtrip by auto. cbn [obind]. rewrite IH. cbn [obind].
  now rewrite enc_bucket_length.
Qed.

Lemma rd_buckets_ext n : forall p q l k r, rd_buckets n p = Ok (l, k, r) -> rd_buckets n (p ++ q) = Ok (l, k, r ++ q).
Proof.
  induction n as [|n IH]; intros p q l k r; cbn [rd_buckets].
  - now intros [= <- <- <-].
  - destruct (dec_bucket p) as [[[b nb] r1]|t|t] eqn:E1; cbn [obind]; try discriminate.
    destruct (rd_buckets n r1) as [[[bs nt] r2]|t|t] eqn:E2; cbn [obind]; try discriminate.
    intros [= <- <- <-]. rewrite (dec_bucket_ext _ q _ _ _ E1). cbn [obind].
    now rewrite (IH _ q _ _ _ E2).
Qed.

Lemma rd_buckets_np n : forall p t, rd_buckets n p <> Panic t.
Proof.
  induction n as [|n IH]; intros p t; cbn [rd_buckets]; [discriminate|].
  destruct (dec_bucket p) as [[[b nb] r1]|e|e] eqn:E1; cbn [obind]; try discriminate.
  - destruct (rd_buckets n r1) as [[[bs nt] r2]|e|e] eqn:E2; cbn [obind]; try discriminate.
    exfalso. eapply IH; eauto.
  - exfalso. eapply dec_bucket_np; eauto.
Qed.

Definition cuckoo_cwf (f : cuckoo) : Prop :=
  q_size f < two64 /\ q_bsize f < two64 /\ q_fpl f < two64 /\ q_len f < two64 /\ q_retries f < two64 /\
  length (q_buckets f) = N.to_nat (q_size f) /\ Forall bucket_cwf (q_buckets f).

Lemma flat_enc_bucket_length l :
  N.of_nat (length (flat_map enc_bucket l)) = sumN (map bucket_write_ret l).
Proof.
  induction l as [|b l IH]; cbn [flat_map map sumN length]; auto.
  now rewrite app_length, Nat2N.inj_add, IH, enc_bucket_length.
Qed.

Theorem cuckoo_roundtrip f rest : cuckoo_cwf f ->
  exists img, enc_cuckoo f = Ok img /\ dec_cuckoo (img ++ rest) = Ok (f, N.of_nat (length img), rest) /\
              cuckoo_write_ret f = N.of_nat (length img).
Proof.
  intros (H1 & H2 & H3 & H4 & H5 & Hl & Hb). unfold enc_cuckoo.
  rewrite <- Hl, Nat.ltb_irrefl, firstn_all. eexists; split; [reflexivity|].
  set (body := flat_map enc_bucket (q_buckets f)).
  assert (Htot : N.of_nat (length (u64be (q_size f) ++ u64be (q_bsize f) ++ u64be (q_fpl f) ++
                           u64be (q_len f) ++ u64be (q_retries f) ++ body))
                 = sumN (map bucket_write_ret (q_buckets f)) + 40).
  { rewrite !app_length, !u64be_length, !Nat2N.inj_add. unfold body. rewrite flat_enc_bucket_length.
    change (N.of_nat 8) with 8. lia. }
  split.
  - unfold dec_cuckoo. rewrite Htot. rewrite <- !app_assoc.
    rewrite rd_u64_enc by auto. cbn [obind fst snd].
    rewrite rd_u64_enc by auto. cbn [obind fst snd].
    rewrite rd_u64_enc by auto. cbn [obind fst snd].
    rewrite rd_u64_enc by auto. cbn [obind fst snd].
    rewrite rd_u64_enc by auto. cbn [obind fst snd].
    rewrite <- Hl. unfold body. rewrite rd_buckets_enc by exact Hb. cbn [obind].
    destruct f; reflexivity.
  - unfold cuckoo_write_ret. rewrite <- Hl, firstn_all, Htot. lia.
Qed.

Lemma dec_cuckoo_ext p q s n r : dec_cuckoo p = Ok (s, n, r) -> dec_cuckoo (p ++ q) = Ok (s, n, r ++ q).
Proof.
  unfold dec_cuckoo.
  destruct (rd_u64 p) as [[x1 r1]|t|t] eqn:E1; cbn [obind]; try discriminate. cbn [fst snd].
  destruct (rd_u64 r1) as [[x2 r2]|t|t] eqn:E2; cbn [obind]; try discriminate. cbn [fst snd].
  destruct (rd_u64 r2) as [[x3 r3]|t|t] eqn:E3; cbn [obind]; try discriminate. cbn [fst snd].
  destruct (rd_u64 r3) as [[x4 r4]|t|t] eqn:E4; cbn [obind]; try discriminate. cbn [fst snd].
  destruct (rd_u64 r4) as [[x5 r5]|t|t] eqn:E5; cbn [obind]; try discriminate. cbn [fst snd].
  destruct (rd_buckets (N.to_nat x1) r5) as [[[bl nb] r6]|t|t] eqn:E6; cbn [obind]; try discriminate.
  intros [= <- <- <-].
  rewrite (rd_u64_ext _ q _ _ E1); cbn [obind fst snd].
  rewrite (rd_u64_ext _ q _ _ E2); cbn [obind fst snd].
  rewrite (rd_u64_ext _ q _ _ E3); cbn [obind fst snd].
  rewrite (rd_u64_ext _ q _ _ E4); cbn [obind fst snd].
  rewrite (rd_u64_ext _ q _ _ E5); cbn [obind fst snd].
  rewrite (rd_buckets_ext _ _ q _ _ _ E6); cbn [obind]. reflexivity.
Qed.

Lemma dec_cuckoo_np p t : dec_cuckoo p <> Panic t.
Proof.
  unfold dec_cuckoo.
  destruct (rd_u64 p) as [[x1 r1]|e|e] eqn:E1; cbn [obind]; try discriminate; [|exfalso; eapply rd_u64_np; eauto].
  cbn [fst snd].
  destruct (rd_u64 r1) as [[x2 r2]|e|e] eqn:E2; cbn [obind]; try discriminate; [|exfalso; eapply rd_u64_np; eauto].
  cbn [fst snd].
  destruct (rd_u64 r2) as [[x3 r3]|e|e] eqn:E3; cbn [obind]; try discriminate; [|exfalso; eapply rd_u64_np; eauto].
  cbn [fst snd].
  destruct (rd_u64 r3) as [[x4 r4]|e|e] eqn:E4; cbn [obind]; try discriminate; [|exfalso; eapply rd_u64_np; eauto].
  cbn [fst snd].
  destruct (rd_u64 r4) as [[x5 r5]|e|e] eqn:E5; cbn [obind]; try discriminate; [|exfalso; eapply rd_u64_np; eauto].
  cbn [fst snd].
  destruct (rd_buckets (N.to_nat x1) r5) as [[[bl nb] r6]|e|e] eqn:E6; cbn [obind]; try discriminate.
  exfalso; eapply rd_buckets_np; eauto.
Qed.

Theorem cuckoo_truncated_rejected f img k : cuckoo_cwf f -> enc_cuckoo f = Ok img -> (k < length img)%nat ->
  exists t, dec_cuckoo (firstn k img) = Err t.
Proof.
  intros Hw He Hk. destruct (cuckoo_roundtrip f [] Hw) as (img' & He' & Hd & _).
  rewrite He in He'. injection He' as <-. rewrite app_nil_r in Hd.
  eapply (strict_prefix_rejected dec_cuckoo dec_cuckoo_ext dec_cuckoo_np); eauto.
Qed.

(* ---------- Top-K (heap holding exactly k entries) ---------- *)
Definition entry_cwf (e : hentry) : Prop := N.of_nat (length (fst e)) < two64 /\ snd e < two64.
Definition topk_cwf (p : topk_params) (t : topk) : Prop :=
  t_k t < two64 /\ tp_er p < two64 /\ tp_acc p < two64 /\ cms_wf (t_sketch t) /\
  length (t_heap t) = N.to_nat (t_k t) /\ Forall entry_cwf (t_heap t).

Lemma enc_entry_length e : N.of_nat (length (enc_entry e)) = 16 + N.of_nat (length (fst e)).
Proof.
  unfold enc_entry. rewrite app_length, enc_str_length, u64be_length, !Nat2N.inj_add.
  change (N.of_nat 8) with 8. lia.
Qed.

Lemma rd_entries_enc l rest :
  Forall entry_cwf l ->
  rd_entries (length l) (flat_map enc_entry l ++ rest) =
  Ok (l, sumN (map (fun e => 16 + N.of_nat (length (fst e))) l), rest).
Proof.
  induction 1 as [|e l [He1 He2] Hl IH]; cbn [length rd_entries flat_map map sumN]; auto.
  unfold enc_entry at 1. rewrite <- !app_assoc, rd_str_enc by auto. cbn [obind fst snd].
  rewrite rd_u64_enc by auto. cbn [obind fst snd]. rewrite IH. cbn [obind].
  destruct e; reflexivity.
Qed.

Lemma rd_entries_ext n : forall p q l k r, rd_entries n p = Ok (l, k, r) -> rd_entries n (p ++ q) = Ok (l, k, r ++ q).
Proof.
  induction n as [|n IH]; intros p q l k r; cbn [rd_entries].
  - now intros [= <- <- <-].
  - destruct (rd_str p) as [[v r1]|t|t] eqn:E1; cbn [obind]; try discriminate. cbn [fst snd].
    destruct (rd_u64 r1) as [[f r2]|t|t] eqn:E2; cbn [obind]; try discriminate. cbn [fst snd].
    destruct (rd_entries n r2) as [[[es nt] r3]|t|t] eqn:E3; cbn [obind]; try discriminate.
    intros [= <- <- <-]. rewrite (rd_str_ext _ q _ _ E1). cbn [obind fst snd].
    rewrite (rd_u64_ext _ q _ _ E2). cbn [obind fst snd]. now rewrite (IH _ q _ _ _ E3).
Qed.

Lemma rd_entries_np n : forall p t, rd_entries n p <> Panic t.
Proof.
  induction n as [|n IH]; intros p t; cbn [rd_entries]; [discriminate|].
  destruct (rd_str p) as [[v r1]|e|e] eqn:E1; cbn [obind]; try discriminate; [|exfalso; eapply rd_str_np; eauto].
  cbn [fst snd].
  destruct (rd_u64 r1) as [[f r2]|e|e] eqn:E2; cbn [obind]; try discriminate; [|exfalso; eapply rd_u64_np; eauto].
  cbn [fst snd].
  destruct (rd_entries n r2) as [[[es nt] r3]|e|e] eqn:E3; cbn [obind]; try discriminate.
  exfalso. eapply IH; eauto.
Qed.

Lemma flat_enc_entry_length l :
  N.of_nat (length (flat_map enc_entry l)) = sumN (map (fun e => 16 + N.of_nat (length (fst e))) l).
Proof.
  induction l as [|e l IH]; cbn [flat_map map sumN length]; auto.
  now rewrite app_length, Nat2N.inj_add, IH, enc_entry_length.
Qed.

Theorem topk_roundtrip p t rest : topk_cwf p t ->
  exists img, enc_topk p t = Ok img /\
              dec_topk (img ++ rest) = Ok (p, t, N.of_nat (length img), rest) /\
              topk_write_ret t = N.of_nat (length img).
Proof.
  intros (Hk & He & Ha & Hs & Hl & Hh). unfold enc_topk.
  destruct (cms_roundtrip (t_sketch t) (flat_map enc_entry (t_heap t) ++ rest) Hs) as (sk & Esk & Dsk & Rsk).
  rewrite Esk. cbn [obind]. rewrite <- Hl, Nat.ltb_irrefl, firstn_all.
  eexists; split; [reflexivity|].
  assert (Htot : N.of_nat (length (u64be (t_k t) ++ u64be (tp_er p) ++ u64be (tp_acc p) ++ sk ++
                                   flat_map enc_entry (t_heap t)))
                 = N.of_nat (length sk) + sumN (map (fun e => 16 + N.of_nat (length (fst e))) (t_heap t)) + 24).
  { rewrite !app_length, !u64be_length, !Nat2N.inj_add, flat_enc_entry_length.
    change (N.of_nat 8) with 8. lia. }
  split.
  - unfold dec_topk. rewrite Htot. rewrite <- !app_assoc.
    rewrite rd_u64_enc by auto. cbn [obind fst snd].
    rewrite rd_u64_enc by auto. cbn [obind fst snd].
    rewrite rd_u64_enc by auto. cbn [obind fst snd].
    rewrite Dsk. cbn [obind]. rewrite <- Hl. rewrite rd_entries_enc by exact Hh. cbn [obind].
    destruct p, t; reflexivity.
  - unfold topk_write_ret. rewrite <- Hl, firstn_all, Htot, Rsk. lia.
Qed.

Lemma dec_topk_ext p q s n r : dec_topk p = Ok (s, n, r) -> dec_topk (p ++ q) = Ok (s, n, r ++ q).
Proof.
  unfold dec_topk.
  destruct (rd_u64 p) as [[x1 r1]|t|t] eqn:E1; cbn [obind]; try discriminate. cbn [fst snd].
  destruct (rd_u64 r1) as [[x2 r2]|t|t] eqn:E2; cbn [obind]; try discriminate. cbn [fst snd].
  destruct (rd_u64 r2) as [[x3 r3]|t|t] eqn:E3; cbn [obind]; try discriminate. cbn [fst snd].
  destruct (dec_cms r3) as [[[c nc] r4]|t|t] eqn:E4; cbn [obind]; try discriminate.
  destruct (rd_entries (N.to_nat x1) r4) as [[[h nh] r5]|t|t] eqn:E5; cbn [obind]; try discriminate.
  intros [= <- <- <-].
  rewrite (rd_u64_ext _ q _ _ E1); cbn [obind fst snd].
  rewrite (rd_u64_ext _ q _ _ E2); cbn [obind fst snd].
  rewrite (rd_u64_ext _ q _ _ E3); cbn [obind fst snd].
  rewrite (dec_cms_ext _ q _ _ _ E4); cbn [obind].
  rewrite (rd_entries_ext _ _ q _ _ _ E5); cbn [obind]. reflexivity.
Qed.

Lemma dec_topk_np p t : dec_topk p <> Panic t.
Proof.
  unfold dec_topk.
  destruct (rd_u64 p) as [[x1 r1]|e|e] eqn:E1; cbn [obind]; try discriminate; [|exfalso; eapply rd_u64_np; eauto].
  cbn [fst snd].
  destruct (rd_u64 r1) as [[x2 r2]|e|e] eqn:E2; cbn [obind]; try discriminate; [|exfalso; eapply rd_u64_np; eauto].
  cbn [fst snd].
  destruct (rd_u64 r2) as [[x3 r3]|e|e] eqn:E3; cbn [obind]; try discriminate; [|exfalso; eapply rd_u64_np; eauto].
  cbn [fst snd].
  destruct (dec_cms r3) as [[[c nc] r4]|e|e] eqn:E4; cbn [obind]; try discriminate; [|exfalso; eapply dec_cms_np; eauto].
  destruct (rd_entries (N.to_nat x1) r4) as [[[h nh] r5]|e|e] eqn:E5; cbn [obind]; try discriminate.
  exfalso; eapply rd_entries_np; eauto.
Qed.

Theorem topk_truncated_rejected p t img k : topk_cwf p t -> enc_topk p t = Ok img -> (k < length img)%nat ->
  exists e, dec_topk (firstn k img) = Err e.
Proof.
  intros Hw He Hk. destruct (topk_roundtrip p t [] Hw) as (img' & He' & Hd & _).
  rewrite He in He'. injection He' as <-. rewrite app_nil_r in Hd.
  eapply (strict_prefix_rejected dec_topk dec_topk_ext dec_topk_np); eauto.
Qed.

(* a partially filled heap cannot be written: the writer panics (known finding) *)
Theorem topk_partial_heap_panics p t :
  (exists sk, enc_cms (t_sketch t) = Ok sk) -> (length (t_heap t) < N.to_nat (t_k t))%nat ->
  enc_topk p t = Panic P_INDEX.
Proof.
  intros (sk & E) Hl. unfold enc_topk. rewrite E. cbn [obind].
  destruct (Nat.ltb_spec (length (t_heap t)) (N.to_nat (t_k t))); [reflexivity|lia].
Qed.
