(* RedisDocProofs.v — C10 for Redis-backed structures, on the Redis models: what Export reads is
   exactly the represented state, and importing that (under the same or new keys) writes a store
   that represents the same state again. *)
From GX.Model Require Import Base HLL Redis RedisCMS RedisHLL RedisBloom.
From GX.Proofs Require Import ListLemmas RedisProofs CodecProofs HLLProofs RedisHLLRefine AttachProofs RedisBloomProofs.
From Coq Require Import ZArith Lia ZifyN ZifyNat ZifyBool.
Open Scope N_scope.

(* ---------- HyperLogLog ---------- *)
Lemma map_atoi_dec l : Forall (fun r => r < 256) l ->
  map (fun v => wrap8 (atoi (Some v))) (map dec l) = l.
Proof.
  induction 1 as [|x t Hx _ IH]; [reflexivity|]. cbn [map]. rewrite atoi_dec, IH. f_equal.
  rewrite wrap8_spec. apply N.mod_small. exact Hx.
Qed.

Theorem rhll_export_is_registers s h mh : hrefines s h mh -> rhll_export_regs s h = Ok (h_regs mh).
Proof.
  intros (Hm & Hp & (Hlen & Hsmall) & Hl). unfold rhll_export_regs. rewrite Hl, map_length, Hm, Hlen.
  rewrite Nat.ltb_irrefl. rewrite <- Hlen, <- (map_length dec), firstn_all.
  rewrite map_atoi_dec by exact Hsmall. reflexivity.
Qed.

Lemma r_list_rpush_fresh s k vs : r_list (r_rpush (sdel s k) k vs) k = vs.
Proof.
  unfold r_rpush. assert (E : r_list (sdel s k) k = []) by (unfold r_list; rewrite sget_sdel_same; reflexivity).
  rewrite E. cbn [app]. unfold r_putlist, r_list. destruct vs as [|v t].
  - rewrite sget_sdel_same. reflexivity.
  - rewrite sget_sset_same. reflexivity.
Qed.

(* importing an exported sketch (under any data key different from the metadata key) gives a
   handle and a store that represent the same registers *)
Theorem rhll_import_represents s h mh key : hwf mh -> h_regs mh <> [] -> key <> rh_meta h ->
  exists h' s', rhll_import s h (h_m mh) (h_p mh) (h_alpha mh) (h_regs mh) key = (Ok h', s') /\
                hrefines s' h' mh /\ rh_key h' = key /\ rh_meta h' = rh_meta h.
Proof.
  intros Hwf Hne Hk. unfold rhll_import. destruct (h_regs mh) as [|r t] eqn:E; [contradiction|].
  eexists. eexists. split; [reflexivity|]. split; [|split; reflexivity].
  unfold hrefines. cbn [rh_m rh_p rh_key]. split; [reflexivity|]. split; [reflexivity|]. split; [exact Hwf|].
  rewrite r_list_rpush_fresh. rewrite E. reflexivity.
Qed.

(* ---------- Bloom ---------- *)
Lemma rev8_involutive_all : forallb (fun x => rev8 (rev8 x) =? x) (nseq 256) = true.
Proof. vm_compute. reflexivity. Qed.

Lemma rev8_involutive x : x < 256 -> rev8 (rev8 x) = x.
Proof.
  intros H. pose proof rev8_involutive_all as Hall. rewrite forallb_forall in Hall.
  apply N.eqb_eq. apply Hall. unfold nseq. apply in_map_iff. exists (N.to_nat x). split; [lia|].
  apply in_seq. lia.
Qed.

Lemma map_rev8_involutive v : Forall (fun b => b < 256) v -> map rev8 (map rev8 v) = v.
Proof. induction 1 as [|x t Hx _ IH]; [reflexivity|]. cbn [map]. rewrite rev8_involutive, IH by exact Hx. reflexivity. Qed.

Lemma rbloom_image_eq s h v : r_get s (rb_key h) = Some v -> rb_nil h = false ->
  rbloom_image s h = Ok (u64be (rb_bsize h) ++ rev (map rev8 v)).
Proof. intros Hv Hn. unfold rbloom_image. rewrite Hn, Hv. reflexivity. Qed.

Lemma rbloom_import_of_image v bsize s2 h2 m k :
  Forall (fun b => b < 256) v -> bsize < two64 -> rb_nil h2 = false -> rb_key h2 <> rb_meta h2 ->
  exists h' s', rbloom_import s2 h2 m k (u64be bsize ++ rev (map rev8 v)) = (Ok h', s') /\
    r_get s' (rb_key h') = Some v /\ rb_key h' = rb_key h2 /\ rb_bsize h' = bsize /\
    rb_size h' = m /\ rb_k h' = k /\ rb_nil h' = false.
Proof.
  intros Hb Hs Hn2 Hkm. unfold rbloom_import. rewrite Hn2. rewrite app_length, u64be_length.
  replace (8 + length (rev (map rev8 v)) <? 8)%nat with false by (symmetry; apply Nat.ltb_ge; lia).
  rewrite firstn_app, u64be_length, Nat.sub_diag, firstn_O, app_nil_r.
  rewrite (firstn_all2 (u64be bsize)) by (rewrite u64be_length; lia).
  rewrite skipn_app, u64be_length, Nat.sub_diag.
  rewrite (skipn_all2 (u64be bsize)) by (rewrite u64be_length; lia).
  cbn [app skipn]. rewrite rev_involutive, map_rev8_involutive by exact Hb.
  eexists. eexists. split; [reflexivity|]. cbn [rb_key rb_bsize rb_size rb_k rb_nil].
  split; [|split; [reflexivity|split; [|repeat split; reflexivity]]].
  - destruct (rb_meta h2) as [|c mk] eqn:Em.
    + apply r_get_set_same.
    + unfold r_hset, r_get. rewrite sget_sset_other by exact Hkm.
      unfold r_set. rewrite sget_sset_same. reflexivity.
  - unfold u64be. rewrite be_val_be_bytes. rewrite two64_pow. rewrite N.mod_small by exact Hs. lia.
Qed.

(* Export then Import: the target's Redis string is the source's, its cached size the source's *)
Theorem rbloom_image_import_roundtrip s h v s2 h2 m k :
  r_get s (rb_key h) = Some v -> Forall (fun b => b < 256) v -> rb_bsize h < two64 ->
  rb_nil h = false -> rb_nil h2 = false -> rb_key h2 <> rb_meta h2 ->
  exists img h' s', rbloom_image s h = Ok img /\ rbloom_import s2 h2 m k img = (Ok h', s') /\
    r_get s' (rb_key h') = Some v /\ rb_key h' = rb_key h2 /\ rb_bsize h' = rb_bsize h /\
    rb_size h' = m /\ rb_k h' = k /\ rb_nil h' = false.
Proof.
  intros Hv Hb Hs Hn Hn2 Hkm.
  destruct (rbloom_import_of_image v (rb_bsize h) s2 h2 m k Hb Hs Hn2 Hkm) as (h' & s' & Hi & Hrest).
  exists (u64be (rb_bsize h) ++ rev (map rev8 v)), h', s'.
  split; [apply rbloom_image_eq; assumption|]. split; [exact Hi|exact Hrest].
Qed.
