(* RedisBloomProofs.v — C01 for the Redis-backed Bloom filter, on the Redis model itself (SETBIT /
   GETBIT on a Redis string, most significant bit first, the string growing on demand): a bit
   that was set stays set, so after Insert x every later Lookup x answers true, for every
   position function (hence every hash, size, number of hashes) and every history of inserts. *)
From GX.Model Require Import Base Redis RedisCMS RedisBloom.
From GX.Proofs Require Import ListLemmas RedisProofs CuckooInv.
From Coq Require Import ZArith Lia ZifyN ZifyNat ZifyBool.
Open Scope N_scope.

(* ---------- one Redis string ---------- *)
Lemma testbit_lor_pow2_same x k : N.testbit (N.lor x (2 ^ k)) k = true.
Proof. rewrite N.lor_spec, N.pow2_bits_true. apply orb_true_r. Qed.

Lemma testbit_lor_mono x y k : N.testbit x k = true -> N.testbit (N.lor x y) k = true.
Proof. intros H. rewrite N.lor_spec, H. reflexivity. Qed.

Definition grown (b : bytes) (byte : N) : bytes :=
  if byte <? N.of_nat (length b) then b else b ++ repeat 0 (N.to_nat byte + 1 - length b).

Lemma grown_length b byte : byte < N.of_nat (length (grown b byte)).
Proof.
  unfold grown. destruct (N.ltb_spec byte (N.of_nat (length b))); [assumption|].
  rewrite app_length, repeat_length. lia.
Qed.

Lemma grown_nth b byte k x : nthN b k = Some x -> nthN (grown b byte) k = Some x.
Proof.
  unfold grown. destruct (byte <? N.of_nat (length b)); [auto|].
  unfold nthN. destruct (N.ltb_spec k (N.of_nat (length b))) as [Hk|Hk]; [|discriminate].
  intros H. rewrite app_length. replace (k <? N.of_nat (length b + _)) with true by lia.
  rewrite nth_error_app1 by lia. exact H.
Qed.

Lemma nthN_upd_same {A} (l : list A) i f : i < N.of_nat (length l) ->
  nthN (upd l (N.to_nat i) f) i = option_map f (nthN l i).
Proof.
  intros H. unfold nthN. rewrite upd_length. replace (i <? N.of_nat (length l)) with true by lia.
  apply nth_error_upd_same.
Qed.
Lemma nthN_upd_other {A} (l : list A) i k f : i <> k -> nthN (upd l (N.to_nat i) f) k = nthN l k.
Proof.
  intros H. unfold nthN. rewrite upd_length. destruct (k <? N.of_nat (length l)); [|reflexivity].
  apply nth_error_upd_other. lia.
Qed.

Lemma str_setbit_eq b i :
  str_setbit b i = upd (grown b (i / 8)) (N.to_nat (i / 8)) (fun x => N.lor x (2 ^ (7 - i mod 8))).
Proof. reflexivity. Qed.

Lemma str_getbit_setbit_same b i : str_getbit (str_setbit b i) i = true.
Proof.
  rewrite str_setbit_eq. unfold str_getbit.
  rewrite nthN_upd_same by apply grown_length.
  pose proof (grown_length b (i / 8)) as Hl.
  destruct (nthN (grown b (i / 8)) (i / 8)) as [x|] eqn:E.
  - cbn [option_map]. apply testbit_lor_pow2_same.
  - exfalso. unfold nthN in E. replace (i / 8 <? N.of_nat (length (grown b (i / 8)))) with true in E by lia.
    apply nth_error_None in E. lia.
Qed.

Lemma str_getbit_setbit_mono b i j : str_getbit b j = true -> str_getbit (str_setbit b i) j = true.
Proof.
  rewrite str_setbit_eq. unfold str_getbit.
  destruct (nthN b (j / 8)) as [x|] eqn:E; [|discriminate]. intros Hx.
  pose proof (grown_nth b (i / 8) (j / 8) x E) as Hg.
  destruct (N.eq_dec (i / 8) (j / 8)) as [Eq|Ne].
  - rewrite <- Eq in *. rewrite nthN_upd_same by apply grown_length. rewrite Hg. cbn [option_map].
    apply testbit_lor_mono. exact Hx.
  - rewrite nthN_upd_other by exact Ne. rewrite Hg. exact Hx.
Qed.

(* ---------- the store ---------- *)
Lemma r_get_set_same s k v : r_get (r_set s k v) k = Some v.
Proof. unfold r_get, r_set. rewrite sget_sset_same. reflexivity. Qed.

Lemma getbit_setbit_same s k i : r_getbit (r_setbit1 s k i) k i = true.
Proof. unfold r_getbit, r_setbit1. rewrite r_get_set_same. apply str_getbit_setbit_same. Qed.

Lemma getbit_setbit_mono s k i j : r_getbit s k j = true -> r_getbit (r_setbit1 s k i) k j = true.
Proof.
  unfold r_getbit, r_setbit1. rewrite r_get_set_same.
  destruct (r_get s k) as [b|]; [|discriminate]. apply str_getbit_setbit_mono.
Qed.

Lemma fold_setbit_mono k l : forall s j, r_getbit s k j = true ->
  r_getbit (fold_left (fun st i => r_setbit1 st k i) l s) k j = true.
Proof. induction l as [|a t IH]; intros s j H; cbn [fold_left]; [exact H|]. apply IH. apply getbit_setbit_mono. exact H. Qed.

Lemma fold_setbit_in k l : forall s j, In j l ->
  r_getbit (fold_left (fun st i => r_setbit1 st k i) l s) k j = true.
Proof.
  induction l as [|a t IH]; intros s j H; [destruct H|]. cbn [fold_left]. destruct H as [->|H].
  - apply fold_setbit_mono. apply getbit_setbit_same.
  - apply IH. exact H.
Qed.

(* ---------- the filter ---------- *)
Section Filter.
Variable bpos : N -> N -> bytes -> list N.

Definition rbrun (s : store) (h : rbloom) (xs : list bytes) : store :=
  fold_left (fun st y => snd (rbloom_insert bpos st h y)) xs s.

Definition bits_kept (k : bytes) (s s' : store) : Prop :=
  forall j, r_getbit s k j = true -> r_getbit s' k j = true.

Lemma insert_keeps s h x : rb_nil h = false -> bits_kept (rb_key h) s (snd (rbloom_insert bpos s h x)).
Proof. intros Hn j Hj. unfold rbloom_insert. rewrite Hn. cbn [snd]. apply fold_setbit_mono. exact Hj. Qed.

Lemma rbrun_keeps h xs : rb_nil h = false -> forall s, bits_kept (rb_key h) s (rbrun s h xs).
Proof.
  intros Hn. induction xs as [|y t IH]; intros s j Hj; cbn [rbrun fold_left]; [exact Hj|].
  apply IH. apply insert_keeps; assumption.
Qed.

Theorem redis_no_false_negative s h xs1 x xs2 : rb_nil h = false ->
  rbloom_lookup bpos (rbrun (snd (rbloom_insert bpos (rbrun s h xs1) h x)) h xs2) h x = Ok true.
Proof.
  intros Hn. unfold rbloom_lookup. destruct (bpos (rb_size h) (rb_k h) x) as [|p ps] eqn:Ep; [reflexivity|].
  rewrite Hn. f_equal. apply forallb_forall. intros j Hj.
  apply rbrun_keeps; [exact Hn|].
  unfold rbloom_insert. rewrite Hn. cbn [snd]. apply fold_setbit_in. rewrite Ep. exact Hj.
Qed.
End Filter.
