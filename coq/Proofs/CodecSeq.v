(* CodecSeq.v — C11, last clause: several structures of any of the five in-memory kinds written
   back to back into one stream are read back, in order, as the same structures, each reader
   consuming exactly what its writer wrote. A consequence of the per-structure round trips "with a
   remainder". *)
From GX.Model Require Import Base CMS Bloom HLL Cuckoo Heap TopK Codec.
From GX.Proofs Require Import ListLemmas CodecProofs BloomCodec.

Inductive item :=
| ICms (s : cms) | IHll (h : hll) | ICuckoo (f : cuckoo) | ITopk (p : topk_params) (t : topk) | IBloom (f : bloom).
Inductive kind := KCms | KHll | KCuckoo | KTopk | KBloom.
Definition kind_of (i : item) : kind :=
  match i with ICms _ => KCms | IHll _ => KHll | ICuckoo _ => KCuckoo | ITopk _ _ => KTopk | IBloom _ => KBloom end.
Definition item_wf (i : item) : Prop :=
  match i with
  | ICms s => cms_wf s | IHll h => hll_cwf h | ICuckoo f => cuckoo_cwf f | ITopk p t => topk_cwf p t | IBloom f => bloom_cwf f
  end.

(* WriteTo of one structure *)
Definition enc_item (i : item) : outcome bytes :=
  match i with
  | ICms s => enc_cms s | IHll h => Ok (enc_hll h) | ICuckoo f => enc_cuckoo f
  | ITopk p t => enc_topk p t | IBloom f => Ok (enc_bloom f)
  end.
(* ReadFrom of the kind the reader expects: the structure and what is left of the stream *)
Definition dec_item (k : kind) (bs : bytes) : outcome (item * bytes) :=
  match k with
  | KCms => match dec_cms bs with Ok (s, _, r) => Ok (ICms s, r) | Err e => Err e | Panic e => Panic e end
  | KHll => match dec_hll bs with Ok (h, _, r) => Ok (IHll h, r) | Err e => Err e | Panic e => Panic e end
  | KCuckoo => match dec_cuckoo bs with Ok (f, _, r) => Ok (ICuckoo f, r) | Err e => Err e | Panic e => Panic e end
  | KTopk => match dec_topk bs with Ok (p, t, _, r) => Ok (ITopk p t, r) | Err e => Err e | Panic e => Panic e end
  | KBloom => match dec_bloom bs with Ok (f, _, r) => Ok (IBloom f, r) | Err e => Err e | Panic e => Panic e end
  end.

(* writing a sequence back to back, reading a sequence of expected kinds *)
Fixpoint enc_seq (l : list item) : outcome bytes :=
  match l with
  | [] => Ok []
  | i :: t => match enc_item i, enc_seq t with
              | Ok a, Ok b => Ok (a ++ b)
              | Ok _, Err e | Err e, _ => Err e
              | Ok _, Panic e | Panic e, _ => Panic e
              end
  end.
Fixpoint dec_seq (ks : list kind) (bs : bytes) : outcome (list item * bytes) :=
  match ks with
  | [] => Ok ([], bs)
  | k :: t => match dec_item k bs with
              | Ok (i, r) => match dec_seq t r with
                             | Ok (l, r') => Ok (i :: l, r')
                             | Err e => Err e
                             | Panic e => Panic e
                             end
              | Err e => Err e
              | Panic e => Panic e
              end
  end.

Lemma item_roundtrip i rest : item_wf i ->
  exists img, enc_item i = Ok img /\ dec_item (kind_of i) (img ++ rest) = Ok (i, rest).
Proof.
  destruct i as [s|h|f|p t|f]; cbn [item_wf enc_item kind_of dec_item]; intros Hw.
  - destruct (cms_roundtrip s rest Hw) as (img & E & D & _). exists img. rewrite D. auto.
  - exists (enc_hll h). rewrite (proj1 (hll_roundtrip h rest Hw)). auto.
  - destruct (cuckoo_roundtrip f rest Hw) as (img & E & D & _). exists img. rewrite D. auto.
  - destruct (topk_roundtrip p t rest Hw) as (img & E & D & _). exists img. rewrite D. auto.
  - exists (enc_bloom f). rewrite (proj1 (bloom_roundtrip f rest Hw)). auto.
Qed.

Theorem seq_roundtrip l : forall rest, Forall item_wf l ->
  exists img, enc_seq l = Ok img /\ dec_seq (map kind_of l) (img ++ rest) = Ok (l, rest).
Proof.
  induction l as [|i t IH]; intros rest Hw; cbn [enc_seq dec_seq map].
  - exists []. auto.
  - inversion Hw as [|? ? Hi Ht]; subst.
    destruct (IH rest Ht) as (b & Eb & Db).
    destruct (item_roundtrip i (b ++ rest) Hi) as (a & Ea & Da).
    exists (a ++ b). rewrite Ea, Eb. split; [reflexivity|].
    rewrite <- app_assoc, Da, Db. reflexivity.
Qed.
