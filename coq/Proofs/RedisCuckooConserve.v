(* C14 (destructive half) and C02 ("an Insert that returns has stored the element") on the Redis
   model: a destructive Insert never duplicates or silently drops a stored fingerprint. Over the
   multiset of all non-empty list entries of all buckets: an Insert that returns adds exactly the
   new fingerprint; an Insert that fails (filter full) leaves the multiset as it was except that at
   most one entry was exchanged -- the inserted fingerprint took a place and exactly one
   fingerprint (possibly the inserted one itself) left the table. *)
From GX.Model Require Import Base Redis RedisCMS Cuckoo RedisCuckoo.
From GX.Proofs Require Import ListLemmas CuckooProofs CuckooInv CuckooLive RedisProofs RedisCuckooInv CuckooRefine.
From GX.Proofs Require RedisCMSRefine.
From Coq Require Import Permutation Lia ZArith ZifyN ZifyNat ZifyBool.

Lemma live_setnth_swap (l : list bytes) : forall p (prev e : bytes), nth_error l p = Some prev -> prev <> [] -> e <> [] ->
  Permutation (prev :: live (setnth l p e)) (e :: live l).
Proof.
  induction l as [|a t IH]; intros [|p] prev e Hn Hp He; cbn in Hn; try discriminate.
  - injection Hn as ->. unfold setnth; cbn [upd live filter].
    apply nonempty_true in He. apply nonempty_true in Hp. rewrite He, Hp. apply perm_swap.
  - unfold setnth in *. cbn [upd live filter]. fold (live t). fold (live (upd t p (fun _ => e))).
    destruct (nonempty a).
    + eapply perm_trans; [apply perm_swap|]. eapply perm_trans; [apply perm_skip; apply (IH p prev e Hn Hp He)|apply perm_swap].
    + apply (IH p prev e Hn Hp He).
Qed.

Lemma perm_concat_change (l : list N) (F G : N -> list bytes) i (x y : list bytes) : NoDup l -> In i l ->
  (forall j, In j l -> j <> i -> G j = F j) ->
  Permutation (x ++ G i) (y ++ F i) ->
  Permutation (x ++ concat (map G l)) (y ++ concat (map F l)).
Proof.
  induction l as [|a t IH]; intros Hnd Hin Hsame HP; [destruct Hin|].
  apply NoDup_cons_iff in Hnd. destruct Hnd as [Hnot Hnd]. cbn [map concat].
  destruct Hin as [->|Hin].
  - assert (Heq : map G t = map F t).
    { apply map_ext_in. intros j Hj. apply Hsame; [right; exact Hj|]. intros ->. contradiction. }
    rewrite Heq, !app_assoc. apply Permutation_app_tail. exact HP.
  - assert (Hai : a <> i) by (intros ->; contradiction).
    rewrite (Hsame a (or_introl eq_refl) Hai).
    specialize (IH Hnd Hin (fun j Hj Hne => Hsame j (or_intror Hj) Hne) HP).
    eapply perm_trans; [rewrite app_assoc; apply Permutation_app_tail; apply Permutation_app_comm|].
    rewrite <- app_assoc. eapply perm_trans; [apply Permutation_app_head; exact IH|].
    rewrite !app_assoc. apply Permutation_app_tail. apply Permutation_app_comm.
Qed.

Section Conserve.
Variable key meta : bytes.
Variable size bsize fpl retries : N.
Hypothesis meta_not_bucket : forall i, meta <> bucket_key key i.
Hypothesis meta_not_len : forall i, meta <> len_key (bucket_key key i).
Hypothesis bsize_pos : 1 <= bsize.
Hypothesis bsize_small : bsize < 2 ^ 62.
Hypothesis size_pos : 0 < size.
Variable h64 : bytes -> N.

Notation H := (hdl key meta size bsize fpl retries).
Notation bl := (blist key).
Notation bkey := (bucket_key key).

(* all stored fingerprints, as a multiset *)
Definition rall (s : store) : list bytes := concat (map (fun i => live (bl s i)) (nseq size)).

Lemma rall_change i s s' (x y : list bytes) : i < size ->
  (forall j, j <> i -> bl s' j = bl s j) ->
  Permutation (x ++ live (bl s' i)) (y ++ live (bl s i)) ->
  Permutation (x ++ rall s') (y ++ rall s).
Proof.
  intros Hi Hsame HP. unfold rall.
  apply (perm_concat_change (nseq size) (fun j => live (bl s j)) (fun j => live (bl s' j)) i x y).
  - apply RedisCMSRefine.nseq_nodup.
  - apply In_nseq. exact Hi.
  - intros j _ Hj. rewrite (Hsame j Hj). reflexivity.
  - exact HP.
Qed.

Lemma rall_same s s' : (forall j, bl s' j = bl s j) -> rall s' = rall s.
Proof. intros E. unfold rall. f_equal. apply map_ext. intros j. rewrite E. reflexivity. Qed.

Definition rconserves (s : store) (e : bytes) (r : rins) : Prop :=
  match r with
  | RInsOk s' => Permutation (rall s') (e :: rall s)
  | RInsFull s' => exists lost, Permutation (lost :: rall s') (e :: rall s)
  | RInsPanic _ _ => True
  end.

Lemma rconserves_trans s s1 (curr prev : bytes) r :
  Permutation (prev :: rall s1) (curr :: rall s) -> rconserves s1 prev r -> rconserves s curr r.
Proof.
  intros Hp. destruct r as [s'|s'|t s']; simpl; auto.
  - intros Hr. eapply perm_trans; eauto.
  - intros (lost & Hr). exists lost. eapply perm_trans; eauto.
Qed.

(* storing a non-empty fingerprint in a bucket with room, then HINCRBY *)
Lemma add_hincr_conserves s i (e : bytes) c : buckets_ok key size bsize s -> mlen meta s = Some c -> i < size -> e <> [] ->
  rbk_is_free s (bkey i) bsize = true ->
  Permutation (rall (hincr (rbk_add s (bkey i) bsize e) H 1)) (e :: rall s).
Proof.
  intros Hok Hm Hi He Hfree. pose proof (Hok i Hi) as Hbwf.
  destruct (add_view key meta bsize meta_not_bucket meta_not_len bsize_pos bsize_small s i e Hbwf He Hfree) as (_ & _ & Hob).
  set (s1 := rbk_add s (bkey i) bsize e) in *. destruct Hob as [Hothers Hml].
  assert (Hm1 : mlen meta s1 = Some c) by congruence.
  destruct (hincr_view key meta size bsize meta_not_bucket meta_not_len fpl retries s1 1%Z c Hm1) as [_ Hv].
  rewrite (rall_same s1 _ (fun j => proj1 (Hv j))).
  apply (rall_change i s s1 [] [e] Hi (fun j Hj => proj1 (Hothers j Hj))). cbn [app].
  unfold s1. rewrite (add_list key meta size bsize meta_not_bucket meta_not_len bsize_pos bsize_small h64 size_pos s i e Hbwf He Hfree).
  destruct (index_of bytes_eqb (bl s i) [] 0) as [q|] eqn:Eq.
  - apply index_of_spec in Eq. destruct Eq as [_ Hq]. rewrite Nat.sub_0_r in Hq. apply (live_setnth_add _ q e Hq He).
  - rewrite (live_cons_ne e _ He). apply Permutation_refl.
Qed.

Lemma revict_conserves fuel : forall s c index (curr : bytes) draws items,
  buckets_ok key size bsize s -> mlen meta s = Some c -> index < size -> bfull key bsize s index -> curr <> [] ->
  Forall (fun k => k < 2 ^ 53) draws ->
  rconserves s curr (revict h64 fuel s H index curr draws items true).
Proof.
  induction fuel as [|fuel IH]; intros s c index curr draws items Hok Hm Hidx Hfull Hc Hdr; cbn [revict].
  - exists curr. apply Permutation_refl.
  - cbn [rq_key rq_size rq_bsize hdl].
    assert (Hlen : rbk_get_length s (bkey index) = bsize).
    { unfold rbk_get_length. fold (bcount key s index). destruct (Hok index Hidx) as (Hcn & _). rewrite Hcn.
      destruct Hfull as (Hfo & Hfl). rewrite Hfo, Hfl.
      rewrite Z.mod_small by (assert (2 ^ 62 < 18446744073709551616) by (vm_compute; reflexivity); lia). lia. }
    rewrite Hlen.
    set (ri := rand_slot (hd 0 draws) bsize).
    assert (Hri : ri <= bsize - 1).
    { unfold ri. apply rand_slot_le; [destruct draws; [simpl; lia|inversion Hdr; auto]|exact bsize_pos|].
      unfold two64. assert (2 ^ 62 < 18446744073709551616) by (vm_compute; reflexivity). lia. }
    assert (Hsi : ri < bsize) by lia.
    destruct (swap_view key meta size bsize meta_not_bucket meta_not_len bsize_pos bsize_small fpl h64 s index ri curr Hok Hidx Hfull Hsi Hc)
      as (Hok1 & _ & Hm1 & Hmono & (prev & Hat & Hprev & Hnth)).
    destruct (set_view key meta bsize meta_not_bucket meta_not_len bsize_pos bsize_small s index ri curr prev (Hok index Hidx) Hnth Hprev Hc)
      as (_ & _ & Hob & Hlist).
    rewrite Hat.
    set (s1 := rbk_set s (bkey index) ri curr) in *.
    assert (Hswap : Permutation (prev :: rall s1) (curr :: rall s)).
    { apply (rall_change index s s1 [prev] [curr] Hidx (fun j Hj => proj1 (proj1 Hob j Hj))). cbn [app].
      rewrite Hlist. apply (live_setnth_swap _ _ prev curr Hnth Hprev Hc). }
    assert (Hsize : size <> 0) by lia.
    set (newi := N.lxor index (h64 prev) mod size).
    assert (Hnewi : newi < size) by (apply N.mod_lt; exact Hsize).
    destruct (rbk_is_free s1 (bkey newi) bsize) eqn:Hfree.
    + simpl. eapply perm_trans; [apply (add_hincr_conserves s1 newi prev c Hok1 ltac:(congruence) Hnewi Hprev Hfree)|exact Hswap].
    + assert (Hfull1 : bfull key bsize s1 newi)
        by (apply (not_free_full key meta bsize meta_not_bucket meta_not_len bsize_pos bsize_small fpl h64); [apply Hok1; exact Hnewi|exact Hfree]).
      eapply rconserves_trans; [exact Hswap|].
      apply (IH s1 c newi prev (tl draws) ((prev, index, ri) :: items) Hok1 ltac:(congruence) Hnewi Hfull1 Hprev).
      destruct draws; simpl; [constructor|inversion Hdr; auto].
Qed.

Theorem rinsert_conserves s c x coin draws fp i1 i2 :
  buckets_ok key size bsize s -> mlen meta s = Some c ->
  rck_positions h64 H x = Ok (fp, i1, i2) -> fp <> [] -> i1 < size -> i2 < size ->
  Forall (fun k => k < 2 ^ 53) draws ->
  rconserves s fp (rck_insert h64 s H x true coin draws).
Proof.
  intros Hok Hm Hpos Hfp H1 H2 Hdr. unfold rck_insert. rewrite Hpos. cbn [rq_size rq_key rq_bsize rq_retries hdl].
  replace (size =? 0) with false by lia.
  destruct (rbk_is_free s (bkey i1) bsize) eqn:Hf1; [simpl; apply (add_hincr_conserves s i1 fp c); assumption|].
  destruct (rbk_is_free s (bkey i2) bsize) eqn:Hf2; [simpl; apply (add_hincr_conserves s i2 fp c); assumption|].
  apply (revict_conserves _ s c); auto.
  - destruct coin; assumption.
  - destruct coin; apply (not_free_full key meta bsize meta_not_bucket meta_not_len bsize_pos bsize_small fpl h64); auto.
Qed.
End Conserve.
