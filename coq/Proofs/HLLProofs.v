(* Proofs about the in-memory HyperLogLog model. *)
From GX.Model Require Import Base HLL.
From GX.Proofs Require Import ListLemmas.
From Coq Require Import Lia ZifyN ZifyNat ZifyBool.

Lemma clz64_le x : clz64 x <= 64.
Proof. unfold clz64; lia. Qed.

Lemma index_le_65 p h : fst (hll_index_count p h) <= 65.
Proof. unfold hll_index_count; cbn [fst]. pose proof (clz64_le (wrap64 (N.shiftl h p))). lia. Qed.

Lemma index_ge_1 p h : 1 <= fst (hll_index_count p h).
Proof. unfold hll_index_count; cbn [fst]. lia. Qed.

Definition hwf (s : hll) : Prop := length (h_regs s) = N.to_nat (h_m s) /\ Forall (fun r => r < 256) (h_regs s).

Lemma wrap8_lt x : wrap8 x < 256.
Proof. rewrite wrap8_spec; apply N.mod_lt; lia. Qed.

Lemma new_wf m al s : hll_new m al = Ok s -> hwf s /\ h_m s = m /\ h_p s = N.log2 m.
Proof.
  unfold hll_new. destruct (m =? 0); [discriminate|]. destruct (negb (is_pow2 m)); [discriminate|].
  intros [= <-]; unfold hwf; cbn. rewrite repeat_length. repeat split; auto.
  apply Forall_forall. intros r Hr. apply repeat_spec in Hr. subst; lia.
Qed.

Lemma Forall_upd {A} (P : A -> Prop) l i f :
  Forall P l -> (forall x, P x -> P (f x)) -> Forall P (upd l i f).
Proof.
  intros H Hf; revert i; induction H as [|x t Hx Ht IH]; intros [|i]; simpl; constructor; auto.
Qed.

Section HLLProofs.
Variable hic : N -> bytes -> N * N.

Lemma update_ok_wf s x s' : hwf s -> hll_update hic s x = Ok s' -> hwf s' /\ h_m s' = h_m s /\ h_p s' = h_p s.
Proof.
  intros (Hl & Hf). unfold hll_update.
  destruct (nth_error (h_regs s) (N.to_nat (fst (hic (h_p s) x)))); [|discriminate].
  intros [= <-]; unfold hwf; cbn. unfold setnth. rewrite upd_length. repeat split; auto.
  apply Forall_upd; auto. intros; apply wrap8_lt.
Qed.

Lemma update_alpha s x s' : hll_update hic s x = Ok s' -> h_alpha s' = h_alpha s.
Proof.
  unfold hll_update. destruct (nth_error (h_regs s) (N.to_nat (fst (hic (h_p s) x)))); [|discriminate].
  now intros [= <-].
Qed.

(* Update never fails when the register index is inside the array *)
Lemma update_total s x :
  hwf s -> fst (hic (h_p s) x) < h_m s -> exists s', hll_update hic s x = Ok s'.
Proof.
  intros (Hl & _) Hlt. unfold hll_update.
  destruct (nth_error (h_regs s) (N.to_nat (fst (hic (h_p s) x)))) eqn:E.
  - eexists; reflexivity.
  - apply nth_error_None in E. lia.
Qed.

Lemma update_panics s x :
  hwf s -> h_m s <= fst (hic (h_p s) x) -> hll_update hic s x = Panic P_INDEX.
Proof.
  intros (Hl & _) Hge. unfold hll_update.
  destruct (nth_error (h_regs s) (N.to_nat (fst (hic (h_p s) x)))) eqn:E; auto.
  assert (nth_error (h_regs s) (N.to_nat (fst (hic (h_p s) x))) <> None) by congruence.
  apply nth_error_Some in H. lia.
Qed.

(* immediate re-insertion of the same element leaves the state unchanged *)
Lemma nth_error_upd_same {A} (l : list A) i f a :
  nth_error l i = Some a -> nth_error (upd l i f) i = Some (f a).
Proof. revert i; induction l as [|x t IH]; intros [|i]; simpl; try discriminate; auto. congruence. Qed.

Lemma upd_upd_same {A} (l : list A) i f g : upd (upd l i f) i g = upd l i (fun x => g (f x)).
Proof. revert i; induction l as [|x t IH]; intros [|i]; simpl; auto. now rewrite IH. Qed.

Lemma upd_ext {A} (l : list A) i f g : (forall x, f x = g x) -> upd l i f = upd l i g.
Proof. intros H; revert i; induction l as [|x t IH]; intros [|i]; simpl; auto; congruence. Qed.

Lemma reinsert_idem s x s1 s2 :
  hwf s -> hll_update hic s x = Ok s1 -> hll_update hic s1 x = Ok s2 -> s2 = s1.
Proof.
  intros (_ & Hf). unfold hll_update.
  set (i := N.to_nat (fst (hic (h_p s) x))). set (c := snd (hic (h_p s) x)).
  destruct (nth_error (h_regs s) i) as [old|] eqn:E; [|discriminate].
  intros [= <-]; cbn [h_p h_m h_regs h_alpha]. fold i c.
  unfold setnth. rewrite (nth_error_upd_same _ _ _ _ E).
  intros [= <-]. f_equal. rewrite upd_upd_same. apply upd_ext. intros _.
  assert (Ho : old < 256).
  { rewrite Forall_forall in Hf. apply Hf. eapply nth_error_In; eauto. }
  pose proof (wrap8_lt c) as Hc.
  assert (Hw : forall v, v < 256 -> wrap8 v = v) by (intros v Hv; rewrite wrap8_spec; apply N.mod_small; lia).
  rewrite (Hw (N.max old (wrap8 c))) by lia.
  rewrite (Hw (N.max (N.max old (wrap8 c)) (wrap8 c))) by lia. lia.
Qed.

(* ---------- the state depends only on the set of inserted elements ---------- *)
(* one update on the register array, total version (no-op when the index is out of range) *)
Definition rupd (regs : list N) (iv : N * N) : list N :=
  upd regs (N.to_nat (fst iv)) (fun old => wrap8 (N.max old (wrap8 (snd iv)))).

Lemma update_regs s x s' : hll_update hic s x = Ok s' -> h_regs s' = rupd (h_regs s) (hic (h_p s) x).
Proof.
  unfold hll_update, rupd, setnth.
  destruct (nth_error (h_regs s) (N.to_nat (fst (hic (h_p s) x)))) as [old|] eqn:E; [|discriminate].
  intros [= <-]; cbn [h_regs]. revert E. generalize (N.to_nat (fst (hic (h_p s) x))) as i.
  generalize (h_regs s) as l. induction l as [|y t IH]; intros [|i]; simpl; try discriminate.
  - now intros [= ->].
  - intros E. f_equal. now apply IH.
Qed.
End HLLProofs.

Definition maxregs (a b : list N) : list N := map (fun p => N.max (fst p) (snd p)) (combine a b).

(* largest truncated value hashed to register j *)
Fixpoint vmax (ivs : list (N * N)) (j : nat) : N :=
  match ivs with
  | [] => 0
  | iv :: t => if Nat.eqb (N.to_nat (fst iv)) j then N.max (wrap8 (snd iv)) (vmax t j) else vmax t j
  end.

Lemma rupd_length regs iv : length (rupd regs iv) = length regs.
Proof. apply upd_length. Qed.

Lemma rupd_small regs iv : Forall (fun r => r < 256) regs -> Forall (fun r => r < 256) (rupd regs iv).
Proof. intros H. apply Forall_upd; auto. intros; apply wrap8_lt. Qed.

Lemma wrap8_small v : v < 256 -> wrap8 v = v.
Proof. intros; rewrite wrap8_spec; apply N.mod_small; lia. Qed.

Lemma nth_small regs j : Forall (fun r => r < 256) regs -> nth j regs 0 < 256.
Proof.
  intros H. destruct (Nat.lt_ge_cases j (length regs)).
  - rewrite Forall_forall in H. apply H. now apply nth_In.
  - rewrite nth_overflow by lia. lia.
Qed.

Lemma nth_rupd regs iv j :
  Forall (fun r => r < 256) regs -> (j < length regs)%nat ->
  nth j (rupd regs iv) 0 =
  if Nat.eqb (N.to_nat (fst iv)) j then N.max (nth j regs 0) (wrap8 (snd iv)) else nth j regs 0.
Proof.
  intros Hf Hj. unfold rupd. destruct (Nat.eqb (N.to_nat (fst iv)) j) eqn:E.
  - apply Nat.eqb_eq in E. rewrite E. rewrite nth_upd_same by auto.
    apply wrap8_small. pose proof (nth_small regs j Hf). pose proof (wrap8_lt (snd iv)). lia.
  - apply Nat.eqb_neq in E. rewrite nth_upd_other; auto.
Qed.

Lemma nth_fold_rupd ivs regs j :
  Forall (fun r => r < 256) regs -> (j < length regs)%nat ->
  nth j (fold_left rupd ivs regs) 0 = N.max (nth j regs 0) (vmax ivs j).
Proof.
  revert regs; induction ivs as [|iv t IH]; intros regs Hf Hj; cbn [fold_left vmax].
  - lia.
  - rewrite IH by (try apply rupd_small; try rewrite rupd_length; auto).
    rewrite nth_rupd by auto. destruct (Nat.eqb (N.to_nat (fst iv)) j); lia.
Qed.

Lemma fold_rupd_length ivs regs : length (fold_left rupd ivs regs) = length regs.
Proof. revert regs; induction ivs as [|iv t IH]; intros regs; cbn [fold_left]; auto. now rewrite IH, rupd_length. Qed.

Lemma vmax_le_iff ivs j b :
  vmax ivs j <= b <-> (forall iv, In iv ivs -> N.to_nat (fst iv) = j -> wrap8 (snd iv) <= b).
Proof.
  induction ivs as [|iv t IH]; cbn [vmax In].
  - split; [tauto|lia].
  - destruct (Nat.eqb (N.to_nat (fst iv)) j) eqn:E.
    + apply Nat.eqb_eq in E. split.
      * intros H iv' [<-|Hin] Hi; [lia|]. apply IH; auto. lia.
      * intros H. assert (wrap8 (snd iv) <= b) by (apply H; auto).
        assert (vmax t j <= b) by (apply IH; intros; apply H; auto). lia.
    + apply Nat.eqb_neq in E. rewrite IH. split.
      * intros H iv' [<-|Hin] Hi; [congruence|]. now apply H.
      * intros H iv' Hin Hi. apply H; auto.
Qed.

Lemma vmax_same_set ivs1 ivs2 j :
  (forall iv, In iv ivs1 <-> In iv ivs2) -> vmax ivs1 j = vmax ivs2 j.
Proof.
  intros H. apply N.le_antisymm; apply vmax_le_iff; intros iv Hin Hi.
  - apply (proj1 (vmax_le_iff ivs2 j (vmax ivs2 j)) (N.le_refl _) iv); auto. now apply H.
  - apply (proj1 (vmax_le_iff ivs1 j (vmax ivs1 j)) (N.le_refl _) iv); auto. now apply H.
Qed.

Lemma vmax_app a b j : vmax (a ++ b) j = N.max (vmax a j) (vmax b j).
Proof.
  induction a as [|iv t IH]; cbn [vmax app]; [lia|].
  destruct (Nat.eqb (N.to_nat (fst iv)) j); rewrite IH; lia.
Qed.

(* same set of (index, value) pairs => same registers *)
Theorem fold_rupd_same_set ivs1 ivs2 regs :
  Forall (fun r => r < 256) regs -> (forall iv, In iv ivs1 <-> In iv ivs2) ->
  fold_left rupd ivs1 regs = fold_left rupd ivs2 regs.
Proof.
  intros Hf Hs. apply list_ext_nth with (d := 0); [now rewrite !fold_rupd_length|].
  intros j Hj. rewrite fold_rupd_length in Hj.
  rewrite !nth_fold_rupd by auto. now rewrite (vmax_same_set ivs1 ivs2 j Hs).
Qed.

Lemma nth_maxregs a b j :
  length a = length b -> (j < length a)%nat -> nth j (maxregs a b) 0 = N.max (nth j a 0) (nth j b 0).
Proof.
  intros Hl Hj. unfold maxregs.
  set (F := fun p : N * N => N.max (fst p) (snd p)).
  rewrite nth_indep with (d' := F (0, 0)) by (rewrite map_length, combine_length; lia).
  rewrite map_nth, combine_nth by auto. reflexivity.
Qed.

(* merging the sketches of two streams = the sketch of the concatenated stream *)
Theorem maxregs_union ivs1 ivs2 n :
  maxregs (fold_left rupd ivs1 (repeat 0 n)) (fold_left rupd ivs2 (repeat 0 n))
  = fold_left rupd (ivs1 ++ ivs2) (repeat 0 n).
Proof.
  assert (Hz : Forall (fun r => r < 256) (repeat 0 n)).
  { apply Forall_forall. intros r Hr. apply repeat_spec in Hr. subst; lia. }
  apply list_ext_nth with (d := 0).
  - unfold maxregs. rewrite map_length, combine_length, !fold_rupd_length. lia.
  - intros j Hj. unfold maxregs in Hj. rewrite map_length, combine_length, !fold_rupd_length, repeat_length in Hj.
    rewrite nth_maxregs by (rewrite !fold_rupd_length; auto; rewrite repeat_length; lia).
    rewrite !nth_fold_rupd by (auto; rewrite repeat_length; lia).
    rewrite vmax_app. lia.
Qed.

(* later updates commute with merge *)
Theorem fold_rupd_app ivs1 ivs2 regs :
  fold_left rupd (ivs1 ++ ivs2) regs = fold_left rupd ivs2 (fold_left rupd ivs1 regs).
Proof. apply fold_left_app. Qed.

(* ---------- merge ---------- *)
Lemma merge_mismatch a b : h_m a <> h_m b -> hll_merge a b = Err E_MISMATCH.
Proof. intros H. unfold hll_merge. apply N.eqb_neq in H. now rewrite H. Qed.


Lemma merge_regs a b m :
  hwf a -> hwf b -> h_m a = h_m b -> hll_merge a b = Ok m ->
  h_regs m = maxregs (h_regs a) (h_regs b) /\ h_m m = h_m a /\ hwf m.
Proof.
  intros (Hla & Hfa) (Hlb & Hfb) Hm. unfold hll_merge.
  rewrite Hm, N.eqb_refl; cbn [negb].
  assert (Hlen : length (h_regs a) = length (h_regs b)) by lia.
  rewrite Hlen, Nat.ltb_irrefl. intros [= <-]; cbn [h_regs h_m].
  rewrite <- Hlen, skipn_all, app_nil_r.
  assert (E : map (fun p => wrap8 (N.max (fst p) (snd p))) (combine (h_regs a) (h_regs b))
              = maxregs (h_regs a) (h_regs b)).
  { unfold maxregs. apply map_ext_in. intros [x y] Hin. cbn [fst snd].
    pose proof (in_combine_l _ _ _ _ Hin) as Hx. pose proof (in_combine_r _ _ _ _ Hin) as Hy.
    rewrite Forall_forall in Hfa, Hfb. specialize (Hfa x Hx). specialize (Hfb y Hy).
    rewrite wrap8_spec. apply N.mod_small. lia. }
  rewrite E. repeat split; auto.
  - cbn [h_regs h_m]. unfold maxregs. rewrite map_length, combine_length. lia.
  - cbn [h_regs]. unfold maxregs. apply Forall_forall. intros v Hv. apply in_map_iff in Hv as ([x y] & <- & Hin).
    pose proof (in_combine_l _ _ _ _ Hin) as Hx. pose proof (in_combine_r _ _ _ _ Hin) as Hy.
    rewrite Forall_forall in Hfa, Hfb. specialize (Hfa x Hx). specialize (Hfb y Hy). cbn; lia.
Qed.

Lemma maxregs_comm a b : maxregs a b = maxregs b a.
Proof.
  unfold maxregs. revert b; induction a as [|x a IH]; destruct b as [|y b]; simpl; auto.
  rewrite IH. f_equal. lia.
Qed.

Lemma maxregs_idem a : maxregs a a = a.
Proof. unfold maxregs. induction a as [|x a IH]; simpl; auto. rewrite IH. f_equal. lia. Qed.

Lemma maxregs_absorb a b : length a = length b -> maxregs (maxregs a b) b = maxregs a b.
Proof.
  unfold maxregs. revert b; induction a as [|x a IH]; destruct b as [|y b]; simpl; auto; try discriminate.
  intros [= H]. rewrite IH by auto. f_equal. lia.
Qed.

(* concrete index function of the code *)
Definition hic_of (hash : bytes -> N) (p : N) (x : bytes) : N * N := hll_index_count p (hash x).

Lemma code_update_total hash s x :
  hwf s -> 128 <= h_m s -> exists s', hll_update (hic_of hash) s x = Ok s'.
Proof.
  intros Hw Hm. apply update_total; auto. unfold hic_of.
  pose proof (index_le_65 (h_p s) (hash x)). lia.
Qed.
