(* TopKRedisInv.v — C04 for the Redis-backed Top-K (top_k_redis.go): the sorted set evolves by
   zstep (ZREM / ZADD / ZPOPMIN as issued by Insert), and the same invariant as for the in-memory
   variant holds after every insert history: members without duplicates, at most k of them, in
   ascending score order; every tracked count between the element's true total and the sketch's
   current estimate; fewer than k tracked => every inserted element is tracked; k tracked =>
   every untracked element's true total is at most the smallest tracked count. The estimates are
   those of the Redis Count-Min sketch, equal to the in-memory ones below 2^53
   (Proofs/RedisCMSRefine.v). *)
From GX.Model Require Import Base CMS Heap TopK Redis RedisCMS RedisTopK.
From GX.Proofs Require Import ListLemmas CMSProofs TopKProofs TopKInv RedisProofs RedisCMSRefine FrameProofs.
From Coq Require Import ZArith Lia ZifyN ZifyNat ZifyBool Permutation Sorted.
Open Scope N_scope.

Lemma tc_snoc H x c y :
  true_count (H ++ [(x, c)]) y = true_count H y + (if bytes_eqb x y then c else 0).
Proof. rewrite true_count_app. unfold true_count at 2. cbn [map sumN fst snd]. lia. Qed.

(* ---------- the sorted set as a list ---------- *)
Definition zle (a b : bytes * N) : Prop := snd a <= snd b.
Definition zsorted (z : list (bytes * N)) : Prop := StronglySorted zle z.

Lemma z_before_le y e : z_before y e = true -> snd y <= snd e.
Proof. unfold z_before. destruct (N.eqb_spec (snd y) (snd e)); [lia|]. intros H. apply N.ltb_lt in H. lia. Qed.
Lemma z_before_false_ge y e : z_before y e = false -> snd e <= snd y.
Proof. unfold z_before. destruct (N.eqb_spec (snd y) (snd e)); [lia|]. intros H. apply N.ltb_ge in H. exact H. Qed.

Lemma z_insert_perm e z : Permutation (z_insert e z) (e :: z).
Proof.
  induction z as [|y t IH]; cbn [z_insert]; [apply Permutation_refl|].
  destruct (z_before y e); [|apply Permutation_refl].
  eapply perm_trans; [apply perm_skip, IH|apply perm_swap].
Qed.

Lemma z_insert_sorted e z : zsorted z -> zsorted (z_insert e z).
Proof.
  induction 1 as [|y t Hs IH Hall]; cbn [z_insert]; [constructor; constructor|].
  destruct (z_before y e) eqn:E.
  - constructor; [exact IH|]. apply Forall_forall. intros w Hw.
    apply (Permutation_in _ (z_insert_perm e t)) in Hw. destruct Hw as [<-|Hw].
    + apply z_before_le. exact E.
    + rewrite Forall_forall in Hall. apply Hall. exact Hw.
  - constructor; [constructor; assumption|]. constructor.
    + apply z_before_false_ge. exact E.
    + rewrite Forall_forall in *. intros w Hw. pose proof (z_before_false_ge _ _ E). pose proof (Hall w Hw).
      unfold zle in *. lia.
Qed.

Lemma z_remove_incl m z : incl (z_remove m z) z.
Proof.
  induction z as [|y t IH]; cbn [z_remove]; [apply incl_refl|].
  destruct (bytes_eqb (fst y) m); [apply incl_tl, incl_refl|].
  intros w [<-|Hw]; [left; reflexivity|right; apply IH; exact Hw].
Qed.

Lemma z_remove_sorted m z : zsorted z -> zsorted (z_remove m z).
Proof.
  induction 1 as [|y t Hs IH Hall]; cbn [z_remove]; [constructor|].
  destruct (bytes_eqb (fst y) m); [exact Hs|]. constructor; [exact IH|].
  rewrite Forall_forall in *. intros w Hw. apply Hall. apply (z_remove_incl m t). exact Hw.
Qed.

Lemma zsorted_tl z : zsorted z -> zsorted (tl z).
Proof. destruct 1; [constructor|assumption]. Qed.

Lemma zsorted_hd_min z e0 t : z = e0 :: t -> zsorted z -> forall e, In e z -> snd e0 <= snd e.
Proof.
  intros -> Hs e [<-|He]; [lia|]. inversion Hs as [|? ? _ Hall]; subst.
  rewrite Forall_forall in Hall. apply Hall. exact He.
Qed.

Lemma z_remove_spec m z : NoDup (names z) ->
  (~ In m (names z) /\ z_remove m z = z) \/
  (exists sc, Permutation z ((m, sc) :: z_remove m z) /\ ~ In m (names (z_remove m z))).
Proof.
  induction z as [|y t IH]; intros Hnd; cbn [z_remove]; [left; split; [intros []|reflexivity]|].
  cbn [names map] in Hnd. apply NoDup_cons_iff in Hnd. destruct Hnd as [Hnot Hnd].
  destruct (bytes_eqb (fst y) m) eqn:E.
  - apply bytes_eqb_eq in E. right. exists (snd y). destruct y as [ym ys]. cbn [fst snd] in *. subst ym.
    split; [apply Permutation_refl|exact Hnot].
  - assert (Hne : fst y <> m) by (intros Hy; rewrite Hy, bytes_eqb_refl in E; discriminate).
    destruct (IH Hnd) as [[Hn Heq]|(sc & Hp & Hn)].
    + left. split; [intros [H|H]; [exact (Hne H)|exact (Hn H)]|rewrite Heq; reflexivity].
    + right. exists sc. split.
      * eapply perm_trans; [apply perm_skip, Hp|apply perm_swap].
      * intros [H|H]; [exact (Hne H)|exact (Hn H)].
Qed.

(* what Insert does to the sorted set, given the new estimate f of x *)
Definition zstep (k : N) (z : list (bytes * N)) (x : bytes) (f : N) : list (bytes * N) :=
  if (N.of_nat (length z) <? k) || (match z with e :: _ => snd e <=? f | [] => false end) then
    let z3 := z_insert (x, f) (z_remove x z) in
    if k <? N.of_nat (length z3) then tl z3 else z3
  else z.

(* ---------- the invariant, relative to an estimate function ---------- *)
Definition zmin (z : list (bytes * N)) : N := match z with e :: _ => snd e | [] => 0 end.

Record ZI (k : N) (z : list (bytes * N)) (H : hist) (est : bytes -> N) : Prop := mkZI {
  zi_sorted : zsorted z;
  zi_nodup : NoDup (names z);
  zi_len : N.of_nat (length z) <= k;
  zi_entries : forall e, In e z -> In (fst e) (map fst H) /\ true_count H (fst e) <= snd e /\ snd e <= est (fst e);
  zi_small : N.of_nat (length z) < k -> forall x, In x (map fst H) -> In x (names z);
  zi_full : N.of_nat (length z) = k -> forall x, In x (map fst H) -> ~ In x (names z) -> true_count H x <= zmin z }.

Lemma zmin_le z e : zsorted z -> In e z -> zmin z <= snd e.
Proof. intros Hs He. destruct z as [|e0 t]; [destruct He|]. apply (zsorted_hd_min _ e0 t eq_refl Hs e He). Qed.

Theorem zstep_ZI k z H est est' x c :
  ZI k z H est -> 1 <= k -> 1 <= c ->
  (forall y, est y <= est' y) ->                        (* estimates never decrease *)
  true_count (H ++ [(x, c)]) x <= est' x ->            (* and never under-count *)
  ZI k (zstep k z x (est' x)) (H ++ [(x, c)]) est'.
Proof.
  intros [Hs Hnd Hlen Hent Hsmall Hfull] Hk Hc Hmono Hfx.
  set (f := est' x) in *. set (H' := H ++ [(x, c)]).
  assert (HinH' : forall y, In y (map fst H') <-> In y (map fst H) \/ y = x).
  { intros y. unfold H'. rewrite map_app, in_app_iff. simpl. intuition. }
  assert (Hent' : forall e, In e z -> fst e <> x ->
            In (fst e) (map fst H') /\ true_count H' (fst e) <= snd e /\ snd e <= est' (fst e)).
  { intros e He Hne. destruct (Hent e He) as (A & B & C). split; [apply HinH'; left; exact A|].
    unfold H'. rewrite tc_snoc.
    replace (bytes_eqb x (fst e)) with false
      by (symmetry; apply Bool.not_true_is_false; intros E; apply bytes_eqb_eq in E; congruence).
    pose proof (Hmono (fst e)). split; lia. }
  (* the set after ZREM x / ZADD x f *)
  set (rest := z_remove x z).
  set (z3 := z_insert (x, f) rest).
  pose proof (z_insert_perm (x, f) rest) as P3. fold z3 in P3.
  assert (Hs3 : zsorted z3) by (apply z_insert_sorted, z_remove_sorted; exact Hs).
  destruct (z_remove_spec x z Hnd) as [[Hxn Hreq]|(sc & Pz & Hxrest)].
  - (* x was not tracked *)
    assert (Hrest : rest = z) by exact Hreq.
    assert (Hnd3 : NoDup (names z3)).
    { eapply Permutation_NoDup; [apply Permutation_sym, (names_perm _ _ P3)|]. simpl. rewrite Hrest. constructor; assumption. }
    assert (Hl3 : length z3 = S (length z)) by (pose proof (Permutation_length P3) as H3; simpl in H3; rewrite Hrest in H3; exact H3).
    assert (Hent3 : forall e, In e z3 -> In (fst e) (map fst H') /\ true_count H' (fst e) <= snd e /\ snd e <= est' (fst e)).
    { intros e He. apply (Permutation_in _ P3) in He. destruct He as [<-|He].
      - cbn [fst snd]. split; [apply HinH'; right; reflexivity|]. split; [exact Hfx|apply N.le_refl].
      - rewrite Hrest in He. apply Hent'; [exact He|]. intros E. apply Hxn. apply in_names. exists e. auto. }
    unfold zstep. fold rest z3.
    destruct (N.of_nat (length z) <? k) eqn:Elt.
    + apply N.ltb_lt in Elt. cbn [orb]. replace (k <? N.of_nat (length z3)) with false by (rewrite Hl3; lia).
      constructor; auto.
      * rewrite Hl3. lia.
      * intros _ y Hy. apply (Permutation_in _ (Permutation_sym (names_perm _ _ P3))). simpl. rewrite Hrest.
        apply HinH' in Hy. destruct Hy as [Hy|Hy]; [right; apply Hsmall; assumption|left; symmetry; exact Hy].
      * intros _ y Hy Hny. exfalso. apply Hny.
        apply (Permutation_in _ (Permutation_sym (names_perm _ _ P3))). simpl. rewrite Hrest.
        apply HinH' in Hy. destruct Hy as [Hy|Hy]; [right; apply Hsmall; assumption|left; symmetry; exact Hy].
    + apply N.ltb_ge in Elt. assert (Hlk : N.of_nat (length z) = k) by lia. cbn [orb].
      destruct z as [|e0 t] eqn:Ez; [simpl in Hlk; lia|]. rewrite <- Ez in *.
      assert (Hmin : zmin z = snd e0) by (rewrite Ez; reflexivity).
      destruct (snd e0 <=? f) eqn:Eacc.
      * (* accepted: k+1 members, pop the minimum *)
        apply N.leb_le in Eacc. replace (k <? N.of_nat (length z3)) with true by (rewrite Hl3; lia).
        destruct z3 as [|m z4] eqn:E3; [simpl in Hl3; lia|]. cbn [tl].
        assert (Hs4 : zsorted z4) by (apply (zsorted_tl (m :: z4)); exact Hs3).
        assert (Hmmin : forall e, In e (m :: z4) -> snd m <= snd e) by (apply (zsorted_hd_min _ m z4 eq_refl Hs3)).
        cbn [names map] in Hnd3. apply NoDup_cons_iff in Hnd3. destruct Hnd3 as [Hm4 Hnd4].
        assert (Hge3 : forall e, In e (m :: z4) -> zmin z <= snd e).
        { intros e He. apply (Permutation_in _ P3) in He. destruct He as [<-|He]; [cbn [snd]; lia|].
          rewrite Hrest in He. apply zmin_le; assumption. }
        constructor; auto.
        -- simpl in Hl3. lia.
        -- intros e He. apply Hent3. right. exact He.
        -- intros Hlt. simpl in Hl3. lia.
        -- intros _ y Hy Hny.
           assert (Hz4ne : z4 <> []) by (intros E; rewrite E in Hl3; simpl in Hl3; lia).
           destruct z4 as [|e4 t4] eqn:E4; [congruence|]. rewrite <- E4 in *.
           assert (Hmin4 : zmin z4 = snd e4) by (rewrite E4; reflexivity).
           assert (Hin4 : In e4 (m :: z4)) by (right; rewrite E4; left; reflexivity).
           destruct (in_dec (list_eq_dec N.eq_dec) y (names (m :: z4))) as [Hyin|Hynot].
           ++ (* y was popped *)
              simpl in Hyin. destruct Hyin as [Hym|Hy4]; [|contradiction].
              destruct (Hent3 m (or_introl eq_refl)) as (_ & Hb & _). rewrite Hym in Hb.
              pose proof (Hmmin e4 Hin4). lia.
           ++ assert (Hyx : y <> x).
              { intros ->. apply Hynot. apply (Permutation_in _ (Permutation_sym (names_perm _ _ P3))). left. reflexivity. }
              assert (Hynz : ~ In y (names z)).
              { intros Hyz. apply Hynot. apply (Permutation_in _ (Permutation_sym (names_perm _ _ P3))). right. rewrite Hrest. exact Hyz. }
              apply HinH' in Hy. destruct Hy as [Hy|Hy]; [|contradiction].
              unfold H'. rewrite tc_snoc.
              replace (bytes_eqb x y) with false
                by (symmetry; apply Bool.not_true_is_false; intros E; apply bytes_eqb_eq in E; congruence).
              pose proof (Hfull Hlk y Hy Hynz). pose proof (Hge3 e4 Hin4). lia.
      * (* rejected: nothing changes; x stays untracked with a true total below the minimum *)
        apply N.leb_gt in Eacc.
        constructor; auto.
        -- intros e He. apply Hent'; [exact He|]. intros E. apply Hxn. apply in_names. exists e. auto.
        -- intros Hlt. lia.
        -- intros _ y Hy Hny. unfold H'. rewrite tc_snoc. apply HinH' in Hy.
           destruct (bytes_eqb x y) eqn:E.
           ++ apply bytes_eqb_eq in E. subst y. unfold H' in Hfx. rewrite tc_snoc, bytes_eqb_refl in Hfx. lia.
           ++ destruct Hy as [Hy|Hy]; [|subst y; rewrite bytes_eqb_refl in E; discriminate].
              pose proof (Hfull Hlk y Hy Hny). lia.
  - (* x was tracked with score sc: its entry is replaced *)
    assert (Hxin : In x (names z)).
    { apply (Permutation_in _ (Permutation_sym (names_perm _ _ Pz))). left. reflexivity. }
    assert (Hsc : In (x, sc) z) by (eapply Permutation_in; [apply Permutation_sym; exact Pz|left; reflexivity]).
    assert (Hndrest : NoDup (names rest)).
    { pose proof (Permutation_NoDup (names_perm _ _ Pz) Hnd) as Hn. simpl in Hn. apply NoDup_cons_iff in Hn. apply Hn. }
    assert (Hnd3 : NoDup (names z3)).
    { eapply Permutation_NoDup; [apply Permutation_sym, (names_perm _ _ P3)|]. simpl. constructor; assumption. }
    assert (Hlz : length z = S (length rest)) by (exact (Permutation_length Pz)).
    assert (Hl3 : length z3 = length z) by (pose proof (Permutation_length P3) as H3; simpl in H3; lia).
    assert (Hrest_z : forall e, In e rest -> In e z /\ fst e <> x).
    { intros e He. split; [apply (z_remove_incl x z); exact He|].
      intros E. apply Hxrest. apply in_names. exists e. auto. }
    assert (Hent3 : forall e, In e z3 -> In (fst e) (map fst H') /\ true_count H' (fst e) <= snd e /\ snd e <= est' (fst e)).
    { intros e He. apply (Permutation_in _ P3) in He. destruct He as [<-|He].
      - cbn [fst snd]. split; [apply HinH'; right; reflexivity|]. split; [exact Hfx|apply N.le_refl].
      - destruct (Hrest_z e He) as [A B]. apply Hent'; assumption. }
    (* the guard holds: the stored count of x is at most its new estimate *)
    assert (Hscf : sc <= f).
    { destruct (Hent (x, sc) Hsc) as (_ & _ & C). cbn [fst snd] in C. pose proof (Hmono x). unfold f. lia. }
    assert (Hacc : (N.of_nat (length z) <? k) || (match z with e :: _ => snd e <=? f | [] => false end) = true).
    { destruct (N.of_nat (length z) <? k) eqn:Elt; [reflexivity|]. cbn [orb].
      destruct z as [|e0 t] eqn:Ez; [destruct Hsc|]. apply N.leb_le.
      pose proof (zsorted_hd_min _ e0 t eq_refl Hs (x, sc) Hsc). cbn [snd] in *. lia. }
    unfold zstep. fold rest z3. rewrite Hacc.
    replace (k <? N.of_nat (length z3)) with false by (rewrite Hl3; lia).
    assert (Hname3 : forall y, In y (names z3) <-> In y (names z)).
    { intros y. split; intros Hy.
      - apply (Permutation_in _ (names_perm _ _ P3)) in Hy. simpl in Hy. destruct Hy as [<-|Hy]; [exact Hxin|].
        apply in_names in Hy. destruct Hy as (e & He & <-). apply in_names. exists e. split; [apply (Hrest_z e He)|reflexivity].
      - apply (Permutation_in _ (Permutation_sym (names_perm _ _ P3))). simpl.
        apply (Permutation_in _ (names_perm _ _ Pz)) in Hy. exact Hy. }
    constructor; auto.
    + rewrite Hl3. exact Hlen.
    + rewrite Hl3. intros Hlt y Hy. apply Hname3. apply HinH' in Hy. destruct Hy as [Hy|Hy]; [apply Hsmall; assumption|subst y; exact Hxin].
    + rewrite Hl3. intros Hlk y Hy Hny.
      assert (Hynz : ~ In y (names z)) by (intros Hyz; apply Hny; apply Hname3; exact Hyz).
      assert (Hyx : y <> x) by (intros ->; exact (Hynz Hxin)).
      apply HinH' in Hy. destruct Hy as [Hy|Hy]; [|contradiction].
      unfold H'. rewrite tc_snoc.
      replace (bytes_eqb x y) with false
        by (symmetry; apply Bool.not_true_is_false; intros E; apply bytes_eqb_eq in E; congruence).
      pose proof (Hfull Hlk y Hy Hynz).
      (* the new minimum is at least the old one *)
      assert (Hminmono : zmin z <= zmin z3).
      { destruct z3 as [|e3 t3] eqn:E3; [simpl in Hl3; rewrite Hlz in Hl3; discriminate|]. cbn [zmin].
        assert (He3 : In e3 (e3 :: t3)) by (left; reflexivity).
        apply (Permutation_in _ P3) in He3. destruct He3 as [<-|He3].
        - cbn [snd]. pose proof (zmin_le z (x, sc) Hs Hsc). cbn [snd] in *. lia.
        - apply zmin_le; [exact Hs|]. apply (Hrest_z e3 He3). }
      lia.
Qed.

(* ---------- the sorted-set commands on the store ---------- *)
Lemma r_putzset_frame s k z : same_elsewhere k s (r_putzset s k z).
Proof. intros k' H. unfold r_putzset. destruct z; [apply sget_sdel_other|apply sget_sset_other]; exact H. Qed.

Lemma r_zset_put s k z : r_zset (r_putzset s k z) k = z.
Proof. unfold r_zset, r_putzset. destruct z; [rewrite sget_sdel_same|rewrite sget_sset_same]; reflexivity. Qed.

Lemma z_remove_absent m z : ~ In m (names z) -> z_remove m z = z.
Proof.
  induction z as [|y t IH]; intros H; cbn [z_remove]; [reflexivity|].
  destruct (bytes_eqb (fst y) m) eqn:E.
  - exfalso. apply H. left. apply bytes_eqb_eq. exact E.
  - f_equal. apply IH. intros Hin. apply H. right. exact Hin.
Qed.

Lemma z_remove_twice m z : NoDup (names z) -> z_remove m (z_remove m z) = z_remove m z.
Proof.
  intros Hnd. destruct (z_remove_spec m z Hnd) as [[Hn Heq]|(sc & _ & Hn)].
  - rewrite Heq. apply z_remove_absent. exact Hn.
  - apply z_remove_absent. exact Hn.
Qed.

Section Tie.
Variable cpos : N -> N -> bytes -> list N.
Variable rows cols : N.
Hypothesis cpos_len : forall x, length (cpos rows cols x) = N.to_nat rows.
Hypothesis cpos_lt : forall x p, In p (cpos rows cols x) -> p < cols.
Hypothesis rows_pos : 0 < rows.
Hypothesis cols_pos : 0 < cols.

(* the Redis Insert, given that the sketch in the store represents the in-memory sketch m whose
   history is H: the sorted set makes one zstep with the in-memory estimate of the updated
   sketch, and the sketch keeps representing the updated in-memory sketch *)
Theorem rtopk_insert_step s t m H x c :
  refines rows cols s (rt_sketch t) m -> repr cpos rows cols m H ->
  (forall r, row_key (rc_key (rt_sketch t)) r <> rt_heap t) ->
  NoDup (names (r_zset s (rt_heap t))) ->
  1 <= c -> total (H ++ [(x, c)]) < B53 ->
  let m' := cms_update cpos m x c in
  exists t' s', rtopk_insert cpos s t x c = (Ok t', s') /\
    refines rows cols s' (rt_sketch t') m' /\ repr cpos rows cols m' (H ++ [(x, c)]) /\
    rt_k t' = rt_k t /\ rt_heap t' = rt_heap t /\ rc_key (rt_sketch t') = rc_key (rt_sketch t) /\
    r_zset s' (rt_heap t) = zstep (rt_k t) (r_zset s (rt_heap t)) x (cms_count cpos m' x).
Proof.
  intros HR Hrep Hkeys Hnd Hc Htot m'.
  assert (Ht1 : total H + c < B53) by (rewrite total_app, total_single in Htot; exact Htot).
  assert (Hcb : c < B53) by lia.
  assert (Hb : cells_below rows cols m (B53 - c)).
  { intros r j Hr Hj. destruct Hrep as (_ & Hcell). rewrite (Hcell r j Hr Hj).
    pose proof (cell_sum_le_total cpos rows cols cpos_len cpos_lt H r j). lia. }
  destruct (update_refines cpos rows cols cpos_len cpos_lt cols_pos s (rt_sketch t) m x c HR Hcb Hb) as (s1 & Hupd & HR1).
  assert (Hrep' : repr cpos rows cols m' (H ++ [(x, c)])).
  { apply (update_repr cpos rows cols cpos_len cpos_lt); [exact Hrep|]. unfold B53, two64 in *. lia. }
  assert (Hb' : cells_below rows cols m' B53).
  { intros r j Hr Hj. destruct Hrep' as (_ & Hcell). rewrite (Hcell r j Hr Hj).
    pose proof (cell_sum_le_total cpos rows cols cpos_len cpos_lt (H ++ [(x, c)]) r j). lia. }
  set (sk' := mkRcms (rc_rows (rt_sketch t)) (rc_cols (rt_sketch t)) (wrap64 (rc_allsum (rt_sketch t) + c))
                     (rc_key (rt_sketch t)) (rc_meta (rt_sketch t))) in *.
  pose proof (count_refines cpos rows cols cpos_len cpos_lt cols_pos s1 sk' m' x HR1 rows_pos Hb') as Hcnt.
  set (f := cms_count cpos m' x) in *.
  assert (Hf53 : f < B53).
  { pose proof (count_upper cpos rows cols cpos_len cpos_lt m' (H ++ [(x, c)]) x Hrep' rows_pos). unfold f. lia. }
  (* the sketch update does not touch the sorted set *)
  assert (Hz1 : r_zset s1 (rt_heap t) = r_zset s (rt_heap t)).
  { unfold r_zset.
    assert (Hnk : ~ Kcms (rc_key (rt_sketch t)) (rt_heap t)) by (intros (r & Er); exact (Hkeys r (eq_sym Er))).
    unfold rcms_update in Hupd.
    destruct (upd_cells s (rc_key (rt_sketch t)) (positions_rc cpos (rt_sketch t) x) (round53 c)) as [s2|] eqn:E; [|discriminate].
    injection Hupd as Hs. subst s2.
    rewrite (upd_cells_frame (rc_key (rt_sketch t)) (round53 c) _ s s1 E (rt_heap t) Hnk). reflexivity. }
  unfold rtopk_insert. replace (c =? 0) with false by lia. rewrite Hupd.
  fold sk'. rewrite Hcnt. rewrite Hz1.
  set (z := r_zset s (rt_heap t)) in *.
  set (hk := rt_heap t) in *.
  (* frame: writes to the sorted set do not touch the sketch rows *)
  assert (Hframe : forall s2 s3, same_elsewhere hk s2 s3 -> rows_are rows s2 (rc_key (rt_sketch t)) (Lm m') -> rows_are rows s3 (rc_key (rt_sketch t)) (Lm m')).
  { intros s2 s3 Hsame Hrows r Hr. unfold r_list. rewrite (Hsame _ (Hkeys r)). apply Hrows. exact Hr. }
  unfold zstep.
  destruct ((N.of_nat (length z) <? rt_k t) || match z with e :: _ => snd e <=? f | [] => false end) eqn:Eacc.
  - (* accepted *)
    set (s2 := match z_score x z with Some sc => if 0 <? sc then r_zrem s1 hk x else s1 | None => s1 end).
    assert (Hz2 : z_remove x (r_zset s2 hk) = z_remove x z).
    { unfold s2. destruct (z_score x z) as [sc|]; [destruct (0 <? sc)|]; try (rewrite Hz1; reflexivity).
      unfold r_zrem. rewrite r_zset_put, Hz1. apply z_remove_twice. exact Hnd. }
    assert (Hsame2 : same_elsewhere hk s1 s2).
    { unfold s2. destruct (z_score x z) as [sc|]; [destruct (0 <? sc)|]; try (intros k' _; reflexivity).
      apply r_putzset_frame. }
    set (s3 := r_zadd s2 hk x (round53 f)).
    assert (Hz3 : r_zset s3 hk = z_insert (x, f) (z_remove x z)).
    { unfold s3, r_zadd. rewrite r_zset_put, Hz2, (round53_exact f Hf53). reflexivity. }
    assert (Hsame3 : same_elsewhere hk s2 s3) by apply r_zadd_frame.
    rewrite Hz3.
    destruct (rt_k t <? N.of_nat (length (z_insert (x, f) (z_remove x z)))) eqn:Epop.
    + eexists. eexists. split; [reflexivity|]. cbn [rt_sketch rt_k rt_heap].
      split; [|split; [exact Hrep'|]].
      * destruct HR1 as (A & B & C & D). split; [exact A|]. split; [exact B|]. split; [exact C|].
        apply (Hframe s3); [apply r_putzset_frame|]. apply (Hframe s2); [exact Hsame3|]. apply (Hframe s1); [exact Hsame2|exact D].
      * split; [reflexivity|]. split; [reflexivity|]. split; [reflexivity|].
        unfold r_zpopmin. rewrite r_zset_put, Hz3. reflexivity.
    + eexists. eexists. split; [reflexivity|]. cbn [rt_sketch rt_k rt_heap].
      split; [|split; [exact Hrep'|]].
      * destruct HR1 as (A & B & C & D). split; [exact A|]. split; [exact B|]. split; [exact C|].
        apply (Hframe s2); [exact Hsame3|]. apply (Hframe s1); [exact Hsame2|exact D].
      * split; [reflexivity|]. split; [reflexivity|]. split; [reflexivity|]. exact Hz3.
  - eexists. eexists. split; [reflexivity|]. cbn [rt_sketch rt_k rt_heap].
    split; [exact HR1|]. split; [exact Hrep'|]. split; [reflexivity|]. split; [reflexivity|]. split; [reflexivity|exact Hz1].
Qed.
End Tie.

(* ---------- every insert history ---------- *)
Section History.
Variable cpos : N -> N -> bytes -> list N.
Variable rows cols : N.
Hypothesis cpos_len : forall x, length (cpos rows cols x) = N.to_nat rows.
Hypothesis cpos_lt : forall x p, In p (cpos rows cols x) -> p < cols.
Hypothesis rows_pos : 0 < rows.
Hypothesis cols_pos : 0 < cols.

(* the invariant of the Redis Top-K: the sketch rows represent an in-memory sketch m of the
   history H, sketch keys and the sorted-set key are different, and the sorted set satisfies ZI
   with the estimates of m *)
Definition RTI (s : store) (t : rtopk) (H : hist) : Prop :=
  exists m, refines rows cols s (rt_sketch t) m /\ repr cpos rows cols m H /\
            (forall r, row_key (rc_key (rt_sketch t)) r <> rt_heap t) /\
            ZI (rt_k t) (r_zset s (rt_heap t)) H (cms_count cpos m).

Theorem rtopk_insert_RTI s t H x c :
  RTI s t H -> 1 <= rt_k t -> 1 <= c -> total (H ++ [(x, c)]) < B53 ->
  exists t' s', rtopk_insert cpos s t x c = (Ok t', s') /\ RTI s' t' (H ++ [(x, c)]) /\ rt_k t' = rt_k t.
Proof.
  intros (m & HR & Hrep & Hkeys & HZ) Hk Hc Htot.
  destruct (rtopk_insert_step cpos rows cols cpos_len cpos_lt rows_pos cols_pos s t m H x c
              HR Hrep Hkeys (zi_nodup _ _ _ _ HZ) Hc Htot) as (t' & s' & Hins & HR' & Hrep' & Hk' & Hh' & Hkey' & Hz').
  exists t', s'. split; [exact Hins|]. split; [|exact Hk'].
  exists (cms_update cpos m x c). split; [exact HR'|]. split; [exact Hrep'|]. split.
  - rewrite Hkey', Hh'. exact Hkeys.
  - rewrite Hk', Hh', Hz'.
    apply (zstep_ZI (rt_k t) _ H (cms_count cpos m) (cms_count cpos (cms_update cpos m x c)) x c HZ Hk Hc).
    + intros y. apply (count_mono cpos rows cols cpos_len cpos_lt rows_pos m _ H (x, c) y Hrep Hrep').
    + apply (count_lower cpos rows cols cpos_len cpos_lt _ _ x Hrep' rows_pos).
Qed.

Fixpoint rtrun (s : store) (t : rtopk) (ins : hist) : outcome rtopk * store :=
  match ins with
  | [] => (Ok t, s)
  | (x, c) :: rest => match rtopk_insert cpos s t x c with
                      | (Ok t', s') => rtrun s' t' rest
                      | (Err e, s') => (Err e, s')
                      | (Panic e, s') => (Panic e, s')
                      end
  end.

Theorem rtrun_RTI ins : forall s t H, RTI s t H -> 1 <= rt_k t ->
  Forall (fun e => 1 <= snd e) ins -> total (H ++ ins) < B53 ->
  exists t' s', rtrun s t ins = (Ok t', s') /\ RTI s' t' (H ++ ins) /\ rt_k t' = rt_k t.
Proof.
  induction ins as [|[x c] rest IH]; intros s t H HI Hk Hpos Htot; cbn [rtrun].
  - exists t, s. rewrite app_nil_r. auto.
  - inversion Hpos as [|? ? Hc Hrest]; subst. cbn [snd] in Hc.
    assert (Ht1 : total (H ++ [(x, c)]) < B53).
    { replace (H ++ (x, c) :: rest) with ((H ++ [(x, c)]) ++ rest) in Htot by (rewrite <- app_assoc; reflexivity).
      pose proof (total_prefix (H ++ [(x, c)]) rest). lia. }
    destruct (rtopk_insert_RTI s t H x c HI Hk Hc Ht1) as (t1 & s1 & -> & HI1 & Hk1).
    destruct (IH s1 t1 (H ++ [(x, c)]) HI1 ltac:(lia) Hrest ltac:(rewrite <- app_assoc; exact Htot)) as (t' & s' & Hrun & HI' & Hk').
    exists t', s'. rewrite <- app_assoc in HI'. split; [exact Hrun|]. split; [exact HI'|congruence].
Qed.

(* what Values() of the Redis Top-K shows, in terms of the insert history alone *)
Theorem rvalues_spec s t H : RTI s t H -> 1 <= rt_k t ->
  let vs := rtopk_values s t in
  NoDup (names vs) /\
  N.of_nat (length vs) = N.min (rt_k t) (N.of_nat (length (distinct H))) /\
  (forall e, In e vs -> In (fst e) (map fst H) /\ true_count H (fst e) <= hfreq e /\ hfreq e <= total H) /\
  (forall x, In x (map fst H) -> ~ In x (names vs) ->
     N.of_nat (length vs) = rt_k t /\ forall e, In e vs -> true_count H x <= hfreq e).
Proof.
  intros (m & HR & Hrep & Hkeys & [Hs Hnd Hlen Hent Hsmall Hfull]) Hk vs.
  set (z := r_zset s (rt_heap t)) in *.
  assert (Pv : Permutation z vs).
  { unfold vs, rtopk_values. fold z. eapply perm_trans; [apply Permutation_rev|apply sort_entries_perm]. }
  assert (Pn : Permutation (names z) (names vs)) by (apply names_perm; exact Pv).
  assert (Hlv : length vs = length z) by (symmetry; apply Permutation_length; exact Pv).
  assert (Hsub : incl (names z) (distinct H)).
  { intros y Hy. apply in_names in Hy. destruct Hy as (e & He & <-). unfold distinct. apply nodup_In. apply (Hent e He). }
  assert (Hndd : NoDup (distinct H)) by apply NoDup_nodup.
  split; [eapply Permutation_NoDup; eauto|]. split; [|split].
  - rewrite Hlv. unfold hentry in *.
    pose proof (NoDup_incl_length Hnd Hsub) as Hle. unfold names in Hle. rewrite map_length in Hle.
    destruct (N.of_nat (length z) <? rt_k t) eqn:E.
    + apply N.ltb_lt in E.
      assert (Hsup : incl (distinct H) (names z)).
      { intros y Hy. unfold distinct in Hy. apply nodup_In in Hy. apply Hsmall; assumption. }
      pose proof (NoDup_incl_length Hndd Hsup) as Hge. unfold names in Hge. rewrite map_length in Hge.
      rewrite N.min_r by lia. lia.
    + apply N.ltb_ge in E. rewrite N.min_l by lia. lia.
  - intros e He. apply (Permutation_in _ (Permutation_sym Pv)) in He. destruct (Hent e He) as (A & B & C).
    split; [exact A|]. split; [exact B|].
    pose proof (count_upper cpos rows cols cpos_len cpos_lt m H (fst e) Hrep rows_pos). unfold hfreq. lia.
  - intros x Hx Hnx.
    assert (Hnx' : ~ In x (names z)) by (intros Hy; apply Hnx; eapply Permutation_in; eauto).
    assert (Hfl : N.of_nat (length z) = rt_k t).
    { destruct (N.of_nat (length z) <? rt_k t) eqn:E; [|apply N.ltb_ge in E; lia].
      apply N.ltb_lt in E. exfalso. apply Hnx'. apply Hsmall; assumption. }
    split; [rewrite Hlv; exact Hfl|].
    intros e He. apply (Permutation_in _ (Permutation_sym Pv)) in He.
    pose proof (Hfull Hfl x Hx Hnx'). pose proof (zmin_le z e Hs He). unfold hfreq. lia.
Qed.
End History.

(* a newly created Redis Top-K satisfies the invariant, provided its (random) keys are fresh and
   different from each other - the assumption the harness validates on every run (C19) *)
Theorem rtopk_new_RTI (cpos : N -> N -> bytes -> list N) rows cols
  (cpos_len : forall x, length (cpos rows cols x) = N.to_nat rows)
  (cpos_lt : forall x p, In p (cpos rows cols x) -> p < cols)
  s k er acc ertxt acctxt skey smeta hkey meta t s2 m0 :
  rtopk_new s k rows cols er acc ertxt acctxt skey smeta hkey meta = (Ok t, s2) ->
  cms_new rows cols = Ok m0 ->
  sget s hkey = None -> hkey <> smeta -> hkey <> meta ->
  (forall r, row_key skey r <> hkey) -> (forall r, row_key skey r <> meta) ->
  RTI cpos rows cols s2 t [] /\ rt_k t = k.
Proof.
  intros Hn Hm Hfresh Hhs Hhm Hrk Hrm.
  destruct (new_dims rows cols m0 Hm) as [Hrows Hcols].
  unfold rtopk_new in Hn.
  destruct (rcms_new s rows cols skey smeta) as [[sk|e|e] s1] eqn:Enew; try discriminate.
  injection Hn as <- <-. cbn [rt_k]. split; [|reflexivity].
  pose proof (new_refines cpos rows cols cpos_len cpos_lt Hcols s skey smeta sk s1 m0 Enew Hm) as HR1.
  assert (Hkey : rc_key sk = skey).
  { unfold rcms_new in Enew. destruct ((rows =? 0) || (cols =? 0)); [discriminate|]. injection Enew as <- _. reflexivity. }
  exists m0. cbn [rt_sketch rt_heap rt_k]. split; [|split; [|split]].
  - destruct HR1 as (A & B & C & D). split; [exact A|]. split; [exact B|]. split; [exact C|].
    intros r Hr. unfold r_list. rewrite r_hset_frame by (rewrite Hkey; apply Hrm). apply D. exact Hr.
  - apply (new_repr cpos rows cols cpos_lt). exact Hm.
  - rewrite Hkey. exact Hrk.
  - assert (Hz : r_zset (r_hset s1 meta [(f_k, dec k); (f_heapkey, hkey); (f_errorrate, ertxt);
                                          (f_accuracy, acctxt); (f_sketchkey, smeta)]) hkey = []).
    { unfold r_zset. rewrite r_hset_frame by exact Hhm.
      unfold rcms_new in Enew. destruct ((rows =? 0) || (cols =? 0)); [discriminate|]. injection Enew as _ <-.
      rewrite init_rows_frame by exact Hrk. rewrite r_hset_frame by exact Hhs. rewrite Hfresh. reflexivity. }
    rewrite Hz. constructor; cbn; try (constructor); try lia; intros; try contradiction.
Qed.

(* packaged: from any state satisfying the invariant (in particular a new Top-K with fresh keys),
   after every insert history below 2^53 *)
Theorem redis_topk_values_history (cpos : N -> N -> bytes -> list N) rows cols
  (cpos_len : forall x, length (cpos rows cols x) = N.to_nat rows)
  (cpos_lt : forall x p, In p (cpos rows cols x) -> p < cols) s t H ins :
  0 < rows -> 0 < cols -> RTI cpos rows cols s t H -> 1 <= rt_k t ->
  Forall (fun e => 1 <= snd e) ins -> total (H ++ ins) < B53 ->
  exists t' s', rtrun cpos s t ins = (Ok t', s') /\ rt_k t' = rt_k t /\
    let vs := rtopk_values s' t' in
    let H' := H ++ ins in
    NoDup (map fst vs) /\
    N.of_nat (length vs) = N.min (rt_k t) (N.of_nat (length (distinct H'))) /\
    (forall e, In e vs -> In (fst e) (map fst H') /\ true_count H' (fst e) <= hfreq e /\ hfreq e <= total H') /\
    (forall x, In x (map fst H') -> ~ In x (map fst vs) ->
       N.of_nat (length vs) = rt_k t /\ forall e, In e vs -> true_count H' x <= hfreq e).
Proof.
  intros Hr Hc HI Hk Hpos Htot.
  destruct (rtrun_RTI cpos rows cols cpos_len cpos_lt Hr Hc ins s t H HI Hk Hpos Htot) as (t' & s' & Hrun & HI' & Hk').
  exists t', s'. split; [exact Hrun|]. split; [exact Hk'|].
  pose proof (rvalues_spec cpos rows cols cpos_len cpos_lt Hr Hc s' t' (H ++ ins) HI' ltac:(lia)) as Hv.
  rewrite Hk' in Hv. exact Hv.
Qed.
