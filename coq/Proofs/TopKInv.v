(* TopKInv.v — C04 for the in-memory Top-K (top_k.go over count_min_sketch.go and container/heap):
   the invariant that holds after every insert history, for every k >= 1, every sketch
   dimensions and every position function (so for sketches of any width, collisions included):
   the heap is a min-heap without duplicate elements and at most k entries; every tracked
   element's count lies between its true total and the sketch's current estimate; while fewer
   than k entries are tracked every inserted element is tracked; once k are tracked every
   untracked element's true total is at most the smallest tracked count. *)
From GX.Model Require Import Base CMS Heap TopK.
From GX.Proofs Require Import ListLemmas CMSProofs HeapProofs TopKProofs.
From Coq Require Import ZArith Lia ZifyN ZifyNat ZifyBool Permutation.
Open Scope N_scope.

Section TopKInv.
Variable cpos : N -> N -> bytes -> list N.
Variable rows cols : N.
Hypothesis cpos_len : forall x, length (cpos rows cols x) = N.to_nat rows.
Hypothesis cpos_lt : forall x p, In p (cpos rows cols x) -> p < cols.
Hypothesis rows_pos : 0 < rows.

Notation repr := (repr cpos rows cols).
Notation pos := (pos cpos rows cols).
Notation cell_sum := (cell_sum cpos rows cols).

(* the estimate of an element never decreases when the history grows *)
Lemma cells_has s h x r : repr s h -> r < rows ->
  In (cell_sum h r (pos x r)) (cms_cells cpos s x).
Proof.
  intros (Hs & Hcell) Hr. pose proof Hs as (_ & _ & Hl & Hrow).
  unfold cms_cells.
  assert (Hlen : length (combine (c_matrix s) (cms_positions cpos s x)) = N.to_nat rows).
  { rewrite combine_length, (positions_length cpos rows cols cpos_len s x Hs), Hl. apply Nat.min_id. }
  set (f := fun rp : list N * N => nth (N.to_nat (snd rp)) (fst rp) 0).
  assert (Hn : nth (N.to_nat r) (map f (combine (c_matrix s) (cms_positions cpos s x))) 0 = cell_sum h r (pos x r)).
  { change 0 with (f ([], 0)) at 1. rewrite map_nth.
    rewrite combine_nth by (rewrite (positions_length cpos rows cols cpos_len s x Hs); lia).
    unfold f; cbn [fst snd].
    rewrite (nth_positions cpos rows cols s x r Hs).
    rewrite <- (Hcell r (pos x r) Hr (pos_lt cpos rows cols cpos_len cpos_lt x r Hr)). reflexivity. }
  rewrite <- Hn. apply nth_In. rewrite map_length, Hlen. lia.
Qed.

Lemma cell_sum_mono h e r jx : cell_sum h r jx <= cell_sum (h ++ [e]) r jx.
Proof. rewrite (cell_sum_app cpos rows cols). lia. Qed.

Lemma count_mono s s' h e x : repr s h -> repr s' (h ++ [e]) ->
  cms_count cpos s x <= cms_count cpos s' x.
Proof.
  intros Hr Hr'. unfold cms_count at 2.
  apply min_list_ge; [eapply (cells_nonempty cpos rows cols cpos_len); eauto|].
  intros v Hv. destruct (cells_spec cpos rows cols cpos_len cpos_lt _ _ _ _ Hr' Hv) as (r & Hrr & ->).
  etransitivity; [|apply cell_sum_mono].
  unfold cms_count. apply min_list_le_in. apply cells_has; assumption.
Qed.

(* ---------- facts about the heap's element names ---------- *)
Lemma index_of_spec_h h x : forall k i, heap_index_of h x k = Some i ->
  (k <= i)%nat /\ (i - k < length h)%nat /\ fst (hget h (i - k)) = x.
Proof.
  induction h as [|e t IH]; intros k i H; simpl in H; [discriminate|].
  destruct (bytes_eqb (fst e) x) eqn:E.
  - injection H as <-. apply bytes_eqb_eq in E. rewrite Nat.sub_diag. simpl. repeat split; auto; lia.
  - apply IH in H. destruct H as (H1 & H2 & H3). repeat split; [lia|simpl; lia|].
    replace (i - k)%nat with (S (i - S k)) by lia. exact H3.
Qed.
Lemma index_of_none_h h x : forall k, heap_index_of h x k = None -> ~ In x (map fst h).
Proof.
  induction h as [|e t IH]; intros k H; simpl in *; [tauto|].
  destruct (bytes_eqb (fst e) x) eqn:E; [discriminate|].
  intros [Hx|Hx]; [subst; rewrite bytes_eqb_refl in E; discriminate|]. exact (IH _ H Hx).
Qed.

Definition names (h : list hentry) : list bytes := map fst h.

Lemma names_perm a b : Permutation a b -> Permutation (names a) (names b).
Proof. apply Permutation_map. Qed.

(* the state after removing x's entry (if any) and pushing (x, f) *)
Definition replaced (h : list hentry) (x : bytes) (f : N) : list hentry :=
  heap_push (match heap_index_of h x 0 with Some i => heap_remove h i | None => h end) (x, f).

Lemma replaced_spec h x f : heap_ok h -> NoDup (names h) ->
  exists rest, Permutation (replaced h x f) ((x, f) :: rest) /\ heap_ok (replaced h x f) /\
    ~ In x (names rest) /\ NoDup (names rest) /\
    ((~ In x (names h) /\ rest = h) \/ (exists cx, Permutation h ((x, cx) :: rest))).
Proof.
  intros Hok Hnd. unfold replaced.
  destruct (heap_index_of h x 0) as [i|] eqn:Ei.
  - destruct (index_of_spec_h h x 0 i Ei) as (_ & Hi & Hx). rewrite Nat.sub_0_r in Hi, Hx.
    destruct (heap_remove_perm h i Hi) as [Pr _].
    pose proof (heap_remove_ok h i Hok Hi) as Hokr.
    destruct (heap_push_perm (heap_remove h i) (x, f)) as [Pp _].
    exists (heap_remove h i). split; [exact Pp|]. split; [apply heap_push_ok; exact Hokr|].
    assert (Pn : Permutation (names h) (x :: names (heap_remove h i))).
    { apply Permutation_sym. rewrite <- Hx. apply (names_perm _ _ Pr). }
    pose proof (Permutation_NoDup Pn Hnd) as Hnd'. apply NoDup_cons_iff in Hnd'. destruct Hnd' as [Hnin Hnd''].
    split; [exact Hnin|]. split; [exact Hnd''|]. right. exists (snd (hget h i)).
    apply Permutation_sym. rewrite <- Hx, <- surjective_pairing. exact Pr.
  - destruct (heap_push_perm h (x, f)) as [Pp _].
    pose proof (index_of_none_h h x 0 Ei) as Hnin.
    exists h. split; [exact Pp|]. split; [apply heap_push_ok; exact Hok|]. split; [exact Hnin|]. split; [exact Hnd|].
    left. split; [exact Hnin|reflexivity].
Qed.

(* ---------- the invariant ---------- *)
Definition hmin (h : list hentry) : N := hfreq (hget h 0).

Definition entry_ok (s : cms) (H : hist) (e : hentry) : Prop :=
  In (fst e) (map fst H) /\ true_count H (fst e) <= hfreq e /\ hfreq e <= cms_count cpos s (fst e).

Record TI (t : topk) (H : hist) : Prop := mkTI {
  ti_repr : repr (t_sketch t) H;
  ti_heap : heap_ok (t_heap t);
  ti_nodup : NoDup (names (t_heap t));
  ti_len : N.of_nat (length (t_heap t)) <= t_k t;
  ti_entries : forall e, In e (t_heap t) -> entry_ok (t_sketch t) H e;
  ti_small : N.of_nat (length (t_heap t)) < t_k t ->
             forall x, In x (map fst H) -> In x (names (t_heap t));
  ti_full : N.of_nat (length (t_heap t)) = t_k t ->
            forall x, In x (map fst H) -> ~ In x (names (t_heap t)) -> true_count H x <= hmin (t_heap t) }.

Lemma true_count_snoc H x c y :
  true_count (H ++ [(x, c)]) y = true_count H y + (if bytes_eqb x y then c else 0).
Proof. rewrite true_count_app. unfold true_count at 2. cbn [map sumN fst snd]. lia. Qed.

Lemma hmin_le h e : heap_ok h -> In e h -> hmin h <= hfreq e.
Proof.
  intros Hok Hin. apply In_nth with (d := dflt) in Hin. destruct Hin as (c & Hc & <-).
  apply (root_min h (length h) Hok c Hc).
Qed.

Lemma hmin_in h : h <> [] -> In (hget h 0) h.
Proof. destruct h; [congruence|left; reflexivity]. Qed.

Lemma in_names h x : In x (names h) <-> exists e, In e h /\ fst e = x.
Proof. unfold names. rewrite in_map_iff. split; intros (e & A & B); exists e; auto. Qed.

Lemma entry_ok_step s s' H x c e :
  repr s H -> repr s' (H ++ [(x, c)]) -> fst e <> x -> entry_ok s H e -> entry_ok s' (H ++ [(x, c)]) e.
Proof.
  intros Hr Hr' Hne (A & B & C). split; [rewrite map_app; apply in_or_app; left; exact A|].
  rewrite true_count_snoc.
  replace (bytes_eqb x (fst e)) with false
    by (symmetry; apply Bool.not_true_is_false; intros E; apply bytes_eqb_eq in E; congruence).
  split; [lia|]. pose proof (count_mono s s' H (x, c) (fst e) Hr Hr'). lia.
Qed.

Theorem insert_TI t H x c :
  TI t H -> 1 <= t_k t -> 1 <= c -> total (H ++ [(x, c)]) < two64 ->
  exists t', topk_insert cpos t x c = Ok t' /\ TI t' (H ++ [(x, c)]) /\ t_k t' = t_k t.
Proof.
  intros [Hr Hok Hnd Hlen Hent Hsmall Hfull] Hk Hc Htot.
  unfold topk_insert. replace (c =? 0) with false by lia.
  set (s' := cms_update cpos (t_sketch t) x c).
  set (f := cms_count cpos s' x).
  set (h := t_heap t) in *.
  set (H' := H ++ [(x, c)]).
  assert (Hr' : repr s' H') by (apply (update_repr cpos rows cols cpos_len cpos_lt); assumption).
  assert (Hfx : true_count H' x <= f) by (apply (count_lower cpos rows cols cpos_len cpos_lt); assumption).
  assert (HinH' : forall y, In y (map fst H') <-> In y (map fst H) \/ y = x).
  { intros y. unfold H'. rewrite map_app, in_app_iff. simpl. intuition. }
  assert (Hxe : entry_ok s' H' (x, f)).
  { split; [apply HinH'; right; reflexivity|]. split; [exact Hfx|]. cbn [fst hfreq snd]. unfold f. lia. }
  (* the heap after removing x's entry and pushing (x, f) *)
  destruct (replaced_spec h x f Hok Hnd) as (rest & Prep & Hokrep & Hxrest & Hndrest & Hcase).
  fold (replaced h x f).
  assert (Hrest_h : forall e, In e rest -> In e h /\ fst e <> x).
  { intros e He. split.
    - destruct Hcase as [[_ ->]|(cx & Ph)]; [exact He|].
      eapply Permutation_in; [apply Permutation_sym; exact Ph|right; exact He].
    - intros E. apply Hxrest. apply in_names. exists e. auto. }
  assert (Hent_rep : forall e, In e (replaced h x f) -> entry_ok s' H' e).
  { intros e He. apply (Permutation_in _ Prep) in He. destruct He as [<-|He]; [exact Hxe|].
    destruct (Hrest_h e He) as [Hh Hne]. apply (entry_ok_step (t_sketch t) s' H x c e Hr Hr' Hne). apply Hent. exact Hh. }
  assert (Hnd_rep : NoDup (names (replaced h x f))).
  { eapply Permutation_NoDup; [apply Permutation_sym, names_perm; exact Prep|].
    simpl. constructor; assumption. }
  assert (Hlen_rep : length (replaced h x f) = S (length rest)) by (rewrite (Permutation_length Prep); reflexivity).
  assert (Hlen_rest : (length rest = length h /\ ~ In x (names h)) \/ (S (length rest) = length h /\ In x (names h))).
  { destruct Hcase as [[Hn ->]|(cx & Ph)]; [left; auto|right].
    split; [rewrite (Permutation_length Ph); reflexivity|].
    apply in_names. exists (x, cx). split; [eapply Permutation_in; [apply Permutation_sym; exact Ph|left; reflexivity]|reflexivity]. }
  assert (Hname_rep : forall y, In y (names (replaced h x f)) <-> y = x \/ In y (names rest)).
  { intros y. split; intros Hy.
    - apply (Permutation_in _ (names_perm _ _ Prep)) in Hy. simpl in Hy. destruct Hy; auto.
    - apply (Permutation_in _ (Permutation_sym (names_perm _ _ Prep))). simpl. destruct Hy; auto. }
  assert (Hname_h : forall y, y <> x -> In y (names h) -> In y (names rest)).
  { intros y Hne Hy. destruct Hcase as [[_ ->]|(cx & Ph)]; [exact Hy|].
    apply (Permutation_in _ (names_perm _ _ Ph)) in Hy. simpl in Hy. destruct Hy; [congruence|assumption]. }
  destruct (N.of_nat (length h) <? t_k t) eqn:Efull.
  - (* fewer than k tracked: accept, no pop *)
    apply N.ltb_lt in Efull. cbv iota.
    replace (t_k t <? N.of_nat (length (replaced h x f))) with false by (rewrite Hlen_rep; lia).
    eexists. split; [reflexivity|]. split; [|reflexivity].
    constructor; cbn [t_sketch t_heap t_k]; auto.
    + rewrite Hlen_rep. lia.
    + intros _ y Hy. apply Hname_rep. apply HinH' in Hy. destruct Hy as [Hy|Hy]; [|left; exact Hy].
      destruct (bytes_eqb y x) eqn:E; [apply bytes_eqb_eq in E; left; exact E|].
      right. apply Hname_h; [intros ->; rewrite bytes_eqb_refl in E; discriminate|]. apply Hsmall; assumption.
    + intros Hfl y Hy Hny. exfalso. apply Hny. apply Hname_rep. apply HinH' in Hy. destruct Hy as [Hy|Hy]; [|left; exact Hy].
      destruct (bytes_eqb y x) eqn:E; [apply bytes_eqb_eq in E; left; exact E|].
      right. apply Hname_h; [intros ->; rewrite bytes_eqb_refl in E; discriminate|]. apply Hsmall; assumption.
  - (* k tracked *)
    apply N.ltb_ge in Efull. assert (Hlk : N.of_nat (length h) = t_k t) by lia.
    destruct h as [|e0 h0] eqn:Eh; [simpl in Hlk; lia|]. rewrite <- Eh in *.
    assert (He0 : hget h 0 = e0) by (rewrite Eh; reflexivity).
    assert (Hmin : hmin h = hfreq e0) by (unfold hmin; rewrite He0; reflexivity).
    destruct (hfreq e0 <=? f) eqn:Eacc; cbv iota.
    2:{ (* rejected: x cannot be tracked, and its true total is below the minimum *)
      apply N.leb_gt in Eacc.
      assert (Hxn : ~ In x (names h)).
      { intros Hx. apply in_names in Hx. destruct Hx as (e & He & Hfe).
        destruct (Hent e He) as (_ & _ & Hc3). rewrite Hfe in Hc3.
        pose proof (count_mono (t_sketch t) s' H (x, c) x Hr Hr') as Hm. fold f in Hm.
        pose proof (hmin_le h e Hok He). lia. }
      eexists. split; [reflexivity|]. split; [|reflexivity].
      constructor; cbn [t_sketch t_heap t_k]; auto.
      - intros e He. apply (entry_ok_step (t_sketch t) s' H x c e Hr Hr'); [|apply Hent; exact He].
        intros E. apply Hxn. apply in_names. exists e. auto.
      - intros Hlt. lia.
      - intros _ y Hy Hny. unfold H'. rewrite true_count_snoc. apply HinH' in Hy.
        destruct (bytes_eqb x y) eqn:E.
        + apply bytes_eqb_eq in E. subst y. unfold H' in Hfx. rewrite true_count_snoc, bytes_eqb_refl in Hfx. lia.
        + destruct Hy as [Hy|Hy]; [|subst y; rewrite bytes_eqb_refl in E; discriminate].
          pose proof (Hfull Hlk y Hy Hny). lia. }
    apply N.leb_le in Eacc.
    assert (Hge_rep : forall e, In e (replaced h x f) -> hmin h <= hfreq e).
    { intros e He. apply (Permutation_in _ Prep) in He. destruct He as [<-|He]; [cbn [hfreq snd]; lia|].
      apply hmin_le; [exact Hok|]. apply (Hrest_h e He). }
    destruct Hlen_rest as [[Hl Hxn]|[Hl Hxin]].
    + (* x was not tracked: k+1 entries, pop the minimum *)
      replace (t_k t <? N.of_nat (length (replaced h x f))) with true by (rewrite Hlen_rep; lia).
      destruct (heap_pop (replaced h x f)) as [[m h3]|tg|tg] eqn:Epop.
      2,3: (rewrite heap_pop_eq in Epop by (intros E; rewrite E in Hlen_rep; discriminate); discriminate).
      destruct (heap_pop_perm _ _ _ Epop) as [Ppop Lpop].
      destruct (heap_pop_ok _ _ _ Hokrep Epop) as [Hok3 Hmmin].
      eexists. split; [reflexivity|]. split; [|reflexivity].
      assert (Hin3 : forall e, In e h3 -> In e (replaced h x f)).
      { intros e He. eapply Permutation_in; [exact Ppop|right; exact He]. }
      assert (Hnd3 : NoDup (fst m :: names h3)).
      { eapply Permutation_NoDup; [apply Permutation_sym; apply (names_perm _ _ Ppop)|exact Hnd_rep]. }
      apply NoDup_cons_iff in Hnd3. destruct Hnd3 as [Hm3 Hnd3].
      constructor; cbn [t_sketch t_heap t_k]; auto.
      * rewrite Hlen_rep in Lpop. lia.
      * intros Hlt. rewrite Hlen_rep in Lpop. lia.
      * intros _ y Hy Hny.
        assert (Hh3ne : h3 <> []) by (intros E; rewrite E in Lpop; rewrite Hlen_rep in Lpop; simpl in Lpop; lia).
        pose proof (hmin_in h3 Hh3ne) as Hhd. pose proof (Hin3 _ Hhd) as Hhd_rep.
        assert (Hminmono : hmin h <= hmin h3) by (apply Hge_rep; exact Hhd_rep).
        destruct (in_dec (list_eq_dec N.eq_dec) y (names (replaced h x f))) as [Hyin|Hynot].
        -- (* y was popped *)
           apply (Permutation_in _ (Permutation_sym (names_perm _ _ Ppop))) in Hyin. simpl in Hyin.
           destruct Hyin as [Hym|Hy3]; [|contradiction].
           assert (Hmin_rep : In m (replaced h x f)) by (eapply Permutation_in; [exact Ppop|left; reflexivity]).
           destruct (Hent_rep m Hmin_rep) as (_ & Hb & _). rewrite Hym in Hb.
           pose proof (Hmmin _ Hhd_rep). unfold hmin. lia.
        -- (* y was untracked before as well *)
           assert (Hyx : y <> x) by (intros ->; apply Hynot; apply Hname_rep; left; reflexivity).
           assert (Hynh : ~ In y (names h)).
           { intros Hyh. apply Hynot. apply Hname_rep. right. apply Hname_h; assumption. }
           apply HinH' in Hy. destruct Hy as [Hy|Hy]; [|contradiction].
           unfold H'. rewrite true_count_snoc.
           replace (bytes_eqb x y) with false
             by (symmetry; apply Bool.not_true_is_false; intros E; apply bytes_eqb_eq in E; congruence).
           pose proof (Hfull Hlk y Hy Hynh). lia.
    + (* x was tracked: its entry is replaced, still k entries *)
      replace (t_k t <? N.of_nat (length (replaced h x f))) with false by (rewrite Hlen_rep; lia).
      eexists. split; [reflexivity|]. split; [|reflexivity].
      constructor; cbn [t_sketch t_heap t_k]; auto.
      * rewrite Hlen_rep. lia.
      * intros Hlt. rewrite Hlen_rep in Hlt. lia.
      * intros _ y Hy Hny.
        assert (Hrne : replaced h x f <> []) by (intros E; rewrite E in Hlen_rep; discriminate).
        pose proof (Hge_rep _ (hmin_in _ Hrne)) as Hminmono. fold (hmin (replaced h x f)) in Hminmono.
        assert (Hyx : y <> x) by (intros ->; apply Hny; apply Hname_rep; left; reflexivity).
        assert (Hynh : ~ In y (names h)).
        { intros Hyh. apply Hny. apply Hname_rep. right. apply Hname_h; assumption. }
        apply HinH' in Hy. destruct Hy as [Hy|Hy]; [|contradiction].
        unfold H'. rewrite true_count_snoc.
        replace (bytes_eqb x y) with false
          by (symmetry; apply Bool.not_true_is_false; intros E; apply bytes_eqb_eq in E; congruence).
        pose proof (Hfull Hlk y Hy Hynh). lia.
Qed.

(* ---------- every insert history ---------- *)
Fixpoint trun (t : topk) (ins : hist) : outcome topk :=
  match ins with
  | [] => Ok t
  | (x, c) :: rest => match topk_insert cpos t x c with
                      | Ok t' => trun t' rest
                      | Err e => Err e
                      | Panic e => Panic e
                      end
  end.

Lemma trun_TI ins : forall t H, TI t H -> 1 <= t_k t ->
  Forall (fun e => 1 <= snd e) ins -> total (H ++ ins) < two64 ->
  exists t', trun t ins = Ok t' /\ TI t' (H ++ ins) /\ t_k t' = t_k t.
Proof.
  induction ins as [|[x c] rest IH]; intros t H HI Hk Hpos Htot; cbn [trun].
  - exists t. rewrite app_nil_r. auto.
  - inversion Hpos as [|? ? Hc Hrest]; subst. cbn [snd] in Hc.
    assert (Ht1 : total (H ++ [(x, c)]) < two64).
    { replace (H ++ (x, c) :: rest) with ((H ++ [(x, c)]) ++ rest) in Htot by (rewrite <- app_assoc; reflexivity).
      pose proof (total_prefix (H ++ [(x, c)]) rest). lia. }
    destruct (insert_TI t H x c HI Hk Hc Ht1) as (t1 & -> & HI1 & Hk1).
    destruct (IH t1 (H ++ [(x, c)]) HI1 ltac:(lia) Hrest
                ltac:(rewrite <- app_assoc; exact Htot)) as (t' & Hrun & HI' & Hk').
    exists t'. rewrite <- app_assoc in HI'. split; [exact Hrun|]. split; [exact HI'|congruence].
Qed.

Lemma TI_new k s0 : cms_new rows cols = Ok s0 -> TI (mkTopk k s0 []) [].
Proof.
  intros Hn. constructor; cbn [t_sketch t_heap t_k].
  - apply (new_repr cpos rows cols cpos_lt). exact Hn.
  - intros c Hc. simpl in Hc. lia.
  - constructor.
  - simpl. lia.
  - intros e [].
  - intros _ x [].
  - intros _ x [].
Qed.

Definition distinct (H : hist) : list bytes := nodup (list_eq_dec N.eq_dec) (map fst H).

(* what Values() shows, in terms of the insert history alone *)
Theorem values_spec t H : TI t H -> 1 <= t_k t ->
  let vs := topk_values t in
  NoDup (names vs) /\
  N.of_nat (length vs) = N.min (t_k t) (N.of_nat (length (distinct H))) /\
  (forall e, In e vs -> In (fst e) (map fst H) /\ true_count H (fst e) <= hfreq e /\
                       hfreq e <= cms_count cpos (t_sketch t) (fst e) /\ hfreq e <= total H) /\
  (forall x, In x (map fst H) -> ~ In x (names vs) ->
     N.of_nat (length vs) = t_k t /\ forall e, In e vs -> true_count H x <= hfreq e).
Proof.
  intros [Hr Hok Hnd Hlen Hent Hsmall Hfull] Hk vs.
  assert (Pv : Permutation (t_heap t) vs) by apply sort_entries_perm.
  assert (Pn : Permutation (names (t_heap t)) (names vs)) by (apply names_perm; exact Pv).
  assert (Hlv : length vs = length (t_heap t)) by (symmetry; apply Permutation_length; exact Pv).
  assert (Hsub : incl (names (t_heap t)) (distinct H)).
  { intros y Hy. apply in_names in Hy. destruct Hy as (e & He & <-). unfold distinct. apply nodup_In.
    apply (Hent e He). }
  assert (Hndd : NoDup (distinct H)) by apply NoDup_nodup.
  split; [eapply Permutation_NoDup; eauto|]. split; [|split].
  - rewrite Hlv. unfold hentry in *.
    pose proof (NoDup_incl_length Hnd Hsub) as Hle. unfold names in Hle. rewrite map_length in Hle.
    destruct (N.of_nat (length (t_heap t)) <? t_k t) eqn:E.
    + apply N.ltb_lt in E.
      assert (Hsup : incl (distinct H) (names (t_heap t))).
      { intros y Hy. unfold distinct in Hy. apply nodup_In in Hy. apply Hsmall; assumption. }
      pose proof (NoDup_incl_length Hndd Hsup) as Hge. unfold names in Hge. rewrite map_length in Hge.
      rewrite N.min_r by lia. lia.
    + apply N.ltb_ge in E. unfold hentry in *. rewrite N.min_l by lia. lia.
  - intros e He. apply (Permutation_in _ (Permutation_sym Pv)) in He. destruct (Hent e He) as (A & B & C).
    split; [exact A|]. split; [exact B|]. split; [exact C|].
    pose proof (count_upper cpos rows cols cpos_len cpos_lt (t_sketch t) H (fst e) Hr rows_pos). lia.
  - intros x Hx Hnx.
    assert (Hnx' : ~ In x (names (t_heap t))) by (intros Hy; apply Hnx; eapply Permutation_in; eauto).
    assert (Hfl : N.of_nat (length (t_heap t)) = t_k t).
    { destruct (N.of_nat (length (t_heap t)) <? t_k t) eqn:E; [|apply N.ltb_ge in E; lia].
      apply N.ltb_lt in E. exfalso. apply Hnx'. apply Hsmall; assumption. }
    split; [rewrite Hlv; exact Hfl|].
    intros e He. apply (Permutation_in _ (Permutation_sym Pv)) in He.
    pose proof (Hfull Hfl x Hx Hnx'). pose proof (hmin_le _ e Hok He). lia.
Qed.

Theorem topk_history k s0 ins :
  1 <= k -> cms_new rows cols = Ok s0 -> Forall (fun e => 1 <= snd e) ins -> total ins < two64 ->
  exists t, trun (mkTopk k s0 []) ins = Ok t /\ TI t ins /\ t_k t = k.
Proof.
  intros Hk Hn Hpos Htot.
  destruct (trun_TI ins (mkTopk k s0 []) [] (TI_new k s0 Hn) Hk Hpos Htot) as (t & A & B & C).
  exists t. auto.
Qed.
End TopKInv.

(* packaged for the property file: from a new Top-K, for every insert history *)
Theorem topk_values_history cpos rows cols
  (cpos_len : forall x, length (cpos rows cols x) = N.to_nat rows)
  (cpos_lt : forall x p, In p (cpos rows cols x) -> p < cols) k s0 ins :
  1 <= k -> cms_new rows cols = Ok s0 -> Forall (fun e => 1 <= snd e) ins -> total ins < two64 ->
  exists t, trun cpos (mkTopk k s0 []) ins = Ok t /\
    let vs := topk_values t in
    NoDup (map fst vs) /\
    N.of_nat (length vs) = N.min k (N.of_nat (length (distinct ins))) /\
    (forall e, In e vs -> In (fst e) (map fst ins) /\ true_count ins (fst e) <= hfreq e /\
                          hfreq e <= cms_count cpos (t_sketch t) (fst e) /\ hfreq e <= total ins) /\
    (forall x, In x (map fst ins) -> ~ In x (map fst vs) ->
       N.of_nat (length vs) = k /\ forall e, In e vs -> true_count ins x <= hfreq e).
Proof.
  intros Hk Hn Hpos Htot. destruct (new_dims rows cols s0 Hn) as [Hr _].
  destruct (topk_history cpos rows cols cpos_len cpos_lt Hr k s0 ins Hk Hn Hpos Htot) as (t & Hrun & HI & Hkt).
  exists t. split; [exact Hrun|].
  pose proof (values_spec cpos rows cols cpos_len cpos_lt Hr t ins HI ltac:(lia)) as Hv.
  rewrite Hkt in Hv. exact Hv.
Qed.
