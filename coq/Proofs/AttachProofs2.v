(* AttachProofs2.v — C09 for the Redis-backed Bloom filter and Top-K: the constructor's metadata
   hash lets FromKey rebuild every handle field that an update or query reads; the one field that
   differs for Bloom (the cached bitset size, 8x) is read by Export only — the recorded finding. *)
From GX.Model Require Import Base Redis RedisCMS RedisBloom Heap TopK RedisTopK.
From GX.Proofs Require Import ListLemmas RedisProofs AttachProofs.
From Coq Require Import ZArith Lia ZifyN ZifyNat ZifyBool.
Open Scope N_scope.

Lemma r_get_sset_other s k v k' : k' <> k -> r_get (sset s k v) k' = r_get s k'.
Proof. intros H. unfold r_get. rewrite sget_sset_other by exact H. reflexivity. Qed.
Lemma r_get_set_same' s k v : r_get (r_set s k v) k = Some v.
Proof. unfold r_get, r_set. rewrite sget_sset_same. reflexivity. Qed.

(* ---------- Bloom ---------- *)
Definition bloom_fields_agree (a b : rbloom) : Prop :=
  rb_size a = rb_size b /\ rb_k a = rb_k b /\ rb_key a = rb_key b /\ rb_nil a = rb_nil b.

Theorem rbloom_attach_after_new s size0 k0 key meta junk : meta <> key ->
  exists h',
    fst (rbloom_attach (snd (rbloom_new s size0 k0 key meta)) meta junk) = Ok h' /\
    (forall h, fst (rbloom_new s size0 k0 key meta) = Ok h -> bloom_fields_agree h h') /\
    rb_meta h' = meta /\ rb_bsize h' = 8 * size0.
Proof.
  intros Hne. unfold rbloom_new. cbn [fst snd]. unfold rbloom_attach.
  set (fs := [(f_size, dec (N.max size0 1)); (f_numhashes, dec (N.max k0 1)); (f_bitsetkey, key)]).
  assert (Hnd : NoDup (map fst fs)).
  { cbn. repeat constructor; cbn; intros H; repeat (destruct H as [H|H]; [vm_compute in H; discriminate|]); exact H. }
  rewrite (r_hget_hset _ meta fs f_size (dec (N.max size0 1))) by (auto; cbn; auto).
  rewrite (r_hget_hset _ meta fs f_numhashes (dec (N.max k0 1))) by (auto; cbn; auto).
  rewrite (r_hget_hset _ meta fs f_bitsetkey key) by (auto; cbn; auto).
  rewrite !atoi_dec. unfold r_hset. rewrite r_get_sset_other by (intro E; apply Hne; symmetry; exact E).
  rewrite r_get_set_same'. cbn [fst]. eexists. split; [reflexivity|]. split; [|split].
  - intros h [= <-]. unfold bloom_fields_agree. cbn. auto.
  - reflexivity.
  - cbn [rb_bsize]. rewrite repeat_length. lia.
Qed.

(* the junk bitset the re-attachment allocates lives under another key: the filter's bits are untouched *)
Theorem rbloom_attach_frame s meta junk k : k <> junk ->
  sget (snd (rbloom_attach s meta junk)) k = sget s k.
Proof.
  intros H. unfold rbloom_attach. destruct (r_get s _); cbn [snd]; [|reflexivity].
  unfold r_set. apply sget_sset_other. exact H.
Qed.

Theorem rbloom_lookup_handle_irrelevant bpos s a b x : bloom_fields_agree a b ->
  rbloom_lookup bpos s a x = rbloom_lookup bpos s b x.
Proof. intros (H1 & H2 & H3 & H4). unfold rbloom_lookup. rewrite H1, H2, H3, H4. reflexivity. Qed.

Theorem rbloom_insert_handle_irrelevant bpos s a b x : bloom_fields_agree a b ->
  rbloom_insert bpos s a x = rbloom_insert bpos s b x.
Proof. intros (H1 & H2 & H3 & H4). unfold rbloom_insert. rewrite H1, H2, H3, H4. reflexivity. Qed.

(* the difference a re-attached handle does show: the exported size prefix (recorded finding) *)
Theorem rbloom_image_differs_after_attach :
  exists s size0 k0 key meta junk h h',
    fst (rbloom_new s size0 k0 key meta) = Ok h /\
    fst (rbloom_attach (snd (rbloom_new s size0 k0 key meta)) meta junk) = Ok h' /\
    rbloom_image (snd (rbloom_new s size0 k0 key meta)) h <> rbloom_image (snd (rbloom_new s size0 k0 key meta)) h'.
Proof.
  exists [], 2, 1, [1], [2], [3]. eexists. eexists. split; [reflexivity|]. split; [reflexivity|].
  vm_compute. discriminate.
Qed.

(* ---------- Top-K ---------- *)
Theorem rtopk_attach_after_new s k rows cols er acc ertxt acctxt skey smeta hkey meta t s' :
  rtopk_new s k rows cols er acc ertxt acctxt skey smeta hkey meta = (Ok t, s') ->
  meta <> smeta -> (forall r, row_key skey r <> smeta) -> (forall r, row_key skey r <> meta) ->
  rtopk_attach s' meta er acc = Ok t.
Proof.
  unfold rtopk_new. destruct (rcms_new s rows cols skey smeta) as [[sk|e|p] s1] eqn:En; try discriminate.
  intros [= <- <-] Hms Hrs Hrm. unfold rtopk_attach.
  set (fs := [(f_k, dec k); (f_heapkey, hkey); (f_errorrate, ertxt); (f_accuracy, acctxt); (f_sketchkey, smeta)]).
  assert (Hnd : NoDup (map fst fs)).
  { cbn. repeat constructor; cbn; intros H; repeat (destruct H as [H|H]; [vm_compute in H; discriminate|]); exact H. }
  rewrite (r_hget_hset _ meta fs f_k (dec k)) by (auto; cbn; auto).
  rewrite (r_hget_hset _ meta fs f_heapkey hkey) by (auto; cbn; auto).
  rewrite (r_hget_hset _ meta fs f_sketchkey smeta) by (auto; cbn; auto 6).
  rewrite atoi_dec.
  pose proof (rcms_attach_after_new s rows cols skey smeta sk s1 En Hrs) as Ha.
  assert (Hsk : sk = mkRcms rows cols 0 skey smeta).
  { unfold rcms_new in En. destruct ((rows =? 0) || (cols =? 0)); [discriminate|]. now injection En as <- _. }
  assert (Hframe : rcms_attach (r_hset s1 meta fs) smeta = rcms_attach s1 smeta).
  { unfold rcms_attach. rewrite !(r_hget_frame s1 (r_hset s1 meta fs) smeta)
      by (unfold r_hset; apply sget_sset_other; intro E; apply Hms; symmetry; exact E). reflexivity. }
  rewrite Hframe, Ha, Hsk. reflexivity.
Qed.

Theorem rtopk_values_handle_irrelevant s a b : rt_heap a = rt_heap b -> rtopk_values s a = rtopk_values s b.
Proof. intros H. unfold rtopk_values. rewrite H. reflexivity. Qed.

Theorem rtopk_insert_handle_irrelevant cpos s a b x c :
  rt_k a = rt_k b -> rt_heap a = rt_heap b ->
  rc_rows (rt_sketch a) = rc_rows (rt_sketch b) -> rc_cols (rt_sketch a) = rc_cols (rt_sketch b) ->
  rc_key (rt_sketch a) = rc_key (rt_sketch b) ->
  snd (rtopk_insert cpos s a x c) = snd (rtopk_insert cpos s b x c).
Proof.
  intros Hk Hh Hr Hc Hkey. unfold rtopk_insert. destruct (c =? 0); [reflexivity|].
  pose proof (rcms_update_handle_irrelevant cpos s (rt_sketch a) (rt_sketch b) x c Hr Hc Hkey) as Hu.
  destruct (rcms_update cpos s (rt_sketch a) x c) as [ra sa] eqn:Ea.
  destruct (rcms_update cpos s (rt_sketch b) x c) as [rb sb] eqn:Eb. cbn [snd] in Hu. subst sb.
  set (ska := match ra with Ok sk' => sk' | _ => rt_sketch a end).
  set (skb := match rb with Ok sk' => sk' | _ => rt_sketch b end).
  assert (Hsk : rc_rows ska = rc_rows skb /\ rc_cols ska = rc_cols skb /\ rc_key ska = rc_key skb).
  { unfold rcms_update in Ea, Eb. unfold positions_rc in Ea, Eb. rewrite Hr, Hc, Hkey in Ea.
    destruct (upd_cells s (rc_key (rt_sketch b)) _ (round53 c)) as [s2|] eqn:Eu.
    - injection Ea as <- _. injection Eb as <- _. subst ska skb. cbn. auto.
    - injection Ea as <- _. injection Eb as <- _. subst ska skb. cbn. auto. }
  destruct Hsk as (H1 & H2 & H3).
  rewrite (rcms_count_handle_irrelevant cpos sa ska skb x H1 H2 H3).
  destruct (rcms_count cpos sa skb x) as [f|e|p]; try reflexivity.
  rewrite Hk, Hh. destruct (_ || _); reflexivity.
Qed.
