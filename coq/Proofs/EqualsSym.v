(* EqualsSym.v — C17, symmetry of the positive verdict for the in-memory structures: on
   well-formed states Equals(a, b) says true exactly when Equals(b, a) does (Bloom: EqualsProofs). *)
From GX.Model Require Import Base CMS Bloom HLL Cuckoo Heap TopK Codec Persist.
From GX.Proofs Require Import ListLemmas CodecProofs EqualsProofs.

Lemma cms_equals_sym1 a b : cms_wf a -> cms_wf b -> cms_equals_o a b = Ok true -> cms_equals_o b a = Ok true.
Proof.
  intros Ha Hb H. destruct (cms_equals_sound a b Ha Hb H) as (Hr & Hc & Hm).
  unfold cms_equals_o. rewrite <- Hr, <- Hc, <- Hm, !N.eqb_refl. cbn [negb orb]. apply matrix_eq_refl.
Qed.
Theorem cms_equals_sym a b : cms_wf a -> cms_wf b -> (cms_equals_o a b = Ok true <-> cms_equals_o b a = Ok true).
Proof. intros Ha Hb. split; apply cms_equals_sym1; assumption. Qed.

Lemma hll_equals_sym1 a b : hll_cwf a -> hll_cwf b -> hll_equals a b = Ok true -> hll_equals b a = Ok true.
Proof.
  intros Ha Hb H. destruct (hll_equals_sound a b Ha Hb H) as (Hm & Hr).
  pose proof (hll_equals_refl a Ha) as R. unfold hll_equals in *. rewrite <- Hm, <- Hr. exact R.
Qed.
Theorem hll_equals_sym a b : hll_cwf a -> hll_cwf b -> (hll_equals a b = Ok true <-> hll_equals b a = Ok true).
Proof. intros Ha Hb. split; apply hll_equals_sym1; assumption. Qed.

Theorem ck_equals_sym a b : cuckoo_cwf a -> cuckoo_cwf b -> (ck_equals a b = Ok true <-> ck_equals b a = Ok true).
Proof.
  intros Ha Hb. split; intros H.
  - rewrite (ck_equals_sound a b Ha Hb H). apply ck_equals_refl.
  - rewrite (ck_equals_sound b a Hb Ha H). apply ck_equals_refl.
Qed.

Lemma topk_equals_sym1 pa a pb b : cms_wf (t_sketch a) -> cms_wf (t_sketch b) ->
  topk_equals pa a pb b = Ok true -> topk_equals pb b pa a = Ok true.
Proof.
  intros Ha Hb H. destruct (topk_equals_sound pa a pb b Ha Hb H) as (Hk & Hp & _ & Hh).
  assert (Hs : cms_equals_o (t_sketch a) (t_sketch b) = Ok true).
  { revert H. unfold topk_equals.
    destruct (negb (t_k a =? t_k b) || negb (tp_acc pa =? tp_acc pb) || negb (tp_er pa =? tp_er pb)); [discriminate|].
    destruct (cms_equals_o (t_sketch a) (t_sketch b)) as [[|]|t|t]; cbn [obind negb]; try discriminate. reflexivity. }
  pose proof (cms_equals_sym1 _ _ Ha Hb Hs) as Hs'.
  unfold topk_equals. rewrite <- Hk, <- Hp, !N.eqb_refl. cbn [negb orb]. rewrite Hs'. cbn [obind negb].
  rewrite <- Hh. f_equal. apply heap_eqb_eq. reflexivity.
Qed.
Theorem topk_equals_sym pa a pb b : cms_wf (t_sketch a) -> cms_wf (t_sketch b) ->
  (topk_equals pa a pb b = Ok true <-> topk_equals pb b pa a = Ok true).
Proof. intros Ha Hb. split; apply topk_equals_sym1; assumption. Qed.
