(* SizingProofs.v — the idealised sizing identities behind C15, over the real numbers
   (standard library Reals; these lemmas depend on the library's real-number axioms). *)
From Coq Require Import Reals Lra.
Open Scope R_scope.

Lemma ln2_pos : 0 < ln 2.
Proof. rewrite <- ln_1. apply ln_increasing; lra. Qed.

(* Bloom: with m = -n ln p / ln^2 2 bits and k = (m/n) ln 2 hash functions, the classical
   false-positive estimate (1 - e^{-kn/m})^k equals the budget p exactly *)
Theorem bloom_sizing_identity (n p : R) : 0 < n -> 0 < p < 1 ->
  let m := - n * ln p / (ln 2 * ln 2) in
  let k := (m / n) * ln 2 in
  Rpower (1 - exp (- k * n / m)) k = p.
Proof.
  intros Hn [Hp0 Hp1] m k. pose proof ln2_pos as H2.
  assert (Hlnp : ln p < 0) by (rewrite <- ln_1; apply ln_increasing; lra).
  assert (Hm : 0 < m).
  { unfold m. apply Rmult_lt_0_compat; [|apply Rinv_0_lt_compat; nra]. nra. }
  assert (Hk : - k * n / m = - ln 2) by (unfold k; field; lra).
  rewrite Hk, exp_Ropp, exp_ln by lra.
  replace (1 - / 2) with (/ 2) by lra.
  unfold Rpower. rewrite ln_Rinv by lra.
  replace (k * - ln 2) with (ln p).
  - apply exp_ln; lra.
  - unfold k, m. field. lra.
Qed.

(* more bits than that only lower the estimate's exponent base: rounding m up is safe *)
Theorem bloom_more_bits_lower_rate (n k m m' : R) : 0 < n -> 0 < k -> 0 < m <= m' ->
  1 - exp (- k * n / m') <= 1 - exp (- k * n / m).
Proof.
  intros Hn Hk [Hm Hmm].
  assert (- k * n / m <= - k * n / m').
  { unfold Rdiv. rewrite !Ropp_mult_distr_l_reverse.
    apply Ropp_le_contravar. apply Rmult_le_compat_l; [nra|].
    apply Rinv_le_contravar; lra. }
  destruct H as [H|H]; [apply exp_increasing in H; lra|rewrite H; lra].
Qed.

(* Count-Min: columns >= e/eps gives the Markov bound T/columns <= eps T / e, and
   rows >= ln(1/delta) gives e^{-rows} <= delta *)
Theorem cms_columns_bound (eps cols T : R) : 0 < eps -> 0 <= T -> exp 1 / eps <= cols ->
  T / cols <= eps * T / exp 1.
Proof.
  intros He HT Hc. pose proof (exp_pos 1) as Hexp.
  assert (Hcpos : 0 < cols).
  { apply Rlt_le_trans with (exp 1 / eps); auto. apply Rdiv_lt_0_compat; lra. }
  assert (H1 : / cols <= eps / exp 1).
  { replace (eps / exp 1) with (/ (exp 1 / eps)) by (field; lra).
    apply Rinv_le_contravar; auto. apply Rdiv_lt_0_compat; lra. }
  unfold Rdiv in *. replace (eps * T * / exp 1) with (T * (eps * / exp 1)) by ring.
  apply Rmult_le_compat_l; auto.
Qed.

Theorem cms_rows_bound (delta rows : R) : 0 < delta < 1 -> ln (/ delta) <= rows -> exp (- rows) <= delta.
Proof.
  intros [Hd0 Hd1] Hr. rewrite ln_Rinv in Hr by lra.
  assert (- rows <= ln delta) by lra.
  destruct H as [H|H]; [apply exp_increasing in H; rewrite exp_ln in H; lra|rewrite H, exp_ln; lra].
Qed.
