(* AttachProofs.v — C09 for the Redis-backed HyperLogLog and cuckoo filter: the constructor writes
   a metadata hash from which FromKey rebuilds exactly the handle (parameters and data key), and
   every operation depends on those fields and the store only. *)
From GX.Model Require Import Base HLL Cuckoo Redis RedisCMS RedisHLL RedisCuckoo.
From GX.Proofs Require Import ListLemmas RedisProofs.
From Coq Require Import ZArith Lia ZifyN ZifyNat ZifyBool.
Open Scope N_scope.

(* reading back a field of a freshly written hash *)
Lemma hget_fold_hput fs : forall h f v,
  In (f, v) fs -> NoDup (map fst fs) ->
  hget (fold_left (fun h fv => hput h (fst fv) (snd fv)) fs h) f = Some v.
Proof.
  induction fs as [|[f0 v0] t IH]; intros h f v Hin Hnd; [destruct Hin|]. cbn [fold_left fst snd].
  cbn [map fst] in Hnd. apply NoDup_cons_iff in Hnd. destruct Hnd as [Hnot Hnd].
  destruct Hin as [E|Hin].
  - injection E as -> ->.
    assert (Hkeep : forall t' h', ~ In f (map fst t') ->
              hget (fold_left (fun h fv => hput h (fst fv) (snd fv)) t' h') f = hget h' f).
    { induction t' as [|[f1 v1] t' IHt]; intros h' Hn; cbn [fold_left fst snd]; [reflexivity|].
      rewrite IHt by (intros H; apply Hn; right; exact H).
      apply hget_hput_other. intros E. apply Hn. left. symmetry. exact E. }
    rewrite Hkeep by exact Hnot. apply hget_hput_same.
  - apply IH; assumption.
Qed.

Lemma r_hget_hset s k fs f v : In (f, v) fs -> NoDup (map fst fs) -> r_hget (r_hset s k fs) k f = Some v.
Proof. intros Hin Hnd. unfold r_hget, r_hash, r_hset. rewrite sget_sset_same. apply hget_fold_hput; assumption. Qed.

Lemma r_hget_frame s s' k f : sget s' k = sget s k -> r_hget s' k f = r_hget s k f.
Proof. intros H. unfold r_hget, r_hash. rewrite H. reflexivity. Qed.

(* ---------- HyperLogLog ---------- *)
Theorem rhll_attach_after_new s m alpha key meta h s' alpha_of :
  rhll_new s m alpha key meta = (Ok h, s') -> key <> meta -> alpha_of m = alpha ->
  rhll_attach s' meta alpha_of = Ok h.
Proof.
  unfold rhll_new. destruct (hll_abstract m) as [[]|e|e] eqn:Ea; try discriminate.
  destruct (m =? 1); [discriminate|]. intros H Hne Hal. injection H as <- <-.
  unfold rhll_attach.
  set (fs := [(f_numreg, dec m); (f_key, key)]).
  assert (Hnd : NoDup (map fst fs)) by (unfold fs; cbn; repeat constructor; cbn; intuition; discriminate).
  assert (Hframe : forall f, r_hget (r_lpush (r_lpush (r_hset s meta fs) key (repeat [48] (N.to_nat (m / 2)))) key
                                           (repeat [48] (N.to_nat (m / 2)))) meta f = r_hget (r_hset s meta fs) meta f).
  { intros f. apply r_hget_frame. rewrite !r_lpush_frame by (intros E; exact (Hne (eq_sym E))). reflexivity. }
  rewrite !Hframe.
  rewrite (r_hget_hset s meta fs f_numreg (dec m)) by (unfold fs; cbn; auto).
  rewrite (r_hget_hset s meta fs f_key key) by (unfold fs; cbn; auto).
  rewrite atoi_dec, Ea, Hal. reflexivity.
Qed.

Theorem rhll_update_handle_irrelevant hic s a b x :
  rh_p a = rh_p b -> rh_key a = rh_key b -> rhll_update hic s a x = rhll_update hic s b x.
Proof. intros Hp Hk. unfold rhll_update. rewrite Hp, Hk. reflexivity. Qed.

Theorem rhll_regs_handle_irrelevant s a b :
  rh_m a = rh_m b -> rh_key a = rh_key b -> rhll_regs s a = rhll_regs s b.
Proof. intros Hm Hk. unfold rhll_regs. rewrite Hm, Hk. reflexivity. Qed.

(* ---------- cuckoo filter ---------- *)
Lemma incr0_frame s k k' : k' <> k -> sget (incr0 s k) k' = sget s k'.
Proof.
  intros Hne. unfold incr0, r_incrby.
  destruct (match r_get s k with Some b => undecZ b | None => Some 0%Z end); [|reflexivity].
  apply r_set_frame. exact Hne.
Qed.

Lemma fold_incr0_frame l : forall s k', (forall bk, In bk l -> k' <> len_key bk) ->
  sget (fold_left (fun st bk => incr0 st (len_key bk)) l s) k' = sget s k'.
Proof.
  induction l as [|a t IH]; intros s k' Hne; cbn [fold_left]; [reflexivity|].
  rewrite IH by (intros bk Hb; apply Hne; right; exact Hb).
  apply incr0_frame. apply Hne. left. reflexivity.
Qed.

Theorem rck_attach_after_new s size bsize fpl retries key meta :
  meta <> key -> (forall i, meta <> len_key (bucket_key key i)) ->
  fst (rck_attach (snd (rck_new s size bsize fpl retries key meta)) meta) =
  fst (rck_new s size bsize fpl retries key meta).
Proof.
  intros Hmk Hml. unfold rck_new. cbn [fst snd]. unfold rck_attach. cbn [fst].
  set (h := mkRck size bsize fpl retries key meta).
  set (fs := [(f_size, dec size); (f_bucketsize, dec bsize); (f_fpl, dec fpl); (f_retries, dec retries);
              (f_key, key); (f_length, dec 0)]).
  assert (Hnd : NoDup (map fst fs)) by (unfold fs; cbn; repeat constructor; cbn; intuition; discriminate).
  assert (Hframe : forall f, r_hget (rck_init_buckets (rck_set_metadata s h 0) h) meta f = r_hget (rck_set_metadata s h 0) meta f).
  { intros f. apply r_hget_frame. unfold rck_init_buckets.
    rewrite fold_incr0_frame.
    - cbn [rq_key h]. rewrite r_lpush_frame by exact Hmk. apply sdel_frame. exact Hmk.
    - intros bk Hb. apply in_map_iff in Hb. destruct Hb as (i & <- & _). apply Hml. }
  rewrite !Hframe. unfold rck_set_metadata. cbn [rq_meta rq_size rq_bsize rq_fpl rq_retries rq_key h]. fold fs.
  rewrite (r_hget_hset s meta fs f_size (dec size)) by (unfold fs; cbn; auto).
  rewrite (r_hget_hset s meta fs f_bucketsize (dec bsize)) by (unfold fs; cbn; auto 10).
  rewrite (r_hget_hset s meta fs f_fpl (dec fpl)) by (unfold fs; cbn; auto 10).
  rewrite (r_hget_hset s meta fs f_retries (dec retries)) by (unfold fs; cbn; auto 10).
  rewrite (r_hget_hset s meta fs f_key key) by (unfold fs; cbn; auto 10).
  rewrite !atoi_dec. reflexivity.
Qed.

Theorem rck_lookup_handle_irrelevant h64 s a b x :
  rq_size a = rq_size b -> rq_bsize a = rq_bsize b -> rq_fpl a = rq_fpl b -> rq_retries a = rq_retries b ->
  rq_key a = rq_key b -> rck_lookup h64 s a x = rck_lookup h64 s b x.
Proof.
  intros H1 H2 H3 H4 H5. unfold rck_lookup, rck_positions. rewrite H1, H2, H3, H4, H5. reflexivity.
Qed.
