(* CuckooConc.v — C16 for the Redis-backed cuckoo filter, the regime in which the clause holds:
   two clients insert concurrently (each call = isFree script, add script, HINCRBY, as separate
   Redis round trips), interleaved by ANY schedule. If the first candidate bucket of each of the
   two elements has at least two free slots beforehand, then both inserts report success, both
   fingerprints are stored in their bucket, every bucket counter still equals its occupied
   slots, and Length has grown by exactly two. (With a single free slot the recorded race can
   occur: C16_cuckoo_refuted.) *)
From GX.Model Require Import Base Redis RedisCMS Cuckoo RedisCuckoo Interleave.
From GX.Proofs Require Import ListLemmas RedisProofs CuckooProofs CuckooInv AttachProofs RedisCMSRefine RedisCuckooInv.
From Coq Require Import ZArith Lia ZifyN ZifyNat ZifyBool.
Open Scope N_scope.

(* an entry already stored survives the add of another one *)
Lemma in_setnth_other {A} (l : list A) : forall p (v e x : A), nth_error l p = Some v -> x <> v -> In x l -> In x (setnth l p e).
Proof.
  unfold setnth. induction l as [|a t IH]; intros [|p] v e x Hn Hx Hin; cbn [nth_error] in Hn; try discriminate.
  - injection Hn as ->. destruct Hin as [->|Hin]; [contradiction|]. cbn [upd]. right. exact Hin.
  - cbn [upd]. destruct Hin as [->|Hin]; [left; reflexivity|]. right. eapply IH; eauto.
Qed.

Lemma in_setnth_same {A} (l : list A) : forall p (e : A), (p < length l)%nat -> In e (setnth l p e).
Proof.
  unfold setnth. induction l as [|a t IH]; intros [|p] e Hp; cbn [length] in Hp; try lia; cbn [upd].
  - left. reflexivity.
  - right. apply IH. lia.
Qed.

Section Conc.
Variable key meta : bytes.
Variable size bsize : N.
Hypothesis meta_not_bucket : forall i, meta <> bucket_key key i.
Hypothesis meta_not_len : forall i, meta <> len_key (bucket_key key i).
Hypothesis bsize_pos : 1 <= bsize.
Hypothesis bsize_small : bsize < 2 ^ 62.
Hypothesis size_pos : 0 < size.
Variable fpl retries : N.
Variable h64 : bytes -> N.

Notation hd := (hdl key meta size bsize fpl retries).
Notation bk := (bucket_key key).
Notation blist := (blist key).
Notation bcount := (bcount key).
Notation mlen := (mlen meta).
Notation bwf := (bwf key bsize).
Notation buckets_ok := (buckets_ok key size bsize).
Notation tot := (tot key size).
Notation only_bucket := (only_bucket key meta).

(* the lemmas of RedisCuckooInv with this section's parameters *)
Definition L_add_list := add_list key meta size bsize meta_not_bucket meta_not_len bsize_pos bsize_small h64 size_pos.
Definition L_add_view := add_view key meta bsize meta_not_bucket meta_not_len bsize_pos bsize_small.
Definition L_free_iff := free_iff key meta bsize meta_not_bucket meta_not_len bsize_pos bsize_small.
Definition L_hincr_view := hincr_view key meta size bsize meta_not_bucket meta_not_len fpl retries.
Definition L_tot_only_bucket := tot_only_bucket key meta size bsize meta_not_bucket meta_not_len bsize_pos bsize_small fpl.
Definition L_index_of_lt := index_of_lt key meta bsize meta_not_bucket meta_not_len bsize_pos bsize_small.

Lemma add_stores s i (e : bytes) : bwf s i -> e <> [] -> rbk_is_free s (bk i) bsize = true ->
  In e (blist (rbk_add s (bk i) bsize e) i).
Proof.
  intros Hwf He Hfree.
  rewrite (L_add_list s i e Hwf He Hfree).
  destruct (index_of bytes_eqb (blist s i) [] 0) as [p|] eqn:Ep; [|left; reflexivity].
  apply in_setnth_same. pose proof (L_index_of_lt (blist s i) [] 0%nat p Ep). lia.
Qed.

Lemma add_keeps s i (e x : bytes) : bwf s i -> e <> [] -> rbk_is_free s (bk i) bsize = true ->
  x <> [] -> In x (blist s i) -> In x (blist (rbk_add s (bk i) bsize e) i).
Proof.
  intros Hwf He Hfree Hx Hin.
  rewrite (L_add_list s i e Hwf He Hfree).
  destruct (index_of bytes_eqb (blist s i) [] 0) as [p|] eqn:Ep; [|right; exact Hin].
  pose proof (index_of_spec (blist s i) [] 0 p Ep) as [_ Hnth]. rewrite Nat.sub_0_r in Hnth.
  eapply in_setnth_other; eauto.
Qed.

(* ---------- one client ---------- *)
Record client := mkClient { cl_fp : bytes; cl_i1 : N; cl_i2 : N }.
Inductive phase := PCheck | PAdd | PIncr | PDone.

Definition incr_prog : prog := Step L_HINCRBY (fun s2 => (hincr s2 hd 1%Z, Done 1)).
Definition add_prog (c : client) : prog :=
  Step L_EVAL (fun s => (rbk_add s (bk (cl_i1 c)) bsize (cl_fp c), incr_prog)).
Definition check_prog (c : client) : prog :=
  Step L_EVAL (fun s =>
    if rbk_is_free s (bk (cl_i1 c)) bsize then (s, add_prog c)
    else (s, Step L_EVAL (fun s1 =>
            if rbk_is_free s1 (bk (cl_i2 c)) bsize
            then (s1, Step L_EVAL (fun s => (rbk_add s (bk (cl_i2 c)) bsize (cl_fp c), incr_prog)))
            else (s1, Done 0)))).
Definition prog_of (c : client) (p : phase) : prog :=
  match p with PCheck => check_prog c | PAdd => add_prog c | PIncr => incr_prog | PDone => Done 1 end.

(* the program of the Interleave model is check_prog *)
Lemma insert_prog_is_check x fp i1 i2 : rck_positions h64 hd x = Ok (fp, i1, i2) ->
  ck_insert_prog h64 hd x = check_prog (mkClient fp i1 i2).
Proof. intros H. unfold ck_insert_prog. rewrite H. reflexivity. Qed.

Definition pending (p : phase) : nat := match p with PCheck | PAdd => 1 | _ => 0 end.
Definition finished (p : phase) : Z := match p with PDone => 1 | _ => 0 end.
Definition stored (p : phase) : bool := match p with PIncr | PDone => true | _ => false end.

Section Pair.
Variable c0 : Z.
Variable t0 : nat.

(* what holds between any two steps *)
Definition Inv (s : store) (a : client) (pa : phase) (b : client) (pb : phase) : Prop :=
  buckets_ok s /\
  mlen s = Some (c0 + finished pa + finished pb)%Z /\
  (tot s + pending pa + pending pb = t0 + 2)%nat /\
  (occ (blist s (cl_i1 a)) + pending pa + pending pb <= N.to_nat bsize)%nat /\
  (occ (blist s (cl_i1 b)) + pending pa + pending pb <= N.to_nat bsize)%nat /\
  (stored pa = true -> In (cl_fp a) (blist s (cl_i1 a))) /\
  (stored pb = true -> In (cl_fp b) (blist s (cl_i1 b))).

Definition client_ok (c : client) : Prop := cl_i1 c < size /\ cl_fp c <> [].

Lemma Inv_sym s a pa b pb : Inv s a pa b pb -> Inv s b pb a pa.
Proof.
  intros (H1 & H2 & H3 & H4 & H5 & H6 & H7). unfold Inv.
  split; [exact H1|]. split; [rewrite H2; f_equal; lia|]. split; [lia|]. split; [lia|]. split; [lia|].
  split; assumption.
Qed.

(* one step of client a *)
Definition next (p : phase) : phase := match p with PCheck => PAdd | PAdd => PIncr | _ => PDone end.

Lemma step_a s a pa b pb : client_ok a -> client_ok b -> Inv s a pa b pb -> pa <> PDone ->
  exists l g s', prog_of a pa = Step l g /\ g s = (s', prog_of a (next pa)) /\ Inv s' a (next pa) b pb.
Proof.
  intros [Hia Hfa] [Hib Hfb] (Hok & Hm & Ht & Hoa & Hob & Hsa & Hsb) Hnd.
  destruct pa; [| | |contradiction]; cbn [prog_of next].
  - (* isFree: the first bucket has room *)
    eexists _, _, s. split; [reflexivity|]. split.
    + assert (Hfree : rbk_is_free s (bk (cl_i1 a)) bsize = true).
      { apply (L_free_iff s (cl_i1 a) (Hok _ Hia)). cbn [pending] in Hoa. lia. }
      rewrite Hfree. reflexivity.
    + unfold Inv. cbn [pending finished stored] in *.
      split; [exact Hok|]. split; [exact Hm|]. split; [exact Ht|]. split; [exact Hoa|]. split; [exact Hob|].
      split; [intros; discriminate|exact Hsb].
  - (* add *)
    assert (Hfree : rbk_is_free s (bk (cl_i1 a)) bsize = true).
    { apply (L_free_iff s (cl_i1 a) (Hok _ Hia)). cbn [pending] in Hoa. lia. }
    destruct (L_add_view s (cl_i1 a) (cl_fp a) (Hok _ Hia) Hfa Hfree)
      as (Hwf' & Ho' & Hob').
    set (s1 := rbk_add s (bk (cl_i1 a)) bsize (cl_fp a)) in *.
    eexists _, _, s1. split; [reflexivity|]. split; [reflexivity|].
    pose proof (L_tot_only_bucket (cl_i1 a) s s1 Hia Hob') as Htot.
    assert (Hm1 : mlen s1 = mlen s) by (destruct Hob' as (_ & ->); reflexivity).
    unfold Inv. cbn [pending finished stored] in *. split; [|split; [|split; [|split; [|split; [|split]]]]].
    + eapply (buckets_ok_step key meta size bsize (cl_i1 a) s s1); eauto.
    + rewrite Hm1. exact Hm.
    + lia.
    + lia.
    + destruct (N.eq_dec (cl_i1 b) (cl_i1 a)) as [E|Hne].
      * rewrite E. lia.
      * destruct Hob' as (Hsame & _). destruct (Hsame _ Hne) as [-> _]. lia.
    + intros _. apply add_stores; [apply Hok; exact Hia|exact Hfa|exact Hfree].
    + intros Hst. specialize (Hsb Hst). destruct (N.eq_dec (cl_i1 b) (cl_i1 a)) as [E|Hne].
      * rewrite E in *. apply add_keeps; [apply Hok; exact Hia|exact Hfa|exact Hfree|exact Hfb|exact Hsb].
      * destruct Hob' as (Hsame & _). destruct (Hsame _ Hne) as [-> _]. exact Hsb.
  - (* HINCRBY *)
    destruct (L_hincr_view s 1%Z _ Hm) as (Hm' & Hviews).
    eexists _, _, (hincr s hd 1%Z). split; [reflexivity|]. split; [reflexivity|].
    assert (Hl : forall j, blist (hincr s hd 1) j = blist s j) by (intros j; apply Hviews).
    assert (Hc : forall j, bcount (hincr s hd 1) j = bcount s j) by (intros j; apply Hviews).
    assert (Ht' : tot (hincr s hd 1) = tot s).
    { unfold RedisCuckooInv.tot. f_equal. apply map_ext. intros j. rewrite Hl. reflexivity. }
    unfold Inv. cbn [pending finished stored] in *. rewrite !Hl, Ht'.
    split; [|split; [|repeat split; try assumption; try lia]].
    + intros j Hj. unfold RedisCuckooInv.bwf. rewrite Hl, Hc. apply (Hok j Hj).
    + rewrite Hm'. f_equal. lia.
Qed.

Definition rank (p : phase) : nat := match p with PCheck => 3 | PAdd => 2 | PIncr => 1 | PDone => 0 end.

(* a client running alone to its end *)
Lemma run_alone fuel s a pa b pb : client_ok a -> client_ok b -> Inv s a pa b pb -> (4 <= fuel)%nat ->
  exists s' tr, run_prog fuel (prog_of a pa) s = (s', Some 1, tr) /\ Inv s' a PDone b pb.
Proof.
  intros Ha Hb HI Hf.
  assert (Hgen : forall n pa s, Inv s a pa b pb -> (rank pa <= n)%nat ->
            forall fuel, (n < fuel)%nat -> exists s' tr, run_prog fuel (prog_of a pa) s = (s', Some 1, tr) /\ Inv s' a PDone b pb).
  { induction n as [|n IH]; intros p st HIp Hn fu Hfu.
    - destruct p; cbn [rank] in Hn; try lia. destruct fu; [lia|]. cbn [run_prog prog_of]. eauto.
    - destruct p.
      + destruct (step_a st a PCheck b pb Ha Hb HIp ltac:(discriminate)) as (l & g & s1 & Ep & Eg & HI1).
        destruct fu; [lia|]. cbn [run_prog]. rewrite Ep, Eg.
        destruct (IH (next PCheck) s1 HI1 ltac:(cbn [rank next] in *; lia) fu ltac:(lia)) as (s2 & tr & Er & HI2).
        rewrite Er. eauto.
      + destruct (step_a st a PAdd b pb Ha Hb HIp ltac:(discriminate)) as (l & g & s1 & Ep & Eg & HI1).
        destruct fu; [lia|]. cbn [run_prog]. rewrite Ep, Eg.
        destruct (IH (next PAdd) s1 HI1 ltac:(cbn [rank next] in *; lia) fu ltac:(lia)) as (s2 & tr & Er & HI2).
        rewrite Er. eauto.
      + destruct (step_a st a PIncr b pb Ha Hb HIp ltac:(discriminate)) as (l & g & s1 & Ep & Eg & HI1).
        destruct fu; [lia|]. cbn [run_prog]. rewrite Ep, Eg.
        destruct (IH (next PIncr) s1 HI1 ltac:(cbn [rank next] in *; lia) fu ltac:(lia)) as (s2 & tr & Er & HI2).
        rewrite Er. eauto.
      + destruct fu; [lia|]. cbn [run_prog prog_of]. eauto. }
  apply (Hgen 3%nat pa s HI); [destruct pa; cbn [rank]; lia|lia].
Qed.

(* every schedule *)
Theorem interleave_inv sched : forall fuel s a pa b pb, client_ok a -> client_ok b ->
  Inv s a pa b pb -> (4 <= fuel)%nat ->
  exists s', interleave sched fuel (prog_of a pa) (prog_of b pb) s = (s', Some 1, Some 1) /\ Inv s' a PDone b PDone.
Proof.
  induction sched as [|turn t IH]; intros fuel s a pa b pb Ha Hb HI Hf.
  - cbn [interleave].
    destruct (run_alone fuel s a pa b pb Ha Hb HI Hf) as (s1 & tr1 & E1 & HI1). rewrite E1.
    destruct (run_alone fuel s1 b pb a PDone Hb Ha (Inv_sym _ _ _ _ _ HI1) Hf) as (s2 & tr2 & E2 & HI2). rewrite E2.
    exists s2. split; [reflexivity|]. apply Inv_sym. exact HI2.
  - destruct turn; cbn [interleave].
    + destruct pa.
      * destruct (step_a s a PCheck b pb Ha Hb HI ltac:(discriminate)) as (l & g & s1 & Ep & Eg & HI1).
        rewrite Ep, Eg. apply (IH fuel s1 a (next PCheck) b pb Ha Hb HI1 Hf).
      * destruct (step_a s a PAdd b pb Ha Hb HI ltac:(discriminate)) as (l & g & s1 & Ep & Eg & HI1).
        rewrite Ep, Eg. apply (IH fuel s1 a (next PAdd) b pb Ha Hb HI1 Hf).
      * destruct (step_a s a PIncr b pb Ha Hb HI ltac:(discriminate)) as (l & g & s1 & Ep & Eg & HI1).
        rewrite Ep, Eg. apply (IH fuel s1 a (next PIncr) b pb Ha Hb HI1 Hf).
      * cbn [prog_of]. apply (IH fuel s a PDone b pb Ha Hb HI Hf).
    + destruct pb.
      * destruct (step_a s b PCheck a pa Hb Ha (Inv_sym _ _ _ _ _ HI) ltac:(discriminate)) as (l & g & s1 & Ep & Eg & HI1).
        rewrite Ep, Eg. apply (IH fuel s1 a pa b (next PCheck) Ha Hb (Inv_sym _ _ _ _ _ HI1) Hf).
      * destruct (step_a s b PAdd a pa Hb Ha (Inv_sym _ _ _ _ _ HI) ltac:(discriminate)) as (l & g & s1 & Ep & Eg & HI1).
        rewrite Ep, Eg. apply (IH fuel s1 a pa b (next PAdd) Ha Hb (Inv_sym _ _ _ _ _ HI1) Hf).
      * destruct (step_a s b PIncr a pa Hb Ha (Inv_sym _ _ _ _ _ HI) ltac:(discriminate)) as (l & g & s1 & Ep & Eg & HI1).
        rewrite Ep, Eg. apply (IH fuel s1 a pa b (next PIncr) Ha Hb (Inv_sym _ _ _ _ _ HI1) Hf).
      * cbn [prog_of]. apply (IH fuel s a pa b PDone Ha Hb HI Hf).
Qed.
End Pair.

(* packaged: two concurrent inserts into a consistent filter whose first candidate buckets have room
   for both *)
Theorem concurrent_inserts_with_room sched fuel s x y fa ia ia2 fb ib ib2 :
  RI key meta size bsize s -> (4 <= fuel)%nat ->
  rck_positions h64 hd x = Ok (fa, ia, ia2) -> rck_positions h64 hd y = Ok (fb, ib, ib2) ->
  ia < size -> ib < size -> fa <> [] -> fb <> [] ->
  (occ (blist s ia) + 2 <= N.to_nat bsize)%nat -> (occ (blist s ib) + 2 <= N.to_nat bsize)%nat ->
  exists s', interleave sched fuel (ck_insert_prog h64 hd x) (ck_insert_prog h64 hd y) s = (s', Some 1, Some 1) /\
    RI key meta size bsize s' /\ tot s' = (tot s + 2)%nat /\
    In fa (blist s' ia) /\ In fb (blist s' ib).
Proof.
  intros [Hok Hm] Hf Hx Hy Hia Hib Hfa Hfb Hoa Hob.
  rewrite (insert_prog_is_check x fa ia ia2 Hx), (insert_prog_is_check y fb ib ib2 Hy).
  set (a := mkClient fa ia ia2). set (b := mkClient fb ib ib2).
  assert (HI : Inv (Z.of_nat (tot s)) (tot s) s a PCheck b PCheck).
  { unfold Inv. cbn [pending finished stored cl_i1 a b].
    split; [exact Hok|]. split; [rewrite Hm; f_equal; lia|]. split; [lia|]. split; [lia|]. split; [lia|].
    split; intros; discriminate. }
  destruct (interleave_inv (Z.of_nat (tot s)) (tot s) sched fuel s a PCheck b PCheck ltac:(split; assumption) ltac:(split; assumption) HI Hf)
    as (s' & Ei & (Hok' & Hm' & Ht' & _ & _ & Hsa & Hsb)).
  exists s'. split; [exact Ei|]. cbn [pending finished stored cl_i1 cl_fp a b] in *.
  split; [split; [exact Hok'|rewrite Hm'; f_equal; lia]|]. split; [lia|]. split; [apply Hsa|apply Hsb]; reflexivity.
Qed.
End Conc.
