(* RedisCMSRefine.v — the Redis-backed Count-Min sketch REFINES the in-memory one (C08, and
   through it C03 and C12 for the Redis variant): if every row list of the store holds the decimal
   strings of the corresponding matrix row, then Update (the LINDEX / tonumber / LSET script)
   leads to the store that represents the updated matrix, and Count (the minimum script)
   returns exactly the in-memory estimate - as long as the counters stay below 2^53, where Lua's
   double arithmetic is exact. *)
From GX.Model Require Import Base CMS Redis RedisCMS.
From GX.Proofs Require Import ListLemmas RedisProofs CMSProofs.
From Coq Require Import ZArith Lia ZifyN ZifyNat ZifyBool.
Open Scope N_scope.

Definition B53 : N := 2 ^ 53.

Lemma round53_exact x : x < B53 -> round53 x = x.
Proof.
  unfold B53. intros Hx. unfold round53.
  assert (N.size x <= 53).
  { destruct x as [|p]; [cbn; lia|]. rewrite N.size_log2 by discriminate.
    assert (N.log2 (N.pos p) < 53) by (apply N.log2_lt_pow2; lia). lia. }
  destruct (N.leb_spec (N.size x) 53); [reflexivity|lia].
Qed.

Lemma lua_tonum_dec n : n < B53 -> lua_tonum (dec n) = Some n.
Proof. intros H. unfold lua_tonum. rewrite undec_dec. simpl. rewrite round53_exact by exact H. reflexivity. Qed.

Lemma row_key_neq key r r' : r <> r' -> row_key key r <> row_key key r'.
Proof.
  intros Hne E. destruct (row_key_injective key key r r' eq_refl E) as [_ Hr]. exact (Hne Hr).
Qed.

Lemma nthN_map {A B} (f : A -> B) l i : nthN (map f l) i = option_map f (nthN l i).
Proof.
  unfold nthN. rewrite map_length. destruct (i <? N.of_nat (length l)); [|reflexivity].
  rewrite nth_error_map. reflexivity.
Qed.

Lemma setnth_map {A B} (f : A -> B) l i v : setnth (map f l) i (f v) = map f (setnth l i v).
Proof.
  unfold setnth. revert i. induction l as [|a l IH]; intros [|i]; simpl; auto. f_equal. apply IH.
Qed.

Lemma nthN_nth l i (d : N) : i < N.of_nat (length l) -> nthN l i = Some (nth (N.to_nat i) l d).
Proof.
  intros H. unfold nthN. replace (i <? N.of_nat (length l)) with true by lia.
  apply nth_error_nth'. lia.
Qed.

Section Refine.
Variable cpos : N -> N -> bytes -> list N.
Variable rows cols : N.
Hypothesis cpos_len : forall x, length (cpos rows cols x) = N.to_nat rows.
Hypothesis cpos_lt : forall x p, In p (cpos rows cols x) -> p < cols.
Hypothesis cols_pos : 0 < cols.

Notation pos := (pos cpos rows cols).

(* the store, seen through handle h, represents the row contents L *)
Definition rows_are (s : store) (key : bytes) (L : N -> list N) : Prop :=
  forall r, r < rows -> r_list s (row_key key r) = map dec (L r).

(* one LINDEX / tonumber / LSET step of the update script *)
Lemma upd_one s key L r c count :
  rows_are s key L -> r < rows -> c < N.of_nat (length (L r)) ->
  nth (N.to_nat c) (L r) 0 + count < B53 -> count < B53 ->
  exists s1, r_lset s (row_key key r) c (dec (round53 (nth (N.to_nat c) (L r) 0 + count))) = Some s1 /\
    r_lindex s (row_key key r) c = Some (dec (nth (N.to_nat c) (L r) 0)) /\
    rows_are s1 key (fun r' => if r' =? r then setnth (L r) (N.to_nat c) (nth (N.to_nat c) (L r) 0 + count) else L r').
Proof.
  intros HR Hr Hc Hsum Hcount.
  set (v := nth (N.to_nat c) (L r) 0) in *.
  assert (Hlist : r_list s (row_key key r) = map dec (L r)) by (apply HR; exact Hr).
  unfold r_lset. rewrite Hlist, map_length.
  replace (c <? N.of_nat (length (L r))) with true by lia.
  eexists. split; [reflexivity|]. split.
  - unfold r_lindex. rewrite Hlist, nthN_map, (nthN_nth (L r) c 0 Hc). reflexivity.
  - intros r' Hr'. unfold r_list at 1. rewrite round53_exact by exact Hsum.
    destruct (r' =? r) eqn:E.
    + apply N.eqb_eq in E. subst r'. unfold r_putlist.
      rewrite setnth_map.
      destruct (map dec (setnth (L r) (N.to_nat c) (v + count))) eqn:Em.
      * exfalso. apply (f_equal (@length _)) in Em. rewrite map_length in Em. unfold setnth in Em.
        rewrite upd_length in Em. simpl in Em. lia.
      * rewrite sget_sset_same. reflexivity.
    + apply N.eqb_neq in E.
      assert (Hk : row_key key r' <> row_key key r) by (apply row_key_neq; exact E).
      pose proof (r_putlist_frame s (row_key key r) (setnth (map dec (L r)) (N.to_nat c) (dec (v + count)))) as Hf.
      rewrite (Hf _ Hk). fold (r_list s (row_key key r')). apply HR. exact Hr'.
Qed.

(* the whole script, for any list of (row, column) pairs with pairwise different rows *)
Fixpoint apply_rcs (L : N -> list N) (rcs : list (N * N)) (count : N) : N -> list N :=
  match rcs with
  | [] => L
  | (r, c) :: t =>
      apply_rcs (fun r' => if r' =? r then setnth (L r) (N.to_nat c) (nth (N.to_nat c) (L r) 0 + count) else L r') t count
  end.

Lemma upd_cells_refines count rcs : forall s key L,
  rows_are s key L -> NoDup (map fst rcs) ->
  (forall r c, In (r, c) rcs ->
     r < rows /\ c < N.of_nat (length (L r)) /\ nth (N.to_nat c) (L r) 0 + count < B53) ->
  count < B53 ->
  exists s', upd_cells s key rcs count = Some s' /\ rows_are s' key (apply_rcs L rcs count).
Proof.
  induction rcs as [|[r c] t IH]; intros s key L HR Hnd Hin Hcount; cbn [upd_cells apply_rcs].
  - exists s. auto.
  - destruct (Hin r c (or_introl eq_refl)) as (Hr & Hc & Hsum).
    destruct (upd_one s key L r c count HR Hr Hc Hsum Hcount) as (s1 & Hset & Hidx & HR1).
    rewrite Hidx. rewrite (lua_tonum_dec (nth (N.to_nat c) (L r) 0)) by lia. rewrite Hset.
    cbn [map fst] in Hnd. apply NoDup_cons_iff in Hnd. destruct Hnd as [Hnot Hnd].
    apply IH; auto.
    intros r' c' Hin'. destruct (Hin r' c' (or_intror Hin')) as (Hr' & Hc' & Hs').
    assert (E : (r' =? r) = false).
    { apply N.eqb_neq. intros ->. apply Hnot. apply in_map_iff. exists (r, c'). auto. }
    rewrite E. auto.
Qed.

(* rows not mentioned keep their content; a mentioned row has exactly its cell raised *)
Lemma apply_rcs_spec count rcs : forall L r, NoDup (map fst rcs) ->
  apply_rcs L rcs count r =
    match find (fun p => fst p =? r) rcs with
    | Some (_, c) => setnth (L r) (N.to_nat c) (nth (N.to_nat c) (L r) 0 + count)
    | None => L r
    end.
Proof.
  induction rcs as [|[r0 c0] t IH]; intros L r Hnd; cbn [apply_rcs find fst]; [reflexivity|].
  cbn [map fst] in Hnd. apply NoDup_cons_iff in Hnd. destruct Hnd as [Hnot Hnd].
  rewrite IH by exact Hnd. destruct (r0 =? r) eqn:E.
  - apply N.eqb_eq in E. subst r0.
    assert (Hf : find (fun p : N * N => fst p =? r) t = None).
    { destruct (find (fun p : N * N => fst p =? r) t) as [[r1 c1]|] eqn:Ef; [|reflexivity].
      apply find_some in Ef. destruct Ef as [Hi He]. cbn [fst] in He. apply N.eqb_eq in He. subst r1.
      exfalso. apply Hnot. apply in_map_iff. exists (r, c1). auto. }
    rewrite Hf, N.eqb_refl. reflexivity.
  - rewrite N.eqb_sym, E.
    destruct (find (fun p : N * N => fst p =? r) t) as [[r1 c1]|]; reflexivity.
Qed.

Lemma apply_rcs_notin count rcs : forall L r, ~ In r (map fst rcs) -> apply_rcs L rcs count r = L r.
Proof.
  induction rcs as [|[r0 c0] t IH]; intros L r Hn; cbn [apply_rcs]; [reflexivity|].
  cbn [map fst] in Hn. rewrite IH by (intros H; apply Hn; right; exact H).
  replace (r =? r0) with false; [reflexivity|]. symmetry. apply N.eqb_neq. intros ->. apply Hn. left. reflexivity.
Qed.

Lemma apply_rcs_in count rcs : forall L r c, NoDup (map fst rcs) -> In (r, c) rcs ->
  apply_rcs L rcs count r = setnth (L r) (N.to_nat c) (nth (N.to_nat c) (L r) 0 + count).
Proof.
  induction rcs as [|[r0 c0] t IH]; intros L r c Hnd Hin; [destruct Hin|]. cbn [apply_rcs].
  cbn [map fst] in Hnd. apply NoDup_cons_iff in Hnd. destruct Hnd as [Hnot Hnd].
  destruct Hin as [E|Hin].
  - injection E as -> ->. rewrite apply_rcs_notin by exact Hnot. rewrite N.eqb_refl. reflexivity.
  - assert (Hne : r <> r0) by (intros ->; apply Hnot; apply in_map_iff; exists (r0, c); auto).
    rewrite (IH _ r c Hnd Hin). replace (r =? r0) with false by (symmetry; apply N.eqb_neq; exact Hne). reflexivity.
Qed.

(* (row, column) pairs of one element: rows 0..rows-1, pairwise different *)
Lemma nseq_nodup n : NoDup (nseq n).
Proof.
  unfold nseq. apply FinFun.Injective_map_NoDup; [|apply seq_NoDup].
  intros a b H. apply Nat2N.inj. exact H.
Qed.

Lemma map_fst_combine {A B} (a : list A) (b : list B) : length a = length b -> map fst (combine a b) = a.
Proof. revert b. induction a as [|x a IH]; intros [|y b] H; simpl in *; try lia; auto. f_equal. apply IH. lia. Qed.

Lemma in_combine_nseq n (P : list N) r c : length P = N.to_nat n ->
  In (r, c) (combine (nseq n) P) -> r < n /\ c = nth (N.to_nat r) P 0.
Proof.
  intros Hl Hin. apply (In_nth _ _ (0, 0)) in Hin. destruct Hin as (k & Hk & Hn).
  rewrite combine_length, nseq_length, Hl, Nat.min_id in Hk.
  rewrite combine_nth in Hn by (rewrite nseq_length; lia). injection Hn as Hr Hc.
  rewrite nth_nseq in Hr by exact Hk. subst r. rewrite Nat2N.id. split; [lia|congruence].
Qed.

Lemma combine_nseq_in n (P : list N) r : length P = N.to_nat n -> r < n ->
  In (r, nth (N.to_nat r) P 0) (combine (nseq n) P).
Proof.
  intros Hl Hr.
  assert (Hn : nth (N.to_nat r) (combine (nseq n) P) (0, 0) = (r, nth (N.to_nat r) P 0)).
  { rewrite combine_nth by (rewrite nseq_length; lia). rewrite nth_nseq by lia. rewrite N2Nat.id. reflexivity. }
  rewrite <- Hn. apply nth_In. rewrite combine_length, nseq_length, Hl, Nat.min_id. lia.
Qed.

Lemma upd_as_setnth (l : list N) i f : (i < length l)%nat -> upd l i f = setnth l i (f (nth i l 0)).
Proof.
  unfold setnth. revert i. induction l as [|a l IH]; intros [|i] H; simpl in *; try lia; auto.
  f_equal. apply IH. lia.
Qed.

(* ---------- the refinement ---------- *)
Definition Lm (m : cms) : N -> list N := fun r => nth (N.to_nat r) (c_matrix m) [].

Definition refines (s : store) (h : rcms) (m : cms) : Prop :=
  rc_rows h = rows /\ rc_cols h = cols /\ shape rows cols m /\ rows_are s (rc_key h) (Lm m).

Definition cells_below (m : cms) (bound : N) : Prop :=
  forall r j, r < rows -> j < cols -> cell m r j < bound.

Lemma positions_rc_eq h x : rc_rows h = rows -> rc_cols h = cols ->
  positions_rc cpos h x = combine (nseq rows) (cpos rows cols x).
Proof. intros Hr Hc. unfold positions_rc. rewrite Hr, Hc, cpos_len, N2Nat.id. reflexivity. Qed.

Theorem update_refines s h m x count :
  refines s h m -> count < B53 -> cells_below m (B53 - count) ->
  exists s', rcms_update cpos s h x count =
               (Ok (mkRcms (rc_rows h) (rc_cols h) (wrap64 (rc_allsum h + count)) (rc_key h) (rc_meta h)), s') /\
             refines s' (mkRcms (rc_rows h) (rc_cols h) (wrap64 (rc_allsum h + count)) (rc_key h) (rc_meta h))
                     (cms_update cpos m x count).
Proof.
  intros (Hr & Hc & Hs & HR) Hcount Hbelow.
  pose proof Hs as (_ & _ & Hlen & Hrow).
  unfold rcms_update. rewrite (positions_rc_eq h x Hr Hc), (round53_exact count Hcount).
  set (rcs := combine (nseq rows) (cpos rows cols x)).
  assert (Hnd : NoDup (map fst rcs)).
  { unfold rcs. rewrite map_fst_combine by (rewrite nseq_length, cpos_len; reflexivity). apply nseq_nodup. }
  assert (HLlen : forall r, r < rows -> length (Lm m r) = N.to_nat cols) by (intros r Hrr; apply Hrow; lia).
  assert (Hin : forall r c, In (r, c) rcs ->
            r < rows /\ c < N.of_nat (length (Lm m r)) /\ nth (N.to_nat c) (Lm m r) 0 + count < B53).
  { intros r c Hi. destruct (in_combine_nseq rows _ r c (cpos_len x) Hi) as [Hrr ->].
    assert (Hp : pos x r < cols) by (apply (pos_lt cpos rows cols cpos_len cpos_lt); exact Hrr).
    split; [exact Hrr|]. split; [rewrite HLlen by exact Hrr; unfold pos in Hp; lia|].
    pose proof (Hbelow r (pos x r) Hrr Hp) as Hb. unfold cell, pos in *. unfold Lm. lia. }
  destruct (upd_cells_refines count rcs s (rc_key h) (Lm m) HR Hnd Hin Hcount) as (s' & -> & HR').
  exists s'. split; [reflexivity|].
  split; [exact Hr|]. split; [exact Hc|]. split; [apply (update_shape cpos rows cols cpos_len cpos_lt); exact Hs|].
  intros r Hrr. cbn [rc_key]. rewrite (HR' r Hrr). f_equal.
  rewrite (apply_rcs_in count rcs (Lm m) r (nth (N.to_nat r) (cpos rows cols x) 0) Hnd
             (combine_nseq_in rows _ r (cpos_len x) Hrr)).
  unfold Lm at 3. rewrite (update_row cpos rows cols cpos_len cpos_lt m x count r Hs Hrr).
  fold (pos x r). fold (Lm m r).
  assert (Hp : pos x r < cols) by (apply (pos_lt cpos rows cols cpos_len cpos_lt); exact Hrr).
  rewrite upd_as_setnth by (rewrite HLlen by exact Hrr; lia).
  f_equal. symmetry. apply wrap64_small.
  pose proof (Hbelow r (pos x r) Hrr Hp) as Hb. unfold cell in Hb. unfold Lm. unfold B53, two64 in *. lia.
Qed.

(* ---------- Count ---------- *)
Lemma count_cells_tail s key L t : forall mn,
  rows_are s key L ->
  (forall r c, In (r, c) t -> r <> 0 /\ r < rows /\ c < N.of_nat (length (L r)) /\ nth (N.to_nat c) (L r) 0 < B53) ->
  count_cells s key t mn = Some (fold_left N.min (map (fun rc => nth (N.to_nat (snd rc)) (L (fst rc)) 0) t) mn).
Proof.
  induction t as [|[r c] t IH]; intros mn HR Hin; cbn [count_cells map fold_left fst snd]; [reflexivity|].
  destruct (Hin r c (or_introl eq_refl)) as (Hr0 & Hr & Hc & Hv).
  unfold r_lindex. rewrite (HR r Hr), nthN_map, (nthN_nth (L r) c 0 Hc). cbn [option_map].
  rewrite (lua_tonum_dec _ Hv).
  replace (r =? 0) with false by (symmetry; apply N.eqb_neq; exact Hr0). rewrite orb_false_r.
  rewrite IH; [|exact HR|intros r' c' H'; apply Hin; right; exact H'].
  f_equal. f_equal. destruct (N.ltb_spec (nth (N.to_nat c) (L r) 0) mn); lia.
Qed.

Lemma cells_as_vals m x : shape rows cols m ->
  cms_cells cpos m x =
  map (fun rc => nth (N.to_nat (snd rc)) (Lm m (fst rc)) 0) (combine (nseq rows) (cpos rows cols x)).
Proof.
  intros Hs. pose proof Hs as (Hr & Hc & Hlen & Hrow). unfold cms_cells, cms_positions. rewrite Hr, Hc.
  apply (nth_ext _ _ 0 0).
  - rewrite !map_length, !combine_length, nseq_length, cpos_len, Hlen. reflexivity.
  - intros k Hk. rewrite map_length, combine_length, cpos_len, Hlen, Nat.min_id in Hk.
    set (f := fun rp : list N * N => nth (N.to_nat (snd rp)) (fst rp) 0).
    set (g := fun rc : N * N => nth (N.to_nat (snd rc)) (Lm m (fst rc)) 0).
    rewrite (nth_indep (map f _) 0 (f ([], 0)))
      by (rewrite map_length, combine_length, cpos_len, Hlen, Nat.min_id; exact Hk).
    rewrite (nth_indep (map g _) 0 (g (0, 0)))
      by (rewrite map_length, combine_length, nseq_length, cpos_len, Nat.min_id; exact Hk).
    rewrite !map_nth.
    rewrite !combine_nth by (rewrite ?nseq_length, ?cpos_len, ?Hlen; lia).
    unfold f, g, Lm. cbn [fst snd]. rewrite nth_nseq by exact Hk. rewrite Nat2N.id. reflexivity.
Qed.

Theorem count_refines s h m x :
  refines s h m -> 0 < rows -> cells_below m B53 ->
  rcms_count cpos s h x = Ok (cms_count cpos m x).
Proof.
  intros (Hr & Hc & Hs & HR) Hrows Hbelow.
  pose proof Hs as (_ & _ & Hlen & Hrow).
  unfold rcms_count. rewrite (positions_rc_eq h x Hr Hc).
  unfold cms_count. rewrite (cells_as_vals m x Hs).
  set (rcs := combine (nseq rows) (cpos rows cols x)).
  assert (Hnd : NoDup (map fst rcs)).
  { unfold rcs. rewrite map_fst_combine by (rewrite nseq_length, cpos_len; reflexivity). apply nseq_nodup. }
  assert (HLlen : forall r, r < rows -> length (Lm m r) = N.to_nat cols) by (intros r Hrr; apply Hrow; lia).
  assert (Hin : forall r c, In (r, c) rcs ->
            r < rows /\ c < N.of_nat (length (Lm m r)) /\ nth (N.to_nat c) (Lm m r) 0 < B53).
  { intros r c Hi. destruct (in_combine_nseq rows _ r c (cpos_len x) Hi) as [Hrr ->].
    assert (Hp : pos x r < cols) by (apply (pos_lt cpos rows cols cpos_len cpos_lt); exact Hrr).
    split; [exact Hrr|]. split; [rewrite HLlen by exact Hrr; unfold pos in Hp; lia|].
    pose proof (Hbelow r (pos x r) Hrr Hp) as Hb. unfold cell, pos in *. unfold Lm. exact Hb. }
  (* the first pair is row 0 *)
  assert (Hhead : exists c0 t, rcs = (0, c0) :: t).
  { unfold rcs. pose proof (cpos_len x) as Hl.
    destruct (cpos rows cols x) as [|c0 P] eqn:EP; [simpl in Hl; lia|].
    unfold nseq. destruct (N.to_nat rows) as [|n] eqn:En; [lia|]. simpl. eauto. }
  destruct Hhead as (c0 & t & Ercs). rewrite Ercs in *.
  cbn [map fst] in Hnd. apply NoDup_cons_iff in Hnd. destruct Hnd as [Hnot Hnd].
  destruct (Hin 0 c0 (or_introl eq_refl)) as (H0r & H0c & H0v).
  cbn [count_cells map fst snd min_list].
  unfold r_lindex. rewrite (HR 0 H0r), nthN_map, (nthN_nth (Lm m 0) c0 0 H0c). cbn [option_map].
  rewrite (lua_tonum_dec _ H0v). rewrite N.eqb_refl, orb_true_r.
  rewrite (count_cells_tail s (rc_key h) (Lm m) t _ HR).
  - reflexivity.
  - intros r c Hi. destruct (Hin r c (or_intror Hi)) as (A & B & C).
    split; [|auto]. intros ->. apply Hnot. apply in_map_iff. exists (0, c). auto.
Qed.

Lemma nth_repeat_lt {A} (x d : A) m n : (n < m)%nat -> nth n (repeat x m) d = x.
Proof. intros H. rewrite (nth_indep _ d x) by (rewrite repeat_length; exact H). apply nth_repeat. Qed.
Lemma map_repeat {A B} (f : A -> B) x n : map f (repeat x n) = repeat (f x) n.
Proof. induction n; simpl; congruence. Qed.

Lemma rev_repeat_same {A} (x : A) n : rev (repeat x n) = repeat x n.
Proof. induction n as [|n IHn]; [reflexivity|]. simpl. rewrite IHn. symmetry. apply repeat_cons. Qed.

(* ---------- the constructor ---------- *)
Definition init_step (key : bytes) (st : store) (r : N) : store :=
  r_lpush (sdel st (row_key key r)) (row_key key r) (repeat [48] (N.to_nat cols)).

Lemma init_fold_frame key l : forall s k, (forall r, In r l -> row_key key r <> k) ->
  sget (fold_left (init_step key) l s) k = sget s k.
Proof.
  induction l as [|a t IH]; intros s k Hne; cbn [fold_left]; [reflexivity|].
  rewrite IH by (intros r Hr; apply Hne; right; exact Hr). unfold init_step.
  assert (Ha : k <> row_key key a) by (intros ->; apply (Hne a (or_introl eq_refl)); reflexivity).
  rewrite r_lpush_frame by exact Ha. apply sdel_frame. exact Ha.
Qed.

Lemma init_fold_rows key l : NoDup l -> forall s r, In r l ->
  r_list (fold_left (init_step key) l s) (row_key key r) = repeat [48] (N.to_nat cols).
Proof.
  induction 1 as [|a t Hnot Hnd IH]; intros s r Hin; [destruct Hin|]. cbn [fold_left].
  destruct Hin as [->|Hin]; [|apply IH; exact Hin].
  unfold r_list. rewrite init_fold_frame by (intros r' Hr' E; apply row_key_injective in E; [destruct E as [_ E]; subst r'; contradiction|reflexivity]).
  unfold init_step, r_lpush. fold (r_list (sdel s (row_key key r)) (row_key key r)).
  assert (Hempty : r_list (sdel s (row_key key r)) (row_key key r) = []) by (unfold r_list; rewrite sget_sdel_same; reflexivity).
  rewrite Hempty, app_nil_r. unfold r_putlist.
  unfold bytes in *. rewrite rev_repeat_same. destruct (repeat [48] (N.to_nat cols)) eqn:E.
  - exfalso. apply (f_equal (@length _)) in E. rewrite repeat_length in E. simpl in E. lia.
  - rewrite sget_sset_same. reflexivity.
Qed.

Theorem new_refines s key meta h s' m :
  rcms_new s rows cols key meta = (Ok h, s') -> cms_new rows cols = Ok m -> refines s' h m.
Proof.
  unfold rcms_new, cms_new. destruct ((rows =? 0) || (cols =? 0)) eqn:E; [discriminate|].
  intros H1 H2. injection H1 as <- <-. injection H2 as <-.
  apply orb_false_iff in E. destruct E as [E1 E2].
  split; [reflexivity|]. split; [reflexivity|]. split.
  - unfold shape; cbn [c_rows c_cols c_matrix]. rewrite repeat_length. repeat split; auto.
    intros r Hr. rewrite nth_repeat_lt by exact Hr. apply repeat_length.
  - intros r Hr. cbn [rc_key]. unfold cms_init_rows.
    change (fun st r0 => r_lpush (sdel st (row_key key r0)) (row_key key r0) (repeat [48] (N.to_nat cols))) with (init_step key).
    rewrite (init_fold_rows key (nseq rows) (nseq_nodup rows)) by (apply In_nseq; exact Hr).
    unfold Lm; cbn [c_matrix]. rewrite nth_repeat_lt by lia. rewrite map_repeat. reflexivity.
Qed.

(* ---------- every history below 2^53 ---------- *)
Fixpoint rrun (s : store) (h : rcms) (hist : hist) : outcome rcms * store :=
  match hist with
  | [] => (Ok h, s)
  | (x, c) :: t => match rcms_update cpos s h x c with
                   | (Ok h', s') => rrun s' h' t
                   | (Err e, s') => (Err e, s')
                   | (Panic e, s') => (Panic e, s')
                   end
  end.

Lemma cells_below_total m h : repr cpos rows cols m h -> cells_below m (total h + 1).
Proof.
  intros (Hs & Hcell) r j Hr Hj. rewrite (Hcell r j Hr Hj).
  pose proof (cell_sum_le_total cpos rows cols cpos_len cpos_lt h r j). lia.
Qed.

Theorem history_refines hist : forall s h m done,
  refines s h m -> repr cpos rows cols m done -> total (done ++ hist) < B53 ->
  exists s' h', rrun s h hist = (Ok h', s') /\ refines s' h' (run_hist cpos m hist) /\
                repr cpos rows cols (run_hist cpos m hist) (done ++ hist).
Proof.
  induction hist as [|[x c] t IH]; intros s h m done HR Hrep Htot; cbn [rrun].
  - exists s, h. rewrite app_nil_r. auto.
  - replace (done ++ (x, c) :: t) with ((done ++ [(x, c)]) ++ t) in * by (rewrite <- app_assoc; reflexivity).
    assert (Ht1 : total (done ++ [(x, c)]) < B53) by (pose proof (total_prefix (done ++ [(x, c)]) t); lia).
    rewrite total_app, total_single in Ht1.
    assert (Hc : c < B53) by lia.
    assert (Hb : cells_below m (B53 - c)).
    { intros r j Hr Hj. pose proof (cells_below_total m done Hrep r j Hr Hj). lia. }
    destruct (update_refines s h m x c HR Hc Hb) as (s1 & -> & HR1).
    assert (Hrep1 : repr cpos rows cols (cms_update cpos m x c) (done ++ [(x, c)])).
    { apply (update_repr cpos rows cols cpos_len cpos_lt); [exact Hrep|].
      rewrite total_app, total_single. unfold B53, two64 in *. lia. }
    destruct (IH s1 _ (cms_update cpos m x c) (done ++ [(x, c)]) HR1 Hrep1 Htot) as (s' & h' & Hrun & HR' & Hrep').
    exists s', h'. split; [exact Hrun|]. split; [exact HR'|exact Hrep'].
Qed.

(* C03 for the Redis variant, through the refinement: from a new sketch, after any history whose
   total stays below 2^53, Count answers exactly what the in-memory sketch answers - so it never
   under-counts and never exceeds the stream total *)
Theorem redis_count_bounds s key meta h0 s1 m0 hist x :
  rcms_new s rows cols key meta = (Ok h0, s1) -> cms_new rows cols = Ok m0 -> total hist < B53 ->
  exists s' h', rrun s1 h0 hist = (Ok h', s') /\
    rcms_count cpos s' h' x = Ok (cms_count cpos (run_hist cpos m0 hist) x) /\
    true_count hist x <= cms_count cpos (run_hist cpos m0 hist) x <= total hist.
Proof.
  intros Hn Hm Htot.
  pose proof (new_refines s key meta h0 s1 m0 Hn Hm) as HR0.
  pose proof (new_repr cpos rows cols cpos_lt m0 Hm) as Hrep0.
  destruct (new_dims rows cols m0 Hm) as [Hrows _].
  destruct (history_refines hist s1 h0 m0 [] HR0 Hrep0 Htot) as (s' & h' & Hrun & HR' & Hrep').
  cbn [app] in Hrep'.
  exists s', h'. split; [exact Hrun|]. split.
  - apply count_refines; [exact HR'|exact Hrows|].
    intros r j Hr Hj. pose proof (cells_below_total _ _ Hrep' r j Hr Hj). lia.
  - split; [eapply (count_lower cpos rows cols cpos_len cpos_lt); eauto|eapply (count_upper cpos rows cols cpos_len cpos_lt); eauto].
Qed.
End Refine.

(* the same without the side condition on cols (the constructor rejects 0 columns) *)
Theorem redis_count_bounds_new cpos rows cols
  (cpos_len : forall x, length (cpos rows cols x) = N.to_nat rows)
  (cpos_lt : forall x p, In p (cpos rows cols x) -> p < cols) s key meta h0 s1 m0 hist x :
  rcms_new s rows cols key meta = (Ok h0, s1) -> cms_new rows cols = Ok m0 -> total hist < B53 ->
  exists s' h', rrun cpos s1 h0 hist = (Ok h', s') /\
    rcms_count cpos s' h' x = Ok (cms_count cpos (run_hist cpos m0 hist) x) /\
    true_count hist x <= cms_count cpos (run_hist cpos m0 hist) x <= total hist.
Proof.
  intros Hn Hm Ht. destruct (new_dims rows cols m0 Hm) as [_ Hc].
  exact (redis_count_bounds cpos rows cols cpos_len cpos_lt Hc s key meta h0 s1 m0 hist x Hn Hm Ht).
Qed.

(* ---------- Merge (C12 for the Redis variant) ---------- *)
Lemma add_cols_refines Ba Bb : Ba + Bb <= B53 -> forall n la lb,
  length la = n -> length lb = n -> (forall v, In v la -> v < Ba) -> (forall w, In w lb -> w < Bb) ->
  add_cols n (map dec la) (map dec lb) = Some (map dec (add_rows la lb)).
Proof.
  intros HB. induction n as [|n IH]; intros la lb Hla Hlb Ha Hb.
  - destruct la; [|discriminate]. destruct lb; [|discriminate]. reflexivity.
  - destruct la as [|x la]; [discriminate|]. destruct lb as [|y lb]; [discriminate|].
    cbn [map add_cols]. pose proof (Ha x (or_introl eq_refl)). pose proof (Hb y (or_introl eq_refl)).
    rewrite (lua_tonum_dec x) by lia. rewrite (lua_tonum_dec y) by lia.
    rewrite (IH la lb ltac:(simpl in Hla; lia) ltac:(simpl in Hlb; lia)
               (fun v Hv => Ha v (or_intror Hv)) (fun w Hw => Hb w (or_intror Hw))).
    unfold add_rows. cbn [combine map fst snd]. rewrite round53_exact by lia.
    rewrite wrap64_small by (unfold B53, two64 in *; lia). reflexivity.
Qed.

Section Merge.
Variable rows cols : N.
Hypothesis cols_pos : 0 < cols.

Lemma merge_rows_refines k1 k2 Lb Ba Bb l :
  length k1 = length k2 -> k1 <> k2 -> Ba + Bb <= B53 -> NoDup l ->
  forall s La,
  rows_are rows s k1 La -> rows_are rows s k2 Lb ->
  (forall r, In r l -> r < rows /\ length (La r) = N.to_nat cols /\ length (Lb r) = N.to_nat cols /\
                       (forall v, In v (La r) -> v < Ba) /\ (forall w, In w (Lb r) -> w < Bb)) ->
  exists s', merge_rows s k1 k2 l cols = Some s' /\
    rows_are rows s' k1 (fun r => if existsb (N.eqb r) l then add_rows (La r) (Lb r) else La r) /\
    rows_are rows s' k2 Lb.
Proof.
  intros Hkl Hkne HB Hnd. induction Hnd as [|a t Hnot Hnd IH]; intros s La HA HBk Hlen; cbn [merge_rows].
  - exists s. auto.
  - destruct (Hlen a (or_introl eq_refl)) as (Har & L1 & L2 & S1 & S2).
    rewrite (HA a Har), (HBk a Har), (add_cols_refines Ba Bb HB _ _ _ L1 L2 S1 S2).
    set (s1 := r_rpush (sdel s (row_key k1 a)) (row_key k1 a) (map dec (add_rows (La a) (Lb a)))).
    assert (Hcross : forall r r', row_key k1 r <> row_key k2 r').
    { intros r r' E. destruct (row_key_injective k1 k2 r r' Hkl E) as [Hk _]. exact (Hkne Hk). }
    assert (HA1 : rows_are rows s1 k1 (fun r => if r =? a then add_rows (La a) (Lb a) else La r)).
    { intros r Hr. unfold s1. destruct (r =? a) eqn:E.
      - apply N.eqb_eq in E. subst r. unfold r_rpush.
        assert (He : r_list (sdel s (row_key k1 a)) (row_key k1 a) = []) by (unfold r_list; rewrite sget_sdel_same; reflexivity).
        rewrite He. cbn [app]. unfold r_list, r_putlist.
        destruct (map dec (add_rows (La a) (Lb a))) eqn:Em.
        + exfalso. apply (f_equal (@length _)) in Em. unfold add_rows in Em.
          rewrite !map_length, combine_length, L1, L2, Nat.min_id in Em. simpl in Em. lia.
        + rewrite sget_sset_same. reflexivity.
      - apply N.eqb_neq in E. unfold r_list. rewrite r_rpush_frame by (apply row_key_neq; exact E).
        rewrite sdel_frame by (apply row_key_neq; exact E). apply HA. exact Hr. }
    assert (HB1 : rows_are rows s1 k2 Lb).
    { intros r Hr. unfold s1, r_list. rewrite r_rpush_frame by (intros E; exact (Hcross a r (eq_sym E))).
      rewrite sdel_frame by (intros E; exact (Hcross a r (eq_sym E))). apply HBk. exact Hr. }
    destruct (IH s1 _ HA1 HB1) as (s' & Hm & HA' & HB').
    { intros r Hr. destruct (Hlen r (or_intror Hr)) as (A0 & A1 & A2 & A3 & A4).
      replace (r =? a) with false by (symmetry; apply N.eqb_neq; intros ->; contradiction). auto. }
    exists s'. split; [exact Hm|]. split; [|exact HB'].
    intros r Hr. rewrite (HA' r Hr). f_equal. cbn [existsb].
    destruct (r =? a) eqn:E.
    + apply N.eqb_eq in E. subst r. cbn [orb].
      replace (existsb (N.eqb a) t) with false; [reflexivity|].
      symmetry. apply Bool.not_true_is_false. intros Hex. apply existsb_exists in Hex.
      destruct Hex as (y & Hy & Ey). apply N.eqb_eq in Ey. subst y. contradiction.
    + cbn [orb]. reflexivity.
Qed.
End Merge.

Theorem merge_refines (cpos : N -> N -> bytes -> list N) rows cols
  (cpos_len : forall x, length (cpos rows cols x) = N.to_nat rows)
  (cpos_lt : forall x p, In p (cpos rows cols x) -> p < cols) s a b ma mb Ba Bb :
  0 < cols ->
  refines rows cols s a ma -> refines rows cols s b mb ->
  length (rc_key a) = length (rc_key b) -> rc_key a <> rc_key b ->
  cells_below rows cols ma Ba -> cells_below rows cols mb Bb -> Ba + Bb <= B53 ->
  exists s' m, cms_merge ma mb = Ok m /\ rcms_merge s a b = (Ok tt, s') /\
               refines rows cols s' a m /\ refines rows cols s' b mb.
Proof.
  intros Hcols (Hra & Hca & Hsa & HRa) (Hrb & Hcb & Hsb & HRb) Hkl Hkne Hba Hbb HB.
  destruct (merge_ok rows cols ma mb Hsa Hsb) as (m & Hm).
  pose proof Hsa as (_ & _ & Hla & Hrowa). pose proof Hsb as (_ & _ & Hlb & Hrowb).
  assert (Hlen : forall r, In r (nseq rows) -> r < rows /\ length (Lm ma r) = N.to_nat cols /\ length (Lm mb r) = N.to_nat cols /\
             (forall v, In v (Lm ma r) -> v < Ba) /\ (forall w, In w (Lm mb r) -> w < Bb)).
  { intros r Hr. apply In_nseq in Hr. split; [exact Hr|].
    split; [apply Hrowa; lia|]. split; [apply Hrowb; lia|]. split.
    - intros v Hv. apply (In_nth _ _ 0) in Hv. destruct Hv as (j & Hj & <-).
      unfold Lm in Hj. rewrite Hrowa in Hj by lia.
      pose proof (Hba r (N.of_nat j) Hr ltac:(lia)) as H0. unfold cell in H0. rewrite Nat2N.id in H0. exact H0.
    - intros v Hv. apply (In_nth _ _ 0) in Hv. destruct Hv as (j & Hj & <-).
      unfold Lm in Hj. rewrite Hrowb in Hj by lia.
      pose proof (Hbb r (N.of_nat j) Hr ltac:(lia)) as H0. unfold cell in H0. rewrite Nat2N.id in H0. exact H0. }
  destruct (merge_rows_refines rows cols Hcols (rc_key a) (rc_key b) (Lm mb) Ba Bb (nseq rows) Hkl Hkne HB
              (nseq_nodup rows) s (Lm ma) HRa HRb Hlen) as (s' & Hmr & HA' & HB').
  exists s', m. split; [exact Hm|]. split.
  - unfold rcms_merge. rewrite Hra, Hrb, Hca, Hcb, !N.eqb_refl. cbn [negb]. rewrite Hmr. reflexivity.
  - destruct (merge_fields ma mb m Hm) as (Hrm & Hcm & _ & Hmm).
    assert (Hsm : shape rows cols m).
    { pose proof Hsa as (Hra' & Hca' & _). split; [congruence|]. split; [congruence|].
      assert (Hlm : length (c_matrix m) = N.to_nat rows) by (rewrite Hmm, map_length, combine_length; lia).
      split; [exact Hlm|]. intros r Hr.
      assert (Hk : exists r', r = N.to_nat r' /\ r' < rows) by (exists (N.of_nat r); lia).
      destruct Hk as (r' & -> & Hr').
      rewrite (merge_row cpos rows cols cpos_lt ma mb m r' Hsa Hsb Hm Hr'). unfold add_rows.
      rewrite map_length, combine_length, Hrowa, Hrowb by lia. apply Nat.min_id. }
    split.
    + split; [exact Hra|]. split; [exact Hca|]. split; [exact Hsm|].
      intros r Hr. rewrite (HA' r Hr). f_equal.
      replace (existsb (N.eqb r) (nseq rows)) with true
        by (symmetry; apply existsb_exists; exists r; split; [apply In_nseq; exact Hr|apply N.eqb_refl]).
      unfold Lm at 3. rewrite (merge_row cpos rows cols cpos_lt ma mb m r Hsa Hsb Hm Hr). reflexivity.
    + split; [exact Hrb|]. split; [exact Hcb|]. split; [exact Hsb|exact HB'].
Qed.

(* ---------- Equals (C17 for the Redis variant) ---------- *)
Lemma bytes_eqb_dec x y : bytes_eqb (dec x) (dec y) = (x =? y).
Proof.
  destruct (N.eqb_spec x y) as [->|Hne]; [apply bytes_eqb_refl|].
  apply Bool.not_true_is_false. intros E. apply bytes_eqb_eq in E. apply dec_injective in E. exact (Hne E).
Qed.

Lemma cmp_cols_dec n : forall la lb, length la = n -> length lb = n ->
  cmp_cols n (map dec la) (map dec lb) = listN_eqb la lb.
Proof.
  induction n as [|n IH]; intros la lb Ha Hb.
  - destruct la; [|discriminate]. destruct lb; [|discriminate]. reflexivity.
  - destruct la as [|x la]; [discriminate|]. destruct lb as [|y lb]; [discriminate|].
    cbn [map cmp_cols listN_eqb]. rewrite bytes_eqb_dec, (IH la lb) by (simpl in *; lia). reflexivity.
Qed.

Lemma listN_eqb_eq a b : listN_eqb a b = true <-> a = b.
Proof.
  revert b. induction a as [|x a IH]; intros [|y b]; cbn [listN_eqb]; split; try discriminate; auto.
  - intros H. apply andb_prop in H. destruct H as [H1 H2]. apply N.eqb_eq in H1. apply IH in H2. congruence.
  - intros H. injection H as -> ->. rewrite N.eqb_refl. apply IH. reflexivity.
Qed.

(* the Redis compare script answers true exactly when the represented matrices are equal *)
Theorem equals_refines rows cols s a b ma mb :
  refines rows cols s a ma -> refines rows cols s b mb ->
  (rcms_equals s a b = true <-> c_matrix ma = c_matrix mb).
Proof.
  intros (Hra & Hca & Hsa & HRa) (Hrb & Hcb & Hsb & HRb).
  pose proof Hsa as (_ & _ & Hla & Hrowa). pose proof Hsb as (_ & _ & Hlb & Hrowb).
  unfold rcms_equals. rewrite Hra, Hrb, Hca, Hcb, !N.eqb_refl. cbn [negb orb].
  rewrite forallb_forall. split.
  - intros H. apply (nth_ext _ _ [] []); [lia|]. intros k Hk.
    assert (Hr : N.of_nat k < rows) by lia.
    specialize (H (N.of_nat k) ltac:(apply In_nseq; exact Hr)).
    rewrite (HRa _ Hr), (HRb _ Hr) in H. unfold Lm in H. rewrite Nat2N.id in H.
    rewrite cmp_cols_dec in H by (try apply Hrowa; try apply Hrowb; lia).
    apply listN_eqb_eq. exact H.
  - intros Heq r Hr. apply In_nseq in Hr. rewrite (HRa _ Hr), (HRb _ Hr). unfold Lm. rewrite Heq.
    rewrite cmp_cols_dec by (apply Hrowb; lia). apply listN_eqb_eq. reflexivity.
Qed.

(* ---------- Export / Import under a new key (C10, C19 for the Redis variant) ---------- *)
Lemma atoi_dec' v : atoi (Some (dec v)) = v.
Proof. apply atoi_dec. Qed.

Theorem matrix_refines rows cols s h m : refines rows cols s h m -> rcms_matrix s h = c_matrix m.
Proof.
  intros (Hr & Hc & (_ & _ & Hlen & _) & HR). unfold rcms_matrix. rewrite Hr.
  apply (nth_ext _ _ [] []); [rewrite map_length, nseq_length; lia|].
  intros k Hk. rewrite map_length, nseq_length in Hk.
  rewrite (nth_indep _ [] ((fun r => map (fun v => atoi (Some v)) (r_list s (row_key (rc_key h) r))) 0))
    by (rewrite map_length, nseq_length; exact Hk).
  rewrite (map_nth (fun r => map (fun v => atoi (Some v)) (r_list s (row_key (rc_key h) r))) (nseq rows) 0 k).
  rewrite nth_nseq by exact Hk.
  rewrite (HR (N.of_nat k) ltac:(lia)). unfold Lm. rewrite Nat2N.id, map_map.
  erewrite map_ext; [apply map_id|]. intros v. apply atoi_dec'.
Qed.

Lemma set_matrix_fold key M : forall s i0,
  let s' := fst (fold_left (fun (acc : store * N) row =>
                   (r_rpush (sdel (fst acc) (row_key key (snd acc))) (row_key key (snd acc)) (map dec row), snd acc + 1))
                 M (s, i0)) in
  (forall k, (forall r, k <> row_key key r) -> sget s' k = sget s k) /\
  (forall r, r < i0 -> sget s' (row_key key r) = sget s (row_key key r)) /\
  (forall j, (j < length M)%nat -> r_list s' (row_key key (i0 + N.of_nat j)) = map dec (nth j M [])).
Proof.
  induction M as [|row t IH]; intros s i0; cbn [fold_left fst snd].
  - split; [reflexivity|]. split; [reflexivity|]. intros j Hj. simpl in Hj. lia.
  - set (s1 := r_rpush (sdel s (row_key key i0)) (row_key key i0) (map dec row)).
    destruct (IH s1 (i0 + 1)) as (F1 & F2 & F3). cbv zeta in *.
    assert (Hs1 : forall k, k <> row_key key i0 -> sget s1 k = sget s k).
    { intros k Hk. unfold s1. rewrite r_rpush_frame by exact Hk. apply sdel_frame. exact Hk. }
    split; [|split].
    + intros k Hk. rewrite F1 by exact Hk. apply Hs1. apply Hk.
    + intros r Hr. rewrite F2 by lia. apply Hs1. apply row_key_neq. lia.
    + intros [|j] Hj.
      * rewrite N.add_0_r. unfold r_list. rewrite F2 by lia. unfold s1, r_rpush.
        assert (He : r_list (sdel s (row_key key i0)) (row_key key i0) = []) by (unfold r_list; rewrite sget_sdel_same; reflexivity).
        rewrite He. cbn [app nth]. unfold r_putlist. destruct (map dec row) eqn:Em.
        -- rewrite sget_sdel_same. reflexivity.
        -- rewrite sget_sset_same. reflexivity.
      * cbn [nth]. replace (i0 + N.of_nat (S j)) with (i0 + 1 + N.of_nat j) by lia. apply F3. simpl in Hj. lia.
Qed.

(* importing the exported matrix under another key of the same length: the copy represents the
   same in-memory sketch and the exporter is untouched *)
Theorem import_new_key_refines rows cols s h m key' allsum meta' :
  refines rows cols s h m -> length key' = length (rc_key h) -> key' <> rc_key h ->
  let s' := rcms_set_matrix s key' (rcms_matrix s h) in
  refines rows cols s' (mkRcms rows cols allsum key' meta') m /\ refines rows cols s' h m.
Proof.
  intros HR Hl Hne s'. pose proof HR as (Hr & Hc & Hs & Hrows). pose proof Hs as (_ & _ & Hlen & _).
  unfold s', rcms_set_matrix. rewrite (matrix_refines rows cols s h m HR).
  destruct (set_matrix_fold key' (c_matrix m) s 0) as (F1 & _ & F3). cbv zeta in *.
  split.
  - split; [reflexivity|]. split; [reflexivity|]. split; [exact Hs|].
    intros r Hrr. cbn [rc_key]. specialize (F3 (N.to_nat r) ltac:(lia)).
    rewrite N.add_0_l, N2Nat.id in F3. exact F3.
  - split; [exact Hr|]. split; [exact Hc|]. split; [exact Hs|].
    intros r Hrr. unfold r_list. rewrite F1; [apply Hrows; exact Hrr|].
    intros r' E. destruct (row_key_injective (rc_key h) key' r r' (eq_sym Hl) E) as [Hk _]. exact (Hne (eq_sym Hk)).
Qed.
