(* CuckooLive.v — C02 for the in-memory cuckoo filter, in the regime where the listed defects do
   not apply (bucket count a power of two, non-empty fingerprints, non-destructive inserts, only
   live elements removed): after ANY history, every element inserted successfully more often than
   removed is reported present.
   Method: every occupied slot (bucket j, fingerprint e) has the class (e, min(j, alt j e)); the
   two candidate buckets of a fingerprint form one class because alt is an involution for
   power-of-two sizes. Insert (with any eviction chain) adds exactly the class of the new element
   to the multiset of classes, Remove takes exactly one away, so the multiset of classes equals
   that of the live elements - and an element whose class is present is found by Lookup. *)
From GX.Model Require Import Base Cuckoo.
From GX.Proofs Require Import ListLemmas CuckooProofs CuckooInv.
From Coq Require Import ZArith Lia ZifyN ZifyNat ZifyBool Permutation.
Open Scope N_scope.

(* ---------- generic list facts ---------- *)
Lemma Permutation_flat_map {A B} (f : A -> list B) l l' :
  Permutation l l' -> Permutation (flat_map f l) (flat_map f l').
Proof.
  induction 1 as [|x l l' _ IH|x y l|l l' l'' _ IH1 _ IH2]; simpl.
  - apply perm_nil.
  - apply Permutation_app_head. exact IH.
  - rewrite !app_assoc. apply Permutation_app_tail. apply Permutation_app_comm.
  - eapply perm_trans; eauto.
Qed.

Lemma index_of_in l : forall x k, In x l -> exists i, index_of bytes_eqb l x k = Some i.
Proof.
  induction l as [|y l IH]; intros x k H; [destruct H|]. simpl.
  destruct (bytes_eqb y x) eqn:E; [eauto|].
  destruct H as [->|H]; [rewrite bytes_eqb_refl in E; discriminate|]. apply IH. exact H.
Qed.

Lemma occ_lt_has_empty l : (occ l < length l)%nat -> In [] l.
Proof.
  induction l as [|a l IH]; intros H; [simpl in H; lia|]. rewrite occ_cons in H. simpl in H.
  destruct a; [left; reflexivity|]. right. apply IH. simpl in H. lia.
Qed.

(* remove the first occurrence *)
Fixpoint remove_one (x : bytes) (l : list bytes) : list bytes :=
  match l with
  | [] => []
  | y :: t => if bytes_eqb y x then t else y :: remove_one x t
  end.
Lemma remove_one_perm x l : In x l -> Permutation l (x :: remove_one x l).
Proof.
  induction l as [|y l IH]; intros H; [destruct H|]. simpl.
  destruct (bytes_eqb y x) eqn:E.
  - apply bytes_eqb_eq in E. subst. apply Permutation_refl.
  - destruct H as [->|H]; [rewrite bytes_eqb_refl in E; discriminate|].
    eapply perm_trans; [apply perm_skip, IH, H|apply perm_swap].
Qed.

(* ---------- slots tagged with their bucket index ---------- *)
Fixpoint tag_from (i : N) (bks : list bucket) : list (N * bytes) :=
  match bks with
  | [] => []
  | b :: t => map (pair i) (k_slots b) ++ tag_from (i + 1) t
  end.
Definition tagged (f : cuckoo) : list (N * bytes) := tag_from 0 (q_buckets f).

Lemma tag_setnth bks : forall i0 k b b' (x y : N * bytes), nth_error bks k = Some b ->
  Permutation (x :: map (pair (i0 + N.of_nat k)) (k_slots b')) (y :: map (pair (i0 + N.of_nat k)) (k_slots b)) ->
  Permutation (x :: tag_from i0 (setnth bks k b')) (y :: tag_from i0 bks).
Proof.
  unfold setnth. induction bks as [|a l IH]; intros i0 [|k] b b' x y H Hp; simpl in H; try discriminate.
  - injection H as ->. simpl. rewrite N.add_0_r in Hp.
    apply (Permutation_app_tail (tag_from (i0 + 1) l) Hp).
  - simpl. eapply perm_trans; [apply Permutation_middle|].
    eapply perm_trans; [|apply Permutation_sym, Permutation_middle].
    apply Permutation_app_head. eapply IH; eauto.
    replace (i0 + 1 + N.of_nat k) with (i0 + N.of_nat (S k)) by lia. exact Hp.
Qed.

Lemma tag_slot (t : N) (l : list bytes) i old new : nth_error l i = Some old ->
  Permutation ((t, old) :: map (pair t) (setnth l i new)) ((t, new) :: map (pair t) l).
Proof. intros H. apply (Permutation_map (pair t) (perm_setnth l i old new H)). Qed.

Lemma in_tag_from bks : forall i0 j e, In (j, e) (tag_from i0 bks) ->
  exists k b, nth_error bks k = Some b /\ j = i0 + N.of_nat k /\ In e (k_slots b).
Proof.
  induction bks as [|a l IH]; intros i0 j e H; [destruct H|]. simpl in H. apply in_app_or in H.
  destruct H as [H|H].
  - apply in_map_iff in H. destruct H as (e' & Heq & Hin). injection Heq as <- <-.
    exists 0%nat, a. simpl. repeat split; auto. lia.
  - apply IH in H. destruct H as (k & b & Hn & Hj & Hin). exists (S k), b. simpl. repeat split; auto. lia.
Qed.

(* the three ways an operation changes a slot *)
Lemma swap_tagged f index b ri curr prev :
  get_bucket f index = Ok b -> nthN (k_slots b) ri = Some prev ->
  Permutation ((index, prev) :: tagged (set_bucket f index (bk_set b (N.to_nat ri) curr)))
              ((index, curr) :: tagged f).
Proof.
  intros Hg Hn. apply get_bucket_spec in Hg. destruct Hg as [_ Hb].
  unfold nthN in Hn. destruct (ri <? N.of_nat (length (k_slots b))); [|discriminate].
  unfold tagged, set_bucket; simpl. eapply tag_setnth; eauto.
  rewrite N.add_0_l, N2Nat.id. unfold bk_set; simpl. apply tag_slot. exact Hn.
Qed.

Lemma add_tagged f i b e f' :
  get_bucket f i = Ok b -> bk_is_free b = true -> add_at f i e = Ok f' ->
  Permutation ((i, []) :: tagged f') ((i, e) :: tagged f).
Proof.
  intros Hg Hfree H. unfold add_at in H. rewrite Hg in H. cbn [obind] in H.
  pose proof (get_bucket_spec _ _ _ Hg) as [_ Hb].
  unfold bk_add in H. destruct e as [|e0 e'].
  - cbn [obind] in H. injection H as <-. simpl snd.
    unfold tagged, set_bucket; simpl. eapply tag_setnth; eauto.
  - rewrite Hfree in H. simpl negb in H. cbv iota in H.
    destruct (bk_index_of b []) as [k|] eqn:Ek; [|discriminate]. cbn [obind] in H. injection H as <-. simpl snd.
    unfold bk_index_of in Ek. apply index_of_spec in Ek. destruct Ek as [_ Hk]. rewrite Nat.sub_0_r in Hk.
    unfold tagged, set_bucket; simpl. eapply tag_setnth; eauto.
    rewrite N.add_0_l, N2Nat.id. simpl. apply tag_slot. exact Hk.
Qed.

Lemma remove_tagged f i b fp :
  get_bucket f i = Ok b -> bk_lookup b fp = true ->
  Permutation ((i, fp) :: tagged (decr_len (set_bucket f i (snd (bk_remove b fp))))) ((i, []) :: tagged f).
Proof.
  intros Hg Hl. pose proof (get_bucket_spec _ _ _ Hg) as [_ Hb].
  unfold bk_lookup in Hl. unfold bk_remove.
  destruct (bk_index_of b fp) as [k|] eqn:Ek; [|discriminate]. simpl snd.
  unfold bk_index_of in Ek. apply index_of_spec in Ek. destruct Ek as [_ Hk]. rewrite Nat.sub_0_r in Hk.
  unfold tagged, decr_len, set_bucket; simpl. eapply tag_setnth; eauto.
  rewrite N.add_0_l, N2Nat.id. simpl. apply tag_slot. exact Hk.
Qed.

(* ---------- no panic where the code cannot panic ---------- *)
Lemma rand_slot_le k len : k < 2 ^ 53 -> 1 <= len -> len < two64 -> rand_slot k len <= len - 1.
Proof.
  intros Hk H1 H2. unfold rand_slot. rewrite (wrap_decr len H1 H2).
  assert (H : (k * (len - 1) + 2 ^ 53 - 1) / 2 ^ 53 < (len - 1) + 1).
  { apply N.div_lt_upper_bound; [lia|]. nia. }
  lia.
Qed.

Lemma add_at_total f i b e :
  BW f -> get_bucket f i = Ok b -> bk_is_free b = true -> e <> [] -> exists f', add_at f i e = Ok f'.
Proof.
  intros HB Hg Hfree He. unfold add_at. rewrite Hg. cbn [obind]. unfold bk_add.
  destruct e as [|e0 e']; [congruence|]. rewrite Hfree. simpl negb. cbv iota.
  pose proof (BW_bucket_wf f i b HB Hg) as (Hs & Hl & Hc).
  unfold bk_is_free in Hfree.
  assert (Hin : In [] (k_slots b)) by (apply occ_lt_has_empty; lia).
  destruct (index_of_in _ _ 0%nat Hin) as (k & Hk). unfold bk_index_of. rewrite Hk. cbn [obind]. eauto.
Qed.

Lemma undo_all_total items : forall f, BW f -> Forall (item_ok f) items -> exists f', undo_all f items = Ok f'.
Proof.
  induction items as [|[[p bi] si] t IH]; intros f HB Hit; cbn [undo_all]; [eauto|].
  inversion Hit as [|? ? Hi Ht]; subst. simpl in Hi. destruct Hi as (Hp & (b & Hg & Hfull) & Hs).
  unfold undo_one. rewrite Hg. cbn [obind].
  pose proof (BW_bucket_wf f bi b HB Hg) as (_ & Hl & _).
  replace (si <? N.of_nat (length (k_slots b))) with true by lia. cbn [obind].
  destruct (swap_step f bi b si p HB Hg Hfull Hs Hp) as (HB' & _ & Hpar & _ & Hmono).
  apply IH; auto. rewrite Forall_forall in *. intros it Hin.
  eapply item_ok_mono; [apply params_bsize; exact Hpar|exact Hmono|auto].
Qed.

(* ---------- classes ---------- *)
Section Classes.
Variable h64 : bytes -> N.
Variable j : N.                  (* the bucket count is 2^j *)

Definition cls (p : N * bytes) : list (bytes * N) :=
  match snd p with
  | [] => []
  | _ => [(snd p, N.min (fst p) (alt (2 ^ j) (fst p) (h64 (snd p))))]
  end.
Definition classes (f : cuckoo) : list (bytes * N) := flat_map cls (tagged f).

Lemma cls_empty i : cls (i, []) = [].
Proof. reflexivity. Qed.
Lemma cls_ne i (e : bytes) : e <> [] -> cls (i, e) = [(e, N.min i (alt (2 ^ j) i (h64 e)))].
Proof. destruct e; [congruence|reflexivity]. Qed.

Lemma cls_alt i (e : bytes) : i < 2 ^ j -> cls (alt (2 ^ j) i (h64 e), e) = cls (i, e).
Proof.
  intros Hi. destruct e as [|e0 e']; [reflexivity|]. unfold cls; simpl fst; simpl snd.
  rewrite (alt_involutive_pow2 j i _ Hi). rewrite N.min_comm. reflexivity.
Qed.

Lemma classes_perm p q f f' :
  Permutation (p :: tagged f') (q :: tagged f) ->
  Permutation (cls p ++ classes f') (cls q ++ classes f).
Proof. intros H. apply (Permutation_flat_map cls) in H. exact H. Qed.

(* same class and a valid bucket index: one of the two candidate buckets *)
Lemma same_class_bucket i1 jj (e : bytes) :
  i1 < 2 ^ j -> jj < 2 ^ j ->
  N.min jj (alt (2 ^ j) jj (h64 e)) = N.min i1 (alt (2 ^ j) i1 (h64 e)) ->
  jj = i1 \/ jj = alt (2 ^ j) i1 (h64 e).
Proof.
  intros H1 Hj Hm.
  pose proof (alt_involutive_pow2 j i1 (h64 e) H1) as I1.
  pose proof (alt_involutive_pow2 j jj (h64 e) Hj) as Ij.
  set (a := alt (2 ^ j)) in *.
  destruct (N.min_spec jj (a jj (h64 e))) as [[_ E1]|[_ E1]];
  destruct (N.min_spec i1 (a i1 (h64 e))) as [[_ E2]|[_ E2]]; rewrite E1, E2 in Hm.
  - left. exact Hm.
  - right. exact Hm.
  - right. rewrite <- Hm. symmetry. exact Ij.
  - left. rewrite <- Ij, Hm. exact I1.
Qed.

(* the eviction loop of a non-destructive insert: either the class of the fingerprint in hand is
   added, or (full) nothing happened; it never panics *)
Lemma evict_classes fuel : forall f index (curr : bytes) draws items,
  BW f -> q_size f = 2 ^ j -> 1 <= q_bsize f -> curr <> [] -> AN f index -> index < 2 ^ j ->
  Forall (fun k => k < 2 ^ 53) draws -> Forall (item_ok f) items ->
  match evict_loop h64 fuel f index curr draws items false with
  | InsOk f' => Permutation (classes f') (cls (index, curr) ++ classes f)
  | InsFull _ => True
  | InsPanic _ _ => False
  end.
Proof.
  induction fuel as [|fuel IH]; intros f index curr draws items HB Hsz Hpos Hc (b & Hg & Hfull) Hidx Hdr Hit; cbn [evict_loop].
  - destruct (undo_all_total items f HB Hit) as (f' & ->). exact I.
  - rewrite Hg.
    pose proof (BW_bucket_wf f index b HB Hg) as (Hs & Hl & Hcn).
    pose proof (BW_bsize_lt f index b HB Hg) as Hbl.
    pose proof (get_bucket_spec _ _ _ Hg) as [Hilen _].
    assert (Hlen : k_len b = q_bsize f) by (unfold bk_full in Hfull; lia).
    set (ri := rand_slot (hd 0 draws) (k_len b)).
    assert (Hri : ri <= q_bsize f - 1).
    { unfold ri. rewrite Hlen. apply rand_slot_le; auto. destruct draws; [simpl; lia|]. inversion Hdr; auto. }
    destruct (nthN (k_slots b) ri) as [prev|] eqn:Ep.
    2:{ unfold nthN in Ep. replace (ri <? N.of_nat (length (k_slots b))) with true in Ep by lia.
        apply nth_error_None in Ep. lia. }
    assert (Hnth : nth_error (k_slots b) (N.to_nat ri) = Some prev).
    { unfold nthN in Ep. destruct (ri <? N.of_nat (length (k_slots b))); [exact Ep|discriminate]. }
    pose proof (allne_nth _ Hfull _ _ Hnth) as Hprev.
    assert (Hsi : ri < q_bsize f) by lia.
    destruct (swap_step f index b ri curr HB Hg Hfull Hsi Hc) as (HB1 & Ht1 & Hp1 & Hq1 & Hmono).
    pose proof (swap_tagged f index b ri curr prev Hg Ep) as Hsw.
    set (f1 := set_bucket f index (bk_set b (N.to_nat ri) curr)) in *.
    assert (Hlenb : N.of_nat (length (q_buckets f)) = 2 ^ j) by (destruct HB as (_ & Hn & _); lia).
    rewrite Hlenb.
    set (newi := N.lxor index (h64 prev) mod 2 ^ j).
    assert (Hnewi : newi < 2 ^ j) by (apply N.mod_lt; lia).
    assert (Hsz1 : q_size f1 = 2 ^ j) by (unfold params in Hp1; congruence).
    destruct (get_bucket f1 newi) as [nb|t|t] eqn:Hgn.
    2,3: (unfold get_bucket, nthN in Hgn; destruct HB1 as (_ & Hn1 & _);
          replace (newi <? N.of_nat (length (q_buckets f1))) with true in Hgn by lia;
          destruct (nth_error (q_buckets f1) (N.to_nat newi)) eqn:En; [discriminate|];
          apply nth_error_None in En; lia).
    pose proof (classes_perm _ _ _ _ Hsw) as Hsc. clear Hsw. rename Hsc into Hsw.
    rewrite (cls_ne index prev Hprev), (cls_ne index curr Hc) in Hsw.
    destruct (bk_is_free nb) eqn:Hfree.
    + destruct (add_at_total f1 newi nb prev HB1 Hgn Hfree Hprev) as (f2 & Ha). rewrite Ha.
      pose proof (add_tagged f1 newi nb prev f2 Hgn Hfree Ha) as Hadd.
      pose proof (classes_perm _ _ _ _ Hadd) as Hadc. clear Hadd. rename Hadc into Hadd.
      rewrite cls_empty in Hadd. simpl app in Hadd.
      assert (Hcl : cls (newi, prev) = cls (index, prev)) by (apply cls_alt; exact Hidx).
      rewrite Hcl, (cls_ne index prev Hprev) in Hadd.
      change (classes (incr_len f2)) with (classes f2).
      rewrite (cls_ne index curr Hc). eapply perm_trans; [exact Hadd|exact Hsw].
    + assert (HAN : AN f1 newi).
      { exists nb. split; auto. eapply not_free_full; eauto. eapply BW_bucket_wf; eauto. }
      assert (Hit1 : Forall (item_ok f1) ((prev, index, ri) :: items)).
      { constructor.
        - simpl. split; [exact Hprev|]. split; [apply Hmono; exists b; split; auto|].
          unfold params in Hp1. replace (q_bsize f1) with (q_bsize f) by congruence. exact Hsi.
        - rewrite Forall_forall in *. intros it Hin.
          eapply item_ok_mono; [apply params_bsize; exact Hp1|exact Hmono|auto]. }
      assert (Hpos1 : 1 <= q_bsize f1) by (unfold params in Hp1; replace (q_bsize f1) with (q_bsize f) by congruence; exact Hpos).
      specialize (IH f1 newi prev (tl draws) ((prev, index, ri) :: items) HB1 Hsz1 Hpos1 Hprev HAN Hnewi
                     ltac:(destruct draws; simpl; [constructor|inversion Hdr; auto]) Hit1).
      destruct (evict_loop h64 fuel f1 newi prev (tl draws) ((prev, index, ri) :: items) false) as [f'|f'|t f']; auto.
      assert (Hcl : cls (newi, prev) = cls (index, prev)) by (apply cls_alt; exact Hidx).
      rewrite Hcl, (cls_ne index prev Hprev) in IH. rewrite (cls_ne index curr Hc).
      eapply perm_trans; [exact IH|exact Hsw].
Qed.
End Classes.

(* ---------- Insert / Remove / Lookup at the level of classes ---------- *)
Section Live.
Variable h64 : bytes -> N.
Variable j : N.

(* class of an element: its fingerprint and the smaller of its two candidate buckets *)
Definition ecls (f : cuckoo) (x : bytes) : bytes * N :=
  match ck_positions h64 f x with
  | Ok (fp, i1, i2) => (fp, N.min i1 i2)
  | _ => ([], 0)
  end.

Lemma positions_params f f' x : params f' = params f -> ck_positions h64 f' x = ck_positions h64 f x.
Proof. unfold params, ck_positions. intros H. injection H as Hs _ Hf _. rewrite Hs, Hf. reflexivity. Qed.
Lemma ecls_params f f' x : params f' = params f -> ecls f' x = ecls f x.
Proof. intros H. unfold ecls. rewrite (positions_params f f' x H). reflexivity. Qed.

Lemma positions_alt f x fp i1 i2 :
  q_size f = 2 ^ j -> ck_positions h64 f x = Ok (fp, i1, i2) -> fp <> [] -> i2 = alt (2 ^ j) i1 (h64 fp).
Proof.
  unfold ck_positions. intros Hs H Hfp.
  destruct (N.of_nat (length (dec (h64 x))) <? q_fpl f); [injection H as <- _ _; congruence|].
  destruct (q_size f =? 0); [discriminate|]. injection H as <- <- <-. rewrite Hs. reflexivity.
Qed.

(* a non-destructive Insert: success adds the element's class, "full" changes nothing, and it
   cannot panic *)
Theorem insert_classes f x coin draws fp i1 i2 :
  BW f -> q_size f = 2 ^ j -> 1 <= q_bsize f ->
  ck_positions h64 f x = Ok (fp, i1, i2) -> fp <> [] -> i1 < 2 ^ j -> i2 < 2 ^ j ->
  Forall (fun k => k < 2 ^ 53) draws ->
  match ck_insert h64 f x false coin draws with
  | InsOk f' => Permutation (classes h64 j f') (ecls f x :: classes h64 j f)
  | InsFull f' => f' = f
  | InsPanic _ _ => False
  end.
Proof.
  intros HB Hsz Hpos Hp Hfp H1 H2 Hdr.
  pose proof (positions_alt f x fp i1 i2 Hsz Hp Hfp) as Hi2.
  assert (Hec : [ecls f x] = cls h64 j (i1, fp)).
  { unfold ecls. rewrite Hp. rewrite (cls_ne h64 j i1 fp Hfp). rewrite Hi2. reflexivity. }
  assert (Hec2 : cls h64 j (i2, fp) = cls h64 j (i1, fp)) by (rewrite Hi2; apply cls_alt; exact H1).
  pose proof (insert_full_nondestructive h64 f x coin draws) as Hfull.
  unfold ck_insert in *. rewrite Hp in *.
  assert (Hget : forall i, i < 2 ^ j -> exists b, get_bucket f i = Ok b).
  { intros i Hi. unfold get_bucket, nthN. destruct HB as (_ & Hn & _).
    replace (i <? N.of_nat (length (q_buckets f))) with true by lia.
    destruct (nth_error (q_buckets f) (N.to_nat i)) eqn:En; [eauto|]. apply nth_error_None in En. lia. }
  destruct (Hget i1 H1) as (b1 & Hg1). rewrite Hg1 in *.
  destruct (bk_is_free b1) eqn:Hf1.
  - destruct (add_at_total f i1 b1 fp HB Hg1 Hf1 Hfp) as (f' & Ha). rewrite Ha.
    pose proof (classes_perm h64 j _ _ _ _ (add_tagged f i1 b1 fp f' Hg1 Hf1 Ha)) as Hc.
    rewrite cls_empty in Hc. simpl app in Hc. rewrite <- Hec in Hc. exact Hc.
  - destruct (Hget i2 H2) as (b2 & Hg2). rewrite Hg2 in *.
    destruct (bk_is_free b2) eqn:Hf2.
    + destruct (add_at_total f i2 b2 fp HB Hg2 Hf2 Hfp) as (f' & Ha). rewrite Ha.
      pose proof (classes_perm h64 j _ _ _ _ (add_tagged f i2 b2 fp f' Hg2 Hf2 Ha)) as Hc.
      rewrite cls_empty in Hc. simpl app in Hc. rewrite Hec2, <- Hec in Hc. exact Hc.
    + assert (HAN : AN f (if coin then i1 else i2)).
      { destruct coin; [exists b1|exists b2]; (split; [assumption|]);
          (eapply not_free_full; [eapply BW_bucket_wf; eauto|assumption]). }
      assert (Hidx : (if coin then i1 else i2) < 2 ^ j) by (destruct coin; assumption).
      pose proof (evict_classes h64 j (N.to_nat (q_retries f)) f (if coin then i1 else i2) fp draws []
                    HB Hsz Hpos Hfp HAN Hidx Hdr (Forall_nil _)) as He.
      destruct (evict_loop h64 (N.to_nat (q_retries f)) f (if coin then i1 else i2) fp draws [] false) as [f'|f'|t f'].
      * assert (Hcc : cls h64 j (if coin then i1 else i2, fp) = [ecls f x]) by (destruct coin; congruence).
        rewrite Hcc in He. exact He.
      * apply Hfull. reflexivity.
      * exact He.
Qed.

(* a Remove that returns true takes away exactly the class of the element *)
Theorem remove_classes f x f' fp i1 i2 :
  q_size f = 2 ^ j -> ck_positions h64 f x = Ok (fp, i1, i2) -> fp <> [] -> i1 < 2 ^ j ->
  ck_remove h64 f x = Ok (true, f') ->
  Permutation (ecls f x :: classes h64 j f') (classes h64 j f).
Proof.
  intros Hsz Hp Hfp H1 Hr.
  pose proof (positions_alt f x fp i1 i2 Hsz Hp Hfp) as Hi2.
  assert (Hec : [ecls f x] = cls h64 j (i1, fp)).
  { unfold ecls. rewrite Hp. rewrite (cls_ne h64 j i1 fp Hfp). rewrite Hi2. reflexivity. }
  assert (Hec2 : cls h64 j (i2, fp) = cls h64 j (i1, fp)) by (rewrite Hi2; apply cls_alt; exact H1).
  unfold ck_remove in Hr. rewrite Hp in Hr. cbn [obind] in Hr.
  destruct (get_bucket f i1) as [b1|t|t] eqn:Hg1; cbn [obind] in Hr; try discriminate.
  destruct (bk_lookup b1 fp) eqn:Hl1.
  - injection Hr as <-.
    pose proof (classes_perm h64 j _ _ _ _ (remove_tagged f i1 b1 fp Hg1 Hl1)) as Hc.
    rewrite cls_empty in Hc. simpl app in Hc. rewrite <- Hec in Hc. exact Hc.
  - destruct (get_bucket f i2) as [b2|t|t] eqn:Hg2; cbn [obind] in Hr; try discriminate.
    destruct (bk_lookup b2 fp) eqn:Hl2; [|discriminate].
    injection Hr as <-.
    pose proof (classes_perm h64 j _ _ _ _ (remove_tagged f i2 b2 fp Hg2 Hl2)) as Hc.
    rewrite cls_empty in Hc. simpl app in Hc. rewrite Hec2, <- Hec in Hc. exact Hc.
Qed.

(* an element whose class is among the stored classes is found *)
Theorem lookup_of_class f x fp i1 i2 :
  BW f -> q_size f = 2 ^ j ->
  ck_positions h64 f x = Ok (fp, i1, i2) -> fp <> [] -> i1 < 2 ^ j -> i2 < 2 ^ j ->
  In (ecls f x) (classes h64 j f) -> ck_lookup h64 f x = Ok true.
Proof.
  intros HB Hsz Hp Hfp H1 H2 Hin.
  pose proof (positions_alt f x fp i1 i2 Hsz Hp Hfp) as Hi2.
  unfold classes in Hin. apply in_flat_map in Hin. destruct Hin as ([jj e] & Hint & Hcls).
  unfold ecls in Hcls. rewrite Hp in Hcls.
  destruct e as [|e0 e']; [destruct Hcls|]. unfold cls in Hcls. simpl fst in Hcls. simpl snd in Hcls.
  destruct Hcls as [Heq|[]]. injection Heq as He Hm. rewrite He in *. clear He.
  unfold tagged in Hint. apply in_tag_from in Hint. destruct Hint as (k & b & Hn & Hj & Hine).
  rewrite N.add_0_l in Hj.
  assert (Hjj : jj < 2 ^ j).
  { destruct HB as (_ & Hlen & _). assert (k < length (q_buckets f))%nat by (apply nth_error_Some; congruence). lia. }
  assert (Hgb : get_bucket f jj = Ok b).
  { unfold get_bucket, nthN. destruct HB as (_ & Hlen & _).
    replace (jj <? N.of_nat (length (q_buckets f))) with true by lia.
    subst jj. rewrite Nat2N.id, Hn. reflexivity. }
  assert (Hlk : bk_lookup b fp = true).
  { unfold bk_lookup, bk_index_of. destruct (index_of_in _ _ 0%nat Hine) as (i & ->). reflexivity. }
  rewrite Hi2 in Hm.
  destruct (same_class_bucket h64 j i1 jj fp H1 Hjj Hm) as [->|Hc].
  - unfold ck_lookup. rewrite Hp. cbn [obind]. rewrite Hgb. cbn [obind]. rewrite Hlk. reflexivity.
  - rewrite <- Hi2 in Hc. rewrite Hc in Hgb.
    unfold ck_lookup. rewrite Hp. cbn [obind].
    assert (Hg1 : exists b1, get_bucket f i1 = Ok b1).
    { unfold get_bucket, nthN. destruct HB as (_ & Hlen & _).
      replace (i1 <? N.of_nat (length (q_buckets f))) with true by lia.
      destruct (nth_error (q_buckets f) (N.to_nat i1)) eqn:En; [eauto|]. apply nth_error_None in En. lia. }
    destruct Hg1 as (b1 & ->). cbn [obind].
    destruct (bk_lookup b1 fp); [reflexivity|]. rewrite Hgb. cbn [obind]. rewrite Hlk. reflexivity.
Qed.
End Live.

(* ---------- every history ---------- *)
Inductive lop := LIns (x : bytes) (coin : bool) (draws : list N) | LRem (x : bytes).

Section History.
Variable h64 : bytes -> N.
Variable j : N.

(* run a history of non-destructive inserts and removes, tracking the multiset L of live
   elements: +x for an Insert that returned, -x for a Remove that returned true *)
Fixpoint lrun (f : cuckoo) (L : list bytes) (ops : list lop) : cuckoo * list bytes :=
  match ops with
  | [] => (f, L)
  | LIns x coin draws :: t =>
      match ck_insert h64 f x false coin draws with
      | InsOk f' => lrun f' (x :: L) t
      | InsFull f' | InsPanic _ f' => lrun f' L t
      end
  | LRem x :: t =>
      match ck_remove h64 f x with
      | Ok (true, f') => lrun f' (remove_one x L) t
      | Ok (false, f') => lrun f' L t
      | _ => lrun f L t
      end
  end.

(* the documented usage: only live elements are removed; elements get a non-empty fingerprint;
   the random draws are rand.Float64() values k/2^53 *)
Fixpoint usage_ok (f : cuckoo) (L : list bytes) (ops : list lop) : Prop :=
  match ops with
  | [] => True
  | LIns x coin draws :: t =>
      fp_ok h64 (q_fpl f) x = true /\ Forall (fun k => k < 2 ^ 53) draws /\
      match ck_insert h64 f x false coin draws with
      | InsOk f' => usage_ok f' (x :: L) t
      | InsFull f' | InsPanic _ f' => usage_ok f' L t
      end
  | LRem x :: t =>
      In x L /\
      match ck_remove h64 f x with
      | Ok (true, f') => usage_ok f' (remove_one x L) t
      | Ok (false, f') => usage_ok f' L t
      | _ => usage_ok f L t
      end
  end.

Definition LInv (f : cuckoo) (L : list bytes) : Prop :=
  ck_inv f /\ q_size f = 2 ^ j /\ 1 <= q_bsize f /\
  Forall (fun x => fp_ok h64 (q_fpl f) x = true) L /\
  Permutation (classes h64 j f) (map (ecls h64 f) L).

Lemma positions_ok f x : fp_ok h64 (q_fpl f) x = true -> q_size f = 2 ^ j ->
  exists fp i1 i2, ck_positions h64 f x = Ok (fp, i1, i2) /\ fp <> [] /\ i1 < 2 ^ j /\ i2 < 2 ^ j.
Proof.
  intros Hok Hsz.
  assert (H : exists fp i1 i2, ck_positions h64 f x = Ok (fp, i1, i2)).
  { unfold ck_positions. unfold fp_ok in Hok.
    destruct (N.of_nat (length (dec (h64 x))) <? q_fpl f) eqn:E; [lia|].
    assert (2 ^ j <> 0) by (apply N.pow_nonzero; lia).
    replace (q_size f =? 0) with false by lia. eauto. }
  destruct H as (fp & i1 & i2 & Hp). exists fp, i1, i2. split; [exact Hp|].
  destruct (positions_fp h64 f x fp i1 i2 Hok Hp) as (H1 & H2 & H3). rewrite Hsz in *. auto.
Qed.

Lemma remove_one_incl x l : incl (remove_one x l) l.
Proof.
  induction l as [|y l IH]; simpl; [apply incl_refl|].
  destruct (bytes_eqb y x); [apply incl_tl, incl_refl|].
  intros z [->|Hz]; [left; reflexivity|right; apply IH; exact Hz].
Qed.

Lemma LInv_params f f' L : params f' = params f -> ck_inv f' ->
  q_size f = 2 ^ j -> 1 <= q_bsize f -> Forall (fun x => fp_ok h64 (q_fpl f) x = true) L ->
  Permutation (classes h64 j f') (map (ecls h64 f) L) -> LInv f' L.
Proof.
  intros Hp Hinv Hsz Hbs Hfp Hperm. unfold params in Hp. injection Hp as E1 E2 E3 E4.
  split; [exact Hinv|]. split; [congruence|]. split; [congruence|]. split; [rewrite E3; exact Hfp|].
  erewrite map_ext; [exact Hperm|]. intros a. apply ecls_params. unfold params. congruence.
Qed.

Theorem lrun_inv ops : forall f L, LInv f L -> usage_ok f L ops ->
  LInv (fst (lrun f L ops)) (snd (lrun f L ops)).
Proof.
  induction ops as [|[x coin draws|x] t IH]; intros f L HI Hu; cbn [lrun usage_ok] in *; [exact HI|..].
  - destruct Hu as (Hok & Hdr & Hu). pose proof HI as (Hinv & Hsz & Hbs & HfpL & Hperm).
    destruct (positions_ok f x Hok Hsz) as (fp & i1 & i2 & Hp & Hfp & H1 & H2).
    pose proof (insert_classes h64 j f x coin draws fp i1 i2 (proj1 Hinv) Hsz Hbs Hp Hfp H1 H2 Hdr) as Hc.
    pose proof (insert_inv h64 f x false coin draws fp i1 i2 Hinv Hp Hfp) as Hi.
    destruct (ck_insert h64 f x false coin draws) as [f'|f'|tg f'].
    + destruct Hi as (Hinv' & Hpar & _). apply IH; [|exact Hu].
      unfold params in Hpar. pose proof Hpar as Hpar'. injection Hpar' as E1 E2 E3 E4.
      split; [exact Hinv'|]. split; [congruence|]. split; [congruence|].
      split; [constructor; [rewrite E3; exact Hok|rewrite E3; exact HfpL]|].
      cbn [map]. rewrite (ecls_params h64 f f' x Hpar).
      erewrite map_ext; [|intros a; apply (ecls_params h64 f f' a Hpar)].
      eapply perm_trans; [exact Hc|]. apply perm_skip. exact Hperm.
    + subst f'. apply IH; assumption.
    + destruct Hc.
  - destruct Hu as (Hin & Hu). pose proof HI as (Hinv & Hsz & Hbs & HfpL & Hperm).
    assert (Hok : fp_ok h64 (q_fpl f) x = true) by (rewrite Forall_forall in HfpL; apply HfpL; exact Hin).
    destruct (positions_ok f x Hok Hsz) as (fp & i1 & i2 & Hp & Hfp & H1 & H2).
    destruct (ck_remove h64 f x) as [[[|] f']|tg|tg] eqn:Hr; [| |apply IH; assumption|apply IH; assumption].
    + destruct (remove_ok h64 f x true f' fp i1 i2 Hinv Hp Hfp Hr) as (Hinv' & Hpar & _).
      pose proof (remove_classes h64 j f x f' fp i1 i2 Hsz Hp Hfp H1 Hr) as Hc.
      apply IH; [|exact Hu].
      apply (LInv_params f f' (remove_one x L) Hpar Hinv' Hsz Hbs).
      { rewrite Forall_forall in *. intros y Hy. apply HfpL. eapply remove_one_incl; eauto. }
      pose proof (Permutation_map (ecls h64 f) (remove_one_perm x L Hin)) as Hm. cbn [map] in Hm.
      apply (Permutation_cons_inv (a := ecls h64 f x)).
      eapply perm_trans; [exact Hc|]. eapply perm_trans; [exact Hperm|exact Hm].
    + destruct (remove_ok h64 f x false f' fp i1 i2 Hinv Hp Hfp Hr) as (_ & _ & ->). apply IH; assumption.
Qed.

(* C02: after any history in the documented usage, every live element is found *)
Theorem live_elements_found ops f L :
  LInv f L -> usage_ok f L ops ->
  forall x, In x (snd (lrun f L ops)) -> ck_lookup h64 (fst (lrun f L ops)) x = Ok true.
Proof.
  intros HI Hu x Hin. destruct (lrun_inv ops f L HI Hu) as (Hinv & Hsz & Hbs & HfpL & Hperm).
  set (f' := fst (lrun f L ops)) in *. set (L' := snd (lrun f L ops)) in *.
  assert (Hok : fp_ok h64 (q_fpl f') x = true) by (rewrite Forall_forall in HfpL; apply HfpL; exact Hin).
  destruct (positions_ok f' x Hok Hsz) as (fp & i1 & i2 & Hp & Hfp & H1 & H2).
  apply (lookup_of_class h64 j f' x fp i1 i2 (proj1 Hinv) Hsz Hp Hfp H1 H2).
  eapply Permutation_in; [apply Permutation_sym; exact Hperm|]. apply in_map. exact Hin.
Qed.

Lemma tag_from_repeat_empty bs n : forall i, flat_map (cls h64 j) (tag_from i (repeat (bk_new bs) n)) = [].
Proof.
  induction n as [|n IH]; intros i; simpl; [reflexivity|]. rewrite flat_map_app, IH, app_nil_r.
  induction (N.to_nat bs) as [|m IHm]; simpl; auto.
Qed.

Lemma LInv_new bsize fpl retries :
  2 ^ j * bsize < two64 -> 1 <= bsize -> LInv (ck_new (2 ^ j) bsize fpl retries) [].
Proof.
  intros Hc Hb. split; [apply ck_new_inv; exact Hc|]. split; [reflexivity|]. split; [exact Hb|].
  split; [constructor|]. unfold classes, tagged, ck_new; simpl. rewrite tag_from_repeat_empty. apply perm_nil.
Qed.

Theorem new_filter_live_elements_found bsize fpl retries ops :
  2 ^ j * bsize < two64 -> 1 <= bsize ->
  let f0 := ck_new (2 ^ j) bsize fpl retries in
  usage_ok f0 [] ops ->
  forall x, In x (snd (lrun f0 [] ops)) -> ck_lookup h64 (fst (lrun f0 [] ops)) x = Ok true.
Proof. intros Hc Hb f0 Hu. apply live_elements_found; [apply LInv_new; assumption|exact Hu]. Qed.
End History.

(* a boolean checker for usage_ok (used to exhibit concrete histories that satisfy it) *)
Section UsageB.
Variable h64 : bytes -> N.
Fixpoint usage_okb (f : cuckoo) (L : list bytes) (ops : list lop) : bool :=
  match ops with
  | [] => true
  | LIns x coin draws :: t =>
      fp_ok h64 (q_fpl f) x && forallb (fun k => k <? 2 ^ 53) draws &&
      match ck_insert h64 f x false coin draws with
      | InsOk f' => usage_okb f' (x :: L) t
      | InsFull f' | InsPanic _ f' => usage_okb f' L t
      end
  | LRem x :: t =>
      existsb (bytes_eqb x) L &&
      match ck_remove h64 f x with
      | Ok (true, f') => usage_okb f' (remove_one x L) t
      | Ok (false, f') => usage_okb f' L t
      | _ => usage_okb f L t
      end
  end.

Lemma usage_okb_sound ops : forall f L, usage_okb f L ops = true -> usage_ok h64 f L ops.
Proof.
  induction ops as [|[x coin draws|x] t IH]; intros f L H; cbn [usage_okb usage_ok] in *; [exact I|..].
  - apply andb_prop in H. destruct H as [H H3]. apply andb_prop in H. destruct H as [H1 H2].
    split; [exact H1|]. split.
    + rewrite forallb_forall in H2. apply Forall_forall. intros k Hk. specialize (H2 k Hk). lia.
    + destruct (ck_insert h64 f x false coin draws); apply IH; exact H3.
  - apply andb_prop in H. destruct H as [H1 H2]. split.
    + apply existsb_exists in H1. destruct H1 as (y & Hy & E). apply bytes_eqb_eq in E. subst. exact Hy.
    + destruct (ck_remove h64 f x) as [[[|] f']|?|?]; apply IH; exact H2.
Qed.
End UsageB.
