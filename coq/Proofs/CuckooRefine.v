(* C08 for the cuckoo filter: as long as no insert has to relocate a stored fingerprint, the
   Redis-backed filter and the in-memory filter give the same answers on every history -- Insert
   returns in both, Remove answers alike, every Lookup answers alike and Length is the same --
   although their slot layouts differ (the in-memory bucket fills its first empty slot, the Redis
   bucket reuses an emptied position or pushes at the head of its list). The refinement relation
   says that corresponding buckets hold the same multiset of non-empty fingerprints. *)
From GX.Model Require Import Base Redis RedisCMS Cuckoo RedisCuckoo.
From GX.Proofs Require Import ListLemmas CuckooProofs CuckooInv RedisProofs RedisCuckooInv.
From Coq Require Import Permutation Lia ZArith ZifyN ZifyNat ZifyBool.

Definition live (l : list bytes) : list bytes := filter nonempty l.

Lemma occ_live l : occ l = length (live l).
Proof. reflexivity. Qed.

Lemma live_setnth_add (l : list bytes) : forall p (e : bytes), nth_error l p = Some [] -> e <> [] ->
  Permutation (live (setnth l p e)) (e :: live l).
Proof.
  induction l as [|a t IH]; intros [|p] e Hn He; cbn in Hn; try discriminate.
  - injection Hn as ->. unfold setnth; cbn [upd live filter nonempty].
    apply nonempty_true in He. rewrite He. apply Permutation_refl.
  - unfold setnth in *. cbn [upd live filter]. fold (live t). fold (live (upd t p (fun _ => e))).
    destruct (nonempty a).
    + eapply perm_trans; [apply perm_skip; apply (IH p e Hn He)|apply perm_swap].
    + apply (IH p e Hn He).
Qed.

Lemma live_setnth_remove (l : list bytes) : forall p (e : bytes), nth_error l p = Some e -> e <> [] ->
  Permutation (e :: live (setnth l p [])) (live l).
Proof.
  induction l as [|a t IH]; intros [|p] e Hn He; cbn in Hn; try discriminate.
  - injection Hn as ->. unfold setnth; cbn [upd live filter nonempty].
    apply nonempty_true in He. rewrite He. apply Permutation_refl.
  - unfold setnth in *. cbn [upd live filter]. fold (live t). fold (live (upd t p (fun _ => []))).
    destruct (nonempty a).
    + eapply perm_trans; [apply perm_swap|apply perm_skip; apply (IH p e Hn He)].
    + apply (IH p e Hn He).
Qed.

Lemma live_cons_ne (e : bytes) l : e <> [] -> live (e :: l) = e :: live l.
Proof. intros He. apply nonempty_true in He. unfold live; cbn [filter]. rewrite He. reflexivity. Qed.

Lemma in_live (l : list bytes) (e : bytes) : e <> [] -> (In e (live l) <-> In e l).
Proof.
  intros He. unfold live. rewrite filter_In. apply nonempty_true in He. split; [tauto|]. intros H; split; assumption.
Qed.

Definition memb (l : list bytes) (e : bytes) : bool :=
  match index_of bytes_eqb l e 0 with Some _ => true | None => false end.

Lemma memb_in l e : memb l e = true <-> In e l.
Proof.
  unfold memb. destruct (index_of bytes_eqb l e 0) as [p|] eqn:E.
  - split; [|reflexivity]. intros _. apply index_of_spec in E. destruct E as [_ Hn]. eapply nth_error_In; eauto.
  - split; [discriminate|]. intros Hin. exfalso. exact (index_of_none l e 0 E Hin).
Qed.

Lemma memb_perm l1 l2 (e : bytes) : Permutation (live l1) (live l2) -> e <> [] -> memb l1 e = memb l2 e.
Proof.
  intros P He. apply eq_true_iff_eq. rewrite !memb_in. rewrite <- (in_live l1 e He), <- (in_live l2 e He).
  split; intros H; [eapply Permutation_in; eauto|eapply Permutation_in; [apply Permutation_sym|]; eauto].
Qed.

(* a well-formed in-memory bucket with room has an empty slot: add takes the first one *)
Lemma bk_add_slots bs b (e : bytes) : bk_wf bs b -> bs < two64 -> bk_is_free b = true -> e <> [] ->
  exists p, nth_error (k_slots b) p = Some [] /\
    bk_add b e = Ok (true, mkBucket (k_size b) (wrap64 (k_len b + 1)) (setnth (k_slots b) p e)).
Proof.
  intros (Hs & Hl & Hc) Hbs Hf He. unfold bk_add. destruct e as [|e0 e']; [congruence|].
  rewrite Hf. cbn [negb]. unfold bk_index_of.
  destruct (index_of bytes_eqb (k_slots b) [] 0) as [p|] eqn:Ep.
  - exists p. apply index_of_spec in Ep. destruct Ep as [_ Hn]. rewrite Nat.sub_0_r in Hn. split; [exact Hn|reflexivity].
  - exfalso. pose proof (RedisCuckooInv.no_empty_all_occ _ Ep) as Hall. unfold bk_is_free in Hf. lia.
Qed.

Lemma bk_remove_slots b (e : bytes) : bk_lookup b e = true ->
  exists p, nth_error (k_slots b) p = Some e /\
    bk_remove b e = (true, mkBucket (k_size b) (wrap64 (k_len b + two64 - 1)) (setnth (k_slots b) p [])).
Proof.
  unfold bk_lookup, bk_remove, bk_index_of. destruct (index_of bytes_eqb (k_slots b) e 0) as [p|] eqn:Ep; [|discriminate].
  intros _. exists p. apply index_of_spec in Ep. destruct Ep as [_ Hn]. rewrite Nat.sub_0_r in Hn. split; [exact Hn|reflexivity].
Qed.

Section Refine.
Variable key meta : bytes.
Variable size bsize fpl retries : N.
Hypothesis meta_not_bucket : forall i, meta <> bucket_key key i.
Hypothesis meta_not_len : forall i, meta <> len_key (bucket_key key i).
Hypothesis bsize_pos : 1 <= bsize.
Hypothesis bsize_small : bsize < 2 ^ 62.
Hypothesis size_pos : 0 < size.
Variable h64 : bytes -> N.

Notation H := (hdl key meta size bsize fpl retries).
Notation bl := (blist key).
Notation bkey := (bucket_key key).

(* corresponding buckets hold the same fingerprints, as multisets *)
Definition same_bucket (f : cuckoo) (s : store) (i : N) : Prop :=
  exists b, get_bucket f i = Ok b /\ Permutation (live (k_slots b)) (live (bl s i)).

Definition CR (f : cuckoo) (s : store) : Prop :=
  ck_inv f /\ RI key meta size bsize s /\ params f = (size, bsize, fpl, retries) /\
  forall i, i < size -> same_bucket f s i.

Lemma params_eqs f : params f = (size, bsize, fpl, retries) ->
  q_size f = size /\ q_bsize f = bsize /\ q_fpl f = fpl /\ q_retries f = retries.
Proof. unfold params. intros [= -> -> -> ->]. auto. Qed.

Lemma positions_same f x : params f = (size, bsize, fpl, retries) ->
  rck_positions h64 H x = ck_positions h64 f x.
Proof.
  intros Hp. destruct (params_eqs f Hp) as (Hs & _ & Hf & _).
  unfold rck_positions, ck_positions. cbn [q_fpl q_size rq_size rq_bsize rq_fpl rq_retries hdl].
  rewrite Hs, Hf. reflexivity.
Qed.

Lemma get_bucket_incr f j : get_bucket (incr_len f) j = get_bucket f j.
Proof. reflexivity. Qed.
Lemma get_bucket_decr f j : get_bucket (decr_len f) j = get_bucket f j.
Proof. reflexivity. Qed.

Lemma bucket_facts f s i b : CR f s -> i < size -> get_bucket f i = Ok b ->
  bk_wf bsize b /\ bwf key bsize s i /\ Permutation (live (k_slots b)) (live (bl s i)).
Proof.
  intros (Hinv & HRI & Hp & Hsame) Hi Hg. destruct (params_eqs f Hp) as (_ & Hb & _ & _).
  destruct Hinv as [HBW _]. pose proof (BW_bucket_wf f i b HBW Hg) as Hwf. rewrite Hb in Hwf.
  destruct HRI as [Hok _]. destruct (Hsame i Hi) as (b' & Hg' & P). rewrite Hg in Hg'. injection Hg' as <-.
  split; [exact Hwf|]. split; [exact (Hok i Hi)|exact P].
Qed.

Lemma free_same f s i b : CR f s -> i < size -> get_bucket f i = Ok b ->
  bk_is_free b = rbk_is_free s (bkey i) bsize.
Proof.
  intros HC Hi Hg. destruct (bucket_facts f s i b HC Hi Hg) as ((Hs & Hl & Hc) & Hwf & P).
  apply eq_true_iff_eq. rewrite (free_iff key meta bsize meta_not_bucket meta_not_len bsize_pos bsize_small s i Hwf).
  unfold bk_is_free. rewrite Hs, Hc. pose proof (Permutation_length P) as HL. rewrite <- !occ_live in HL. lia.
Qed.

Lemma lookup_same f s i b (e : bytes) : CR f s -> i < size -> get_bucket f i = Ok b -> e <> [] ->
  bk_lookup b e = rbk_lookup s (bkey i) e.
Proof.
  intros HC Hi Hg He. destruct (bucket_facts f s i b HC Hi Hg) as (_ & _ & P).
  change (bk_lookup b e) with (memb (k_slots b) e). change (rbk_lookup s (bkey i) e) with (memb (bl s i) e).
  apply memb_perm; assumption.
Qed.

Lemma CR_positions f s x : CR f s -> fp_ok h64 fpl x = true ->
  exists fp i1 i2 b1 b2, ck_positions h64 f x = Ok (fp, i1, i2) /\ rck_positions h64 H x = Ok (fp, i1, i2) /\
    fp <> [] /\ i1 < size /\ i2 < size /\ get_bucket f i1 = Ok b1 /\ get_bucket f i2 = Ok b2.
Proof.
  intros HC Hok. pose proof HC as (_ & _ & Hp & Hsame).
  destruct (rpositions_ok key meta size bsize meta_not_bucket meta_not_len bsize_pos bsize_small fpl retries h64 size_pos x Hok)
    as (fp & i1 & i2 & Hpos & Hne & H1 & H2).
  destruct (Hsame i1 H1) as (b1 & Hg1 & _). destruct (Hsame i2 H2) as (b2 & Hg2 & _).
  exists fp, i1, i2, b1, b2. rewrite <- (positions_same f x Hp). auto 10.
Qed.

(* every Lookup answers alike *)
Theorem cuckoo_lookup_refines f s x : CR f s -> fp_ok h64 fpl x = true ->
  ck_lookup h64 f x = rck_lookup h64 s H x.
Proof.
  intros HC Hok. destruct (CR_positions f s x HC Hok) as (fp & i1 & i2 & b1 & b2 & Hc & Hr & Hne & H1 & H2 & Hg1 & Hg2).
  unfold ck_lookup, rck_lookup. rewrite Hc, Hr. cbn [obind]. rewrite Hg1. cbn [obind].
  cbn [rq_size rq_key hdl]. replace (size =? 0) with false by lia.
  rewrite <- (lookup_same f s i1 b1 fp HC H1 Hg1 Hne).
  destruct (bk_lookup b1 fp); [reflexivity|]. rewrite Hg2. cbn [obind].
  rewrite <- (lookup_same f s i2 b2 fp HC H2 Hg2 Hne). reflexivity.
Qed.

(* Length is the same *)
Theorem cuckoo_length_refines f s : CR f s -> size * bsize < two64 -> q_len f = rck_length s H.
Proof.
  intros HC Hcap. pose proof HC as (Hinv & HRI & Hp & Hsame).
  rewrite (length_is_tot key meta size bsize meta_not_bucket meta_not_len bsize_pos bsize_small fpl retries h64 s Hcap HRI).
  destruct (inv_length_is_stored f Hinv) as [Hl _]. rewrite Hl. f_equal.
  destruct Hinv as [(_ & Hlen & _) _]. destruct (params_eqs f Hp) as (Hs & _).
  unfold stored, tot. rewrite Hs in Hlen.
  (* bucket by bucket *)
  assert (Hmap : map (fun b => occ (k_slots b)) (q_buckets f) = map (fun i => occ (bl s i)) (nseq size)).
  { apply nth_ext with (d := 0%nat) (d' := 0%nat).
    - rewrite !map_length. unfold nseq. rewrite map_length, seq_length. exact Hlen.
    - intros n Hn. rewrite map_length in Hn.
      assert (Hn' : N.of_nat n < size) by lia.
      destruct (Hsame _ Hn') as (b & Hg & P). apply get_bucket_spec in Hg. destruct Hg as [_ Hnth]. rewrite Nat2N.id in Hnth.
      rewrite (nth_indep _ 0%nat (occ (k_slots b))) by (rewrite map_length; exact Hn).
      rewrite (map_nth (fun b => occ (k_slots b)) (q_buckets f) b n). rewrite (nth_error_nth _ _ _ Hnth).
      unfold nseq. rewrite map_map.
      rewrite (nth_indep _ 0%nat (occ (bl s (N.of_nat 0)))) by (rewrite map_length, seq_length; lia).
      rewrite (map_nth (fun k => occ (bl s (N.of_nat k))) (seq 0 (N.to_nat size)) 0%nat n).
      rewrite seq_nth by lia. cbn [plus]. rewrite !occ_live. apply Permutation_length. exact P. }
  rewrite Hmap. reflexivity.
Qed.

(* the store after a bucket script followed by HINCRBY: lists as after the script *)
Lemma hincr_lists s0 d c j : mlen meta s0 = Some c -> bl (hincr s0 H d) j = bl s0 j.
Proof.
  intros Hm. destruct (hincr_view key meta size bsize meta_not_bucket meta_not_len fpl retries s0 d c Hm) as [_ Hv].
  exact (proj1 (Hv j)).
Qed.

(* an Insert that finds room in one of the two candidate buckets: both variants store the
   fingerprint in the same bucket and return *)
Lemma cuckoo_insert_refines f s x d c dr : CR f s -> fp_ok h64 fpl x = true -> Forall (fun k => k < 2 ^ 53) dr ->
  (exists fp i1 i2 b1 b2, ck_positions h64 f x = Ok (fp, i1, i2) /\ get_bucket f i1 = Ok b1 /\ get_bucket f i2 = Ok b2 /\
     (bk_is_free b1 = true \/ bk_is_free b2 = true)) ->
  exists f' s', ck_insert h64 f x d c dr = InsOk f' /\ rck_insert h64 s H x d c dr = RInsOk s' /\ CR f' s'.
Proof.
  intros HC Hok Hdr (fp & i1 & i2 & b1 & b2 & Hc & Hg1 & Hg2 & Hfree).
  destruct (CR_positions f s x HC Hok) as (fp' & i1' & i2' & b1' & b2' & Hc' & Hr & Hne & H1 & H2 & Hg1' & Hg2').
  rewrite Hc in Hc'. injection Hc' as <- <- <-. rewrite Hg1 in Hg1'. injection Hg1' as <-. rewrite Hg2 in Hg2'. injection Hg2' as <-.
  pose proof HC as (Hinv & HRI & Hp & Hsame). destruct (params_eqs f Hp) as (Hs & Hb & Hfpl & Hret).
  (* the bucket both variants choose *)
  set (i := if bk_is_free b1 then i1 else i2).
  set (b := if bk_is_free b1 then b1 else b2).
  assert (Hi : i < size) by (unfold i; destruct (bk_is_free b1); assumption).
  assert (Hg : get_bucket f i = Ok b) by (unfold i, b; destruct (bk_is_free b1); assumption).
  assert (Hbf : bk_is_free b = true) by (unfold b; destruct (bk_is_free b1) eqn:E; [exact E|destruct Hfree; [congruence|assumption]]).
  destruct (bucket_facts f s i b HC Hi Hg) as (Hwf & Hbwf & P).
  assert (Hbs : bsize < two64) by (assert (2 ^ 62 < two64) by (vm_compute; reflexivity); lia).
  destruct (bk_add_slots bsize b fp Hwf Hbs Hbf Hne) as (p & Hp0 & Hadd).
  set (b' := mkBucket (k_size b) (wrap64 (k_len b + 1)) (setnth (k_slots b) p fp)) in *.
  assert (Hmem : ck_insert h64 f x d c dr = InsOk (incr_len (set_bucket f i b'))).
  { unfold ck_insert. rewrite Hc, Hg1. unfold i, b in *. destruct (bk_is_free b1) eqn:E1.
    - unfold add_at. rewrite Hg1. cbn [obind]. rewrite Hadd. cbn [obind snd]. reflexivity.
    - rewrite Hg2, Hbf. unfold add_at. rewrite Hg2. cbn [obind]. rewrite Hadd. cbn [obind snd]. reflexivity. }
  assert (Hrf : rbk_is_free s (bkey i) bsize = true) by (rewrite <- (free_same f s i b HC Hi Hg); exact Hbf).
  set (s1 := rbk_add s (bkey i) bsize fp).
  assert (Hred : rck_insert h64 s H x d c dr = RInsOk (hincr s1 H 1)).
  { unfold rck_insert. rewrite Hr. cbn [rq_size rq_key rq_bsize hdl]. replace (size =? 0) with false by lia.
    rewrite <- (free_same f s i1 b1 HC H1 Hg1). unfold s1, i, b in *. destruct (bk_is_free b1) eqn:E1; [reflexivity|].
    rewrite <- (free_same f s i2 b2 HC H2 Hg2), Hbf. reflexivity. }
  exists (incr_len (set_bucket f i b')), (hincr s1 H 1). split; [exact Hmem|]. split; [exact Hred|].
  (* invariants through the single-variant theorems *)
  assert (Hokf : fp_ok h64 (q_fpl f) (cop_elem (CIns x d c dr)) = true) by (rewrite Hfpl; exact Hok).
  destruct (cstep_inv h64 f (CIns x d c dr) Hinv Hokf) as (Hinv' & Hp' & _).
  cbn [cstep] in Hinv', Hp'. rewrite Hmem in Hinv', Hp'.
  destruct (rstep_RI key meta size bsize meta_not_bucket meta_not_len bsize_pos bsize_small fpl retries h64 size_pos
              s (RIns x d c dr) HRI Hok Hdr) as (HRI' & _).
  cbn [rstep] in HRI'. rewrite Hred in HRI'.
  split; [exact Hinv'|]. split; [exact HRI'|]. split; [congruence|].
  (* the buckets *)
  destruct (add_view key meta bsize meta_not_bucket meta_not_len bsize_pos bsize_small s i fp Hbwf Hne Hrf) as (_ & _ & Hob).
  fold s1 in Hob. destruct Hob as [Hothers Hml].
  destruct HRI as [_ Hm]. rewrite <- Hml in Hm.
  intros j Hj. unfold same_bucket. rewrite get_bucket_incr, (hincr_lists s1 1%Z _ j Hm).
  destruct (N.eq_dec j i) as [->|Hji].
  - exists b'. split; [apply (get_bucket_set_same f i b b' Hg)|]. cbn [k_slots b'].
    eapply perm_trans; [apply (live_setnth_add _ p fp Hp0 Hne)|].
    unfold s1. rewrite (add_list key meta size bsize meta_not_bucket meta_not_len bsize_pos bsize_small h64 size_pos s i fp Hbwf Hne Hrf).
    destruct (index_of bytes_eqb (bl s i) [] 0) as [q|] eqn:Eq.
    + apply index_of_spec in Eq. destruct Eq as [_ Hq]. rewrite Nat.sub_0_r in Hq.
      eapply perm_trans; [apply perm_skip; exact P|]. apply Permutation_sym. apply (live_setnth_add _ q fp Hq Hne).
    + rewrite (live_cons_ne fp _ Hne). apply perm_skip. exact P.
  - destruct (Hsame j Hj) as (bj & Hgj & Pj). exists bj. split.
    + rewrite (get_bucket_set_other f i j b') by congruence. exact Hgj.
    + rewrite (proj1 (Hothers j Hji)). exact Pj.
Qed.

(* Remove: both variants look in the first candidate bucket, then in the second, clear one
   occurrence of the fingerprint there, and answer alike *)
Lemma cuckoo_remove_refines f s x : CR f s -> fp_ok h64 fpl x = true ->
  exists r f' s', ck_remove h64 f x = Ok (r, f') /\ rck_remove h64 s H x = (Ok r, s') /\ CR f' s'.
Proof.
  intros HC Hok.
  destruct (CR_positions f s x HC Hok) as (fp & i1 & i2 & b1 & b2 & Hc & Hr & Hne & H1 & H2 & Hg1 & Hg2).
  pose proof HC as (Hinv & HRI & Hp & Hsame). destruct (params_eqs f Hp) as (Hs & Hb & Hfpl & Hret).
  assert (Hokf : fp_ok h64 (q_fpl f) (cop_elem (CRem x)) = true) by (rewrite Hfpl; exact Hok).
  pose proof (cstep_inv h64 f (CRem x) Hinv Hokf) as (Hinv' & Hp' & _).
  pose proof (rstep_RI key meta size bsize meta_not_bucket meta_not_len bsize_pos bsize_small fpl retries h64 size_pos
              s (RRem x) HRI Hok (Forall_nil _)) as (HRI' & _).
  cbn [cstep] in Hinv', Hp'. cbn [rstep] in HRI'.
  (* one bucket i holding fp: what both variants do to it *)
  assert (Hone : forall i b, i < size -> get_bucket f i = Ok b -> bk_lookup b fp = true ->
            forall f' s', f' = decr_len (set_bucket f i (snd (bk_remove b fp))) -> s' = hincr (rbk_remove s (bkey i) fp) H (-1) ->
            forall j, j < size -> same_bucket f' s' j).
  { intros i b Hi Hg Hl f' s' -> -> j Hj.
    destruct (bucket_facts f s i b HC Hi Hg) as (Hwf & Hbwf & P).
    assert (Hrl : rbk_lookup s (bkey i) fp = true) by (rewrite <- (lookup_same f s i b fp HC Hi Hg Hne); exact Hl).
    destruct (bk_remove_slots b fp Hl) as (p & Hp0 & Hrem). rewrite Hrem. cbn [snd].
    destruct (remove_view key meta bsize meta_not_bucket meta_not_len bsize_pos bsize_small s i fp Hbwf Hne Hrl) as (_ & _ & Hob).
    destruct Hob as [Hothers Hml]. destruct HRI as [_ Hm]. rewrite <- Hml in Hm.
    unfold same_bucket. rewrite get_bucket_decr, (hincr_lists _ (-1)%Z _ j Hm).
    destruct (N.eq_dec j i) as [->|Hji].
    - eexists. split; [apply (get_bucket_set_same f i b _ Hg)|]. cbn [k_slots].
      destruct (remove_list key meta size bsize meta_not_bucket meta_not_len bsize_pos bsize_small h64 size_pos s i fp Hbwf Hne Hrl)
        as (q & Hq & Hlist).
      rewrite Hlist. apply (Permutation_cons_inv (a := fp)).
      eapply perm_trans; [apply (live_setnth_remove _ p fp Hp0 Hne)|].
      eapply perm_trans; [exact P|]. apply Permutation_sym. apply (live_setnth_remove _ q fp Hq Hne).
    - destruct (Hsame j Hj) as (bj & Hgj & Pj). exists bj. split.
      + rewrite (get_bucket_set_other f i j _) by congruence. exact Hgj.
      + rewrite (proj1 (Hothers j Hji)). exact Pj. }
  unfold ck_remove in *. unfold rck_remove in *. rewrite Hc in *. rewrite Hr in *. cbn [obind] in *.
  rewrite Hg1 in *. cbn [obind] in *. cbn [rq_size rq_key hdl] in *. replace (size =? 0) with false in * by lia.
  rewrite <- (lookup_same f s i1 b1 fp HC H1 Hg1 Hne) in *.
  destruct (bk_lookup b1 fp) eqn:L1.
  - eexists true, _, _. split; [reflexivity|]. split; [reflexivity|]. cbn [snd] in HRI'.
    split; [exact Hinv'|]. split; [exact HRI'|]. split; [congruence|].
    exact (Hone i1 b1 H1 Hg1 L1 _ _ eq_refl eq_refl).
  - rewrite Hg2 in *. cbn [obind] in *. rewrite <- (lookup_same f s i2 b2 fp HC H2 Hg2 Hne) in *.
    destruct (bk_lookup b2 fp) eqn:L2.
    + eexists true, _, _. split; [reflexivity|]. split; [reflexivity|]. cbn [snd] in HRI'.
      split; [exact Hinv'|]. split; [exact HRI'|]. split; [congruence|].
      exact (Hone i2 b2 H2 Hg2 L2 _ _ eq_refl eq_refl).
    + exists false, f, s. split; [reflexivity|]. split; [reflexivity|]. exact HC.
Qed.

(* ---------- every history without relocation ---------- *)
Definition to_rop (o : cop) : rop :=
  match o with CIns x d c dr => RIns x d c dr | CRem x => RRem x end.

(* the insert finds room in one of its two candidate buckets (in the in-memory filter; by the
   relation, equivalently in the Redis one) *)
Definition no_reloc (f : cuckoo) (o : cop) : Prop :=
  match o with
  | CIns x _ _ _ => exists fp i1 i2 b1 b2, ck_positions h64 f x = Ok (fp, i1, i2) /\ get_bucket f i1 = Ok b1 /\
                      get_bucket f i2 = Ok b2 /\ (bk_is_free b1 = true \/ bk_is_free b2 = true)
  | CRem _ => True
  end.
Fixpoint no_reloc_run (f : cuckoo) (ops : list cop) : Prop :=
  match ops with [] => True | o :: t => no_reloc f o /\ no_reloc_run (cstep h64 f o) t end.

(* what the caller sees of each call: +1 an Insert that returned, -1 a Remove that answered true *)
Fixpoint ctrace (f : cuckoo) (ops : list cop) : list Z :=
  match ops with [] => [] | o :: t => cdelta h64 f o :: ctrace (cstep h64 f o) t end.
Fixpoint rtrace (s : store) (ops : list rop) : list Z :=
  match ops with
  | [] => []
  | o :: t => rdelta key meta size bsize fpl retries h64 s o :: rtrace (rstep key meta size bsize fpl retries h64 s o) t
  end.

Definition op_ok (o : cop) : Prop :=
  fp_ok h64 fpl (cop_elem o) = true /\ Forall (fun k => k < 2 ^ 53) (rop_draws (to_rop o)).

Lemma cuckoo_step_refines f s o : CR f s -> op_ok o -> no_reloc f o ->
  CR (cstep h64 f o) (rstep key meta size bsize fpl retries h64 s (to_rop o)) /\
  cdelta h64 f o = rdelta key meta size bsize fpl retries h64 s (to_rop o).
Proof.
  intros HC (Hok & Hdr) Hnr. destruct o as [x d c dr|x]; cbn [to_rop cstep rstep cdelta rdelta cop_elem rop_draws] in *.
  - destruct (cuckoo_insert_refines f s x d c dr HC Hok Hdr Hnr) as (f' & s' & -> & -> & HC'). split; [exact HC'|reflexivity].
  - destruct (cuckoo_remove_refines f s x HC Hok) as (r & f' & s' & -> & -> & HC'). cbn [fst snd]. split; [exact HC'|reflexivity].
Qed.

Theorem cuckoo_history_refines ops : forall f s, CR f s -> Forall op_ok ops -> no_reloc_run f ops ->
  ctrace f ops = rtrace s (map to_rop ops) /\
  CR (fst (crun h64 f ops)) (fst (rrun_ops key meta size bsize fpl retries h64 s (map to_rop ops))).
Proof.
  induction ops as [|o t IH]; intros f s HC Hall Hnr; cbn [ctrace rtrace map crun rrun_ops fst]; [split; [reflexivity|exact HC]|].
  inversion Hall as [|? ? Ho Ht]; subst. destruct Hnr as [Hn1 Hn2].
  destruct (cuckoo_step_refines f s o HC Ho Hn1) as (HC1 & Hd).
  destruct (IH _ _ HC1 Ht Hn2) as (Htr & HC2). split; [rewrite Hd, Htr; reflexivity|exact HC2].
Qed.

(* the two new filters are related *)
Lemma list_sum_zero l : list_sum l = 0%nat -> forall x, In x l -> x = 0%nat.
Proof.
  induction l as [|a t IH]; intros Hs x Hx; [destruct Hx|]. cbn [list_sum fold_right] in Hs.
  change (fold_right Nat.add 0%nat t) with (list_sum t) in Hs. destruct Hx as [<-|Hx]; [lia|apply IH; [lia|exact Hx]].
Qed.

Theorem cuckoo_new_refines s0 : size * bsize < two64 -> meta <> key ->
  (forall i, i < size -> sget s0 (bkey i) = None /\ sget s0 (len_key (bkey i)) = None) ->
  CR (ck_new size bsize fpl retries) (snd (rck_new s0 size bsize fpl retries key meta)).
Proof.
  intros Hcap Hmk Hfresh.
  destruct (rck_new_RI key meta size bsize meta_not_bucket meta_not_len bsize_pos bsize_small fpl retries h64 size_pos s0 Hmk Hfresh) as (HRI & Htot).
  split; [apply ck_new_inv; exact Hcap|]. split; [exact HRI|]. split; [reflexivity|].
  intros i Hi. unfold same_bucket, ck_new, get_bucket, nthN. cbn [q_buckets].
  rewrite repeat_length. replace (i <? N.of_nat (N.to_nat size)) with true by lia.
  rewrite (nth_error_repeat (bk_new bsize)) by lia.
  eexists. split; [reflexivity|]. cbn [bk_new k_slots].
  assert (E1 : forall n, live (repeat ([] : bytes) n) = []) by (induction n as [|n IHn]; [reflexivity|exact IHn]).
  rewrite E1.
  assert (Hz : occ (bl (snd (rck_new s0 size bsize fpl retries key meta)) i) = 0%nat).
  { apply (list_sum_zero _ Htot). apply in_map_iff. exists i. split; [reflexivity|]. apply In_nseq. exact Hi. }
  rewrite occ_live in Hz. apply length_zero_iff_nil in Hz. rewrite Hz. apply perm_nil.
Qed.
End Refine.
