(* TopKConc.v — C16 for the Redis-backed Top-K, the regime in which the clause holds: two clients
   insert two DIFFERENT elements that are not tracked yet, each call being its nine separate Redis
   round trips (update script, count script, ZCARD, ZRANGE, ZSCORE, ZADD, ZCARD ...), interleaved
   by ANY schedule. If the sorted set has room for both (its size + 2 <= k), then nothing is ever
   popped or removed: every entry that was tracked stays, each client that obtained a count ends
   up tracked, and the set has grown by exactly the number of such clients. (With a full set the
   recorded race can occur: C16_topk_refuted.) Nothing is assumed about the sketch: the count a
   client reads may be anything. *)
From GX.Model Require Import Base Redis RedisCMS RedisTopK Interleave.
From GX.Proofs Require Import ListLemmas RedisProofs TopKInv TopKFrame TopKRedisInv.
From Coq Require Import Permutation Lia ZifyN ZifyNat ZifyBool.

Lemma z_score_notin m z : ~ In m (names z) -> z_score m z = None.
Proof.
  induction z as [|y t IH]; intros H; [reflexivity|]. cbn [z_score].
  destruct (bytes_eqb (fst y) m) eqn:E.
  - apply bytes_eqb_eq in E. exfalso. apply H. left. exact E.
  - apply IH. intros Hin. apply H. right. exact Hin.
Qed.

Section TKConc.
Variable cpos : N -> N -> bytes -> list N.
Variable t : rtopk.
Notation hk := (rt_heap t).
Notation sk := (rt_sketch t).
Hypothesis rows_not_heap : forall r, row_key (rc_key sk) r <> hk.

Definition Krows : FrameProofs.keyset := fun k => exists r, k = row_key (rc_key sk) r.

(* the update script writes row lists only: the sorted set is untouched *)
Lemma update_keeps_zset s x c : r_zset (snd (rcms_update cpos s sk x c)) hk = r_zset s hk.
Proof.
  assert (Hk : ~ Krows hk) by (intros (r & E); exact (rows_not_heap r (eq_sym E))).
  assert (Hrow : forall r, Krows (row_key (rc_key sk) r)) by (intros r; exists r; reflexivity).
  assert (Hs : sget (snd (rcms_update cpos s sk x c)) hk = sget s hk).
  { unfold rcms_update.
    destruct (upd_cells s (rc_key sk) (positions_rc cpos sk x) (round53 c)) as [s'|] eqn:E; cbn [snd].
    - apply (upd_cells_frame' Krows (rc_key sk) Hrow _ _ _ _ E). exact Hk.
    - apply (upd_cells_partial_frame' Krows (rc_key sk) Hrow). exact Hk. }
  unfold r_zset. rewrite Hs. reflexivity.
Qed.

(* ---------- one client ---------- *)
Inductive phase :=
| PUpd | PCnt | PCard (f : N) | PDecide (f len : N) | PScore (f : N) | PAdd (f : N) | PAfter | PDone (r : N).

Definition count_prog (x : bytes) : prog :=
  Step L_EVAL (fun s => match rcms_count cpos s sk x with
                        | Ok f => (s, tk_counted t x f)
                        | _ => (s, Done 0)
                        end).

Definition prog_of (x : bytes) (c : N) (p : phase) : prog :=
  match p with
  | PUpd => topk_insert_prog cpos t x c
  | PCnt => count_prog x
  | PCard f => tk_counted t x f
  | PDecide f len => tk_decide t x f len
  | PScore f => tk_accepted t x f
  | PAdd f => tk_add t x f
  | PAfter => tk_after_add t
  | PDone r => Done r
  end.

Definition rank (p : phase) : nat :=
  match p with PUpd => 7 | PCnt => 6 | PCard _ => 5 | PDecide _ _ => 4 | PScore _ => 3 | PAdd _ => 2 | PAfter => 1 | PDone _ => 0 end.
Definition added (p : phase) : bool :=
  match p with PAfter => true | PDone r => r =? 1 | _ => false end.
Definition b2n (b : bool) : nat := if b then 1 else 0.
Definition phase_ok (p : phase) (z : list (bytes * N)) : Prop :=
  match p with PDecide _ len => len <= N.of_nat (length z) | _ => True end.
Definition is_done (p : phase) : bool := match p with PDone _ => true | _ => false end.

Section Pair.
Variable z0 : list (bytes * N).
Hypothesis z0_nodup : NoDup (names z0).
Hypothesis room : (length z0 + 2 <= N.to_nat (rt_k t))%nat.

Definition Inv (s : store) (x : bytes) (pa : phase) (y : bytes) (pb : phase) : Prop :=
  let z := r_zset s hk in
  NoDup (names z) /\ incl z0 z /\
  length z = (length z0 + b2n (added pa) + b2n (added pb))%nat /\
  (In x (names z) <-> added pa = true) /\ (In y (names z) <-> added pb = true) /\
  phase_ok pa z /\ phase_ok pb z.

Lemma Inv_sym s x pa y pb : Inv s x pa y pb -> Inv s y pb x pa.
Proof.
  intros (H1 & H2 & H3 & H4 & H5 & H6 & H7). unfold Inv.
  split; [exact H1|]. split; [exact H2|]. split; [lia|]. tauto.
Qed.

Lemma phase_ok_grow p z z' : (length z <= length z')%nat -> phase_ok p z -> phase_ok p z'.
Proof. destruct p; cbn [phase_ok]; auto. intros; lia. Qed.

(* one step of the client inserting x *)
Lemma step_a s x c pa y pb : x <> y -> Inv s x pa y pb -> is_done pa = false ->
  exists l g s' pa', prog_of x c pa = Step l g /\ g s = (s', prog_of x c pa') /\
                     Inv s' x pa' y pb /\ (rank pa' < rank pa)%nat.
Proof.
  intros Hxy (Hnd & Hincl & Hlen & Hx & Hy & Hoa & Hob) Hd.
  destruct pa as [| |f|f len|f|f| |r]; try discriminate; cbn [prog_of].
  - (* update script *)
    eexists _, _, _, PCnt. split; [reflexivity|]. split; [reflexivity|]. split; [|cbn; lia].
    unfold Inv. rewrite update_keeps_zset. cbn [added phase_ok] in *. tauto.
  - (* count script *)
    unfold count_prog. destruct (rcms_count cpos s sk x) as [f|e|e] eqn:E.
    + eexists _, _, s, (PCard f). split; [reflexivity|]. cbv beta. rewrite E. split; [reflexivity|]. split; [|cbn; lia].
      unfold Inv. cbn [added phase_ok] in *. tauto.
    + eexists _, _, s, (PDone 0). split; [reflexivity|]. cbv beta. rewrite E. split; [reflexivity|]. split; [|cbn; lia].
      unfold Inv. cbn [added phase_ok b2n] in *. tauto.
    + eexists _, _, s, (PDone 0). split; [reflexivity|]. cbv beta. rewrite E. split; [reflexivity|]. split; [|cbn; lia].
      unfold Inv. cbn [added phase_ok b2n] in *. tauto.
  - (* ZCARD *)
    eexists _, _, s, (PDecide f (N.of_nat (length (r_zset s hk)))). split; [reflexivity|]. split; [reflexivity|].
    split; [|cbn; lia]. unfold Inv. cbn [added phase_ok] in *. repeat split; try tauto. lia.
  - (* ZRANGE 0 0: accepted because the set is not full *)
    cbn [phase_ok added b2n] in *.
    assert (Hlt : (len <? rt_k t) = true).
    { apply N.ltb_lt. destruct (added pb); cbn [b2n] in Hlen; lia. }
    eexists _, _, s, (PScore f). split; [reflexivity|]. unfold tk_decide.
    split; [cbv beta zeta; rewrite Hlt; reflexivity|]. split; [|cbn; lia].
    unfold Inv. cbn [added phase_ok b2n] in *. tauto.
  - (* ZSCORE: x is not tracked *)
    cbn [added] in Hx.
    assert (Hnx : ~ In x (names (r_zset s hk))) by (intros Hin; apply Hx in Hin; discriminate).
    eexists _, _, s, (PAdd f). split; [reflexivity|]. unfold tk_accepted.
    split; [cbv beta; rewrite (z_score_notin x _ Hnx); reflexivity|]. split; [|cbn; lia].
    unfold Inv. cbn [added phase_ok b2n] in *. tauto.
  - (* ZADD *)
    cbn [added] in Hx.
    assert (Hnx : ~ In x (names (r_zset s hk))) by (intros Hin; apply Hx in Hin; discriminate).
    eexists _, _, (r_zadd s hk x (round53 f)), PAfter. split; [reflexivity|]. split; [reflexivity|]. split; [|cbn; lia].
    unfold Inv. unfold r_zadd. rewrite r_zset_put, (z_remove_absent x _ Hnx).
    set (z := r_zset s hk) in *. set (e := (x, round53 f)).
    pose proof (z_insert_perm e z) as P.
    assert (Pn : Permutation (names (z_insert e z)) (x :: names z)).
    { unfold names. change (x :: map fst z) with (map fst (e :: z)). apply Permutation_map. exact P. }
    cbn [added b2n phase_ok] in *.
    split; [eapply Permutation_NoDup; [apply Permutation_sym; exact Pn|]; constructor; assumption|].
    split; [intros a Ha; eapply Permutation_in; [apply Permutation_sym; exact P|]; right; apply Hincl; exact Ha|].
    split; [rewrite (Permutation_length P); cbn [length]; lia|].
    split; [split; [reflexivity|]; intros _; eapply Permutation_in; [apply Permutation_sym; exact Pn|]; left; reflexivity|].
    split.
    + rewrite <- Hy. split; intros Hin.
      * apply (Permutation_in _ Pn) in Hin. destruct Hin as [E|Hin]; [congruence|exact Hin].
      * eapply Permutation_in; [apply Permutation_sym; exact Pn|]. right. exact Hin.
    + split; [exact I|]. apply (phase_ok_grow pb z); [rewrite (Permutation_length P); cbn [length]; lia|exact Hob].
  - (* ZCARD after the add: no more than k entries, nothing is popped *)
    cbn [added b2n] in *.
    assert (Hle : (rt_k t <? N.of_nat (length (r_zset s hk))) = false).
    { apply N.ltb_ge. destruct (added pb); cbn [b2n] in Hlen; lia. }
    eexists _, _, s, (PDone 1). split; [reflexivity|]. unfold tk_after_add.
    split; [cbv beta; rewrite Hle; reflexivity|]. split; [|cbn; lia].
    unfold Inv. cbn [added phase_ok b2n]. replace (1 =? 1) with true by reflexivity. cbn [b2n]. tauto.
Qed.

Definition result_of (p : phase) : option N := match p with PDone r => Some r | _ => None end.

(* a client running alone to its end *)
Lemma run_alone x c y pb : x <> y -> forall n pa s fuel, Inv s x pa y pb -> (rank pa <= n)%nat -> (n < fuel)%nat ->
  exists s' r tr, run_prog fuel (prog_of x c pa) s = (s', Some r, tr) /\ Inv s' x (PDone r) y pb.
Proof.
  intros Hxy. induction n as [|n IH]; intros pa s fuel HI Hn Hf.
  - destruct pa; cbn [rank] in Hn; try lia. destruct fuel; [lia|]. cbn [run_prog prog_of]. eauto.
  - destruct (is_done pa) eqn:Hd.
    + destruct pa; try discriminate. destruct fuel; [lia|]. cbn [run_prog prog_of]. eauto.
    + destruct (step_a s x c pa y pb Hxy HI Hd) as (l & g & s1 & pa' & Ep & Eg & HI1 & Hr).
      destruct fuel; [lia|]. cbn [run_prog]. rewrite Ep, Eg.
      destruct (IH pa' s1 fuel HI1 ltac:(lia) ltac:(lia)) as (s2 & r & tr & Er & HI2).
      rewrite Er. eauto.
Qed.

(* every schedule *)
Theorem interleave_inv x cx y cy : x <> y -> forall sched fuel s pa pb, Inv s x pa y pb -> (8 <= fuel)%nat ->
  exists s' ra rb, interleave sched fuel (prog_of x cx pa) (prog_of y cy pb) s = (s', Some ra, Some rb) /\
                   Inv s' x (PDone ra) y (PDone rb).
Proof.
  intros Hxy. assert (Hyx : y <> x) by congruence.
  induction sched as [|turn sch IH]; intros fuel s pa pb HI Hf.
  - cbn [interleave].
    destruct (run_alone x cx y pb Hxy 7%nat pa s fuel HI ltac:(destruct pa; cbn; lia) ltac:(lia)) as (s1 & ra & tr1 & E1 & HI1).
    rewrite E1.
    destruct (run_alone y cy x (PDone ra) Hyx 7%nat pb s1 fuel (Inv_sym _ _ _ _ _ HI1) ltac:(destruct pb; cbn; lia) ltac:(lia))
      as (s2 & rb & tr2 & E2 & HI2).
    rewrite E2. exists s2, ra, rb. split; [reflexivity|]. apply Inv_sym. exact HI2.
  - destruct turn; cbn [interleave].
    + destruct (is_done pa) eqn:Hd.
      * destruct pa; try discriminate. cbn [prog_of]. apply (IH fuel s (PDone r) pb HI Hf).
      * destruct (step_a s x cx pa y pb Hxy HI Hd) as (l & g & s1 & pa' & Ep & Eg & HI1 & _).
        rewrite Ep, Eg. apply (IH fuel s1 pa' pb HI1 Hf).
    + destruct (is_done pb) eqn:Hd.
      * destruct pb; try discriminate. cbn [prog_of]. apply (IH fuel s pa (PDone r) HI Hf).
      * destruct (step_a s y cy pb x pa Hyx (Inv_sym _ _ _ _ _ HI) Hd) as (l & g & s1 & pb' & Ep & Eg & HI1 & _).
        rewrite Ep, Eg. apply (IH fuel s1 pa pb' (Inv_sym _ _ _ _ _ HI1) Hf).
Qed.
End Pair.

(* packaged: two concurrent inserts of two new, different elements into a sorted set with room for
   both, under any schedule *)
Theorem concurrent_inserts_with_room sched fuel s x cx y cy :
  (8 <= fuel)%nat -> x <> y ->
  NoDup (names (r_zset s hk)) -> ~ In x (names (r_zset s hk)) -> ~ In y (names (r_zset s hk)) ->
  (length (r_zset s hk) + 2 <= N.to_nat (rt_k t))%nat ->
  exists s' ra rb,
    interleave sched fuel (topk_insert_prog cpos t x cx) (topk_insert_prog cpos t y cy) s = (s', Some ra, Some rb) /\
    let z' := r_zset s' hk in
    NoDup (names z') /\ incl (r_zset s hk) z' /\
    length z' = (length (r_zset s hk) + b2n (N.eqb ra 1) + b2n (N.eqb rb 1))%nat /\
    (In x (names z') <-> ra = 1) /\ (In y (names z') <-> rb = 1).
Proof.
  intros Hf Hxy Hnd Hnx Hny Hroom.
  assert (HI : Inv (r_zset s hk) s x PUpd y PUpd).
  { unfold Inv. cbn [added b2n phase_ok]. split; [exact Hnd|]. split; [apply incl_refl|]. split; [lia|].
    split; [split; [intros H; contradiction|discriminate]|]. split; [split; [intros H; contradiction|discriminate]|]. auto. }
  destruct (interleave_inv (r_zset s hk) Hroom x cx y cy Hxy sched fuel s PUpd PUpd HI Hf)
    as (s' & ra & rb & Ei & (H1 & H2 & H3 & H4 & H5 & _)).
  exists s', ra, rb. split; [exact Ei|]. cbn [added] in *.
  split; [exact H1|]. split; [exact H2|]. split; [exact H3|].
  split; [rewrite H4; apply N.eqb_eq|rewrite H5; apply N.eqb_eq].
Qed.
End TKConc.
