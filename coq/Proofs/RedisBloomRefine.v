(* RedisBloomRefine.v — C08 for Bloom: the Redis-backed filter (SETBIT / GETBIT on a growing
   string) and the in-memory one (bits-and-blooms bitset that extends on Set) hold the same set of
   bits after the same inserts, so every Lookup answers identically — for every position function,
   size, number of hashes and every history. *)
From GX.Model Require Import Base Bloom Redis RedisCMS RedisBloom.
From GX.Proofs Require Import ListLemmas RedisProofs BloomProofs CuckooInv RedisBloomProofs.
From Coq Require Import ZArith Lia ZifyN ZifyNat ZifyBool.
Open Scope N_scope.

(* ---------- the in-memory bitset, exactly ---------- *)
Lemma bits_test_set_other bits i j : j <> i -> bits_test (bits_set bits i) j = bits_test bits j.
Proof.
  intros Hne. unfold bits_test, bits_set. destruct (N.to_nat i <? length bits)%nat eqn:E.
  - unfold setnth. apply nth_upd_other. lia.
  - apply Nat.ltb_ge in E. destruct (Nat.lt_ge_cases (N.to_nat j) (length bits)) as [Hj|Hj].
    + apply app_nth1. exact Hj.
    + rewrite (nth_overflow bits) by lia. rewrite app_nth2 by lia.
      destruct (Nat.lt_ge_cases (N.to_nat j - length bits) (N.to_nat i - length bits)) as [Hk|Hk].
      * rewrite app_nth1 by (rewrite repeat_length; exact Hk). apply nth_repeat.
      * rewrite app_nth2 by (rewrite repeat_length; exact Hk). rewrite repeat_length.
        assert (Hpos : (0 < N.to_nat j - length bits - (N.to_nat i - length bits))%nat) by lia.
        destruct (N.to_nat j - length bits - (N.to_nat i - length bits))%nat as [|n]; [lia|].
        destruct n; reflexivity.
Qed.

Lemma bits_test_set bits i j : bits_test (bits_set bits i) j = (j =? i) || bits_test bits j.
Proof.
  destruct (N.eqb_spec j i) as [->|Hne]; [apply bits_test_set_same|]. cbn [orb]. apply bits_test_set_other. exact Hne.
Qed.

(* ---------- the Redis string, exactly ---------- *)
Lemma testbit_lor_pow2_other x k k' : k' <> k -> N.testbit (N.lor x (2 ^ k)) k' = N.testbit x k'.
Proof. intros H. rewrite N.lor_spec, N.pow2_bits_false by (intros E; apply H; symmetry; exact E). apply orb_false_r. Qed.

Lemma grown_nth_beyond b byte k : N.of_nat (length b) <= k -> k <= byte ->
  nthN (grown b byte) k = Some 0.
Proof.
  intros H1 H2. unfold grown. replace (byte <? N.of_nat (length b)) with false by lia.
  unfold nthN. rewrite app_length, repeat_length.
  replace (k <? N.of_nat (length b + (N.to_nat byte + 1 - length b))) with true by lia.
  rewrite nth_error_app2 by lia. apply nth_error_repeat. lia.
Qed.

Lemma grown_nth_none b byte k : nthN b k = None -> byte < k -> nthN (grown b byte) k = None.
Proof.
  intros H1 H2. unfold nthN in H1. destruct (N.ltb_spec k (N.of_nat (length b))) as [Hk|Hk].
  - apply nth_error_None in H1. lia.
  - unfold grown. destruct (N.ltb_spec byte (N.of_nat (length b))); [unfold nthN; replace (k <? _) with false by lia; reflexivity|].
    unfold nthN. rewrite app_length, repeat_length. replace (k <? _) with false by lia. reflexivity.
Qed.

Lemma str_getbit_setbit_other b i j : j <> i -> str_getbit (str_setbit b i) j = str_getbit b j.
Proof.
  intros Hne. rewrite str_setbit_eq. unfold str_getbit.
  destruct (N.eq_dec (j / 8) (i / 8)) as [Eq|Nb].
  - (* same byte, another bit *)
    rewrite Eq. rewrite nthN_upd_same by apply grown_length.
    assert (Hbit : 7 - j mod 8 <> 7 - i mod 8).
    { intros E. apply Hne. pose proof (N.mod_lt j 8 ltac:(lia)). pose proof (N.mod_lt i 8 ltac:(lia)).
      rewrite (N.div_mod j 8), (N.div_mod i 8) by lia. lia. }
    destruct (nthN b (i / 8)) as [x|] eqn:E.
    + rewrite (grown_nth b (i / 8) (i / 8) x E). cbn [option_map]. apply testbit_lor_pow2_other. exact Hbit.
    + assert (Hlen : N.of_nat (length b) <= i / 8).
      { unfold nthN in E. destruct (N.ltb_spec (i / 8) (N.of_nat (length b))) as [Hk|Hk]; [|exact Hk].
        apply nth_error_None in E. lia. }
      rewrite grown_nth_beyond by lia. cbn [option_map].
      rewrite testbit_lor_pow2_other by exact Hbit. apply N.bits_0.
  - rewrite nthN_upd_other by (intros E; apply Nb; symmetry; exact E).
    destruct (nthN b (j / 8)) as [x|] eqn:E.
    + rewrite (grown_nth b (i / 8) (j / 8) x E). reflexivity.
    + assert (Hlen : N.of_nat (length b) <= j / 8).
      { unfold nthN in E. destruct (N.ltb_spec (j / 8) (N.of_nat (length b))) as [Hk|Hk]; [|exact Hk].
        apply nth_error_None in E. lia. }
      destruct (N.lt_ge_cases (i / 8) (j / 8)) as [Hlt|Hge].
      * rewrite grown_nth_none by assumption. reflexivity.
      * rewrite grown_nth_beyond by lia. apply N.bits_0.
Qed.

Lemma str_getbit_setbit b i j : str_getbit (str_setbit b i) j = (j =? i) || str_getbit b j.
Proof.
  destruct (N.eqb_spec j i) as [->|Hne]; [apply str_getbit_setbit_same|]. cbn [orb]. apply str_getbit_setbit_other. exact Hne.
Qed.

Lemma str_getbit_nil j : str_getbit [] j = false.
Proof. unfold str_getbit, nthN. cbn [length]. replace (j / 8 <? N.of_nat 0) with false by lia. reflexivity. Qed.

Lemma getbit_setbit s k i j : r_getbit (r_setbit1 s k i) k j = (j =? i) || r_getbit s k j.
Proof.
  unfold r_getbit, r_setbit1. rewrite r_get_set_same. rewrite str_getbit_setbit.
  destruct (r_get s k); [reflexivity|]. rewrite str_getbit_nil. reflexivity.
Qed.

Lemma forallb_ext' {A} (f g : A -> bool) l : (forall x, f x = g x) -> forallb f l = forallb g l.
Proof. intros H. induction l as [|a t IH]; [reflexivity|]. cbn [forallb]. rewrite H, IH. reflexivity. Qed.

Lemma bits_test_repeat_false n j : bits_test (repeat false n) j = false.
Proof. unfold bits_test. apply nth_repeat. Qed.

(* ---------- the refinement ---------- *)
Section Refine.
Variable bpos : N -> N -> bytes -> list N.

Definition brefines (s : store) (h : rbloom) (f : bloom) : Prop :=
  rb_nil h = false /\ rb_size h = b_size f /\ rb_k h = b_k f /\
  forall j, r_getbit s (rb_key h) j = bits_test (b_bits f) j.

Lemma fold_setbits_refine key l : forall s bits,
  (forall j, r_getbit s key j = bits_test bits j) ->
  forall j, r_getbit (fold_left (fun st i => r_setbit1 st key i) l s) key j = bits_test (fold_left bits_set l bits) j.
Proof.
  induction l as [|i t IH]; intros s bits H j; cbn [fold_left]; [apply H|].
  apply IH. intros j'. rewrite getbit_setbit, bits_test_set, H. reflexivity.
Qed.

Theorem bloom_insert_refines s h f x : brefines s h f ->
  fst (rbloom_insert bpos s h x) = Ok tt /\
  brefines (snd (rbloom_insert bpos s h x)) h (bloom_insert bpos f x).
Proof.
  intros (Hn & Hs & Hk & Hb). unfold rbloom_insert. rewrite Hn. cbn [fst snd]. split; [reflexivity|].
  unfold brefines. cbn [b_size b_k b_bits bloom_insert]. split; [exact Hn|]. split; [exact Hs|]. split; [exact Hk|].
  unfold bloom_positions. rewrite Hs, Hk. apply fold_setbits_refine. exact Hb.
Qed.

Theorem bloom_lookup_refines s h f x : brefines s h f ->
  rbloom_lookup bpos s h x = Ok (bloom_lookup bpos f x).
Proof.
  intros (Hn & Hs & Hk & Hb). unfold rbloom_lookup, bloom_lookup, bloom_positions. rewrite Hs, Hk, Hn.
  destruct (bpos (b_size f) (b_k f) x) as [|p ps] eqn:E; [reflexivity|]. f_equal.
  apply forallb_ext'. intros j. apply Hb.
Qed.

(* every history of inserts: both variants answer every Lookup alike *)
Definition rbrun' (s : store) (h : rbloom) (xs : list bytes) : store :=
  fold_left (fun st y => snd (rbloom_insert bpos st h y)) xs s.
Definition mbrun (f : bloom) (xs : list bytes) : bloom := fold_left (bloom_insert bpos) xs f.

Theorem bloom_history_refines xs : forall s h f, brefines s h f ->
  brefines (rbrun' s h xs) h (mbrun f xs).
Proof.
  induction xs as [|y t IH]; intros s h f H; cbn [rbrun' mbrun fold_left]; [exact H|].
  apply IH. apply bloom_insert_refines. exact H.
Qed.

Theorem redis_and_memory_bloom_agree s h f xs x : brefines s h f ->
  rbloom_lookup bpos (rbrun' s h xs) h x = Ok (bloom_lookup bpos (mbrun f xs) x).
Proof. intros H. apply bloom_lookup_refines. apply bloom_history_refines. exact H. Qed.
End Refine.

(* a fresh filter of each kind built from the same (size, k) *)
Theorem bloom_new_refines s size0 k0 key meta h s' f :
  rbloom_new s size0 k0 key meta = (Ok h, s') -> bloom_new_params size0 k0 = Ok f -> meta <> key ->
  brefines s' h f.
Proof.
  unfold rbloom_new, bloom_new_params, bloom_with_bitset. intros [= <- <-] Hf Hmk.
  destruct (negb (size0 =? N.max size0 1)) eqn:E; [discriminate|]. injection Hf as <-.
  unfold brefines. cbn [rb_nil rb_size rb_k rb_key b_size b_k b_bits].
  split; [reflexivity|]. split; [lia|]. split; [lia|].
  intros j. rewrite bits_test_repeat_false. unfold r_getbit, r_hset, r_get.
  rewrite sget_sset_other by (intros E'; apply Hmk; symmetry; exact E').
  unfold r_set. rewrite sget_sset_same. unfold str_getbit.
  destruct (nthN (repeat 0 (N.to_nat size0)) (j / 8)) as [x|] eqn:En; [|reflexivity].
  unfold nthN in En. destruct (j / 8 <? _); [|discriminate].
  apply nth_error_In, repeat_spec in En. subst x. apply N.bits_0.
Qed.

