(* C12 on the Redis model, end to end: two Redis-backed sketches that represent the sketches of two
   streams; after Merge the receiver answers every Count exactly as ONE in-memory sketch fed the
   concatenated stream, and the argument still represents its own stream. Composition of the
   refinement of the merge script with the linearity theorem of the in-memory sketch. *)
From GX.Model Require Import Base CMS Redis RedisCMS.
From GX.Proofs Require Import ListLemmas CMSProofs CMSApi RedisProofs RedisCMSRefine.
From Coq Require Import Lia ZifyN ZifyNat ZifyBool.

Theorem redis_merge_is_combined_stream (cpos : N -> N -> bytes -> list N) rows cols
  (cpos_len : forall x, length (cpos rows cols x) = N.to_nat rows)
  (cpos_lt : forall x p, In p (cpos rows cols x) -> p < cols) s a b sa sb ha hb :
  cms_new rows cols = Ok sa -> cms_new rows cols = Ok sb -> total (ha ++ hb) + 2 <= B53 ->
  refines rows cols s a (run_hist cpos sa ha) -> refines rows cols s b (run_hist cpos sb hb) ->
  length (rc_key a) = length (rc_key b) -> rc_key a <> rc_key b ->
  exists s', rcms_merge s a b = (Ok tt, s') /\
    (forall x, rcms_count cpos s' a x = Ok (cms_count cpos (run_hist cpos sa (ha ++ hb)) x)) /\
    refines rows cols s' b (run_hist cpos sb hb).
Proof.
  intros Hna Hnb Htot HRa HRb Hkl Hkne.
  destruct (new_dims rows cols sa Hna) as [Hrows Hcols].
  assert (H53 : B53 < two64) by (vm_compute; reflexivity).
  assert (Ht64 : total (ha ++ hb) < two64) by lia.
  pose proof Htot as Htot'. rewrite total_app in Htot'.
  assert (Hta : total ha < two64) by lia. assert (Htb : total hb < two64) by lia.
  destruct (api_run cpos rows cols cpos_len cpos_lt sa ha Hna Hta) as (Hra & _).
  destruct (api_run cpos rows cols cpos_len cpos_lt sb hb Hnb Htb) as (Hrb & _).
  pose proof (cells_below_total cpos rows cols cpos_len cpos_lt Hcols _ _ Hra) as Ba.
  pose proof (cells_below_total cpos rows cols cpos_len cpos_lt Hcols _ _ Hrb) as Bb.
  destruct (merge_refines cpos rows cols cpos_len cpos_lt s a b _ _ (total ha + 1) (total hb + 1)
              Hcols HRa HRb Hkl Hkne Ba Bb ltac:(lia)) as (s' & m & Hm & Hmerge & HRm & HRb').
  destruct (api_merge cpos rows cols cpos_len cpos_lt sa sb ha hb Hna Hnb Ht64) as (m' & Hm' & _ & Hcnt).
  rewrite Hm in Hm'. injection Hm' as <-.
  exists s'. split; [exact Hmerge|]. split; [|exact HRb'].
  intros x. rewrite <- Hcnt.
  apply (count_refines cpos rows cols cpos_len cpos_lt Hcols s' a m x HRm Hrows).
  (* the merged cells are the cell sums of the concatenated stream, below 2^53 *)
  pose proof (merge_repr cpos rows cols cpos_len cpos_lt _ _ _ _ m Hra Hrb Ht64 Hm) as Hrm.
  pose proof (cells_below_total cpos rows cols cpos_len cpos_lt Hcols _ _ Hrm) as Bm.
  intros r j Hr Hj. specialize (Bm r j Hr Hj). lia.
Qed.

(* C03 on the Redis model, remaining clauses: exact while one distinct element was updated, and 0 on
   an empty sketch -- the Redis count is the in-memory count (refinement), which is exact there *)
Theorem redis_count_exact_single (cpos : N -> N -> bytes -> list N) rows cols
  (cpos_len : forall x, length (cpos rows cols x) = N.to_nat rows)
  (cpos_lt : forall x p, In p (cpos rows cols x) -> p < cols) s key meta h0 s1 m0 hist x :
  rcms_new s rows cols key meta = (Ok h0, s1) -> cms_new rows cols = Ok m0 -> total hist < B53 ->
  only_elem hist x ->
  exists s' h', rrun cpos s1 h0 hist = (Ok h', s') /\ rcms_count cpos s' h' x = Ok (true_count hist x).
Proof.
  intros Hn Hm Ht Ho.
  destruct (redis_count_bounds_new cpos rows cols cpos_len cpos_lt s key meta h0 s1 m0 hist x Hn Hm Ht)
    as (s' & h' & Hrun & Hcnt & _).
  exists s', h'. split; [exact Hrun|]. rewrite Hcnt. f_equal.
  assert (H53 : B53 < two64) by (vm_compute; reflexivity).
  apply (api_exact_single cpos rows cols cpos_len cpos_lt m0 hist x Hm ltac:(lia) Ho).
Qed.

Theorem redis_count_empty (cpos : N -> N -> bytes -> list N) rows cols
  (cpos_len : forall x, length (cpos rows cols x) = N.to_nat rows)
  (cpos_lt : forall x p, In p (cpos rows cols x) -> p < cols) s key meta h0 s1 m0 x :
  rcms_new s rows cols key meta = (Ok h0, s1) -> cms_new rows cols = Ok m0 ->
  rcms_count cpos s1 h0 x = Ok 0.
Proof.
  intros Hn Hm.
  assert (Ht : total [] < B53) by (vm_compute; reflexivity).
  destruct (redis_count_bounds_new cpos rows cols cpos_len cpos_lt s key meta h0 s1 m0 [] x Hn Hm Ht)
    as (s' & h' & Hrun & Hcnt & _).
  cbn [rrun] in Hrun. injection Hrun as <- <-. rewrite Hcnt. f_equal.
  apply (api_empty cpos rows cols cpos_len cpos_lt m0 x Hm).
Qed.
