(* HeapProofs.v — container/heap on the minHeap of top_k.go (Model/Heap.v): every operation
   permutes the entries the way its contract says (Push adds one, Pop and Remove take one away),
   keeps the heap order, and Pop returns an entry of minimal frequency. *)
From GX.Model Require Import Base Heap.
From GX.Proofs Require Import ListLemmas.
From Coq Require Import ZArith Lia ZifyN ZifyNat ZifyBool Permutation.
Open Scope nat_scope.

(* ---------- setnth / swap as permutations ---------- *)
Lemma perm_setnth_gen {A} (l : list A) : forall i old new, nth_error l i = Some old ->
  Permutation (old :: setnth l i new) (new :: l).
Proof.
  unfold setnth. induction l as [|a l IH]; intros [|i] old new H; simpl in H; try discriminate.
  - injection H as ->. simpl. apply perm_swap.
  - simpl. eapply perm_trans; [apply perm_swap|]. eapply perm_trans; [|apply perm_swap].
    apply perm_skip. apply IH. exact H.
Qed.

Lemma hget_nth_error h i : i < length h -> nth_error h i = Some (hget h i).
Proof. intros H. unfold hget. apply nth_error_nth'. exact H. Qed.

Lemma setnth_length {A} (l : list A) i v : length (setnth l i v) = length l.
Proof. apply upd_length. Qed.

Lemma hget_setnth_same h i v : i < length h -> hget (setnth h i v) i = v.
Proof. intros H. unfold hget, setnth. rewrite nth_upd_same by exact H. reflexivity. Qed.
Lemma hget_setnth_other h i k v : k <> i -> hget (setnth h i v) k = hget h k.
Proof. intros H. unfold hget, setnth. apply nth_upd_other. exact H. Qed.

Lemma hswap_length h i j : length (hswap h i j) = length h.
Proof. unfold hswap. rewrite !setnth_length. reflexivity. Qed.

Lemma hswap_get_i h i j : i < length h -> j < length h -> hget (hswap h i j) i = hget h j.
Proof.
  intros Hi Hj. unfold hswap. destruct (Nat.eq_dec i j) as [->|Hne].
  - rewrite hget_setnth_same by (rewrite setnth_length; exact Hj). reflexivity.
  - rewrite hget_setnth_other by exact Hne. apply hget_setnth_same. exact Hi.
Qed.
Lemma hswap_get_j h i j : i < length h -> j < length h -> hget (hswap h i j) j = hget h i.
Proof. intros Hi Hj. unfold hswap. apply hget_setnth_same. rewrite setnth_length. exact Hj. Qed.
Lemma hswap_get_other h i j k : k <> i -> k <> j -> hget (hswap h i j) k = hget h k.
Proof. intros H1 H2. unfold hswap. rewrite !hget_setnth_other by assumption. reflexivity. Qed.

Lemma hswap_perm h i j : i < length h -> j < length h -> Permutation (hswap h i j) h.
Proof.
  intros Hi Hj. unfold hswap.
  pose proof (perm_setnth_gen h i (hget h i) (hget h j) (hget_nth_error h i Hi)) as P1.
  assert (Hj' : j < length (setnth h i (hget h j))) by (rewrite setnth_length; exact Hj).
  pose proof (perm_setnth_gen (setnth h i (hget h j)) j _ (hget h i) (hget_nth_error _ j Hj')) as P2.
  destruct (Nat.eq_dec i j) as [->|Hne].
  - rewrite hget_setnth_same in P2 by exact Hj.
    apply (Permutation_cons_inv (a := hget h j)). eapply perm_trans; [exact P2|]. exact P1.
  - rewrite hget_setnth_other in P2 by (intros E; apply Hne; symmetry; exact E).
    apply (Permutation_cons_inv (a := hget h j)). eapply perm_trans; [exact P2|]. exact P1.
Qed.

(* ---------- up / down only permute ---------- *)
Lemma parent_lt j : 0 < j -> (j - 1) / 2 < j.
Proof. intros H. apply Nat.div_lt_upper_bound; lia. Qed.

Lemma heap_up_perm fuel : forall h j, j < length h -> Permutation (heap_up fuel h j) h /\ length (heap_up fuel h j) = length h.
Proof.
  induction fuel as [|f IH]; intros h j Hj; cbn [heap_up]; [split; auto|].
  destruct ((((j - 1) / 2) =? j) || negb (hless h j ((j - 1) / 2))) eqn:E; [split; auto|].
  apply orb_false_iff in E. destruct E as [E1 _]. apply Nat.eqb_neq in E1.
  assert (Hp : (j - 1) / 2 < j) by (destruct j; [simpl in E1; congruence|apply parent_lt; lia]).
  assert (Hpl : (j - 1) / 2 < length h) by lia.
  destruct (IH (hswap h ((j - 1) / 2) j) ((j - 1) / 2) ltac:(rewrite hswap_length; exact Hpl)) as [P L].
  rewrite hswap_length in L. split; [|exact L].
  eapply perm_trans; [exact P|]. apply hswap_perm; assumption.
Qed.

Lemma heap_down_perm fuel : forall h i n m, n <= length h ->
  Permutation (fst (heap_down fuel h i n m)) h /\ length (fst (heap_down fuel h i n m)) = length h.
Proof.
  induction fuel as [|f IH]; intros h i n m Hn; cbn [heap_down]; [split; auto|].
  destruct (n <=? 2 * i + 1) eqn:E1; [split; auto|]. apply Nat.leb_gt in E1.
  set (j := if (2 * i + 1 + 1 <? n) && hless h (2 * i + 1 + 1) (2 * i + 1) then 2 * i + 1 + 1 else 2 * i + 1).
  assert (Hj : j < n).
  { unfold j. destruct ((2 * i + 1 + 1 <? n) && hless h (2 * i + 1 + 1) (2 * i + 1)) eqn:E; [|lia].
    apply andb_prop in E. destruct E as [E _]. apply Nat.ltb_lt in E. exact E. }
  destruct (negb (hless h j i)); [split; auto|].
  destruct (IH (hswap h i j) j n true ltac:(rewrite hswap_length; exact Hn)) as [P L].
  rewrite hswap_length in L. split; [|exact L].
  eapply perm_trans; [exact P|]. apply hswap_perm; lia.
Qed.

Theorem heap_push_perm h e : Permutation (heap_push h e) (e :: h) /\ length (heap_push h e) = S (length h).
Proof.
  unfold heap_push.
  destruct (heap_up_perm (length (h ++ [e])) (h ++ [e]) (length (h ++ [e]) - 1)) as [P L].
  { rewrite app_length; simpl; lia. }
  split.
  - eapply perm_trans; [exact P|]. apply Permutation_sym, Permutation_cons_append.
  - rewrite L, app_length. simpl. lia.
Qed.

Lemma firstn_last_perm {A} (l : list A) d : l <> [] ->
  Permutation (nth (length l - 1) l d :: firstn (length l - 1) l) l.
Proof.
  intros H. destruct (exists_last H) as (l' & a & ->).
  rewrite app_length. simpl. replace (length l' + 1 - 1) with (length l') by lia.
  rewrite app_nth2 by lia. rewrite Nat.sub_diag. simpl.
  rewrite firstn_app, firstn_all, Nat.sub_diag. simpl. rewrite app_nil_r.
  apply Permutation_cons_append.
Qed.

Definition pop_body (h : list hentry) : hentry * list hentry :=
  let n := length h - 1 in
  let h2 := fst (heap_down (length h) (hswap h 0 n) 0 n false) in (hget h2 n, firstn n h2).
Lemma heap_pop_eq h : h <> [] -> heap_pop h = Ok (pop_body h).
Proof. destruct h; [congruence|reflexivity]. Qed.
Lemma heap_pop_nonempty h r : heap_pop h = Ok r -> h <> [].
Proof. destruct h; [discriminate|congruence]. Qed.

Theorem heap_pop_perm h m h' : heap_pop h = Ok (m, h') -> Permutation (m :: h') h /\ S (length h') = length h.
Proof.
  intros H. pose proof (heap_pop_nonempty h _ H) as Hne0. rewrite (heap_pop_eq h Hne0) in H.
  unfold pop_body in H. injection H as <- <-.
  set (n := length h - 1).
  assert (Hlen : 0 < length h) by (destruct h; [congruence|simpl; lia]).
  destruct (heap_down_perm (length h) (hswap h 0 n) 0 n false) as [P L].
  { rewrite hswap_length. unfold n. lia. }
  rewrite hswap_length in L.
  set (h2 := fst (heap_down (length h) (hswap h 0 n) 0 n false)) in *.
  assert (Hne : h2 <> []) by (intros E; rewrite E in L; simpl in L; lia).
  pose proof (firstn_last_perm h2 dflt Hne) as Pl. rewrite L in Pl. fold n in Pl.
  split.
  - unfold hget. eapply perm_trans; [exact Pl|]. eapply perm_trans; [exact P|].
    apply hswap_perm; unfold n; lia.
  - rewrite firstn_length, L. unfold n. lia.
Qed.

(* down works inside the prefix n; up only touches ancestors of j *)
Lemma heap_down_above fuel : forall h i n m k, i < n -> n <= k ->
  hget (fst (heap_down fuel h i n m)) k = hget h k.
Proof.
  induction fuel as [|f IH]; intros h i n m k Hi Hk; cbn [heap_down]; [reflexivity|].
  destruct (n <=? 2 * i + 1) eqn:E1; [reflexivity|]. apply Nat.leb_gt in E1.
  set (j := if (2 * i + 1 + 1 <? n) && hless h (2 * i + 1 + 1) (2 * i + 1) then 2 * i + 1 + 1 else 2 * i + 1).
  assert (Hj : j < n).
  { unfold j. destruct ((2 * i + 1 + 1 <? n) && hless h (2 * i + 1 + 1) (2 * i + 1)) eqn:E; [|lia].
    apply andb_prop in E. destruct E as [E _]. apply Nat.ltb_lt in E. exact E. }
  destruct (negb (hless h j i)); [reflexivity|].
  rewrite IH by lia. apply hswap_get_other; lia.
Qed.

Lemma heap_up_above fuel : forall h j k, j < k -> hget (heap_up fuel h j) k = hget h k.
Proof.
  induction fuel as [|f IH]; intros h j k Hk; cbn [heap_up]; [reflexivity|].
  destruct ((((j - 1) / 2) =? j) || negb (hless h j ((j - 1) / 2))) eqn:E; [reflexivity|].
  apply orb_false_iff in E. destruct E as [E1 _]. apply Nat.eqb_neq in E1.
  assert (Hp : (j - 1) / 2 < j) by (destruct j; [simpl in E1; congruence|apply parent_lt; lia]).
  rewrite IH by lia. apply hswap_get_other; lia.
Qed.

Theorem heap_remove_perm h i : i < length h ->
  Permutation (hget h i :: heap_remove h i) h /\ S (length (heap_remove h i)) = length h.
Proof.
  intros Hi. unfold heap_remove. set (n := length h - 1).
  destruct (n =? i) eqn:E.
  - apply Nat.eqb_eq in E. subst i. split.
    + unfold hget, n. apply firstn_last_perm. intros E; rewrite E in Hi; simpl in Hi; lia.
    + rewrite firstn_length. unfold n. lia.
  - apply Nat.eqb_neq in E.
    set (h1 := hswap h i n).
    assert (Hn : n < length h) by (unfold n; lia).
    assert (Hin : i < n) by (unfold n in *; lia).
    assert (L1 : length h1 = length h) by apply hswap_length.
    destruct (heap_down_perm (length h) h1 i n false ltac:(rewrite L1; lia)) as [P L].
    pose proof (heap_down_above (length h) h1 i n false n Hin (le_n n)) as Habove.
    set (r := heap_down (length h) h1 i n false) in *.
    set (h2 := if snd r then fst r else heap_up (length h) (fst r) i).
    assert (H2 : Permutation h2 h1 /\ length h2 = length h /\ hget h2 n = hget h1 n).
    { unfold h2. destruct (snd r); [split; [exact P|split; [congruence|exact Habove]]|].
      destruct (heap_up_perm (length h) (fst r) i ltac:(rewrite L, L1; exact Hi)) as [P' L'].
      split; [eapply perm_trans; eauto|]. split; [congruence|].
      rewrite heap_up_above by exact Hin. exact Habove. }
    destruct H2 as (P2 & L2 & G2).
    assert (Hne : h2 <> []) by (intros E'; rewrite E' in L2; simpl in L2; lia).
    pose proof (firstn_last_perm h2 dflt Hne) as Pl. rewrite L2 in Pl. fold n in Pl.
    change (nth n h2 dflt) with (hget h2 n) in Pl. rewrite G2 in Pl.
    unfold h1 in Pl at 1. rewrite hswap_get_j in Pl by assumption.
    split.
    + eapply perm_trans; [exact Pl|]. eapply perm_trans; [exact P2|]. apply hswap_perm; assumption.
    + rewrite firstn_length, L2. unfold n. lia.
Qed.

(* ---------- heap order ---------- *)
Ltac Zify.zify_post_hook ::= Z.div_mod_to_equations.

Definition le_at (h : list hentry) (p c : nat) : Prop := (hfreq (hget h p) <= hfreq (hget h c))%N.
Definition heap_ok_n (h : list hentry) (n : nat) : Prop := forall c, 0 < c < n -> le_at h ((c - 1) / 2) c.
Definition heap_ok (h : list hentry) : Prop := heap_ok_n h (length h).

Lemma hless_true h a b : hless h a b = true <-> (hfreq (hget h a) < hfreq (hget h b))%N.
Proof. unfold hless. apply N.ltb_lt. Qed.
Lemma hless_false h a b : hless h a b = false <-> (hfreq (hget h b) <= hfreq (hget h a))%N.
Proof. unfold hless. rewrite N.ltb_ge. reflexivity. Qed.

Lemma heap_up_ok fuel : forall h j n, j < n -> n <= length h -> j < fuel ->
  (forall c, 0 < c < n -> c <> j -> le_at h ((c - 1) / 2) c) ->
  (0 < j -> forall c, 0 < c < n -> (c - 1) / 2 = j -> le_at h ((j - 1) / 2) c) ->
  heap_ok_n (heap_up fuel h j) n.
Proof.
  induction fuel as [|f IH]; intros h j n Hj Hn Hf HA HB; [lia|]. cbn [heap_up].
  set (i := (j - 1) / 2).
  destruct (i =? j) eqn:E1.
  { apply Nat.eqb_eq in E1. simpl. intros c Hc. apply HA; [exact Hc|]. unfold i in E1. lia. }
  apply Nat.eqb_neq in E1. simpl orb.
  destruct (hless h j i) eqn:E2; simpl negb; cbv iota.
  2:{ apply hless_false in E2. intros c Hc. destruct (Nat.eq_dec c j) as [->|Hne]; [exact E2|apply HA; assumption]. }
  apply hless_true in E2.
  assert (Hj0 : 0 < j) by (unfold i in E1; lia).
  assert (Hij : i < j) by (unfold i; lia).
  assert (Hil : i < length h) by lia. assert (Hjl : j < length h) by lia.
  apply IH; try lia; try (rewrite hswap_length; lia).
  - intros c Hc Hci. unfold le_at.
    destruct (Nat.eq_dec c j) as [->|Hcj].
    + fold i. rewrite hswap_get_i, hswap_get_j by assumption. lia.
    + rewrite (hswap_get_other h i j c) by assumption.
      destruct (Nat.eq_dec ((c - 1) / 2) i) as [Ep|Ep].
      * rewrite Ep, hswap_get_i by assumption.
        pose proof (HA c Hc Hcj) as H0. unfold le_at in H0. rewrite Ep in H0. lia.
      * destruct (Nat.eq_dec ((c - 1) / 2) j) as [Eq|Eq].
        -- rewrite Eq, hswap_get_j by assumption. apply (HB Hj0 c Hc Eq).
        -- rewrite hswap_get_other by assumption. apply (HA c Hc Hcj).
  - intros Hi0 c Hc Hpc. unfold le_at.
    assert (Hpi : (i - 1) / 2 < i) by lia.
    rewrite (hswap_get_other h i j ((i - 1) / 2)) by lia.
    pose proof (HA i ltac:(lia) ltac:(lia)) as Hedge_i. unfold le_at in Hedge_i.
    destruct (Nat.eq_dec c j) as [->|Hcj].
    + rewrite hswap_get_j by assumption. exact Hedge_i.
    + rewrite hswap_get_other by lia.
      pose proof (HA c Hc Hcj) as H0. unfold le_at in H0. rewrite Hpc in H0. lia.
Qed.

Lemma heap_down_ok fuel : forall h i n m, i < n -> n <= length h -> n <= fuel + i ->
  (forall c, 0 < c < n -> (c - 1) / 2 <> i -> c <> i -> le_at h ((c - 1) / 2) c) ->
  (0 < i -> forall c, 0 < c < n -> (c - 1) / 2 = i -> le_at h ((i - 1) / 2) c) ->
  (m = true -> 0 < i -> le_at h ((i - 1) / 2) i) ->
  (snd (heap_down fuel h i n m) = true -> heap_ok_n (fst (heap_down fuel h i n m)) n) /\
  (snd (heap_down fuel h i n m) = false ->
     m = false /\ fst (heap_down fuel h i n m) = h /\ forall c, 0 < c < n -> (c - 1) / 2 = i -> le_at h i c).
Proof.
  induction fuel as [|f IH]; intros h i n m Hi Hn Hf HA HB HC; [lia|]. cbn [heap_down].
  destruct (n <=? 2 * i + 1) eqn:E1.
  { apply Nat.leb_le in E1. cbn [fst snd]. split.
    - intros ->. intros c Hc. destruct (Nat.eq_dec c i) as [->|Hci]; [apply HC; [reflexivity|lia]|].
      apply HA; [exact Hc| |exact Hci]. lia.
    - intros ->. split; [reflexivity|]. split; [reflexivity|]. intros c Hc Hp. lia. }
  apply Nat.leb_gt in E1.
  set (j1 := 2 * i + 1) in *. set (j2 := j1 + 1).
  set (j := if (j2 <? n) && hless h j2 j1 then j2 else j1).
  assert (Hjn : j < n /\ (j = j1 \/ j = j2) /\
                le_at h j j1 /\ (j2 < n -> le_at h j j2)).
  { unfold j, le_at. destruct (j2 <? n) eqn:Ea; simpl andb.
    - apply Nat.ltb_lt in Ea. destruct (hless h j2 j1) eqn:Eb.
      + apply hless_true in Eb. repeat split; auto; lia.
      + apply hless_false in Eb. repeat split; auto; lia.
    - apply Nat.ltb_ge in Ea. repeat split; auto; lia. }
  destruct Hjn as (Hjn & Hjc & Hle1 & Hle2).
  assert (Hchild : forall c, 0 < c -> (c - 1) / 2 = i -> c = j1 \/ c = j2) by (intros c Hc Hp; unfold j1, j2; lia).
  destruct (hless h j i) eqn:E2; simpl negb; cbv iota.
  2:{ apply hless_false in E2.
      assert (Hkids : forall c, 0 < c < n -> (c - 1) / 2 = i -> le_at h i c).
      { intros c Hc Hp. unfold le_at in *. destruct (Hchild c ltac:(lia) Hp) as [->| ->]; [lia|specialize (Hle2 ltac:(lia)); lia]. }
      cbn [fst snd]. split.
      - intros ->. intros c Hc. destruct (Nat.eq_dec c i) as [->|Hci]; [apply HC; [reflexivity|lia]|].
        destruct (Nat.eq_dec ((c - 1) / 2) i) as [Ep|Ep]; [rewrite Ep; apply Hkids; assumption|apply HA; assumption].
      - intros ->. auto. }
  apply hless_true in E2.
  assert (Hij : i < j) by (unfold j1, j2 in *; lia).
  assert (Hil : i < length h) by lia. assert (Hjl : j < length h) by lia.
  assert (Hpj : (j - 1) / 2 = i) by (unfold j1, j2 in *; lia).
  specialize (IH (hswap h i j) j n true Hjn ltac:(rewrite hswap_length; lia) ltac:(lia)).
  match type of IH with ?A -> ?B -> ?C -> _ => assert (HA' : A); [|assert (HB' : B); [|assert (HC' : C)]] end.
  - intros c Hc Hpc Hcj. unfold le_at.
    destruct (Nat.eq_dec c i) as [->|Hci].
    + rewrite hswap_get_i by assumption. rewrite hswap_get_other by lia.
      apply (HB ltac:(lia) j ltac:(lia) Hpj).
    + rewrite (hswap_get_other h i j c) by assumption.
      destruct (Nat.eq_dec ((c - 1) / 2) i) as [Ep|Ep].
      * rewrite Ep, hswap_get_i by assumption. unfold le_at in *.
        destruct (Hchild c ltac:(lia) Ep) as [->| ->]; [lia|specialize (Hle2 ltac:(lia)); lia].
      * rewrite hswap_get_other by assumption. apply HA; assumption.
  - intros _ c Hc Hpc. unfold le_at. rewrite Hpj, hswap_get_i by assumption.
    rewrite hswap_get_other by lia.
    pose proof (HA c Hc ltac:(lia) ltac:(lia)) as H0. unfold le_at in H0. rewrite Hpc in H0. exact H0.
  - intros _ _. unfold le_at. rewrite Hpj, hswap_get_i, hswap_get_j by assumption. lia.
  - specialize (IH HA' HB' HC'). destruct IH as [IH1 IH2]. split; [exact IH1|].
    intros Hs. destruct (IH2 Hs) as (Hbad & _). discriminate.
Qed.

Lemma root_min h n : heap_ok_n h n -> forall c, c < n -> le_at h 0 c.
Proof.
  intros Hok c. induction c as [c IH] using (well_founded_induction lt_wf). intros Hc.
  destruct c as [|c]; [unfold le_at; lia|].
  pose proof (Hok (S c) ltac:(lia)) as He. pose proof (IH ((S c - 1) / 2) ltac:(lia) ltac:(lia)) as Hp.
  unfold le_at in *. lia.
Qed.

Lemma hget_app_l h e c : c < length h -> hget (h ++ [e]) c = hget h c.
Proof. intros H. unfold hget. apply app_nth1. exact H. Qed.
Lemma hget_firstn l n c : c < n -> hget (firstn n l) c = hget l c.
Proof.
  unfold hget. revert n c. induction l as [|a l IH]; intros [|n] [|c] H; simpl; auto; try lia. apply IH. lia.
Qed.

Theorem heap_push_ok h e : heap_ok h -> heap_ok (heap_push h e).
Proof.
  intros Hok. unfold heap_ok. rewrite (proj2 (heap_push_perm h e)). unfold heap_push.
  rewrite app_length. simpl length. replace (length h + 1 - 1) with (length h) by lia.
  apply heap_up_ok; try (rewrite ?app_length; simpl; lia).
  - intros c Hc Hcj. unfold le_at. rewrite !hget_app_l by lia. apply Hok. lia.
  - intros _ c Hc Hp. lia.
Qed.

Lemma heap_ok_firstn h n : n <= length h -> heap_ok_n h n -> heap_ok (firstn n h).
Proof.
  intros Hn Hok. unfold heap_ok. rewrite firstn_length, Nat.min_l by exact Hn.
  intros c Hc. unfold le_at. rewrite !hget_firstn by lia. apply Hok. exact Hc.
Qed.

Theorem heap_pop_ok h m h' : heap_ok h -> heap_pop h = Ok (m, h') ->
  heap_ok h' /\ forall e, In e h -> (hfreq m <= hfreq e)%N.
Proof.
  intros Hok H. pose proof (heap_pop_nonempty h _ H) as Hne0. rewrite (heap_pop_eq h Hne0) in H.
  unfold pop_body in H. injection H as <- <-.
  set (n := length h - 1).
  assert (Hlen : 0 < length h) by (destruct h; [congruence|simpl; lia]).
  assert (Hnl : n < length h) by (unfold n; lia).
  assert (L1 : length (hswap h 0 n) = length h) by apply hswap_length.
  split.
  - apply heap_ok_firstn.
    { rewrite (proj2 (heap_down_perm (length h) (hswap h 0 n) 0 n false ltac:(lia))). lia. }
    destruct (Nat.eq_dec n 0) as [E0|E0]; [intros c Hc; lia|].
    pose proof (heap_down_ok (length h) (hswap h 0 n) 0 n false ltac:(lia) ltac:(lia) ltac:(lia)) as Hd.
    match type of Hd with ?A -> ?B -> ?C -> _ => assert (HA : A); [|assert (HB : B) by (intros; lia); assert (HC : C) by (intros; lia)] end.
    { intros c Hc Hp Hc0. unfold le_at. rewrite !hswap_get_other by lia. apply Hok. lia. }
    destruct (Hd HA HB HC) as [D1 D2].
    destruct (snd (heap_down (length h) (hswap h 0 n) 0 n false)) eqn:Es; [apply D1; reflexivity|].
    destruct (D2 eq_refl) as (_ & -> & Hk).
    intros c Hc. destruct (Nat.eq_dec ((c - 1) / 2) 0) as [Ep|Ep]; [rewrite Ep; apply Hk; assumption|].
    apply HA; [exact Hc|exact Ep|lia].
  - intros e He.
    assert (Hm : hget (fst (heap_down (length h) (hswap h 0 n) 0 n false)) n = hget h 0).
    { destruct (Nat.eq_dec n 0) as [E0|E0].
      - rewrite E0. destruct (length h) as [|k] eqn:El; [lia|]. cbn [heap_down]. simpl. unfold hswap.
        rewrite hget_setnth_same by (rewrite setnth_length; lia). reflexivity.
      - rewrite heap_down_above by lia. apply hswap_get_j; lia. }
    rewrite Hm. apply In_nth with (d := dflt) in He. destruct He as (c & Hc & <-).
    apply (root_min h (length h) Hok c Hc).
Qed.

Theorem heap_remove_ok h i : heap_ok h -> i < length h -> heap_ok (heap_remove h i).
Proof.
  intros Hok Hi. unfold heap_remove. set (n := length h - 1).
  assert (Hnl : n < length h) by (unfold n; lia).
  destruct (n =? i) eqn:E.
  - apply heap_ok_firstn; [lia|]. intros c Hc. apply Hok. lia.
  - apply Nat.eqb_neq in E. assert (Hin : i < n) by (unfold n in *; lia).
    set (h1 := hswap h i n).
    assert (L1 : length h1 = length h) by apply hswap_length.
    assert (HA : forall c, 0 < c < n -> (c - 1) / 2 <> i -> c <> i -> le_at h1 ((c - 1) / 2) c).
    { intros c Hc Hp Hci. unfold le_at, h1. rewrite !hswap_get_other by lia. apply Hok. lia. }
    assert (HB : 0 < i -> forall c, 0 < c < n -> (c - 1) / 2 = i -> le_at h1 ((i - 1) / 2) c).
    { intros Hi0 c Hc Hp. unfold le_at, h1. rewrite !hswap_get_other by lia.
      pose proof (Hok i ltac:(lia)) as H1. pose proof (Hok c ltac:(lia)) as H2. unfold le_at in *. rewrite Hp in H2. lia. }
    pose proof (heap_down_ok (length h) h1 i n false Hin ltac:(lia) ltac:(lia) HA HB ltac:(intros; discriminate)) as [D1 D2].
    pose proof (heap_down_perm (length h) h1 i n false ltac:(lia)) as [_ L].
    destruct (snd (heap_down (length h) h1 i n false)) eqn:Es.
    + apply heap_ok_firstn; [lia|]. apply D1. reflexivity.
    + destruct (D2 eq_refl) as (_ & Heq & Hk). rewrite Heq.
      apply heap_ok_firstn; [rewrite (proj2 (heap_up_perm (length h) h1 i ltac:(lia))); lia|].
      apply heap_up_ok; try lia.
      * intros c Hc Hci. destruct (Nat.eq_dec ((c - 1) / 2) i) as [Ep|Ep]; [rewrite Ep; apply Hk; assumption|].
        apply HA; assumption.
      * exact HB.
Qed.
