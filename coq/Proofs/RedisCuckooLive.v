(* RedisCuckooLive.v — C02 for the Redis-backed cuckoo filter, on the Redis model: bucket count a
   power of two, elements with a non-empty fingerprint, non-destructive inserts, only live
   elements removed, draws in Float64's range - after any history every live element is found.
   Same class-counting argument as for the in-memory variant (CuckooLive), over the Redis lists. *)
From GX.Model Require Import Base Redis RedisCMS Cuckoo RedisCuckoo.
From GX.Proofs Require Import ListLemmas RedisProofs CuckooProofs CuckooInv CuckooLive AttachProofs RedisCMSRefine RedisCuckooInv.
From Coq Require Import ZArith Lia ZifyN ZifyNat ZifyBool Permutation.
Open Scope N_scope.

Lemma flat_map_same {A} (t : list N) (f g : N -> list A) :
  (forall j, In j t -> g j = f j) -> flat_map g t = flat_map f t.
Proof.
  induction t as [|b t IH]; intros H; [reflexivity|]. cbn [flat_map].
  rewrite (H b (or_introl eq_refl)). f_equal. apply IH. intros j Hj. apply H. right. exact Hj.
Qed.

Lemma flat_map_change2 {A} (l : list N) (f g : N -> list A) i (xs ys : list A) : NoDup l -> In i l ->
  (forall j, In j l -> j <> i -> g j = f j) ->
  Permutation (xs ++ g i) (ys ++ f i) ->
  Permutation (xs ++ flat_map g l) (ys ++ flat_map f l).
Proof.
  induction l as [|a t IH]; intros Hnd Hin Hsame Hp; [destruct Hin|].
  apply NoDup_cons_iff in Hnd. destruct Hnd as [Hnot Hnd]. cbn [flat_map].
  destruct Hin as [->|Hin].
  - assert (Heq : flat_map g t = flat_map f t).
    { apply flat_map_same. intros j Hj. apply Hsame; [right; exact Hj|]. intros ->. contradiction. }
    rewrite Heq, !app_assoc. apply Permutation_app_tail. exact Hp.
  - assert (Hai : a <> i) by (intros ->; contradiction).
    rewrite (Hsame a (or_introl eq_refl) Hai).
    eapply perm_trans; [apply Permutation_app_swap_app|].
    eapply perm_trans; [|apply Permutation_app_swap_app].
    apply Permutation_app_head. apply IH; auto. intros j Hj Hne. apply Hsame; [right; exact Hj|exact Hne].
Qed.

Section Live.
Variable key meta : bytes.
Variable jj : N.                       (* size = 2^jj *)
Variable bsize fpl retries : N.
Variable h64 : bytes -> N.
Hypothesis meta_not_bucket : forall i, meta <> bucket_key key i.
Hypothesis meta_not_len : forall i, meta <> len_key (bucket_key key i).
Hypothesis bsize_pos : 1 <= bsize.
Hypothesis bsize_small : bsize < 2 ^ 62.

Notation size := (2 ^ jj).
Notation bl := (blist key).

Lemma size_pos : 0 < size.
Proof. assert (2 ^ jj <> 0) by (apply N.pow_nonzero; lia). lia. Qed.

(* classes of the entries of one bucket list, and of the whole filter *)
Definition bclasses (i : N) (L : list bytes) : list (bytes * N) := flat_map (cls h64 jj) (map (pair i) L).
Definition rclasses (s : store) : list (bytes * N) := flat_map (fun i => bclasses i (bl s i)) (nseq size).

Lemma rclasses_change s s' i xs ys : i < size -> only_bucket key meta i s s' ->
  Permutation (xs ++ bclasses i (bl s' i)) (ys ++ bclasses i (bl s i)) ->
  Permutation (xs ++ rclasses s') (ys ++ rclasses s).
Proof.
  intros Hi (Hsame & _) Hp. unfold rclasses.
  apply (flat_map_change2 (nseq size) (fun j => bclasses j (bl s j)) (fun j => bclasses j (bl s' j)) i xs ys).
  - apply nseq_nodup.
  - apply In_nseq. exact Hi.
  - intros j _ Hj. destruct (Hsame j Hj) as [-> _]. reflexivity.
  - exact Hp.
Qed.

Lemma rclasses_views s s' : (forall j, bl s' j = bl s j) -> rclasses s' = rclasses s.
Proof. intros Hv. unfold rclasses. apply flat_map_ext. intros i. rewrite Hv. reflexivity. Qed.

(* replacing the entry at position p *)
Lemma bclasses_setnth i L p old new : nth_error L p = Some old ->
  Permutation (cls h64 jj (i, old) ++ bclasses i (setnth L p new)) (cls h64 jj (i, new) ++ bclasses i L).
Proof.
  intros Hn. unfold bclasses.
  exact (CuckooLive.Permutation_flat_map (cls h64 jj) _ _ (tag_slot i L p old new Hn)).
Qed.

Lemma bclasses_cons i (e : bytes) L : bclasses i (e :: L) = cls h64 jj (i, e) ++ bclasses i L.
Proof. reflexivity. Qed.

(* add, remove and set at the level of classes *)
Lemma add_classes s i (e : bytes) : i < size -> bwf key bsize s i -> e <> [] ->
  rbk_is_free s (bucket_key key i) bsize = true ->
  Permutation (rclasses (rbk_add s (bucket_key key i) bsize e)) (cls h64 jj (i, e) ++ rclasses s).
Proof.
  intros Hi Hwf He Hfree.
  destruct (add_view key meta bsize meta_not_bucket meta_not_len bsize_pos bsize_small s i e Hwf He Hfree) as (_ & _ & Hob).
  apply (rclasses_change s _ i [] (cls h64 jj (i, e)) Hi Hob). cbn [app].
  rewrite (add_list key meta size bsize meta_not_bucket meta_not_len bsize_pos bsize_small h64 size_pos s i e Hwf He Hfree).
  destruct (index_of bytes_eqb (bl s i) [] 0) as [p|] eqn:Ep.
  - pose proof (index_of_spec (bl s i) [] 0 p Ep) as [_ Hnth]. rewrite Nat.sub_0_r in Hnth.
    pose proof (bclasses_setnth i (bl s i) p [] e Hnth) as Hp. rewrite cls_empty in Hp. exact Hp.
  - rewrite bclasses_cons. apply Permutation_refl.
Qed.

Lemma remove_classes s i (e : bytes) : i < size -> bwf key bsize s i -> e <> [] ->
  rbk_lookup s (bucket_key key i) e = true ->
  Permutation (cls h64 jj (i, e) ++ rclasses (rbk_remove s (bucket_key key i) e)) (rclasses s).
Proof.
  intros Hi Hwf He Hl.
  destruct (remove_view key meta bsize meta_not_bucket meta_not_len bsize_pos bsize_small s i e Hwf He Hl) as (_ & _ & Hob).
  destruct (remove_list key meta size bsize meta_not_bucket meta_not_len bsize_pos bsize_small h64 size_pos s i e Hwf He Hl) as (p & Hnth & Hlist).
  apply (rclasses_change s _ i (cls h64 jj (i, e)) [] Hi Hob). cbn [app]. rewrite Hlist.
  pose proof (bclasses_setnth i (bl s i) p e [] Hnth) as Hp. rewrite cls_empty in Hp. exact Hp.
Qed.

Lemma set_classes s i si (e v : bytes) : i < size -> bwf key bsize s i ->
  nth_error (bl s i) (N.to_nat si) = Some v -> v <> [] -> e <> [] ->
  Permutation (cls h64 jj (i, v) ++ rclasses (rbk_set s (bucket_key key i) si e)) (cls h64 jj (i, e) ++ rclasses s).
Proof.
  intros Hi Hwf Hn Hv He.
  destruct (set_view key meta bsize meta_not_bucket meta_not_len bsize_pos bsize_small s i si e v Hwf Hn Hv He) as (_ & _ & Hob & Hlist).
  apply (rclasses_change s _ i _ _ Hi Hob). rewrite Hlist. apply bclasses_setnth. exact Hn.
Qed.

(* local names for the lemmas of RedisCuckooInv at this filter's parameters *)
Notation HD := (hdl key meta size bsize fpl retries).
Let swapV := swap_view key meta size bsize meta_not_bucket meta_not_len bsize_pos bsize_small fpl h64.
Let fullV := not_free_full key meta bsize meta_not_bucket meta_not_len bsize_pos bsize_small fpl h64.
Let setV := set_view key meta bsize meta_not_bucket meta_not_len bsize_pos bsize_small.
Let addV := add_view key meta bsize meta_not_bucket meta_not_len bsize_pos bsize_small.
Let hincrV := hincr_view key meta size bsize meta_not_bucket meta_not_len fpl retries.

Definition same_lists (s s' : store) : Prop := forall j, bl s' j = bl s j.

Lemma same_lists_classes s s' : same_lists s s' -> rclasses s' = rclasses s.
Proof. apply rclasses_views. Qed.

(* rbk_set acts on the lists only, and the same way on stores with the same lists *)
Lemma set_lists s i j (e : bytes) :
  (forall k, k <> i -> bl (rbk_set s (bucket_key key i) j e) k = bl s k) /\
  bl (rbk_set s (bucket_key key i) j e) i =
    (if (9223372036854775808 <=? j) then bl s i
     else if j <? N.of_nat (length (bl s i)) then setnth (bl s i) (N.to_nat j) e else bl s i).
Proof.
  unfold rbk_set. destruct (9223372036854775808 <=? j); [split; reflexivity|].
  unfold r_lset. fold (bl s i). destruct (j <? N.of_nat (length (bl s i))); [|split; reflexivity].
  destruct (putlist_view key meta meta_not_bucket s i (setnth (bl s i) (N.to_nat j) e)) as (V1 & _ & (Hsame & _)).
  split; [intros k Hk; apply (Hsame k Hk)|exact V1].
Qed.

Lemma set_lists_congr s s' i j e : same_lists s s' ->
  same_lists (rbk_set s (bucket_key key i) j e) (rbk_set s' (bucket_key key i) j e).
Proof.
  intros Hs k. destruct (set_lists s i j e) as [A1 B1]. destruct (set_lists s' i j e) as [A2 B2].
  destruct (N.eq_dec k i) as [->|Hne].
  - rewrite B1, B2, (Hs i). reflexivity.
  - rewrite A1, A2 by exact Hne. apply Hs.
Qed.

Lemma rundo_lists_congr items : forall s s', same_lists s s' -> same_lists (rundo s HD items) (rundo s' HD items).
Proof.
  induction items as [|[[p bi] si] t IH]; intros s s' Hs; cbn [rundo]; [exact Hs|].
  apply IH. cbn [rq_key hdl]. apply set_lists_congr. exact Hs.
Qed.

(* writing the old entry back restores the lists *)
Lemma set_back s i j (e prev : bytes) : j < 2 ^ 62 -> nth_error (bl s i) (N.to_nat j) = Some prev ->
  same_lists s (rbk_set (rbk_set s (bucket_key key i) j e) (bucket_key key i) j prev).
Proof.
  intros Hj Hn k.
  assert (Hlt : (N.to_nat j < length (bl s i))%nat) by (apply nth_error_Some; congruence).
  assert (Hbig : (9223372036854775808 <=? j) = false)
    by (apply N.leb_gt; assert (2 ^ 62 < 9223372036854775808) by (vm_compute; reflexivity); lia).
  destruct (set_lists s i j e) as [A1 B1]. rewrite Hbig in B1.
  replace (j <? N.of_nat (length (bl s i))) with true in B1 by lia.
  destruct (set_lists (rbk_set s (bucket_key key i) j e) i j prev) as [A2 B2]. rewrite Hbig in B2.
  destruct (N.eq_dec k i) as [->|Hne].
  - rewrite B2, !B1. unfold setnth. rewrite upd_length.
    replace (j <? N.of_nat (length (bl s i))) with true by lia.
    apply upd_upd_same. exact Hn.
  - rewrite A2, A1 by exact Hne. reflexivity.
Qed.

Lemma same_lists_trans a b c : same_lists a b -> same_lists b c -> same_lists a c.
Proof. intros H1 H2 j. rewrite (H2 j). apply H1. Qed.
Lemma same_lists_refl a : same_lists a a.
Proof. intros j. reflexivity. Qed.

Lemma hincr_classes s d c : mlen meta s = Some c -> rclasses (hincr s HD d) = rclasses s.
Proof. intros Hm. apply rclasses_views. intros j. apply (hincrV s d c Hm). Qed.

(* the eviction loop of a non-destructive insert: success adds the class of the fingerprint in
   hand; "full" leaves every bucket list as it was before the insert; no panic *)
Lemma revict_live fuel : forall s s0 c index (curr : bytes) draws items,
  buckets_ok key size bsize s -> mlen meta s = Some c -> index < size -> bfull key bsize s index -> curr <> [] ->
  Forall (fun k => k < 2 ^ 53) draws -> Forall (ritem_ok key size bsize s) items ->
  same_lists s0 (rundo s HD items) ->
  match revict h64 fuel s HD index curr draws items false with
  | RInsOk s' => Permutation (rclasses s') (cls h64 jj (index, curr) ++ rclasses s)
  | RInsFull s' => same_lists s0 s'
  | RInsPanic _ _ => False
  end.
Proof.
  induction fuel as [|fuel IH]; intros s s0 c index curr draws items Hok Hm Hidx Hfull Hc Hdr Hit Hundo; cbn [revict].
  - exact Hundo.
  - cbn [rq_key rq_size rq_bsize hdl].
    assert (Hlen : rbk_get_length s (bucket_key key index) = bsize).
    { unfold rbk_get_length. fold (bcount key s index). destruct (Hok index Hidx) as (Hcn & _). rewrite Hcn.
      destruct Hfull as (Hfo & Hfl). rewrite Hfo, Hfl.
      rewrite Z.mod_small by (assert (2 ^ 62 < 18446744073709551616) by (vm_compute; reflexivity); lia). lia. }
    rewrite Hlen.
    set (ri := rand_slot (hd 0 draws) bsize).
    assert (Hri : ri <= bsize - 1).
    { unfold ri. apply rand_slot_le; [destruct draws; [simpl; lia|inversion Hdr; auto]|exact bsize_pos|].
      unfold two64. assert (2 ^ 62 < 18446744073709551616) by (vm_compute; reflexivity). lia. }
    assert (Hsi : ri < bsize) by lia.
    destruct (swapV s index ri curr Hok Hidx Hfull Hsi Hc) as (Hok1 & Ht1 & Hm1 & Hmono & (prev & Hat & Hprev & Hnth)).
    rewrite Hat.
    pose proof (set_classes s index ri curr prev Hidx (Hok index Hidx) Hnth Hprev Hc) as Hsw.
    set (s1 := rbk_set s (bucket_key key index) ri curr) in *.
    assert (Hsize : size <> 0) by lia.
    set (newi := N.lxor index (h64 prev) mod size).
    assert (Hnewi : newi < size) by (apply N.mod_lt; exact Hsize).
    assert (Hcl : cls h64 jj (newi, prev) = cls h64 jj (index, prev)) by (apply cls_alt; exact Hidx).
    assert (Hm1' : mlen meta s1 = Some c) by congruence.
    destruct (rbk_is_free s1 (bucket_key key newi) bsize) eqn:Hfree.
    + pose proof (add_classes s1 newi prev Hnewi (Hok1 newi Hnewi) Hprev Hfree) as Hadd.
      destruct (addV s1 newi prev (Hok1 newi Hnewi) Hprev Hfree) as (_ & _ & (_ & Hmadd)).
      rewrite (hincr_classes _ 1%Z c) by congruence.
      rewrite Hcl in Hadd. rewrite (cls_ne h64 jj index prev Hprev) in *. rewrite (cls_ne h64 jj index curr Hc) in *.
      eapply perm_trans; [exact Hadd|exact Hsw].
    + assert (Hfull1 : bfull key bsize s1 newi) by (apply fullV; [apply Hok1; exact Hnewi|exact Hfree]).
      assert (Hit1 : Forall (ritem_ok key size bsize s1) ((prev, index, ri) :: items)).
      { constructor.
        - simpl. split; [exact Hprev|]. split; [exact Hidx|]. split; [apply Hmono; exact Hfull|exact Hsi].
        - rewrite Forall_forall in *. intros it Hin. destruct it as [[p bi] si]. destruct (Hit _ Hin) as (A & B & C & D).
          simpl. split; [exact A|]. split; [exact B|]. split; [apply Hmono; exact C|exact D]. }
      assert (Hundo1 : same_lists s0 (rundo s1 HD ((prev, index, ri) :: items))).
      { cbn [rundo rq_key hdl]. eapply same_lists_trans; [exact Hundo|].
        apply rundo_lists_congr. apply set_back; [lia|exact Hnth]. }
      specialize (IH s1 s0 c newi prev (tl draws) ((prev, index, ri) :: items) Hok1 Hm1' Hnewi Hfull1 Hprev
                     ltac:(destruct draws; simpl; [constructor|inversion Hdr; auto]) Hit1 Hundo1).
      destruct (revict h64 fuel s1 HD newi prev (tl draws) ((prev, index, ri) :: items) false) as [s'|s'|t s']; auto.
      rewrite Hcl in IH. rewrite (cls_ne h64 jj index prev Hprev) in *. rewrite (cls_ne h64 jj index curr Hc) in *.
      eapply perm_trans; [exact IH|exact Hsw].
Qed.

(* ---------- Insert / Remove / Lookup at the level of classes ---------- *)
Definition recls (x : bytes) : bytes * N :=
  match rck_positions h64 HD x with
  | Ok (fp, i1, i2) => (fp, N.min i1 i2)
  | _ => ([], 0)
  end.

Lemma rpositions_alt x fp i1 i2 : rck_positions h64 HD x = Ok (fp, i1, i2) -> fp <> [] ->
  i2 = alt size i1 (h64 fp).
Proof.
  intros Hp Hfp. unfold rck_positions in Hp. cbn [rq_size rq_bsize rq_fpl rq_retries hdl] in Hp.
  apply (positions_alt h64 jj (mkCuckoo size bsize fpl retries 0 []) x fp i1 i2 eq_refl Hp Hfp).
Qed.

Theorem rinsert_classes s c x coin draws fp i1 i2 :
  buckets_ok key size bsize s -> mlen meta s = Some c ->
  rck_positions h64 HD x = Ok (fp, i1, i2) -> fp <> [] -> i1 < size -> i2 < size ->
  Forall (fun k => k < 2 ^ 53) draws ->
  match rck_insert h64 s HD x false coin draws with
  | RInsOk s' => Permutation (rclasses s') (recls x :: rclasses s)
  | RInsFull s' => same_lists s s'
  | RInsPanic _ _ => False
  end.
Proof.
  intros Hok Hm Hp Hfp H1 H2 Hdr.
  pose proof (rpositions_alt x fp i1 i2 Hp Hfp) as Hi2.
  assert (Hec : [recls x] = cls h64 jj (i1, fp)).
  { unfold recls. rewrite Hp. rewrite (cls_ne h64 jj i1 fp Hfp). rewrite Hi2. reflexivity. }
  assert (Hec2 : cls h64 jj (i2, fp) = cls h64 jj (i1, fp)) by (rewrite Hi2; apply cls_alt; exact H1).
  unfold rck_insert. rewrite Hp. cbn [rq_size rq_key rq_bsize rq_retries hdl].
  replace (size =? 0) with false by lia.
  destruct (rbk_is_free s (bucket_key key i1) bsize) eqn:Hf1.
  - rewrite (hincr_classes _ 1%Z c) by (destruct (addV s i1 fp (Hok i1 H1) Hfp Hf1) as (_ & _ & (_ & ->)); exact Hm).
    pose proof (add_classes s i1 fp H1 (Hok i1 H1) Hfp Hf1) as Ha. rewrite <- Hec in Ha. exact Ha.
  - destruct (rbk_is_free s (bucket_key key i2) bsize) eqn:Hf2.
    + rewrite (hincr_classes _ 1%Z c) by (destruct (addV s i2 fp (Hok i2 H2) Hfp Hf2) as (_ & _ & (_ & ->)); exact Hm).
      pose proof (add_classes s i2 fp H2 (Hok i2 H2) Hfp Hf2) as Ha. rewrite Hec2, <- Hec in Ha. exact Ha.
    + assert (Hidx : (if coin then i1 else i2) < size) by (destruct coin; assumption).
      assert (Hfull : bfull key bsize s (if coin then i1 else i2)) by (destruct coin; apply fullV; auto).
      pose proof (revict_live (N.to_nat retries) s s c (if coin then i1 else i2) fp draws [] Hok Hm Hidx Hfull Hfp Hdr
                    (Forall_nil _) (same_lists_refl s)) as Hr.
      destruct (revict h64 (N.to_nat retries) s HD (if coin then i1 else i2) fp draws [] false) as [s'|s'|t s']; auto.
      assert (Hcc : cls h64 jj (if coin then i1 else i2, fp) = [recls x]) by (destruct coin; congruence).
      rewrite Hcc in Hr. exact Hr.
Qed.

Theorem rremove_classes s x s' fp i1 i2 :
  buckets_ok key size bsize s -> mlen meta s = Some (Z.of_nat (tot key size s)) ->
  rck_positions h64 HD x = Ok (fp, i1, i2) -> fp <> [] -> i1 < size -> i2 < size ->
  rck_remove h64 s HD x = (Ok true, s') ->
  Permutation (recls x :: rclasses s') (rclasses s).
Proof.
  intros Hok Hm Hp Hfp H1 H2 Hr.
  pose proof (rpositions_alt x fp i1 i2 Hp Hfp) as Hi2.
  assert (Hec : [recls x] = cls h64 jj (i1, fp)).
  { unfold recls. rewrite Hp. rewrite (cls_ne h64 jj i1 fp Hfp). rewrite Hi2. reflexivity. }
  assert (Hec2 : cls h64 jj (i2, fp) = cls h64 jj (i1, fp)) by (rewrite Hi2; apply cls_alt; exact H1).
  unfold rck_remove in Hr. rewrite Hp in Hr. cbn [rq_size rq_key hdl] in Hr.
  replace (size =? 0) with false in Hr by lia.
  assert (Hrem : forall i, i < size -> rbk_lookup s (bucket_key key i) fp = true ->
            Permutation (cls h64 jj (i, fp) ++ rclasses (hincr (rbk_remove s (bucket_key key i) fp) HD (-1))) (rclasses s)).
  { intros i Hi Hl.
    destruct (remove_view key meta bsize meta_not_bucket meta_not_len bsize_pos bsize_small s i fp (Hok i Hi) Hfp Hl) as (_ & _ & (_ & Hmm)).
    rewrite (hincr_classes _ (-1)%Z (Z.of_nat (tot key size s))) by congruence.
    apply (remove_classes s i fp Hi (Hok i Hi) Hfp Hl). }
  destruct (rbk_lookup s (bucket_key key i1) fp) eqn:Hl1.
  - injection Hr as <-. pose proof (Hrem i1 H1 Hl1) as Hx. rewrite <- Hec in Hx. exact Hx.
  - destruct (rbk_lookup s (bucket_key key i2) fp) eqn:Hl2; [|discriminate].
    injection Hr as <-. pose proof (Hrem i2 H2 Hl2) as Hx. rewrite Hec2, <- Hec in Hx. exact Hx.
Qed.

Theorem rlookup_of_class s x fp i1 i2 :
  rck_positions h64 HD x = Ok (fp, i1, i2) -> fp <> [] -> i1 < size -> i2 < size ->
  In (recls x) (rclasses s) -> rck_lookup h64 s HD x = Ok true.
Proof.
  intros Hp Hfp H1 H2 Hin.
  pose proof (rpositions_alt x fp i1 i2 Hp Hfp) as Hi2.
  unfold rclasses in Hin. apply in_flat_map in Hin. destruct Hin as (i & Hi & Hc). apply In_nseq in Hi.
  unfold bclasses in Hc. apply in_flat_map in Hc. destruct Hc as ([i' e] & Hie & Hcls).
  apply in_map_iff in Hie. destruct Hie as (e' & Heq & He). injection Heq as <- <-.
  unfold recls in Hcls. rewrite Hp in Hcls.
  destruct e' as [|e0 et]; [destruct Hcls|]. unfold cls in Hcls. cbn [fst snd] in Hcls.
  destruct Hcls as [Heq|[]]. injection Heq as Hfe Hm. rewrite Hfe in *. clear Hfe.
  assert (Hlk : rbk_lookup s (bucket_key key i) fp = true).
  { unfold rbk_lookup, r_lpos. fold (bl s i). destruct (index_of_in _ _ 0%nat He) as (p & ->). reflexivity. }
  rewrite Hi2 in Hm.
  unfold rck_lookup. rewrite Hp. cbn [obind rq_size rq_key hdl]. replace (size =? 0) with false by lia.
  destruct (same_class_bucket h64 jj i1 i fp H1 Hi Hm) as [->|Hc].
  - rewrite Hlk. reflexivity.
  - rewrite <- Hi2 in Hc. subst i. destruct (rbk_lookup s (bucket_key key i1) fp); [reflexivity|]. rewrite Hlk. reflexivity.
Qed.

(* ---------- every history ---------- *)
Fixpoint rlrun (s : store) (L : list bytes) (ops : list lop) : store * list bytes :=
  match ops with
  | [] => (s, L)
  | LIns x coin draws :: t =>
      match rck_insert h64 s HD x false coin draws with
      | RInsOk s' => rlrun s' (x :: L) t
      | RInsFull s' | RInsPanic _ s' => rlrun s' L t
      end
  | LRem x :: t =>
      match rck_remove h64 s HD x with
      | (Ok true, s') => rlrun s' (remove_one x L) t
      | (_, s') => rlrun s' L t
      end
  end.

Fixpoint rusage_ok (s : store) (L : list bytes) (ops : list lop) : Prop :=
  match ops with
  | [] => True
  | LIns x coin draws :: t =>
      fp_ok h64 fpl x = true /\ Forall (fun k => k < 2 ^ 53) draws /\
      match rck_insert h64 s HD x false coin draws with
      | RInsOk s' => rusage_ok s' (x :: L) t
      | RInsFull s' | RInsPanic _ s' => rusage_ok s' L t
      end
  | LRem x :: t =>
      In x L /\
      match rck_remove h64 s HD x with
      | (Ok true, s') => rusage_ok s' (remove_one x L) t
      | (_, s') => rusage_ok s' L t
      end
  end.

Definition RLI (s : store) (L : list bytes) : Prop :=
  RI key meta size bsize s /\ Forall (fun x => fp_ok h64 fpl x = true) L /\
  Permutation (rclasses s) (map recls L).

Let posOK := rpositions_ok key meta size bsize meta_not_bucket meta_not_len bsize_pos bsize_small fpl retries h64 size_pos.
Let insOK := rinsert_ok key meta size bsize meta_not_bucket meta_not_len bsize_pos bsize_small fpl retries h64.
Let remOK := rremove_ok key meta size bsize meta_not_bucket meta_not_len bsize_pos bsize_small fpl retries h64.

Theorem rlrun_inv ops : forall s L, RLI s L -> rusage_ok s L ops ->
  RLI (fst (rlrun s L ops)) (snd (rlrun s L ops)).
Proof.
  induction ops as [|[x coin draws|x] t IH]; intros s L HI Hu; cbn [rlrun rusage_ok] in *; [exact HI|..].
  - destruct Hu as (Hok & Hdr & Hu). pose proof HI as ((Hbk & Hm) & HfpL & Hperm).
    destruct (posOK x Hok) as (fp & i1 & i2 & Hp & Hfp & H1 & H2).
    pose proof (rinsert_classes s _ x coin draws fp i1 i2 Hbk Hm Hp Hfp H1 H2 Hdr) as Hc.
    pose proof (insOK s _ x false coin draws fp i1 i2 Hbk Hm Hp Hfp H1 H2 Hdr) as Hi.
    destruct (rck_insert h64 s HD x false coin draws) as [s'|s'|tg s']; simpl in Hi; [| |contradiction].
    + destruct Hi as (A & B & C). apply IH; [|exact Hu].
      split; [split; [exact A|rewrite C; f_equal; lia]|]. split; [constructor; assumption|].
      cbn [map]. eapply perm_trans; [exact Hc|]. apply perm_skip. exact Hperm.
    + destruct Hi as (A & B & C). apply IH; [|exact Hu].
      split; [split; [exact A|rewrite C; f_equal; lia]|]. split; [exact HfpL|].
      rewrite (same_lists_classes s s' Hc). exact Hperm.
  - destruct Hu as (Hin & Hu). pose proof HI as ((Hbk & Hm) & HfpL & Hperm).
    assert (Hok : fp_ok h64 fpl x = true) by (rewrite Forall_forall in HfpL; apply HfpL; exact Hin).
    destruct (posOK x Hok) as (fp & i1 & i2 & Hp & Hfp & H1 & H2).
    pose proof (remOK s _ x fp i1 i2 Hbk Hm Hp Hfp H1 H2) as Hr.
    destruct (rck_remove h64 s HD x) as [[[|]|tg|tg] s'] eqn:Er; try contradiction.
    + destruct Hr as (A & B & C). apply IH; [|exact Hu].
      split; [split; [exact A|rewrite C; f_equal; lia]|]. split.
      * rewrite Forall_forall in *. intros y Hy. apply HfpL. eapply remove_one_incl; eauto.
      * pose proof (rremove_classes s x s' fp i1 i2 Hbk Hm Hp Hfp H1 H2 Er) as Hc.
        pose proof (Permutation_map recls (remove_one_perm x L Hin)) as Hmp. cbn [map] in Hmp.
        apply (Permutation_cons_inv (a := recls x)).
        eapply perm_trans; [exact Hc|]. eapply perm_trans; [exact Hperm|exact Hmp].
    + subst s'. apply IH; assumption.
Qed.

(* C02 for the Redis variant: after any history in the documented usage every live element is found *)
Theorem redis_live_elements_found ops s L :
  RLI s L -> rusage_ok s L ops ->
  forall x, In x (snd (rlrun s L ops)) -> rck_lookup h64 (fst (rlrun s L ops)) HD x = Ok true.
Proof.
  intros HI Hu x Hin. destruct (rlrun_inv ops s L HI Hu) as (_ & HfpL & Hperm).
  assert (Hok : fp_ok h64 fpl x = true) by (rewrite Forall_forall in HfpL; apply HfpL; exact Hin).
  destruct (posOK x Hok) as (fp & i1 & i2 & Hp & Hfp & H1 & H2).
  apply (rlookup_of_class _ x fp i1 i2 Hp Hfp H1 H2).
  eapply Permutation_in; [apply Permutation_sym; exact Hperm|]. apply in_map. exact Hin.
Qed.

(* a new filter with fresh keys: no live elements, no classes *)
Theorem redis_new_RLI s : meta <> key ->
  (forall i, i < size -> sget s (bucket_key key i) = None /\ sget s (len_key (bucket_key key i)) = None) ->
  RLI (snd (rck_new s size bsize fpl retries key meta)) [].
Proof.
  intros Hmk Hfresh.
  destruct (rck_new_RI key meta size bsize meta_not_bucket meta_not_len bsize_pos bsize_small fpl retries h64 size_pos s Hmk Hfresh) as (HRI & Htot).
  split; [exact HRI|]. split; [constructor|]. cbn [map].
  (* no stored entries: every list has no non-empty entry, so there are no classes *)
  assert (Hnil : rclasses (snd (rck_new s size bsize fpl retries key meta)) = []).
  { set (s' := snd (rck_new s size bsize fpl retries key meta)) in *.
    destruct HRI as (Hbk & _). unfold rclasses.
    assert (Hall : forall l, (forall i, In i l -> i < size) ->
              (list_sum (map (fun i => occ (bl s' i)) l) = 0)%nat -> flat_map (fun i => bclasses i (bl s' i)) l = []).
    { induction l as [|a t IH]; intros Hin Hs; [reflexivity|]. cbn [map list_sum fold_right] in Hs.
      change (fold_right Nat.add 0%nat (map (fun i => occ (bl s' i)) t)) with (list_sum (map (fun i => occ (bl s' i)) t)) in Hs.
      cbn [flat_map]. rewrite IH; [|intros i Hi; apply Hin; right; exact Hi|lia]. rewrite app_nil_r.
      assert (Ho : occ (bl s' a) = 0%nat) by lia.
      unfold bclasses. rewrite (occ_zero_repeat _ Ho). clear. induction (length (bl s' a)) as [|n IHn]; [reflexivity|exact IHn]. }
    apply Hall; [intros i Hi; apply In_nseq; exact Hi|exact Htot]. }
  rewrite Hnil. apply perm_nil.
Qed.
End Live.
