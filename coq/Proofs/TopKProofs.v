(* Proofs about the in-memory Top-K model: Values() is the heap contents sorted by
   (count desc, element asc). *)
From GX.Model Require Import Base CMS Heap TopK.
From GX.Proofs Require Import ListLemmas.
From Coq Require Import Lia ZifyN ZifyNat ZifyBool Permutation Sorted.

Lemma bytes_cmp_refl a : bytes_cmp a a = Eq.
Proof. induction a as [|x a IH]; simpl; auto. now rewrite N.compare_refl. Qed.

Lemma bytes_cmp_antisym a b : bytes_cmp b a = CompOpp (bytes_cmp a b).
Proof.
  revert b; induction a as [|x a IH]; destruct b as [|y b]; simpl; auto.
  rewrite (N.compare_antisym x y). destruct (x ?= y); simpl; auto.
Qed.

(* the order is total: of two entries, one is before-or-equal the other *)
Lemma before_total a b : before a b = true \/ before b a = true \/ (hfreq a = hfreq b /\ bytes_cmp (fst a) (fst b) = Eq).
Proof.
  unfold before. destruct (hfreq a =? hfreq b) eqn:E.
  - apply N.eqb_eq in E. rewrite E, N.eqb_refl. unfold bytes_ltb.
    rewrite (bytes_cmp_antisym (fst a) (fst b)). destruct (bytes_cmp (fst a) (fst b)); simpl; auto.
  - apply N.eqb_neq in E. destruct (hfreq b =? hfreq a) eqn:E2; [apply N.eqb_eq in E2; congruence|].
    destruct (N.ltb_spec (hfreq b) (hfreq a)); auto. right; left. apply N.ltb_lt. lia.
Qed.

Lemma insert_sorted_perm e l : Permutation (e :: l) (insert_sorted e l).
Proof.
  induction l as [|y t IH]; simpl; auto.
  destruct (before y e); auto. rewrite perm_swap. now constructor.
Qed.

Lemma sort_entries_perm l : Permutation l (sort_entries l).
Proof.
  induction l as [|e t IH]; simpl; auto.
  etransitivity; [|apply insert_sorted_perm]. now constructor.
Qed.

Lemma sort_entries_length l : length (sort_entries l) = length l.
Proof. symmetry. apply Permutation_length, sort_entries_perm. Qed.

(* not-after: y is not strictly after e *)
Definition nafter (y e : hentry) : Prop := before e y = false.

Lemma insert_sorted_hd e l a : HdRel nafter a l -> nafter a e -> HdRel nafter a (insert_sorted e l).
Proof. intros H He. destruct l as [|y t]; simpl; [constructor; auto|]. inversion H; subst. destruct (before y e); constructor; auto. Qed.

(* adjacent entries of Values() are never out of order: no later entry is strictly before an
   earlier one *)
Lemma before_irrefl_false a b : before a b = true -> before b a = false.
Proof.
  unfold before. destruct (hfreq a =? hfreq b) eqn:E.
  - apply N.eqb_eq in E. rewrite E, N.eqb_refl. unfold bytes_ltb.
    rewrite (bytes_cmp_antisym (fst a) (fst b)). destruct (bytes_cmp (fst a) (fst b)); simpl; auto; discriminate.
  - apply N.eqb_neq in E. destruct (hfreq b =? hfreq a) eqn:E2; [apply N.eqb_eq in E2; congruence|].
    intros H. apply N.ltb_lt in H. apply N.ltb_ge. lia.
Qed.

Lemma insert_sorted_sorted e l : Sorted nafter l -> Sorted nafter (insert_sorted e l).
Proof.
  induction 1 as [|y t Hs IH Hh]; simpl; [repeat constructor|].
  destruct (before y e) eqn:B.
  - constructor; auto. apply insert_sorted_hd; auto. unfold nafter. now apply before_irrefl_false.
  - constructor; [constructor; auto|]. constructor. exact B.
Qed.

Theorem sort_entries_sorted l : Sorted nafter (sort_entries l).
Proof. induction l as [|e t IH]; simpl; [constructor|]. now apply insert_sorted_sorted. Qed.
