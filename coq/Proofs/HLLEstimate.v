(* What the estimator of the in-memory HyperLogLog can and cannot say (C05).
   - Updates and merges never increase the harmonic sum sum_j 2^(-reg_j): the ideal estimate
     alpha m^2 / sum never decreases as elements arrive (the clause "the estimate grows").
   - With the index function of the code, register numbers lie in [1,65]: every other register of
     a sketch built by updates from a new one stays 0, so for m >= 66 the harmonic sum is at least
     m - 65 whatever was inserted, and every answer the estimator can give is bounded by about
     alpha m^2 / (m - 65) -- independent of the number of distinct elements. This is the recorded
     accuracy finding as a theorem over ALL hash functions and ALL histories. *)
From GX.Model Require Import Base HLL.
From GX.Proofs Require Import ListLemmas HLLProofs HLLApi.
From Coq Require Import Lia ZifyN ZifyNat ZifyBool.

Definition hterm (r : N) : N := 2 ^ (255 - r).
Definition hsum (regs : list N) : N := sumN (map hterm regs).

Lemma hsum_num_eq s : hll_hsum_num s = hsum (h_regs s).
Proof. reflexivity. Qed.

Lemma hterm_antitone a b : a <= b -> hterm b <= hterm a.
Proof. intros H. unfold hterm. apply N.pow_le_mono_r; lia. Qed.

Lemma hterm_pos r : 0 < hterm r.
Proof. unfold hterm. apply N.neq_0_lt_0. apply N.pow_nonzero. lia. Qed.

Lemma hsum_upd_le regs i g :
  (forall x, In x regs -> x <= g x) -> hsum (upd regs i g) <= hsum regs.
Proof.
  revert i; induction regs as [|x t IH]; intros i Hg; [destruct i; cbn; lia|].
  destruct i as [|i]; cbn [upd]; unfold hsum; cbn [map sumN].
  - pose proof (hterm_antitone x (g x) (Hg x (or_introl eq_refl))). lia.
  - pose proof (IH i (fun y Hy => Hg y (or_intror Hy))) as H. unfold hsum in H. lia.
Qed.

Lemma rupd_hsum_le regs iv : Forall (fun r => r < 256) regs -> hsum (rupd regs iv) <= hsum regs.
Proof.
  intros Hf. unfold rupd. apply hsum_upd_le. intros x Hx.
  rewrite Forall_forall in Hf. pose proof (Hf x Hx). pose proof (wrap8_lt (snd iv)).
  rewrite wrap8_small by lia. lia.
Qed.

Section Est.
Variable hic : N -> bytes -> N * N.

(* one Update never increases the harmonic sum *)
Theorem update_hsum_le s x s' : hwf s -> hll_update hic s x = Ok s' -> hll_hsum_num s' <= hll_hsum_num s.
Proof.
  intros [_ Hf] E. rewrite !hsum_num_eq, (update_regs hic s x s' E). apply rupd_hsum_le; exact Hf.
Qed.

Lemma fold_rupd_hsum_le ivs : forall regs, Forall (fun r => r < 256) regs -> hsum (fold_left rupd ivs regs) <= hsum regs.
Proof.
  induction ivs as [|iv t IH]; intros regs Hf; cbn [fold_left]; [lia|].
  pose proof (IH (rupd regs iv) (rupd_small regs iv Hf)). pose proof (rupd_hsum_le regs iv Hf). lia.
Qed.

(* nor does any history of updates *)
Theorem updates_hsum_le s xs s' : hwf s -> upd_all hic s xs = Ok s' -> hll_hsum_num s' <= hll_hsum_num s.
Proof.
  intros Hw E. destruct (upd_all_regs hic xs s s' Hw E) as (Hr & _). rewrite !hsum_num_eq, Hr.
  apply fold_rupd_hsum_le. exact (proj2 Hw).
Qed.
End Est.

(* ---------- the code's index function: only registers 1..65 are ever written ---------- *)
Definition outside (j : nat) : Prop := (j = 0 \/ 65 < j)%nat.

Lemma vmax_outside hash p xs j : outside j -> vmax (map (hic_of hash p) xs) j = 0.
Proof.
  intros Hj. induction xs as [|x t IH]; cbn [map vmax]; [reflexivity|].
  destruct (Nat.eqb (N.to_nat (fst (hic_of hash p x))) j) eqn:E; [|exact IH].
  apply Nat.eqb_eq in E. unfold hic_of in E.
  pose proof (index_le_65 p (hash x)). pose proof (index_ge_1 p (hash x)). destruct Hj; lia.
Qed.

Theorem regs_outside_stay_zero hash m al s0 xs s :
  hll_new m al = Ok s0 -> upd_all (hic_of hash) s0 xs = Ok s ->
  forall j, outside j -> nth j (h_regs s) 0 = 0.
Proof.
  intros Hn E j Hj. destruct (new_wf m al s0 Hn) as (Hw & Hm & Hp).
  destruct (upd_all_regs (hic_of hash) xs s0 s Hw E) as (Hr & _). rewrite Hr.
  assert (Hregs0 : h_regs s0 = repeat 0 (N.to_nat m)).
  { unfold hll_new in Hn. destruct (m =? 0); [discriminate|]. destruct (negb (is_pow2 m)); [discriminate|].
    injection Hn as <-. reflexivity. }
  destruct (Nat.lt_ge_cases j (length (h_regs s0))) as [Hlt|Hge].
  - rewrite nth_fold_rupd by (try exact (proj2 Hw); exact Hlt).
    rewrite vmax_outside by exact Hj. rewrite Hregs0.
    assert (Hz : nth j (repeat 0 (N.to_nat m)) 0 = 0).
    { destruct (nth_in_or_default j (repeat 0 (N.to_nat m)) 0) as [Hin|Hd]; [|exact Hd].
      exact (repeat_spec _ _ _ Hin). }
    rewrite Hz. reflexivity.
  - apply nth_overflow. rewrite fold_rupd_length. exact Hge.
Qed.

Lemma hsum_all_zero l : (forall x, In x l -> x = 0) -> hsum l = N.of_nat (length l) * 2 ^ 255.
Proof.
  induction l as [|x t IH]; intros H; unfold hsum; cbn [map sumN length]; [lia|].
  rewrite (H x (or_introl eq_refl)). unfold hsum in IH. rewrite IH by (intros y Hy; apply H; right; exact Hy).
  unfold hterm. rewrite N.sub_0_r. lia.
Qed.

Lemma hsum_app a b : hsum (a ++ b) = hsum a + hsum b.
Proof. unfold hsum. rewrite map_app. apply sumN_app. Qed.

Lemma nth_skipn_add {A} (l : list A) n i d : nth i (skipn n l) d = nth (n + i) l d.
Proof. revert l; induction n as [|n IH]; intros [|x t]; cbn; auto. destruct i; reflexivity. Qed.

(* registers 0 and 66.. are zero: they alone contribute m - 65 to the harmonic sum *)
Lemma hsum_lower_bound regs :
  (66 <= length regs)%nat -> (forall j, outside j -> nth j regs 0 = 0) ->
  (N.of_nat (length regs) - 65) * 2 ^ 255 <= hsum regs.
Proof.
  intros Hlen Hz.
  rewrite <- (firstn_skipn 66 regs) at 2. rewrite hsum_app.
  assert (Htail : hsum (skipn 66 regs) = N.of_nat (length (skipn 66 regs)) * 2 ^ 255).
  { apply hsum_all_zero. intros x Hx. destruct (In_nth _ _ 0 Hx) as (i & Hi & <-).
    rewrite nth_skipn_add. apply Hz. right. lia. }
  rewrite Htail, skipn_length.
  assert (Hhead : 2 ^ 255 <= hsum (firstn 66 regs)).
  { destruct regs as [|r0 t]; [cbn in Hlen; lia|].
    pose proof (Hz 0%nat (or_introl eq_refl)) as H0. cbn in H0. subst r0.
    change (firstn 66 (0 :: t)) with (0 :: firstn 65 t). unfold hsum; cbn [map sumN].
    unfold hterm at 1. rewrite N.sub_0_r. lia. }
  nia.
Qed.

Theorem harmonic_sum_lower_bound hash m al s0 xs s :
  66 <= m -> hll_new m al = Ok s0 -> upd_all (hic_of hash) s0 xs = Ok s ->
  (m - 65) * 2 ^ 255 <= hll_hsum_num s.
Proof.
  intros Hm Hn E. destruct (new_wf m al s0 Hn) as (Hw & Hm0 & _).
  destruct (upd_all_regs (hic_of hash) xs s0 s Hw E) as (_ & Hw' & Hm' & _).
  rewrite hsum_num_eq.
  pose proof (hsum_lower_bound (h_regs s)) as H.
  destruct Hw' as [Hl _]. rewrite Hl in H. rewrite Hm', Hm0 in H.
  rewrite N2Nat.id in H. apply H; [lia|].
  exact (regs_outside_stay_zero hash m al s0 xs s Hn E).
Qed.

(* every answer the estimator accepts as consistent with its formula is bounded independently of
   what was inserted: (2c - 1) * a2 * (m - 65) * guard <= 2 * a1 * m^2 * (guard + 1), where
   alpha_m = a1 / a2 -- i.e. c <= about alpha m^2 / (m - 65) + 1/2 *)
Theorem estimate_bounded hash m al s0 xs s wc wr c :
  66 <= m -> hll_new m al = Ok s0 -> upd_all (hic_of hash) s0 xs = Ok s ->
  hll_count_check m (hll_hsum_num s) (2 ^ 255) wc wr c = 1 ->
  (2 * c - 1) * snd (hll_alpha m) * (m - 65) * guard <= 2 * fst (hll_alpha m) * m * m * (guard + 1).
Proof.
  intros Hm Hn E Hc. pose proof (harmonic_sum_lower_bound hash m al s0 xs s Hm Hn E) as HH.
  unfold hll_count_check in Hc. cbv zeta in Hc.
  set (a1 := fst (hll_alpha m)) in *. set (a2 := snd (hll_alpha m)) in *.
  set (H := hll_hsum_num s) in *. set (D := 2 ^ 255) in *.
  assert (HD : 0 < D) by (unfold D; apply N.neq_0_lt_0, N.pow_nonzero; lia).
  destruct (a2 * H =? 0); [discriminate|].
  destruct (2 ^ 62 * (a2 * H) <=? a1 * m * m * D); [discriminate|].
  destruct (wc && (2 ^ 32 * (a2 * H) * guard <=? 30 * (a1 * m * m * D) * (guard + 1))); [discriminate|].
  assert (Hkey : (2 * c - 1) * (a2 * H) * guard <= 2 * (a1 * m * m * D) * (guard + 1)).
  { destruct wr.
    - destruct ((2 * c * (a2 * H) * guard <=? 2 * (a1 * m * m * D) * (guard + 1) + a2 * H * guard) &&
                (2 * (a1 * m * m * D) * (guard - 1) <? (2 * c + 1) * (a2 * H) * guard)) eqn:B; [|discriminate].
      apply andb_prop in B. destruct B as [B _]. apply N.leb_le in B. nia.
    - destruct ((c * (a2 * H) * guard <=? a1 * m * m * D * (guard + 1)) &&
                (a1 * m * m * D * (guard - 1) <? (c + 1) * (a2 * H) * guard)) eqn:B; [|discriminate].
      apply andb_prop in B. destruct B as [B _]. apply N.leb_le in B. nia. }
  (* cancel D *)
  assert (Hle : (2 * c - 1) * a2 * (m - 65) * guard * D <= 2 * a1 * m * m * (guard + 1) * D).
  { assert ((2 * c - 1) * a2 * ((m - 65) * D) * guard <= (2 * c - 1) * (a2 * H) * guard).
    { apply N.mul_le_mono_r. rewrite <- !N.mul_assoc. apply N.mul_le_mono_l. apply N.mul_le_mono_l. exact HH. }
    nia. }
  apply N.mul_le_mono_pos_r in Hle; [exact Hle|exact HD].
Qed.
