(* CuckooInv.v — the slot-count invariant of the in-memory cuckoo filter (C13, C14, C02):
   in every state reachable through Insert / Remove of elements with a non-empty fingerprint,
   every bucket has exactly bucketSize slots, its counter equals the number of occupied slots
   (so no bucket exceeds its capacity), and Length equals the total number of stored entries. *)
From GX.Model Require Import Base Cuckoo.
From GX.Proofs Require Import ListLemmas CuckooProofs.
From Coq Require Import ZArith Lia ZifyN ZifyNat ZifyBool.
Open Scope N_scope.

(* ---------- occupied slots of a slot list ---------- *)
Definition nonempty (e : bytes) : bool := match e with [] => false | _ => true end.
Definition occ (l : list bytes) : nat := length (filter nonempty l).

Lemma nonempty_true e : nonempty e = true <-> e <> [].
Proof. destruct e; simpl; split; congruence. Qed.

Lemma occ_cons a l : occ (a :: l) = ((if nonempty a then 1 else 0) + occ l)%nat.
Proof. unfold occ; simpl; destruct (nonempty a); reflexivity. Qed.

Lemma occ_le l : (occ l <= length l)%nat.
Proof. induction l as [|a l IH]; [unfold occ; simpl; lia|]. rewrite occ_cons; simpl; destruct (nonempty a); lia. Qed.

Lemma occ_repeat_empty n : occ (repeat [] n) = 0%nat.
Proof. induction n as [|n IH]; [reflexivity|]. simpl repeat. rewrite occ_cons, IH. reflexivity. Qed.

Lemma occ_setnth l : forall i v e, nth_error l i = Some v ->
  (occ (setnth l i e) + (if nonempty v then 1 else 0) = occ l + (if nonempty e then 1 else 0))%nat.
Proof.
  unfold setnth. induction l as [|a l IH]; intros [|i] v e H; simpl in H; try discriminate.
  - injection H as ->. simpl upd. rewrite !occ_cons. lia.
  - simpl upd. rewrite !occ_cons. specialize (IH i v e H). lia.
Qed.

Lemma nth_error_upd_same {A} (l : list A) : forall i f, nth_error (upd l i f) i = option_map f (nth_error l i).
Proof. induction l as [|a l IH]; intros [|i] f; simpl; auto. Qed.

Lemma nth_error_upd_other {A} (l : list A) : forall i k f, i <> k -> nth_error (upd l i f) k = nth_error l k.
Proof. induction l as [|a l IH]; intros [|i] [|k] f H; simpl; auto; congruence. Qed.

Lemma Forall_upd {A} (P : A -> Prop) (l : list A) : forall i f,
  Forall P l -> (forall x, P x -> P (f x)) -> Forall P (upd l i f).
Proof.
  induction l as [|a l IH]; intros [|i] f H Hf; simpl; auto; inversion H as [|? ? Ha Hl]; subst; constructor; auto.
Qed.

Lemma index_of_spec l : forall x k i, index_of bytes_eqb l x k = Some i ->
  (k <= i)%nat /\ nth_error l (i - k) = Some x.
Proof.
  induction l as [|y l IH]; intros x k i H; simpl in H; [discriminate|].
  destruct (bytes_eqb y x) eqn:E.
  - injection H as <-. apply bytes_eqb_eq in E. subst. rewrite Nat.sub_diag. split; [lia|reflexivity].
  - apply IH in H. destruct H as [Hk Hn]. split; [lia|].
    replace (i - k)%nat with (S (i - S k)) by lia. exact Hn.
Qed.

Lemma index_of_none l : forall x k, index_of bytes_eqb l x k = None -> ~ In x l.
Proof.
  induction l as [|y l IH]; intros x k H; simpl in *; [tauto|].
  destruct (bytes_eqb y x) eqn:E; [discriminate|].
  intros [->|Hin]; [rewrite bytes_eqb_refl in E; discriminate|]. exact (IH x (S k) H Hin).
Qed.

(* a slot list with every slot occupied *)
Lemma allne_nth l : occ l = length l -> forall i v, nth_error l i = Some v -> v <> [].
Proof.
  induction l as [|a l IH]; intros H [|i] v Hn; simpl in Hn; try discriminate.
  - injection Hn as ->. rewrite occ_cons in H. simpl in H. pose proof (occ_le l).
    destruct v; [simpl in H; lia|congruence].
  - rewrite occ_cons in H. simpl in H. pose proof (occ_le l).
    apply (IH ltac:(destruct (nonempty a); lia) i v Hn).
Qed.

Lemma occ_zero_no_entry l e : occ l = 0%nat -> e <> [] -> ~ In e l.
Proof.
  induction l as [|a l IH]; intros H He; [tauto|]. rewrite occ_cons in H.
  intros [->|Hin].
  - apply nonempty_true in He. rewrite He in H. lia.
  - apply IH; auto. lia.
Qed.

(* ---------- buckets ---------- *)
Definition bk_wf (bs : N) (b : bucket) : Prop :=
  k_size b = bs /\ length (k_slots b) = N.to_nat bs /\ k_len b = N.of_nat (occ (k_slots b)).
Definition bk_full (b : bucket) : Prop := occ (k_slots b) = length (k_slots b).
Definition total (bks : list bucket) : N := sumN (map k_len bks).

Lemma bk_new_wf bs : bk_wf bs (bk_new bs).
Proof. unfold bk_wf, bk_new; simpl. rewrite repeat_length, occ_repeat_empty. auto. Qed.

Lemma bk_wf_len_le bs b : bk_wf bs b -> k_len b <= bs.
Proof. intros (_ & Hl & Hc). pose proof (occ_le (k_slots b)). lia. Qed.

Lemma not_free_full bs b : bk_wf bs b -> bk_is_free b = false -> bk_full b.
Proof.
  intros (Hs & Hl & Hc) Hf. unfold bk_is_free in Hf. unfold bk_full.
  pose proof (occ_le (k_slots b)). lia.
Qed.

Lemma wrap_decr k : 1 <= k -> k < two64 -> wrap64 (k + two64 - 1) = k - 1.
Proof.
  intros H1 H2. rewrite wrap64_spec.
  replace (k + two64 - 1) with ((k - 1) + 1 * two64) by lia.
  rewrite N.mod_add by (unfold two64; lia). apply N.mod_small. lia.
Qed.

Lemma bk_add_wf bs b e r b' :
  bk_wf bs b -> bs < two64 -> e <> [] -> bk_is_free b = true -> bk_add b e = Ok (r, b') ->
  bk_wf bs b' /\ k_len b' = k_len b + 1.
Proof.
  intros (Hs & Hl & Hc) Hbs He Hf H. unfold bk_add in H.
  destruct e as [|e0 e']; [congruence|]. rewrite Hf in H. simpl negb in H. cbv iota in H.
  destruct (bk_index_of b []) as [i|] eqn:Ei; [|discriminate].
  injection H as _ <-. unfold bk_index_of in Ei. apply index_of_spec in Ei. destruct Ei as [_ Hn].
  rewrite Nat.sub_0_r in Hn.
  pose proof (occ_setnth (k_slots b) i [] (e0 :: e') Hn) as Ho. simpl in Ho.
  unfold bk_is_free in Hf. pose proof (occ_le (k_slots b)).
  assert (Hw : wrap64 (k_len b + 1) = k_len b + 1) by (apply wrap64_small; lia).
  unfold bk_wf; simpl. rewrite Hw. unfold setnth. rewrite upd_length. unfold setnth in Ho.
  repeat split; auto. lia.
Qed.

Lemma bk_set_wf bs b i v e :
  bk_wf bs b -> nth_error (k_slots b) i = Some v -> v <> [] -> e <> [] ->
  bk_wf bs (bk_set b i e) /\ k_len (bk_set b i e) = k_len b /\ (bk_full b -> bk_full (bk_set b i e)).
Proof.
  intros (Hs & Hl & Hc) Hn Hv He.
  pose proof (occ_setnth (k_slots b) i v e Hn) as Ho.
  apply nonempty_true in Hv. apply nonempty_true in He. rewrite Hv, He in Ho.
  unfold bk_wf, bk_full, bk_set; simpl. unfold setnth in *. rewrite upd_length.
  repeat split; auto; try lia.
Qed.

Lemma bk_remove_wf bs b e b' :
  bk_wf bs b -> bs < two64 -> e <> [] -> bk_remove b e = (true, b') ->
  bk_wf bs b' /\ k_len b' + 1 = k_len b.
Proof.
  intros (Hs & Hl & Hc) Hbs He H. unfold bk_remove in H.
  destruct (bk_index_of b e) as [i|] eqn:Ei; [|discriminate].
  injection H as <-. unfold bk_index_of in Ei. apply index_of_spec in Ei. destruct Ei as [_ Hn].
  rewrite Nat.sub_0_r in Hn.
  pose proof (occ_setnth (k_slots b) i e [] Hn) as Ho. apply nonempty_true in He. rewrite He in Ho.
  simpl in Ho. pose proof (occ_le (k_slots b)).
  assert (Hw : wrap64 (k_len b + two64 - 1) = k_len b - 1) by (apply wrap_decr; lia).
  unfold bk_wf; simpl. rewrite Hw. unfold setnth in *. rewrite upd_length.
  repeat split; auto; lia.
Qed.

Lemma total_setnth bks : forall i b b', nth_error bks i = Some b ->
  total (setnth bks i b') + k_len b = total bks + k_len b'.
Proof.
  unfold total, setnth. induction bks as [|a l IH]; intros [|i] b b' H; simpl in H; try discriminate.
  - injection H as ->. simpl. lia.
  - simpl. specialize (IH i b b' H). lia.
Qed.

Lemma total_le bs bks : Forall (bk_wf bs) bks -> total bks <= N.of_nat (length bks) * bs.
Proof.
  unfold total. induction 1 as [|b l Hb _ IH]; [simpl; lia|].
  apply bk_wf_len_le in Hb. cbn [map sumN length]. rewrite Nat2N.inj_succ. lia.
Qed.

Lemma total_ge_in bks : forall i b, nth_error bks i = Some b -> k_len b <= total bks.
Proof.
  unfold total. induction bks as [|a l IH]; intros [|i] b H; simpl in H; try discriminate.
  - injection H as ->. simpl. lia.
  - simpl. specialize (IH i b H). lia.
Qed.

(* ---------- the filter ---------- *)
Definition params (f : cuckoo) := (q_size f, q_bsize f, q_fpl f, q_retries f).

(* well-formed buckets, independent of the Length field *)
Definition BW (f : cuckoo) : Prop :=
  Forall (bk_wf (q_bsize f)) (q_buckets f) /\
  length (q_buckets f) = N.to_nat (q_size f) /\
  q_size f * q_bsize f < two64.
Definition ck_inv (f : cuckoo) : Prop := BW f /\ q_len f = total (q_buckets f).

Lemma get_bucket_spec f i b : get_bucket f i = Ok b ->
  i < N.of_nat (length (q_buckets f)) /\ nth_error (q_buckets f) (N.to_nat i) = Some b.
Proof.
  unfold get_bucket, nthN. destruct (i <? N.of_nat (length (q_buckets f))) eqn:E; [|discriminate].
  destruct (nth_error (q_buckets f) (N.to_nat i)) eqn:En; [|discriminate].
  intros H; injection H as ->. split; [lia|reflexivity].
Qed.

Lemma get_bucket_set_same f i b b' : get_bucket f i = Ok b -> get_bucket (set_bucket f i b') i = Ok b'.
Proof.
  intros H. apply get_bucket_spec in H. destruct H as [Hi Hn].
  unfold get_bucket, nthN, set_bucket; simpl. unfold setnth. rewrite upd_length.
  replace (i <? N.of_nat (length (q_buckets f))) with true by lia.
  rewrite nth_error_upd_same, Hn. reflexivity.
Qed.

Lemma get_bucket_set_other f i j b' : i <> j -> get_bucket (set_bucket f i b') j = get_bucket f j.
Proof.
  intros H. unfold get_bucket, nthN, set_bucket; simpl. unfold setnth. rewrite upd_length.
  destruct (j <? N.of_nat (length (q_buckets f))); [|reflexivity].
  rewrite nth_error_upd_other by lia. reflexivity.
Qed.

Lemma BW_bsize_lt f i b : BW f -> get_bucket f i = Ok b -> q_bsize f < two64.
Proof.
  intros (_ & Hn & Hc) H. apply get_bucket_spec in H. destruct H as [Hi _]. unfold two64 in *. nia.
Qed.

Lemma BW_bucket_wf f i b : BW f -> get_bucket f i = Ok b -> bk_wf (q_bsize f) b.
Proof.
  intros (Hf & _) H. apply get_bucket_spec in H. destruct H as [_ Hn].
  rewrite Forall_forall in Hf. apply Hf. eapply nth_error_In; eauto.
Qed.

Lemma set_bucket_BW f i b b' :
  BW f -> get_bucket f i = Ok b -> bk_wf (q_bsize f) b' ->
  BW (set_bucket f i b') /\
  total (q_buckets (set_bucket f i b')) + k_len b = total (q_buckets f) + k_len b' /\
  params (set_bucket f i b') = params f /\ q_len (set_bucket f i b') = q_len f.
Proof.
  intros (Hf & Hn & Hc) Hg Hb'. apply get_bucket_spec in Hg. destruct Hg as [Hi Hnth].
  unfold BW, set_bucket, params; simpl. unfold setnth. rewrite upd_length.
  repeat split; auto.
  - apply Forall_upd; auto.
  - apply (total_setnth (q_buckets f) (N.to_nat i) b b' Hnth).
Qed.

Lemma BW_total_le f : BW f -> total (q_buckets f) <= q_size f * q_bsize f.
Proof. intros (Hf & Hn & _). pose proof (total_le _ _ Hf). lia. Qed.

(* all slots of bucket bi are occupied *)
Definition AN (f : cuckoo) (bi : N) : Prop := exists b, get_bucket f bi = Ok b /\ bk_full b.
Definition item_ok (f : cuckoo) (it : bytes * N * N) : Prop :=
  let '(p, bi, si) := it in p <> [] /\ AN f bi /\ si < q_bsize f.

(* overwriting an occupied slot of a full bucket with a non-empty fingerprint *)
Lemma swap_step f bi b si e :
  BW f -> get_bucket f bi = Ok b -> bk_full b -> si < q_bsize f -> e <> [] ->
  let f' := set_bucket f bi (bk_set b (N.to_nat si) e) in
  BW f' /\ total (q_buckets f') = total (q_buckets f) /\ params f' = params f /\ q_len f' = q_len f /\
  (forall j, AN f j -> AN f' j).
Proof.
  intros HB Hg Hfull Hsi He f'.
  pose proof (BW_bucket_wf f bi b HB Hg) as Hwf.
  destruct Hwf as (Hs & Hl & Hc).
  destruct (nth_error (k_slots b) (N.to_nat si)) as [v|] eqn:Ev;
    [|apply nth_error_None in Ev; lia].
  pose proof (allne_nth _ Hfull _ _ Ev) as Hv.
  destruct (bk_set_wf (q_bsize f) b (N.to_nat si) v e (conj Hs (conj Hl Hc)) Ev Hv He) as (Hwf' & Hlen' & Hfull').
  destruct (set_bucket_BW f bi b _ HB Hg Hwf') as (HB' & Ht & Hp & Hq).
  subst f'. split; [exact HB'|]. split; [lia|]. split; [exact Hp|]. split; [exact Hq|].
  intros j (bj & Hgj & Hfj). destruct (N.eq_dec bi j) as [<-|Hne].
  - exists (bk_set b (N.to_nat si) e). split; [eapply get_bucket_set_same; eauto|].
    rewrite Hg in Hgj. injection Hgj as <-. auto.
  - exists bj. split; [rewrite get_bucket_set_other; auto|auto].
Qed.

Lemma item_ok_mono f f' it :
  q_bsize f' = q_bsize f -> (forall j, AN f j -> AN f' j) -> item_ok f it -> item_ok f' it.
Proof. destruct it as [[p bi] si]. intros Hb Hm (Hp & Ha & Hs). repeat split; auto. lia. Qed.

Lemma params_bsize f f' : params f' = params f -> q_bsize f' = q_bsize f.
Proof. unfold params; congruence. Qed.

Ltac four := split; [|split; [|split]].

Lemma same4 f : BW f ->
  BW f /\ total (q_buckets f) = total (q_buckets f) /\ params f = params f /\ q_len f = q_len f.
Proof. auto. Qed.

(* the rollback of a non-destructive failed insert *)
Lemma undo_all_ok items : forall f, BW f -> Forall (item_ok f) items ->
  match undo_all f items with
  | Ok f' => BW f' /\ total (q_buckets f') = total (q_buckets f) /\ params f' = params f /\ q_len f' = q_len f
  | _ => True
  end.
Proof.
  induction items as [|[[p bi] si] t IH]; intros f HB Hit; cbn [undo_all obind]; [exact (same4 f HB)|].
  inversion Hit as [|? ? Hi Ht]; subst. simpl in Hi. destruct Hi as (Hp & (b & Hg & Hfull) & Hs).
  unfold undo_one. rewrite Hg. cbn [obind].
  destruct (si <? N.of_nat (length (k_slots b))) eqn:E; cbn [obind]; [|exact I].
  destruct (swap_step f bi b si p HB Hg Hfull Hs Hp) as (HB' & Htot & Hpar & Hq & Hmono).
  specialize (IH _ HB').
  match type of IH with ?A -> _ => assert (Hpre : A) end.
  { rewrite Forall_forall in *. intros it Hin. eapply item_ok_mono; [apply params_bsize; exact Hpar|exact Hmono|auto]. }
  specialize (IH Hpre).
  destruct (undo_all _ t) as [f''|?|?]; auto.
  destruct IH as (H1 & H2 & H3 & H4). four; auto; congruence.
Qed.

Definition res_ok (f : cuckoo) (r : ins_result) : Prop :=
  match r with
  | InsOk f' => BW f' /\ total (q_buckets f') = total (q_buckets f) + 1 /\ params f' = params f /\
                q_len f' = wrap64 (q_len f + 1)
  | InsFull f' | InsPanic _ f' =>
      BW f' /\ total (q_buckets f') = total (q_buckets f) /\ params f' = params f /\ q_len f' = q_len f
  end.

Lemma res_ok_trans f f1 r :
  total (q_buckets f1) = total (q_buckets f) -> params f1 = params f -> q_len f1 = q_len f ->
  res_ok f1 r -> res_ok f r.
Proof. intros Ht Hp Hq. destruct r; simpl; intros (H1 & H2 & H3 & H4); (four; [exact H1|congruence|congruence|congruence]). Qed.

(* storing a non-empty fingerprint in a bucket that has room *)
Lemma add_at_ok f i b e :
  BW f -> get_bucket f i = Ok b -> bk_is_free b = true -> e <> [] ->
  match add_at f i e with
  | Ok f' => BW f' /\ total (q_buckets f') = total (q_buckets f) + 1 /\ params f' = params f /\ q_len f' = q_len f
  | _ => True
  end.
Proof.
  intros HB Hg Hfree He. unfold add_at. rewrite Hg. cbn [obind].
  destruct (bk_add b e) as [[r b']|?|?] eqn:Ea; cbn [obind]; auto.
  pose proof (BW_bucket_wf f i b HB Hg) as Hwf.
  pose proof (BW_bsize_lt f i b HB Hg) as Hlt.
  destruct (bk_add_wf _ _ _ _ _ Hwf Hlt He Hfree Ea) as (Hwf' & Hlen').
  destruct (set_bucket_BW f i b b' HB Hg Hwf') as (HB' & Ht & Hp & Hq).
  simpl snd. four; auto. lia.
Qed.

Lemma incr_len_res f f2 :
  BW f2 -> total (q_buckets f2) = total (q_buckets f) + 1 -> params f2 = params f -> q_len f2 = q_len f ->
  res_ok f (InsOk (incr_len f2)).
Proof.
  intros HB Ht Hp Hq. unfold res_ok, incr_len. four; [exact HB|exact Ht|exact Hp|]. simpl. rewrite Hq. reflexivity.
Qed.

Section WithHash.
Variable h64 : bytes -> N.

Lemma evict_ok fuel : forall f index curr draws items destr,
  BW f -> curr <> [] -> AN f index -> Forall (item_ok f) items ->
  res_ok f (evict_loop h64 fuel f index curr draws items destr).
Proof.
  induction fuel as [|fuel IH]; intros f index curr draws items destr HB Hc (b & Hg & Hfull) Hit; cbn [evict_loop].
  - destruct destr; [exact (same4 f HB)|].
    pose proof (undo_all_ok items f HB Hit) as Hu.
    destruct (undo_all f items) as [f'|?|?]; [exact Hu|exact (same4 f HB)|exact (same4 f HB)].
  - rewrite Hg.
    set (ri := rand_slot (hd 0 draws) (k_len b)).
    destruct (nthN (k_slots b) ri) as [prev|] eqn:Ep; [|exact (same4 f HB)].
    assert (Hri : ri < N.of_nat (length (k_slots b)) /\ nth_error (k_slots b) (N.to_nat ri) = Some prev).
    { unfold nthN in Ep. destruct (ri <? N.of_nat (length (k_slots b))) eqn:E; [|discriminate]. split; [lia|exact Ep]. }
    destruct Hri as [Hri Hnth].
    pose proof (allne_nth _ Hfull _ _ Hnth) as Hprev.
    pose proof (BW_bucket_wf f index b HB Hg) as (Hs & Hl & Hcn).
    assert (Hsi : ri < q_bsize f) by lia.
    destruct (swap_step f index b ri curr HB Hg Hfull Hsi Hc) as (HB1 & Ht1 & Hp1 & Hq1 & Hmono).
    set (f1 := set_bucket f index (bk_set b (N.to_nat ri) curr)) in *.
    set (newi := N.lxor index (h64 prev) mod N.of_nat (length (q_buckets f))).
    destruct (get_bucket f1 newi) as [nb|t|t] eqn:Hgn;
      [|apply (res_ok_trans f f1); auto; exact (same4 f1 HB1)
       |apply (res_ok_trans f f1); auto; exact (same4 f1 HB1)].
    destruct (bk_is_free nb) eqn:Hfree.
    + pose proof (add_at_ok f1 newi nb prev HB1 Hgn Hfree Hprev) as Ha.
      destruct (add_at f1 newi prev) as [f2|t|t];
        [|apply (res_ok_trans f f1); auto; exact (same4 f1 HB1)
         |apply (res_ok_trans f f1); auto; exact (same4 f1 HB1)].
      destruct Ha as (HB2 & Ht2 & Hp2 & Hq2).
      apply incr_len_res; auto; congruence.
    + apply (res_ok_trans f f1); auto.
      apply IH; auto.
      * exists nb. split; auto. eapply not_free_full; eauto. eapply BW_bucket_wf; eauto.
      * constructor.
        -- simpl. split; [exact Hprev|]. split; [apply Hmono; exists b; split; auto|].
           exact Hsi.
        -- rewrite Forall_forall in *. intros it Hin.
           eapply item_ok_mono; [apply params_bsize; exact Hp1|exact Hmono|auto].
Qed.

(* Insert of an element with a non-empty fingerprint *)
Theorem insert_ok f x destr coin draws fp i1 i2 :
  BW f -> ck_positions h64 f x = Ok (fp, i1, i2) -> fp <> [] ->
  res_ok f (ck_insert h64 f x destr coin draws).
Proof.
  intros HB Hpos Hfp. unfold ck_insert. rewrite Hpos.
  destruct (get_bucket f i1) as [b1|t|t] eqn:Hg1; [|exact (same4 f HB)|exact (same4 f HB)].
  destruct (bk_is_free b1) eqn:Hf1.
  - pose proof (add_at_ok f i1 b1 fp HB Hg1 Hf1 Hfp) as Ha.
    destruct (add_at f i1 fp) as [f'|t|t]; [|exact (same4 f HB)|exact (same4 f HB)].
    destruct Ha as (H1 & H2 & H3 & H4). apply incr_len_res; auto.
  - destruct (get_bucket f i2) as [b2|t|t] eqn:Hg2; [|exact (same4 f HB)|exact (same4 f HB)].
    destruct (bk_is_free b2) eqn:Hf2.
    + pose proof (add_at_ok f i2 b2 fp HB Hg2 Hf2 Hfp) as Ha.
      destruct (add_at f i2 fp) as [f'|t|t]; [|exact (same4 f HB)|exact (same4 f HB)].
      destruct Ha as (H1 & H2 & H3 & H4). apply incr_len_res; auto.
    + apply evict_ok; auto.
      destruct coin.
      * exists b1. split; auto. eapply not_free_full; eauto. eapply BW_bucket_wf; eauto.
      * exists b2. split; auto. eapply not_free_full; eauto. eapply BW_bucket_wf; eauto.
Qed.

Lemma decr_len_inv f i b b' :
  ck_inv f -> get_bucket f i = Ok b -> bk_wf (q_bsize f) b' -> k_len b' + 1 = k_len b ->
  let f' := decr_len (set_bucket f i b') in
  ck_inv f' /\ params f' = params f /\ q_len f' + 1 = q_len f.
Proof.
  intros (HB & Hq) Hg Hwf Hlen f'.
  destruct (set_bucket_BW f i b b' HB Hg Hwf) as (HB' & Ht & Hp & Hq').
  pose proof (BW_total_le f HB) as Hle. destruct HB as (_ & _ & Hcap).
  pose proof (get_bucket_spec _ _ _ Hg) as [_ Hn]. pose proof (total_ge_in _ _ _ Hn) as Hge.
  assert (Hw : wrap64 (q_len f + two64 - 1) = q_len f - 1) by (apply wrap_decr; lia).
  subst f'. unfold ck_inv, decr_len, BW, params in *; simpl in *. rewrite Hw.
  repeat split; try tauto; lia.
Qed.

(* Remove of an element with a non-empty fingerprint *)
Theorem remove_ok f x r f' fp i1 i2 :
  ck_inv f -> ck_positions h64 f x = Ok (fp, i1, i2) -> fp <> [] ->
  ck_remove h64 f x = Ok (r, f') ->
  ck_inv f' /\ params f' = params f /\
  (if r then q_len f' + 1 = q_len f else f' = f).
Proof.
  intros Hinv Hpos Hfp H. unfold ck_remove in H. rewrite Hpos in H. cbn [obind] in H.
  pose proof Hinv as (HB & Hq).
  destruct (get_bucket f i1) as [b1|t|t] eqn:Hg1; cbn [obind] in H; try discriminate.
  assert (Hrem : forall i b, get_bucket f i = Ok b -> bk_lookup b fp = true ->
            let f'' := decr_len (set_bucket f i (snd (bk_remove b fp))) in
            ck_inv f'' /\ params f'' = params f /\ q_len f'' + 1 = q_len f).
  { intros i b Hg Hl. unfold bk_lookup in Hl.
    destruct (bk_index_of b fp) as [k|] eqn:Ek; [|discriminate].
    assert (Hr : bk_remove b fp = (true, snd (bk_remove b fp))) by (unfold bk_remove; rewrite Ek; reflexivity).
    pose proof (BW_bucket_wf f i b HB Hg) as Hwf.
    pose proof (BW_bsize_lt f i b HB Hg) as Hlt.
    destruct (bk_remove_wf _ _ _ _ Hwf Hlt Hfp Hr) as (Hwf' & Hlen').
    apply (decr_len_inv f i b _ Hinv Hg Hwf' Hlen'). }
  destruct (bk_lookup b1 fp) eqn:Hl1.
  - injection H as <- <-. exact (Hrem i1 b1 Hg1 Hl1).
  - destruct (get_bucket f i2) as [b2|t|t] eqn:Hg2; cbn [obind] in H; try discriminate.
    destruct (bk_lookup b2 fp) eqn:Hl2.
    + injection H as <- <-. exact (Hrem i2 b2 Hg2 Hl2).
    + injection H as <- <-. auto.
Qed.

(* an insert that returned normally leaves the invariant with Length one larger *)
Corollary insert_inv f x destr coin draws fp i1 i2 :
  ck_inv f -> ck_positions h64 f x = Ok (fp, i1, i2) -> fp <> [] ->
  match ck_insert h64 f x destr coin draws with
  | InsOk f' => ck_inv f' /\ params f' = params f /\ q_len f' = q_len f + 1
  | InsFull f' | InsPanic _ f' => ck_inv f' /\ params f' = params f /\ q_len f' = q_len f
  end.
Proof.
  intros (HB & Hq) Hpos Hfp. pose proof (insert_ok f x destr coin draws fp i1 i2 HB Hpos Hfp) as H.
  destruct (ck_insert h64 f x destr coin draws) as [f'|f'|t f']; simpl in H; destruct H as (HB' & Ht & Hp & Hq').
  - pose proof (BW_total_le f' HB') as Hle. destruct HB' as (X1 & X2 & Hcap).
    assert (Hw : wrap64 (q_len f + 1) = q_len f + 1) by (apply wrap64_small; lia).
    split; [split; [unfold BW; auto|lia]|]. split; [exact Hp|lia].
  - split; [split; [exact HB'|congruence]|]. split; [exact Hp|exact Hq'].
  - split; [split; [exact HB'|congruence]|]. split; [exact Hp|exact Hq'].
Qed.
End WithHash.

Lemma ck_new_inv size bsize fpl retries : size * bsize < two64 -> ck_inv (ck_new size bsize fpl retries).
Proof.
  intros Hc. unfold ck_inv, BW, ck_new; simpl. rewrite repeat_length. repeat split; auto.
  - apply Forall_forall. intros b Hb. apply repeat_spec in Hb. subst. apply bk_new_wf.
  - unfold total. induction (N.to_nat size) as [|n IH]; simpl; auto.
Qed.

(* ---------- every reachable state ---------- *)
Inductive cop := CIns (x : bytes) (destr coin : bool) (draws : list N) | CRem (x : bytes).
Definition cop_elem (o : cop) : bytes := match o with CIns x _ _ _ => x | CRem x => x end.

Section Reach.
Variable h64 : bytes -> N.

(* the element gets a non-empty fingerprint: fingerprint length >= 1 and the decimal hash is at
   least that long (cuckoo_filter.go getPositions returns "" otherwise) *)
Definition fp_ok (fpl : N) (x : bytes) : bool :=
  (0 <? fpl) && (fpl <=? N.of_nat (length (dec (h64 x)))).

Lemma positions_fp f x fp i1 i2 :
  fp_ok (q_fpl f) x = true -> ck_positions h64 f x = Ok (fp, i1, i2) ->
  fp <> [] /\ i1 < q_size f /\ i2 < q_size f.
Proof.
  unfold fp_ok, ck_positions. intros Hok H.
  destruct (N.of_nat (length (dec (h64 x))) <? q_fpl f) eqn:E1; [lia|].
  destruct (q_size f =? 0) eqn:E2; [discriminate|].
  injection H as <- <- <-.
  split; [|split; apply N.mod_lt; lia].
  destruct (dec (h64 x)) as [|a l]; [simpl in *; lia|].
  destruct (N.to_nat (q_fpl f)) eqn:E3; [lia|]. simpl. discriminate.
Qed.

Definition cstep (f : cuckoo) (o : cop) : cuckoo :=
  match o with
  | CIns x d c dr =>
      match ck_insert h64 f x d c dr with InsOk f' | InsFull f' | InsPanic _ f' => f' end
  | CRem x => match ck_remove h64 f x with Ok (_, f') => f' | _ => f end
  end.
(* +1 for an Insert that returned, -1 for a Remove that returned true *)
Definition cdelta (f : cuckoo) (o : cop) : Z :=
  match o with
  | CIns x d c dr => match ck_insert h64 f x d c dr with InsOk _ => 1%Z | _ => 0%Z end
  | CRem x => match ck_remove h64 f x with Ok (true, _) => (-1)%Z | _ => 0%Z end
  end.
Fixpoint crun (f : cuckoo) (ops : list cop) : cuckoo * Z :=
  match ops with
  | [] => (f, 0%Z)
  | o :: t => let r := crun (cstep f o) t in (fst r, (cdelta f o + snd r)%Z)
  end.

Lemma cstep_inv f o :
  ck_inv f -> fp_ok (q_fpl f) (cop_elem o) = true ->
  ck_inv (cstep f o) /\ params (cstep f o) = params f /\
  Z.of_N (q_len (cstep f o)) = (Z.of_N (q_len f) + cdelta f o)%Z.
Proof.
  intros Hinv Hok. destruct o as [x d c dr|x]; simpl in *.
  - destruct (ck_positions h64 f x) as [[[fp i1] i2]|t|t] eqn:Hpos.
    + destruct (positions_fp f x fp i1 i2 Hok Hpos) as (Hfp & _ & _).
      pose proof (insert_inv h64 f x d c dr fp i1 i2 Hinv Hpos Hfp) as H.
      destruct (ck_insert h64 f x d c dr) as [f'|f'|t f']; destruct H as (H1 & H2 & H3);
        (split; [exact H1|]; split; [exact H2|]; lia).
    + unfold ck_insert. rewrite Hpos. split; [exact Hinv|]. split; [reflexivity|lia].
    + unfold ck_insert. rewrite Hpos. split; [exact Hinv|]. split; [reflexivity|lia].
  - destruct (ck_remove h64 f x) as [[r f']|t|t] eqn:Hr;
      [|split; [exact Hinv|]; split; [reflexivity|lia]|split; [exact Hinv|]; split; [reflexivity|lia]].
    destruct (ck_positions h64 f x) as [[[fp i1] i2]|t|t] eqn:Hpos;
      [|unfold ck_remove in Hr; rewrite Hpos in Hr; discriminate
       |unfold ck_remove in Hr; rewrite Hpos in Hr; discriminate].
    destruct (positions_fp f x fp i1 i2 Hok Hpos) as (Hfp & _ & _).
    destruct (remove_ok h64 f x r f' fp i1 i2 Hinv Hpos Hfp Hr) as (H1 & H2 & H3).
    split; [exact H1|]. split; [exact H2|]. destruct r; [lia|subst; lia].
Qed.

Lemma params_fpl f f' : params f' = params f -> q_fpl f' = q_fpl f.
Proof. unfold params; congruence. Qed.

(* Length = successful inserts - successful removes, and the invariant, along every history *)
Theorem crun_inv ops : forall f,
  ck_inv f -> Forall (fun o => fp_ok (q_fpl f) (cop_elem o) = true) ops ->
  ck_inv (fst (crun f ops)) /\ params (fst (crun f ops)) = params f /\
  Z.of_N (q_len (fst (crun f ops))) = (Z.of_N (q_len f) + snd (crun f ops))%Z.
Proof.
  induction ops as [|o t IH]; intros f Hinv Hall; cbn [crun fst snd].
  - split; [exact Hinv|]. split; [reflexivity|lia].
  - inversion Hall as [|? ? Ho Ht]; subst.
    destruct (cstep_inv f o Hinv Ho) as (H1 & H2 & H3).
    specialize (IH (cstep f o) H1).
    rewrite (params_fpl _ _ H2) in IH. specialize (IH Ht). destruct IH as (I1 & I2 & I3).
    split; [exact I1|]. split; [congruence|lia].
Qed.
End Reach.

(* ---------- stored entries, capacity, emptiness ---------- *)
Definition stored (f : cuckoo) : nat := list_sum (map (fun b => occ (k_slots b)) (q_buckets f)).

Lemma total_stored bs bks : Forall (bk_wf bs) bks ->
  total bks = N.of_nat (list_sum (map (fun b => occ (k_slots b)) bks)).
Proof.
  unfold total. induction 1 as [|b l (_ & _ & Hc) _ IH]; [reflexivity|].
  cbn [map sumN]. rewrite IH, Hc.
  change (list_sum (?x :: ?t)) with (x + list_sum t)%nat. cbn [map]. unfold list_sum at 2. cbn [fold_right]. fold (list_sum (map (fun b0 : bucket => occ (k_slots b0)) l)). lia.
Qed.

(* Length equals the number of stored entries, and no bucket exceeds its capacity *)
Theorem inv_length_is_stored f : ck_inv f ->
  q_len f = N.of_nat (stored f) /\
  Forall (fun b => (occ (k_slots b) <= length (k_slots b))%nat /\
                   length (k_slots b) = N.to_nat (q_bsize f) /\ k_len b <= q_bsize f) (q_buckets f).
Proof.
  intros ((Hf & Hn & Hc) & Hq). split.
  - rewrite Hq. apply (total_stored _ _ Hf).
  - rewrite Forall_forall in *. intros b Hb. specialize (Hf b Hb).
    pose proof (bk_wf_len_le _ _ Hf). destruct Hf as (_ & Hl & _).
    split; [apply occ_le|]. split; auto.
Qed.

Lemma occ_zero_repeat l : occ l = 0%nat -> l = repeat [] (length l).
Proof.
  induction l as [|a l IH]; intros H; [reflexivity|]. rewrite occ_cons in H.
  destruct a; simpl in H; [|lia]. simpl. f_equal. apply IH. lia.
Qed.

Lemma total_zero bks : total bks = 0 -> Forall (fun b => k_len b = 0) bks.
Proof.
  unfold total. induction bks as [|b l IH]; intros H; constructor; simpl in H; [lia|apply IH; lia].
Qed.

Lemma all_same_repeat {A} (x : A) l : Forall (fun y => y = x) l -> l = repeat x (length l).
Proof. induction 1 as [|y l -> _ IH]; simpl; [reflexivity|]. f_equal. exact IH. Qed.

(* a filter whose Length is back to 0 IS a new filter *)
Theorem inv_empty_is_new f : ck_inv f -> q_len f = 0 ->
  f = ck_new (q_size f) (q_bsize f) (q_fpl f) (q_retries f).
Proof.
  intros ((Hf & Hn & Hc) & Hq) H0. rewrite H0 in Hq. symmetry in Hq. apply total_zero in Hq.
  assert (Hall : Forall (fun b => b = bk_new (q_bsize f)) (q_buckets f)).
  { rewrite Forall_forall in *. intros b Hb. specialize (Hf b Hb). specialize (Hq b Hb).
    destruct Hf as (Hs & Hl & Hcn). destruct b as [bsz bl bsl]; simpl in *. unfold bk_new.
    assert (Ho : occ bsl = 0%nat) by lia.
    rewrite (occ_zero_repeat _ Ho), Hl. subst. rewrite Hq. reflexivity. }
  apply all_same_repeat in Hall. destruct f as [sz bs fl rt ln bks]; simpl in *. unfold ck_new.
  rewrite Hall, Hn, H0. reflexivity.
Qed.

(* ---------- C14: a failed non-destructive insert restores the filter exactly ---------- *)
Lemma upd_upd_same {A} (l : list A) : forall i v w, nth_error l i = Some w ->
  upd (upd l i (fun _ => v)) i (fun _ => w) = l.
Proof. induction l as [|a l IH]; intros [|i] v w H; simpl in *; try discriminate; [congruence|f_equal; auto]. Qed.

Lemma undo_of_swap f index b ri curr prev :
  get_bucket f index = Ok b -> nthN (k_slots b) ri = Some prev ->
  undo_one (set_bucket f index (bk_set b (N.to_nat ri) curr)) (prev, index, ri) = Ok f.
Proof.
  intros Hg Hn. unfold undo_one.
  rewrite (get_bucket_set_same f index b _ Hg). cbn [obind].
  unfold nthN in Hn. destruct (ri <? N.of_nat (length (k_slots b))) eqn:E; [|discriminate].
  unfold bk_set at 1. cbn [k_slots]. unfold setnth at 1. rewrite upd_length, E.
  apply get_bucket_spec in Hg. destruct Hg as [_ Hnb].
  f_equal. destruct f as [sz bs fl rt ln bks]. unfold set_bucket, bk_set, setnth in *; simpl in *. f_equal.
  rewrite (upd_upd_same (k_slots b) (N.to_nat ri) curr prev Hn).
  destruct b as [s l sl]; simpl. apply upd_upd_same. exact Hnb.
Qed.

Section Rollback.
Variable h64 : bytes -> N.

Lemma evict_rollback fuel : forall f index curr draws items f0 f',
  undo_all f items = Ok f0 ->
  evict_loop h64 fuel f index curr draws items false = InsFull f' -> f' = f0.
Proof.
  induction fuel as [|fuel IH]; intros f index curr draws items f0 f' Hu H; cbn [evict_loop] in H.
  - rewrite Hu in H. congruence.
  - destruct (get_bucket f index) as [b|t|t] eqn:Hg; try discriminate.
    destruct (nthN (k_slots b) (rand_slot (hd 0 draws) (k_len b))) as [prev|] eqn:Ep; try discriminate.
    destruct (get_bucket _ _) as [nb|t|t] in H; try discriminate.
    destruct (bk_is_free nb).
    + destruct (add_at _ _ _) in H; discriminate.
    + eapply IH; [|exact H]. cbn [undo_all].
      rewrite (undo_of_swap f index b _ curr prev Hg Ep). cbn [obind]. exact Hu.
Qed.

(* with the non-destructive option the whole state (slots, counters, Length) is what it was *)
Theorem insert_full_nondestructive f x coin draws f' :
  ck_insert h64 f x false coin draws = InsFull f' -> f' = f.
Proof.
  unfold ck_insert. intros H.
  destruct (ck_positions h64 f x) as [[[fp i1] i2]|t|t]; try discriminate.
  destruct (get_bucket f i1) as [b1|t|t]; try discriminate.
  destruct (bk_is_free b1); [destruct (add_at f i1 fp); discriminate|].
  destruct (get_bucket f i2) as [b2|t|t]; try discriminate.
  destruct (bk_is_free b2); [destruct (add_at f i2 fp); discriminate|].
  eapply evict_rollback; [|exact H]. reflexivity.
Qed.
End Rollback.

(* ---------- the multiset of slots: an insert moves entries, it never duplicates or drops one ---------- *)
From Coq Require Import Permutation.

Definition all_slots (f : cuckoo) : list bytes := concat (map k_slots (q_buckets f)).

Lemma perm_setnth (l : list bytes) : forall i old new, nth_error l i = Some old ->
  Permutation (old :: setnth l i new) (new :: l).
Proof.
  unfold setnth. induction l as [|a l IH]; intros [|i] old new H; simpl in H; try discriminate.
  - injection H as ->. simpl. apply perm_swap.
  - simpl. eapply perm_trans; [apply perm_swap|]. eapply perm_trans; [|apply perm_swap].
    apply perm_skip. apply IH. exact H.
Qed.

Lemma perm_concat_setnth bks : forall i b b' x y, nth_error bks i = Some b ->
  Permutation (x :: k_slots b') (y :: k_slots b) ->
  Permutation (x :: concat (map k_slots (setnth bks i b'))) (y :: concat (map k_slots bks)).
Proof.
  unfold setnth. induction bks as [|a l IH]; intros [|i] b b' x y H Hp; simpl in H; try discriminate.
  - injection H as ->. simpl. apply (Permutation_app_tail (concat (map k_slots l)) Hp).
  - simpl. eapply perm_trans; [apply Permutation_middle|].
    eapply perm_trans; [|apply Permutation_sym, Permutation_middle].
    apply Permutation_app_head. eapply IH; eauto.
Qed.

Lemma swap_slots f index b ri curr prev :
  get_bucket f index = Ok b -> nthN (k_slots b) ri = Some prev ->
  Permutation (prev :: all_slots (set_bucket f index (bk_set b (N.to_nat ri) curr))) (curr :: all_slots f).
Proof.
  intros Hg Hn. apply get_bucket_spec in Hg. destruct Hg as [_ Hb].
  unfold nthN in Hn. destruct (ri <? N.of_nat (length (k_slots b))); [|discriminate].
  unfold all_slots, set_bucket; simpl. eapply perm_concat_setnth; eauto.
  unfold bk_set; simpl. apply perm_setnth. exact Hn.
Qed.

Lemma add_at_slots f i b e f' :
  get_bucket f i = Ok b -> bk_is_free b = true -> add_at f i e = Ok f' ->
  Permutation ([] :: all_slots f') (e :: all_slots f).
Proof.
  intros Hg Hfree H. unfold add_at in H. rewrite Hg in H. cbn [obind] in H.
  unfold bk_add in H. destruct e as [|e0 e'].
  - cbn [obind] in H. injection H as <-. simpl snd.
    apply get_bucket_spec in Hg. destruct Hg as [_ Hb].
    unfold all_slots, set_bucket; simpl. eapply perm_concat_setnth; eauto.
  - rewrite Hfree in H. simpl negb in H. cbv iota in H.
    destruct (bk_index_of b []) as [k|] eqn:Ek; [|discriminate]. cbn [obind] in H. injection H as <-. simpl snd.
    unfold bk_index_of in Ek. apply index_of_spec in Ek. destruct Ek as [_ Hk]. rewrite Nat.sub_0_r in Hk.
    apply get_bucket_spec in Hg. destruct Hg as [_ Hb].
    unfold all_slots, set_bucket; simpl. eapply perm_concat_setnth; eauto.
    simpl. apply perm_setnth. exact Hk.
Qed.

Section Conservation.
Variable h64 : bytes -> N.

(* what an insert does to the multiset of slot contents *)
Definition conserves (f : cuckoo) (e : bytes) (r : ins_result) : Prop :=
  match r with
  | InsOk f' => Permutation ([] :: all_slots f') (e :: all_slots f)       (* one empty slot now holds e; nothing else changed *)
  | InsFull f' => exists lost, Permutation (lost :: all_slots f') (e :: all_slots f)  (* exactly one fingerprint left the table *)
  | InsPanic _ _ => True
  end.

Lemma conserves_trans f f1 curr prev r :
  Permutation (prev :: all_slots f1) (curr :: all_slots f) -> conserves f1 prev r -> conserves f curr r.
Proof.
  intros Hp. destruct r as [f'|f'|t f']; simpl; auto.
  - intros H. eapply perm_trans; eauto.
  - intros (lost & H). exists lost. eapply perm_trans; eauto.
Qed.

Lemma evict_conserves fuel : forall f index curr draws items,
  conserves f curr (evict_loop h64 fuel f index curr draws items true).
Proof.
  induction fuel as [|fuel IH]; intros f index curr draws items; cbn [evict_loop].
  - exists curr. apply Permutation_refl.
  - destruct (get_bucket f index) as [b|t|t] eqn:Hg; simpl; auto.
    destruct (nthN (k_slots b) (rand_slot (hd 0 draws) (k_len b))) as [prev|] eqn:Ep; simpl; auto.
    pose proof (swap_slots f index b _ curr prev Hg Ep) as Hsw.
    set (f1 := set_bucket f index (bk_set b (N.to_nat (rand_slot (hd 0 draws) (k_len b))) curr)) in *.
    destruct (get_bucket f1 _) as [nb|t|t] eqn:Hgn; simpl; auto.
    destruct (bk_is_free nb) eqn:Hfree.
    + destruct (add_at f1 _ prev) as [f2|t|t] eqn:Ha; simpl; auto.
      pose proof (add_at_slots f1 _ nb prev f2 Hgn Hfree Ha) as Hadd.
      unfold incr_len, all_slots in *; simpl in *. eapply perm_trans; eauto.
    + eapply conserves_trans; [exact Hsw|]. apply IH.
Qed.

(* C02 "an Insert that returns normally has stored the element" and C14 "with the destructive
   option at most one previously stored entry is displaced": for every configuration, state,
   element and random choices *)
Theorem insert_conserves f x coin draws fp i1 i2 :
  ck_positions h64 f x = Ok (fp, i1, i2) ->
  conserves f fp (ck_insert h64 f x true coin draws).
Proof.
  intros Hpos. unfold ck_insert. rewrite Hpos.
  destruct (get_bucket f i1) as [b1|t|t] eqn:Hg1; simpl; auto.
  destruct (bk_is_free b1) eqn:Hf1.
  - destruct (add_at f i1 fp) as [f'|t|t] eqn:Ha; simpl; auto.
    pose proof (add_at_slots f i1 b1 fp f' Hg1 Hf1 Ha). unfold incr_len, all_slots in *; simpl in *. auto.
  - destruct (get_bucket f i2) as [b2|t|t] eqn:Hg2; simpl; auto.
    destruct (bk_is_free b2) eqn:Hf2.
    + destruct (add_at f i2 fp) as [f'|t|t] eqn:Ha; simpl; auto.
      pose proof (add_at_slots f i2 b2 fp f' Hg2 Hf2 Ha). unfold incr_len, all_slots in *; simpl in *. auto.
    + apply evict_conserves.
Qed.
End Conservation.

(* ---------- packaging for the property files ---------- *)
Theorem reach_accounting h64 size bsize fpl retries ops :
  size * bsize < two64 ->
  Forall (fun o => fp_ok h64 fpl (cop_elem o) = true) ops ->
  let r := crun h64 (ck_new size bsize fpl retries) ops in
  Z.of_N (q_len (fst r)) = snd r /\
  q_len (fst r) = N.of_nat (stored (fst r)) /\
  Forall (fun b => (occ (k_slots b) <= length (k_slots b))%nat /\
                   length (k_slots b) = N.to_nat bsize /\ k_len b <= bsize) (q_buckets (fst r)) /\
  (q_len (fst r) = 0 -> fst r = ck_new size bsize fpl retries).
Proof.
  intros Hc Hall r.
  destruct (crun_inv h64 ops (ck_new size bsize fpl retries) (ck_new_inv _ _ _ _ Hc) Hall) as (Hinv & Hp & Hl).
  fold r in Hinv, Hp, Hl. unfold params in Hp. simpl in Hp, Hl.
  injection Hp as Hsz Hbs Hfl Hrt.
  destruct (inv_length_is_stored _ Hinv) as (H1 & H2). rewrite Hbs in H2.
  split; [lia|]. split; [exact H1|]. split; [exact H2|].
  intros H0. rewrite (inv_empty_is_new _ Hinv H0). congruence.
Qed.

(* a successful Remove takes exactly one stored entry away (and keeps the invariant) *)
Theorem remove_one_entry h64 f x f' :
  ck_inv f -> fp_ok h64 (q_fpl f) x = true -> ck_remove h64 f x = Ok (true, f') ->
  ck_inv f' /\ S (stored f') = stored f.
Proof.
  intros Hinv Hok Hr.
  destruct (ck_positions h64 f x) as [[[fp i1] i2]|t|t] eqn:Hpos;
    [|unfold ck_remove in Hr; rewrite Hpos in Hr; discriminate
     |unfold ck_remove in Hr; rewrite Hpos in Hr; discriminate].
  destruct (positions_fp h64 f x fp i1 i2 Hok Hpos) as (Hfp & _ & _).
  destruct (remove_ok h64 f x true f' fp i1 i2 Hinv Hpos Hfp Hr) as (H1 & H2 & H3).
  split; [exact H1|].
  destruct (inv_length_is_stored _ Hinv) as (Ha & _). destruct (inv_length_is_stored _ H1) as (Hb & _). lia.
Qed.

(* a failed destructive insert keeps the invariant: Length still equals the stored entries *)
Theorem insert_failed_keeps_inv h64 f x destr coin draws :
  ck_inv f -> fp_ok h64 (q_fpl f) x = true ->
  match ck_insert h64 f x destr coin draws with
  | InsOk f' => ck_inv f' /\ stored f' = S (stored f)
  | InsFull f' | InsPanic _ f' => ck_inv f' /\ stored f' = stored f
  end.
Proof.
  intros Hinv Hok.
  destruct (ck_positions h64 f x) as [[[fp i1] i2]|t|t] eqn:Hpos.
  - destruct (positions_fp h64 f x fp i1 i2 Hok Hpos) as (Hfp & _ & _).
    pose proof (insert_inv h64 f x destr coin draws fp i1 i2 Hinv Hpos Hfp) as H.
    destruct (inv_length_is_stored _ Hinv) as (Ha & _).
    destruct (ck_insert h64 f x destr coin draws) as [f'|f'|t f']; destruct H as (H1 & H2 & H3);
      destruct (inv_length_is_stored _ H1) as (Hb & _); (split; [exact H1|lia]).
  - unfold ck_insert. rewrite Hpos. auto.
  - unfold ck_insert. rewrite Hpos. auto.
Qed.
