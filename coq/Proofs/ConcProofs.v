(* ConcProofs.v — mutual exclusion for well-locked methods: the invariant "inside a body iff
   holding the lock" is preserved by every step, hence at most one thread is ever inside a body
   and, while a thread holds the lock, only that thread's steps change the shared state. *)
From Coq Require Import List Arith Lia.
From GX.Model Require Import Conc.
Import ListNotations.

Section P.
Variable S : Type.

Lemma nth_error_set_same (ts : list (thread S)) i t t0 :
  nth_error ts i = Some t0 -> nth_error (set_thread S ts i t) i = Some t.
Proof.
  intros H. unfold set_thread. assert (Hl : i < length ts) by (apply nth_error_Some; congruence).
  rewrite nth_error_app2 by (rewrite firstn_length; lia).
  rewrite firstn_length, Nat.min_l by lia. now rewrite Nat.sub_diag.
Qed.

Lemma nth_error_firstn_lt {A} (l : list A) n j : j < n -> nth_error (firstn n l) j = nth_error l j.
Proof.
  revert l j; induction n as [|n IH]; intros l j H; [lia|].
  destruct l as [|x l]; [now destruct j|]. destruct j as [|j]; cbn; auto. apply IH; lia.
Qed.

Lemma nth_error_skipn_add {A} (l : list A) n k : nth_error (skipn n l) k = nth_error l (n + k).
Proof.
  revert l; induction n as [|n IH]; intros l; cbn; auto. destruct l as [|x l]; cbn; [now destruct k|]. apply IH.
Qed.

Lemma nth_error_set_other (ts : list (thread S)) i j t :
  i < length ts -> j <> i -> nth_error (set_thread S ts i t) j = nth_error ts j.
Proof.
  intros Hl Hne. unfold set_thread. destruct (Nat.lt_ge_cases j i) as [Hlt|Hge].
  - rewrite nth_error_app1 by (rewrite firstn_length; lia). apply nth_error_firstn_lt; lia.
  - rewrite nth_error_app2 by (rewrite firstn_length; lia).
    rewrite firstn_length, Nat.min_l by lia.
    destruct (j - i) as [|k] eqn:E; [lia|]. cbn [nth_error].
    rewrite nth_error_skipn_add. f_equal. lia.
Qed.

Lemma running_iff (t : thread S) : is_running S t = true <-> exists r, t_pc S t = Running S r.
Proof.
  unfold is_running. destruct (t_pc S t); split; try discriminate; eauto; intros (r & H); discriminate.
Qed.

Theorem step_preserves_mutex i (c c' : config S) : mutex_inv S c -> step S i c c' -> mutex_inv S c'.
Proof.
  intros Inv St. unfold mutex_inv in *.
  destruct St as [c t body rest Hn Hpc Hc | c t body Hn Hpc Hh | c t m rest Hn Hpc | c t Hn Hpc];
    cbn [c_threads c_holder]; intros j tj Hj.
  - (* call *)
    assert (Hl : i < length (c_threads S c)) by (apply nth_error_Some; congruence).
    destruct (Nat.eq_dec j i) as [->|Hne].
    + rewrite (nth_error_set_same _ _ _ _ Hn) in Hj. injection Hj as <-.
      pose proof (Inv i t Hn) as Hi. unfold is_running in *. rewrite Hpc in Hi. cbn [t_pc].
      split; [discriminate|]. intros H. apply Hi in H. discriminate.
    + rewrite nth_error_set_other in Hj by auto. now apply Inv.
  - (* acquire *)
    assert (Hl : i < length (c_threads S c)) by (apply nth_error_Some; congruence).
    destruct (Nat.eq_dec j i) as [->|Hne].
    + rewrite (nth_error_set_same _ _ _ _ Hn) in Hj. injection Hj as <-. cbn. tauto.
    + rewrite nth_error_set_other in Hj by auto. pose proof (Inv j tj Hj) as Hjj. rewrite Hh in Hjj.
      split; [intros H; apply Hjj in H; discriminate|intros [= ->]; congruence].
  - (* micro-step *)
    assert (Hl : i < length (c_threads S c)) by (apply nth_error_Some; congruence).
    destruct (Nat.eq_dec j i) as [->|Hne].
    + rewrite (nth_error_set_same _ _ _ _ Hn) in Hj. injection Hj as <-.
      pose proof (Inv i t Hn) as Hi. unfold is_running in *. rewrite Hpc in Hi. cbn [t_pc]. tauto.
    + rewrite nth_error_set_other in Hj by auto. now apply Inv.
  - (* release *)
    assert (Hl : i < length (c_threads S c)) by (apply nth_error_Some; congruence).
    assert (Hold : c_holder S c = Some i).
    { apply (Inv i t Hn). unfold is_running. now rewrite Hpc. }
    destruct (Nat.eq_dec j i) as [->|Hne].
    + rewrite (nth_error_set_same _ _ _ _ Hn) in Hj. injection Hj as <-. cbn. split; discriminate.
    + rewrite nth_error_set_other in Hj by auto. pose proof (Inv j tj Hj) as Hjj. rewrite Hold in Hjj.
      split; [intros H; apply Hjj in H; congruence|discriminate].
Qed.

(* consequence 1: at most one thread is inside a method body *)
Theorem at_most_one_running (c : config S) j k tj tk :
  mutex_inv S c -> nth_error (c_threads S c) j = Some tj -> nth_error (c_threads S c) k = Some tk ->
  is_running S tj = true -> is_running S tk = true -> j = k.
Proof.
  intros Inv Hj Hk Rj Rk. apply (Inv j tj Hj) in Rj. apply (Inv k tk Hk) in Rk. congruence.
Qed.

(* consequence 2: only the lock holder's steps change the shared state *)
Theorem only_holder_changes_state i (c c' : config S) :
  mutex_inv S c -> step S i c c' -> c_shared S c' <> c_shared S c -> c_holder S c = Some i.
Proof.
  intros Inv St Hne. destruct St as [c t body rest Hn Hpc Hc | c t body Hn Hpc Hh | c t m rest Hn Hpc | c t Hn Hpc];
    cbn [c_shared] in Hne; try congruence.
  apply (Inv i t Hn). unfold is_running. now rewrite Hpc.
Qed.

(* the initial configuration (everybody idle, lock free) satisfies the invariant *)
Theorem init_mutex (s : S) (calls : list (list (list (mstep S)))) :
  mutex_inv S (mkConfig S s None (map (fun cs => mkThread S cs (Idle S)) calls)).
Proof.
  intros j t Hj. cbn [c_threads c_holder] in *. rewrite nth_error_map in Hj.
  destruct (nth_error calls j); [|discriminate]. injection Hj as <-. cbn. split; discriminate.
Qed.
End P.
