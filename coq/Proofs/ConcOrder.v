(* ConcOrder.v — C07, last clause: for structures whose update bodies commute as state
   transformers (Bloom bits, Count-Min cells, HyperLogLog registers: the C16 lemmas), the final
   state of ANY concurrent execution under the lock equals the state produced by applying the same
   calls one after another in ANY order, in particular thread after thread. *)
From Coq Require Import List Arith Lia Bool Permutation.
From GX.Model Require Import Conc.
From GX.Proofs Require Import ConcProofs ConcSerial InterleaveProofs.
Import ListNotations.

Section Order.
Variable S : Type.
Notation body := (list (mstep S)).

Definition transformers (log : list (nat * body)) : list (S -> S) :=
  map (fun e => apply_body S (snd e)) log.

Lemma apply_log_all log s : apply_log S log s = apply_all (transformers log) s.
Proof.
  unfold apply_log, apply_all, transformers. revert s.
  induction log as [|e t IH]; intros s; cbn [fold_left map]; [reflexivity|apply IH].
Qed.

Theorem order_independent c0 log c log' :
  initial S c0 -> mutex_inv S c0 -> reach S c0 log c -> c_holder S c = None ->
  pairwise_commute (transformers log) -> Permutation log log' ->
  c_shared S c = apply_log S log' (c_shared S c0).
Proof.
  intros Hi Hm R Hh PC P. destruct (serialisable S c0 log c Hi Hm R Hh) as [Hs _].
  rewrite Hs, !apply_log_all. apply commuting_updates; [|exact PC].
  unfold transformers. apply Permutation_map. exact P.
Qed.
End Order.
