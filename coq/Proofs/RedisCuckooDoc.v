(* RedisCuckooDoc.v — C10 for the Redis-backed cuckoo filter, on the Redis model: Import (after the
   repair: metadata with the exported length, then every bucket restored slot by slot) writes
   exactly the exported bucket lists, sets every counter to the number of non-empty slots and the
   Length field to the exported length — so importing what Export read from a consistent filter
   gives a consistent filter with the same buckets, holes included, under the new keys. *)
From GX.Model Require Import Base Redis RedisCMS Cuckoo RedisCuckoo.
From GX.Proofs Require Import ListLemmas RedisProofs CuckooProofs CuckooInv AttachProofs RedisCMSRefine RedisCuckooInv RedisDocProofs.
From Coq Require Import ZArith Lia ZifyN ZifyNat ZifyBool.
Open Scope N_scope.

Lemma map_fst_combine {A B} (l1 : list A) : forall (l2 : list B), length l1 = length l2 ->
  map fst (combine l1 l2) = l1.
Proof.
  induction l1 as [|a t IH]; intros [|b u] H; try discriminate; [reflexivity|].
  cbn [combine map fst]. f_equal. apply IH. now injection H.
Qed.

Lemma nth_map_nseq {A} (f : N -> A) n i d : i < n -> nth (N.to_nat i) (map f (nseq n)) d = f i.
Proof.
  intros H. rewrite (nth_indep _ d (f 0)) by (rewrite map_length, nseq_length; lia).
  rewrite map_nth. rewrite nth_nseq by lia. now rewrite N2Nat.id.
Qed.

Lemma count_nonempty_occ l : count_nonempty l = N.of_nat (occ l).
Proof. reflexivity. Qed.

Lemma undecZ_dec c : undecZ (dec c) = Some (Z.of_N c).
Proof.
  replace (dec c) with (decZ (Z.of_N c)); [apply undecZ_decZ|].
  unfold decZ. destruct (Z.of_N c) eqn:E; try (rewrite <- E, N2Z.id; reflexivity). lia.
Qed.

Section Import.
Variable key meta : bytes.
Hypothesis meta_not_bucket : forall i, meta <> bucket_key key i.
Hypothesis meta_not_len : forall i, meta <> len_key (bucket_key key i).
Notation bk := (bucket_key key).
Notation blist := (blist key).
Notation bcount := (bcount key).
Notation mlen := (mlen meta).

Definition restore_step (st : store) (ib : N * list bytes) : store :=
  let b := bk (fst ib) in rbk_restore (incr0 st (len_key b)) b (snd ib).

Lemma restore_step_frame st i e k : k <> bk i -> k <> len_key (bk i) ->
  sget (restore_step st (i, e)) k = sget st k.
Proof.
  intros H1 H2. unfold restore_step, rbk_restore. cbn [fst snd].
  rewrite r_set_frame by exact H2. rewrite r_rpush_frame by exact H1. rewrite sdel_frame by exact H1.
  apply incr0_frame. exact H2.
Qed.

Lemma restore_step_view st i e :
  blist (restore_step st (i, e)) i = e /\
  bcount (restore_step st (i, e)) i = Some (Z.of_N (count_nonempty e)).
Proof.
  unfold restore_step, rbk_restore. cbn [fst snd]. split.
  - unfold RedisCuckooInv.blist, r_list. rewrite r_set_frame by apply bucket_key_not_len.
    fold (r_list (r_rpush (sdel (incr0 st (len_key (bk i))) (bk i)) (bk i) e) (bk i)).
    apply r_list_rpush_fresh.
  - unfold RedisCuckooInv.bcount, bk_len_z, r_get, r_set. rewrite sget_sset_same. apply undecZ_dec.
Qed.

(* the whole loop over the exported buckets *)
Lemma restore_fold pairs : NoDup (map fst pairs) -> forall s,
  (forall i e, In (i, e) pairs ->
     blist (fold_left restore_step pairs s) i = e /\
     bcount (fold_left restore_step pairs s) i = Some (Z.of_N (count_nonempty e))) /\
  (forall k, (forall i, In i (map fst pairs) -> k <> bk i /\ k <> len_key (bk i)) ->
     sget (fold_left restore_step pairs s) k = sget s k).
Proof.
  induction pairs as [|[i0 e0] t IH]; intros Hnd s; cbn [map fst] in Hnd.
  - split; [intros i e []|]. intros k _. reflexivity.
  - apply NoDup_cons_iff in Hnd. destruct Hnd as [Hnot Hnd]. cbn [fold_left].
    destruct (IH Hnd (restore_step s (i0, e0))) as [IHv IHf]. split.
    + intros i e [E|Hin].
      * injection E as <- <-.
        assert (Hfr : forall k, (k = bk i0 \/ k = len_key (bk i0)) ->
                  sget (fold_left restore_step t (restore_step s (i0, e0))) k = sget (restore_step s (i0, e0)) k).
        { intros k Hk. apply IHf. intros j Hj. split; intros E; destruct Hk as [Hk|Hk]; rewrite Hk in E.
          - apply bucket_key_inj in E. subst j. contradiction.
          - exact (bucket_key_not_len key j i0 (eq_sym E)).
          - exact (bucket_key_not_len key i0 j E).
          - apply len_key_inj in E. subst j. contradiction. }
        destruct (restore_step_view s i0 e0) as [Hl Hc]. split.
        -- rewrite (sget_view_list key (restore_step s (i0, e0)) _ i0 (Hfr _ (or_introl eq_refl))). exact Hl.
        -- rewrite (sget_view_count key (restore_step s (i0, e0)) _ i0 (Hfr _ (or_intror eq_refl))). exact Hc.
      * apply IHv. exact Hin.
    + intros k Hk. rewrite IHf by (intros j Hj; apply Hk; right; exact Hj).
      destruct (Hk i0 (or_introl eq_refl)) as [H1 H2]. apply restore_step_frame; assumption.
Qed.

Variable size bsize fpl retries : N.

Theorem rck_import_views s len (bks : list (list bytes)) :
  N.of_nat (length bks) = size -> meta <> key ->
  let s' := snd (rck_import s size bsize fpl retries len bks key meta) in
  (forall i, i < size ->
     blist s' i = nth (N.to_nat i) bks [] /\
     bcount s' i = Some (Z.of_N (count_nonempty (nth (N.to_nat i) bks [])))) /\
  mlen s' = Some (Z.of_N len).
Proof.
  intros Hlen Hmk s'. unfold rck_import in s'. cbn [snd] in s'.
  set (h := mkRck size bsize fpl retries key meta) in *.
  set (s1 := rck_init_buckets (rck_set_metadata s h len) h) in *.
  set (pairs := combine (nseq (N.of_nat (length bks))) bks) in *.
  assert (Hfst : map fst pairs = nseq size).
  { unfold pairs. rewrite map_fst_combine by (rewrite nseq_length; lia). rewrite Hlen. reflexivity. }
  assert (Hnd : NoDup (map fst pairs)) by (rewrite Hfst; apply nseq_nodup).
  destruct (restore_fold pairs Hnd s1) as [Hv Hf].
  change (fold_left (fun st ib => let b := bk (fst ib) in rbk_restore (incr0 st (len_key b)) b (snd ib)) pairs s1)
    with (fold_left restore_step pairs s1) in s'.
  split.
  - intros i Hi. apply Hv. unfold pairs.
    assert (Hk : (N.to_nat i < length bks)%nat) by lia.
    pose proof (combine_nth (nseq (N.of_nat (length bks))) bks (N.to_nat i) 0 []) as Hc.
    rewrite nseq_length in Hc. specialize (Hc ltac:(lia)).
    rewrite nth_nseq in Hc by lia. rewrite N2Nat.id in Hc. rewrite <- Hc.
    apply nth_In. rewrite combine_length, nseq_length. lia.
  - unfold s'. apply eq_trans with (mlen s1).
    + apply sget_view_mlen. apply Hf. intros i _. split; [apply meta_not_bucket|apply meta_not_len].
    + unfold s1, rck_init_buckets. cbn [rq_key rq_size h].
      unfold RedisCuckooInv.mlen.
      rewrite (r_hget_frame (r_lpush (sdel (rck_set_metadata s h len) key) key (map bk (nseq size))) _ meta f_length)
        by (apply fold_incr0_frame; intros b Hb; apply in_map_iff in Hb; destruct Hb as (j & <- & _); apply meta_not_len).
      rewrite (r_hget_frame (rck_set_metadata s h len) _ meta f_length)
        by (rewrite r_lpush_frame by exact Hmk; apply sdel_frame; exact Hmk).
      unfold rck_set_metadata. cbn [rq_meta rq_size rq_bsize rq_fpl rq_retries rq_key h].
      rewrite (r_hget_hset s meta _ f_length (dec len)); [apply undecZ_dec|cbn; auto 10|].
      cbn. repeat constructor; cbn; intuition; discriminate.
Qed.

(* importing what Export read from a consistent filter (any keys) gives a consistent filter with
   the same bucket lists under the new keys *)
Theorem rck_import_of_export_RI key0 meta0 s0 s :
  1 <= bsize -> bsize < 2 ^ 62 -> meta <> key ->
  RI key0 meta0 size bsize s0 ->
  let bks := map (fun i => RedisCuckooInv.blist key0 s0 i) (nseq size) in
  let s' := snd (rck_import s size bsize fpl retries (N.of_nat (tot key0 size s0)) bks key meta) in
  RI key meta size bsize s' /\ (forall i, i < size -> blist s' i = RedisCuckooInv.blist key0 s0 i) /\
  tot key size s' = tot key0 size s0.
Proof.
  intros Hb1 Hb2 Hmk [Hok Hm] bks s'.
  assert (Hlen : N.of_nat (length bks) = size) by (unfold bks; rewrite map_length, nseq_length; lia).
  destruct (rck_import_views s (N.of_nat (tot key0 size s0)) bks Hlen Hmk) as [Hv Hml]. fold s' in Hv, Hml.
  assert (Hnth : forall i, i < size -> nth (N.to_nat i) bks [] = RedisCuckooInv.blist key0 s0 i).
  { intros i Hi. unfold bks. apply (nth_map_nseq (fun i => RedisCuckooInv.blist key0 s0 i)). exact Hi. }
  assert (Hl : forall i, i < size -> blist s' i = RedisCuckooInv.blist key0 s0 i).
  { intros i Hi. rewrite <- (Hnth i Hi). apply Hv. exact Hi. }
  assert (Htot : tot key size s' = tot key0 size s0).
  { unfold tot. f_equal. apply map_ext_in. intros i Hi. apply In_nseq in Hi. rewrite (Hl i Hi). reflexivity. }
  split; [|split; [exact Hl|exact Htot]]. split.
  - intros i Hi. unfold bwf. destruct (Hv i Hi) as [_ Hc]. rewrite Hc, (Hl i Hi), (Hnth i Hi).
    rewrite count_nonempty_occ. destruct (Hok i Hi) as [_ Hle]. split; [f_equal; lia|exact Hle].
  - rewrite Hml, Htot. f_equal. lia.
Qed.
End Import.
