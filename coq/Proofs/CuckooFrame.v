(* CuckooFrame.v — C19 for the Redis-backed cuckoo filter: Insert (with its whole eviction loop,
   roll-back included), Lookup, Remove and Length read and write only the filter's own keys — its
   bucket lists, their counters and its metadata hash. With FrameProofs.non_interference this gives:
   interleaved with any operations on disjoint keys they answer exactly as they do alone. *)
From GX.Model Require Import Base Cuckoo Redis RedisCMS RedisCuckoo.
From GX.Proofs Require Import ListLemmas RedisProofs FrameProofs.
From Coq Require Import ZArith Lia.
Open Scope N_scope.

(* ---------- primitives ---------- *)
Lemma sget_sset s k v k' : sget (sset s k v) k' = if bytes_eqb k' k then Some v else sget s k'.
Proof.
  destruct (bytes_eqb k' k) eqn:E.
  - apply bytes_eqb_eq in E. subst. apply sget_sset_same.
  - apply sget_sset_other. intros ->. rewrite bytes_eqb_refl in E. discriminate.
Qed.

Section Prims.
Variable K : keyset.

Lemma sset_agree s t k v : agree K s t -> agree K (sset s k v) (sset t k v).
Proof. intros Ha k' Hk'. rewrite !sget_sset. destruct (bytes_eqb k' k); [reflexivity|apply Ha; exact Hk']. Qed.

Lemma rget_agree s t k : agree K s t -> K k -> r_get s k = r_get t k.
Proof. intros Ha Hk. unfold r_get. rewrite (Ha k Hk). reflexivity. Qed.

Lemma r_set_agree s t k v : agree K s t -> agree K (r_set s k v) (r_set t k v).
Proof. apply sset_agree. Qed.

Definition incrk (s : store) (k : bytes) (d : Z) : store :=
  match r_incrby s k d with Some (_, s2) => s2 | None => s end.

Lemma incrk_frame s k d k' : k' <> k -> sget (incrk s k d) k' = sget s k'.
Proof.
  intros H. unfold incrk, r_incrby. destruct (match r_get s k with Some b => undecZ b | None => Some 0%Z end); [|reflexivity].
  apply r_set_frame. exact H.
Qed.

Lemma incrk_agree s t k d : agree K s t -> K k -> agree K (incrk s k d) (incrk t k d).
Proof.
  intros Ha Hk. unfold incrk, r_incrby. rewrite (rget_agree s t k Ha Hk).
  destruct (match r_get t k with Some b => undecZ b | None => Some 0%Z end); [|exact Ha].
  apply r_set_agree. exact Ha.
Qed.

Definition lsetk (s : store) (k : bytes) (i : N) (e : bytes) : store :=
  match r_lset s k i e with Some s' => s' | None => s end.

Lemma lsetk_frame s k i e k' : k' <> k -> sget (lsetk s k i e) k' = sget s k'.
Proof.
  intros H. unfold lsetk. destruct (r_lset s k i e) as [s'|] eqn:E; [|reflexivity].
  apply (r_lset_frame _ _ _ _ _ E). exact H.
Qed.

Lemma lsetk_agree s t k i e : agree K s t -> K k -> agree K (lsetk s k i e) (lsetk t k i e).
Proof.
  intros Ha Hk. unfold lsetk. pose proof (r_lset_agree K s t k i e Ha Hk) as H.
  destruct (r_lset s k i e), (r_lset t k i e); try contradiction; [exact H|exact Ha].
Qed.

Lemma r_lpos_agree s t k e : agree K s t -> K k -> r_lpos s k e = r_lpos t k e.
Proof. intros Ha Hk. unfold r_lpos. rewrite (r_list_agree K s t k Ha Hk). reflexivity. Qed.

Lemma r_lpush_agree s t k vs : agree K s t -> K k -> agree K (r_lpush s k vs) (r_lpush t k vs).
Proof. intros Ha Hk. unfold r_lpush. rewrite (r_list_agree K s t k Ha Hk). apply r_putlist_agree. exact Ha. Qed.

Lemma r_hash_agree s t k : agree K s t -> K k -> r_hash s k = r_hash t k.
Proof. intros Ha Hk. unfold r_hash. rewrite (Ha k Hk). reflexivity. Qed.

Lemma r_hget_agree s t k f : agree K s t -> K k -> r_hget s k f = r_hget t k f.
Proof. intros Ha Hk. unfold r_hget. rewrite (r_hash_agree s t k Ha Hk). reflexivity. Qed.

Lemma r_hset_agree s t k fs : agree K s t -> K k -> agree K (r_hset s k fs) (r_hset t k fs).
Proof. intros Ha Hk. unfold r_hset. rewrite (r_hash_agree s t k Ha Hk). apply sset_agree. exact Ha. Qed.
End Prims.

(* ---------- the filter's keys ---------- *)
Definition Kck (h : rcuckoo) : keyset := fun k =>
  k = rq_meta h \/ k = rq_key h \/ exists i, k = bucket_key (rq_key h) i \/ k = len_key (bucket_key (rq_key h) i).

Lemma K_bucket h i : Kck h (bucket_key (rq_key h) i).
Proof. right. right. exists i. left. reflexivity. Qed.
Lemma K_len h i : Kck h (len_key (bucket_key (rq_key h) i)).
Proof. right. right. exists i. right. reflexivity. Qed.
Lemma K_meta h : Kck h (rq_meta h).
Proof. left. reflexivity. Qed.
Lemma notK_bucket h i k : ~ Kck h k -> k <> bucket_key (rq_key h) i.
Proof. intros H E. apply H. subst. apply K_bucket. Qed.
Lemma notK_len h i k : ~ Kck h k -> k <> len_key (bucket_key (rq_key h) i).
Proof. intros H E. apply H. subst. apply K_len. Qed.
Lemma notK_meta h k : ~ Kck h k -> k <> rq_meta h.
Proof. intros H E. apply H. subst. apply K_meta. Qed.

Section Filter.
Variable h64 : bytes -> N.
Variable h : rcuckoo.
Notation K := (Kck h).
Notation B i := (bucket_key (rq_key h) i).

(* ----- bucket methods: answers ----- *)
Lemma bk_len_z_agree s t i : agree K s t -> bk_len_z s (B i) = bk_len_z t (B i).
Proof. intros Ha. unfold bk_len_z. rewrite (rget_agree K s t _ Ha (K_len h i)). reflexivity. Qed.
Lemma is_free_agree s t i n : agree K s t -> rbk_is_free s (B i) n = rbk_is_free t (B i) n.
Proof. intros Ha. unfold rbk_is_free. rewrite (bk_len_z_agree s t i Ha). reflexivity. Qed.
Lemma get_length_agree s t i : agree K s t -> rbk_get_length s (B i) = rbk_get_length t (B i).
Proof. intros Ha. unfold rbk_get_length. rewrite (bk_len_z_agree s t i Ha). reflexivity. Qed.
Lemma at_agree s t i j : agree K s t -> rbk_at s (B i) j = rbk_at t (B i) j.
Proof. intros Ha. unfold rbk_at. rewrite (r_lindex_agree K s t _ j Ha (K_bucket h i)). reflexivity. Qed.
Lemma lookup_agree s t i e : agree K s t -> rbk_lookup s (B i) e = rbk_lookup t (B i) e.
Proof. intros Ha. unfold rbk_lookup. rewrite (r_lpos_agree K s t _ e Ha (K_bucket h i)). reflexivity. Qed.

(* ----- bucket methods: writes ----- *)
Lemma rbk_add_eq s bk n e : rbk_add s bk n e =
  match e with
  | [] => s
  | _ => match bk_len_z s bk with
         | None => s
         | Some z => if (Z.of_N n <=? z)%Z then s
                     else incrk (match r_lpos s bk [] with
                                 | None => r_lpush s bk [e]
                                 | Some p => lsetk s bk (N.of_nat p) e
                                 end) (len_key bk) 1
         end
  end.
Proof. reflexivity. Qed.

Lemma add_frame s i n e k : ~ K k -> sget (rbk_add s (B i) n e) k = sget s k.
Proof.
  intros Hk. rewrite rbk_add_eq. destruct e as [|c e]; [reflexivity|].
  destruct (bk_len_z s (B i)); [|reflexivity]. destruct (_ <=? _)%Z; [reflexivity|].
  rewrite incrk_frame by (apply notK_len; exact Hk).
  destruct (r_lpos s (B i) []).
  - apply lsetk_frame. apply notK_bucket. exact Hk.
  - apply r_lpush_frame. apply notK_bucket. exact Hk.
Qed.

Lemma add_agree s t i n e : agree K s t -> agree K (rbk_add s (B i) n e) (rbk_add t (B i) n e).
Proof.
  intros Ha. rewrite !rbk_add_eq. destruct e as [|c e]; [exact Ha|].
  rewrite (bk_len_z_agree s t i Ha). destruct (bk_len_z t (B i)); [|exact Ha].
  destruct (_ <=? _)%Z; [exact Ha|].
  apply incrk_agree; [|apply K_len].
  rewrite (r_lpos_agree K s t _ [] Ha (K_bucket h i)). destruct (r_lpos t (B i) []).
  - apply lsetk_agree; [exact Ha|apply K_bucket].
  - apply r_lpush_agree; [exact Ha|apply K_bucket].
Qed.

Lemma rbk_remove_eq s bk e : rbk_remove s bk e =
  match r_lpos s bk e with
  | None => s
  | Some p => match r_lset s bk (N.of_nat p) [] with
              | Some s1 => incrk s1 (len_key bk) (-1)
              | None => s
              end
  end.
Proof. reflexivity. Qed.

Lemma remove_frame s i e k : ~ K k -> sget (rbk_remove s (B i) e) k = sget s k.
Proof.
  intros Hk. rewrite rbk_remove_eq. destruct (r_lpos s (B i) e); [|reflexivity].
  destruct (r_lset s (B i) _ []) as [s1|] eqn:E; [|reflexivity].
  rewrite incrk_frame by (apply notK_len; exact Hk).
  apply (r_lset_frame _ _ _ _ _ E). apply notK_bucket. exact Hk.
Qed.

Lemma remove_agree s t i e : agree K s t -> agree K (rbk_remove s (B i) e) (rbk_remove t (B i) e).
Proof.
  intros Ha. rewrite !rbk_remove_eq. rewrite (r_lpos_agree K s t _ e Ha (K_bucket h i)).
  destruct (r_lpos t (B i) e) as [p|]; [|exact Ha].
  pose proof (r_lset_agree K s t (B i) (N.of_nat p) [] Ha (K_bucket h i)) as H.
  destruct (r_lset s (B i) _ []), (r_lset t (B i) _ []); try contradiction; [|exact Ha].
  apply incrk_agree; [exact H|apply K_len].
Qed.

Lemma rbk_set_eq s bk i e : rbk_set s bk i e = if 9223372036854775808 <=? i then s else lsetk s bk i e.
Proof. reflexivity. Qed.

Lemma set_frame s i j e k : ~ K k -> sget (rbk_set s (B i) j e) k = sget s k.
Proof.
  intros Hk. rewrite rbk_set_eq. destruct (_ <=? j); [reflexivity|].
  apply lsetk_frame. apply notK_bucket. exact Hk.
Qed.
Lemma set_agree s t i j e : agree K s t -> agree K (rbk_set s (B i) j e) (rbk_set t (B i) j e).
Proof.
  intros Ha. rewrite !rbk_set_eq. destruct (_ <=? j); [exact Ha|].
  apply lsetk_agree; [exact Ha|apply K_bucket].
Qed.

Lemma hincr_frame s d k : ~ K k -> sget (hincr s h d) k = sget s k.
Proof.
  intros Hk. unfold hincr, r_hincrby.
  destruct (match r_hget s (rq_meta h) f_length with Some b => undecZ b | None => Some 0%Z end); [|reflexivity].
  apply r_hset_frame. apply notK_meta. exact Hk.
Qed.
Lemma hincr_agree s t d : agree K s t -> agree K (hincr s h d) (hincr t h d).
Proof.
  intros Ha. unfold hincr, r_hincrby. rewrite (r_hget_agree K s t _ f_length Ha (K_meta h)).
  destruct (match r_hget t (rq_meta h) f_length with Some b => undecZ b | None => Some 0%Z end); [|exact Ha].
  apply r_hset_agree; [exact Ha|apply K_meta].
Qed.

Lemma rundo_frame items : forall s k, ~ K k -> sget (rundo s h items) k = sget s k.
Proof.
  induction items as [|[[fp bi] si] t IH]; intros s k Hk; cbn [rundo]; [reflexivity|].
  rewrite IH by exact Hk. apply set_frame. exact Hk.
Qed.
Lemma rundo_agree items : forall s t, agree K s t -> agree K (rundo s h items) (rundo t h items).
Proof.
  induction items as [|[[fp bi] si] l IH]; intros s t Ha; cbn [rundo]; [exact Ha|].
  apply IH. apply set_agree. exact Ha.
Qed.

(* ----- Insert ----- *)
Definition rins_store (r : rins) : store :=
  match r with RInsOk s => s | RInsFull s => s | RInsPanic _ s => s end.
Definition rins_tag (r : rins) : N * N :=
  match r with RInsOk _ => (0, 0) | RInsFull _ => (1, 0) | RInsPanic t _ => (2, t) end.

Lemma revict_frame fuel : forall s index curr draws items destructive k, ~ K k ->
  sget (rins_store (revict h64 fuel s h index curr draws items destructive)) k = sget s k.
Proof.
  induction fuel as [|n IH]; intros s index curr draws items destructive k Hk; cbn [revict].
  - cbn [rins_store]. destruct destructive; [reflexivity|]. apply rundo_frame. exact Hk.
  - destruct (rbk_is_free _ _ _).
    + cbn [rins_store]. rewrite hincr_frame, add_frame, set_frame by exact Hk. reflexivity.
    + rewrite IH by exact Hk. apply set_frame. exact Hk.
Qed.

Lemma revict_agree fuel : forall s t index curr draws items destructive, agree K s t ->
  rins_tag (revict h64 fuel s h index curr draws items destructive) =
  rins_tag (revict h64 fuel t h index curr draws items destructive) /\
  agree K (rins_store (revict h64 fuel s h index curr draws items destructive))
          (rins_store (revict h64 fuel t h index curr draws items destructive)).
Proof.
  induction fuel as [|n IH]; intros s t index curr draws items destructive Ha; cbn [revict].
  - cbn [rins_store rins_tag]. split; [reflexivity|]. destruct destructive; [exact Ha|]. apply rundo_agree. exact Ha.
  - rewrite (get_length_agree s t index Ha). rewrite (at_agree s t index _ Ha).
    set (ri := rand_slot (hd 0 draws) (rbk_get_length t (B index))).
    set (prev := rbk_at t (B index) ri).
    pose proof (set_agree s t index ri curr Ha) as Ha1.
    rewrite (is_free_agree _ _ (N.lxor index (h64 prev) mod rq_size h) (rq_bsize h) Ha1).
    destruct (rbk_is_free (rbk_set t (B index) ri curr) _ _).
    + cbn [rins_store rins_tag]. split; [reflexivity|]. apply hincr_agree. apply add_agree. exact Ha1.
    + apply IH. exact Ha1.
Qed.

Lemma insert_frame s x destructive coin draws k : ~ K k ->
  sget (rins_store (rck_insert h64 s h x destructive coin draws)) k = sget s k.
Proof.
  intros Hk. unfold rck_insert. destruct (rck_positions h64 h x) as [[[fp i1] i2]|e|p]; try reflexivity.
  destruct (rq_size h =? 0); [reflexivity|].
  destruct (rbk_is_free s (B i1) _); [cbn [rins_store]; rewrite hincr_frame, add_frame by exact Hk; reflexivity|].
  destruct (rbk_is_free s (B i2) _); [cbn [rins_store]; rewrite hincr_frame, add_frame by exact Hk; reflexivity|].
  apply revict_frame. exact Hk.
Qed.

Lemma insert_agree s t x destructive coin draws : agree K s t ->
  rins_tag (rck_insert h64 s h x destructive coin draws) = rins_tag (rck_insert h64 t h x destructive coin draws) /\
  agree K (rins_store (rck_insert h64 s h x destructive coin draws))
          (rins_store (rck_insert h64 t h x destructive coin draws)).
Proof.
  intros Ha. unfold rck_insert. destruct (rck_positions h64 h x) as [[[fp i1] i2]|e|p];
    try (cbn [rins_tag rins_store]; split; [reflexivity|exact Ha]).
  destruct (rq_size h =? 0); [cbn [rins_tag rins_store]; split; [reflexivity|exact Ha]|].
  rewrite (is_free_agree s t i1 _ Ha), (is_free_agree s t i2 _ Ha).
  destruct (rbk_is_free t (B i1) _);
    [cbn [rins_tag rins_store]; split; [reflexivity|apply hincr_agree, add_agree; exact Ha]|].
  destruct (rbk_is_free t (B i2) _);
    [cbn [rins_tag rins_store]; split; [reflexivity|apply hincr_agree, add_agree; exact Ha]|].
  apply revict_agree. exact Ha.
Qed.

(* ----- Lookup, Remove, Length ----- *)
Lemma lookup_filter_agree s t x : agree K s t -> rck_lookup h64 s h x = rck_lookup h64 t h x.
Proof.
  intros Ha. unfold rck_lookup. destruct (rck_positions h64 h x) as [[[fp i1] i2]|e|p]; try reflexivity.
  cbn -[rbk_lookup bucket_key]. rewrite (lookup_agree s t i1 fp Ha), (lookup_agree s t i2 fp Ha). reflexivity.
Qed.

Lemma remove_filter_frame s x k : ~ K k -> sget (snd (rck_remove h64 s h x)) k = sget s k.
Proof.
  intros Hk. unfold rck_remove. destruct (rck_positions h64 h x) as [[[fp i1] i2]|e|p]; try reflexivity.
  destruct (rq_size h =? 0); [reflexivity|].
  destruct (rbk_lookup s (B i1) fp); [cbn [snd]; rewrite hincr_frame, remove_frame by exact Hk; reflexivity|].
  destruct (rbk_lookup s (B i2) fp); [cbn [snd]; rewrite hincr_frame, remove_frame by exact Hk; reflexivity|].
  reflexivity.
Qed.

Lemma remove_filter_agree s t x : agree K s t ->
  fst (rck_remove h64 s h x) = fst (rck_remove h64 t h x) /\
  agree K (snd (rck_remove h64 s h x)) (snd (rck_remove h64 t h x)).
Proof.
  intros Ha. unfold rck_remove. destruct (rck_positions h64 h x) as [[[fp i1] i2]|e|p];
    try (cbn [fst snd]; split; [reflexivity|exact Ha]).
  destruct (rq_size h =? 0); [cbn [fst snd]; split; [reflexivity|exact Ha]|].
  rewrite (lookup_agree s t i1 fp Ha), (lookup_agree s t i2 fp Ha).
  destruct (rbk_lookup t (B i1) fp); [cbn [fst snd]; split; [reflexivity|apply hincr_agree, remove_agree; exact Ha]|].
  destruct (rbk_lookup t (B i2) fp); [cbn [fst snd]; split; [reflexivity|apply hincr_agree, remove_agree; exact Ha]|].
  cbn [fst snd]. split; [reflexivity|exact Ha].
Qed.

Lemma length_agree s t : agree K s t -> rck_length s h = rck_length t h.
Proof. intros Ha. unfold rck_length. rewrite (r_hget_agree K s t _ f_length Ha (K_meta h)). reflexivity. Qed.

(* ----- as operations ----- *)
Definition op_ck_insert (x : bytes) (destructive coin : bool) (draws : list N) : op (N * N) :=
  fun s => let r := rck_insert h64 s h x destructive coin draws in (rins_store r, rins_tag r).
Definition op_ck_lookup (x : bytes) : op (outcome bool) := fun s => (s, rck_lookup h64 s h x).
Definition op_ck_remove (x : bytes) : op (outcome bool) :=
  fun s => let r := rck_remove h64 s h x in (snd r, fst r).
Definition op_ck_length : op N := fun s => (s, rck_length s h).

Theorem ck_insert_local x destructive coin draws : local K (op_ck_insert x destructive coin draws).
Proof.
  split.
  - intros s k Hk. apply insert_frame. exact Hk.
  - intros s t Ha. apply insert_agree. exact Ha.
Qed.
Theorem ck_lookup_local x : local K (op_ck_lookup x).
Proof.
  split; [reflexivity|]. intros s t Ha. cbn [op_ck_lookup fst snd]. split; [apply lookup_filter_agree|]; exact Ha.
Qed.
Theorem ck_remove_local x : local K (op_ck_remove x).
Proof.
  split.
  - intros s k Hk. apply remove_filter_frame. exact Hk.
  - intros s t Ha. apply remove_filter_agree. exact Ha.
Qed.
Theorem ck_length_local : local K op_ck_length.
Proof.
  split; [reflexivity|]. intros s t Ha. cbn [op_ck_length fst snd]. split; [apply length_agree|]; exact Ha.
Qed.
End Filter.

(* ---------- two filters with different base keys of equal length own disjoint keys ---------- *)
Lemma bucket_key_head key1 key2 r1 r2 : length key1 = length key2 ->
  s_cuckoo_ ++ key1 ++ r1 = s_cuckoo_ ++ key2 ++ r2 -> key1 = key2.
Proof. intros Hl E. apply app_inv_head in E. apply app_inj_len in E; [tauto|exact Hl]. Qed.

Lemma key_not_bucket key1 key2 i : length key1 = length key2 -> key1 <> bucket_key key2 i.
Proof.
  intros Hl E. apply (f_equal (@length N)) in E. unfold bucket_key in E. rewrite !app_length in E.
  cbn [length s_cuckoo_] in E. lia.
Qed.
Lemma key_not_len key1 key2 i : length key1 = length key2 -> key1 <> len_key (bucket_key key2 i).
Proof.
  intros Hl E. apply (f_equal (@length N)) in E. unfold len_key, bucket_key in E. rewrite !app_length in E.
  cbn [length s_cuckoo_] in E. lia.
Qed.

Theorem cuckoo_keys_disjoint h1 h2 :
  length (rq_key h1) = length (rq_key h2) -> rq_key h1 <> rq_key h2 ->
  ~ Kck h2 (rq_meta h1) -> ~ Kck h1 (rq_meta h2) ->
  forall k, Kck h1 k -> Kck h2 k -> False.
Proof.
  intros Hl Hne Hm1 Hm2 k H1 H2.
  destruct H1 as [->|H1]; [exact (Hm1 H2)|]. destruct H2 as [->|H2]; [apply Hm2; right; exact H1|].
  destruct H1 as [->|[i H1]].
  - destruct H2 as [E|[j [E|E]]]; [exact (Hne E)|exact (key_not_bucket _ _ _ Hl E)|exact (key_not_len _ _ _ Hl E)].
  - destruct H2 as [->|[j H2]].
    + destruct H1 as [E|E]; [exact (key_not_bucket _ _ _ (eq_sym Hl) E)|exact (key_not_len _ _ _ (eq_sym Hl) E)].
    + assert (rq_key h1 = rq_key h2); [|contradiction].
      destruct H1 as [E1|E1], H2 as [E|E]; rewrite E1 in E; unfold len_key, bucket_key in E; rewrite <- ?app_assoc in E;
        exact (bucket_key_head _ _ _ _ Hl E).
Qed.

(* the instance of the generic theorem: two live cuckoo filters in one database *)
Theorem cuckoo_filters_do_not_interfere O h1 h2 (prog : list (tagged_op O)) s :
  length (rq_key h1) = length (rq_key h2) -> rq_key h1 <> rq_key h2 ->
  ~ Kck h2 (rq_meta h1) -> ~ Kck h1 (rq_meta h2) ->
  Forall (well_tagged O (Kck h1) (Kck h2)) prog ->
  run_mixed O s prog = run_alone O s prog.
Proof.
  intros Hl Hne Hm1 Hm2 Hw. apply non_interference_same_start with (K1 := Kck h1) (K2 := Kck h2); [|exact Hw].
  apply cuckoo_keys_disjoint; assumption.
Qed.
