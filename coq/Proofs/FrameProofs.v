(* FrameProofs.v — C19 lifted from single commands to whole programs.
   An operation is LOCAL to a set K of keys when it leaves every key outside K untouched and its
   answer and its effect on K depend on the contents of K only. Operations local to disjoint key
   sets cannot influence each other: in ANY interleaving, the operations of one structure give
   exactly the answers they give when run alone. Instantiated for the Redis-backed Count-Min
   sketch (Update and Count: LINDEX/LSET on the row lists): two sketches with different base keys
   of equal length (the library's 16-letter random keys) have disjoint row keys. *)
From GX.Model Require Import Base Redis RedisCMS.
From GX.Proofs Require Import ListLemmas RedisProofs.
From Coq Require Import Lia.

Definition keyset := bytes -> Prop.
Definition agree (K : keyset) (s s' : store) : Prop := forall k, K k -> sget s k = sget s' k.

(* an operation with an answer of type O *)
Definition op (O : Type) := store -> store * O.
Definition local {O} (K : keyset) (f : op O) : Prop :=
  (forall s k, ~ K k -> sget (fst (f s)) k = sget s k) /\
  (forall s s', agree K s s' -> snd (f s) = snd (f s') /\ agree K (fst (f s)) (fst (f s'))).

Lemma agree_refl K s : agree K s s.
Proof. intros k _. reflexivity. Qed.
Lemma agree_trans K a b c : agree K a b -> agree K b c -> agree K a c.
Proof. intros H1 H2 k Hk. rewrite (H1 k Hk). apply H2. exact Hk. Qed.

(* ---------- the generic non-interference theorem ---------- *)
Section NonInterference.
Variable O : Type.
Variable K1 K2 : keyset.
Hypothesis disjoint : forall k, K1 k -> K2 k -> False.

(* a step of the interleaved program: an operation of structure 1 (true) or of structure 2 *)
Definition tagged_op := (bool * op O)%type.
Definition well_tagged (p : tagged_op) : Prop := if fst p then local K1 (snd p) else local K2 (snd p).

(* answers of structure 1's operations in the interleaved run *)
Fixpoint run_mixed (s : store) (prog : list tagged_op) : list O :=
  match prog with
  | [] => []
  | (true, f) :: t => snd (f s) :: run_mixed (fst (f s)) t
  | (false, f) :: t => run_mixed (fst (f s)) t
  end.
(* the same operations run alone *)
Fixpoint run_alone (s : store) (prog : list tagged_op) : list O :=
  match prog with
  | [] => []
  | (true, f) :: t => snd (f s) :: run_alone (fst (f s)) t
  | (false, _) :: t => run_alone s t
  end.

Theorem non_interference prog : Forall well_tagged prog ->
  forall s s', agree K1 s s' -> run_mixed s prog = run_alone s' prog.
Proof.
  induction 1 as [|[b f] t Hw _ IH]; intros s s' Ha; [reflexivity|].
  destruct b; cbn [run_mixed run_alone]; unfold well_tagged in Hw; cbn [fst snd] in Hw.
  - destruct Hw as [_ Hl]. destruct (Hl s s' Ha) as [Ho Ha']. rewrite Ho. f_equal. apply IH. exact Ha'.
  - destruct Hw as [Hf _]. apply IH. intros k Hk. rewrite Hf by (intros H2; exact (disjoint k Hk H2)).
    apply Ha. exact Hk.
Qed.

Corollary non_interference_same_start prog s : Forall well_tagged prog ->
  run_mixed s prog = run_alone s prog.
Proof. intros H. apply non_interference; [exact H|apply agree_refl]. Qed.
End NonInterference.

(* ---------- primitives on one key ---------- *)
Lemma r_list_agree K s s' k : agree K s s' -> K k -> r_list s k = r_list s' k.
Proof. intros Ha Hk. unfold r_list. rewrite (Ha k Hk). reflexivity. Qed.

Lemma r_lindex_agree K s s' k i : agree K s s' -> K k -> r_lindex s k i = r_lindex s' k i.
Proof. intros Ha Hk. unfold r_lindex. rewrite (r_list_agree K s s' k Ha Hk). reflexivity. Qed.

Lemma sget_putlist s k l k' : sget (r_putlist s k l) k' =
  if bytes_eqb k' k then (match l with [] => None | _ => Some (VList l) end) else sget s k'.
Proof.
  unfold r_putlist. destruct (bytes_eqb k' k) eqn:E.
  - apply bytes_eqb_eq in E. subst k'. destruct l; [apply sget_sdel_same|apply sget_sset_same].
  - assert (Hne : k' <> k) by (intros ->; rewrite bytes_eqb_refl in E; discriminate).
    destruct l; [apply sget_sdel_other|apply sget_sset_other]; exact Hne.
Qed.

Lemma r_putlist_agree K s s' k l : agree K s s' -> agree K (r_putlist s k l) (r_putlist s' k l).
Proof. intros Ha k' Hk'. rewrite !sget_putlist. destruct (bytes_eqb k' k); [reflexivity|apply Ha; exact Hk']. Qed.

Lemma r_lset_agree K s s' k i v : agree K s s' -> K k ->
  match r_lset s k i v, r_lset s' k i v with
  | Some a, Some b => agree K a b
  | None, None => True
  | _, _ => False
  end.
Proof.
  intros Ha Hk. unfold r_lset. rewrite (r_list_agree K s s' k Ha Hk).
  destruct (i <? N.of_nat (length (r_list s' k)))%N; [|exact I].
  apply r_putlist_agree. exact Ha.
Qed.

(* ---------- the Redis Count-Min sketch ---------- *)
Definition Kcms (key : bytes) : keyset := fun k => exists r, k = row_key key r.

Section CMS.
Variable cpos : N -> N -> bytes -> list N.

Lemma upd_cells_frame key count rcs : forall s s', upd_cells s key rcs count = Some s' ->
  forall k, ~ Kcms key k -> sget s' k = sget s k.
Proof.
  induction rcs as [|[r c] t IH]; intros s s' H k Hk; cbn [upd_cells] in H; [injection H as <-; reflexivity|].
  destruct (r_lindex s (row_key key r) c) as [v|]; [|discriminate].
  destruct (lua_tonum v) as [n|]; [|discriminate].
  assert (Hne : k <> row_key key r) by (intros ->; apply Hk; exists r; reflexivity).
  destruct (r_lset s (row_key key r) c (dec (round53 (n + count)))) as [s2|] eqn:E.
  - rewrite (IH _ _ H k Hk). apply (r_lset_frame _ _ _ _ _ E). exact Hne.
  - apply (IH _ _ H k Hk).
Qed.

Lemma upd_cells_partial_frame key count rcs : forall s k, ~ Kcms key k ->
  sget (upd_cells_partial s key rcs count) k = sget s k.
Proof.
  induction rcs as [|[r c] t IH]; intros s k Hk; cbn [upd_cells_partial]; [reflexivity|].
  destruct (r_lindex s (row_key key r) c) as [v|]; [|reflexivity].
  destruct (lua_tonum v) as [n|]; [|reflexivity].
  assert (Hne : k <> row_key key r) by (intros ->; apply Hk; exists r; reflexivity).
  destruct (r_lset s (row_key key r) c (dec (round53 (n + count)))) as [s2|] eqn:E.
  - rewrite (IH _ k Hk). apply (r_lset_frame _ _ _ _ _ E). exact Hne.
  - apply (IH _ k Hk).
Qed.

Lemma upd_cells_agree key count rcs : forall s s', agree (Kcms key) s s' ->
  match upd_cells s key rcs count, upd_cells s' key rcs count with
  | Some a, Some b => agree (Kcms key) a b
  | None, None => True
  | _, _ => False
  end.
Proof.
  induction rcs as [|[r c] t IH]; intros s s' Ha; cbn [upd_cells]; [exact Ha|].
  assert (Hk : Kcms key (row_key key r)) by (exists r; reflexivity).
  rewrite (r_lindex_agree _ s s' _ c Ha Hk).
  destruct (r_lindex s' (row_key key r) c) as [v|]; [|exact I].
  destruct (lua_tonum v) as [n|]; [|exact I].
  pose proof (r_lset_agree _ s s' (row_key key r) c (dec (round53 (n + count))) Ha Hk) as Hl.
  destruct (r_lset s (row_key key r) c _) as [a|], (r_lset s' (row_key key r) c _) as [b|]; try contradiction.
  - apply IH. exact Hl.
  - apply IH. exact Ha.
Qed.

Lemma upd_cells_partial_agree key count rcs : forall s s', agree (Kcms key) s s' ->
  agree (Kcms key) (upd_cells_partial s key rcs count) (upd_cells_partial s' key rcs count).
Proof.
  induction rcs as [|[r c] t IH]; intros s s' Ha; cbn [upd_cells_partial]; [exact Ha|].
  assert (Hk : Kcms key (row_key key r)) by (exists r; reflexivity).
  rewrite (r_lindex_agree _ s s' _ c Ha Hk).
  destruct (r_lindex s' (row_key key r) c) as [v|]; [|exact Ha].
  destruct (lua_tonum v) as [n|]; [|exact Ha].
  pose proof (r_lset_agree _ s s' (row_key key r) c (dec (round53 (n + count))) Ha Hk) as Hl.
  destruct (r_lset s (row_key key r) c _) as [a|], (r_lset s' (row_key key r) c _) as [b|]; try contradiction.
  - apply IH. exact Hl.
  - apply IH. exact Ha.
Qed.

Lemma count_cells_agree key rcs : forall s s' mn, agree (Kcms key) s s' ->
  count_cells s key rcs mn = count_cells s' key rcs mn.
Proof.
  induction rcs as [|[r c] t IH]; intros s s' mn Ha; cbn [count_cells]; [reflexivity|].
  assert (Hk : Kcms key (row_key key r)) by (exists r; reflexivity).
  rewrite (r_lindex_agree _ s s' _ c Ha Hk).
  destruct (r_lindex s' (row_key key r) c) as [v|]; [|reflexivity].
  destruct (lua_tonum v) as [n|]; [|reflexivity]. apply IH. exact Ha.
Qed.

(* Update and Count as operations with an answer *)
Definition op_update (h : rcms) (x : bytes) (count : N) : op (outcome N) :=
  fun s => let r := rcms_update cpos s h x count in
           (snd r, match fst r with Ok h' => Ok (rc_allsum h') | Err e => Err e | Panic e => Panic e end).
Definition op_count (h : rcms) (x : bytes) : op (outcome N) :=
  fun s => (s, rcms_count cpos s h x).

Theorem update_local h x count : local (Kcms (rc_key h)) (op_update h x count).
Proof.
  split.
  - intros s k Hk. unfold op_update, rcms_update. cbn [fst snd].
    destruct (upd_cells s (rc_key h) (positions_rc cpos h x) (round53 count)) as [s'|] eqn:E; cbn [snd].
    + eapply upd_cells_frame; eauto.
    + apply upd_cells_partial_frame. exact Hk.
  - intros s s' Ha. unfold op_update, rcms_update. cbn [fst snd].
    pose proof (upd_cells_agree (rc_key h) (round53 count) (positions_rc cpos h x) s s' Ha) as Hu.
    destruct (upd_cells s (rc_key h) _ _) as [a|], (upd_cells s' (rc_key h) _ _) as [b|]; try contradiction; cbn [fst snd].
    + split; [reflexivity|exact Hu].
    + split; [reflexivity|]. apply upd_cells_partial_agree. exact Ha.
Qed.

Theorem count_local h x : local (Kcms (rc_key h)) (op_count h x).
Proof.
  split; [intros s k _; reflexivity|].
  intros s s' Ha. unfold op_count, rcms_count. cbn [fst snd].
  rewrite (count_cells_agree (rc_key h) (positions_rc cpos h x) s s' 0 Ha). split; [reflexivity|exact Ha].
Qed.
End CMS.

(* different base keys of equal length: disjoint row keys *)
Theorem cms_keys_disjoint key1 key2 : length key1 = length key2 -> key1 <> key2 ->
  forall k, Kcms key1 k -> Kcms key2 k -> False.
Proof.
  intros Hl Hne k (r1 & E1) (r2 & E2). rewrite E1 in E2.
  destruct (row_key_injective key1 key2 r1 r2 Hl E2) as [Hk _]. exact (Hne Hk).
Qed.

(* two Redis Count-Min sketches in one database: in any interleaving of their updates and
   counts, the first one answers exactly as if it were alone *)
Theorem cms_structures_do_not_interfere key1 key2 prog s :
  length key1 = length key2 -> key1 <> key2 ->
  Forall (well_tagged (outcome N) (Kcms key1) (Kcms key2)) prog ->
  run_mixed (outcome N) s prog = run_alone (outcome N) s prog.
Proof.
  intros Hl Hne Hw. apply non_interference_same_start with (K1 := Kcms key1) (K2 := Kcms key2); [|exact Hw].
  apply cms_keys_disjoint; assumption.
Qed.

(* ---------- HyperLogLog and Bloom: every call touches the one data key only ---------- *)
From GX.Model Require Import RedisHLL RedisBloom.

Definition Kone (key : bytes) : keyset := fun k => k = key.

Lemma keys_disjoint_one k1 k2 : k1 <> k2 -> forall k, Kone k1 k -> Kone k2 k -> False.
Proof. unfold Kone. intros Hne k -> E. exact (Hne E). Qed.

Section HLLLocal.
Variable hic : N -> bytes -> N * N.
Definition op_hll_update (h : rhll) (x : bytes) : op (outcome unit) :=
  fun s => let r := rhll_update hic s h x in (snd r, fst r).
Definition op_hll_regs (h : rhll) : op (option (list N)) := fun s => (s, rhll_regs s h).

Theorem hll_update_local h x : local (Kone (rh_key h)) (op_hll_update h x).
Proof.
  split.
  - intros s k Hk. unfold op_hll_update, rhll_update. cbn [fst snd].
    destruct (r_lindex s (rh_key h) _) as [cur|]; [|reflexivity].
    destruct (lua_tonum cur) as [c|]; [|reflexivity].
    destruct (r_lset s (rh_key h) _ _) as [s'|] eqn:E; [|reflexivity]. cbn [snd].
    apply (r_lset_frame _ _ _ _ _ E). intros Ek. apply Hk. exact Ek.
  - intros s s' Ha. unfold op_hll_update, rhll_update. cbn [fst snd].
    assert (Hk : Kone (rh_key h) (rh_key h)) by reflexivity.
    rewrite (r_lindex_agree _ s s' _ _ Ha Hk).
    destruct (r_lindex s' (rh_key h) _) as [cur|]; [|split; [reflexivity|exact Ha]].
    destruct (lua_tonum cur) as [c|]; [|split; [reflexivity|exact Ha]].
    match goal with |- context [r_lset s (rh_key h) ?i ?v] =>
      pose proof (r_lset_agree _ s s' (rh_key h) i v Ha Hk) as Hl;
      destruct (r_lset s (rh_key h) i v) as [a|], (r_lset s' (rh_key h) i v) as [b|]; try contradiction end.
    + split; [reflexivity|exact Hl].
    + split; [reflexivity|exact Ha].
Qed.

Theorem hll_regs_local h : local (Kone (rh_key h)) (op_hll_regs h).
Proof.
  split; [intros s k _; reflexivity|].
  intros s s' Ha. unfold op_hll_regs, rhll_regs. cbn [fst snd].
  rewrite (r_list_agree _ s s' (rh_key h) Ha eq_refl). split; [reflexivity|exact Ha].
Qed.
End HLLLocal.

Section BloomLocal.
Variable bpos : N -> N -> bytes -> list N.
Definition op_bloom_insert (h : rbloom) (x : bytes) : op (outcome bool) :=
  fun s => let r := rbloom_insert bpos s h x in
           (snd r, match fst r with Ok _ => Ok true | Err e => Err e | Panic e => Panic e end).
Definition op_bloom_lookup (h : rbloom) (x : bytes) : op (outcome bool) := fun s => (s, rbloom_lookup bpos s h x).

Lemma r_get_agree K s s' k : agree K s s' -> K k -> r_get s k = r_get s' k.
Proof. intros Ha Hk. unfold r_get. rewrite (Ha k Hk). reflexivity. Qed.

Lemma fold_setbit_frame key l : forall s k, k <> key ->
  sget (fold_left (fun st i => r_setbit1 st key i) l s) k = sget s k.
Proof.
  induction l as [|a t IH]; intros s k Hk; cbn [fold_left]; [reflexivity|].
  rewrite IH by exact Hk. apply r_setbit1_frame. exact Hk.
Qed.

Lemma fold_setbit_agree key l : forall s s', agree (Kone key) s s' ->
  agree (Kone key) (fold_left (fun st i => r_setbit1 st key i) l s) (fold_left (fun st i => r_setbit1 st key i) l s').
Proof.
  induction l as [|a t IH]; intros s s' Ha; cbn [fold_left]; [exact Ha|]. apply IH.
  intros k Hk. unfold Kone in Hk. subst k. unfold r_setbit1, r_set. rewrite !sget_sset_same.
  rewrite (r_get_agree _ s s' key Ha eq_refl). reflexivity.
Qed.

Theorem bloom_insert_local h x : local (Kone (rb_key h)) (op_bloom_insert h x).
Proof.
  split.
  - intros s k Hk. unfold op_bloom_insert, rbloom_insert. destruct (rb_nil h); cbn [fst snd]; [reflexivity|].
    apply fold_setbit_frame. exact Hk.
  - intros s s' Ha. unfold op_bloom_insert, rbloom_insert. destruct (rb_nil h); cbn [fst snd]; [split; [reflexivity|exact Ha]|].
    split; [reflexivity|]. apply fold_setbit_agree. exact Ha.
Qed.

Theorem bloom_lookup_local h x : local (Kone (rb_key h)) (op_bloom_lookup h x).
Proof.
  split; [intros s k _; reflexivity|].
  intros s s' Ha. unfold op_bloom_lookup, rbloom_lookup. cbn [fst snd]. split; [|exact Ha].
  destruct (bpos (rb_size h) (rb_k h) x) as [|p ps]; [reflexivity|]. destruct (rb_nil h); [reflexivity|].
  f_equal. assert (Hg : forall i, r_getbit s (rb_key h) i = r_getbit s' (rb_key h) i) by (intros i; unfold r_getbit; rewrite (r_get_agree _ s s' (rb_key h) Ha eq_refl); reflexivity).
  generalize (p :: ps) as l. induction l as [|a t IHl]; [reflexivity|]. cbn [forallb]. rewrite Hg, IHl. reflexivity.
Qed.
End BloomLocal.
