(* RedisTopKDoc.v — C10 for the heap of the Redis-backed Top-K: the sorted set is kept in Redis'
   total order (score, then member bytes), strictly, with distinct members; Export reads it in
   that order and Import rebuilds it by ZADDing the entries one by one into a deleted key — which
   yields exactly the exported sorted set. *)
From GX.Model Require Import Base CMS Heap TopK Redis RedisCMS RedisTopK.
From GX.Proofs Require Import ListLemmas CMSProofs TopKProofs TopKInv RedisProofs RedisCMSRefine TopKRedisInv.
From Coq Require Import ZArith Lia ZifyN ZifyNat ZifyBool Permutation Sorted.
Open Scope N_scope.

(* ---------- the member order is a strict total order ---------- *)
Lemma bytes_cmp_eq a : forall b, bytes_cmp a b = Eq -> a = b.
Proof.
  induction a as [|x a IH]; intros [|y b] H; cbn [bytes_cmp] in H; try discriminate; [reflexivity|].
  destruct (x ?= y) eqn:E; try discriminate. apply N.compare_eq in E. subst y. f_equal. apply IH. exact H.
Qed.

Lemma bytes_cmp_lt_trans a : forall b c, bytes_cmp a b = Lt -> bytes_cmp b c = Lt -> bytes_cmp a c = Lt.
Proof.
  induction a as [|x a IH]; intros [|y b] [|z c] H1 H2; cbn [bytes_cmp] in *; try discriminate; try reflexivity.
  destruct (x ?= y) eqn:E1; try discriminate; destruct (y ?= z) eqn:E2; try discriminate.
  - apply N.compare_eq in E1, E2. subst. rewrite N.compare_refl. eapply IH; eassumption.
  - apply N.compare_eq in E1. subst. rewrite E2. reflexivity.
  - apply N.compare_eq in E2. subst. rewrite E1. reflexivity.
  - rewrite N.compare_lt_iff in E1, E2. assert (E : x < z) by lia. apply N.compare_lt_iff in E. rewrite E. reflexivity.
Qed.

Definition zlt (a b : bytes * N) : Prop := z_before a b = true.

Lemma zlt_trans a b c : zlt a b -> zlt b c -> zlt a c.
Proof.
  unfold zlt, z_before, bytes_ltb. intros H1 H2.
  destruct (snd a =? snd b) eqn:E1; destruct (snd b =? snd c) eqn:E2.
  - replace (snd a =? snd c) with true by lia.
    destruct (bytes_cmp (fst a) (fst b)) eqn:C1; try discriminate.
    destruct (bytes_cmp (fst b) (fst c)) eqn:C2; try discriminate.
    rewrite (bytes_cmp_lt_trans _ _ _ C1 C2). reflexivity.
  - replace (snd a =? snd c) with false by lia. lia.
  - replace (snd a =? snd c) with false by lia. lia.
  - replace (snd a =? snd c) with false by lia. lia.
Qed.

Lemma zlt_total a b : fst a <> fst b -> z_before a b = false -> zlt b a.
Proof.
  unfold zlt, z_before, bytes_ltb. intros Hne H.
  destruct (snd a =? snd b) eqn:E.
  - replace (snd b =? snd a) with true by lia. rewrite (bytes_cmp_antisym (fst a) (fst b)).
    destruct (bytes_cmp (fst a) (fst b)) eqn:C; try discriminate; [|reflexivity].
    apply bytes_cmp_eq in C. contradiction.
  - replace (snd b =? snd a) with false by lia. lia.
Qed.

(* ---------- strictly ordered sorted sets ---------- *)
Definition zstrict (z : list (bytes * N)) : Prop := StronglySorted zlt z.

Lemma z_insert_in e z x : In x (z_insert e z) -> x = e \/ In x z.
Proof.
  induction z as [|y t IH]; cbn [z_insert]; [intros [<-|[]]; left; reflexivity|].
  destruct (z_before y e).
  - intros [<-|H]; [right; left; reflexivity|]. destruct (IH H) as [->|H']; [left; reflexivity|right; right; exact H'].
  - intros [<-|H]; [left; reflexivity|right; exact H].
Qed.

Lemma z_insert_strict e z : zstrict z -> ~ In (fst e) (names z) -> zstrict (z_insert e z).
Proof.
  induction 1 as [|y t Hs IH Hall]; intros Hnot; cbn [z_insert]; [repeat constructor|].
  cbn [names map] in Hnot.
  assert (Hne : fst y <> fst e) by (intros E; apply Hnot; left; exact E).
  assert (Hnot' : ~ In (fst e) (names t)) by (intros H; apply Hnot; right; exact H).
  destruct (z_before y e) eqn:Eb.
  - constructor; [apply IH; exact Hnot'|]. apply Forall_forall. intros x Hx.
    destruct (z_insert_in _ _ _ Hx) as [->|Hx']; [exact Eb|]. rewrite Forall_forall in Hall. apply Hall. exact Hx'.
  - pose proof (zlt_total y e Hne Eb) as Hey.
    constructor; [constructor; assumption|]. constructor; [exact Hey|].
    apply Forall_forall. intros x Hx. rewrite Forall_forall in Hall. eapply zlt_trans; [exact Hey|apply Hall; exact Hx].
Qed.

Lemma z_remove_strict m z : zstrict z -> zstrict (z_remove m z).
Proof.
  induction 1 as [|y t Hs IH Hall]; cbn [z_remove]; [constructor|].
  destruct (bytes_eqb (fst y) m); [exact Hs|]. constructor; [exact IH|].
  apply Forall_forall. intros x Hx. rewrite Forall_forall in Hall. apply Hall. exact (z_remove_incl m t x Hx).
Qed.

Lemma zstrict_tl z : zstrict z -> zstrict (tl z).
Proof. destruct 1; [constructor|assumption]. Qed.

Lemma names_z_remove_not m z : NoDup (names z) -> ~ In m (names (z_remove m z)).
Proof.
  intros Hnd. destruct (z_remove_spec m z Hnd) as [[Hn Heq]|(sc & _ & Hn)]; [rewrite Heq; exact Hn|exact Hn].
Qed.

(* every step Insert takes on the sorted set keeps it strictly ordered *)
Theorem zstep_strict k z x f : zstrict z -> NoDup (names z) -> zstrict (zstep k z x f).
Proof.
  intros Hs Hnd. unfold zstep. destruct (_ || _); [|exact Hs].
  assert (H3 : zstrict (z_insert (x, f) (z_remove x z))).
  { apply z_insert_strict; [apply z_remove_strict; exact Hs|]. cbn [fst]. apply names_z_remove_not. exact Hnd. }
  destruct (k <? _); [apply zstrict_tl|]; exact H3.
Qed.

(* ---------- rebuilding a sorted set entry by entry ---------- *)
Lemma z_insert_last e z : Forall (fun y => zlt y e) z -> z_insert e z = z ++ [e].
Proof.
  induction 1 as [|y t Hy _ IH]; [reflexivity|]. cbn [z_insert app]. unfold zlt in Hy. rewrite Hy, IH. reflexivity.
Qed.

Definition zadd_all (entries acc : list (bytes * N)) : list (bytes * N) :=
  fold_left (fun a e => z_insert (fst e, snd e) (z_remove (fst e) a)) entries acc.

Lemma zadd_all_rebuilds entries : forall acc,
  zstrict (acc ++ entries) -> NoDup (names (acc ++ entries)) -> zadd_all entries acc = acc ++ entries.
Proof.
  induction entries as [|e t IH]; intros acc Hs Hnd; cbn [zadd_all fold_left]; [rewrite app_nil_r; reflexivity|].
  fold (zadd_all t (z_insert (fst e, snd e) (z_remove (fst e) acc))).
  assert (Hn : ~ In (fst e) (names acc)).
  { unfold names in *. rewrite map_app in Hnd. cbn [map] in Hnd. apply NoDup_remove_2 in Hnd.
    intros H. apply Hnd. apply in_or_app. left. exact H. }
  rewrite z_remove_absent by exact Hn. destruct e as [m sc]. cbn [fst snd] in *.
  assert (Hall : Forall (fun y => zlt y (m, sc)) acc).
  { clear IH Hnd Hn. induction acc as [|y acc IHa]; [constructor|].
    cbn [app] in Hs. inversion Hs as [|? ? Hs' Hy]; subst. constructor.
    - rewrite Forall_forall in Hy. apply Hy. apply in_or_app. right. left. reflexivity.
    - apply IHa. exact Hs'. }
  rewrite (z_insert_last _ _ Hall).
  replace (acc ++ (m, sc) :: t) with ((acc ++ [(m, sc)]) ++ t) in * by (rewrite <- app_assoc; reflexivity).
  apply IH; assumption.
Qed.

(* Import's loop on the store (Model/RedisTopK.rtopk_import_heap): DEL, then one ZADD per exported entry *)

Lemma r_zset_sdel s k : r_zset (sdel s k) k = [].
Proof. unfold r_zset. rewrite sget_sdel_same. reflexivity. Qed.

Lemma import_heap_zset entries : forall s hkey,
  r_zset (fold_left (fun st e => r_zadd st hkey (fst e) (snd e)) entries s) hkey =
  zadd_all entries (r_zset s hkey).
Proof.
  induction entries as [|e t IH]; intros s hkey; cbn [fold_left zadd_all]; [reflexivity|].
  rewrite IH. unfold r_zadd. rewrite r_zset_put. reflexivity.
Qed.

Theorem rtopk_import_heap_roundtrip s hkey entries :
  zstrict entries -> NoDup (names entries) ->
  r_zset (rtopk_import_heap s hkey entries) hkey = entries.
Proof.
  intros Hs Hnd. unfold rtopk_import_heap. rewrite import_heap_zset, r_zset_sdel.
  apply (zadd_all_rebuilds entries []); assumption.
Qed.

Theorem rtopk_import_heap_frame s hkey entries k : k <> hkey ->
  sget (rtopk_import_heap s hkey entries) k = sget s k.
Proof.
  intros Hk. unfold rtopk_import_heap.
  assert (H : forall l st, sget (fold_left (fun st e => r_zadd st hkey (fst e) (snd e)) l st) k = sget st k).
  { induction l as [|e t IH]; intros st; cbn [fold_left]; [reflexivity|]. rewrite IH. apply r_zadd_frame. exact Hk. }
  rewrite H. apply sdel_frame. exact Hk.
Qed.

(* ---------- every reachable sorted set is strictly ordered ---------- *)
Section Reachable.
Variable cpos : N -> N -> bytes -> list N.
Variable rows cols : N.
Hypothesis cpos_len : forall x, length (cpos rows cols x) = N.to_nat rows.
Hypothesis cpos_lt : forall x p, In p (cpos rows cols x) -> p < cols.
Hypothesis rows_pos : 0 < rows.
Hypothesis cols_pos : 0 < cols.

Definition heap_of (s : store) (t : rtopk) : list (bytes * N) := r_zset s (rt_heap t).

Theorem rtopk_insert_keeps_strict s t H x c :
  RTI cpos rows cols s t H -> zstrict (heap_of s t) -> 1 <= rt_k t -> 1 <= c -> total (H ++ [(x, c)]) < B53 ->
  exists t' s', rtopk_insert cpos s t x c = (Ok t', s') /\ RTI cpos rows cols s' t' (H ++ [(x, c)]) /\
                rt_k t' = rt_k t /\ zstrict (heap_of s' t').
Proof.
  intros HI Hs Hk Hc Htot. pose proof HI as (m & HR & Hrep & Hkeys & HZ).
  destruct (rtopk_insert_step cpos rows cols cpos_len cpos_lt rows_pos cols_pos s t m H x c
              HR Hrep Hkeys (zi_nodup _ _ _ _ HZ) Hc Htot) as (t' & s' & Hins & _ & _ & Hk' & Hh' & _ & Hz').
  destruct (rtopk_insert_RTI cpos rows cols cpos_len cpos_lt rows_pos cols_pos s t H x c HI Hk Hc Htot)
    as (t2 & s2 & Hins2 & HI2 & Hk2).
  rewrite Hins in Hins2. injection Hins2 as <- <-.
  exists t', s'. split; [exact Hins|]. split; [exact HI2|]. split; [exact Hk'|].
  unfold heap_of. rewrite Hh', Hz'. apply zstep_strict; [exact Hs|exact (zi_nodup _ _ _ _ HZ)].
Qed.

Theorem rtrun_keeps_strict ins : forall s t H,
  RTI cpos rows cols s t H -> zstrict (heap_of s t) -> 1 <= rt_k t ->
  Forall (fun e => 1 <= snd e) ins -> total (H ++ ins) < B53 ->
  exists t' s', rtrun cpos s t ins = (Ok t', s') /\ RTI cpos rows cols s' t' (H ++ ins) /\
                zstrict (heap_of s' t') /\ NoDup (names (heap_of s' t')).
Proof.
  induction ins as [|[x c] rest IH]; intros s t H HI Hs Hk Hpos Htot; cbn [rtrun].
  - exists t, s. rewrite app_nil_r. split; [reflexivity|]. split; [exact HI|]. split; [exact Hs|].
    destruct HI as (m & _ & _ & _ & HZ). exact (zi_nodup _ _ _ _ HZ).
  - inversion Hpos as [|? ? Hc Hrest]; subst. cbn [snd] in Hc.
    assert (Ht1 : total (H ++ [(x, c)]) < B53).
    { replace (H ++ (x, c) :: rest) with ((H ++ [(x, c)]) ++ rest) in Htot by (rewrite <- app_assoc; reflexivity).
      pose proof (total_prefix (H ++ [(x, c)]) rest). lia. }
    destruct (rtopk_insert_keeps_strict s t H x c HI Hs Hk Hc Ht1) as (t1 & s1 & -> & HI1 & Hk1 & Hs1).
    destruct (IH s1 t1 (H ++ [(x, c)]) HI1 Hs1 ltac:(lia) Hrest ltac:(rewrite <- app_assoc; exact Htot))
      as (t' & s' & Hrun & HI' & Hs' & Hnd').
    exists t', s'. rewrite <- app_assoc in HI'. auto.
Qed.

(* Export reads the sorted set; importing it under any heap key rebuilds exactly that sorted set *)
Theorem redis_topk_heap_roundtrip s t H ins s2 hkey' :
  RTI cpos rows cols s t H -> zstrict (heap_of s t) -> 1 <= rt_k t ->
  Forall (fun e => 1 <= snd e) ins -> total (H ++ ins) < B53 ->
  exists t' s', rtrun cpos s t ins = (Ok t', s') /\
    r_zset (rtopk_import_heap s2 hkey' (heap_of s' t')) hkey' = heap_of s' t'.
Proof.
  intros HI Hs Hk Hpos Htot.
  destruct (rtrun_keeps_strict ins s t H HI Hs Hk Hpos Htot) as (t' & s' & Hrun & _ & Hs' & Hnd').
  exists t', s'. split; [exact Hrun|]. apply rtopk_import_heap_roundtrip; assumption.
Qed.
End Reachable.

Lemma zstrict_nil : zstrict [].
Proof. constructor. Qed.
