(* RedisHLLRefine.v — the Redis-backed HyperLogLog REFINES the in-memory one on its registers
   (C08, and through it C06 for the Redis variant): if the Redis list holds the decimal strings of
   the in-memory registers, Update (LINDEX / tonumber / LSET script) and Merge (register-wise
   maximum, DEL + RPUSH) lead to the list that represents the updated / merged registers; an
   out-of-range register index is a panic in memory and a script error in Redis. *)
From GX.Model Require Import Base HLL Redis RedisCMS RedisHLL.
From GX.Proofs Require Import ListLemmas RedisProofs HLLProofs RedisCMSRefine.
From Coq Require Import ZArith Lia ZifyN ZifyNat ZifyBool.
Open Scope N_scope.

Definition hrefines (s : store) (h : rhll) (mh : hll) : Prop :=
  rh_m h = h_m mh /\ rh_p h = h_p mh /\ hwf mh /\ r_list s (rh_key h) = map dec (h_regs mh).

Lemma small_B53 v : v < 256 -> v < B53.
Proof. unfold B53. intros H. assert (256 < 2 ^ 53) by (vm_compute; reflexivity). lia. Qed.

Lemma undec_dec' n : undec (dec n) = Some n.
Proof. apply undec_dec. Qed.

Section Upd.
Variable hic : N -> bytes -> N * N.

(* Update, for register indices below 256 (the code's index is at most 65) *)
Theorem hll_update_refines s h mh x :
  hrefines s h mh -> fst (hic (h_p mh) x) < 256 ->
  match hll_update hic mh x with
  | Ok mh' => exists s', rhll_update hic s h x = (Ok tt, s') /\ hrefines s' h mh'
  | Panic _ => rhll_update hic s h x = (Err E_GENERIC, s)       (* index past the registers *)
  | Err _ => False
  end.
Proof.
  intros (Hm & Hp & (Hlen & Hsmall) & Hlist) Hidx.
  unfold hll_update, rhll_update. rewrite Hp.
  set (ic := hic (h_p mh) x) in *.
  rewrite (wrap8_small (fst ic) Hidx).
  unfold r_lindex. rewrite Hlist, nthN_map.
  destruct (nth_error (h_regs mh) (N.to_nat (fst ic))) as [old|] eqn:En.
  - assert (Hi : (N.to_nat (fst ic) < length (h_regs mh))%nat) by (apply nth_error_Some; congruence).
    assert (Hold : old < 256).
    { rewrite Forall_forall in Hsmall. apply Hsmall. eapply nth_error_In; eauto. }
    unfold nthN. replace (fst ic <? N.of_nat (length (h_regs mh))) with true by lia.
    rewrite En. cbn [option_map]. rewrite (lua_tonum_dec old (small_B53 old Hold)).
    set (v := wrap8 (snd ic)). assert (Hv : v < 256) by apply wrap8_lt.
    unfold r_lset. rewrite Hlist, map_length.
    replace (fst ic <? N.of_nat (length (h_regs mh))) with true by lia.
    eexists. split; [reflexivity|].
    split; [exact Hm|]. split; [exact Hp|]. cbn [h_m h_p h_regs]. split.
    + unfold hwf. cbn [h_regs h_m]. split; [unfold setnth; rewrite upd_length; exact Hlen|].
      unfold setnth. apply Forall_upd; [exact Hsmall|]. intros y _. apply wrap8_lt.
    + unfold r_list, r_putlist.
      assert (Hnv : (if old <? v then dec v else dec old) = dec (wrap8 (N.max old v))).
      { rewrite wrap8_small by (destruct (N.max_spec old v) as [[_ ->]|[_ ->]]; assumption).
        destruct (N.ltb_spec old v); f_equal; lia. }
      rewrite Hnv, setnth_map.
      destruct (map dec (setnth (h_regs mh) (N.to_nat (fst ic)) (wrap8 (N.max old v)))) eqn:Em.
      * exfalso. apply (f_equal (@length _)) in Em. rewrite map_length in Em. unfold setnth in Em.
        rewrite upd_length in Em. simpl in Em. lia.
      * rewrite sget_sset_same. reflexivity.
  - apply nth_error_None in En. unfold nthN.
    replace (fst ic <? N.of_nat (length (h_regs mh))) with false by lia. reflexivity.
Qed.
End Upd.

(* register-wise maximum of two decimal lists *)
Lemma merge_vals_refines : forall n la lb,
  length la = n -> length lb = n ->
  Forall (fun r => r < 256) la -> Forall (fun r => r < 256) lb ->
  merge_vals n (map dec la) (map dec lb) =
    Some (map dec (map (fun p => wrap8 (N.max (fst p) (snd p))) (combine la lb))).
Proof.
  induction n as [|n IH]; intros la lb Hla Hlb Ha Hb.
  - destruct la; [|discriminate]. destruct lb; [|discriminate]. reflexivity.
  - destruct la as [|x la]; [discriminate|]. destruct lb as [|y lb]; [discriminate|].
    inversion Ha as [|? ? Hx Ha']; subst. inversion Hb as [|? ? Hy Hb']; subst.
    cbn [map merge_vals combine fst snd]. rewrite !undec_dec'.
    rewrite (IH la lb ltac:(simpl in Hla; lia) ltac:(simpl in Hlb; lia) Ha' Hb').
    f_equal. f_equal.
    rewrite wrap8_small by (destruct (N.max_spec x y) as [[_ ->]|[_ ->]]; assumption).
    destruct (N.ltb_spec x y); f_equal; lia.
Qed.

Theorem hll_merge_refines s a b ma mb :
  hrefines s a ma -> hrefines s b mb -> rh_key a <> rh_key b -> h_m ma = h_m mb ->
  exists s' m, hll_merge ma mb = Ok m /\ rhll_merge s a b = (Ok tt, s') /\
               hrefines s' a m /\ hrefines s' b mb.
Proof.
  intros (Hma & Hpa & (Hla & Hsa) & Hlista) (Hmb & Hpb & (Hlb & Hsb) & Hlistb) Hk Hmm.
  assert (Hlen : length (h_regs ma) = length (h_regs mb)) by lia.
  unfold hll_merge, rhll_merge. rewrite Hma, Hmb, Hmm, N.eqb_refl. cbn [negb].
  replace (length (h_regs ma) <? length (h_regs mb))%nat with false by (symmetry; apply Nat.ltb_ge; lia).
  rewrite Hlista, Hlistb.
  rewrite (merge_vals_refines (N.to_nat (h_m mb)) (h_regs ma) (h_regs mb) ltac:(lia) ltac:(lia) Hsa Hsb).
  eexists. eexists. split; [reflexivity|]. split; [reflexivity|].
  assert (Hskip : skipn (length (h_regs mb)) (h_regs ma) = []) by (apply skipn_all2; lia).
  rewrite Hskip, app_nil_r.
  set (merged := map (fun p => wrap8 (N.max (fst p) (snd p))) (combine (h_regs ma) (h_regs mb))).
  assert (Hml : length merged = N.to_nat (h_m ma)) by (unfold merged; rewrite map_length, combine_length; lia).
  split.
  - split; [cbn [h_m]; congruence|]. split; [exact Hpa|]. cbn [h_m h_p h_regs]. split.
    + unfold hwf. cbn [h_regs h_m]. split; [rewrite Hml; congruence|]. unfold merged. apply Forall_forall. intros v Hv.
      apply in_map_iff in Hv. destruct Hv as (p & <- & _). apply wrap8_lt.
    + unfold r_rpush.
      assert (He : r_list (sdel s (rh_key a)) (rh_key a) = []) by (unfold r_list; rewrite sget_sdel_same; reflexivity).
      rewrite He. cbn [app]. unfold r_list, r_putlist.
      destruct (map dec merged) eqn:Em.
      * (* m = 0: both lists are empty *)
        rewrite sget_sdel_same. reflexivity.
      * rewrite sget_sset_same. reflexivity.
  - split; [exact Hmb|]. split; [exact Hpb|]. split; [split; assumption|].
    unfold r_list. rewrite r_rpush_frame by (intros E; exact (Hk (eq_sym E))).
    rewrite sdel_frame by (intros E; exact (Hk (eq_sym E))). exact Hlistb.
Qed.

(* ---------- Equals (C17 for the Redis variant) ---------- *)
Lemma cmp_regs_dec n : forall la lb, length la = n -> length lb = n ->
  cmp_regs n (map dec la) (map dec lb) = listN_eqb la lb.
Proof.
  induction n as [|n IH]; intros la lb Ha Hb.
  - destruct la; [|discriminate]. destruct lb; [|discriminate]. reflexivity.
  - destruct la as [|x la]; [discriminate|]. destruct lb as [|y lb]; [discriminate|].
    cbn [map cmp_regs listN_eqb]. rewrite !undec_dec'. rewrite (IH la lb) by (simpl in *; lia). reflexivity.
Qed.

(* the Redis compare script answers true exactly when the represented registers are equal *)
Theorem hll_equals_refines s a b ma mb :
  hrefines s a ma -> hrefines s b mb -> h_m ma = h_m mb ->
  (rhll_equals s a b = true <-> h_regs ma = h_regs mb).
Proof.
  intros (Hma & _ & (Hla & _) & Hlista) (Hmb & _ & (Hlb & _) & Hlistb) Hmm.
  unfold rhll_equals. rewrite Hma, Hmb, Hmm, N.eqb_refl. cbn [negb]. rewrite Hlista, Hlistb.
  rewrite cmp_regs_dec by lia. apply listN_eqb_eq.
Qed.

(* ---------- C05 totality for the Redis variant: with the code's index/rank function every Update
   of a sketch with at least 128 registers succeeds (the script finds its register) ---------- *)
Theorem rhll_update_total hash s h mh x :
  hrefines s h mh -> 128 <= h_m mh ->
  exists s' mh', rhll_update (hic_of hash) s h x = (Ok tt, s') /\
                 hll_update (hic_of hash) mh x = Ok mh' /\ hrefines s' h mh'.
Proof.
  intros HR Hm. pose proof HR as (_ & _ & Hwf & _).
  destruct (code_update_total hash mh x Hwf Hm) as (mh' & Hu).
  assert (Hidx : fst (hic_of hash (h_p mh) x) < 256).
  { unfold hic_of. pose proof (index_le_65 (h_p mh) (hash x)). lia. }
  pose proof (hll_update_refines (hic_of hash) s h mh x HR Hidx) as Hr. rewrite Hu in Hr.
  destruct Hr as (s' & Hs' & HR'). exists s', mh'. auto.
Qed.

(* ---------- Count: both variants start from the same harmonic sum ---------- *)
Lemma regs_num_dec n : forall l, length l = n -> regs_num n (map dec l) = Some l.
Proof.
  induction n as [|n IH]; intros l Hl.
  - destruct l; [reflexivity|discriminate].
  - destruct l as [|x l]; [discriminate|]. cbn [map regs_num]. rewrite undec_dec', (IH l) by (simpl in Hl; lia). reflexivity.
Qed.

Theorem hll_hsum_refines s h mh : hrefines s h mh -> rhll_hmean_num s h = Some (hll_hsum_num mh).
Proof.
  intros (Hm & _ & (Hl & Hsmall) & Hlist). unfold rhll_hmean_num, rhll_regs. rewrite Hlist, Hm.
  rewrite regs_num_dec by exact Hl. unfold hll_hsum_num. f_equal. f_equal.
  apply map_ext_in. intros r Hr. rewrite Forall_forall in Hsmall. specialize (Hsmall r Hr).
  rewrite N.min_l by lia. reflexivity.
Qed.
