(* RedisEqualsProofs.v — C17 for the Redis-backed cuckoo filter: when the Lua bucket comparison
   answers true for two bucket lists no longer than bucketSize, the lists are identical; so a
   true Equals means equal parameters, equal Length and identical bucket contents. *)
From GX.Model Require Import Base Redis RedisCMS Cuckoo RedisCuckoo.
From GX.Proofs Require Import ListLemmas RedisProofs.
From Coq Require Import ZArith Lia ZifyN ZifyNat ZifyBool.
Open Scope N_scope.

Lemma nth_error_ext_eq {A} : forall (l1 l2 : list A), (forall n, nth_error l1 n = nth_error l2 n) -> l1 = l2.
Proof.
  induction l1 as [|a l1 IH]; intros [|b l2] H; auto.
  - specialize (H 0%nat). discriminate.
  - specialize (H 0%nat). discriminate.
  - pose proof (H 0%nat) as H0. simpl in H0. injection H0 as ->. f_equal. apply IH. intros n. exact (H (S n)).
Qed.

Theorem rbk_equals_sound s bk1 bk2 size :
  (length (r_list s bk1) <= N.to_nat size)%nat -> (length (r_list s bk2) <= N.to_nat size)%nat ->
  rbk_equals s bk1 bk2 size = true -> r_list s bk1 = r_list s bk2.
Proof.
  intros H1 H2 He. unfold rbk_equals in He. rewrite forallb_forall in He.
  apply nth_error_ext_eq. intros n.
  destruct (Nat.lt_ge_cases n (N.to_nat size)) as [Hlt|Hge].
  - specialize (He (N.of_nat n) ltac:(apply In_nseq; lia)). unfold nthN in He. rewrite !Nat2N.id in He.
    destruct (N.of_nat n <? N.of_nat (length (r_list s bk1))) eqn:E1;
    destruct (N.of_nat n <? N.of_nat (length (r_list s bk2))) eqn:E2.
    + destruct (nth_error (r_list s bk1) n) as [a|] eqn:Ea, (nth_error (r_list s bk2) n) as [b|] eqn:Eb; try discriminate; auto.
      apply bytes_eqb_eq in He. congruence.
    + destruct (nth_error (r_list s bk1) n) as [a|] eqn:Ea; [discriminate|].
      apply nth_error_None in Ea. lia.
    + destruct (nth_error (r_list s bk2) n) as [b|] eqn:Eb; [discriminate|].
      apply nth_error_None in Eb. lia.
    + assert (A : nth_error (r_list s bk1) n = None) by (apply nth_error_None; lia).
      assert (B : nth_error (r_list s bk2) n = None) by (apply nth_error_None; lia). congruence.
  - assert (A : nth_error (r_list s bk1) n = None) by (apply nth_error_None; lia).
    assert (B : nth_error (r_list s bk2) n = None) by (apply nth_error_None; lia). congruence.
Qed.

(* Equals true: same parameters, same Length, and (lists within capacity) identical buckets *)
Theorem rck_equals_sound s a b :
  (forall i, i < rq_size a -> (length (r_list s (bucket_key (rq_key a) i)) <= N.to_nat (rq_bsize a))%nat /\
                              (length (r_list s (bucket_key (rq_key b) i)) <= N.to_nat (rq_bsize a))%nat) ->
  rck_equals s a b = true ->
  rq_size a = rq_size b /\ rq_bsize a = rq_bsize b /\ rq_fpl a = rq_fpl b /\ rq_retries a = rq_retries b /\
  rck_length s a = rck_length s b /\
  forall i, i < rq_size a -> r_list s (bucket_key (rq_key a) i) = r_list s (bucket_key (rq_key b) i).
Proof.
  intros Hlen He. unfold rck_equals in He.
  repeat (apply andb_prop in He; destruct He as [He ?]).
  apply N.eqb_eq in He. repeat match goal with H : (_ =? _) = true |- _ => apply N.eqb_eq in H end.
  repeat split; auto.
  intros i Hi. match goal with H : forallb _ _ = true |- _ => rewrite forallb_forall in H; specialize (H i ltac:(apply In_nseq; exact Hi)) end.
  destruct (Hlen i Hi) as [La Lb]. symmetry.
  assert (Hbs : rq_bsize b = rq_bsize a) by congruence.
  apply (rbk_equals_sound s (bucket_key (rq_key b) i) (bucket_key (rq_key a) i) (rq_bsize b));
    [rewrite Hbs; exact Lb|rewrite Hbs; exact La|assumption].
Qed.
