(* EqualsProofs.v — Equals agrees with the state: soundness, reflexivity, symmetry, totality. *)
From GX.Model Require Import Base CMS Bloom HLL Cuckoo Heap TopK Codec Persist.
From GX.Proofs Require Import ListLemmas CodecProofs.
From Coq Require Import Lia ZifyN ZifyNat ZifyBool.

Lemma listN_eqb_eq a b : listN_eqb a b = true <-> a = b.
Proof.
  revert b; induction a as [|x a IH]; destruct b as [|y b]; simpl; split; try congruence; auto.
  - rewrite andb_true_iff, N.eqb_eq, IH. intros [-> ->]; reflexivity.
  - intros [= -> ->]. rewrite N.eqb_refl. simpl. now apply IH.
Qed.

Lemma bits_eqb_eq a b : bits_eqb a b = true <-> a = b.
Proof.
  revert b; induction a as [|x a IH]; destruct b as [|y b]; simpl; split; try congruence; auto.
  - rewrite andb_true_iff, IH. intros [H ->]. apply eqb_prop in H. now subst.
  - intros [= -> ->]. rewrite eqb_reflx. simpl. now apply IH.
Qed.

(* ---------- Bloom ---------- *)
Theorem bloom_equals_sound a b : bloom_equals a b = true ->
  b_size a = b_size b /\ b_k a = b_k b /\ b_bits a = b_bits b.
Proof.
  unfold bloom_equals. destruct (b_size a =? b_size b) eqn:E1; cbn [negb orb]; [|discriminate].
  destruct (b_k a =? b_k b) eqn:E2; cbn [negb]; [|discriminate].
  intros H. apply bits_eqb_eq in H. apply N.eqb_eq in E1, E2. auto.
Qed.
Theorem bloom_equals_refl a : bloom_equals a a = true.
Proof. unfold bloom_equals. rewrite !N.eqb_refl. cbn. now apply bits_eqb_eq. Qed.
Theorem bloom_equals_sym a b : bloom_equals a b = bloom_equals b a.
Proof.
  unfold bloom_equals. rewrite (N.eqb_sym (b_size a)), (N.eqb_sym (b_k a)).
  destruct (negb (b_size b =? b_size a) || negb (b_k b =? b_k a)); auto.
  destruct (bits_eqb (b_bits a) (b_bits b)) eqn:E.
  - apply bits_eqb_eq in E. rewrite E. symmetry. now apply bits_eqb_eq.
  - destruct (bits_eqb (b_bits b) (b_bits a)) eqn:E2; auto. apply bits_eqb_eq in E2.
    rewrite E2 in E. assert (bits_eqb (b_bits a) (b_bits a) = true) by now apply bits_eqb_eq. congruence.
Qed.
(* equal bits, size and k give equal answers to every query (same probe function) *)
Theorem bloom_equals_queries bpos a b x : bloom_equals a b = true ->
  bloom_lookup bpos a x = bloom_lookup bpos b x.
Proof.
  intros H. destruct (bloom_equals_sound a b H) as (Hs & Hk & Hb).
  unfold bloom_lookup, bloom_positions. now rewrite Hs, Hk, Hb.
Qed.

(* ---------- Count-Min ---------- *)
Lemma row_eq_sound a b : row_eq_panic a b = Ok true -> length a = length b -> a = b.
Proof.
  revert b; induction a as [|x a IH]; destruct b as [|y b]; cbn [row_eq_panic length]; try discriminate; auto.
  destruct (x =? y) eqn:E; [|discriminate]. apply N.eqb_eq in E. intros H [= Hl]. f_equal; auto.
Qed.
Lemma matrix_eq_sound a b : matrix_eq_panic a b = Ok true -> length a = length b ->
  Forall2 (fun x y => length x = length y) a b -> a = b.
Proof.
  revert b; induction a as [|x a IH]; destruct b as [|y b]; cbn [matrix_eq_panic length]; try discriminate; auto.
  destruct (row_eq_panic x y) as [[|]|t|t] eqn:E; cbn [obind]; try discriminate.
  intros H [= Hl] HF. inversion HF; subst. f_equal; auto. now apply row_eq_sound.
Qed.
Lemma row_eq_refl a : row_eq_panic a a = Ok true.
Proof. induction a as [|x a IH]; cbn; auto. now rewrite N.eqb_refl. Qed.
Lemma matrix_eq_refl a : matrix_eq_panic a a = Ok true.
Proof. induction a as [|x a IH]; cbn; auto. rewrite row_eq_refl. cbn. exact IH. Qed.

Theorem cms_equals_refl a : cms_equals_o a a = Ok true.
Proof. unfold cms_equals_o. rewrite !N.eqb_refl. cbn. apply matrix_eq_refl. Qed.

Theorem cms_equals_sound a b : cms_wf a -> cms_wf b -> cms_equals_o a b = Ok true ->
  c_rows a = c_rows b /\ c_cols a = c_cols b /\ c_matrix a = c_matrix b.
Proof.
  intros (_ & _ & _ & Hla & Hra) (_ & _ & _ & Hlb & Hrb). unfold cms_equals_o.
  destruct (c_rows a =? c_rows b) eqn:E1; cbn [negb orb]; [|discriminate].
  destruct (c_cols a =? c_cols b) eqn:E2; cbn [negb]; [|discriminate].
  apply N.eqb_eq in E1, E2. intros H. split; [auto|split; [auto|]].
  apply matrix_eq_sound; auto; [lia|].
  assert (Hlen : length (c_matrix a) = length (c_matrix b)) by lia.
  revert Hra Hrb Hlen. generalize (c_matrix b) as mb. generalize (c_matrix a) as ma.
  induction ma as [|x ma IH]; destruct mb as [|y mb]; cbn [length]; intros; try discriminate; constructor.
  - inversion Hra; inversion Hrb; subst. lia.
  - inversion Hra; inversion Hrb; subst. apply IH; auto.
Qed.

(* never panics on well-formed sketches, whatever their dimensions *)
Lemma row_eq_total a b : length a = length b -> exists r, row_eq_panic a b = Ok r.
Proof.
  revert b; induction a as [|x a IH]; destruct b as [|y b]; cbn [row_eq_panic length]; try discriminate; eauto.
  intros [= Hl]. destruct (x =? y); eauto.
Qed.
Lemma matrix_eq_total a b : length a = length b -> Forall2 (fun x y => length x = length y) a b ->
  exists r, matrix_eq_panic a b = Ok r.
Proof.
  revert b; induction a as [|x a IH]; destruct b as [|y b]; cbn [matrix_eq_panic length]; try discriminate; eauto.
  intros [= Hl] HF. inversion HF; subst. destruct (row_eq_total x y) as (r & ->); auto. cbn [obind].
  destruct r; eauto.
Qed.
Theorem cms_equals_total a b : cms_wf a -> cms_wf b -> exists r, cms_equals_o a b = Ok r.
Proof.
  intros (_ & _ & _ & Hla & Hra) (_ & _ & _ & Hlb & Hrb). unfold cms_equals_o.
  destruct (c_rows a =? c_rows b) eqn:E1; cbn [negb orb]; [|eauto].
  destruct (c_cols a =? c_cols b) eqn:E2; cbn [negb]; [|eauto].
  apply N.eqb_eq in E1, E2. apply matrix_eq_total; [lia|].
  assert (Hlen : length (c_matrix a) = length (c_matrix b)) by lia.
  revert Hra Hrb Hlen. generalize (c_matrix b) as mb. generalize (c_matrix a) as ma.
  induction ma as [|x ma IH]; destruct mb as [|y mb]; cbn [length]; intros; try discriminate; constructor.
  - inversion Hra; inversion Hrb; subst. lia.
  - inversion Hra; inversion Hrb; subst. apply IH; auto.
Qed.

(* ---------- HyperLogLog ---------- *)
Theorem hll_equals_sound a b : hll_cwf a -> hll_cwf b -> hll_equals a b = Ok true ->
  h_m a = h_m b /\ h_regs a = h_regs b.
Proof.
  intros (_ & _ & _ & Hla) (_ & _ & _ & Hlb). unfold hll_equals.
  destruct (h_m a =? h_m b) eqn:E; cbn [negb]; [|discriminate]. apply N.eqb_eq in E.
  rewrite Hla, Hlb, <- E, Nat.ltb_irrefl. cbn [orb].
  rewrite <- Hla at 1. rewrite firstn_all. rewrite E, <- Hlb, firstn_all.
  intros [= H]. apply listN_eqb_eq in H. auto.
Qed.
Theorem hll_equals_refl a : hll_cwf a -> hll_equals a a = Ok true.
Proof.
  intros (_ & _ & _ & Hl). unfold hll_equals. rewrite N.eqb_refl. cbn [negb].
  rewrite Hl, Nat.ltb_irrefl. cbn [orb]. f_equal. now apply listN_eqb_eq.
Qed.
Theorem hll_equals_total a b : hll_cwf a -> hll_cwf b -> exists r, hll_equals a b = Ok r.
Proof.
  intros (_ & _ & _ & Hla) (_ & _ & _ & Hlb). unfold hll_equals.
  destruct (h_m a =? h_m b) eqn:E; cbn [negb]; [|eauto]. apply N.eqb_eq in E.
  rewrite Hla, Hlb, <- E, Nat.ltb_irrefl. cbn [orb]. eauto.
Qed.

(* ---------- Cuckoo ---------- *)
Lemma slots_eqb_refl a : slots_eqb a a = Ok true.
Proof. induction a as [|x a IH]; cbn; auto. now rewrite bytes_eqb_refl. Qed.
Lemma bk_equals_refl b : bk_equals b b = Ok true.
Proof. unfold bk_equals. rewrite !N.eqb_refl. cbn. apply slots_eqb_refl. Qed.
Lemma buckets_eqb_refl a : buckets_eqb a a = Ok true.
Proof. induction a as [|x a IH]; cbn; auto. rewrite bk_equals_refl. cbn. exact IH. Qed.
Theorem ck_equals_refl f : ck_equals f f = Ok true.
Proof. unfold ck_equals. rewrite !N.eqb_refl, Nat.eqb_refl. cbn. apply buckets_eqb_refl. Qed.

Lemma slots_eqb_sound a b : slots_eqb a b = Ok true -> length a = length b -> a = b.
Proof.
  revert b; induction a as [|x a IH]; destruct b as [|y b]; cbn [slots_eqb length]; try discriminate; auto.
  destruct (bytes_eqb x y) eqn:E; [|discriminate]. apply bytes_eqb_eq in E. intros H [= Hl]. f_equal; auto.
Qed.
Lemma buckets_eqb_sound a b : buckets_eqb a b = Ok true -> length a = length b ->
  Forall2 (fun x y => length (k_slots x) = N.to_nat (k_size x) /\ length (k_slots y) = N.to_nat (k_size y)) a b ->
  a = b.
Proof.
  revert b; induction a as [|x a IH]; destruct b as [|y b]; cbn [buckets_eqb length]; try discriminate; auto.
  destruct (bk_equals y x) as [[|]|t|t] eqn:E; cbn [obind]; try discriminate.
  intros H [= Hl] HF. inversion HF as [|? ? ? ? [Hx Hy] HF']; subst. f_equal; auto.
  unfold bk_equals in E.
  destruct (k_size y =? k_size x) eqn:E1; cbn [negb orb] in E; [|discriminate].
  destruct (k_len y =? k_len x) eqn:E2; cbn [negb] in E; [|discriminate].
  apply N.eqb_eq in E1, E2. apply slots_eqb_sound in E; [|lia].
  destruct x, y; cbn in *; subst; reflexivity.
Qed.
Theorem ck_equals_sound a b : cuckoo_cwf a -> cuckoo_cwf b -> ck_equals a b = Ok true -> a = b.
Proof.
  intros (_ & _ & _ & _ & _ & Hla & Hba) (_ & _ & _ & _ & _ & Hlb & Hbb). unfold ck_equals.
  destruct (q_size a =? q_size b) eqn:E1; cbn [negb orb]; [|discriminate].
  destruct (q_bsize a =? q_bsize b) eqn:E2; cbn [negb orb]; [|discriminate].
  destruct (q_fpl a =? q_fpl b) eqn:E3; cbn [negb orb]; [|discriminate].
  destruct (q_retries a =? q_retries b) eqn:E4; cbn [negb orb]; [|discriminate].
  destruct (q_len a =? q_len b) eqn:E5; cbn [negb orb]; [|discriminate].
  destruct (Nat.eqb (length (q_buckets a)) (length (q_buckets b))) eqn:E6; cbn [negb]; [|discriminate].
  apply N.eqb_eq in E1, E2, E3, E4, E5. apply Nat.eqb_eq in E6. intros H.
  assert (q_buckets a = q_buckets b).
  { apply buckets_eqb_sound; auto.
    revert Hba Hbb E6. generalize (q_buckets b) as lb. generalize (q_buckets a) as la.
    induction la as [|x la IH]; destruct lb as [|y lb]; cbn [length]; intros; try discriminate; constructor.
    - inversion Hba as [|? ? (_ & _ & Hx & _) ?]; inversion Hbb as [|? ? (_ & _ & Hy & _) ?]; subst. auto.
    - inversion Hba; inversion Hbb; subst. apply IH; auto. }
  destruct a, b; cbn in *; subst; reflexivity.
Qed.

(* ---------- Top-K ---------- *)
Lemma heap_eqb_eq a b : heap_eqb a b = true <-> a = b.
Proof.
  revert b; induction a as [|[x f] a IH]; destruct b as [|[y g] b]; cbn [heap_eqb fst snd]; split; try congruence; auto.
  - rewrite !andb_true_iff, N.eqb_eq, bytes_eqb_eq, IH. intros [[-> ->] ->]; reflexivity.
  - intros [= -> -> ->]. rewrite bytes_eqb_refl, N.eqb_refl. cbn. now apply IH.
Qed.
Theorem topk_equals_refl p t : topk_equals p t p t = Ok true.
Proof.
  unfold topk_equals. rewrite !N.eqb_refl. cbn. rewrite cms_equals_refl. cbn. f_equal. now apply heap_eqb_eq.
Qed.
Theorem topk_equals_sound pa a pb b : cms_wf (t_sketch a) -> cms_wf (t_sketch b) ->
  topk_equals pa a pb b = Ok true ->
  t_k a = t_k b /\ pa = pb /\ c_matrix (t_sketch a) = c_matrix (t_sketch b) /\ t_heap a = t_heap b.
Proof.
  intros Ha Hb. unfold topk_equals.
  destruct (t_k a =? t_k b) eqn:E1; cbn [negb orb]; [|discriminate].
  destruct (tp_acc pa =? tp_acc pb) eqn:E2; cbn [negb orb]; [|discriminate].
  destruct (tp_er pa =? tp_er pb) eqn:E3; cbn [negb]; [|discriminate].
  destruct (cms_equals_o (t_sketch a) (t_sketch b)) as [[|]|t|t] eqn:E4; cbn [obind negb]; try discriminate.
  intros [= H]. apply heap_eqb_eq in H. apply N.eqb_eq in E1, E2, E3.
  destruct (cms_equals_sound _ _ Ha Hb E4) as (_ & _ & Hm).
  repeat split; auto. destruct pa, pb; cbn in *; subst; reflexivity.
Qed.
