(* RedisCuckooInv.v — C13 / C14 for the Redis-backed cuckoo filter, on the Redis model itself
   (bucket lists + "<bucket>_len" counters + the metadata hash; every bucket method one command or
   one Lua script): in every state reached by Insert / Remove of elements with a non-empty
   fingerprint, every bucket counter equals the number of non-empty entries of its list, no list
   is longer than bucketSize, and the filter's Length equals the total number of stored entries;
   Insert that returns raises that total by one, a failed insert leaves it unchanged. *)
From GX.Model Require Import Base Redis RedisCMS Cuckoo RedisCuckoo.
From GX.Proofs Require Import ListLemmas RedisProofs CuckooProofs CuckooInv CuckooLive AttachProofs RedisCMSRefine.
From Coq Require Import ZArith Lia ZifyN ZifyNat ZifyBool.
Open Scope N_scope.

(* signed decimal strings read back exactly *)
Lemma undecZ_not_minus b : (forall t, b <> 45 :: t) ->
  undecZ b = match undec b with Some n => Some (Z.of_N n) | None => None end.
Proof.
  intros H. unfold undecZ. destruct b as [|c t]; [reflexivity|].
  destruct c as [|p]; [reflexivity|].
  do 6 (destruct p as [p|p|]; try reflexivity).
  exfalso. apply (H t). reflexivity.
Qed.

Lemma undecZ_decZ z : undecZ (decZ z) = Some z.
Proof.
  destruct z as [|p|p]; unfold decZ.
  - reflexivity.
  - rewrite undecZ_not_minus.
    + rewrite undec_dec. reflexivity.
    + intros t E. pose proof (dec_digits (Z.to_N (Z.pos p))) as Hd. rewrite E in Hd. inversion Hd; subst. lia.
  - unfold undecZ. rewrite undec_dec. reflexivity.
Qed.

(* ---------- the keys of one filter are pairwise different ---------- *)
Lemma bucket_key_inj key i j : bucket_key key i = bucket_key key j -> i = j.
Proof.
  unfold bucket_key. intros H. apply app_inv_head in H. apply app_inv_head in H. apply app_inv_head in H.
  apply dec_injective. exact H.
Qed.

Lemma bucket_key_not_len key i j : bucket_key key i <> len_key (bucket_key key j).
Proof.
  unfold len_key, bucket_key. rewrite <- !app_assoc. intros H.
  apply app_inv_head in H. apply app_inv_head in H. apply app_inv_head in H.
  pose proof (dec_digits i) as Hd. rewrite H in Hd. rewrite Forall_forall in Hd.
  specialize (Hd 110). assert (In 110 (dec j ++ s_len)) by (apply in_or_app; right; unfold s_len; simpl; auto).
  specialize (Hd H0). lia.
Qed.

Lemma len_key_inj key i j : len_key (bucket_key key i) = len_key (bucket_key key j) -> i = j.
Proof. unfold len_key. intros H. apply app_inv_tail in H. apply bucket_key_inj in H. exact H. Qed.

(* ---------- views ---------- *)
Section Filter.
Variable key meta : bytes.
Variable size bsize : N.
Hypothesis meta_not_bucket : forall i, meta <> bucket_key key i.
Hypothesis meta_not_len : forall i, meta <> len_key (bucket_key key i).
Hypothesis bsize_pos : 1 <= bsize.
Hypothesis bsize_small : bsize < 2 ^ 62.

Notation bk := (bucket_key key).
Definition blist (s : store) (i : N) : list bytes := r_list s (bk i).
Definition bcount (s : store) (i : N) : option Z := bk_len_z s (bk i).
Definition mlen (s : store) : option Z :=
  match r_hget s meta f_length with Some b => undecZ b | None => None end.

(* s' differs from s at most in bucket i (list and counter) *)
Definition only_bucket (i : N) (s s' : store) : Prop :=
  (forall j, j <> i -> blist s' j = blist s j /\ bcount s' j = bcount s j) /\ mlen s' = mlen s.

Lemma sget_view_list s s' j : sget s' (bk j) = sget s (bk j) -> blist s' j = blist s j.
Proof. intros H. unfold blist, r_list. rewrite H. reflexivity. Qed.
Lemma sget_view_count s s' j : sget s' (len_key (bk j)) = sget s (len_key (bk j)) -> bcount s' j = bcount s j.
Proof. intros H. unfold bcount, bk_len_z, r_get. rewrite H. reflexivity. Qed.
Lemma sget_view_mlen s s' : sget s' meta = sget s meta -> mlen s' = mlen s.
Proof. intros H. unfold mlen, r_hget, r_hash. rewrite H. reflexivity. Qed.

(* a write to the list key of bucket i *)
Lemma putlist_view s i l :
  blist (r_putlist s (bk i) l) i = l /\ bcount (r_putlist s (bk i) l) i = bcount s i /\
  only_bucket i s (r_putlist s (bk i) l).
Proof.
  split; [|split].
  - unfold blist, r_list, r_putlist. destruct l; [rewrite sget_sdel_same|rewrite sget_sset_same]; reflexivity.
  - apply sget_view_count. apply r_putlist_frame. intros E. exact (bucket_key_not_len key i i (eq_sym E)).
  - split.
    + intros j Hj. split.
      * apply sget_view_list. apply r_putlist_frame. intros E. apply bucket_key_inj in E. exact (Hj E).
      * apply sget_view_count. apply r_putlist_frame. intros E. exact (bucket_key_not_len key i j (eq_sym E)).
    + apply sget_view_mlen. apply r_putlist_frame. apply meta_not_bucket.
Qed.

(* INCRBY d on the counter of bucket i *)
Lemma incr_view s i d c : bcount s i = Some c ->
  exists s', r_incrby s (len_key (bk i)) d = Some ((c + d)%Z, s') /\
    bcount s' i = Some (c + d)%Z /\ blist s' i = blist s i /\ only_bucket i s s'.
Proof.
  intros Hc. unfold bcount, bk_len_z in Hc. unfold r_incrby.
  destruct (r_get s (len_key (bk i))) as [b|] eqn:Eg; [|discriminate]. rewrite Hc.
  eexists. split; [reflexivity|]. split; [|split].
  - unfold bcount, bk_len_z, r_get, r_set. rewrite sget_sset_same. apply undecZ_decZ.
  - apply sget_view_list. apply r_set_frame. apply bucket_key_not_len.
  - split.
    + intros j Hj. split.
      * apply sget_view_list. apply r_set_frame. apply bucket_key_not_len.
      * apply sget_view_count. apply r_set_frame. intros E. apply len_key_inj in E. exact (Hj E).
    + apply sget_view_mlen. apply r_set_frame. apply meta_not_len.
Qed.

Lemma only_bucket_trans i s1 s2 s3 : only_bucket i s1 s2 -> only_bucket i s2 s3 -> only_bucket i s1 s3.
Proof.
  intros (A1 & B1) (A2 & B2). split; [|congruence].
  intros j Hj. destruct (A1 j Hj) as [X1 Y1]. destruct (A2 j Hj) as [X2 Y2]. split; congruence.
Qed.
Lemma only_bucket_refl i s : only_bucket i s s.
Proof. split; [intros; split; reflexivity|reflexivity]. Qed.

(* bucket i is consistent: counter = non-empty entries, list not longer than bucketSize *)
Definition bwf (s : store) (i : N) : Prop :=
  bcount s i = Some (Z.of_nat (occ (blist s i))) /\ (length (blist s i) <= N.to_nat bsize)%nat.

Lemma free_iff s i : bwf s i -> (rbk_is_free s (bk i) bsize = true <-> (occ (blist s i) < N.to_nat bsize)%nat).
Proof. intros (Hc & _). unfold rbk_is_free. fold (bcount s i). rewrite Hc. split; intros H; lia. Qed.

Lemma index_of_lt l : forall x k p, index_of bytes_eqb l x k = Some p -> (p - k < length l)%nat.
Proof.
  induction l as [|y l IH]; intros x k p H; simpl in H; [discriminate|].
  destruct (bytes_eqb y x); [injection H as <-; simpl; lia|]. apply IH in H. simpl. lia.
Qed.

Lemma no_empty_all_occ l : index_of bytes_eqb l [] 0 = None -> occ l = length l.
Proof.
  intros H. apply index_of_none in H. induction l as [|a l IH]; [reflexivity|].
  rewrite occ_cons. destruct a as [|a0 a']; [exfalso; apply H; left; reflexivity|].
  simpl. f_equal. apply IH. intros Hin. apply H. right. exact Hin.
Qed.

(* add: the script run on a bucket with room *)
Lemma add_view s i e : bwf s i -> e <> [] -> rbk_is_free s (bk i) bsize = true ->
  let s' := rbk_add s (bk i) bsize e in
  bwf s' i /\ occ (blist s' i) = S (occ (blist s i)) /\ only_bucket i s s'.
Proof.
  intros Hwf He Hfree. pose proof Hwf as (Hc & Hlen). apply (free_iff s i Hwf) in Hfree.
  unfold rbk_add. destruct e as [|e0 e']; [congruence|]. fold (bcount s i). rewrite Hc.
  replace (Z.of_N bsize <=? Z.of_nat (occ (blist s i)))%Z with false by lia.
  set (L := blist s i) in *.
  cbv zeta. match goal with |- context [r_incrby ?X (len_key (bk i)) 1] => set (s1 := X) in * end.
  assert (H1 : exists L1, blist s1 i = L1 /\ occ L1 = S (occ L) /\ (length L1 <= N.to_nat bsize)%nat /\
                          bcount s1 i = bcount s i /\ only_bucket i s s1).
  { unfold s1, r_lpos. fold (blist s i). fold L.
    destruct (index_of bytes_eqb L [] 0) as [p|] eqn:Ep.
    - pose proof (index_of_spec L [] 0 p Ep) as [_ Hnth]. rewrite Nat.sub_0_r in Hnth.
      pose proof (index_of_lt L [] 0 p Ep) as Hp. rewrite Nat.sub_0_r in Hp.
      unfold r_lset. fold (blist s i). fold L. replace (N.of_nat p <? N.of_nat (length L)) with true by lia.
      rewrite Nat2N.id. destruct (putlist_view s i (setnth L p (e0 :: e'))) as (V1 & V2 & V3).
      exists (setnth L p (e0 :: e')). split; [exact V1|]. split.
      + pose proof (occ_setnth L p [] (e0 :: e') Hnth) as Ho. simpl in Ho. lia.
      + split; [unfold setnth; rewrite upd_length; exact Hlen|]. split; assumption.
    - pose proof (no_empty_all_occ L Ep) as Hall.
      unfold r_lpush. fold (blist s i). fold L. cbn [rev app].
      destruct (putlist_view s i ((e0 :: e') :: L)) as (V1 & V2 & V3).
      exists ((e0 :: e') :: L). split; [exact V1|]. split; [rewrite occ_cons; reflexivity|].
      split; [simpl; lia|]. split; assumption. }
  destruct H1 as (L1 & HL1 & Ho1 & Hl1 & Hc1 & Hob1).
  rewrite Hc in Hc1.
  destruct (incr_view s1 i 1%Z _ Hc1) as (s2 & Hinc & Hc2 & Hl2 & Hob2).
  rewrite Hinc.
  split; [|split].
  - split; [rewrite Hc2, Hl2, HL1, Ho1; f_equal; lia|rewrite Hl2, HL1; exact Hl1].
  - rewrite Hl2, HL1. exact Ho1.
  - eapply only_bucket_trans; eauto.
Qed.

Lemma lookup_in s i e : rbk_lookup s (bk i) e = true -> In e (blist s i).
Proof.
  unfold rbk_lookup, r_lpos. fold (blist s i). destruct (index_of bytes_eqb (blist s i) e 0) as [p|] eqn:E; [|discriminate].
  intros _. apply index_of_spec in E. destruct E as [_ Hn]. eapply nth_error_In; eauto.
Qed.

(* remove: the script run on a bucket holding the non-empty fingerprint *)
Lemma remove_view s i e : bwf s i -> e <> [] -> rbk_lookup s (bk i) e = true ->
  let s' := rbk_remove s (bk i) e in
  bwf s' i /\ S (occ (blist s' i)) = occ (blist s i) /\ only_bucket i s s'.
Proof.
  intros Hwf He Hl. pose proof Hwf as (Hc & Hlen).
  unfold rbk_remove, rbk_lookup, r_lpos in *. fold (blist s i) in *. set (L := blist s i) in *.
  destruct (index_of bytes_eqb L e 0) as [p|] eqn:Ep; [|discriminate].
  pose proof (index_of_spec L e 0 p Ep) as [_ Hnth]. rewrite Nat.sub_0_r in Hnth.
  pose proof (index_of_lt L e 0 p Ep) as Hp. rewrite Nat.sub_0_r in Hp.
  unfold r_lset. fold (blist s i). fold L. replace (N.of_nat p <? N.of_nat (length L)) with true by lia.
  rewrite Nat2N.id. destruct (putlist_view s i (setnth L p [])) as (V1 & V2 & V3).
  pose proof (occ_setnth L p e [] Hnth) as Ho. apply nonempty_true in He. rewrite He in Ho. simpl in Ho.
  rewrite Hc in V2.
  destruct (incr_view _ i (-1)%Z _ V2) as (s2 & Hinc & Hc2 & Hl2 & Hob2).
  rewrite Hinc. cbv zeta. split; [|split].
  - split; [rewrite Hc2, Hl2, V1; f_equal; lia|rewrite Hl2, V1; unfold setnth; rewrite upd_length; exact Hlen].
  - rewrite Hl2, V1. lia.
  - eapply only_bucket_trans; eauto.
Qed.

(* set: overwriting an occupied slot with a non-empty fingerprint *)
Lemma set_view s i j e v : bwf s i -> nth_error (blist s i) (N.to_nat j) = Some v -> v <> [] -> e <> [] ->
  let s' := rbk_set s (bk i) j e in
  bwf s' i /\ occ (blist s' i) = occ (blist s i) /\ only_bucket i s s' /\
  blist s' i = setnth (blist s i) (N.to_nat j) e.
Proof.
  intros Hwf Hn Hv He. pose proof Hwf as (Hc & Hlen).
  assert (Hj : (N.to_nat j < length (blist s i))%nat) by (apply nth_error_Some; congruence).
  unfold rbk_set.
  replace (9223372036854775808 <=? j) with false
    by (symmetry; apply N.leb_gt; assert (2 ^ 62 < 9223372036854775808) by (vm_compute; reflexivity); lia).
  unfold r_lset. fold (blist s i). replace (j <? N.of_nat (length (blist s i))) with true by lia.
  destruct (putlist_view s i (setnth (blist s i) (N.to_nat j) e)) as (V1 & V2 & V3).
  pose proof (occ_setnth (blist s i) (N.to_nat j) v e Hn) as Ho.
  apply nonempty_true in He. apply nonempty_true in Hv. rewrite He, Hv in Ho.
  cbv zeta. split; [|split; [|split]].
  - split; [rewrite V2, V1, Hc; f_equal; lia|rewrite V1; unfold setnth; rewrite upd_length; exact Hlen].
  - rewrite V1. lia.
  - exact V3.
  - exact V1.
Qed.

(* ---------- the filter ---------- *)
Variable fpl retries : N.
Definition hdl : rcuckoo := mkRck size bsize fpl retries key meta.

Definition tot (s : store) : nat := list_sum (map (fun i => occ (blist s i)) (nseq size)).
Definition buckets_ok (s : store) : Prop := forall i, i < size -> bwf s i.
Definition RI (s : store) : Prop := buckets_ok s /\ mlen s = Some (Z.of_nat (tot s)).

Lemma list_sum_change (l : list N) (f g : N -> nat) i : NoDup l -> In i l ->
  (forall j, In j l -> j <> i -> g j = f j) ->
  (list_sum (map g l) + f i = list_sum (map f l) + g i)%nat.
Proof.
  induction l as [|a t IH]; intros Hnd Hin Hsame; [destruct Hin|].
  apply NoDup_cons_iff in Hnd. destruct Hnd as [Hnot Hnd]. cbn [map list_sum fold_right].
  change (fold_right Nat.add 0%nat (map g t)) with (list_sum (map g t)).
  change (fold_right Nat.add 0%nat (map f t)) with (list_sum (map f t)).
  destruct Hin as [->|Hin].
  - assert (Heq : map g t = map f t).
    { apply map_ext_in. intros j Hj. apply Hsame; [right; exact Hj|]. intros ->. contradiction. }
    rewrite Heq. lia.
  - assert (Hai : a <> i) by (intros ->; contradiction).
    rewrite (Hsame a (or_introl eq_refl) Hai).
    specialize (IH Hnd Hin (fun j Hj Hne => Hsame j (or_intror Hj) Hne)). lia.
Qed.

Lemma tot_only_bucket i s s' : i < size -> only_bucket i s s' ->
  (tot s' + occ (blist s i) = tot s + occ (blist s' i))%nat.
Proof.
  intros Hi (Hsame & _). unfold tot.
  apply (list_sum_change (nseq size) (fun j => occ (blist s j)) (fun j => occ (blist s' j)) i).
  - apply nseq_nodup.
  - apply In_nseq. exact Hi.
  - intros j _ Hj. destruct (Hsame j Hj) as [-> _]. reflexivity.
Qed.

Lemma bwf_only_bucket i j s s' : only_bucket i s s' -> j <> i -> bwf s j -> bwf s' j.
Proof. intros (Hsame & _) Hj (A & B). destruct (Hsame j Hj) as [El Ec]. unfold bwf. rewrite El, Ec. auto. Qed.

Lemma buckets_ok_step i s s' : buckets_ok s -> only_bucket i s s' -> bwf s' i -> buckets_ok s'.
Proof.
  intros Hok Hob Hi j Hj. destruct (N.eq_dec j i) as [->|Hne]; [exact Hi|].
  eapply bwf_only_bucket; eauto.
Qed.

(* HINCRBY on the length field *)
Lemma hincr_view s d c : mlen s = Some c ->
  mlen (hincr s hdl d) = Some (c + d)%Z /\
  (forall j, blist (hincr s hdl d) j = blist s j /\ bcount (hincr s hdl d) j = bcount s j).
Proof.
  intros Hc. unfold hincr, r_hincrby. cbn [rq_meta hdl]. unfold mlen in Hc.
  destruct (r_hget s meta f_length) as [b|] eqn:Eg; [|discriminate]. rewrite Hc.
  split.
  - unfold mlen. rewrite (r_hget_hset s meta [(f_length, decZ (c + d))] f_length (decZ (c + d)))
      by (cbn; auto; repeat constructor; auto). apply undecZ_decZ.
  - intros j. split.
    + apply sget_view_list. apply r_hset_frame. intros E. exact (meta_not_bucket j (eq_sym E)).
    + apply sget_view_count. apply r_hset_frame. intros E. exact (meta_not_len j (eq_sym E)).
Qed.

Variable h64 : bytes -> N.

Definition bfull (s : store) (i : N) : Prop :=
  occ (blist s i) = length (blist s i) /\ length (blist s i) = N.to_nat bsize.

Lemma not_free_full s i : bwf s i -> rbk_is_free s (bk i) bsize = false -> bfull s i.
Proof.
  intros (Hc & Hl) Hf. unfold rbk_is_free in Hf. fold (bcount s i) in Hf. rewrite Hc in Hf.
  pose proof (occ_le (blist s i)). unfold bfull. lia.
Qed.

Definition ritem_ok (s : store) (it : bytes * N * N) : Prop :=
  let '(p, bi, si) := it in p <> [] /\ bi < size /\ bfull s bi /\ si < bsize.

(* overwriting slot si of the full bucket i with a non-empty fingerprint *)
Lemma swap_view s i si e : buckets_ok s -> i < size -> bfull s i -> si < bsize -> e <> [] ->
  let s' := rbk_set s (bk i) si e in
  buckets_ok s' /\ tot s' = tot s /\ mlen s' = mlen s /\ (forall j, bfull s j -> bfull s' j) /\
  exists v, rbk_at s (bk i) si = v /\ v <> [] /\ nth_error (blist s i) (N.to_nat si) = Some v.
Proof.
  intros Hok Hi (Hfo & Hfl) Hsi He.
  assert (Hlt : (N.to_nat si < length (blist s i))%nat) by lia.
  destruct (nth_error (blist s i) (N.to_nat si)) as [v|] eqn:En; [|apply nth_error_None in En; lia].
  pose proof (allne_nth _ Hfo _ _ En) as Hv.
  destruct (set_view s i si e v (Hok i Hi) En Hv He) as (Hwf' & Ho' & Hob & Hl').
  cbv zeta. split; [eapply buckets_ok_step; eauto|]. split; [|split; [|split]].
  - pose proof (tot_only_bucket i s _ Hi Hob). lia.
  - apply Hob.
  - intros j (Ho & Hl). destruct (N.eq_dec j i) as [->|Hne].
    + unfold bfull. rewrite Hl'. unfold setnth. rewrite upd_length. split; [|exact Hl].
      fold (setnth (blist s i) (N.to_nat si) e). rewrite <- Hl'. lia.
    + destruct Hob as (Hsame & _). destruct (Hsame j Hne) as [El _]. unfold bfull. rewrite El. auto.
  - exists v. split; [|split; [exact Hv|reflexivity]].
    unfold rbk_at. replace (9223372036854775808 <=? si) with false
      by (symmetry; apply N.leb_gt; assert (2 ^ 62 < 9223372036854775808) by (vm_compute; reflexivity); lia).
    unfold r_lindex, nthN. fold (blist s i). replace (si <? N.of_nat (length (blist s i))) with true by lia.
    rewrite En. reflexivity.
Qed.

Lemma ritem_ok_mono s s' it : (forall j, bfull s j -> bfull s' j) -> ritem_ok s it -> ritem_ok s' it.
Proof.
  destruct it as [[p bi] si]. intros Hm (A & B & C & D). simpl.
  split; [exact A|]. split; [exact B|]. split; [apply Hm; exact C|exact D].
Qed.

Lemma rundo_ok items : forall s c, buckets_ok s -> mlen s = Some c -> Forall (ritem_ok s) items ->
  buckets_ok (rundo s hdl items) /\ tot (rundo s hdl items) = tot s /\ mlen (rundo s hdl items) = Some c.
Proof.
  induction items as [|[[p bi] si] t IH]; intros s c Hok Hm Hit; cbn [rundo]; [auto|].
  inversion Hit as [|? ? Hi Ht]; subst. simpl in Hi. destruct Hi as (Hp & Hb & Hf & Hs).
  cbn [rq_key hdl].
  destruct (swap_view s bi si p Hok Hb Hf Hs Hp) as (Hok' & Ht' & Hm' & Hmono & _).
  destruct (IH _ c Hok' ltac:(congruence)) as (A & B & C).
  { rewrite Forall_forall in *. intros it Hin. eapply ritem_ok_mono; eauto. }
  split; [exact A|]. split; [lia|exact C].
Qed.

Definition rres_ok (s : store) (c : Z) (r : rins) : Prop :=
  match r with
  | RInsOk s' => buckets_ok s' /\ tot s' = S (tot s) /\ mlen s' = Some (c + 1)%Z
  | RInsFull s' => buckets_ok s' /\ tot s' = tot s /\ mlen s' = Some c
  | RInsPanic _ _ => False
  end.

(* adding a non-empty fingerprint to a bucket with room, then HINCRBY 1 *)
Lemma add_hincr_ok s i e c : buckets_ok s -> mlen s = Some c -> i < size -> e <> [] ->
  rbk_is_free s (bk i) bsize = true ->
  rres_ok s c (RInsOk (hincr (rbk_add s (bk i) bsize e) hdl 1)).
Proof.
  intros Hok Hm Hi He Hfree.
  destruct (add_view s i e (Hok i Hi) He Hfree) as (Hwf' & Ho' & Hob).
  set (s1 := rbk_add s (bk i) bsize e) in *.
  assert (Hm1 : mlen s1 = Some c) by (destruct Hob as (_ & ->); exact Hm).
  destruct (hincr_view s1 1%Z c Hm1) as (Hm2 & Hviews).
  simpl. split; [|split; [|exact Hm2]].
  - intros j Hj. destruct (Hviews j) as [El Ec]. unfold bwf. rewrite El, Ec.
    apply (buckets_ok_step i s s1 Hok Hob Hwf' j Hj).
  - assert (Ht : tot (hincr s1 hdl 1) = tot s1).
    { unfold tot. f_equal. apply map_ext. intros j. destruct (Hviews j) as [-> _]. reflexivity. }
    rewrite Ht. pose proof (tot_only_bucket i s s1 Hi Hob). lia.
Qed.

Lemma revict_ok fuel : forall s c index curr draws items destr,
  buckets_ok s -> mlen s = Some c -> index < size -> bfull s index -> curr <> [] ->
  Forall (fun k => k < 2 ^ 53) draws -> Forall (ritem_ok s) items ->
  rres_ok s c (revict h64 fuel s hdl index curr draws items destr).
Proof.
  induction fuel as [|fuel IH]; intros s c index curr draws items destr Hok Hm Hidx Hfull Hc Hdr Hit; cbn [revict].
  - destruct destr; [simpl; auto|]. simpl. apply rundo_ok; assumption.
  - cbn [rq_key rq_size rq_bsize hdl].
    assert (Hlen : rbk_get_length s (bk index) = bsize).
    { unfold rbk_get_length. fold (bcount s index). destruct (Hok index Hidx) as (Hcn & _). rewrite Hcn.
      destruct Hfull as (Hfo & Hfl). rewrite Hfo, Hfl.
      rewrite Z.mod_small by (assert (2 ^ 62 < 18446744073709551616) by (vm_compute; reflexivity); lia). lia. }
    rewrite Hlen.
    set (ri := rand_slot (hd 0 draws) bsize).
    assert (Hri : ri <= bsize - 1).
    { unfold ri. apply rand_slot_le; [destruct draws; [simpl; lia|inversion Hdr; auto]|exact bsize_pos|].
      unfold two64. assert (2 ^ 62 < 18446744073709551616) by (vm_compute; reflexivity). lia. }
    assert (Hsi : ri < bsize) by lia.
    destruct (swap_view s index ri curr Hok Hidx Hfull Hsi Hc) as (Hok1 & Ht1 & Hm1 & Hmono & (prev & Hat & Hprev & Hnth)).
    rewrite Hat.
    set (s1 := rbk_set s (bk index) ri curr) in *.
    assert (Hsize : size <> 0) by lia.
    set (newi := N.lxor index (h64 prev) mod size).
    assert (Hnewi : newi < size) by (apply N.mod_lt; exact Hsize).
    destruct (rbk_is_free s1 (bk newi) bsize) eqn:Hfree.
    + pose proof (add_hincr_ok s1 newi prev c Hok1 ltac:(congruence) Hnewi Hprev Hfree) as Hr.
      simpl in *. destruct Hr as (A & B & C). split; [exact A|]. split; [lia|exact C].
    + assert (Hfull1 : bfull s1 newi) by (apply not_free_full; [apply Hok1; exact Hnewi|exact Hfree]).
      assert (Hit1 : Forall (ritem_ok s1) ((prev, index, ri) :: items)).
      { constructor.
        - simpl. split; [exact Hprev|]. split; [exact Hidx|]. split; [apply Hmono; exact Hfull|exact Hsi].
        - rewrite Forall_forall in *. intros it Hin. eapply ritem_ok_mono; eauto. }
      pose proof (IH s1 c newi prev (tl draws) ((prev, index, ri) :: items) destr Hok1 ltac:(congruence) Hnewi Hfull1 Hprev
                    ltac:(destruct draws; simpl; [constructor|inversion Hdr; auto]) Hit1) as Hr.
      destruct (revict h64 fuel s1 hdl newi prev (tl draws) ((prev, index, ri) :: items) destr); simpl in *; auto.
      * destruct Hr as (A & B & C). split; [exact A|]. split; [lia|exact C].
      * destruct Hr as (A & B & C). split; [exact A|]. split; [lia|exact C].
Qed.

(* Insert of an element with a non-empty fingerprint *)
Theorem rinsert_ok s c x destr coin draws fp i1 i2 :
  buckets_ok s -> mlen s = Some c ->
  rck_positions h64 hdl x = Ok (fp, i1, i2) -> fp <> [] -> i1 < size -> i2 < size ->
  Forall (fun k => k < 2 ^ 53) draws ->
  rres_ok s c (rck_insert h64 s hdl x destr coin draws).
Proof.
  intros Hok Hm Hpos Hfp H1 H2 Hdr. unfold rck_insert. rewrite Hpos. cbn [rq_size rq_key rq_bsize rq_retries hdl].
  replace (size =? 0) with false by lia.
  destruct (rbk_is_free s (bk i1) bsize) eqn:Hf1; [apply add_hincr_ok; assumption|].
  destruct (rbk_is_free s (bk i2) bsize) eqn:Hf2; [apply add_hincr_ok; assumption|].
  apply revict_ok; auto.
  - destruct coin; assumption.
  - destruct coin; apply not_free_full; auto.
Qed.

(* Remove of an element with a non-empty fingerprint *)
Theorem rremove_ok s c x fp i1 i2 :
  buckets_ok s -> mlen s = Some c ->
  rck_positions h64 hdl x = Ok (fp, i1, i2) -> fp <> [] -> i1 < size -> i2 < size ->
  match rck_remove h64 s hdl x with
  | (Ok true, s') => buckets_ok s' /\ S (tot s') = tot s /\ mlen s' = Some (c - 1)%Z
  | (Ok false, s') => s' = s
  | _ => False
  end.
Proof.
  intros Hok Hm Hpos Hfp H1 H2. unfold rck_remove. rewrite Hpos. cbn [rq_size rq_key hdl].
  replace (size =? 0) with false by lia.
  assert (Hrem : forall i, i < size -> rbk_lookup s (bk i) fp = true ->
            let s' := hincr (rbk_remove s (bk i) fp) hdl (-1) in
            buckets_ok s' /\ S (tot s') = tot s /\ mlen s' = Some (c - 1)%Z).
  { intros i Hi Hl. destruct (remove_view s i fp (Hok i Hi) Hfp Hl) as (Hwf' & Ho' & Hob).
    set (s1 := rbk_remove s (bk i) fp) in *.
    assert (Hm1 : mlen s1 = Some c) by (destruct Hob as (_ & ->); exact Hm).
    destruct (hincr_view s1 (-1)%Z c Hm1) as (Hm2 & Hviews).
    cbv zeta. split; [|split; [|exact Hm2]].
    - intros j Hj. destruct (Hviews j) as [El Ec]. unfold bwf. rewrite El, Ec.
      apply (buckets_ok_step i s s1 Hok Hob Hwf' j Hj).
    - assert (Ht : tot (hincr s1 hdl (-1)) = tot s1).
      { unfold tot. f_equal. apply map_ext. intros j. destruct (Hviews j) as [-> _]. reflexivity. }
      rewrite Ht. pose proof (tot_only_bucket i s s1 Hi Hob). lia. }
  destruct (rbk_lookup s (bk i1) fp) eqn:Hl1; [exact (Hrem i1 H1 Hl1)|].
  destruct (rbk_lookup s (bk i2) fp) eqn:Hl2; [exact (Hrem i2 H2 Hl2)|reflexivity].
Qed.

(* Length() *)
Lemma tot_le_cap s : buckets_ok s -> (tot s <= N.to_nat size * N.to_nat bsize)%nat.
Proof.
  intros Hok. unfold tot.
  assert (H : forall l, (forall i, In i l -> i < size) ->
            (list_sum (map (fun i => occ (blist s i)) l) <= length l * N.to_nat bsize)%nat).
  { induction l as [|a t IH]; intros Hin; [simpl; lia|]. cbn [map list_sum fold_right length].
    change (fold_right Nat.add 0%nat (map (fun i => occ (blist s i)) t)) with (list_sum (map (fun i => occ (blist s i)) t)).
    specialize (IH (fun i Hi => Hin i (or_intror Hi))).
    destruct (Hok a (Hin a (or_introl eq_refl))) as (_ & Hl). pose proof (occ_le (blist s a)). lia. }
  specialize (H (nseq size) (fun i Hi => proj1 (In_nseq size i) Hi)). rewrite nseq_length in H. exact H.
Qed.

Theorem length_is_tot s : size * bsize < two64 -> RI s -> rck_length s hdl = N.of_nat (tot s).
Proof.
  intros Hcap (Hok & Hm). unfold rck_length. cbn [rq_meta hdl]. unfold mlen in Hm.
  destruct (r_hget s meta f_length) as [b|]; [|discriminate]. rewrite Hm.
  pose proof (tot_le_cap s Hok) as Hle.
  assert (Hb : (Z.of_nat (tot s) < 18446744073709551616)%Z) by (unfold two64 in Hcap; nia).
  rewrite Z.mod_small by lia. lia.
Qed.

(* ---------- every history ---------- *)
Inductive rop := RIns (x : bytes) (destr coin : bool) (draws : list N) | RRem (x : bytes).
Definition rop_elem (o : rop) : bytes := match o with RIns x _ _ _ => x | RRem x => x end.
Definition rop_draws (o : rop) : list N := match o with RIns _ _ _ d => d | RRem _ => [] end.

Definition rstep (s : store) (o : rop) : store :=
  match o with
  | RIns x d c dr => match rck_insert h64 s hdl x d c dr with RInsOk s' | RInsFull s' | RInsPanic _ s' => s' end
  | RRem x => snd (rck_remove h64 s hdl x)
  end.
Definition rdelta (s : store) (o : rop) : Z :=
  match o with
  | RIns x d c dr => match rck_insert h64 s hdl x d c dr with RInsOk _ => 1%Z | _ => 0%Z end
  | RRem x => match fst (rck_remove h64 s hdl x) with Ok true => (-1)%Z | _ => 0%Z end
  end.
Fixpoint rrun_ops (s : store) (ops : list rop) : store * Z :=
  match ops with
  | [] => (s, 0%Z)
  | o :: t => let r := rrun_ops (rstep s o) t in (fst r, (rdelta s o + snd r)%Z)
  end.

Hypothesis size_pos : 0 < size.

Lemma rpositions_ok x : fp_ok h64 fpl x = true ->
  exists fp i1 i2, rck_positions h64 hdl x = Ok (fp, i1, i2) /\ fp <> [] /\ i1 < size /\ i2 < size.
Proof.
  intros Hok. unfold rck_positions. cbn [rq_size rq_bsize rq_fpl rq_retries hdl].
  set (f := mkCuckoo size bsize fpl retries 0 []).
  assert (H : exists fp i1 i2, ck_positions h64 f x = Ok (fp, i1, i2)).
  { unfold ck_positions. cbn [q_fpl q_size f]. unfold fp_ok in Hok.
    destruct (N.of_nat (length (dec (h64 x))) <? fpl) eqn:E; [lia|].
    replace (size =? 0) with false by lia. eauto. }
  destruct H as (fp & i1 & i2 & Hp). exists fp, i1, i2. split; [exact Hp|].
  apply (positions_fp h64 f x fp i1 i2 Hok Hp).
Qed.

Lemma rstep_RI s o : RI s -> fp_ok h64 fpl (rop_elem o) = true -> Forall (fun k => k < 2 ^ 53) (rop_draws o) ->
  RI (rstep s o) /\ (Z.of_nat (tot (rstep s o)) = Z.of_nat (tot s) + rdelta s o)%Z.
Proof.
  intros (Hok & Hm) Hfp Hdr. destruct (rpositions_ok _ Hfp) as (fp & i1 & i2 & Hp & Hne & H1 & H2).
  destruct o as [x d c dr|x]; cbn [rstep rdelta rop_elem rop_draws] in *.
  - pose proof (rinsert_ok s _ x d c dr fp i1 i2 Hok Hm Hp Hne H1 H2 Hdr) as Hr.
    destruct (rck_insert h64 s hdl x d c dr) as [s'|s'|t s']; simpl in Hr; [| |contradiction];
      destruct Hr as (A & B & C).
    + split; [split; [exact A|rewrite C; f_equal; lia]|lia].
    + split; [split; [exact A|rewrite C; f_equal; lia]|lia].
  - pose proof (rremove_ok s _ x fp i1 i2 Hok Hm Hp Hne H1 H2) as Hr.
    destruct (rck_remove h64 s hdl x) as [[[|]|t|t] s']; cbn [fst snd]; try contradiction.
    + destruct Hr as (A & B & C). split; [split; [exact A|rewrite C; f_equal; lia]|lia].
    + subst s'. split; [split; assumption|lia].
Qed.

(* the invariant and the accounting along every history *)
Theorem rrun_RI ops : forall s, RI s ->
  Forall (fun o => fp_ok h64 fpl (rop_elem o) = true /\ Forall (fun k => k < 2 ^ 53) (rop_draws o)) ops ->
  RI (fst (rrun_ops s ops)) /\
  (Z.of_nat (tot (fst (rrun_ops s ops))) = Z.of_nat (tot s) + snd (rrun_ops s ops))%Z.
Proof.
  induction ops as [|o t IH]; intros s HI Hall; cbn [rrun_ops fst snd]; [split; [exact HI|lia]|].
  inversion Hall as [|? ? (Ho1 & Ho2) Ht]; subst.
  destruct (rstep_RI s o HI Ho1 Ho2) as (HI1 & Hd1).
  destruct (IH (rstep s o) HI1 Ht) as (HI2 & Hd2). split; [exact HI2|lia].
Qed.

(* ---------- a new filter with fresh keys satisfies the invariant ---------- *)
Lemma key_not_bucket i : key <> bucket_key key i.
Proof.
  intros E. apply (f_equal (@length _)) in E. unfold bucket_key in E. rewrite !app_length in E.
  unfold s_cuckoo_ in E. simpl in E. lia.
Qed.
Lemma key_not_len i : key <> len_key (bucket_key key i).
Proof.
  intros E. apply (f_equal (@length _)) in E. unfold len_key, bucket_key in E. rewrite !app_length in E.
  unfold s_cuckoo_ in E. simpl in E. lia.
Qed.

Lemma fold_incr0_count l : NoDup l -> forall s i, In i l ->
  (forall j, In j l -> sget s (len_key (bk j)) = None) ->
  bcount (fold_left (fun st b => incr0 st (len_key b)) (map bk l) s) i = Some 0%Z.
Proof.
  induction 1 as [|a t Hnot Hnd IH]; intros s i Hin Hfresh; [destruct Hin|]. cbn [map fold_left].
  destruct Hin as [->|Hin].
  - unfold bcount, bk_len_z, r_get.
    rewrite fold_incr0_frame by (intros b Hb E; apply in_map_iff in Hb; destruct Hb as (j & <- & Hj);
                                 apply len_key_inj in E; subst j; contradiction).
    unfold incr0, r_incrby, r_get. rewrite (Hfresh i (or_introl eq_refl)). cbv beta iota.
    unfold r_set. rewrite sget_sset_same. reflexivity.
  - apply IH; [exact Hin|]. intros j Hj. rewrite incr0_frame; [apply Hfresh; right; exact Hj|].
    intros E. apply len_key_inj in E. subst j. contradiction.
Qed.

Theorem rck_new_RI s :
  meta <> key ->
  (forall i, i < size -> sget s (bk i) = None /\ sget s (len_key (bk i)) = None) ->
  RI (snd (rck_new s size bsize fpl retries key meta)) /\ tot (snd (rck_new s size bsize fpl retries key meta)) = 0%nat.
Proof.
  intros Hmk Hfresh. unfold rck_new. cbn [snd]. fold hdl. unfold rck_init_buckets. cbn [rq_key rq_size hdl].
  set (s0 := rck_set_metadata s hdl 0).
  set (s1 := r_lpush (sdel s0 key) key (map bk (nseq size))).
  set (s2 := fold_left (fun st b => incr0 st (len_key b)) (map bk (nseq size)) s1).
  assert (Hs1 : forall k, k <> key -> k <> meta -> sget s1 k = sget s k).
  { intros k Hk Hm. unfold s1. rewrite r_lpush_frame by exact Hk. rewrite sdel_frame by exact Hk.
    unfold s0, rck_set_metadata. cbn [rq_meta hdl]. apply r_hset_frame. exact Hm. }
  assert (Hlist : forall i, i < size -> blist s2 i = []).
  { intros i Hi. unfold blist, r_list, s2.
    rewrite fold_incr0_frame by (intros b Hb; apply in_map_iff in Hb; destruct Hb as (j & <- & _); apply bucket_key_not_len).
    rewrite Hs1 by (try (intros E; exact (key_not_bucket i (eq_sym E))); intros E; exact (meta_not_bucket i (eq_sym E))).
    destruct (Hfresh i Hi) as [-> _]. reflexivity. }
  assert (Hcount : forall i, i < size -> bcount s2 i = Some 0%Z).
  { intros i Hi. unfold s2. apply fold_incr0_count; [apply nseq_nodup|apply In_nseq; exact Hi|].
    intros j Hj. apply In_nseq in Hj.
    rewrite Hs1 by (try (intros E; exact (key_not_len j (eq_sym E))); intros E; exact (meta_not_len j (eq_sym E))).
    apply (Hfresh j Hj). }
  assert (Htot : tot s2 = 0%nat).
  { unfold tot. assert (H : forall l, (forall i, In i l -> i < size) -> list_sum (map (fun i => occ (blist s2 i)) l) = 0%nat).
    { induction l as [|a t IH]; intros Hin; [reflexivity|]. cbn [map list_sum fold_right].
      change (fold_right Nat.add 0%nat (map (fun i => occ (blist s2 i)) t)) with (list_sum (map (fun i => occ (blist s2 i)) t)).
      rewrite (IH (fun i Hi => Hin i (or_intror Hi))), (Hlist a (Hin a (or_introl eq_refl))). reflexivity. }
    apply H. intros i Hi. apply In_nseq. exact Hi. }
  split; [|exact Htot]. split.
  - intros i Hi. unfold bwf. rewrite (Hlist i Hi), (Hcount i Hi). split; [reflexivity|simpl; lia].
  - rewrite Htot. unfold mlen, s2.
    rewrite (r_hget_frame s1 _ meta f_length)
      by (apply fold_incr0_frame; intros b Hb; apply in_map_iff in Hb; destruct Hb as (j & <- & _); apply meta_not_len).
    rewrite (r_hget_frame s0 s1 meta f_length)
      by (unfold s1; rewrite r_lpush_frame by exact Hmk; apply sdel_frame; exact Hmk).
    unfold s0, rck_set_metadata. cbn [rq_meta rq_size rq_bsize rq_fpl rq_retries rq_key hdl].
    rewrite (r_hget_hset s meta _ f_length (dec 0)); [reflexivity|cbn; auto 10|].
    cbn. repeat constructor; cbn; intuition; discriminate.
Qed.

(* the list of the touched bucket after add / remove, explicitly *)
Lemma add_list s i e : bwf s i -> e <> [] -> rbk_is_free s (bk i) bsize = true ->
  blist (rbk_add s (bk i) bsize e) i =
    match index_of bytes_eqb (blist s i) [] 0 with
    | Some p => setnth (blist s i) p e
    | None => e :: blist s i
    end.
Proof.
  intros Hwf He Hfree. pose proof Hwf as (Hc & Hlen). apply (free_iff s i Hwf) in Hfree.
  unfold rbk_add. destruct e as [|e0 e']; [congruence|]. fold (bcount s i). rewrite Hc.
  replace (Z.of_N bsize <=? Z.of_nat (occ (blist s i)))%Z with false by lia.
  match goal with |- context [r_incrby ?X (len_key (bk i)) 1] => set (s1 := X) in * end.
  assert (H1 : blist s1 i = match index_of bytes_eqb (blist s i) [] 0 with
                            | Some p => setnth (blist s i) p (e0 :: e') | None => (e0 :: e') :: blist s i end /\
               bcount s1 i = bcount s i).
  { unfold s1, r_lpos. fold (blist s i).
    destruct (index_of bytes_eqb (blist s i) [] 0) as [p|] eqn:Ep.
    - pose proof (index_of_lt (blist s i) [] 0 p Ep) as Hp. rewrite Nat.sub_0_r in Hp.
      unfold r_lset. fold (blist s i). replace (N.of_nat p <? N.of_nat (length (blist s i))) with true by lia.
      rewrite Nat2N.id. destruct (putlist_view s i (setnth (blist s i) p (e0 :: e'))) as (V1 & V2 & _). auto.
    - unfold r_lpush. fold (blist s i). cbn [rev app].
      destruct (putlist_view s i ((e0 :: e') :: blist s i)) as (V1 & V2 & _). auto. }
  destruct H1 as (HL1 & Hc1). rewrite Hc in Hc1.
  destruct (incr_view s1 i 1%Z _ Hc1) as (s2 & Hinc & _ & Hl2 & _).
  rewrite Hinc. rewrite Hl2. exact HL1.
Qed.

Lemma remove_list s i e : bwf s i -> e <> [] -> rbk_lookup s (bk i) e = true ->
  exists p, nth_error (blist s i) p = Some e /\ blist (rbk_remove s (bk i) e) i = setnth (blist s i) p [].
Proof.
  intros Hwf He Hl. pose proof Hwf as (Hc & Hlen).
  unfold rbk_remove, rbk_lookup, r_lpos in *. fold (blist s i) in *.
  destruct (index_of bytes_eqb (blist s i) e 0) as [p|] eqn:Ep; [|discriminate].
  pose proof (index_of_spec (blist s i) e 0 p Ep) as [_ Hnth]. rewrite Nat.sub_0_r in Hnth.
  pose proof (index_of_lt (blist s i) e 0 p Ep) as Hp. rewrite Nat.sub_0_r in Hp.
  exists p. split; [exact Hnth|].
  unfold r_lset. fold (blist s i). replace (N.of_nat p <? N.of_nat (length (blist s i))) with true by lia.
  rewrite Nat2N.id. destruct (putlist_view s i (setnth (blist s i) p [])) as (V1 & V2 & V3).
  rewrite Hc in V2. destruct (incr_view _ i (-1)%Z _ V2) as (s2 & Hinc & _ & Hl2 & _).
  rewrite Hinc. rewrite Hl2. exact V1.
Qed.

(* ---------- C14: a failed non-destructive insert restores every bucket list ---------- *)
Definition same_listsG (s s' : store) : Prop := forall j, blist s' j = blist s j.

Lemma set_listsG s i j (e : bytes) :
  (forall k, k <> i -> blist (rbk_set s (bk i) j e) k = blist s k) /\
  blist (rbk_set s (bk i) j e) i =
    (if (9223372036854775808 <=? j) then blist s i
     else if j <? N.of_nat (length (blist s i)) then setnth (blist s i) (N.to_nat j) e else blist s i).
Proof.
  unfold rbk_set. destruct (9223372036854775808 <=? j); [split; reflexivity|].
  unfold r_lset. fold (blist s i). destruct (j <? N.of_nat (length (blist s i))); [|split; reflexivity].
  destruct (putlist_view s i (setnth (blist s i) (N.to_nat j) e)) as (V1 & _ & (Hsame & _)).
  split; [intros k Hk; apply (Hsame k Hk)|exact V1].
Qed.

Lemma set_lists_congrG s s' i j e : same_listsG s s' ->
  same_listsG (rbk_set s (bk i) j e) (rbk_set s' (bk i) j e).
Proof.
  intros Hs k. destruct (set_listsG s i j e) as [A1 B1]. destruct (set_listsG s' i j e) as [A2 B2].
  destruct (N.eq_dec k i) as [->|Hne].
  - rewrite B1, B2, (Hs i). reflexivity.
  - rewrite A1, A2 by exact Hne. apply Hs.
Qed.

Lemma rundo_lists_congrG items : forall s s', same_listsG s s' -> same_listsG (rundo s hdl items) (rundo s' hdl items).
Proof.
  induction items as [|[[p bi] si] t IH]; intros s s' Hs; cbn [rundo]; [exact Hs|].
  apply IH. cbn [rq_key hdl]. apply set_lists_congrG. exact Hs.
Qed.

Lemma set_backG s i j (e prev : bytes) : j < 2 ^ 62 -> nth_error (blist s i) (N.to_nat j) = Some prev ->
  same_listsG s (rbk_set (rbk_set s (bk i) j e) (bk i) j prev).
Proof.
  intros Hj Hn k.
  assert (Hlt : (N.to_nat j < length (blist s i))%nat) by (apply nth_error_Some; congruence).
  assert (Hbig : (9223372036854775808 <=? j) = false)
    by (apply N.leb_gt; assert (2 ^ 62 < 9223372036854775808) by (vm_compute; reflexivity); lia).
  destruct (set_listsG s i j e) as [A1 B1]. rewrite Hbig in B1.
  replace (j <? N.of_nat (length (blist s i))) with true in B1 by lia.
  destruct (set_listsG (rbk_set s (bk i) j e) i j prev) as [A2 B2]. rewrite Hbig in B2.
  destruct (N.eq_dec k i) as [->|Hne].
  - rewrite B2, !B1. unfold setnth. rewrite upd_length.
    replace (j <? N.of_nat (length (blist s i))) with true by lia.
    apply upd_upd_same. exact Hn.
  - rewrite A2, A1 by exact Hne. reflexivity.
Qed.

Lemma revict_full_lists fuel : forall s s0 index (curr : bytes) draws items s',
  buckets_ok s -> index < size -> bfull s index -> curr <> [] ->
  Forall (fun k => k < 2 ^ 53) draws -> Forall (ritem_ok s) items ->
  same_listsG s0 (rundo s hdl items) ->
  revict h64 fuel s hdl index curr draws items false = RInsFull s' -> same_listsG s0 s'.
Proof.
  induction fuel as [|fuel IH]; intros s s0 index curr draws items s' Hok Hidx Hfull Hc Hdr Hit Hundo Hres; cbn [revict] in Hres.
  - injection Hres as <-. exact Hundo.
  - cbn [rq_key rq_size rq_bsize hdl] in Hres.
    assert (Hlen : rbk_get_length s (bk index) = bsize).
    { unfold rbk_get_length. fold (bcount s index). destruct (Hok index Hidx) as (Hcn & _). rewrite Hcn.
      destruct Hfull as (Hfo & Hfl). rewrite Hfo, Hfl.
      rewrite Z.mod_small by (assert (2 ^ 62 < 18446744073709551616) by (vm_compute; reflexivity); lia). lia. }
    rewrite Hlen in Hres.
    set (ri := rand_slot (hd 0 draws) bsize) in *.
    assert (Hri : ri <= bsize - 1).
    { unfold ri. apply rand_slot_le; [destruct draws; [simpl; lia|inversion Hdr; auto]|exact bsize_pos|].
      unfold two64. assert (2 ^ 62 < 18446744073709551616) by (vm_compute; reflexivity). lia. }
    assert (Hsi : ri < bsize) by lia.
    destruct (swap_view s index ri curr Hok Hidx Hfull Hsi Hc) as (Hok1 & _ & _ & Hmono & (prev & Hat & Hprev & Hnth)).
    rewrite Hat in Hres.
    set (s1 := rbk_set s (bk index) ri curr) in *.
    assert (Hsize : size <> 0) by lia.
    set (newi := N.lxor index (h64 prev) mod size) in *.
    assert (Hnewi : newi < size) by (apply N.mod_lt; exact Hsize).
    destruct (rbk_is_free s1 (bk newi) bsize) eqn:Hfree; [discriminate|].
    assert (Hfull1 : bfull s1 newi) by (apply not_free_full; [apply Hok1; exact Hnewi|exact Hfree]).
    assert (Hit1 : Forall (ritem_ok s1) ((prev, index, ri) :: items)).
    { constructor.
      - simpl. split; [exact Hprev|]. split; [exact Hidx|]. split; [apply Hmono; exact Hfull|exact Hsi].
      - rewrite Forall_forall in *. intros it Hin. eapply ritem_ok_mono; eauto. }
    assert (Hundo1 : same_listsG s0 (rundo s1 hdl ((prev, index, ri) :: items))).
    { cbn [rundo rq_key hdl]. intros j. rewrite <- (Hundo j).
      apply (rundo_lists_congrG items s (rbk_set s1 (bk index) ri prev)). apply set_backG; [lia|exact Hnth]. }
    apply (IH s1 s0 newi prev (tl draws) ((prev, index, ri) :: items) s' Hok1 Hnewi Hfull1 Hprev
              ltac:(destruct draws; simpl; [constructor|inversion Hdr; auto]) Hit1 Hundo1 Hres).
Qed.

(* with the non-destructive option a "filter is full" failure leaves every bucket list, every
   bucket counter and the Length field exactly as they were *)
Theorem rinsert_full_nondestructive s c x coin draws fp i1 i2 s' :
  buckets_ok s -> mlen s = Some c ->
  rck_positions h64 hdl x = Ok (fp, i1, i2) -> fp <> [] -> i1 < size -> i2 < size ->
  Forall (fun k => k < 2 ^ 53) draws ->
  rck_insert h64 s hdl x false coin draws = RInsFull s' ->
  (forall j, blist s' j = blist s j) /\ buckets_ok s' /\ tot s' = tot s /\ mlen s' = Some c.
Proof.
  intros Hok Hm Hpos Hfp H1 H2 Hdr Hres.
  pose proof (rinsert_ok s c x false coin draws fp i1 i2 Hok Hm Hpos Hfp H1 H2 Hdr) as Hr.
  rewrite Hres in Hr. simpl in Hr. split; [|exact Hr].
  unfold rck_insert in Hres. rewrite Hpos in Hres. cbn [rq_size rq_key rq_bsize rq_retries hdl] in Hres.
  replace (size =? 0) with false in Hres by lia.
  destruct (rbk_is_free s (bk i1) bsize) eqn:Hf1; [discriminate|].
  destruct (rbk_is_free s (bk i2) bsize) eqn:Hf2; [discriminate|].
  apply (revict_full_lists (N.to_nat retries) s s (if coin then i1 else i2) fp draws [] s' Hok); auto.
  - destruct coin; assumption.
  - destruct coin; apply not_free_full; auto.
  - intros j. reflexivity.
Qed.
End Filter.
