(* FrameAll.v — C19, the other half: what the OTHER structures may do. For the answers of one
   structure to be those it gives alone it is enough that every call of every other structure
   writes only keys outside the first structure's key set — it may read whatever it likes.
   Proved here: the generic theorem in that form, and write-confinement of the calls that are not
   plain updates or queries: creation, import (under any keys) and re-attachment, for all five
   Redis-backed kinds. *)
From GX.Model Require Import Base HLL Cuckoo Redis RedisCMS RedisHLL RedisBloom RedisCuckoo Heap TopK RedisTopK.
From GX.Proofs Require Import ListLemmas RedisProofs AttachProofs FrameProofs CuckooFrame TopKFrame RedisTopKDoc.
From Coq Require Import ZArith Lia.
Open Scope N_scope.

Definition writes_only (K : keyset) (f : store -> store) : Prop :=
  forall s k, ~ K k -> sget (f s) k = sget s k.

Lemma writes_only_weaken (K K' : keyset) f : (forall k, K k -> K' k) -> writes_only K f -> writes_only K' f.
Proof. intros Hsub H s k Hk. apply H. intros Hk'. apply Hk. apply Hsub. exact Hk'. Qed.

Lemma writes_only_comp K f g : writes_only K f -> writes_only K g -> writes_only K (fun s => g (f s)).
Proof. intros Hf Hg s k Hk. rewrite Hg by exact Hk. apply Hf. exact Hk. Qed.

Lemma local_writes_only {O} K (f : op O) : local K f -> writes_only K (fun s => fst (f s)).
Proof. intros [H _]. exact H. Qed.

(* ---------- the generic theorem, with write-confined foreign calls ---------- *)
Section NonInterference.
Variable O : Type.
Variable K1 : keyset.

(* a step of the interleaved program: an operation of structure 1 with an answer, or any call of
   any other structure (its answer is not ours to predict) *)
Inductive step := Own (f : op O) | Foreign (g : store -> store).

Definition step_ok (p : step) : Prop :=
  match p with
  | Own f => local K1 f
  | Foreign g => forall s k, K1 k -> sget (g s) k = sget s k
  end.

Fixpoint run_mixed' (s : store) (prog : list step) : list O :=
  match prog with
  | [] => []
  | Own f :: t => snd (f s) :: run_mixed' (fst (f s)) t
  | Foreign g :: t => run_mixed' (g s) t
  end.
Fixpoint run_alone' (s : store) (prog : list step) : list O :=
  match prog with
  | [] => []
  | Own f :: t => snd (f s) :: run_alone' (fst (f s)) t
  | Foreign _ :: t => run_alone' s t
  end.

Theorem non_interference_foreign prog : Forall step_ok prog ->
  forall s s', agree K1 s s' -> run_mixed' s prog = run_alone' s' prog.
Proof.
  induction 1 as [|p t Hp _ IH]; intros s s' Ha; [reflexivity|].
  destruct p as [f|g]; cbn [run_mixed' run_alone']; cbn [step_ok] in Hp.
  - destruct Hp as [_ Hl]. destruct (Hl s s' Ha) as [Ho Ha']. rewrite Ho. f_equal. apply IH. exact Ha'.
  - apply IH. intros k Hk. rewrite Hp by exact Hk. apply Ha. exact Hk.
Qed.

(* a call confined to a key set disjoint from K1 is a legitimate foreign step *)
Lemma foreign_of_writes_only (K2 : keyset) (g : store -> store) : (forall k, K1 k -> K2 k -> False) -> writes_only K2 g ->
  step_ok (Foreign g).
Proof. intros Hd Hw s k Hk. apply Hw. intros H2. exact (Hd k Hk H2). Qed.
End NonInterference.

(* ---------- Count-Min: creation and import ---------- *)
Definition Kcms_all (key meta : bytes) : keyset := fun k => k = meta \/ Kcms key k.

Lemma cms_new_writes s rows cols key meta k : ~ Kcms_all key meta k ->
  sget (snd (rcms_new s rows cols key meta)) k = sget s k.
Proof.
  intros Hk. unfold rcms_new. destruct ((rows =? 0) || (cols =? 0)); [reflexivity|]. cbn [snd].
  rewrite init_rows_frame by (intros r E; apply Hk; right; exists r; symmetry; exact E).
  apply r_hset_frame. intros E. apply Hk. left. exact E.
Qed.

Lemma set_matrix_writes key m : forall s k, ~ Kcms key k -> sget (rcms_set_matrix s key m) k = sget s k.
Proof.
  unfold rcms_set_matrix.
  assert (H : forall (m : list (list N)) acc k, ~ Kcms key k ->
            sget (fst (fold_left (fun (acc : store * N) row =>
                    (r_rpush (sdel (fst acc) (row_key key (snd acc))) (row_key key (snd acc)) (map dec row), snd acc + 1))
                    m acc)) k = sget (fst acc) k).
  { induction m0 as [|row t IH]; intros acc k Hk; cbn [fold_left]; [reflexivity|].
    rewrite IH by exact Hk. cbn [fst snd].
    assert (Hne : k <> row_key key (snd acc)) by (intros E; apply Hk; exists (snd acc); exact E).
    rewrite r_rpush_frame by exact Hne. apply sdel_frame. exact Hne. }
  intros s k Hk. apply (H m (s, 0) k Hk).
Qed.

(* ---------- HyperLogLog: creation and import ---------- *)
Definition Kpair (key meta : bytes) : keyset := fun k => k = key \/ k = meta.

Lemma hll_new_writes s m alpha key meta k : ~ Kpair key meta k ->
  sget (snd (rhll_new s m alpha key meta)) k = sget s k.
Proof.
  intros Hk. assert (Hkey : k <> key) by (intros E; apply Hk; left; exact E).
  assert (Hmeta : k <> meta) by (intros E; apply Hk; right; exact E).
  unfold rhll_new. destruct (hll_abstract m); try reflexivity.
  destruct (m =? 1); cbn [snd].
  - apply r_hset_frame. exact Hmeta.
  - rewrite !r_lpush_frame by exact Hkey. apply r_hset_frame. exact Hmeta.
Qed.

Lemma hll_import_writes s h m p alpha regs key k : ~ Kpair key (rh_meta h) k ->
  sget (snd (rhll_import s h m p alpha regs key)) k = sget s k.
Proof.
  intros Hk. assert (Hkey : k <> key) by (intros E; apply Hk; left; exact E).
  assert (Hmeta : k <> rh_meta h) by (intros E; apply Hk; right; exact E).
  unfold rhll_import. destruct regs as [|r t]; cbn [snd].
  - rewrite sdel_frame by exact Hkey. apply r_hset_frame. exact Hmeta.
  - rewrite r_rpush_frame by exact Hkey. rewrite sdel_frame by exact Hkey. apply r_hset_frame. exact Hmeta.
Qed.

(* ---------- Bloom: creation, re-attachment (which allocates a junk bitset), import ---------- *)
Lemma bloom_new_writes s size0 k0 key meta k : ~ Kpair key meta k ->
  sget (snd (rbloom_new s size0 k0 key meta)) k = sget s k.
Proof.
  intros Hk. assert (Hkey : k <> key) by (intros E; apply Hk; left; exact E).
  assert (Hmeta : k <> meta) by (intros E; apply Hk; right; exact E).
  unfold rbloom_new. cbn [snd]. rewrite r_hset_frame by exact Hmeta. apply r_set_frame. exact Hkey.
Qed.

Lemma bloom_attach_writes s meta junk k : k <> junk -> sget (snd (rbloom_attach s meta junk)) k = sget s k.
Proof.
  intros Hk. unfold rbloom_attach. destruct (r_get s _); cbn [snd]; [|reflexivity]. apply r_set_frame. exact Hk.
Qed.

Lemma bloom_import_writes s h m k0 raw k : ~ Kpair (rb_key h) (rb_meta h) k ->
  sget (snd (rbloom_import s h m k0 raw)) k = sget s k.
Proof.
  intros Hk. assert (Hkey : k <> rb_key h) by (intros E; apply Hk; left; exact E).
  assert (Hmeta : k <> rb_meta h) by (intros E; apply Hk; right; exact E).
  unfold rbloom_import. destruct (rb_nil h); [reflexivity|]. destruct (length raw <? 8)%nat; [reflexivity|].
  cbn [snd]. destruct (rb_meta h) as [|c mk] eqn:Em.
  - apply r_set_frame. exact Hkey.
  - rewrite r_hset_frame by exact Hmeta. apply r_set_frame. exact Hkey.
Qed.

(* ---------- cuckoo: creation, re-attachment, import ---------- *)
Lemma fold_incr0_writes h l : forall s k, ~ Kck h k ->
  sget (fold_left (fun st bk => incr0 st (len_key bk)) (map (bucket_key (rq_key h)) l) s) k = sget s k.
Proof.
  induction l as [|i t IH]; intros s k Hk; cbn [map fold_left]; [reflexivity|].
  rewrite IH by exact Hk. apply incr0_frame. apply notK_len. exact Hk.
Qed.

Lemma ck_init_writes h s k : ~ Kck h k -> sget (rck_init_buckets s h) k = sget s k.
Proof.
  intros Hk. unfold rck_init_buckets. rewrite fold_incr0_writes by exact Hk.
  assert (Hkey : k <> rq_key h) by (intros E; apply Hk; right; left; exact E).
  rewrite r_lpush_frame by exact Hkey. apply sdel_frame. exact Hkey.
Qed.

Lemma ck_new_writes s size bsize fpl retries key meta k :
  ~ Kck (mkRck size bsize fpl retries key meta) k ->
  sget (snd (rck_new s size bsize fpl retries key meta)) k = sget s k.
Proof.
  intros Hk. unfold rck_new. cbn [snd]. rewrite ck_init_writes by exact Hk.
  unfold rck_set_metadata. apply r_hset_frame. apply (notK_meta _ _ Hk).
Qed.

Lemma ck_attach_writes s meta k : ~ Kck (fst (rck_attach s meta)) k ->
  sget (snd (rck_attach s meta)) k = sget s k.
Proof. intros Hk. unfold rck_attach in *. cbn [fst snd] in *. apply fold_incr0_writes. exact Hk. Qed.

Lemma ck_import_writes s size bsize fpl retries len bks key meta k :
  ~ Kck (mkRck size bsize fpl retries key meta) k ->
  sget (snd (rck_import s size bsize fpl retries len bks key meta)) k = sget s k.
Proof.
  intros Hk. unfold rck_import. cbn [snd].
  set (h := mkRck size bsize fpl retries key meta) in *.
  assert (H : forall pairs st, sget (fold_left (fun st ib => let bk := bucket_key key (fst ib) in
                                   rbk_restore (incr0 st (len_key bk)) bk (snd ib)) pairs st) k = sget st k).
  { induction pairs as [|[i e] t IH]; intros st; cbn [fold_left]; [reflexivity|]. rewrite IH. cbn [fst snd].
    unfold rbk_restore.
    assert (H1 : k <> bucket_key key i) by (apply (notK_bucket h i k Hk)).
    assert (H2 : k <> len_key (bucket_key key i)) by (apply (notK_len h i k Hk)).
    rewrite r_set_frame by exact H2. rewrite r_rpush_frame by exact H1. rewrite sdel_frame by exact H1.
    apply incr0_frame. exact H2. }
  rewrite H. rewrite ck_init_writes by exact Hk. unfold rck_set_metadata. apply r_hset_frame. apply (notK_meta _ _ Hk).
Qed.

(* ---------- Top-K: creation and the heap half of import ---------- *)
Definition Ktk_all (skey smeta hkey meta : bytes) : keyset :=
  fun k => k = meta \/ k = hkey \/ k = smeta \/ Kcms skey k.

Lemma topk_new_writes s k0 rows cols er acc ertxt acctxt skey smeta hkey meta k :
  ~ Ktk_all skey smeta hkey meta k ->
  sget (snd (rtopk_new s k0 rows cols er acc ertxt acctxt skey smeta hkey meta)) k = sget s k.
Proof.
  intros Hk. unfold rtopk_new.
  assert (Hc : sget (snd (rcms_new s rows cols skey smeta)) k = sget s k).
  { apply cms_new_writes. intros [E|E]; apply Hk; [right; right; left; exact E|right; right; right; exact E]. }
  destruct (rcms_new s rows cols skey smeta) as [[sk|e|p] s1]; cbn [snd] in *; try exact Hc.
  rewrite r_hset_frame by (intros E; apply Hk; left; exact E). exact Hc.
Qed.

Lemma topk_import_heap_writes s hkey entries k : k <> hkey ->
  sget (rtopk_import_heap s hkey entries) k = sget s k.
Proof. apply rtopk_import_heap_frame. Qed.
