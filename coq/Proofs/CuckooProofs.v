(* Proofs about the in-memory cuckoo filter model. *)
From GX.Model Require Import Base Cuckoo.
From GX.Proofs Require Import ListLemmas.
From Coq Require Import Lia ZifyN ZifyNat ZifyBool.

(* ---------- the alternate-bucket map is an involution for power-of-two sizes ---------- *)
Definition alt (size b h : N) : N := N.lxor b h mod size.

Lemma mod_pow2_land x j : x mod 2 ^ j = N.land x (N.ones j).
Proof. now rewrite N.land_ones. Qed.

Lemma alt_involutive_pow2 j b h : b < 2 ^ j -> alt (2 ^ j) (alt (2 ^ j) b h) h = b.
Proof.
  intros Hb. unfold alt. rewrite !mod_pow2_land.
  apply N.bits_inj. intros n.
  rewrite N.land_spec, N.lxor_spec, N.land_spec, N.lxor_spec.
  destruct (N.ltb_spec n j) as [Hlt|Hge].
  - rewrite N.ones_spec_low by lia. rewrite !andb_true_r.
    destruct (N.testbit b n), (N.testbit h n); reflexivity.
  - rewrite N.ones_spec_high by lia. rewrite !andb_false_r.
    rewrite <- (N.mod_small b (2 ^ j)) by exact Hb. symmetry. apply N.mod_pow2_bits_high. lia.
Qed.

Lemma alt_lt size b h : 0 < size -> alt size b h < size.
Proof. intros; unfold alt; apply N.mod_lt; lia. Qed.

(* not an involution in general: size 7 *)
Lemma alt_not_involutive : exists size b h, b < size /\ alt size (alt size b h) h <> b.
Proof. exists 7, 1, 6. split; [reflexivity|]. vm_compute. discriminate. Qed.

Section CuckooProofs.
Variable h64 : bytes -> N.

(* Remove succeeds exactly when Lookup answers true, and a failed Remove changes nothing *)
Lemma remove_iff_lookup f x :
  match ck_lookup h64 f x, ck_remove h64 f x with
  | Ok l, Ok (r, f') => l = r /\ (r = false -> f' = f)
  | Panic t, Panic t' => t = t'
  | Err t, Err t' => t = t'
  | _, _ => False
  end.
Proof.
  unfold ck_lookup, ck_remove.
  destruct (ck_positions h64 f x) as [[[fp i1] i2]|t|t]; cbn [obind]; auto.
  destruct (get_bucket f i1) as [b1|t|t]; cbn [obind]; auto.
  destruct (bk_lookup b1 fp).
  - split; [reflexivity|discriminate].
  - destruct (get_bucket f i2) as [b2|t|t]; cbn [obind]; auto.
    destruct (bk_lookup b2 fp); split; auto; discriminate.
Qed.

(* length bookkeeping of Insert: +1 exactly on success, unchanged on every failure *)
Definition len_of (r : ins_result) : N :=
  match r with InsOk f => q_len f | InsFull f => q_len f | InsPanic _ f => q_len f end.

Lemma set_bucket_len f i b : q_len (set_bucket f i b) = q_len f.
Proof. reflexivity. Qed.

Lemma add_at_len f i e f' : add_at f i e = Ok f' -> q_len f' = q_len f.
Proof.
  unfold add_at. destruct (get_bucket f i) as [b|t|t]; cbn [obind]; try discriminate.
  destruct (bk_add b e) as [r|t|t]; cbn [obind]; try discriminate. now intros [= <-].
Qed.

Lemma undo_one_len f it f' : undo_one f it = Ok f' -> q_len f' = q_len f.
Proof.
  destruct it as [[fp bi] si]. unfold undo_one.
  destruct (get_bucket f bi) as [b|t|t]; cbn [obind]; try discriminate.
  destruct (si <? N.of_nat (length (k_slots b))); try discriminate. now intros [= <-].
Qed.

Lemma undo_all_len items : forall f f', undo_all f items = Ok f' -> q_len f' = q_len f.
Proof.
  induction items as [|it t IH]; intros f f'; cbn [undo_all].
  - now intros [= <-].
  - destruct (undo_one f it) as [f1|e|e] eqn:E; cbn [obind]; try discriminate.
    intros H. rewrite (IH _ _ H). eapply undo_one_len; eauto.
Qed.

Lemma evict_loop_len fuel : forall f index curr draws items destr,
  match evict_loop h64 fuel f index curr draws items destr with
  | InsOk f' => q_len f' = wrap64 (q_len f + 1)
  | InsFull f' => q_len f' = q_len f
  | InsPanic _ f' => q_len f' = q_len f
  end.
Proof.
  induction fuel as [|fuel IH]; intros f index curr draws items destr; cbn [evict_loop].
  - destruct destr; [reflexivity|].
    destruct (undo_all f items) as [f'|t|t] eqn:E; auto. eapply undo_all_len; eauto.
  - destruct (get_bucket f index) as [b|t|t]; auto.
    destruct (nthN (k_slots b) (rand_slot (hd 0 draws) (k_len b))) as [prev|]; auto.
    set (f1 := set_bucket f index _).
    set (newi := N.lxor index (h64 prev) mod N.of_nat (length (q_buckets f))).
    destruct (get_bucket f1 newi) as [nb|t|t]; auto.
    destruct (bk_is_free nb).
    + destruct (add_at f1 newi prev) as [f2|t|t] eqn:E; auto.
      cbn [incr_len q_len]. now rewrite (add_at_len _ _ _ _ E).
    + specialize (IH f1 newi prev (tl draws) ((prev, index, rand_slot (hd 0 draws) (k_len b)) :: items) destr).
      destruct (evict_loop h64 fuel f1 newi prev (tl draws) _ destr); exact IH.
Qed.

Theorem insert_len f x destr coin draws :
  match ck_insert h64 f x destr coin draws with
  | InsOk f' => q_len f' = wrap64 (q_len f + 1)
  | InsFull f' => q_len f' = q_len f
  | InsPanic _ f' => q_len f' = q_len f
  end.
Proof.
  unfold ck_insert.
  destruct (ck_positions h64 f x) as [[[fp i1] i2]|t|t]; auto.
  destruct (get_bucket f i1) as [b1|t|t]; auto.
  destruct (bk_is_free b1).
  - destruct (add_at f i1 fp) as [f'|t|t] eqn:E; auto. cbn [incr_len q_len]. now rewrite (add_at_len _ _ _ _ E).
  - destruct (get_bucket f i2) as [b2|t|t]; auto.
    destruct (bk_is_free b2).
    + destruct (add_at f i2 fp) as [f'|t|t] eqn:E; auto. cbn [incr_len q_len]. now rewrite (add_at_len _ _ _ _ E).
    + apply evict_loop_len.
Qed.

(* exhausting the retries is always signalled: with fuel 0 the loop never returns success *)
Lemma evict_exhausted_signals f index curr draws items destr :
  match evict_loop h64 0 f index curr draws items destr with InsOk _ => False | _ => True end.
Proof. cbn [evict_loop]. destruct destr; auto. destruct (undo_all f items); auto. Qed.
End CuckooProofs.
