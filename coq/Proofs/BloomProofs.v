(* Proofs about the in-memory Bloom model: bits only grow, insert sets every probe position,
   lookup tests the same positions. Parametric in the probe-position function. *)
From GX.Model Require Import Base Bloom.
From GX.Proofs Require Import ListLemmas.
From Coq Require Import Lia ZifyN ZifyNat ZifyBool.

Lemma setnth_length {A} (l : list A) i v : length (setnth l i v) = length l.
Proof. apply upd_length. Qed.

Lemma bits_test_set_same bits i : bits_test (bits_set bits i) i = true.
Proof.
  unfold bits_test, bits_set. destruct (N.to_nat i <? length bits)%nat eqn:E.
  - apply Nat.ltb_lt in E. unfold setnth. now rewrite nth_upd_same.
  - apply Nat.ltb_ge in E. rewrite app_nth2 by lia. rewrite app_nth2 by (rewrite repeat_length; lia).
    rewrite repeat_length. replace (_ - _ - _)%nat with 0%nat by lia. reflexivity.
Qed.

Lemma bits_test_set_mono bits i j : bits_test bits j = true -> bits_test (bits_set bits i) j = true.
Proof.
  unfold bits_test, bits_set. intros H.
  assert (Hj : (N.to_nat j < length bits)%nat).
  { destruct (Nat.lt_ge_cases (N.to_nat j) (length bits)) as [|Hge]; auto.
    rewrite nth_overflow in H by lia. discriminate. }
  destruct (N.to_nat i <? length bits)%nat eqn:E.
  - unfold setnth. destruct (Nat.eq_dec (N.to_nat j) (N.to_nat i)) as [Heq|Hne].
    + rewrite Heq. apply Nat.ltb_lt in E. now rewrite nth_upd_same.
    + now rewrite nth_upd_other.
  - now rewrite app_nth1.
Qed.

Lemma fold_set_mono l bits j :
  bits_test bits j = true -> bits_test (fold_left bits_set l bits) j = true.
Proof.
  revert bits; induction l as [|i t IH]; simpl; intros bits H; auto.
  apply IH. now apply bits_test_set_mono.
Qed.

Lemma fold_set_in l bits j : In j l -> bits_test (fold_left bits_set l bits) j = true.
Proof.
  revert bits; induction l as [|i t IH]; simpl; intros bits Hin; [tauto|].
  destruct Hin as [->|H].
  - apply fold_set_mono. apply bits_test_set_same.
  - now apply IH.
Qed.

Section BloomProofs.
Variable bpos : N -> N -> bytes -> list N.

Inductive bop := BInsert (x : bytes) | BLookup (x : bytes).
(* Insert / InsertString and Lookup / LookupString act on the same bytes *)
Definition bstep (s : bloom) (o : bop) : bloom :=
  match o with BInsert x => bloom_insert bpos s x | BLookup _ => s end.
Definition brun (s : bloom) (ops : list bop) : bloom := fold_left bstep ops s.

(* all bits set in s are set in s', same parameters *)
Definition grows (s s' : bloom) : Prop :=
  b_size s' = b_size s /\ b_k s' = b_k s /\
  forall j, bits_test (b_bits s) j = true -> bits_test (b_bits s') j = true.

Lemma grows_refl s : grows s s.
Proof. repeat split; auto. Qed.

Lemma grows_trans a b c : grows a b -> grows b c -> grows a c.
Proof. intros (H1 & H2 & H3) (H4 & H5 & H6). repeat split; try congruence. auto. Qed.

Lemma insert_grows s x : grows s (bloom_insert bpos s x).
Proof. repeat split; auto. intros j H. unfold bloom_insert; cbn [b_bits]. now apply fold_set_mono. Qed.

Lemma brun_grows s ops : grows s (brun s ops).
Proof.
  revert s; induction ops as [|o t IH]; intros s; cbn [brun fold_left].
  - apply grows_refl.
  - apply grows_trans with (b := bstep s o); [|apply (IH (bstep s o))].
    destruct o as [x|x]; cbn [bstep]; [exact (insert_grows s x)|exact (grows_refl s)].
Qed.

Lemma lookup_after_insert s x : bloom_lookup bpos (bloom_insert bpos s x) x = true.
Proof.
  unfold bloom_lookup, bloom_insert, bloom_positions; cbn [b_bits b_size b_k b_bsize].
  apply forallb_forall. intros j Hj. now apply fold_set_in.
Qed.

Lemma lookup_grows s s' x : grows s s' -> bloom_lookup bpos s x = true -> bloom_lookup bpos s' x = true.
Proof.
  intros (Hs & Hk & Hb). unfold bloom_lookup, bloom_positions. rewrite Hs, Hk.
  rewrite !forallb_forall. intros H j Hj. apply Hb. now apply H.
Qed.

Theorem no_false_negative s ops1 x ops2 :
  bloom_lookup bpos (brun (bloom_insert bpos (brun s ops1) x) ops2) x = true.
Proof. eapply lookup_grows; [exact (brun_grows _ ops2)|]. apply lookup_after_insert. Qed.

(* a filter with no bit set reports every element absent, as soon as there is a probe *)
Lemma test_repeat_false n j : bits_test (repeat false n) j = false.
Proof.
  unfold bits_test. destruct (Nat.lt_ge_cases (N.to_nat j) n).
  - apply nth_repeat.
  - apply nth_overflow. rewrite repeat_length; lia.
Qed.

Theorem empty_all_absent size0 k0 s x :
  bloom_new_params size0 k0 = Ok s -> bpos (b_size s) (b_k s) x <> [] ->
  bloom_lookup bpos s x = false.
Proof.
  unfold bloom_new_params, bloom_with_bitset.
  destruct (negb (size0 =? N.max size0 1)); [discriminate|]. intros [= <-] Hne.
  unfold bloom_lookup, bloom_positions in *; cbn [b_size b_k b_bits] in *.
  destruct (bpos _ _ x) as [|j l]; [congruence|]. cbn [forallb].
  now rewrite test_repeat_false.
Qed.

End BloomProofs.

Theorem ctor_clamps size0 k0 s : bloom_new_params size0 k0 = Ok s -> 1 <= b_size s /\ 1 <= b_k s.
Proof.
  unfold bloom_new_params, bloom_with_bitset.
  destruct (negb (size0 =? N.max size0 1)); [discriminate|]. intros [= <-]; cbn. lia.
Qed.

Theorem from_bits_clamps bits k0 : 1 <= b_size (bloom_from_bits bits k0) /\ 1 <= b_k (bloom_from_bits bits k0).
Proof. unfold bloom_from_bits; cbn. lia. Qed.


(* the probe formula of the code yields exactly k in-range positions *)
Lemma bpos_metro_len metro size k x : length (bpos_metro metro size k x) = N.to_nat k.
Proof. unfold bpos_metro; now rewrite map_length, nseq_length. Qed.

Lemma bpos_metro_lt metro size k x p : 0 < size -> In p (bpos_metro metro size k x) -> p < size.
Proof.
  intros Hs Hin. unfold bpos_metro in Hin. apply in_map_iff in Hin as (j & <- & _).
  unfold bloom_index. apply N.mod_lt; lia.
Qed.

Lemma bpos_metro_nonempty metro size k x : 1 <= k -> bpos_metro metro size k x <> [].
Proof.
  intros Hk E. apply (f_equal (@length _)) in E. rewrite bpos_metro_len in E. simpl in E. lia.
Qed.
