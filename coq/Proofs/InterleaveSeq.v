(* InterleaveSeq.v — C16 on the interleaving semantics itself (Model/Interleave.v, the semantics
   the scheduler of the harness follows on the real code):
   - an update that is ONE atomic step (the Count-Min and HyperLogLog update scripts): whatever the
     schedule, the outcome of two concurrent updates is the outcome of running them one after
     the other, in one of the two orders;
   - the Bloom insert, one SETBIT per probe position, each its own atomic step: whatever the
     schedule, afterwards exactly the probe positions of both inserts have been added to the bits
     that were set -- which is what the two inserts one after another give. *)
From GX.Model Require Import Base Redis RedisCMS RedisHLL RedisBloom Interleave.
From GX.Proofs Require Import ListLemmas RedisProofs RedisBloomRefine.
From Coq Require Import Lia Bool.

(* ---------- one-step programs ---------- *)
Definition one_step (l : N) (f : store -> store) (r : N) : prog := Step l (fun s => (f s, Done r)).

Theorem one_step_interleave sched fuel l1 f1 r1 l2 f2 r2 s : (2 <= fuel)%nat ->
  interleave sched fuel (one_step l1 f1 r1) (one_step l2 f2 r2) s = (f2 (f1 s), Some r1, Some r2) \/
  interleave sched fuel (one_step l1 f1 r1) (one_step l2 f2 r2) s = (f1 (f2 s), Some r1, Some r2).
Proof.
  intros Hf.
  assert (Fuel : exists n, fuel = S (S n)) by (destruct fuel as [|[|n]]; try lia; eauto). destruct Fuel as (n & ->).
  (* after A has stepped: B still to go *)
  assert (HA : forall sch s1, interleave sch (S (S n)) (Done r1) (one_step l2 f2 r2) s1 = (f2 s1, Some r1, Some r2)).
  { induction sch as [|t sch IH]; intros s1.
    - reflexivity.
    - destruct t; cbn [interleave one_step]; [apply IH|].
      clear IH. induction sch as [|t2 sch IH2]; [reflexivity|]. destruct t2; cbn [interleave]; exact IH2. }
  assert (HB : forall sch s1, interleave sch (S (S n)) (one_step l1 f1 r1) (Done r2) s1 = (f1 s1, Some r1, Some r2)).
  { induction sch as [|t sch IH]; intros s1.
    - reflexivity.
    - destruct t; cbn [interleave one_step]; [|apply IH].
      clear IH. induction sch as [|t2 sch IH2]; [reflexivity|]. destruct t2; cbn [interleave]; exact IH2. }
  induction sched as [|t sch IH].
  - left. reflexivity.
  - destruct t; cbn [interleave]; unfold one_step at 1 2; cbn [interleave].
    + left. fold (one_step l2 f2 r2). apply HA.
    + right. fold (one_step l1 f1 r1). apply HB.
Qed.

(* the Count-Min and HyperLogLog update calls are such programs *)
Lemma cms_update_is_one_step cpos h x c :
  cms_update_prog cpos h x c = one_step L_EVAL (fun s => snd (rcms_update cpos s h x c)) 1.
Proof. reflexivity. Qed.
Lemma hll_update_is_one_step hic h x :
  hll_update_prog hic h x = one_step L_EVAL (fun s => snd (rhll_update hic s h x)) 1.
Proof. reflexivity. Qed.

(* ---------- Bloom: one SETBIT per probe position ---------- *)
Definition has (j : N) (ps : list N) : bool := existsb (N.eqb j) ps.

Lemma run_bloom key : forall ps fuel s j, (length ps < fuel)%nat ->
  exists s' tr, run_prog fuel (bloom_insert_prog key ps) s = (s', Some 1, tr) /\
                r_getbit s' key j = has j ps || r_getbit s key j.
Proof.
  induction ps as [|p t IH]; intros fuel s j Hf; (destruct fuel as [|fuel]; [cbn in Hf; lia|]).
  - cbn [run_prog bloom_insert_prog]. eauto.
  - cbn [run_prog bloom_insert_prog].
    destruct (IH fuel (r_setbit1 s key p) j ltac:(cbn [length] in Hf; lia)) as (s' & tr & E & G).
    rewrite E. eexists _, _. split; [reflexivity|]. rewrite G, getbit_setbit. cbn [has existsb].
    fold (has j t). destruct (j =? p), (has j t), (r_getbit s key j); reflexivity.
Qed.

Theorem bloom_interleave key j : forall sched fuel psa psb s, (length psa + length psb < fuel)%nat ->
  exists s', interleave sched fuel (bloom_insert_prog key psa) (bloom_insert_prog key psb) s = (s', Some 1, Some 1) /\
             r_getbit s' key j = has j psa || has j psb || r_getbit s key j.
Proof.
  induction sched as [|t sch IH]; intros fuel psa psb s Hf.
  - cbn [interleave].
    destruct (run_bloom key psa fuel s j ltac:(lia)) as (s1 & tr1 & E1 & G1). rewrite E1.
    destruct (run_bloom key psb fuel s1 j ltac:(lia)) as (s2 & tr2 & E2 & G2). rewrite E2.
    exists s2. split; [reflexivity|]. rewrite G2, G1.
    destruct (has j psa), (has j psb), (r_getbit s key j); reflexivity.
  - destruct t; cbn [interleave].
    + destruct psa as [|p psa']; cbn [bloom_insert_prog].
      * apply (IH fuel [] psb s Hf).
      * destruct (IH fuel psa' psb (r_setbit1 s key p) ltac:(cbn [length] in Hf; lia)) as (s' & E & G).
        exists s'. split; [exact E|]. rewrite G, getbit_setbit. cbn [has existsb]. fold (has j psa').
        destruct (j =? p), (has j psa'), (has j psb), (r_getbit s key j); reflexivity.
    + destruct psb as [|p psb']; cbn [bloom_insert_prog].
      * apply (IH fuel psa [] s Hf).
      * destruct (IH fuel psa psb' (r_setbit1 s key p) ltac:(cbn [length] in Hf; lia)) as (s' & E & G).
        exists s'. split; [exact E|]. rewrite G, getbit_setbit. cbn [has existsb]. fold (has j psb').
        destruct (j =? p), (has j psa), (has j psb'), (r_getbit s key j); reflexivity.
Qed.
