(* Generic list / arithmetic lemmas used by the structure proofs. *)
From GX.Model Require Import Base.
From Coq Require Import Lia ZifyN ZifyNat ZifyBool Permutation.

Lemma upd_length {A} (l : list A) i f : length (upd l i f) = length l.
Proof. revert i; induction l as [|x t IH]; intros [|i]; simpl; auto. Qed.

Lemma nth_upd_same {A} (l : list A) i f d :
  (i < length l)%nat -> nth i (upd l i f) d = f (nth i l d).
Proof.
  revert i; induction l as [|x t IH]; intros [|i] H; simpl in *; try lia; auto.
  apply IH; lia.
Qed.

Lemma nth_upd_other {A} (l : list A) i k f d :
  k <> i -> nth k (upd l i f) d = nth k l d.
Proof.
  revert i k; induction l as [|x t IH]; intros [|i] [|k] H; simpl; auto; try congruence.
Qed.

Lemma upd_oob {A} (l : list A) i f : (length l <= i)%nat -> upd l i f = l.
Proof.
  revert i; induction l as [|x t IH]; intros [|i] H; simpl in *; auto; try lia.
  f_equal; apply IH; lia.
Qed.

Lemma nseq_length n : length (nseq n) = N.to_nat n.
Proof. unfold nseq; now rewrite map_length, seq_length. Qed.

Lemma nth_nseq n i d : (i < N.to_nat n)%nat -> nth i (nseq n) d = N.of_nat i.
Proof.
  intros H; unfold nseq.
  rewrite nth_indep with (d' := N.of_nat 0) by (rewrite map_length, seq_length; lia).
  rewrite map_nth, seq_nth by lia; reflexivity.
Qed.

Lemma In_nseq n x : In x (nseq n) <-> x < n.
Proof.
  unfold nseq; rewrite in_map_iff; split.
  - intros (k & <- & Hk); apply in_seq in Hk; lia.
  - intros H; exists (N.to_nat x); split; [lia|]; apply in_seq; lia.
Qed.

Lemma list_ext_nth {A} (a b : list A) d :
  length a = length b ->
  (forall i, (i < length a)%nat -> nth i a d = nth i b d) -> a = b.
Proof. intros; eapply nth_ext; eauto. Qed.

Lemma sumN_app a b : sumN (a ++ b) = sumN a + sumN b.
Proof. induction a; simpl; lia. Qed.

Lemma wrap64_spec x : wrap64 x = x mod two64.
Proof. unfold wrap64. rewrite N.land_ones. reflexivity. Qed.

Lemma wrap8_spec x : wrap8 x = x mod 256.
Proof. unfold wrap8. rewrite N.land_ones. reflexivity. Qed.

Lemma wrap64_small x : x < two64 -> wrap64 x = x.
Proof. intros; rewrite wrap64_spec; now apply N.mod_small. Qed.

Lemma wrap64_lt x : wrap64 x < two64.
Proof. rewrite wrap64_spec; apply N.mod_lt; unfold two64; lia. Qed.

(* min_list *)
Lemma fold_min_le l a : fold_left N.min l a <= a.
Proof. revert a; induction l as [|x t IH]; simpl; intros; [lia|]. specialize (IH (N.min a x)); lia. Qed.

Lemma fold_min_le_in l a v : In v l -> fold_left N.min l a <= v.
Proof.
  revert a; induction l as [|x t IH]; simpl; intros a Hin; [tauto|].
  destruct Hin as [->|H].
  - pose proof (fold_min_le t (N.min a v)); lia.
  - now apply IH.
Qed.

Lemma fold_min_ge l a lo : lo <= a -> (forall v, In v l -> lo <= v) -> lo <= fold_left N.min l a.
Proof.
  revert a; induction l as [|x t IH]; simpl; intros a Ha H; [lia|].
  apply IH; [|auto]. specialize (H x (or_introl eq_refl)); lia.
Qed.

Lemma min_list_le_in l v : In v l -> min_list l <= v.
Proof.
  destruct l as [|c cs]; simpl; [tauto|]; intros [->|H].
  - apply fold_min_le.
  - now apply fold_min_le_in.
Qed.

Lemma min_list_ge l lo : l <> [] -> (forall v, In v l -> lo <= v) -> lo <= min_list l.
Proof.
  destruct l as [|c cs]; simpl; [congruence|]; intros _ H.
  apply fold_min_ge; auto.
Qed.

Lemma min_list_all_eq l v : l <> [] -> (forall w, In w l -> w = v) -> min_list l = v.
Proof.
  intros Hn H. apply N.le_antisymm.
  - destruct l as [|c cs]; [congruence|]. pose proof (H c (or_introl eq_refl)) as Hc.
    pose proof (min_list_le_in (c :: cs) c (or_introl eq_refl)); lia.
  - apply min_list_ge; auto. intros w Hw; rewrite (H w Hw); lia.
Qed.

Lemma bytes_eqb_eq a b : bytes_eqb a b = true <-> a = b.
Proof.
  revert b; induction a as [|x a IH]; destruct b as [|y b]; simpl; split; try congruence; auto.
  - rewrite andb_true_iff, N.eqb_eq, IH; intros [-> ->]; reflexivity.
  - intros [= -> ->]; rewrite N.eqb_refl; simpl; now apply IH.
Qed.

Lemma bytes_eqb_refl a : bytes_eqb a a = true.
Proof. now apply bytes_eqb_eq. Qed.

Lemma combine_map_same {A B C} (f : A -> B) (g : A -> C) l :
  combine (map f l) (map g l) = map (fun x => (f x, g x)) l.
Proof. induction l; simpl; congruence. Qed.
