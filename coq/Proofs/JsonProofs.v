(* JsonProofs.v — Export/Import at the level of parsed documents: import (export s) = s. *)
From GX.Model Require Import Base CMS Bloom HLL Cuckoo Heap TopK Codec Persist.
From GX.Proofs Require Import ListLemmas.
From Coq Require Import Lia ZifyN ZifyNat ZifyBool.

Lemma map_tokN_TN l : map tok_N (map TN l) = l.
Proof. induction l; simpl; congruence. Qed.

Lemma rows_roundtrip m : map (fun row => map tok_N (tok_L row)) (map tlistN m) = m.
Proof.
  induction m as [|r m IH]; simpl; auto. rewrite IH. f_equal. unfold tlistN. simpl. apply map_tokN_TN.
Qed.

Theorem cms_doc_roundtrip s key : imp_cms (doc_cms s key) = Ok s.
Proof. unfold imp_cms, doc_cms. rewrite rows_roundtrip. destruct s; reflexivity. Qed.

Section Floats.
Variable ftext : N -> bytes.
Variable fbits : bytes -> N.

Theorem hll_doc_roundtrip h : fbits (ftext (h_alpha h)) = h_alpha h ->
  imp_hll fbits (doc_hll ftext h) = Ok h.
Proof. intros H. unfold imp_hll, doc_hll. rewrite H. destruct h; reflexivity. Qed.

Lemma entries_roundtrip h :
  Forall (fun e => json_string (fst e) = fst e) h ->
  map (fun e => match e with TL [TB v; TN f] => (v, f) | _ => ([], 0) end) (map doc_entry h) = h.
Proof.
  induction 1 as [|e h He Hh IH]; simpl; auto. rewrite IH. f_equal. unfold doc_entry. rewrite He. now destruct e.
Qed.

(* Top-K round trip for elements that are valid UTF-8 (json_string is the identity on them) *)
Theorem topk_doc_roundtrip p t :
  fbits (ftext (tp_er p)) = tp_er p -> fbits (ftext (tp_acc p)) = tp_acc p ->
  0 < c_rows (t_sketch t) -> 0 < c_cols (t_sketch t) ->
  Forall (fun e => json_string (fst e) = fst e) (t_heap t) ->
  imp_topk fbits (doc_topk ftext p t) = Ok (p, t).
Proof.
  intros He Ha Hr Hc Hh. unfold imp_topk, doc_topk, doc_cms.
  destruct (c_rows (t_sketch t) =? 0) eqn:E1; [lia|]. destruct (c_cols (t_sketch t) =? 0) eqn:E2; [lia|].
  cbn [orb]. rewrite He, Ha, rows_roundtrip, entries_roundtrip by exact Hh.
  destruct p, t as [k [r c s m] h]; reflexivity.
Qed.

(* REFUTED in general: an element that is not valid UTF-8 does not survive the JSON document *)
Theorem topk_doc_loses_binary_elements :
  json_string [255; 254] <> [255; 254].
Proof. vm_compute. discriminate. Qed.
End Floats.

(* ASCII strings are unchanged by the sanitiser *)
Lemma utf8_ascii fuel s : (length s <= fuel)%nat -> Forall (fun b => b < 128) s -> utf8_sanitize fuel s = s.
Proof.
  revert s; induction fuel as [|f IH]; intros s Hl Hs.
  - destruct s; [reflexivity|simpl in Hl; lia].
  - destruct s as [|b t]; [reflexivity|]. inversion Hs as [|? ? Hb Ht]; subst.
    cbn [utf8_sanitize rune_len]. destruct (N.ltb_spec b 128); [|lia].
    cbn [firstn skipn app]. f_equal. apply IH; auto. simpl in Hl; lia.
Qed.
Theorem json_string_ascii s : Forall (fun b => b < 128) s -> json_string s = s.
Proof. intros; unfold json_string; now apply utf8_ascii. Qed.
