(* DocProofs.v — C10 for the Bloom filter and the cuckoo filter: importing the exported document
   gives back the identical structure. Bloom: through the bitset bit-packing round trip
   (BloomCodec). Cuckoo: for every state satisfying the slot-count invariant (CuckooInv: every
   reachable state on elements with a non-empty fingerprint), incl. states with holes left by
   removes - Import puts every fingerprint back into the slot it came from. *)
From GX.Model Require Import Base CMS Bloom HLL Cuckoo Heap TopK Codec Persist.
From GX.Proofs Require Import ListLemmas CodecProofs BloomCodec CuckooInv.
From Coq Require Import ZArith Lia ZifyN ZifyNat ZifyBool.
Open Scope N_scope.

Theorem bloom_doc_roundtrip f :
  N.of_nat (length (b_bits f)) < two64 -> b_bsize f = N.of_nat (length (b_bits f)) ->
  imp_bloom (doc_bloom f) = Ok f.
Proof.
  intros Hl Hb. unfold imp_bloom, doc_bloom.
  pose proof (bitset_roundtrip (b_bits f) [] Hl) as H. rewrite app_nil_r in H. rewrite H. cbn [obind].
  destruct f as [sz k bs bits]; cbn [b_size b_k b_bsize b_bits] in *. rewrite Hb. reflexivity.
Qed.

(* ---------- cuckoo ---------- *)
Lemma place_spec es : forall pre,
  place (pre ++ repeat [] (length es)) (length pre) es = (pre ++ es, N.of_nat (occ es)).
Proof.
  induction es as [|e t IH]; intros pre; cbn [place length repeat].
  - rewrite !app_nil_r. reflexivity.
  - assert (Hbase : pre ++ [] :: repeat [] (length t) = (pre ++ [[]]) ++ repeat [] (length t))
      by (rewrite <- app_assoc; reflexivity).
    rewrite Hbase.
    replace (S (length pre)) with (length (pre ++ [[]])) by (rewrite app_length; simpl; lia).
    rewrite (IH (pre ++ [[]])). cbn [fst snd].
    rewrite <- Hbase.
    match goal with |- context [(?a <? ?b)%nat] => destruct (a <? b)%nat eqn:Elt end.
    2:{ apply Nat.ltb_ge in Elt. rewrite app_length in Elt. simpl in Elt. lia. }
    destruct e as [|e0 e'].
    + cbn [bytes_eqb negb andb]. rewrite <- app_assoc. rewrite occ_cons. reflexivity.
    + cbn [bytes_eqb negb andb]. rewrite occ_cons. cbn [nonempty].
      f_equal; [|lia].
      rewrite <- app_assoc. cbn [app]. unfold setnth.
      clear. induction pre as [|a p IHp]; simpl; [reflexivity|]. f_equal. exact IHp.
Qed.

Lemma map_tok_B_tlistB l : map tok_B (tok_L (tlistB l)) = l.
Proof. unfold tlistB. cbn [tok_L]. rewrite map_map. cbn [tok_B]. apply map_id. Qed.

Lemma imp_doc_bucket bs b : bk_wf bs b -> imp_bucket bs (doc_bucket b) = b.
Proof.
  intros (Hs & Hl & Hc). unfold imp_bucket, doc_bucket, tlistB.
  rewrite map_map. cbn [tok_B]. rewrite map_id.
  pose proof (place_spec (k_slots b) []) as Hp. cbn [app length] in Hp.
  rewrite <- Hl. rewrite Hp. cbn [fst snd]. destruct b as [sz ln sl]; cbn [k_size k_len k_slots] in *. subst. reflexivity.
Qed.

Section Docs.
Variable ftext : N -> bytes.
Variable fbits : bytes -> N.

Theorem cuckoo_doc_roundtrip f : ck_inv f ->
  exists d, doc_cuckoo f = Ok d /\ imp_cuckoo d = Ok f.
Proof.
  intros ((Hwf & Hlen & _) & _). unfold doc_cuckoo.
  replace (N.to_nat (q_size f) <? length (q_buckets f))%nat with false by (symmetry; apply Nat.ltb_ge; lia).
  eexists. split; [reflexivity|]. unfold imp_cuckoo.
  rewrite Hlen, Nat.sub_diag. cbn [repeat]. rewrite app_nil_r, map_length.
  replace (N.to_nat (q_size f) <? length (q_buckets f))%nat with false by (symmetry; apply Nat.ltb_ge; lia).
  rewrite Hlen, Nat.sub_diag. cbn [repeat]. rewrite app_nil_r, map_map.
  assert (Hm : map (fun x => imp_bucket (q_bsize f) (doc_bucket x)) (q_buckets f) = q_buckets f).
  { rewrite <- (map_id (q_buckets f)) at 2. apply map_ext_in. intros b Hb.
    rewrite Forall_forall in Hwf. apply imp_doc_bucket. apply Hwf. exact Hb. }
  rewrite Hm. destruct f; reflexivity.
Qed.
End Docs.
