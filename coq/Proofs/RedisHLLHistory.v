(* C06 on the Redis model over whole histories: a history of updates through the Redis-backed
   sketch keeps representing the in-memory sketch that received the same updates; hence the stored
   register list depends only on the SET of elements inserted (duplicates and order do not matter). *)
From GX.Model Require Import Base HLL Redis RedisCMS RedisHLL.
From GX.Proofs Require Import ListLemmas RedisProofs HLLProofs HLLApi RedisCMSRefine RedisHLLRefine.
From Coq Require Import Lia ZifyN ZifyNat ZifyBool.

Section Hist.
Variable hic : N -> bytes -> N * N.

Fixpoint rupd_all (s : store) (h : rhll) (xs : list bytes) : outcome unit * store :=
  match xs with
  | [] => (Ok tt, s)
  | x :: t => match rhll_update hic s h x with
              | (Ok _, s') => rupd_all s' h t
              | r => r
              end
  end.

Theorem rupd_all_refines xs : forall s h mh mh',
  hrefines s h mh -> (forall p x, fst (hic p x) < 256) ->
  upd_all hic mh xs = Ok mh' ->
  exists s', rupd_all s h xs = (Ok tt, s') /\ hrefines s' h mh'.
Proof.
  induction xs as [|x t IH]; intros s h mh mh' HR Hidx Hrun.
  - unfold upd_all in Hrun. cbn [fold_left] in Hrun. injection Hrun as <-. exists s. split; [reflexivity|exact HR].
  - unfold upd_all in Hrun. cbn [fold_left ustep obind] in Hrun.
    pose proof (hll_update_refines hic s h mh x HR (Hidx _ _)) as Hstep.
    destruct (hll_update hic mh x) as [mh1|e|e] eqn:E.
    + destruct Hstep as (s1 & Hs1 & HR1). cbn [rupd_all]. rewrite Hs1.
      apply (IH s1 h mh1 mh' HR1 Hidx). exact Hrun.
    + rewrite fold_ustep_err in Hrun. discriminate.
    + rewrite fold_ustep_panic in Hrun. discriminate.
Qed.

(* the Redis register list after two histories over the same set of elements is the same *)
Theorem redis_state_depends_on_set_only s h mh xs ys m1 m2 :
  hrefines s h mh -> (forall p x, fst (hic p x) < 256) ->
  (forall x, In x xs <-> In x ys) ->
  upd_all hic mh xs = Ok m1 -> upd_all hic mh ys = Ok m2 ->
  exists s1 s2, rupd_all s h xs = (Ok tt, s1) /\ rupd_all s h ys = (Ok tt, s2) /\
                r_list s1 (rh_key h) = r_list s2 (rh_key h).
Proof.
  intros HR Hidx Hset H1 H2.
  destruct (rupd_all_refines xs s h mh m1 HR Hidx H1) as (s1 & R1 & (_ & _ & _ & L1)).
  destruct (rupd_all_refines ys s h mh m2 HR Hidx H2) as (s2 & R2 & (_ & _ & _ & L2)).
  exists s1, s2. split; [exact R1|]. split; [exact R2|].
  destruct HR as (_ & _ & Hw & _).
  rewrite L1, L2, (set_dependence hic mh xs ys m1 m2 Hw Hset H1 H2). reflexivity.
Qed.
End Hist.

(* C06 end to end on the Redis model: two Redis-backed sketches that represent the in-memory
   sketches of two streams; after Merge the receiver represents the in-memory sketch of the
   concatenated stream (the union), and the argument still represents its own stream *)
Theorem redis_merge_is_union (hic : N -> bytes -> N * N) m al s0 xs ys ma mb u s a b :
  hll_new m al = Ok s0 -> upd_all hic s0 xs = Ok ma -> upd_all hic s0 ys = Ok mb ->
  upd_all hic s0 (xs ++ ys) = Ok u ->
  hrefines s a ma -> hrefines s b mb -> rh_key a <> rh_key b ->
  exists s', rhll_merge s a b = (Ok tt, s') /\ hrefines s' a u /\ hrefines s' b mb.
Proof.
  intros Hn Ha Hb Hu HRa HRb Hk.
  destruct (new_wf m al s0 Hn) as (Hw0 & _).
  destruct (upd_all_regs hic xs s0 ma Hw0 Ha) as (_ & _ & Ma & _).
  destruct (upd_all_regs hic ys s0 mb Hw0 Hb) as (_ & _ & Mb & _).
  destruct (hll_merge_refines s a b ma mb HRa HRb Hk (eq_trans Ma (eq_sym Mb))) as (s' & mm & Hm & Hr & HRa' & HRb').
  exists s'. split; [exact Hr|]. split; [|exact HRb'].
  rewrite <- (merge_is_union hic m al s0 xs ys ma mb u mm Hn Ha Hb Hu Hm). exact HRa'.
Qed.
