(* C04, last clause: whenever the sketch is exact on the inserted elements (no collisions), the
   reported counts are the true totals and the reported elements are a top-k set: no element left
   out is heavier than any reported one (ties at the boundary may go either way). Corollaries of
   the history theorems of TopKInv / TopKRedisInv. *)
From GX.Model Require Import Base CMS Heap TopK Redis RedisCMS RedisTopK.
From GX.Proofs Require Import ListLemmas CMSProofs HeapProofs TopKProofs TopKInv RedisCMSRefine TopKRedisInv.
From Coq Require Import Permutation Lia.

Theorem topk_exact_without_collisions cpos rows cols
  (cpos_len : forall x, length (cpos rows cols x) = N.to_nat rows)
  (cpos_lt : forall x p, In p (cpos rows cols x) -> p < cols) k s0 ins t :
  1 <= k -> cms_new rows cols = Ok s0 -> Forall (fun e => 1 <= snd e) ins -> total ins < two64 ->
  trun cpos (mkTopk k s0 []) ins = Ok t ->
  (forall x, In x (map fst ins) -> cms_count cpos (t_sketch t) x = true_count ins x) ->
  let vs := topk_values t in
  (forall e, In e vs -> hfreq e = true_count ins (fst e)) /\
  (forall x, In x (map fst ins) -> ~ In x (map fst vs) ->
     forall e, In e vs -> true_count ins x <= true_count ins (fst e)).
Proof.
  intros Hk Hn Hpos Htot Hrun Hex vs.
  destruct (topk_values_history cpos rows cols cpos_len cpos_lt k s0 ins Hk Hn Hpos Htot)
    as (t' & Hrun' & _ & _ & Hrep & Hout).
  rewrite Hrun in Hrun'. injection Hrun' as <-.
  assert (Hexact : forall e, In e vs -> hfreq e = true_count ins (fst e)).
  { intros e He. destruct (Hrep e He) as (Hin & Hlo & Hhi & _). rewrite (Hex _ Hin) in Hhi. lia. }
  split; [exact Hexact|].
  intros x Hx Hnx e He. destruct (Hout x Hx Hnx) as [_ Hle]. rewrite <- (Hexact e He). exact (Hle e He).
Qed.

Theorem redis_topk_exact_without_collisions (cpos : N -> N -> bytes -> list N) rows cols
  (cpos_len : forall x, length (cpos rows cols x) = N.to_nat rows)
  (cpos_lt : forall x p, In p (cpos rows cols x) -> p < cols) s t H :
  0 < rows -> 0 < cols -> RTI cpos rows cols s t H -> 1 <= rt_k t ->
  (forall m, refines rows cols s (rt_sketch t) m -> repr cpos rows cols m H ->
     forall x, In x (map fst H) -> cms_count cpos m x = true_count H x) ->
  let vs := rtopk_values s t in
  (forall e, In e vs -> hfreq e = true_count H (fst e)) /\
  (forall x, In x (map fst H) -> ~ In x (map fst vs) ->
     forall e, In e vs -> true_count H x <= true_count H (fst e)).
Proof.
  intros Hr Hc HI Hk Hex vs.
  pose proof (rvalues_spec cpos rows cols cpos_len cpos_lt Hr Hc s t H HI Hk) as (_ & _ & Hrep & Hout).
  destruct HI as (m & HR & Hrepm & _ & HZ).
  assert (Pv : Permutation (r_zset s (rt_heap t)) vs).
  { unfold vs, rtopk_values. eapply perm_trans; [apply Permutation_rev|apply sort_entries_perm]. }
  assert (Hexact : forall e, In e vs -> hfreq e = true_count H (fst e)).
  { intros e He. destruct (Hrep e He) as (Hin & Hlo & _).
    assert (Hz : In e (r_zset s (rt_heap t))) by (eapply Permutation_in; [apply Permutation_sym; exact Pv|exact He]).
    destruct (zi_entries _ _ _ _ HZ e Hz) as (_ & _ & Hhi). rewrite (Hex m HR Hrepm _ Hin) in Hhi.
    unfold hfreq in *. lia. }
  split; [exact Hexact|].
  intros x Hx Hnx e He. destruct (Hout x Hx Hnx) as [_ Hle]. rewrite <- (Hexact e He). exact (Hle e He).
Qed.
