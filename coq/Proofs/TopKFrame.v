(* TopKFrame.v — C19 for the Redis-backed Top-K: Insert and Values read and write only the
   structure's own keys — the rows of its Count-Min sketch and its sorted set. *)
From GX.Model Require Import Base Redis RedisCMS Heap TopK RedisTopK.
From GX.Proofs Require Import ListLemmas RedisProofs FrameProofs CuckooFrame.
From Coq Require Import ZArith Lia.
Open Scope N_scope.

(* ---------- sorted-set primitives ---------- *)
Lemma sget_putzset s k z k' : sget (r_putzset s k z) k' =
  if bytes_eqb k' k then (match z with [] => None | _ => Some (VZSet z) end) else sget s k'.
Proof.
  unfold r_putzset. destruct (bytes_eqb k' k) eqn:E.
  - apply bytes_eqb_eq in E. subst k'. destruct z; [apply sget_sdel_same|apply sget_sset_same].
  - assert (Hne : k' <> k) by (intros ->; rewrite bytes_eqb_refl in E; discriminate).
    destruct z; [apply sget_sdel_other|apply sget_sset_other]; exact Hne.
Qed.

Lemma putzset_frame s k z k' : k' <> k -> sget (r_putzset s k z) k' = sget s k'.
Proof.
  intros H. rewrite sget_putzset. destruct (bytes_eqb k' k) eqn:E; [|reflexivity].
  apply bytes_eqb_eq in E. contradiction.
Qed.

Section ZPrims.
Variable K : keyset.
Lemma putzset_agree s t k z : agree K s t -> agree K (r_putzset s k z) (r_putzset t k z).
Proof. intros Ha k' Hk'. rewrite !sget_putzset. destruct (bytes_eqb k' k); [reflexivity|apply Ha; exact Hk']. Qed.
Lemma r_zset_agree s t k : agree K s t -> K k -> r_zset s k = r_zset t k.
Proof. intros Ha Hk. unfold r_zset. rewrite (Ha k Hk). reflexivity. Qed.
Lemma r_zadd_agree s t k m sc : agree K s t -> K k -> agree K (r_zadd s k m sc) (r_zadd t k m sc).
Proof. intros Ha Hk. unfold r_zadd. rewrite (r_zset_agree s t k Ha Hk). apply putzset_agree. exact Ha. Qed.
Lemma r_zrem_agree s t k m : agree K s t -> K k -> agree K (r_zrem s k m) (r_zrem t k m).
Proof. intros Ha Hk. unfold r_zrem. rewrite (r_zset_agree s t k Ha Hk). apply putzset_agree. exact Ha. Qed.
Lemma r_zpopmin_agree s t k : agree K s t -> K k -> agree K (r_zpopmin s k) (r_zpopmin t k).
Proof. intros Ha Hk. unfold r_zpopmin. rewrite (r_zset_agree s t k Ha Hk). apply putzset_agree. exact Ha. Qed.
End ZPrims.

(* ---------- the sketch's cells, for any key set containing the row keys ---------- *)
Section Cells.
Variable K : keyset.
Variable key : bytes.
Hypothesis Hrow : forall r, K (row_key key r).

Lemma upd_cells_frame' count rcs : forall s s', upd_cells s key rcs count = Some s' ->
  forall k, ~ K k -> sget s' k = sget s k.
Proof.
  induction rcs as [|[r c] t IH]; intros s s' H k Hk; cbn [upd_cells] in H; [injection H as <-; reflexivity|].
  destruct (r_lindex s (row_key key r) c) as [v|]; [|discriminate].
  destruct (lua_tonum v) as [n|]; [|discriminate].
  assert (Hne : k <> row_key key r) by (intros ->; apply Hk; apply Hrow).
  destruct (r_lset s (row_key key r) c (dec (round53 (n + count)))) as [s2|] eqn:E.
  - rewrite (IH _ _ H k Hk). apply (r_lset_frame _ _ _ _ _ E). exact Hne.
  - apply (IH _ _ H k Hk).
Qed.

Lemma upd_cells_partial_frame' count rcs : forall s k, ~ K k ->
  sget (upd_cells_partial s key rcs count) k = sget s k.
Proof.
  induction rcs as [|[r c] t IH]; intros s k Hk; cbn [upd_cells_partial]; [reflexivity|].
  destruct (r_lindex s (row_key key r) c) as [v|]; [|reflexivity].
  destruct (lua_tonum v) as [n|]; [|reflexivity].
  assert (Hne : k <> row_key key r) by (intros ->; apply Hk; apply Hrow).
  destruct (r_lset s (row_key key r) c (dec (round53 (n + count)))) as [s2|] eqn:E.
  - rewrite (IH _ k Hk). apply (r_lset_frame _ _ _ _ _ E). exact Hne.
  - apply (IH _ k Hk).
Qed.

Lemma upd_cells_agree' count rcs : forall s s', agree K s s' ->
  match upd_cells s key rcs count, upd_cells s' key rcs count with
  | Some a, Some b => agree K a b
  | None, None => True
  | _, _ => False
  end.
Proof.
  induction rcs as [|[r c] t IH]; intros s s' Ha; cbn [upd_cells]; [exact Ha|].
  rewrite (r_lindex_agree _ s s' _ c Ha (Hrow r)).
  destruct (r_lindex s' (row_key key r) c) as [v|]; [|exact I].
  destruct (lua_tonum v) as [n|]; [|exact I].
  pose proof (r_lset_agree _ s s' (row_key key r) c (dec (round53 (n + count))) Ha (Hrow r)) as Hl.
  destruct (r_lset s (row_key key r) c _) as [a|], (r_lset s' (row_key key r) c _) as [b|]; try contradiction.
  - apply IH. exact Hl.
  - apply IH. exact Ha.
Qed.

Lemma upd_cells_partial_agree' count rcs : forall s s', agree K s s' ->
  agree K (upd_cells_partial s key rcs count) (upd_cells_partial s' key rcs count).
Proof.
  induction rcs as [|[r c] t IH]; intros s s' Ha; cbn [upd_cells_partial]; [exact Ha|].
  rewrite (r_lindex_agree _ s s' _ c Ha (Hrow r)).
  destruct (r_lindex s' (row_key key r) c) as [v|]; [|exact Ha].
  destruct (lua_tonum v) as [n|]; [|exact Ha].
  pose proof (r_lset_agree _ s s' (row_key key r) c (dec (round53 (n + count))) Ha (Hrow r)) as Hl.
  destruct (r_lset s (row_key key r) c _) as [a|], (r_lset s' (row_key key r) c _) as [b|]; try contradiction.
  - apply IH. exact Hl.
  - apply IH. exact Ha.
Qed.

Lemma count_cells_agree' rcs : forall s s' mn, agree K s s' ->
  count_cells s key rcs mn = count_cells s' key rcs mn.
Proof.
  induction rcs as [|[r c] t IH]; intros s s' mn Ha; cbn [count_cells]; [reflexivity|].
  rewrite (r_lindex_agree _ s s' _ c Ha (Hrow r)).
  destruct (r_lindex s' (row_key key r) c) as [v|]; [|reflexivity].
  destruct (lua_tonum v) as [n|]; [|reflexivity]. apply IH. exact Ha.
Qed.
End Cells.

(* ---------- Top-K ---------- *)
Definition Ktk (t : rtopk) : keyset := fun k => k = rt_heap t \/ exists r, k = row_key (rc_key (rt_sketch t)) r.

Section TopK.
Variable cpos : N -> N -> bytes -> list N.
Variable t : rtopk.
Notation K := (Ktk t).
Notation skey := (rc_key (rt_sketch t)).

Lemma K_row r : K (row_key skey r).
Proof. right. exists r. reflexivity. Qed.
Lemma K_heap : K (rt_heap t).
Proof. left. reflexivity. Qed.
Lemma notK_heap k : ~ K k -> k <> rt_heap t.
Proof. intros H E. apply H. subst. apply K_heap. Qed.

Lemma update_frame s x c k : ~ K k -> sget (snd (rcms_update cpos s (rt_sketch t) x c)) k = sget s k.
Proof.
  intros Hk. unfold rcms_update.
  destruct (upd_cells s skey (positions_rc cpos (rt_sketch t) x) (round53 c)) as [s'|] eqn:E; cbn [snd].
  - apply (upd_cells_frame' K skey K_row _ _ _ _ E). exact Hk.
  - apply (upd_cells_partial_frame' K skey K_row). exact Hk.
Qed.

Lemma update_agree s s' x c : agree K s s' ->
  fst (rcms_update cpos s (rt_sketch t) x c) = fst (rcms_update cpos s' (rt_sketch t) x c) /\
  agree K (snd (rcms_update cpos s (rt_sketch t) x c)) (snd (rcms_update cpos s' (rt_sketch t) x c)).
Proof.
  intros Ha. unfold rcms_update.
  pose proof (upd_cells_agree' K skey K_row (round53 c) (positions_rc cpos (rt_sketch t) x) s s' Ha) as Hu.
  destruct (upd_cells s skey _ _) as [a|], (upd_cells s' skey _ _) as [b|]; try contradiction; cbn [fst snd].
  - split; [reflexivity|exact Hu].
  - split; [reflexivity|]. apply (upd_cells_partial_agree' K skey K_row). exact Ha.
Qed.

Lemma count_agree s s' sk x : rc_key sk = skey -> agree K s s' -> rcms_count cpos s sk x = rcms_count cpos s' sk x.
Proof.
  intros Hk Ha. unfold rcms_count. rewrite Hk.
  rewrite (count_cells_agree' K skey K_row (positions_rc cpos sk x) s s' 0 Ha). reflexivity.
Qed.

Lemma update_keeps_key s x c :
  rc_key (match fst (rcms_update cpos s (rt_sketch t) x c) with Ok sk' => sk' | _ => rt_sketch t end) = skey.
Proof. unfold rcms_update. destruct (upd_cells _ _ _ _); reflexivity. Qed.

Definition op_tk_insert (x : bytes) (c : N) : op (N * N) :=
  fun s => let r := rtopk_insert cpos s t x c in
           (snd r, match fst r with Ok _ => (0, 0) | Err e => (1, e) | Panic e => (2, e) end).
Definition op_tk_values : op (list hentry) := fun s => (s, rtopk_values s t).

Lemma insert_eq s x c : rtopk_insert cpos s t x c =
  if c =? 0 then (Panic P_OTHER, s)
  else
    let ru := fst (rcms_update cpos s (rt_sketch t) x c) in
    let s1 := snd (rcms_update cpos s (rt_sketch t) x c) in
    let sk := match ru with Ok sk' => sk' | _ => rt_sketch t end in
    let t1 := mkRtopk (rt_k t) (rt_er t) (rt_acc t) sk (rt_heap t) (rt_meta t) in
    match rcms_count cpos s1 sk x with
    | Ok f =>
        let z := r_zset s1 (rt_heap t) in
        let accept := (N.of_nat (length z) <? rt_k t) ||
                     (match z with e :: _ => snd e <=? f | [] => false end) in
        if accept then
          let s2 := match z_score x z with
                    | Some sc => if 0 <? sc then r_zrem s1 (rt_heap t) x else s1
                    | None => s1
                    end in
          let s3 := r_zadd s2 (rt_heap t) x (round53 f) in
          let s4 := if rt_k t <? N.of_nat (length (r_zset s3 (rt_heap t))) then r_zpopmin s3 (rt_heap t) else s3 in
          (Ok t1, s4)
        else (Ok t1, s1)
    | Err e => (Err e, s1)
    | Panic e => (Panic e, s1)
    end.
Proof. unfold rtopk_insert. destruct (c =? 0); [reflexivity|]. destruct (rcms_update cpos s (rt_sketch t) x c). reflexivity. Qed.

Theorem tk_insert_local x c : local K (op_tk_insert x c).
Proof.
  split.
  - intros s k Hk. unfold op_tk_insert. cbn [fst snd]. rewrite insert_eq.
    destruct (c =? 0); [reflexivity|]. cbv zeta.
    pose proof (update_frame s x c k Hk) as Hu.
    destruct (rcms_count cpos _ _ x) as [f|e|p]; cbn [snd]; try exact Hu.
    destruct (_ || _); cbn [snd]; [|exact Hu].
    pose proof (notK_heap k Hk) as Hh.
    assert (H2 : forall s2, sget s2 k = sget s k ->
              sget (if rt_k t <? N.of_nat (length (r_zset (r_zadd s2 (rt_heap t) x (round53 f)) (rt_heap t)))
                    then r_zpopmin (r_zadd s2 (rt_heap t) x (round53 f)) (rt_heap t)
                    else r_zadd s2 (rt_heap t) x (round53 f)) k = sget s k).
    { intros s2 H2. destruct (_ <? _).
      - unfold r_zpopmin. rewrite putzset_frame by exact Hh. unfold r_zadd. rewrite putzset_frame by exact Hh. exact H2.
      - unfold r_zadd. rewrite putzset_frame by exact Hh. exact H2. }
    apply H2. destruct (z_score x _) as [sc|]; [|exact Hu]. destruct (0 <? sc); [|exact Hu].
    unfold r_zrem. rewrite putzset_frame by exact Hh. exact Hu.
  - intros s s' Ha. unfold op_tk_insert. cbn [fst snd]. rewrite !insert_eq.
    destruct (c =? 0); [cbn [fst snd]; split; [reflexivity|exact Ha]|]. cbv zeta.
    destruct (update_agree s s' x c Ha) as [Hr Ha1]. rewrite Hr.
    set (sk := match fst (rcms_update cpos s' (rt_sketch t) x c) with Ok sk' => sk' | _ => rt_sketch t end).
    assert (Hsk : rc_key sk = skey) by apply update_keeps_key.
    rewrite (count_agree _ _ sk x Hsk Ha1).
    destruct (rcms_count cpos (snd (rcms_update cpos s' (rt_sketch t) x c)) sk x) as [f|e|p]; cbn [fst snd];
      try (split; [reflexivity|exact Ha1]).
    rewrite (r_zset_agree K _ _ (rt_heap t) Ha1 K_heap).
    set (z := r_zset (snd (rcms_update cpos s' (rt_sketch t) x c)) (rt_heap t)).
    destruct (_ || _); cbn [fst snd]; [|split; [reflexivity|exact Ha1]].
    split; [reflexivity|].
    assert (Ha2 : agree K
      (match z_score x z with Some sc => if 0 <? sc then r_zrem (snd (rcms_update cpos s (rt_sketch t) x c)) (rt_heap t) x
                                                     else snd (rcms_update cpos s (rt_sketch t) x c)
                            | None => snd (rcms_update cpos s (rt_sketch t) x c) end)
      (match z_score x z with Some sc => if 0 <? sc then r_zrem (snd (rcms_update cpos s' (rt_sketch t) x c)) (rt_heap t) x
                                                     else snd (rcms_update cpos s' (rt_sketch t) x c)
                            | None => snd (rcms_update cpos s' (rt_sketch t) x c) end)).
    { destruct (z_score x z) as [sc|]; [|exact Ha1]. destruct (0 <? sc); [|exact Ha1].
      apply r_zrem_agree; [exact Ha1|apply K_heap]. }
    pose proof (r_zadd_agree K _ _ (rt_heap t) x (round53 f) Ha2 K_heap) as Ha3.
    rewrite (r_zset_agree K _ _ (rt_heap t) Ha3 K_heap).
    destruct (_ <? _); [|exact Ha3]. apply r_zpopmin_agree; [exact Ha3|apply K_heap].
Qed.

Theorem tk_values_local : local K op_tk_values.
Proof.
  split; [reflexivity|]. intros s s' Ha. cbn [op_tk_values fst snd]. split; [|exact Ha].
  unfold rtopk_values. rewrite (r_zset_agree K s s' _ Ha K_heap). reflexivity.
Qed.
End TopK.
