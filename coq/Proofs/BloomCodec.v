(* BloomCodec.v — the binary image of an in-memory Bloom filter (C11, C18): the third-party bitset
   packs bit i into word i/64 at position i mod 64; decoding the words of any bit list gives the
   list back, for every length, and every strict prefix of the image is rejected. *)
From GX.Model Require Import Base CMS Bloom HLL Cuckoo Heap TopK Codec.
From GX.Proofs Require Import ListLemmas CodecProofs.
From Coq Require Import ZArith Lia ZifyN ZifyNat ZifyBool.
Open Scope N_scope.

(* ---------- one word ---------- *)
Lemma word_of_bits_testbit c : forall i, N.testbit (word_of_bits c) (N.of_nat i) = nth i c false.
Proof.
  induction c as [|b t IH]; intros i.
  - simpl word_of_bits. rewrite N.bits_0. destruct i; reflexivity.
  - cbn [word_of_bits]. replace ((if b then 1 else 0) + 2 * word_of_bits t) with (2 * word_of_bits t + N.b2n b)
      by (destruct b; cbn [N.b2n]; lia).
    destruct i as [|i].
    + simpl. apply N.testbit_0_r.
    + rewrite Nat2N.inj_succ, N.testbit_succ_r. simpl. apply IH.
Qed.

Lemma word_of_bits_lt c : word_of_bits c < 2 ^ N.of_nat (length c).
Proof.
  induction c as [|b t IH]; [simpl; lia|]. cbn [word_of_bits length]. rewrite Nat2N.inj_succ, N.pow_succ_r'.
  set (w := word_of_bits t) in *. set (p := 2 ^ N.of_nat (length t)) in *. destruct b; lia.
Qed.

Lemma word_to_bits_of_bits c : (length c <= 64)%nat ->
  word_to_bits (word_of_bits c) = c ++ repeat false (64 - length c).
Proof.
  intros Hc. unfold word_to_bits. apply (nth_ext _ _ false false).
  - rewrite map_length, nseq_length, app_length, repeat_length. lia.
  - intros i Hi. rewrite map_length, nseq_length in Hi.
    rewrite (nth_indep _ false (N.testbit (word_of_bits c) 64)) by (rewrite map_length, nseq_length; exact Hi).
    rewrite (map_nth (N.testbit (word_of_bits c)) (nseq 64) 64 i).
    rewrite (nth_nseq 64 i 64) by lia. rewrite word_of_bits_testbit.
    destruct (Nat.lt_ge_cases i (length c)) as [Hl|Hl].
    + rewrite app_nth1 by exact Hl. reflexivity.
    + rewrite nth_overflow by exact Hl. rewrite app_nth2 by exact Hl.
      symmetry. apply nth_repeat.
Qed.

(* ---------- all words ---------- *)
Ltac Zify.zify_post_hook ::= Z.div_mod_to_equations.

Lemma chunk64_spec fuel : forall bits, (length bits <= fuel)%nat ->
  firstn (length bits) (flat_map word_to_bits (map word_of_bits (chunk64 fuel bits))) = bits /\
  length (chunk64 fuel bits) = ((length bits + 63) / 64)%nat /\
  Forall (fun w => w < two64) (map word_of_bits (chunk64 fuel bits)).
Proof.
  induction fuel as [|f IH]; intros bits Hl.
  - destruct bits; [|simpl in Hl; lia]. simpl. auto.
  - destruct bits as [|b0 t] eqn:Eb; [simpl; auto|]. rewrite <- Eb in *.
    assert (Hne : bits <> []) by (rewrite Eb; discriminate).
    cbn [chunk64]. destruct bits as [|b1 t1] eqn:Eb2; [congruence|]. rewrite <- Eb2 in *. clear Eb.
    set (c := firstn 64 bits). set (rest := skipn 64 bits).
    assert (Hcl : (length c <= 64)%nat) by (unfold c; rewrite firstn_length; lia).
    assert (Hrl : length rest = (length bits - 64)%nat) by (unfold rest; apply skipn_length).
    assert (Hpos : (1 <= length bits)%nat) by (rewrite Eb2; simpl; lia).
    destruct (IH rest ltac:(lia)) as (I1 & I2 & I3).
    cbn [map flat_map]. rewrite (word_to_bits_of_bits c Hcl).
    split; [|split].
    + destruct (Nat.le_gt_cases 64 (length bits)) as [Hge|Hlt].
      * assert (Hc64 : length c = 64%nat) by (unfold c; rewrite firstn_length; lia).
        rewrite Hc64, Nat.sub_diag. simpl repeat. rewrite app_nil_r.
        rewrite firstn_app, Hc64. rewrite (firstn_all2 (n := length bits) c) by lia.
        replace (length bits - 64)%nat with (length rest) by lia. rewrite I1.
        unfold c, rest. apply firstn_skipn.
      * assert (Hcb : c = bits) by (unfold c; apply firstn_all2; lia).
        assert (Hr0 : rest = []) by (unfold rest; apply skipn_all2; lia).
        rewrite Hr0. destruct f; simpl chunk64; simpl map; simpl flat_map; rewrite app_nil_r, Hcb;
          rewrite firstn_app, Nat.sub_diag, firstn_all; simpl; apply app_nil_r.
    + simpl length. rewrite I2, Hrl. lia.
    + constructor; [|exact I3].
      pose proof (word_of_bits_lt c) as Hw.
      assert (2 ^ N.of_nat (length c) <= 2 ^ 64) by (apply N.pow_le_mono_r; lia).
      unfold two64. change (2 ^ 64) with 18446744073709551616 in *. lia.
Qed.

Lemma words_needed_nat n : N.to_nat (words_needed (N.of_nat n)) = ((n + 63) / 64)%nat.
Proof. unfold words_needed. lia. Qed.

Theorem bitset_roundtrip bits rest : N.of_nat (length bits) < two64 ->
  dec_bitset (enc_bitset bits ++ rest) =
    Ok (bits, 8 + 8 * words_needed (N.of_nat (length bits)), rest).
Proof.
  intros Hl. unfold dec_bitset, enc_bitset. rewrite <- app_assoc.
  rewrite rd_u64_enc by exact Hl. cbn [obind fst snd].
  destruct (chunk64_spec (length bits) bits (le_n _)) as (C1 & C2 & C3).
  assert (Hlen : N.to_nat (words_needed (N.of_nat (length bits))) = length (bits_words bits)).
  { unfold bits_words. rewrite map_length, C2. apply words_needed_nat. }
  rewrite Hlen.
  assert (Hsmall : small64 (bits_words bits)) by exact C3.
  rewrite (rd_u64s_enc _ rest Hsmall). cbn [obind fst snd].
  rewrite Nat2N.id. unfold bits_words. rewrite C1. reflexivity.
Qed.

(* ---------- the Bloom image ---------- *)
Definition bloom_cwf (f : bloom) : Prop :=
  b_size f < two64 /\ b_k f < two64 /\ b_bsize f < two64 /\ N.of_nat (length (b_bits f)) < two64.

Theorem bloom_roundtrip f rest : bloom_cwf f ->
  dec_bloom (enc_bloom f ++ rest) = Ok (f, bloom_write_ret f, rest) /\
  bloom_write_ret f = N.of_nat (length (enc_bloom f)).
Proof.
  intros (H1 & H2 & H3 & H4). unfold dec_bloom, enc_bloom. rewrite <- !app_assoc.
  rewrite rd_u64_enc by auto. cbn [obind fst snd].
  rewrite rd_u64_enc by auto. cbn [obind fst snd].
  rewrite rd_u64_enc by auto. cbn [obind fst snd].
  rewrite (bitset_roundtrip (b_bits f) rest H4). cbn [obind].
  split.
  - unfold bloom_write_ret. destruct f as [sz k bs bits]; cbn [b_size b_k b_bsize b_bits].
    set (w := words_needed (N.of_nat (length bits))).
    replace (8 + 8 * w + 8 + 16) with (16 + 8 + (8 + 8 * w)) by lia. reflexivity.
  - unfold bloom_write_ret, enc_bitset. rewrite !app_length, !u64be_length, flat_u64_length.
    destruct (chunk64_spec (length (b_bits f)) (b_bits f) (le_n _)) as (_ & C2 & _).
    unfold bits_words. rewrite map_length, C2.
    pose proof (words_needed_nat (length (b_bits f))). lia.
Qed.

Lemma dec_bitset_ext p q s n r : dec_bitset p = Ok (s, n, r) -> dec_bitset (p ++ q) = Ok (s, n, r ++ q).
Proof.
  unfold dec_bitset.
  destruct (rd_u64 p) as [[x1 r1]|t|t] eqn:E1; cbn [obind]; try discriminate. cbn [fst snd].
  destruct (rd_u64s (N.to_nat (words_needed x1)) r1) as [[ws r2]|t|t] eqn:E2; cbn [obind]; try discriminate.
  cbn [fst snd]. intros [= <- <- <-].
  rewrite (rd_u64_ext _ q _ _ E1); cbn [obind fst snd].
  rewrite (rd_u64s_ext _ _ q _ _ E2); cbn [obind fst snd]. reflexivity.
Qed.

Lemma dec_bitset_np p t : dec_bitset p <> Panic t.
Proof.
  unfold dec_bitset.
  destruct (rd_u64 p) as [[x1 r1]|e|e] eqn:E1; cbn [obind]; try discriminate; [|exfalso; eapply rd_u64_np; eauto].
  cbn [fst snd].
  destruct (rd_u64s (N.to_nat (words_needed x1)) r1) as [[ws r2]|e|e] eqn:E2; cbn [obind]; try discriminate.
  exfalso; eapply rd_u64s_np; eauto.
Qed.

Lemma dec_bloom_ext p q s n r : dec_bloom p = Ok (s, n, r) -> dec_bloom (p ++ q) = Ok (s, n, r ++ q).
Proof.
  unfold dec_bloom.
  destruct (rd_u64 p) as [[x1 r1]|t|t] eqn:E1; cbn [obind]; try discriminate. cbn [fst snd].
  destruct (rd_u64 r1) as [[x2 r2]|t|t] eqn:E2; cbn [obind]; try discriminate. cbn [fst snd].
  destruct (rd_u64 r2) as [[x3 r3]|t|t] eqn:E3; cbn [obind]; try discriminate. cbn [fst snd].
  destruct (dec_bitset r3) as [[[bits n4] r4]|t|t] eqn:E4; cbn [obind]; try discriminate.
  intros [= <- <- <-].
  rewrite (rd_u64_ext _ q _ _ E1); cbn [obind fst snd].
  rewrite (rd_u64_ext _ q _ _ E2); cbn [obind fst snd].
  rewrite (rd_u64_ext _ q _ _ E3); cbn [obind fst snd].
  rewrite (dec_bitset_ext _ q _ _ _ E4); cbn [obind]. reflexivity.
Qed.

Lemma dec_bloom_np p t : dec_bloom p <> Panic t.
Proof.
  unfold dec_bloom.
  destruct (rd_u64 p) as [[x1 r1]|e|e] eqn:E1; cbn [obind]; try discriminate; [|exfalso; eapply rd_u64_np; eauto].
  cbn [fst snd].
  destruct (rd_u64 r1) as [[x2 r2]|e|e] eqn:E2; cbn [obind]; try discriminate; [|exfalso; eapply rd_u64_np; eauto].
  cbn [fst snd].
  destruct (rd_u64 r2) as [[x3 r3]|e|e] eqn:E3; cbn [obind]; try discriminate; [|exfalso; eapply rd_u64_np; eauto].
  cbn [fst snd].
  destruct (dec_bitset r3) as [[[bits n4] r4]|e|e] eqn:E4; cbn [obind]; try discriminate.
  exfalso; eapply dec_bitset_np; eauto.
Qed.

Theorem bloom_truncated_rejected f k : bloom_cwf f -> (k < length (enc_bloom f))%nat ->
  exists t, dec_bloom (firstn k (enc_bloom f)) = Err t.
Proof.
  intros Hw Hk. destruct (bloom_roundtrip f [] Hw) as (Hd & _). rewrite app_nil_r in Hd.
  eapply (strict_prefix_rejected dec_bloom dec_bloom_ext dec_bloom_np); eauto.
Qed.
