(* Proofs about the in-memory Count-Min model: the linear cell invariant and its consequences
   (C03 bounds, C12 merge = combined stream). Parametric in the position function. *)
From GX.Model Require Import Base CMS.
From GX.Proofs Require Import ListLemmas.
From Coq Require Import Lia ZifyN ZifyNat ZifyBool.

Definition hist := list (bytes * N).
Definition total (h : hist) : N := sumN (map snd h).
Definition true_count (h : hist) (x : bytes) : N :=
  sumN (map (fun e => if bytes_eqb (fst e) x then snd e else 0) h).
Definition only_elem (h : hist) (x : bytes) : Prop := forall e, In e h -> fst e = x.

Lemma total_app h1 h2 : total (h1 ++ h2) = total h1 + total h2.
Proof. unfold total; now rewrite map_app, sumN_app. Qed.
Lemma total_single x c : total [(x, c)] = c.
Proof. unfold total; cbn [map sumN snd]; lia. Qed.
Lemma true_count_app h1 h2 x : true_count (h1 ++ h2) x = true_count h1 x + true_count h2 x.
Proof. unfold true_count; now rewrite map_app, sumN_app. Qed.
Lemma total_prefix h1 h2 : total h1 <= total (h1 ++ h2).
Proof. rewrite total_app; lia. Qed.

Section CMSProofs.
Variable cpos : N -> N -> bytes -> list N.
Variable rows cols : N.
Hypothesis cpos_len : forall x, length (cpos rows cols x) = N.to_nat rows.
Hypothesis cpos_lt : forall x p, In p (cpos rows cols x) -> p < cols.

Definition pos (y : bytes) (r : N) : N := nth (N.to_nat r) (cpos rows cols y) 0.
Definition cell_sum (h : hist) (r j : N) : N :=
  sumN (map (fun e => if pos (fst e) r =? j then snd e else 0) h).
Definition run_hist (s : cms) (h : hist) : cms :=
  fold_left (fun s e => cms_update cpos s (fst e) (snd e)) h s.

Definition cell (s : cms) (r j : N) : N :=
  nth (N.to_nat j) (nth (N.to_nat r) (c_matrix s) []) 0.
(* dimensions and matrix shape *)
Definition shape (s : cms) : Prop :=
  c_rows s = rows /\ c_cols s = cols /\
  length (c_matrix s) = N.to_nat rows /\
  (forall r, (r < N.to_nat rows)%nat -> length (nth r (c_matrix s) []) = N.to_nat cols).

(* s represents history h: every cell is the sum of the counts hashed to it *)
Definition repr (s : cms) (h : hist) : Prop :=
  shape s /\ forall r j, r < rows -> j < cols -> cell s r j = cell_sum h r j.

Lemma pos_lt y r : r < rows -> pos y r < cols.
Proof.
  intros H; unfold pos. apply (cpos_lt y). apply nth_In. rewrite cpos_len; lia.
Qed.

Lemma cell_sum_app h1 h2 r j : cell_sum (h1 ++ h2) r j = cell_sum h1 r j + cell_sum h2 r j.
Proof. unfold cell_sum; now rewrite map_app, sumN_app. Qed.

Lemma cell_sum_single x c r j : cell_sum [(x, c)] r j = if pos x r =? j then c else 0.
Proof. unfold cell_sum; cbn [map sumN fst snd]. destruct (pos x r =? j); lia. Qed.

Lemma cell_sum_le_total h r j : cell_sum h r j <= total h.
Proof.
  unfold cell_sum, total; induction h as [|[y c] t IH]; simpl; [lia|].
  destruct (pos y r =? j); lia.
Qed.

Lemma true_count_le_cell h x r : true_count h x <= cell_sum h r (pos x r).
Proof.
  unfold cell_sum, true_count; induction h as [|[y c] t IH]; simpl; [lia|].
  destruct (bytes_eqb y x) eqn:E.
  - apply bytes_eqb_eq in E; subst y. rewrite N.eqb_refl; lia.
  - destruct (pos y r =? pos x r); lia.
Qed.

Lemma cell_sum_only h x r : only_elem h x -> cell_sum h r (pos x r) = true_count h x.
Proof.
  unfold cell_sum, true_count; induction h as [|[y c] t IH]; intros Ho; simpl; [reflexivity|].
  assert (y = x) as -> by (apply (Ho (y, c)); now left).
  rewrite N.eqb_refl, bytes_eqb_refl, IH; [reflexivity|].
  intros e He; apply Ho; now right.
Qed.

Lemma positions_length s x : shape s -> length (cms_positions cpos s x) = N.to_nat rows.
Proof. intros (Hr & Hc & _); unfold cms_positions; rewrite Hr, Hc; apply cpos_len. Qed.

Lemma nth_positions s x r : shape s -> nth (N.to_nat r) (cms_positions cpos s x) 0 = pos x r.
Proof. intros (Hr & Hc & _); unfold cms_positions, pos; now rewrite Hr, Hc. Qed.

Lemma update_row s x c r :
  shape s -> r < rows ->
  nth (N.to_nat r) (c_matrix (cms_update cpos s x c)) [] =
  upd (nth (N.to_nat r) (c_matrix s) []) (N.to_nat (pos x r)) (fun v => wrap64 (v + c)).
Proof.
  intros Hs Hr; pose proof Hs as (_ & _ & Hl & _). unfold cms_update; cbn [c_matrix].
  set (F := fun rp : list N * N => upd (fst rp) (N.to_nat (snd rp)) (fun v => wrap64 (v + c))).
  rewrite nth_indep with (d' := F ([], 0))
    by (rewrite map_length, combine_length, positions_length, Hl by auto; lia).
  rewrite map_nth, combine_nth by (rewrite positions_length by auto; lia).
  unfold F; cbn [fst snd]. now rewrite nth_positions.
Qed.

Lemma update_shape s x c : shape s -> shape (cms_update cpos s x c).
Proof.
  intros Hs; pose proof Hs as (Hr & Hc & Hl & Hrow); unfold shape.
  assert (Hlen : length (c_matrix (cms_update cpos s x c)) = N.to_nat rows).
  { unfold cms_update; cbn [c_matrix].
    rewrite map_length, combine_length, positions_length, Hl by auto; lia. }
  split; [exact Hr|]. split; [exact Hc|]. split; [exact Hlen|].
  intros r Hrr.
  assert (Hk : exists r', r = N.to_nat r' /\ r' < rows) by (exists (N.of_nat r); lia).
  destruct Hk as (r' & -> & Hr').
  rewrite update_row by auto. rewrite upd_length. apply Hrow; lia.
Qed.

Lemma cell_update s x c r j :
  shape s -> r < rows -> j < cols ->
  cell (cms_update cpos s x c) r j =
  if pos x r =? j then wrap64 (cell s r j + c) else cell s r j.
Proof.
  intros Hs Hr Hj; pose proof Hs as (_ & _ & Hl & Hrow); unfold cell.
  rewrite update_row by auto.
  destruct (pos x r =? j) eqn:E.
  - apply N.eqb_eq in E; subst j. rewrite nth_upd_same; auto.
    rewrite Hrow by lia; lia.
  - apply N.eqb_neq in E. rewrite nth_upd_other; auto; lia.
Qed.

Lemma new_repr s : cms_new rows cols = Ok s -> repr s [].
Proof.
  unfold cms_new. destruct ((rows =? 0) || (cols =? 0)) eqn:E; [discriminate|].
  intros [= <-]; unfold repr, shape, cell; cbn [c_rows c_cols c_matrix].
  assert (Hnth : forall r, (r < N.to_nat rows)%nat ->
             nth r (repeat (repeat 0 (N.to_nat cols)) (N.to_nat rows)) [] = repeat 0 (N.to_nat cols)).
  { intros r Hr. rewrite nth_indep with (d' := repeat 0 (N.to_nat cols)) by (rewrite repeat_length; lia).
    apply nth_repeat. }
  split; [split; [reflexivity|split; [reflexivity|split]]|].
  - apply repeat_length.
  - intros r Hr. rewrite Hnth by lia. apply repeat_length.
  - intros r j Hr Hj. rewrite Hnth by lia. rewrite nth_repeat. reflexivity.
Qed.

Lemma update_repr s h x c :
  repr s h -> total (h ++ [(x, c)]) < two64 -> repr (cms_update cpos s x c) (h ++ [(x, c)]).
Proof.
  intros (Hs & Hcell) Ht. split; [now apply update_shape|].
  intros r j Hrr Hjj. rewrite cell_update by auto.
  rewrite cell_sum_app, Hcell, cell_sum_single by auto.
  destruct (pos x r =? j); [|lia].
  apply wrap64_small.
  pose proof (cell_sum_le_total h r j). rewrite total_app, total_single in Ht. lia.
Qed.

Lemma run_hist_repr s h0 h :
  repr s h0 -> total (h0 ++ h) < two64 -> repr (run_hist s h) (h0 ++ h).
Proof.
  revert s h0; induction h as [|[x c] t IH]; intros s h0 Hr Ht; cbn [run_hist fold_left].
  - now rewrite app_nil_r.
  - change (fold_left _ t ?s') with (run_hist s' t). cbn [fst snd].
    replace (h0 ++ (x, c) :: t) with ((h0 ++ [(x, c)]) ++ t) in * by (now rewrite <- app_assoc).
    apply IH; auto. apply update_repr; auto.
    pose proof (total_prefix (h0 ++ [(x, c)]) t); lia.
Qed.

(* cells read by Count *)
Lemma cells_spec s h x v :
  repr s h -> In v (cms_cells cpos s x) ->
  exists r, r < rows /\ v = cell_sum h r (pos x r).
Proof.
  intros (Hs & Hcell) Hin; pose proof Hs as (_ & _ & Hl & Hrow).
  unfold cms_cells in Hin. apply in_map_iff in Hin as ([row p] & <- & Hin).
  apply (In_nth _ _ ([], 0)) in Hin as (k & Hk & Hnth).
  rewrite combine_length, positions_length, Hl, Nat.min_id in Hk by auto.
  rewrite combine_nth in Hnth by (rewrite positions_length by auto; lia).
  injection Hnth as <- <-. cbn [fst snd].
  assert (Hk' : exists r, k = N.to_nat r /\ r < rows) by (exists (N.of_nat k); lia).
  destruct Hk' as (r & -> & Hrr). exists r. split; [lia|].
  rewrite nth_positions by auto.
  apply (Hcell r (pos x r)); [lia|]. now apply pos_lt.
Qed.

Lemma cells_nonempty s h x : repr s h -> 0 < rows -> cms_cells cpos s x <> [].
Proof.
  intros (Hs & _) Hpos E; pose proof Hs as (_ & _ & Hl & _).
  apply (f_equal (@length _)) in E. unfold cms_cells in E.
  rewrite map_length, combine_length, positions_length, Hl in E by auto. simpl in E; lia.
Qed.

Theorem count_lower s h x : repr s h -> 0 < rows -> true_count h x <= cms_count cpos s x.
Proof.
  intros Hr Hp. unfold cms_count. apply min_list_ge; [eapply cells_nonempty; eauto|].
  intros v Hv. destruct (cells_spec _ _ _ _ Hr Hv) as (r & _ & ->).
  apply true_count_le_cell.
Qed.

Theorem count_upper s h x : repr s h -> 0 < rows -> cms_count cpos s x <= total h.
Proof.
  intros Hr Hp. unfold cms_count.
  destruct (cms_cells cpos s x) as [|v l] eqn:E.
  - exfalso; eapply cells_nonempty; eauto.
  - etransitivity; [apply min_list_le_in; now left|].
    destruct (cells_spec s h x v Hr) as (r & _ & ->); [rewrite E; now left|].
    apply cell_sum_le_total.
Qed.

Theorem count_exact_single s h x :
  repr s h -> 0 < rows -> only_elem h x -> cms_count cpos s x = true_count h x.
Proof.
  intros Hr Hp Ho. unfold cms_count. apply min_list_all_eq; [eapply cells_nonempty; eauto|].
  intros v Hv. destruct (cells_spec _ _ _ _ Hr Hv) as (r & _ & ->).
  now apply cell_sum_only.
Qed.

(* ---------- merge ---------- *)
Lemma merge_ok a b : shape a -> shape b -> exists m, cms_merge a b = Ok m.
Proof.
  intros (Hra & Hca & _) (Hrb & Hcb & _). unfold cms_merge.
  rewrite Hra, Hrb, Hca, Hcb, !N.eqb_refl. cbn [negb]. eexists; reflexivity.
Qed.

Lemma merge_fields a b m :
  cms_merge a b = Ok m ->
  c_rows m = c_rows a /\ c_cols m = c_cols a /\ c_allsum m = c_allsum a /\
  c_matrix m = map (fun p => add_rows (fst p) (snd p)) (combine (c_matrix a) (c_matrix b)).
Proof.
  unfold cms_merge.
  destruct (negb (c_rows a =? c_rows b)); [discriminate|].
  destruct (negb (c_cols a =? c_cols b)); [discriminate|].
  intros [= <-]; cbn [c_rows c_cols c_allsum c_matrix]. auto.
Qed.

Lemma merge_row a b m r :
  shape a -> shape b -> cms_merge a b = Ok m -> r < rows ->
  nth (N.to_nat r) (c_matrix m) [] =
  add_rows (nth (N.to_nat r) (c_matrix a) []) (nth (N.to_nat r) (c_matrix b) []).
Proof.
  intros (_ & _ & Hla & _) (_ & _ & Hlb & _) Hm Hr.
  destruct (merge_fields _ _ _ Hm) as (_ & _ & _ & ->).
  set (F := fun p : list N * list N => add_rows (fst p) (snd p)).
  rewrite nth_indep with (d' := F ([], [])) by (rewrite map_length, combine_length; lia).
  rewrite map_nth, combine_nth by lia. reflexivity.
Qed.

Lemma merge_repr a b ha hb m :
  repr a ha -> repr b hb -> total (ha ++ hb) < two64 ->
  cms_merge a b = Ok m -> repr m (ha ++ hb).
Proof.
  intros (Hsa & Hcella) (Hsb & Hcellb) Ht Hm.
  pose proof Hsa as (Hra & Hca & Hla & Hrowa). pose proof Hsb as (Hrb & Hcb & Hlb & Hrowb).
  destruct (merge_fields _ _ _ Hm) as (Hrm & Hcm & _ & Hmm).
  assert (Hlm : length (c_matrix m) = N.to_nat rows)
    by (rewrite Hmm, map_length, combine_length; lia).
  assert (Hsm : shape m).
  { split; [congruence|]. split; [congruence|]. split; [exact Hlm|].
    intros r Hr.
    assert (Hk : exists r', r = N.to_nat r' /\ r' < rows) by (exists (N.of_nat r); lia).
    destruct Hk as (r' & -> & Hr').
    rewrite (merge_row a b m r') by auto. unfold add_rows.
    rewrite map_length, combine_length, Hrowa, Hrowb by lia. lia. }
  split; [exact Hsm|].
  intros r j Hr Hj. unfold cell. rewrite (merge_row a b m r) by auto.
  unfold add_rows.
  set (G := fun p : N * N => wrap64 (fst p + snd p)).
  assert (Hja : length (nth (N.to_nat r) (c_matrix a) []) = N.to_nat cols) by (apply Hrowa; lia).
  assert (Hjb : length (nth (N.to_nat r) (c_matrix b) []) = N.to_nat cols) by (apply Hrowb; lia).
  rewrite nth_indep with (d' := G (0, 0)) by (rewrite map_length, combine_length; lia).
  rewrite map_nth, combine_nth by lia. unfold G; cbn [fst snd].
  specialize (Hcella r j Hr Hj). specialize (Hcellb r j Hr Hj). unfold cell in *.
  rewrite Hcella, Hcellb, cell_sum_app. apply wrap64_small.
  pose proof (cell_sum_le_total (ha ++ hb) r j) as H. rewrite cell_sum_app in H. lia.
Qed.

(* two sketches of the same shape whose histories induce the same cell sums have equal matrices *)
Lemma repr_matrix_eq s1 s2 h1 h2 :
  repr s1 h1 -> repr s2 h2 ->
  (forall r j, cell_sum h1 r j = cell_sum h2 r j) ->
  c_matrix s1 = c_matrix s2.
Proof.
  intros ((_ & _ & Hl1 & Hrow1) & Hcell1) ((_ & _ & Hl2 & Hrow2) & Hcell2) Heq.
  apply list_ext_nth with (d := []); [lia|].
  intros r Hr. rewrite Hl1 in Hr. apply list_ext_nth with (d := 0).
  - rewrite Hrow1, Hrow2 by lia; lia.
  - intros j Hj. rewrite Hrow1 in Hj by lia.
    specialize (Hcell1 (N.of_nat r) (N.of_nat j)). specialize (Hcell2 (N.of_nat r) (N.of_nat j)).
    unfold cell in *. rewrite !Nat2N.id in *. rewrite Hcell1, Hcell2 by lia. apply Heq.
Qed.

Lemma count_matrix_eq s1 s2 x :
  shape s1 -> shape s2 -> c_matrix s1 = c_matrix s2 ->
  cms_count cpos s1 x = cms_count cpos s2 x.
Proof.
  intros (Hr1 & Hc1 & _) (Hr2 & Hc2 & _) Hm.
  unfold cms_count, cms_cells, cms_positions. now rewrite Hr1, Hc1, Hr2, Hc2, Hm.
Qed.

End CMSProofs.

Lemma new_dims rows cols s : cms_new rows cols = Ok s -> 0 < rows /\ 0 < cols.
Proof.
  unfold cms_new. destruct ((rows =? 0) || (cols =? 0)) eqn:E; [discriminate|]. lia.
Qed.

Lemma merge_err a b :
  ~ (c_rows a = c_rows b /\ c_cols a = c_cols b) -> cms_merge a b = Err E_MISMATCH.
Proof.
  unfold cms_merge. destruct (c_rows a =? c_rows b) eqn:E1; cbn [negb]; auto.
  destruct (c_cols a =? c_cols b) eqn:E2; cbn [negb]; auto.
  apply N.eqb_eq in E1, E2. tauto.
Qed.

(* the position formula of the code is well-formed *)
Lemma cpos_metro_len metro rows cols x : length (cpos_metro metro rows cols x) = N.to_nat rows.
Proof. unfold cpos_metro; now rewrite map_length, nseq_length. Qed.

Lemma cpos_metro_lt metro rows cols x p :
  0 < cols -> In p (cpos_metro metro rows cols x) -> p < cols.
Proof.
  intros Hc Hin; unfold cpos_metro in Hin. apply in_map_iff in Hin as (r & <- & _).
  unfold cms_pos1. apply N.mod_lt; lia.
Qed.
